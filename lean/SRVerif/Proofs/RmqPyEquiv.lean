/-
  Equivalence of the MECHANICALLY TRANSLATED functions of
  `superrec2/utils/range_min_query.py` (`SRVerif/Generated/RmqPy.lean`, written by
  `harness/translate_py.py` on every run of the check: `_ilog2`, the structure
  `RangeMinQuery`, `RangeMinQuery.__init__` with its two nested loops and
  `RangeMinQuery.__call__`) with the hand-written model `SRVerif/Model/Lca.lean`
  (`ilog2`, `build` = `buildFrom` / `nextRow` / `rowCell`, `query`, `rmq`).

  Hand-written, stated against the CURRENT generated normal form (see the
  docstring of translate_py.py).  The scripts mention the generated loops only
  through their equation lemmas (`rw [RangeMinQuery.__init__.loop2]`), so they do
  not depend on the names of the Python locals; they do depend on the shape of
  the loops and on the order of the hoisted sub-expressions.
  `Generated/RmqPyEquiv.lean` instantiates the theorems for the definitions
  generated in the current run.

  The generated code works on ONE table that it updates in place
  (`self.sparse_table[depth][i] = …`, `Py.setNat?`), the model produces the rows
  one after the other; the generated code indexes with Python ints (wrapping
  `Py.getInt?`, checked `2 ** e`), the model with natural numbers.  The
  two-dimensional invariant is:

  * `inner_step` / `inner_loop` (induction on the positions): on a table
    `pre ++ prev :: cur :: post` with `depth = pre.length + 1`, the loop over
    `i0 … i0+k-1` raises what the model's `mapE (rowCell lt prev depth)` raises
    and otherwise yields `pre ++ prev :: (cur.take i0 ++ vals.map some ++
    cur.drop (i0+k)) :: post` — the cells `i0 … i0+k-1` of row `depth` hold the
    model's values, every other cell of the table is untouched (in particular
    `prev`, which is read, and the `None` padding);  every index is in range
    and non-negative, `2 ** (depth-1)` has a non-negative exponent;
  * `outer_step` / `outer_loop` (induction on the levels): on a table
    `pre ++ prev :: replicate n blank`, the loop over the depths
    `pre.length+1 … pre.length+n` raises what `buildFrom lt length n pre.length
    prev` raises and otherwise yields `pre ++ rows`;
  * `init_eq`: `__init__` = the model's `build` for EVERY list and comparison
    (the empty list: `levels = 0`, `IndexError` from `self.sparse_table[0] = …`);
  * `call_eq`: `__call__` on non-negative bounds = the model's `query` on ANY
    table (same answer, same exception);  `rmq_eq`: construction, then query.
  Exceptions of the model (`PyErr`) are translated by `RmqBridge.toPy`; the
  comparison is any `Lca.Lt α` (it may raise), passed as `RmqBridge.liftLt lt`.
-/
import SRVerif.Generated.RmqPy
import SRVerif.Model.RmqPyBridge
import SRVerif.Proofs.LcaRmq

namespace SR.RmqPyProofs
open SR SR.Py SR.Lca SR.Gen.Rmq SR.RmqBridge

/-! ### The prelude's partial operations on arguments that are natural numbers -/

theorem getInt?_natCast {β : Type} (l : List β) (n : Nat) : Py.getInt? l (n : Int) = l[n]? := by
  simp [Py.getInt?]

theorem powInt?_two_natCast (d : Nat) : Py.powInt? (2 : Int) (d : Int) = some (((2 ^ d : Nat)) : Int) := by
  simp [Py.powInt?]

theorem bitLengthInt_natCast (n : Nat) : Py.bitLengthInt (n : Int) = Py.bitLength n := by
  simp [Py.bitLengthInt]

/-- The model's fuelled `_ilog2` is `Nat.log2` on positive numbers. -/
theorem ilog2_eq_log2 {n : Nat} (h : 0 < n) : Lca.ilog2 n = Nat.log2 n := by
  have hs := ilog2_spec h
  exact ((Nat.log2_eq_iff (by omega)).2 hs).symm

variable {α : Type}

theorem ilog2_eq (n : Nat) (h : 0 < n) : _ilog2 (n : Int) = .ok ((Lca.ilog2 n : Nat) : Int) := by
  unfold _ilog2
  rw [bitLengthInt_natCast, ilog2_eq_log2 h]
  unfold Py.bitLength
  rw [if_neg (by omega)]
  congr 1
  omega

/-! ### `min` -/

theorem pyMin_lift (lt : Lt α) (a b : α) :
    Py.pyMin (liftLt lt) a b = conv (Lca.pyMin lt a b) := by
  unfold Py.pyMin Lca.pyMin liftLt
  cases h : lt b a with
  | error e => rfl
  | ok v => cases v <;> rfl

theorem pyMinOpt_lift (lt : Lt α) (a b : Option α) :
    Py.pyMinOpt (liftLt lt) a b = conv (Lca.pyMinCell lt a b) := by
  cases a <;> cases b <;> simp [Py.pyMinOpt, Lca.pyMinCell, pyMin_lift] <;> rfl

/-! ### `RangeMinQuery.__call__` -/

/-- `__call__` on non-negative arguments is the model's `query` on the stored
    table, for EVERY table (well-formed or not), bounds and comparison:
    same answer, same exception. -/
theorem call_eq (lt : Lt α) (self : RangeMinQuery α) (start stop : Nat) :
    RangeMinQuery.__call__ (liftLt lt) self (start : Int) (stop : Int)
      = conv (Lca.query lt self.sparse_table start stop) := by
  unfold RangeMinQuery.__call__ Lca.query
  by_cases h : start ≥ stop
  · have h' : (start : Int) ≥ (stop : Int) := by omega
    simp only [h, h', if_true]
    rfl
  · have h' : ¬ (start : Int) ≥ (stop : Int) := by omega
    have hpos : 0 < stop - start := by omega
    have hsub : (stop : Int) - (start : Int) = ((stop - start : Nat) : Int) := by omega
    have hpow := (ilog2_spec hpos).1
    have hsub2 : (stop : Int) - ((2 ^ Lca.ilog2 (stop - start) : Nat) : Int)
        = ((stop - 2 ^ Lca.ilog2 (stop - start) : Nat) : Int) := by omega
    simp only [h, h', if_false, hsub, ilog2_eq _ hpos, getInt?_natCast, powInt?_two_natCast, hsub2]
    cases self.sparse_table[Lca.ilog2 (stop - start)]? with
    | none => rfl
    | some row =>
      simp only []
      cases row[start]? with
      | none => rfl
      | some a =>
        simp only []
        cases row[stop - 2 ^ Lca.ilog2 (stop - start)]? with
        | none => rfl
        | some b =>
          simp only [pyMinOpt_lift]
          cases Lca.pyMinCell lt a b <;> rfl

/-! ### `RangeMinQuery.__init__`: the inner loop (`for i in range(..)`) -/

theorem tbl_get_prev (pre post : List (List (Option α))) (prev cur : List (Option α)) :
    (pre ++ prev :: cur :: post)[pre.length]? = some prev := by
  simp

theorem tbl_get_cur (pre post : List (List (Option α))) (prev cur : List (Option α)) :
    (pre ++ prev :: cur :: post)[pre.length + 1]? = some cur := by
  rw [List.getElem?_append_right (by omega)]
  simp

theorem tbl_set_cur (pre post : List (List (Option α))) (prev cur row : List (Option α)) :
    Py.setNat? (pre ++ prev :: cur :: post) (pre.length + 1) row
      = some (pre ++ prev :: row :: post) := by
  unfold Py.setNat?
  rw [if_pos (by simp)]
  congr 1
  rw [List.set_append_right _ _ (by omega)]
  simp

/-- One iteration of the inner loop: the model's `rowCell` (two cells of the
    previous row, two asserts, `min`), then the item assignment, which is in
    range. -/
theorem inner_step (lt : Lt α) (pre post : List (List (Option α))) (prev cur : List (Option α))
    (i : Nat) (it : List Nat) (hi : i < cur.length) :
    RangeMinQuery.__init__.loop2 (liftLt lt) (pre.length + 1) (i :: it) (pre ++ prev :: cur :: post)
      = match rowCell lt prev (pre.length + 1) i with
        | .error e => .err (toPy e)
        | .ok v => RangeMinQuery.__init__.loop2 (liftLt lt) (pre.length + 1) it
            (pre ++ prev :: cur.set i (some v) :: post) := by
  rw [RangeMinQuery.__init__.loop2]
  have hd : (((pre.length + 1 : Nat) : Int) - (1 : Int)) = (pre.length : Int) := by omega
  simp only [hd, getInt?_natCast, tbl_get_prev, powInt?_two_natCast]
  have hidx : ((i : Nat) : Int) + ((2 ^ pre.length : Nat) : Int) = ((i + 2 ^ pre.length : Nat) : Int) := by
    omega
  simp only [hidx, getInt?_natCast, tbl_get_cur, tbl_set_cur]
  unfold rowCell cell
  simp only [Nat.add_sub_cancel]
  cases prev[i]? with
  | none => rfl
  | some l =>
    cases l with
    | none => rfl
    | some l =>
      simp only []
      cases prev[i + 2 ^ pre.length]? with
      | none => rfl
      | some r =>
        cases r with
        | none => rfl
        | some r =>
          simp only [pyMin_lift]
          cases Lca.pyMin lt l r with
          | error e => rfl
          | ok v =>
            simp only [conv, Py.setNat?, hi, if_true]

/-- The inner loop over `i0, i0+1, …, i0+k-1`: it raises what the model's
    `mapE (rowCell …)` raises, and otherwise stores the model's values at these
    positions of the row under construction, leaving everything else alone. -/
theorem inner_loop (lt : Lt α) (pre post : List (List (Option α))) (prev : List (Option α)) :
    ∀ (k i0 : Nat) (cur : List (Option α)), i0 + k ≤ cur.length →
      RangeMinQuery.__init__.loop2 (liftLt lt) (pre.length + 1) (List.range' i0 k)
          (pre ++ prev :: cur :: post)
        = match mapE (rowCell lt prev (pre.length + 1)) (List.range' i0 k) with
          | .error e => .err (toPy e)
          | .ok vals => .next (pre ++ prev ::
              (cur.take i0 ++ vals.map some ++ cur.drop (i0 + k)) :: post) := by
  intro k
  induction k with
  | zero =>
    intro i0 cur _
    simp [RangeMinQuery.__init__.loop2, mapE]
  | succ k ih =>
    intro i0 cur h
    rw [List.range'_succ, inner_step lt pre post prev cur i0 _ (by omega), mapE]
    cases hc : rowCell lt prev (pre.length + 1) i0 with
    | error e => rfl
    | ok v =>
      simp only []
      rw [ih (i0 + 1) (cur.set i0 (some v)) (by simp; omega)]
      cases mapE (rowCell lt prev (pre.length + 1)) (List.range' (i0 + 1) k) with
      | error e => rfl
      | ok vals =>
        simp only []
        congr 3
        have h1 : (cur.set i0 (some v)).take (i0 + 1) = cur.take i0 ++ [some v] := by
          rw [List.take_set, List.take_add_one]
          simp [List.length_take, Nat.min_eq_left (by omega : i0 ≤ cur.length)]
          have : i0 < cur.length := by omega
          simp [List.getElem?_eq_getElem this]
        have h2 : (cur.set i0 (some v)).drop (i0 + 1 + k) = cur.drop (i0 + (k + 1)) := by
          rw [List.drop_set_of_lt (by omega)]
          congr 1
          omega
        rw [h1, h2]
        simp

/-! ### `RangeMinQuery.__init__`: the outer loop (`for depth in range(1, levels)`) -/

theorem mapE_length {β γ : Type} (f : β → Except PyErr γ) :
    ∀ (l : List β) (ys : List γ), mapE f l = .ok ys → ys.length = l.length
  | [], ys, h => by
    simp [mapE] at h
    subst h
    rfl
  | x :: xs, ys, h => by
    unfold mapE at h
    cases hx : f x with
    | error e => simp [hx] at h
    | ok y =>
      cases hxs : mapE f xs with
      | error e => simp [hx, hxs] at h
      | ok ys' =>
        simp [hx, hxs] at h
        subst h
        simp [mapE_length f xs ys' hxs]

/-- One iteration of the outer loop on a table whose row `pre.length + 1` is
    still blank: the model's `nextRow`. -/
theorem outer_step (lt : Lt α) (length : Nat) (pre post : List (List (Option α)))
    (prev : List (Option α)) (it : List Nat) :
    RangeMinQuery.__init__.loop1 (liftLt lt) length ((pre.length + 1) :: it)
        (pre ++ prev :: List.replicate length none :: post)
      = match nextRow lt length prev (pre.length + 1) with
        | .error e => .err (toPy e)
        | .ok row => RangeMinQuery.__init__.loop1 (liftLt lt) length it (pre ++ prev :: row :: post) := by
  rw [RangeMinQuery.__init__.loop1]
  try simp only [Nat.one_shiftLeft]  -- `1 << depth` for `2 ** depth`
  have hk : Int.toNat ((((length : Nat) : Int) - (((2 ^ (pre.length + 1)) : Nat) : Int)) + (1 : Int))
      = length + 1 - 2 ^ (pre.length + 1) := by omega
  have hpos : 0 < 2 ^ (pre.length + 1) := Nat.two_pow_pos _
  rw [hk, List.range_eq_range', inner_loop lt pre post prev _ 0 _ (by simp; omega)]
  unfold nextRow
  rw [List.range_eq_range']
  cases hm : mapE (rowCell lt prev (pre.length + 1)) (List.range' 0 (length + 1 - 2 ^ (pre.length + 1))) with
  | error e => rfl
  | ok vals =>
    have hl := mapE_length _ _ _ hm
    simp only [List.length_range'] at hl
    simp [hl]

/-- The outer loop from depth `pre.length + 1` on, `n` blank rows left:
    the model's `buildFrom`. -/
theorem outer_loop (lt : Lt α) (length : Nat) :
    ∀ (n : Nat) (pre : List (List (Option α))) (prev : List (Option α)),
      RangeMinQuery.__init__.loop1 (liftLt lt) length (List.range' (pre.length + 1) n)
          (pre ++ prev :: List.replicate n (List.replicate length none))
        = match buildFrom lt length n pre.length prev with
          | .error e => .err (toPy e)
          | .ok rows => .next (pre ++ rows) := by
  intro n
  induction n with
  | zero =>
    intro pre prev
    simp [RangeMinQuery.__init__.loop1, buildFrom]
  | succ n ih =>
    intro pre prev
    rw [List.range'_succ, List.replicate_succ, outer_step, buildFrom]
    cases nextRow lt length prev (pre.length + 1) with
    | error e => rfl
    | ok row =>
      simp only []
      have := ih (pre ++ [prev]) row
      simp only [List.length_append, List.length_singleton, List.append_assoc, List.singleton_append] at this
      rw [this]
      cases buildFrom lt length n (pre.length + 1) row <;> rfl

/-! ### `RangeMinQuery.__init__` -/

/-- The model's table as the generated object. -/
def modelInit (lt : Lt α) (data : List α) : Except Py.Err (RangeMinQuery α) :=
  match Lca.build lt data with
  | .error e => .error (toPy e)
  | .ok tbl => .ok { sparse_table := tbl }

/-- `__init__` builds exactly the model's table (cell by cell, `None` padding
    included) and raises exactly when and what the model raises, for EVERY
    input list and comparison (a comparison that raises included). -/
theorem init_eq (lt : Lt α) (data : List α) :
    RangeMinQuery.__init__ (liftLt lt) data = modelInit lt data := by
  unfold RangeMinQuery.__init__ modelInit Lca.build
  by_cases h0 : data.length = 0
  · simp only [h0, if_true]
    rfl
  · have hpos : 0 < data.length := by omega
    simp only [ilog2_eq _ hpos, h0, if_false]
    have h1 : Int.toNat (((Lca.ilog2 data.length : Nat) : Int) + (1 : Int)) = Lca.ilog2 data.length + 1 := by
      omega
    have h2 : Int.toNat ((((Lca.ilog2 data.length : Nat) : Int) + (1 : Int)) - (1 : Int))
        = Lca.ilog2 data.length := by omega
    have h3 : (List.map (fun _ => List.replicate data.length (none : Option α))
        (List.range (Lca.ilog2 data.length + 1)))
        = List.replicate data.length none :: List.replicate (Lca.ilog2 data.length)
            (List.replicate data.length none) := by
      rw [← List.replicate_succ]
      apply List.ext_getElem <;> simp
    have h4 := outer_loop lt data.length (Lca.ilog2 data.length) [] (data.map some)
    simp only [List.length_nil, List.nil_append, Nat.zero_add] at h4
    simp only [h1, h2, h3, Py.setNat?, List.length_cons, Nat.zero_lt_succ, if_true, List.set_cons_zero, h4]
    cases buildFrom lt data.length (Lca.ilog2 data.length) 0 (List.map some data) <;> rfl

/-! ### Construction followed by a query -/

/-- What a client of `RangeMinQuery` observes: `RangeMinQuery(data)(start, stop)`
    is the model's `rmq`, exceptions included. -/
theorem rmq_eq (lt : Lt α) (data : List α) (start stop : Nat) :
    (match RangeMinQuery.__init__ (liftLt lt) data with
     | .error e => .error e
     | .ok self => RangeMinQuery.__call__ (liftLt lt) self (start : Int) (stop : Int))
      = modelRmq lt data start stop := by
  rw [init_eq]
  unfold modelInit modelRmq Lca.rmq
  cases Lca.build lt data with
  | error e => rfl
  | ok tbl => exact call_eq lt ⟨tbl⟩ start stop

end SR.RmqPyProofs
