/-
  C11 (Newick codec) — the reader gives back every tree the writer wrote, provided
  its names and colour values are safe (`safeTree`).

  Route: `read` = scan (`NewickScan`), and the scan of the text of a subtree,
  followed by the closing texts `)name…` of the ancestors it is the last child of
  (`render C`) and by what comes next (`,…` or the final `;`), adds the subtree
  to the current node and closes those ancestors (`scan_tree`, `scan_kids`:
  structural induction on the tree, any arity, any depth).
-/
import SRVerif.Proofs.NewickNode

namespace SR.Newick

open SR.Ser (NT Err)

/-- Name and colour of a node. -/
abbrev Lbl := String × Option String

/-- The text that closes the given ancestors, innermost first. -/
def render : List Lbl → Chars
  | [] => []
  | a :: C => ')' :: (atom a.1 a.2 ++ render C)

def closeStep (st : St) (a : Lbl) : Except Err St := readClosing st (atom a.1 a.2)

def SafeLbls (C : List Lbl) : Prop := ∀ a ∈ C, SafeNode a.1 a.2

/-! ### Characters of the written text -/

/-- None of the characters the reader splits on or deletes. -/
def Plain (s : Chars) : Prop :=
  ∀ ch ∈ s, ch ≠ '(' ∧ ch ≠ ')' ∧ ch ≠ ',' ∧ ch ≠ '\n' ∧ ch ≠ '\r' ∧ ch ≠ '\t'

theorem plain_atom {n : String} {c : Option String} (h : SafeNode n c) : Plain (atom n c) := by
  have hn := h.1
  simp only [safeName, Bool.and_eq_true] at hn
  rw [atom_eq h]
  intro ch hch
  have legal : illegal ch = false →
      ch ≠ '(' ∧ ch ≠ ')' ∧ ch ≠ ',' ∧ ch ≠ '\n' ∧ ch ≠ '\r' ∧ ch ≠ '\t' := by
    intro hl
    have := illegal_false hl
    exact ⟨this.2.2.1, this.2.2.2.1, this.2.2.2.2.1, this.2.2.2.2.2.2.2.2.1, this.2.2.2.2.2.2.2.2.2.1,
      this.2.2.2.2.2.2.2.1⟩
  rcases List.mem_append.1 hch with h1 | h1
  · exact legal (safeChars_mem hn.1 h1)
  · cases c with
    | none => simp [featL] at h1
    | some v =>
      have hv := h.2 v rfl
      simp only [safeValue] at hv
      simp only [Option.map_some, featL, nhxOpen, colorEq, List.mem_append, List.mem_cons,
        List.not_mem_nil, or_false] at h1
      rcases h1 with ((h1 | h1) | h1) | h1
      · rcases h1 with rfl | rfl | rfl | rfl | rfl | rfl | rfl <;> decide
      · rcases h1 with rfl | rfl | rfl | rfl | rfl | rfl <;> decide
      · exact legal (safeChars_mem hv h1)
      · subst h1; decide

theorem plain_append {a b : Chars} (ha : Plain a) (hb : Plain b) : Plain (a ++ b) := by
  intro ch hch
  rcases List.mem_append.1 hch with h | h
  · exact ha ch h
  · exact hb ch h

/-- The closing texts contain no `(` and no `,` (and none of the deleted characters). -/
def NoOpen (s : Chars) : Prop := ∀ ch ∈ s, ch ≠ '(' ∧ ch ≠ ','

theorem noOpen_atom {n : String} {c : Option String} (h : SafeNode n c) : NoOpen (atom n c) :=
  fun ch hch => ⟨(plain_atom h ch hch).1, (plain_atom h ch hch).2.2.1⟩

theorem noOpen_render {C : List Lbl} (hC : SafeLbls C) : NoOpen (render C) := by
  induction C with
  | nil => intro ch hch; simp [render] at hch
  | cons a C ih =>
    intro ch hch
    simp only [render, List.mem_cons, List.mem_append] at hch
    rcases hch with rfl | h | h
    · exact ⟨by decide, by decide⟩
    · exact noOpen_atom (hC a (by simp)) ch h
    · exact ih (fun b hb => hC b (by simp [hb])) ch h

theorem noOpen_append {a b : Chars} (ha : NoOpen a) (hb : NoOpen b) : NoOpen (a ++ b) := by
  intro ch hch
  rcases List.mem_append.1 hch with h | h
  · exact ha ch h
  · exact hb ch h

/-! ### The test on the last sub-chunk -/

theorem chunkOk_paren (r : Chars) : chunkOk ('(' :: r) = true := by
  simp [chunkOk, splitOn, splitAux, lastOk, strip, lstrip, rstrip]

theorem chunkOk_comma (y r : Chars) (hy : ∀ c ∈ y, c ≠ '(') : chunkOk (y ++ ',' :: r) = chunkOk r := by
  unfold chunkOk
  have h1 : (y ++ ',' :: r).takeWhile (· != '(') = y ++ ',' :: r.takeWhile (· != '(') := by
    rw [List.takeWhile_append_of_pos (by intro a ha; simpa using hy a ha)]
    simp
  rw [h1]
  unfold splitOn
  rw [splitAux_sep, List.map_append]
  unfold lastOk
  obtain ⟨b, hb⟩ : ∃ b, ((splitAux ',' (r.takeWhile (· != '(')) []).map strip).getLast? = some b := by
    cases h : ((splitAux ',' (r.takeWhile (· != '(')) []).map strip).getLast? with
    | none =>
      rw [List.getLast?_eq_none_iff] at h
      exact absurd (List.map_eq_nil_iff.1 h) (splitAux_ne_nil _ _ _)
    | some b => exact ⟨b, rfl⟩
  rw [List.getLast?_append, hb]
  rfl

theorem lstrip_snoc_semi (y : Chars) : ∃ y', lstrip (y ++ [';']) = y' ++ [';'] := by
  induction y with
  | nil => exact ⟨[], by simp [lstrip, isSpace]⟩
  | cons a y ih =>
    by_cases ha : isSpace a = true
    · obtain ⟨y', h⟩ := ih
      exact ⟨y', by simpa [lstrip, ha] using h⟩
    · exact ⟨a :: y, by simp [lstrip, ha]⟩

theorem chunkOk_end (y : Chars) (hy : NoOpen y) : chunkOk (y ++ [';']) = true := by
  unfold chunkOk
  have hall : ∀ c ∈ y ++ [';'], c ≠ '(' := by
    intro c hc
    rcases List.mem_append.1 hc with h | h
    · exact (hy c h).1
    · simp at h; subst h; decide
  have hcom : ∀ c ∈ y ++ [';'], c ≠ ',' := by
    intro c hc
    rcases List.mem_append.1 hc with h | h
    · exact (hy c h).2
    · simp at h; subst h; decide
  rw [takeWhile_noparen _ hall]
  unfold splitOn
  rw [splitAux_none _ _ _ hcom]
  obtain ⟨y', hy'⟩ := lstrip_snoc_semi y
  have : strip (y ++ [';']) = y' ++ [';'] := by
    unfold strip
    rw [hy', rstrip_snoc_nonspace _ _ (by decide)]
  simp [lastOk, this]

/-- What may follow a subtree and the closing texts of its ancestors. -/
def Term (T : Chars) : Prop := T = [';'] ∨ ∃ R, T = ',' :: R ∧ chunkOk R = true

theorem chunkOk_plain (y T : Chars) (hy : NoOpen y) (hT : Term T) : chunkOk (y ++ T) = true := by
  rcases hT with rfl | ⟨R, rfl, hR⟩
  · exact chunkOk_end y hy
  · rw [chunkOk_comma y R (fun c hc => (hy c hc).1)]; exact hR

theorem safeTree_node {n : String} {c : Option String} {ks : List NT}
    (h : safeTree (.node n c ks) = true) : SafeNode n c ∧ safeTrees ks = true := by
  simp only [safeTree, Bool.and_eq_true] at h
  refine ⟨⟨h.1.1, ?_⟩, h.2⟩
  intro v hv
  subst hv
  exact h.1.2

theorem chunkOk_tree (t : NT) (ht : safeTree t = true) (z T : Chars) (hz : NoOpen z) (hT : Term T) :
    chunkOk (writeNode t ++ (z ++ T)) = true := by
  match t, ht with
  | .node n c [], ht =>
    have hs := (safeTree_node ht).1
    simp only [writeNode]
    rw [← List.append_assoc]
    exact chunkOk_plain _ _ (noOpen_append (noOpen_atom hs) hz) hT
  | .node n c (k :: ks), _ =>
    simp only [writeNode, List.cons_append]
    exact chunkOk_paren _

theorem chunkOk_kids (k : NT) (ks : List NT) (h : safeTrees (k :: ks) = true) (z T : Chars)
    (hz : NoOpen z) (hT : Term T) : chunkOk (writeKids (k :: ks) ++ (z ++ T)) = true := by
  induction ks generalizing k with
  | nil =>
    simp only [safeTrees, Bool.and_eq_true] at h
    simp only [writeKids]
    exact chunkOk_tree k h.1 z T hz hT
  | cons k' ks ih =>
    simp only [safeTrees, Bool.and_eq_true] at h
    have h' : safeTrees (k' :: ks) = true := by simp [safeTrees, h.2.1, h.2.2]
    simp only [writeKids, List.append_assoc, List.cons_append]
    have := chunkOk_tree k h.1 [] (',' :: (writeKids (k' :: ks) ++ (z ++ T)))
      (by intro ch hch; simp at hch) (Or.inr ⟨_, rfl, ih k' h'⟩)
    simpa using this

/-! ### One sub-chunk: a leaf and the ancestors it closes -/

/-- The pieces of `acc.reverse ++ render C ++ sfx` between the closing parentheses. -/
def pieces : Chars → List Lbl → Chars → List Chars
  | acc, [], sfx => [acc.reverse ++ sfx]
  | acc, a :: C, sfx => acc.reverse :: pieces (atom a.1 a.2).reverse C sfx

theorem splitAux_render (C : List Lbl) (hC : SafeLbls C) (sfx acc : Chars) (hs : ∀ c ∈ sfx, c ≠ ')') :
    splitAux ')' (render C ++ sfx) acc = pieces acc C sfx := by
  induction C generalizing acc with
  | nil => simp [render, pieces, splitAux_none _ _ _ hs]
  | cons a C ih =>
    have ha : ∀ c ∈ atom a.1 a.2, c ≠ ')' := fun c hc => (plain_atom (hC a (by simp)) c hc).2.1
    simp only [render, List.cons_append, splitAux, beq_self_eq_true, if_true, pieces, List.append_assoc]
    rw [splitAux_skip _ _ _ _ ha, ih (fun b hb => hC b (by simp [hb]))]
    simp

theorem fold_pieces (st : St) (a : Lbl) (C : List Lbl) (sfx : Chars) (hs : sfx = [] ∨ sfx = [';']) :
    (pieces (atom a.1 a.2).reverse C sfx).foldlM readClosing st = (a :: C).foldlM closeStep st := by
  induction C generalizing st a with
  | nil =>
    simp only [pieces, List.reverse_reverse, List.foldlM_cons, List.foldlM_nil, closeStep]
    rcases hs with rfl | rfl
    · simp
    · rw [readClosing_semi]
  | cons b C ih =>
    simp only [pieces, List.reverse_reverse, List.foldlM_cons]
    show _ = closeStep st a >>= fun st' => (b :: C).foldlM closeStep st'
    congr 1
    funext st'
    exact ih st' b

theorem procSub_leaf {n : String} {c : Option String} (h : SafeNode n c) (C : List Lbl) (hC : SafeLbls C)
    (sfx : Chars) (hs : sfx = [] ∨ sfx = [';']) (hne : sfx = [';'] → C ≠ []) (f : Frame) (below : List Frame) :
    procSub (.opened f below) (atom n c ++ (render C ++ sfx))
      = C.foldlM closeStep (.opened (f.addKid (lab n c {}).toRT) below) := by
  have hsp : ∀ ch ∈ sfx, ch ≠ ')' := by
    rcases hs with rfl | rfl
    · simp
    · intro ch hch; simp at hch; subst hch; decide
  have ha : ∀ ch ∈ atom n c, ch ≠ ')' := fun ch hch => (plain_atom h ch hch).2.1
  unfold procSub splitOn
  rw [splitAux_skip _ _ _ _ ha, splitAux_render C hC sfx _ hsp]
  cases C with
  | nil =>
    have : sfx = [] := by
      rcases hs with rfl | rfl
      · rfl
      · exact absurd rfl (hne rfl)
    subst this
    simp [pieces, readLeaf_atom h, bind, Except.bind, pure, Except.pure]
  | cons a C =>
    simp only [pieces, List.append_nil, List.reverse_reverse, readLeaf_atom h, bind, Except.bind]
    exact fold_pieces _ a C sfx hs

/-- A sub-chunk that begins with a safe name and ends with a non-space character is not changed by `strip`. -/
theorem ends_render (C : List Lbl) (hC : SafeLbls C) (hne : C ≠ []) :
    ∃ m z, render C = m ++ [z] ∧ isSpace z = false := by
  induction C with
  | nil => exact absurd rfl hne
  | cons a C ih =>
    by_cases hC' : C = []
    · subst hC'
      obtain ⟨m, z, h1, h2, _⟩ := atom_end (hC a (by simp))
      exact ⟨')' :: m, z, by simp [render, h1], h2⟩
    · obtain ⟨m, z, h1, h2⟩ := ih (fun b hb => hC b (by simp [hb])) hC'
      exact ⟨')' :: (atom a.1 a.2 ++ m), z, by simp [render, h1], h2⟩

theorem strip_sub {n : String} {c : Option String} (h : SafeNode n c) (C : List Lbl) (hC : SafeLbls C)
    (sfx : Chars) (hs : sfx = [] ∨ sfx = [';']) :
    strip (atom n c ++ (render C ++ sfx)) = atom n c ++ (render C ++ sfx) := by
  obtain ⟨x, m, h1, h2, _⟩ := atom_start h
  apply strip_self
  · exact ⟨x, m ++ (render C ++ sfx), by simp [h1], h2⟩
  · rcases hs with rfl | rfl
    · by_cases hC' : C = []
      · subst hC'
        obtain ⟨m', z, h3, h4, _⟩ := atom_end h
        exact ⟨m', z, by simp [render, h3], h4⟩
      · obtain ⟨m', z, h3, h4⟩ := ends_render C hC hC'
        exact ⟨atom n c ++ m', z, by simp [h3], h4⟩
    · exact ⟨atom n c ++ render C, ';', by simp, by decide⟩

/-! ### The scan of a subtree -/

theorem scan_skip (st : St) (y rest acc : Chars) (hy : NoOpen y) :
    scan st acc (y ++ rest) = scan st (y.reverse ++ acc) rest := by
  induction y generalizing acc with
  | nil => rfl
  | cons a y ih =>
    have h1 : (a == '(') = false := by simpa using (hy a (by simp)).1
    have h2 : (a == ',') = false := by simpa using (hy a (by simp)).2
    simp only [List.cons_append, scan, h1, h2, Bool.false_eq_true, if_false]
    rw [ih _ (fun x hx => hy x (by simp [hx]))]
    simp

def addKids (f : Frame) (l : List RT) : Frame := { f with kids := f.kids ++ l }

/-- What follows: the next sibling, or the end of the text. -/
def contT (r : Except Err St) (T : Chars) : Except Err St :=
  r >>= fun st =>
    match T with
    | ',' :: R => scan st [] R
    | _ => pure st

theorem contT_comma (st : St) (R : Chars) : contT (pure st) (',' :: R) = scan st [] R := rfl

theorem lab_toRT (n : String) (c : Option String) (ks : List NT) :
    (lab n c (addKids {} (RT.ofNTs ks))).toRT = RT.ofNT (.node n c ks) := by
  cases c <;> simp [lab, addKids, Frame.toRT, RT.ofNT, SR.Ser.Dict.set]

theorem lab_toRT_leaf (n : String) (c : Option String) : (lab n c {}).toRT = RT.ofNT (.node n c []) := by
  cases c <;> simp [lab, Frame.toRT, RT.ofNT, RT.ofNTs, SR.Ser.Dict.set]

theorem scan_leaf {n : String} {c : Option String} (h : SafeNode n c) (f : Frame) (below : List Frame)
    (C : List Lbl) (T : Chars) (hC : SafeLbls C) (hT : Term T) (hne : T = [';'] → C ≠ []) :
    scan (.opened f below) [] (atom n c ++ (render C ++ T))
      = contT (C.foldlM closeStep (.opened (f.addKid (RT.ofNT (.node n c []))) below)) T := by
  have hy : NoOpen (atom n c ++ render C) := noOpen_append (noOpen_atom h) (noOpen_render hC)
  rcases hT with rfl | ⟨R, rfl, _⟩
  · have := scan_skip (.opened f below) (atom n c ++ (render C ++ [';'])) [] []
      (by
        rw [← List.append_assoc]
        apply noOpen_append hy
        intro ch hch; simp at hch; subst hch; exact ⟨by decide, by decide⟩)
    simp only [List.append_nil] at this
    rw [this]
    simp only [scan, List.reverse_reverse, strip_sub h C hC [';'] (Or.inr rfl), procLast]
    have hne' : (atom n c ++ (render C ++ [';'])).isEmpty = false := by
      obtain ⟨x, m, h1, _, _⟩ := atom_start h
      simp [h1]
    simp only [hne', Bool.false_eq_true, if_false]
    rw [procSub_leaf h C hC [';'] (Or.inr rfl) (fun _ => hne rfl), lab_toRT_leaf]
    simp [contT]
  · have := scan_skip (.opened f below) (atom n c ++ render C) (',' :: R) [] hy
    simp only [List.append_nil, List.append_assoc] at this
    rw [this]
    have e : (atom n c ++ render C) = atom n c ++ (render C ++ []) := by simp
    simp only [scan, List.reverse_reverse, Char.reduceBEq, Bool.false_eq_true, if_false,
      beq_self_eq_true, if_true]
    rw [e, strip_sub h C hC [] (Or.inl rfl),
      procSub_leaf h C hC [] (Or.inl rfl) (fun hh => by simp at hh), lab_toRT_leaf]
    rfl

theorem closeStep_open {n : String} {c : Option String} (h : SafeNode n c) (g f : Frame)
    (below : List Frame) :
    closeStep (.opened g (f :: below)) (n, c) = .ok (.opened (f.addKid (lab n c g).toRT) below) := by
  simp [closeStep, readClosing_atom h, St.up]

mutual
  /-- The text of a subtree, then of the ancestors it closes, then `T`. -/
  theorem scan_tree : ∀ (t : NT), safeTree t = true → ∀ (f : Frame) (below : List Frame) (C : List Lbl)
      (T : Chars), SafeLbls C → Term T → (T = [';'] → C ≠ []) →
      scan (.opened f below) [] (writeNode t ++ (render C ++ T))
        = contT (C.foldlM closeStep (.opened (f.addKid (RT.ofNT t)) below)) T
    | .node n c [], ht, f, below, C, T, hC, hT, hne => by
      simp only [writeNode]
      exact scan_leaf (safeTree_node ht).1 f below C T hC hT hne
    | .node n c (k :: ks), ht, f, below, C, T, hC, hT, hne => by
      obtain ⟨hs, hks⟩ := safeTree_node ht
      have hC' : SafeLbls ((n, c) :: C) := by
        intro a ha
        rcases List.mem_cons.1 ha with rfl | ha
        · exact hs
        · exact hC a ha
      have hok : chunkOk (writeKids (k :: ks) ++ (render ((n, c) :: C) ++ T)) = true :=
        chunkOk_kids k ks hks _ T (noOpen_render hC') hT
      have e : writeNode (.node n c (k :: ks)) ++ (render C ++ T)
          = '(' :: (writeKids (k :: ks) ++ (render ((n, c) :: C) ++ T)) := by
        simp [writeNode, render]
      rw [e]
      have ih := scan_kids (k :: ks) hks (by simp) {} (f :: below) ((n, c) :: C) T hC' hT (by simp)
      simp only [scan, beq_self_eq_true, if_true, List.reverse_nil, procLast, hok]
      have hstrip : strip ([] : Chars) = [] := by simp [strip, lstrip, rstrip]
      simp only [hstrip, List.isEmpty_nil, if_true, pure_bind, St.openChunk]
      rw [ih]
      simp only [List.foldlM_cons, closeStep_open hs, pure_bind, lab_toRT]
      rfl
  theorem scan_kids : ∀ (ks : List NT), safeTrees ks = true → ks ≠ [] → ∀ (f : Frame) (below : List Frame)
      (C : List Lbl) (T : Chars), SafeLbls C → Term T → (T = [';'] → C ≠ []) →
      scan (.opened f below) [] (writeKids ks ++ (render C ++ T))
        = contT (C.foldlM closeStep (.opened (addKids f (RT.ofNTs ks)) below)) T
    | [], _, hne', _, _, _, _, _, _, _ => absurd rfl hne'
    | [k], hks, _, f, below, C, T, hC, hT, hne => by
      simp only [safeTrees, Bool.and_eq_true] at hks
      simp only [writeKids]
      rw [scan_tree k hks.1 f below C T hC hT hne]
      simp [addKids, Frame.addKid, RT.ofNTs]
    | k :: k' :: ks, hks, _, f, below, C, T, hC, hT, hne => by
      have hk : safeTree k = true := by
        simp only [safeTrees, Bool.and_eq_true] at hks; exact hks.1
      have hks' : safeTrees (k' :: ks) = true := by
        simp only [safeTrees, Bool.and_eq_true] at hks ⊢; exact hks.2
      have hok : chunkOk (writeKids (k' :: ks) ++ (render C ++ T)) = true :=
        chunkOk_kids k' ks hks' _ T (noOpen_render hC) hT
      have e : writeKids (k :: k' :: ks) ++ (render C ++ T)
          = writeNode k ++ (render [] ++ (',' :: (writeKids (k' :: ks) ++ (render C ++ T)))) := by
        simp [writeKids, render]
      rw [e, scan_tree k hk f below [] _ (by intro a ha; simp at ha) (Or.inr ⟨_, rfl, hok⟩) (by simp)]
      simp only [List.foldlM_nil]
      rw [contT_comma, scan_kids (k' :: ks) hks' (by simp) (f.addKid (RT.ofNT k)) below C T hC hT hne]
      simp [addKids, Frame.addKid, RT.ofNTs]
end

end SR.Newick
