/-
  `_compute_branches` as ONE plan: whenever the model returns `.ok st` (no
  validity hypothesis at all), the branch list of every species is the
  projection of an explicit, state-free list `fullPlan` — the concatenation of
  the `nodePlan`s of the object nodes, species pass by species pass.

  This is the converse direction of `LayoutChain`/`LayoutStep` (there: the
  plan exists and can be applied; here: a successful run applied exactly the
  plan), and it is what uniqueness (`BranchesNodup`) and the loss count
  (`BranchesCount`) are read off.
-/
import SRVerif.Proofs.LayoutPass

namespace SR.Layout

open SR

/-! ### A successful `_add_losses` applied its plan -/

theorem addLossesLoop_inv (g : Path) (end_ : Option Path) :
    ∀ (rp : List Nat) (st : LState) (prev : Key) (st' : LState) (k : Key),
      addLossesLoop g end_ rp st prev = .ok (st', k) →
      ∃ pl, chainPlan g end_ rp prev = some (pl, k) ∧ (∀ e ∈ pl, e.1 ∈ skeys st) ∧
        st' = applyPlan st pl := by
  intro rp
  induction rp with
  | nil =>
    intro st prev st' k h
    simp only [addLossesLoop] at h
    split at h
    · rename_i hn
      simp only [Except.ok.injEq, Prod.mk.injEq] at h
      obtain ⟨rfl, rfl⟩ := h
      exact ⟨[], by simp [chainPlan, hn], by simp, rfl⟩
    · cases h
  | cons i rest ih =>
    intro st prev st' k h
    simp only [addLossesLoop] at h
    by_cases he : some rest.reverse = end_
    · simp only [he, if_true, Except.ok.injEq, Prod.mk.injEq] at h
      obtain ⟨rfl, rfl⟩ := h
      exact ⟨[], by simp [chainPlan, he], by simp, rfl⟩
    · simp only [he, if_false] at h
      cases hx : getSp st rest.reverse with
      | none => simp [hx] at h
      | some x =>
        simp only [hx] at h
        rw [addLossAt_eq] at h
        obtain ⟨pl, hpl, hex, hst⟩ := ih _ _ _ _ h
        have hmem : rest.reverse ∈ skeys st :=
          (getSp_isSome_iff st rest.reverse).1 (by simp [hx])
        refine ⟨(rest.reverse, lossBranch g rest.reverse prev i) :: pl, ?_, ?_, ?_⟩
        · simp [chainPlan, he, hpl]
        · intro e hmem'
          simp only [List.mem_cons] at hmem'
          rcases hmem' with rfl | h'
          · exact hmem
          · have := hex e h'
            rwa [skeys_modifySp] at this
        · simpa [applyPlan] using hst

theorem ancs_applyPlan_sub (st : LState) (pl : List (Path × Branch)) (hex : ∀ e ∈ pl, e.1 ∈ skeys st)
    (t : Path) (k : Key) (h : k ∈ ancs (applyPlan st pl) t) :
    k ∈ ancs st t ∨ k ∈ keysOf (planAt t pl) := by
  induction pl generalizing st with
  | nil => left; simpa [applyPlan] using h
  | cons e pl ih =>
    obtain ⟨u, b⟩ := e
    have hu : u ∈ skeys st := hex _ (List.mem_cons_self ..)
    obtain ⟨x, hx⟩ := getSp_some_of_mem hu
    simp only [applyPlan] at h
    have := ih _ (by intro e he; rw [skeys_modifySp]; exact hex e (List.mem_cons_of_mem _ he)) h
    rw [planAt_cons]
    rcases this with h1 | h1
    · rw [ancs_modifySp] at h1
      by_cases hut : t = u
      · subst hut
        simp only [if_true, hx, addPlanned, mem_setAdd] at h1
        rcases h1 with h1 | h1
        · left; simpa [ancs, hx] using h1
        · right; simp [keysOf, h1]
      · simp only [hut, if_false] at h1
        left; exact h1
    · right
      by_cases hut : u = t
      · simp only [hut, if_true, keysOf, List.map_cons, List.mem_cons]
        right; exact h1
      · simp only [hut, if_false]; exact h1

/-- What a successful state transformer did: species unchanged, the planned
    branches appended, no anchor that is neither old nor the key of a planned
    branch. -/
structure Did (st st' : LState) (pl : List (Path × Branch)) : Prop where
  keys : skeys st' = skeys st
  ex : ∀ e ∈ pl, e.1 ∈ skeys st
  brs : ∀ t, brs st' t = brs st t ++ planAt t pl
  ancs : ∀ t k, k ∈ ancs st' t → k ∈ ancs st t ∨ k ∈ keysOf (planAt t pl)

theorem Did.trans {a b c : LState} {p1 p2 : List (Path × Branch)} (h1 : Did a b p1) (h2 : Did b c p2) :
    Did a c (p1 ++ p2) := by
  refine ⟨h2.keys.trans h1.keys, ?_, ?_, ?_⟩
  · intro e he
    rcases List.mem_append.1 he with h | h
    · exact h1.ex e h
    · have := h2.ex e h; rwa [h1.keys] at this
  · intro t; rw [h2.brs, h1.brs, planAt_append, List.append_assoc]
  · intro t k hk
    rw [planAt_append, keysOf_append, List.mem_append]
    rcases h2.ancs t k hk with h | h
    · rcases h1.ancs t k h with h | h
      · exact Or.inl h
      · exact Or.inr (Or.inl h)
    · exact Or.inr (Or.inr h)

theorem Did.refl (st : LState) : Did st st [] := ⟨rfl, by simp, by simp, fun _ _ h => Or.inl h⟩

theorem addLosses_inv {st st1 : LState} {g start : Path} {end_ : Option Path} {k : Key}
    (h : addLosses st g start end_ = .ok (st1, k)) :
    ∃ pl, chainPlan g end_ start.reverse (.gene g) = some (pl, k) ∧ Did st st1 pl := by
  obtain ⟨pl, hpl, hex, rfl⟩ := addLossesLoop_inv g end_ _ _ _ _ _ h
  exact ⟨pl, hpl, skeys_applyPlan st pl, hex, brs_applyPlan st pl hex, ancs_applyPlan_sub st pl hex⟩

theorem removeAnchor_did {st st' : LState} {s : Path} {k : Key} (h : removeAnchor st s k = .ok st') :
    k ∈ ancs st s ∧ skeys st' = skeys st ∧ (∀ t, brs st' t = brs st t) ∧
      (∀ t k', k' ∈ ancs st' t → k' ∈ ancs st t) := by
  unfold removeAnchor at h
  cases hx : getSp st s with
  | none => simp [hx] at h
  | some x =>
    simp only [hx] at h
    unfold setRemove at h
    by_cases hk : k ∈ x.anchors
    · simp only [hk, if_true, Except.ok.injEq] at h
      subst h
      refine ⟨by simpa [ancs, hx] using hk, skeys_modifySp _ _ _, ?_, ?_⟩
      · intro t
        rw [brs_modifySp]
        by_cases h : t = s
        · subst h; simp [hx, brs_of_getSp hx]
        · simp [h]
      · intro t k' hk'
        rw [ancs_modifySp] at hk'
        by_cases h : t = s
        · subst h
          simp only [if_true, hx] at hk'
          rw [ancs_of_getSp hx]
          exact List.mem_of_mem_erase hk'
        · simpa [h] using hk'
    · simp [hk] at h

/-- `add(k)` on the anchors of `s`, then the branch `b` with `b.key = k`. -/
theorem did_finish {st st3 : LState} {s : Path} (b : Branch) (hs : s ∈ skeys st)
    (hk3 : skeys st3 = skeys st) (hb3 : ∀ t, brs st3 t = brs st t)
    (ha3 : ∀ t k, k ∈ ancs st3 t → k ∈ ancs st t ∨ (t = s ∧ k = b.key)) :
    Did st (modifySp (addBranch b) st3 s) [(s, b)] := by
  have hs3 : s ∈ skeys st3 := by rw [hk3]; exact hs
  obtain ⟨x, hx⟩ := getSp_some_of_mem hs3
  refine ⟨by rw [skeys_modifySp, hk3], by simpa using hs, ?_, ?_⟩
  · intro t
    rw [brs_modifySp, planAt_cons, ← hb3 t]
    by_cases h : t = s
    · subst h; simp [hx, brs_of_getSp hx, addBranch]
    · have : ¬ s = t := fun e => h e.symm
      simp [h, this]
  · intro t k hk
    rw [ancs_modifySp] at hk
    have hk' : k ∈ ancs st3 t := by
      by_cases h : t = s
      · subst h; simpa [hx, addBranch, ancs_of_getSp hx] using hk
      · simpa [h] using hk
    rcases ha3 t k hk' with h | ⟨rfl, rfl⟩
    · exact Or.inl h
    · right; simp [planAt_cons, keysOf]

theorem ancs_addAnchor (st : LState) (s : Path) (k0 : Key) (t : Path) (k : Key)
    (h : k ∈ ancs (modifySp (addAnchor k0) st s) t) : k ∈ ancs st t ∨ (t = s ∧ k = k0) := by
  rw [ancs_modifySp] at h
  by_cases hts : t = s
  · subst hts
    cases hx : getSp st t with
    | none => simp [hx] at h
    | some x =>
      simp only [if_true, hx, addAnchor, mem_setAdd] at h
      rcases h with h | h
      · left; simpa [ancs, hx] using h
      · right; exact ⟨rfl, h⟩
  · left; simpa [hts] using h

theorem brs_addAnchor (st : LState) (s : Path) (k0 : Key) (t : Path) :
    brs (modifySp (addAnchor k0) st s) t = brs st t := by
  rw [brs_modifySp]
  by_cases h : t = s
  · subst h
    simp only [if_true]
    unfold brs
    cases getSp st t <;> rfl
  · simp [h]

theorem did_finish0 (st : LState) (s : Path) (b : Branch) (hs : s ∈ skeys st) :
    Did st (modifySp (addBranch b) (modifySp (addAnchor b.key) st s) s) [(s, b)] :=
  did_finish b hs (skeys_modifySp _ _ _) (brs_addAnchor st s b.key) (ancs_addAnchor st s b.key)

theorem did_finish1 {st st3 : LState} {s : Path} (b : Branch) {k1 : Key} (hs : s ∈ skeys st)
    (h3 : removeAnchor (modifySp (addAnchor b.key) st s) s k1 = .ok st3) :
    Did st (modifySp (addBranch b) st3 s) [(s, b)] ∧ (k1 ∈ ancs st s ∨ k1 = b.key) := by
  obtain ⟨m1, k3, b3, a3⟩ := removeAnchor_did h3
  refine ⟨did_finish b hs (k3.trans (skeys_modifySp _ _ _))
    (fun t => (b3 t).trans (brs_addAnchor st s b.key t))
    (fun t k hk => ancs_addAnchor st s b.key t k (a3 t k hk)), ?_⟩
  rcases ancs_addAnchor st s b.key s k1 m1 with h | ⟨_, h⟩
  · exact Or.inl h
  · exact Or.inr h

theorem did_finish2 {st st3 st4 : LState} {s : Path} (b : Branch) {k1 k2 : Key} (hs : s ∈ skeys st)
    (h3 : removeAnchor (modifySp (addAnchor b.key) st s) s k1 = .ok st3)
    (h4 : removeAnchor st3 s k2 = .ok st4) :
    Did st (modifySp (addBranch b) st4 s) [(s, b)] ∧ (k1 ∈ ancs st s ∨ k1 = b.key) ∧
      (k2 ∈ ancs st s ∨ k2 = b.key) := by
  obtain ⟨m1, k3, b3, a3⟩ := removeAnchor_did h3
  obtain ⟨m2, k4, b4, a4⟩ := removeAnchor_did h4
  refine ⟨did_finish b hs (k4.trans (k3.trans (skeys_modifySp _ _ _)))
    (fun t => (b4 t).trans ((b3 t).trans (brs_addAnchor st s b.key t)))
    (fun t k hk => ancs_addAnchor st s b.key t k (a3 t k (a4 t k hk))), ?_, ?_⟩
  · rcases ancs_addAnchor st s b.key s k1 m1 with h | ⟨_, h⟩
    · exact Or.inl h
    · exact Or.inr h
  · rcases ancs_addAnchor st s b.key s k2 (a3 s k2 m2) with h | ⟨_, h⟩
    · exact Or.inl h
    · exact Or.inr h

/-! ### A successful step applied `nodePlan` -/

/-- The keys the step removes from the anchors of `s` were anchors of `s`
    before the step or are keys of branches the step itself inserts in `s`. -/
def Avail (st : LState) (s : Path) (pl : List (Path × Branch)) (cons : List Key) : Prop :=
  ∀ k ∈ cons, k ∈ ancs st s ∨ k ∈ keysOf (planAt s pl)

theorem avail_lift {st st2 : LState} {s : Path} {pl0 : List (Path × Branch)} {b : Branch} {k : Key}
    (d : Did st st2 pl0) (h : k ∈ ancs st2 s ∨ k = b.key) :
    k ∈ ancs st s ∨ k ∈ keysOf (planAt s (pl0 ++ [(s, b)])) := by
  rw [planAt_append, keysOf_append, List.mem_append]
  rcases h with h | h
  · rcases d.ancs s k h with h | h
    · exact Or.inl h
    · exact Or.inr (Or.inl h)
  · right; right; simp [planAt_cons, keysOf, h]

theorem processGene_inv {st st' : LState} {s p : Path} {sub : Sol}
    (h : processGene st s p sub = .ok st') (hs : s ∈ skeys st) :
    ∃ pl cons, nodePlan s p sub = some (pl, cons) ∧ Did st st' pl ∧ Avail st s pl cons := by
  cases sub with
  | leaf sp f =>
    simp only [processGene, Except.ok.injEq] at h
    subst h
    exact ⟨_, _, rfl, did_finish0 st s ⟨.gene p, .leaf, none, none⟩ hs, by intro k hk; cases hk⟩
  | node sp f l r =>
    simp only [processGene] at h
    simp only [nodePlan]
    cases hev : internalEvent s l.sp r.sp with
    | leaf => simp [hev] at h
    | invalid => simp [hev] at h
    | spec =>
      simp only [hev] at h ⊢
      by_cases hsw : Path.isAnc (s ++ [0]) r.sp = true
      · simp only [hsw, if_true] at h ⊢
        cases h1 : addLosses st (p ++ [1]) r.sp (some s) with
        | error e => simp [h1] at h
        | ok x1 =>
          obtain ⟨st1, k1⟩ := x1
          simp only [h1] at h
          cases h2 : addLosses st1 (p ++ [0]) l.sp (some s) with
          | error e => simp [h2] at h
          | ok x2 =>
            obtain ⟨st2, k2⟩ := x2
            simp only [h2, Except.ok.injEq] at h
            subst h
            obtain ⟨pl1, c1, d1⟩ := addLosses_inv h1
            obtain ⟨pl2, c2, d2⟩ := addLosses_inv h2
            have hs2 : s ∈ skeys st2 := by rw [d2.keys, d1.keys]; exact hs
            have d3 := did_finish0 st2 s ⟨.gene p, .spec, some k1, some k2⟩ hs2
            refine ⟨_, _, by rw [c1, c2], ?_, by intro k hk; cases hk⟩
            simpa using (d1.trans d2).trans d3
      · have hsw' : Path.isAnc (s ++ [0]) r.sp = false := by simpa using hsw
        simp only [hsw', Bool.false_eq_true, if_false] at h ⊢
        cases h1 : addLosses st (p ++ [0]) l.sp (some s) with
        | error e => simp [h1] at h
        | ok x1 =>
          obtain ⟨st1, k1⟩ := x1
          simp only [h1] at h
          cases h2 : addLosses st1 (p ++ [1]) r.sp (some s) with
          | error e => simp [h2] at h
          | ok x2 =>
            obtain ⟨st2, k2⟩ := x2
            simp only [h2, Except.ok.injEq] at h
            subst h
            obtain ⟨pl1, c1, d1⟩ := addLosses_inv h1
            obtain ⟨pl2, c2, d2⟩ := addLosses_inv h2
            have hs2 : s ∈ skeys st2 := by rw [d2.keys, d1.keys]; exact hs
            have d3 := did_finish0 st2 s ⟨.gene p, .spec, some k1, some k2⟩ hs2
            refine ⟨_, _, by rw [c1, c2], ?_, by intro k hk; cases hk⟩
            simpa using (d1.trans d2).trans d3
    | dup =>
      simp only [hev] at h ⊢
      cases h1 : addLosses st (p ++ [0]) l.sp (Path.up s) with
      | error e => simp [h1] at h
      | ok x1 =>
        obtain ⟨st1, k1⟩ := x1
        simp only [h1] at h
        cases h2 : addLosses st1 (p ++ [1]) r.sp (Path.up s) with
        | error e => simp [h2] at h
        | ok x2 =>
          obtain ⟨st2, k2⟩ := x2
          simp only [h2] at h
          cases h3 : removeAnchor (modifySp (addAnchor (.gene p)) st2 s) s k1 with
          | error e => simp [h3] at h
          | ok st3 =>
            simp only [h3] at h
            cases h4 : removeAnchor st3 s k2 with
            | error e => simp [h4] at h
            | ok st4 =>
              simp only [h4, Except.ok.injEq] at h
              subst h
              obtain ⟨pl1, c1, d1⟩ := addLosses_inv h1
              obtain ⟨pl2, c2, d2⟩ := addLosses_inv h2
              have hs2 : s ∈ skeys st2 := by rw [d2.keys, d1.keys]; exact hs
              obtain ⟨d3, a1, a2⟩ := did_finish2 (st := st2) ⟨.gene p, .dup, some k1, some k2⟩ hs2 h3 h4
              have d12 := d1.trans d2
              refine ⟨_, _, by rw [c1, c2], ?_, ?_⟩
              · simpa using d12.trans d3
              · intro k hk
                simp only [List.mem_cons, List.not_mem_nil, or_false] at hk
                rcases hk with rfl | rfl
                · simpa using avail_lift d12 a1
                · simpa using avail_lift d12 a2
    | hgt =>
      simp only [hev] at h ⊢
      by_cases hk : Path.isAnc s l.sp = true
      · simp only [hk, if_true] at h ⊢
        cases h1 : addLosses st (p ++ [0]) l.sp (Path.up s) with
        | error e => simp [h1] at h
        | ok x1 =>
          obtain ⟨st1, k1⟩ := x1
          simp only [h1] at h
          cases h3 : removeAnchor (modifySp (addAnchor (.gene p)) st1 s) s k1 with
          | error e => simp [h3] at h
          | ok st3 =>
            simp only [h3, Except.ok.injEq] at h
            subst h
            obtain ⟨pl1, c1, d1⟩ := addLosses_inv h1
            have hs1 : s ∈ skeys st1 := by rw [d1.keys]; exact hs
            obtain ⟨d3, a1⟩ := did_finish1 (st := st1)
              ⟨.gene p, .hgt, some k1, some (.gene (p ++ [1]))⟩ hs1 h3
            refine ⟨_, _, by rw [c1], d1.trans d3, ?_⟩
            intro k hk'
            simp only [List.mem_singleton] at hk'
            subst hk'
            exact avail_lift d1 a1
      · have hk' : Path.isAnc s l.sp = false := by simpa using hk
        simp only [hk', Bool.false_eq_true, if_false] at h ⊢
        cases h1 : addLosses st (p ++ [1]) r.sp (Path.up s) with
        | error e => simp [h1] at h
        | ok x1 =>
          obtain ⟨st1, k1⟩ := x1
          simp only [h1] at h
          cases h3 : removeAnchor (modifySp (addAnchor (.gene p)) st1 s) s k1 with
          | error e => simp [h3] at h
          | ok st3 =>
            simp only [h3, Except.ok.injEq] at h
            subst h
            obtain ⟨pl1, c1, d1⟩ := addLosses_inv h1
            have hs1 : s ∈ skeys st1 := by rw [d1.keys]; exact hs
            obtain ⟨d3, a1⟩ := did_finish1 (st := st1)
              ⟨.gene p, .hgt, some k1, some (.gene (p ++ [0]))⟩ hs1 h3
            refine ⟨_, _, by rw [c1], d1.trans d3, ?_⟩
            intro k hk''
            simp only [List.mem_singleton] at hk''
            subst hk''
            exact avail_lift d1 a1

/-! ### The two loops -/

/-- The branches inserted by the step of object node `p` (mapped to `s`). -/
def nodePlanL (s p : Path) (sub : Sol) : List (Path × Branch) :=
  match nodePlan s p sub with
  | some (pl, _) => pl
  | none => []

/-- The branches inserted by the pass of species `s` over the object nodes `G`. -/
def passPlan (s : Path) (G : List (Path × Sol)) : List (Path × Branch) :=
  (G.filter fun g => g.2.sp = s).flatMap fun g => nodePlanL s g.1 g.2

theorem passPlan_cons (s : Path) (g : Path × Sol) (G : List (Path × Sol)) :
    passPlan s (g :: G) = (if g.2.sp = s then nodePlanL s g.1 g.2 else []) ++ passPlan s G := by
  unfold passPlan
  by_cases h : g.2.sp = s <;> simp [h]

theorem processGenes_inv (s : Path) : ∀ (G : List (Path × Sol)) (st st' : LState),
    processGenes s G st = .ok st' → s ∈ skeys st → Did st st' (passPlan s G) := by
  intro G
  induction G with
  | nil =>
    intro st st' h _
    simp only [processGenes, Except.ok.injEq] at h
    subst h
    exact Did.refl st
  | cons g G ih =>
    intro st st' h hs
    obtain ⟨p, sub⟩ := g
    rw [passPlan_cons]
    simp only [processGenes] at h
    by_cases hsp : sub.sp = s
    · simp only [hsp, if_true] at h ⊢
      cases h1 : processGene st s p sub with
      | error e => simp [h1] at h
      | ok st1 =>
        simp only [h1] at h
        obtain ⟨pl, cons, hpl, d1, _⟩ := processGene_inv h1 hs
        have d2 := ih st1 st' h (by rw [d1.keys]; exact hs)
        have : nodePlanL s p sub = pl := by simp [nodePlanL, hpl]
        rw [this]
        exact d1.trans d2
    · simp only [hsp, if_false] at h ⊢
      simpa using ih st st' h hs

/-- Everything `_compute_branches` inserts, species pass by species pass. -/
def fullPlan (sol : Sol) (L : List Path) : List (Path × Branch) :=
  L.flatMap fun s => passPlan s (genesPost sol [])

theorem processSpecies_inv (sol : Sol) : ∀ (L : List Path) (st st' : LState),
    processSpecies sol L st = .ok st' → L.Nodup → (∀ s ∈ L, s ∉ skeys st) →
    skeys st' = skeys st ++ L ∧ (∀ e ∈ fullPlan sol L, e.1 ∈ skeys st') ∧
      ∀ t, brs st' t = brs st t ++ planAt t (fullPlan sol L) := by
  intro L
  induction L with
  | nil =>
    intro st st' h _ _
    simp only [processSpecies, Except.ok.injEq] at h
    subst h
    simp [fullPlan]
  | cons s L ih =>
    intro st st' h hnd hnot
    simp only [processSpecies] at h
    cases h1 : processGenes s (genesPost sol []) (st ++ [(s, ⟨[], []⟩)]) with
    | error e => simp [h1] at h
    | ok st1 =>
      simp only [h1] at h
      have hsnot : s ∉ skeys st := hnot s (List.mem_cons_self ..)
      have hk0 : skeys (st ++ [(s, (⟨[], []⟩ : SpState))]) = skeys st ++ [s] := by simp [skeys]
      have d1 := processGenes_inv s _ _ _ h1 (by rw [hk0]; simp)
      have hk1 : skeys st1 = skeys st ++ [s] := by rw [d1.keys, hk0]
      rw [List.nodup_cons] at hnd
      obtain ⟨a, b, c⟩ := ih st1 st' h hnd.2 (by
        intro u hu
        rw [hk1]
        simp only [List.mem_append, List.mem_singleton, not_or]
        exact ⟨hnot u (List.mem_cons_of_mem _ hu), fun e => hnd.1 (e ▸ hu)⟩)
      refine ⟨by rw [a, hk1]; simp, ?_, ?_⟩
      · intro e he
        simp only [fullPlan, List.flatMap_cons, List.mem_append] at he
        rcases he with he | he
        · have := d1.ex e he
          rw [a, hk1]
          rw [hk0] at this
          exact List.mem_append_left _ this
        · exact b e he
      · intro t
        rw [c t, d1.brs t, brs_create hsnot]
        simp [fullPlan, List.append_assoc]

/-- **The state is the plan.**  No validity hypothesis: a successful run of
    `_compute_branches` created one state per species of the tree and the
    branch list of species `t` is exactly the `t`-part of `fullPlan`. -/
theorem computeBranches_plan {S : RTree} {sol : Sol} {st : LState}
    (h : computeBranches S sol = .ok st) :
    skeys st = S.postorder ∧ (∀ e ∈ fullPlan sol S.postorder, e.1 ∈ S.postorder) ∧
      ∀ t, brs st t = planAt t (fullPlan sol S.postorder) := by
  obtain ⟨a, b, c⟩ := processSpecies_inv sol S.postorder [] st h (postorder_nodup S) (by simp [skeys])
  simp only [skeys, List.map_nil, List.nil_append] at a
  refine ⟨a, ?_, ?_⟩
  · intro e he; have := b e he; rwa [show skeys st = S.postorder from a] at this
  · intro t
    rw [c t]
    simp [brs, getSp]

end SR.Layout
