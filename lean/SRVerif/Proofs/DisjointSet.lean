/-
  Union-find with path compression and union by rank: abstraction and
  invariant.

  * `RootOf f i r`: following the parent function `f` from `i` ends in the
    root `r` (a relation, so no termination argument is needed to state it).
  * `Same d a b`: `a` and `b` have the same root.
  * `WF d`: ranks strictly increase along parent pointers and
    `rank i + #roots ≤ n`; this bounds every path by the fuel of `find`.
  * `find` returns the root and changes neither roots nor `RootOf`;
    `unite` merges exactly the two classes.
  * `Conn ps`: the equivalence closure of the united pairs (specification).
-/
import SRVerif.Model.DisjointSet

namespace SR.DS

/-! ### Parent functions -/

inductive RootOf (f : Nat → Nat) : Nat → Nat → Prop
  | root {i : Nat} : f i = i → RootOf f i i
  | step {i r : Nat} : f i ≠ i → RootOf f (f i) r → RootOf f i r

theorem RootOf.isRoot {f : Nat → Nat} {i r : Nat} (h : RootOf f i r) : f r = r := by
  induction h with
  | root h => exact h
  | step _ _ ih => exact ih

theorem RootOf.det {f : Nat → Nat} {i r r' : Nat} (h : RootOf f i r) (h' : RootOf f i r') :
    r = r' := by
  induction h with
  | root h =>
    cases h' with
    | root _ => rfl
    | step hne _ => exact absurd h hne
  | step hne _ ih =>
    cases h' with
    | root h => exact absurd h hne
    | step _ h2 => exact ih h2

theorem RootOf.of_root {f : Nat → Nat} {i r : Nat} (hi : f i = i) (h : RootOf f i r) : r = i :=
  (RootOf.det (RootOf.root hi) h).symm

/-- `f` with the value at `e` replaced by `r`. -/
def upd (f : Nat → Nat) (e r : Nat) : Nat → Nat := fun j => if j = e then r else f j

@[simp] theorem upd_same (f : Nat → Nat) (e r : Nat) : upd f e r e = r := by simp [upd]

theorem upd_ne (f : Nat → Nat) {e j : Nat} (r : Nat) (h : j ≠ e) : upd f e r j = f j := by
  simp [upd, h]

/-- Path compression does not change any root. -/
theorem compress_iff {f : Nat → Nat} {e r : Nat} (he : f e ≠ e) (h : RootOf f e r) (j r' : Nat) :
    RootOf (upd f e r) j r' ↔ RootOf f j r' := by
  have hr : f r = r := h.isRoot
  have hre : r ≠ e := fun h' => he (h' ▸ hr)
  have hr' : upd f e r r = r := by rw [upd_ne f r hre]; exact hr
  constructor
  · intro hj
    induction hj with
    | @root j hjj =>
      by_cases hje : j = e
      · subst hje; rw [upd_same] at hjj; exact absurd hjj hre
      · rw [upd_ne f r hje] at hjj; exact RootOf.root hjj
    | @step j r' hne _ ih =>
      by_cases hje : j = e
      · subst hje
        rw [upd_same] at ih
        have : r' = r := RootOf.of_root hr ih
        subst this; exact h
      · rw [upd_ne f r hje] at hne ih
        exact RootOf.step hne ih
  · intro hj
    induction hj with
    | @root j hjj =>
      have hje : j ≠ e := fun h' => he (h' ▸ hjj)
      exact RootOf.root (by rw [upd_ne f r hje]; exact hjj)
    | @step j r' hne hrest ih =>
      by_cases hje : j = e
      · subst hje
        have : r = r' := RootOf.det h (RootOf.step hne hrest)
        subst this
        exact RootOf.step (by rw [upd_same]; exact hre) (by rw [upd_same]; exact RootOf.root hr')
      · exact RootOf.step (by rw [upd_ne f r hje]; exact hne) (by rw [upd_ne f r hje]; exact ih)

/-- Linking the root `r2` below the root `r1`. -/
theorem link_iff {f : Nat → Nat} {r1 r2 : Nat} (h1 : f r1 = r1) (h2 : f r2 = r2) (hne : r1 ≠ r2)
    (j r' : Nat) :
    RootOf (upd f r2 r1) j r' ↔ (RootOf f j r' ∧ r' ≠ r2) ∨ (RootOf f j r2 ∧ r' = r1) := by
  have h1' : upd f r2 r1 r1 = r1 := by rw [upd_ne f r1 hne]; exact h1
  constructor
  · intro hj
    induction hj with
    | @root j hjj =>
      by_cases hje : j = r2
      · subst hje; rw [upd_same] at hjj; exact absurd hjj hne
      · rw [upd_ne f r1 hje] at hjj; exact Or.inl ⟨RootOf.root hjj, hje⟩
    | @step j r' hstep _ ih =>
      by_cases hje : j = r2
      · subst hje
        rw [upd_same] at ih
        rcases ih with ⟨ih, _⟩ | ⟨ih, _⟩
        · have : r' = r1 := RootOf.of_root h1 ih
          exact Or.inr ⟨RootOf.root h2, this⟩
        · exact absurd (RootOf.of_root h1 ih) (fun h => hne h.symm)
      · rw [upd_ne f r1 hje] at hstep ih
        rcases ih with ⟨ih, hr⟩ | ⟨ih, hr⟩
        · exact Or.inl ⟨RootOf.step hstep ih, hr⟩
        · exact Or.inr ⟨RootOf.step hstep ih, hr⟩
  · rintro (⟨hj, hr⟩ | ⟨hj, hr⟩)
    · induction hj with
      | @root j hjj => exact RootOf.root (by rw [upd_ne f r1 hr]; exact hjj)
      | @step j r' hstep hrest ih =>
        have hje : j ≠ r2 := fun h' => hstep (h' ▸ h2)
        exact RootOf.step (by rw [upd_ne f r1 hje]; exact hstep) (by rw [upd_ne f r1 hje]; exact ih hr)
    · subst hr
      generalize hq : r2 = q at hj
      induction hj with
      | @root j hjj =>
        subst hq
        exact RootOf.step (by rw [upd_same]; exact hne) (by rw [upd_same]; exact RootOf.root h1')
      | @step j r' hstep hrest ih =>
        subst hq
        have hje : j ≠ r2 := fun h' => hstep (h' ▸ h2)
        exact RootOf.step (by rw [upd_ne f _ hje]; exact hstep) (by rw [upd_ne f _ hje]; exact ih rfl)

/-! ### The concrete structure -/

theorem getD_set_self (l : List Nat) (e r j : Nat) (he : e < l.length) :
    (l.set e r).getD j j = if j = e then r else l.getD j j := by
  simp only [List.getD_eq_getElem?_getD, List.getElem?_set]
  by_cases h : e = j
  · subst h; simp [he]
  · have : ¬ j = e := fun h' => h h'.symm
    simp [h, this]

theorem par_setParent (d : DS) {e : Nat} (r : Nat) (he : e < d.size) :
    (d.setParent e r).par = upd d.par e r := by
  funext j
  simp only [par, setParent, upd]
  exact getD_set_self d.parent e r j he

theorem par_ge (d : DS) {i : Nat} (h : d.size ≤ i) : d.par i = i := by
  unfold size at h
  simp [par, List.getD_eq_getElem?_getD, List.getElem?_eq_none h]

/-- Number of roots among the elements. -/
def nroots (d : DS) : Nat := (List.range d.size).countP (fun i => d.par i = i)

theorem countP_range_congr (p q : Nat → Bool) (n : Nat) (h : ∀ j, j < n → q j = p j) :
    (List.range n).countP q = (List.range n).countP p := by
  apply List.countP_congr
  intro x hx
  rw [h x (List.mem_range.mp hx)]

theorem countP_range_flip (p q : Nat → Bool) (n k : Nat) (hk : k < n) (hp : p k = true)
    (hq : q k = false) (h : ∀ j, j ≠ k → q j = p j) :
    (List.range n).countP q + 1 = (List.range n).countP p := by
  induction n with
  | zero => omega
  | succ n ih =>
    rw [List.range_succ, List.countP_append, List.countP_append]
    by_cases hkn : k = n
    · subst hkn
      have := countP_range_congr p q k (fun j hj => h j (by omega))
      simp [hp, hq, this]
    · have := ih (by omega)
      have hn := h n (fun h' => hkn h'.symm)
      simp only [List.countP_cons, List.countP_nil, hn]
      omega

structure WF (d : DS) : Prop where
  lenR : d.rank.length = d.parent.length
  lt : ∀ i, i < d.size → d.par i < d.size
  inc : ∀ i, d.par i ≠ i → d.rk i < d.rk (d.par i)
  bound : ∀ i, i < d.size → d.rk i + d.nroots ≤ d.size
  grp : d.groups = d.nroots

/-- `d'` has the same elements, ranks, counter and roots as `d`. -/
structure Pres (d d' : DS) : Prop where
  size : d'.size = d.size
  rank : d'.rank = d.rank
  groups : d'.groups = d.groups
  root : ∀ j r, RootOf d'.par j r ↔ RootOf d.par j r

theorem Pres.refl (d : DS) : Pres d d := ⟨rfl, rfl, rfl, fun _ _ => Iff.rfl⟩

theorem Pres.trans {a b c : DS} (h1 : Pres a b) (h2 : Pres b c) : Pres a c :=
  ⟨h2.size.trans h1.size, h2.rank.trans h1.rank, h2.groups.trans h1.groups,
   fun j r => (h2.root j r).trans (h1.root j r)⟩

theorem rootOf_self_iff {f : Nat → Nat} {j : Nat} : RootOf f j j ↔ f j = j :=
  ⟨fun h => h.isRoot, RootOf.root⟩

theorem Pres.isRoot {d d' : DS} (h : Pres d d') (j : Nat) : d'.par j = j ↔ d.par j = j := by
  rw [← rootOf_self_iff, ← rootOf_self_iff]; exact h.root j j

theorem Pres.rk {d d' : DS} (h : Pres d d') (j : Nat) : d'.rk j = d.rk j := by
  simp [DS.rk, h.rank]

theorem Pres.nroots {d d' : DS} (h : Pres d d') : d'.nroots = d.nroots := by
  unfold DS.nroots
  rw [h.size]
  apply countP_range_congr
  intro j _
  have := h.isRoot j
  by_cases h1 : d.par j = j <;> simp_all

theorem RootOf.lt {d : DS} (hd : WF d) {i r : Nat} (h : RootOf d.par i r) (hi : i < d.size) :
    r < d.size := by
  induction h with
  | root _ => exact hi
  | step _ _ ih => exact ih (hd.lt _ hi)

theorem RootOf.rk_le {d : DS} (hd : WF d) {i r : Nat} (h : RootOf d.par i r) :
    d.rk i ≤ d.rk r ∧ (i ≠ r → d.rk i < d.rk r) := by
  induction h with
  | root _ => exact ⟨Nat.le_refl _, fun h => absurd rfl h⟩
  | step hne _ ih =>
    have := hd.inc _ hne
    exact ⟨by omega, fun _ => by omega⟩

theorem size_setParent (d : DS) (e r : Nat) : (d.setParent e r).size = d.size := by
  simp [size, setParent]

/-- One compression step keeps the invariant and all roots. -/
theorem compress_ok {d : DS} (hd : WF d) {i r : Nat} (hi : i < d.size) (hne : d.par i ≠ i)
    (h : RootOf d.par i r) : WF (d.setParent i r) ∧ Pres d (d.setParent i r) := by
  have hpar := par_setParent d r hi
  have hP : Pres d (d.setParent i r) :=
    ⟨size_setParent d i r, rfl, rfl, fun j r' => by rw [hpar]; exact compress_iff hne h j r'⟩
  have hir : i ≠ r := fun h' => hne (h' ▸ h.isRoot)
  refine ⟨⟨hd.lenR.trans (by simp [setParent]), ?_, ?_, ?_, ?_⟩, hP⟩
  · intro j hj
    rw [size_setParent] at hj ⊢
    rw [hpar]
    by_cases hji : j = i
    · subst hji; rw [upd_same]; exact h.lt hd hi
    · rw [upd_ne _ _ hji]; exact hd.lt j hj
  · intro j hj
    rw [hpar] at hj ⊢
    rw [hP.rk, hP.rk]
    by_cases hji : j = i
    · subst hji; rw [upd_same]; exact (h.rk_le hd).2 hir
    · rw [upd_ne _ _ hji] at hj ⊢; exact hd.inc j hj
  · intro j hj
    rw [hP.rk, hP.nroots, hP.size]
    exact hd.bound j (hP.size ▸ hj)
  · rw [hP.groups, hP.nroots]; exact hd.grp

theorem findAux_spec {d : DS} (hd : WF d) : ∀ (fuel i : Nat), i < d.size →
    d.size ≤ fuel + d.rk i + d.nroots →
    RootOf d.par i (findAux fuel d i).2 ∧ Pres d (findAux fuel d i).1 ∧ WF (findAux fuel d i).1 := by
  intro fuel
  induction fuel with
  | zero =>
    intro i hi hf
    have hroot : d.par i = i := by
      apply Classical.byContradiction
      intro hne
      have h1 := hd.inc i hne
      have h2 := hd.bound _ (hd.lt i hi)
      omega
    exact ⟨RootOf.root hroot, Pres.refl d, hd⟩
  | succ fuel ih =>
    intro i hi hf
    unfold findAux
    by_cases hroot : d.par i = i
    · simp only [hroot, if_true]
      exact ⟨RootOf.root hroot, Pres.refl d, hd⟩
    · simp only [hroot, if_false]
      have h1 := hd.inc i hroot
      obtain ⟨hr, hP, hW⟩ := ih (d.par i) (hd.lt i hi) (by omega)
      have hi' : i < (findAux fuel d (d.par i)).1.size := by rw [hP.size]; exact hi
      have hne' : (findAux fuel d (d.par i)).1.par i ≠ i := fun h => hroot ((hP.isRoot i).mp h)
      have hr1 : RootOf d.par i (findAux fuel d (d.par i)).2 := RootOf.step hroot hr
      obtain ⟨hW2, hP2⟩ := compress_ok hW hi' hne' ((hP.root _ _).mpr hr1)
      exact ⟨hr1, hP.trans hP2, hW2⟩

theorem find_spec {d : DS} (hd : WF d) {i : Nat} (hi : i < d.size) :
    RootOf d.par i (d.find i).2 ∧ Pres d (d.find i).1 ∧ WF (d.find i).1 :=
  findAux_spec hd d.size i hi (by omega)

/-! ### `unite` -/

/-- Same root under a parent function. -/
def SameF (f : Nat → Nat) (a b : Nat) : Prop := ∃ r, RootOf f a r ∧ RootOf f b r

/-- `find a == find b`, stated on the parent pointers. -/
def Same (d : DS) (a b : Nat) : Prop := SameF d.par a b

theorem SameF.symm {f : Nat → Nat} {a b : Nat} (h : SameF f a b) : SameF f b a :=
  let ⟨r, h1, h2⟩ := h; ⟨r, h2, h1⟩

theorem SameF.trans {f : Nat → Nat} {a b c : Nat} (h : SameF f a b) (h' : SameF f b c) :
    SameF f a c := by
  obtain ⟨r, h1, h2⟩ := h
  obtain ⟨r', h3, h4⟩ := h'
  have := RootOf.det h2 h3
  subst this
  exact ⟨r, h1, h4⟩

theorem sameF_root {f : Nat → Nat} {a ra : Nat} (ha : RootOf f a ra) (x : Nat) :
    SameF f x a ↔ RootOf f x ra := by
  constructor
  · rintro ⟨r, h1, h2⟩
    have := RootOf.det h2 ha
    subst this; exact h1
  · intro h; exact ⟨ra, h, ha⟩

theorem link_same {f : Nat → Nat} {r1 r2 : Nat} (h1 : f r1 = r1) (h2 : f r2 = r2) (hne : r1 ≠ r2)
    (x y : Nat) :
    SameF (upd f r2 r1) x y ↔
      SameF f x y ∨ (RootOf f x r1 ∧ RootOf f y r2) ∨ (RootOf f x r2 ∧ RootOf f y r1) := by
  constructor
  · rintro ⟨r', hx, hy⟩
    rw [link_iff h1 h2 hne] at hx hy
    rcases hx with ⟨hx, hxr⟩ | ⟨hx, hxr⟩ <;> rcases hy with ⟨hy, hyr⟩ | ⟨hy, hyr⟩
    · exact Or.inl ⟨r', hx, hy⟩
    · subst hyr; exact Or.inr (Or.inl ⟨hx, hy⟩)
    · subst hxr; exact Or.inr (Or.inr ⟨hx, hy⟩)
    · exact Or.inl ⟨r2, hx, hy⟩
  · rintro (⟨r, hx, hy⟩ | ⟨hx, hy⟩ | ⟨hx, hy⟩)
    · by_cases hr : r = r2
      · subst hr
        exact ⟨r1, (link_iff h1 h2 hne _ _).mpr (Or.inr ⟨hx, rfl⟩),
          (link_iff h1 h2 hne _ _).mpr (Or.inr ⟨hy, rfl⟩)⟩
      · exact ⟨r, (link_iff h1 h2 hne _ _).mpr (Or.inl ⟨hx, hr⟩),
          (link_iff h1 h2 hne _ _).mpr (Or.inl ⟨hy, hr⟩)⟩
    · exact ⟨r1, (link_iff h1 h2 hne _ _).mpr (Or.inl ⟨hx, hne⟩),
        (link_iff h1 h2 hne _ _).mpr (Or.inr ⟨hy, rfl⟩)⟩
    · exact ⟨r1, (link_iff h1 h2 hne _ _).mpr (Or.inr ⟨hx, rfl⟩),
        (link_iff h1 h2 hne _ _).mpr (Or.inl ⟨hy, hne⟩)⟩

theorem getD_set (l : List Nat) (e v j dflt : Nat) (he : e < l.length) :
    (l.set e v).getD j dflt = if j = e then v else l.getD j dflt := by
  simp only [List.getD_eq_getElem?_getD, List.getElem?_set]
  by_cases h : e = j
  · subst h; simp [he]
  · have : ¬ j = e := fun h' => h h'.symm
    simp [h, this]

/-- Linking root `r2` below root `r1` (with the rank update of the code). -/
theorem link_ok {d : DS} (hd : WF d) {r1 r2 : Nat} (h1 : d.par r1 = r1) (h2 : d.par r2 = r2)
    (hne : r1 ≠ r2) (hr1 : r1 < d.size) (hr2 : r2 < d.size) (d' : DS)
    (hpar : d'.parent = d.parent.set r2 r1) (hg : d'.groups = d.groups - 1)
    (hrank : (d'.rank = d.rank ∧ d.rk r2 < d.rk r1) ∨
             (d'.rank = d.rank.set r1 (d.rk r1 + 1) ∧ d.rk r1 = d.rk r2)) :
    WF d' ∧ d'.size = d.size ∧ d'.par = upd d.par r2 r1 := by
  have hsize : d'.size = d.size := by simp [size, hpar]
  have hp : d'.par = upd d.par r2 r1 := by
    funext j
    simp only [par, hpar, upd]
    exact getD_set_self d.parent r2 r1 j hr2
  have hrk : ∀ j, d'.rk j = if j = r1 ∧ d.rk r1 = d.rk r2 then d.rk r1 + 1 else d.rk j := by
    intro j
    rcases hrank with ⟨hr, hlt⟩ | ⟨hr, heq⟩
    · have : ¬ (j = r1 ∧ d.rk r1 = d.rk r2) := fun h => by omega
      rw [if_neg this]; simp only [rk, hr]
    · have hh : d'.rk j = (d.rank.set r1 (d.rk r1 + 1)).getD j 0 := by simp only [rk, hr]
      rw [hh, getD_set _ _ _ _ _ (by rw [hd.lenR]; exact hr1)]
      by_cases hj : j = r1
      · simp [hj, heq]
      · simp [hj, rk]
  have hrkcmp : d.rk r2 < d.rk r1 ∨ d.rk r1 = d.rk r2 := by
    rcases hrank with ⟨_, h⟩ | ⟨_, h⟩
    · exact Or.inl h
    · exact Or.inr h
  have hnr : d'.nroots + 1 = d.nroots := by
    unfold nroots
    rw [hsize]
    apply countP_range_flip _ _ _ r2 hr2
    · simp [h2]
    · rw [hp, upd_same]; simp [hne]
    · intro j hj; rw [hp, upd_ne _ _ hj]
  refine ⟨⟨?_, ?_, ?_, ?_, ?_⟩, hsize, hp⟩
  · rcases hrank with ⟨hr, _⟩ | ⟨hr, _⟩ <;> simp [hr, hpar, hd.lenR]
  · intro j hj
    rw [hsize] at hj ⊢
    rw [hp]
    by_cases hj2 : j = r2
    · subst hj2; rw [upd_same]; exact hr1
    · rw [upd_ne _ _ hj2]; exact hd.lt j hj
  · intro j hj
    rw [hp] at hj ⊢
    by_cases hj2 : j = r2
    · subst hj2
      rw [upd_same, hrk, hrk]
      have : ¬ (j = r1) := fun h => hne h.symm
      simp only [this, false_and, if_false, true_and]
      split <;> omega
    · rw [upd_ne _ _ hj2] at hj ⊢
      have hj1 : j ≠ r1 := fun h => hj (h ▸ h1)
      have := hd.inc j hj
      rw [hrk, hrk]
      simp only [hj1, false_and, if_false]
      split
      · next h => rw [h.1] at this; omega
      · omega
  · intro j hj
    rw [hsize] at hj ⊢
    have := hd.bound j hj
    have := hd.bound r1 hr1
    rw [hrk]
    split <;> omega
  · rw [hg, hd.grp]; omega

/-- What `unite` does to the structure. -/
theorem unite_spec {d : DS} (hd : WF d) {a b : Nat} (ha : a < d.size) (hb : b < d.size) :
    WF (d.unite a b).1 ∧ (d.unite a b).1.size = d.size ∧
    (∀ x y, Same (d.unite a b).1 x y ↔
      Same d x y ∨ (Same d x a ∧ Same d y b) ∨ (Same d x b ∧ Same d y a)) ∧
    ((d.unite a b).2 = true ↔ ¬ Same d a b) ∧
    (Same d a b → (d.unite a b).1.groups = d.groups) ∧
    (¬ Same d a b → (d.unite a b).1.groups = d.groups - 1) := by
  obtain ⟨hra, hP1, hW1⟩ := find_spec hd ha
  obtain ⟨hrb, hP2, hW2⟩ := find_spec hW1 (i := b) (by rw [hP1.size]; exact hb)
  have hP := hP1.trans hP2
  generalize hd2 : ((d.find a).1.find b).1 = d2 at hP hW2 hP2
  generalize hra' : (d.find a).2 = ra at hra
  generalize hrb' : ((d.find a).1.find b).2 = rb at hrb
  have hrb0 : RootOf d.par b rb := (hP1.root _ _).mp hrb
  have hra2 : RootOf d2.par a ra := (hP.root _ _).mpr hra
  have hrb2 : RootOf d2.par b rb := (hP.root _ _).mpr hrb0
  have hsame : ∀ x y, Same d2 x y ↔ Same d x y := by
    intro x y
    unfold Same SameF
    simp only [hP.root]
  have hxa : ∀ x, Same d x a ↔ RootOf d2.par x ra := fun x => by
    rw [← hsame]; exact sameF_root hra2 x
  have hxb : ∀ x, Same d x b ↔ RootOf d2.par x rb := fun x => by
    rw [← hsame]; exact sameF_root hrb2 x
  have hab : Same d a b ↔ ra = rb := by
    rw [hxb]
    exact ⟨fun h => RootOf.det hra2 h, fun h => h ▸ hra2⟩
  by_cases heq : ra = rb
  · have hu : d.unite a b = (d2, false) := by
      simp only [unite, hd2, hra', hrb', heq, if_true]
    rw [hu]
    refine ⟨hW2, hP.size, ?_, by simp [hab, heq], fun _ => hP.groups, fun h => absurd (hab.mpr heq) h⟩
    · intro x y
      rw [hsame]
      have sab : Same d a b := hab.mpr heq
      constructor
      · exact Or.inl
      · rintro (h | ⟨h1, h2⟩ | ⟨h1, h2⟩)
        · exact h
        · exact (SameF.trans h1 sab).trans h2.symm
        · exact (SameF.trans h1 sab.symm).trans h2.symm
  · have har : d2.par ra = ra := hra2.isRoot
    have hbr : d2.par rb = rb := hrb2.isRoot
    have hral : ra < d2.size := hra2.lt hW2 (by rw [hP.size]; exact ha)
    have hrbl : rb < d2.size := hrb2.lt hW2 (by rw [hP.size]; exact hb)
    have hgr : d2.groups = d.groups := hP.groups
    have hnab : ¬ Same d a b := fun h => heq (hab.mp h)
    by_cases hrk : d2.rk ra = d2.rk rb
    · have hu : d.unite a b = (DS.mk (d2.parent.set rb ra) (d2.rank.set ra (d2.rk ra + 1)) (d2.groups - 1), true) := by
        simp only [unite, hd2, hra', hrb', heq, if_false, hrk, if_true]
      rw [hu]
      obtain ⟨hW, hs, hp⟩ := link_ok hW2 har hbr heq hral hrbl
        (DS.mk (d2.parent.set rb ra) (d2.rank.set ra (d2.rk ra + 1)) (d2.groups - 1)) rfl rfl (Or.inr ⟨rfl, hrk⟩)
      refine ⟨hW, hs.trans hP.size, ?_, by simp [hnab], fun h => absurd h hnab, fun _ => by simp [hgr]⟩
      intro x y
      have hl := link_same har hbr heq x y
      rw [← hp] at hl
      refine Iff.trans hl ?_
      rw [hxa, hxb, hxa, hxb]
      exact or_congr_left (hsame x y)
    · by_cases hgt : d2.rk ra > d2.rk rb
      · have hu : d.unite a b = (DS.mk (d2.parent.set rb ra) d2.rank (d2.groups - 1), true) := by
          simp only [unite, hd2, hra', hrb', heq, if_false, hrk, hgt, if_true, setParent]
        rw [hu]
        obtain ⟨hW, hs, hp⟩ := link_ok hW2 har hbr heq hral hrbl
          (DS.mk (d2.parent.set rb ra) d2.rank (d2.groups - 1)) rfl rfl (Or.inl ⟨rfl, hgt⟩)
        refine ⟨hW, hs.trans hP.size, ?_, by simp [hnab], fun h => absurd h hnab, fun _ => by simp [hgr]⟩
        intro x y
        have hl := link_same har hbr heq x y
        rw [← hp] at hl
        refine Iff.trans hl ?_
        rw [hxa, hxb, hxa, hxb]
        exact or_congr_left (hsame x y)
      · have hu : d.unite a b = (DS.mk (d2.parent.set ra rb) d2.rank (d2.groups - 1), true) := by
          simp only [unite, hd2, hra', hrb', heq, if_false, hrk, hgt, setParent]
        rw [hu]
        obtain ⟨hW, hs, hp⟩ := link_ok hW2 hbr har (Ne.symm heq) hrbl hral
          (DS.mk (d2.parent.set ra rb) d2.rank (d2.groups - 1)) rfl rfl (Or.inl ⟨rfl, by omega⟩)
        refine ⟨hW, hs.trans hP.size, ?_, by simp [hnab], fun h => absurd h hnab, fun _ => by simp [hgr]⟩
        intro x y
        have hl := link_same hbr har (Ne.symm heq) x y
        rw [← hp] at hl
        refine Iff.trans hl ?_
        rw [hxa, hxb, hxa, hxb]
        refine Iff.trans (or_congr_left (hsame x y)) ?_
        constructor
        · rintro (h | h | h)
          · exact Or.inl h
          · exact Or.inr (Or.inr h)
          · exact Or.inr (Or.inl h)
        · rintro (h | h | h)
          · exact Or.inl h
          · exact Or.inr (Or.inr h)
          · exact Or.inr (Or.inl h)

/-! ### Histories and the equivalence closure of the united pairs -/

/-- The reflexive-symmetric-transitive closure of a list of pairs. -/
inductive Conn (ps : List (Nat × Nat)) : Nat → Nat → Prop
  | base {a b : Nat} : (a, b) ∈ ps → Conn ps a b
  | refl (a : Nat) : Conn ps a a
  | symm {a b : Nat} : Conn ps a b → Conn ps b a
  | trans {a b c : Nat} : Conn ps a b → Conn ps b c → Conn ps a c

theorem Conn.mono {ps qs : List (Nat × Nat)} (h : ∀ p, p ∈ ps → p ∈ qs) {a b : Nat}
    (hc : Conn ps a b) : Conn qs a b := by
  induction hc with
  | base hm => exact Conn.base (h _ hm)
  | refl a => exact Conn.refl a
  | symm _ ih => exact ih.symm
  | trans _ _ ih1 ih2 => exact ih1.trans ih2

theorem conn_nil {a b : Nat} : Conn [] a b ↔ a = b := by
  constructor
  · intro h
    induction h with
    | base hm => cases hm
    | refl a => rfl
    | symm _ ih => exact ih.symm
    | trans _ _ ih1 ih2 => exact ih1.trans ih2
  · rintro rfl; exact Conn.refl _

theorem conn_snoc (ps : List (Nat × Nat)) (a b x y : Nat) :
    Conn (ps ++ [(a, b)]) x y ↔
      Conn ps x y ∨ (Conn ps x a ∧ Conn ps y b) ∨ (Conn ps x b ∧ Conn ps y a) := by
  constructor
  · intro h
    induction h with
    | @base u v hm =>
      rcases List.mem_append.mp hm with hm | hm
      · exact Or.inl (Conn.base hm)
      · simp only [List.mem_singleton, Prod.mk.injEq] at hm
        obtain ⟨rfl, rfl⟩ := hm
        exact Or.inr (Or.inl ⟨Conn.refl _, Conn.refl _⟩)
    | refl u => exact Or.inl (Conn.refl u)
    | symm _ ih =>
      rcases ih with h | ⟨h1, h2⟩ | ⟨h1, h2⟩
      · exact Or.inl h.symm
      · exact Or.inr (Or.inr ⟨h2, h1⟩)
      · exact Or.inr (Or.inl ⟨h2, h1⟩)
    | trans _ _ ih1 ih2 =>
      rcases ih1 with h1 | ⟨h1, h2⟩ | ⟨h1, h2⟩ <;> rcases ih2 with h3 | ⟨h3, h4⟩ | ⟨h3, h4⟩
      · exact Or.inl (h1.trans h3)
      · exact Or.inr (Or.inl ⟨h1.trans h3, h4⟩)
      · exact Or.inr (Or.inr ⟨h1.trans h3, h4⟩)
      · exact Or.inr (Or.inl ⟨h1, h3.symm.trans h2⟩)
      · exact Or.inl (h1.trans (h3.symm.trans (h2.trans h4.symm)))
      · exact Or.inl (h1.trans h4.symm)
      · exact Or.inr (Or.inr ⟨h1, h3.symm.trans h2⟩)
      · exact Or.inl (h1.trans h4.symm)
      · exact Or.inl (h1.trans (h3.symm.trans (h2.trans h4.symm)))
  · have hm : ∀ p, p ∈ ps → p ∈ ps ++ [(a, b)] := fun p hp => List.mem_append.mpr (Or.inl hp)
    have hab : Conn (ps ++ [(a, b)]) a b := Conn.base (by simp)
    rintro (h | ⟨h1, h2⟩ | ⟨h1, h2⟩)
    · exact h.mono hm
    · exact ((h1.mono hm).trans hab).trans (h2.mono hm).symm
    · exact ((h1.mono hm).trans hab.symm).trans (h2.mono hm).symm

/-- All elements named by the operation exist. -/
def Op.inRange (n : Nat) : Op → Prop
  | .unite a b => a < n ∧ b < n
  | .find a => a < n

/-- The invariant of histories. -/
structure Inv (n : Nat) (d : DS) (ps : List (Nat × Nat)) : Prop where
  wf : WF d
  size : d.size = n
  same : ∀ x y, Same d x y ↔ Conn ps x y

theorem par_init (n i : Nat) : (init n).par i = i := by
  simp only [par, init, List.getD_eq_getElem?_getD, List.getElem?_range]
  by_cases h : i < n <;> simp [h]

theorem inv_init (n : Nat) : Inv n (init n) [] := by
  have hsz : (init n).size = n := by simp [size, init]
  have hnr : (init n).nroots = n := by
    unfold nroots
    rw [hsz]
    rw [List.countP_eq_length.mpr]
    · simp
    · intro i _; simp [par_init]
  refine ⟨⟨by simp [init], ?_, ?_, ?_, ?_⟩, hsz, ?_⟩
  · intro i hi; rw [par_init]; exact hi
  · intro i hi; exact absurd (par_init n i) hi
  · intro i hi
    rw [hnr, hsz]
    simp [rk, init, List.getD_eq_getElem?_getD]
    by_cases h : i < n <;> simp [h]
  · rw [hnr]; rfl
  · intro x y
    rw [conn_nil]
    constructor
    · rintro ⟨r, h1, h2⟩
      rw [RootOf.of_root (par_init n x) h1] at h2
      exact (RootOf.of_root (par_init n y) h2)
    · rintro rfl
      exact ⟨x, RootOf.root (par_init n x), RootOf.root (par_init n x)⟩

theorem Pres.same {d d' : DS} (h : Pres d d') (x y : Nat) : Same d' x y ↔ Same d x y := by
  unfold Same SameF
  simp only [h.root]

/-- The pair united by an operation, if any. -/
def Op.pairs : Op → List (Nat × Nat)
  | .unite a b => [(a, b)]
  | .find _ => []

theorem pairsOf_cons (op : Op) (ops : List Op) :
    pairsOf (op :: ops) = op.pairs ++ pairsOf ops := by
  cases op <;> simp [pairsOf, Op.pairs]

theorem inv_step {n : Nat} {d : DS} {ps : List (Nat × Nat)} (h : Inv n d ps) (op : Op)
    (hop : op.inRange n) :
    Inv n (d.step op) (ps ++ op.pairs) := by
  cases op with
  | unite a b =>
    obtain ⟨ha, hb⟩ := hop
    obtain ⟨hW, hs, hsame, _, _⟩ := unite_spec h.wf (h.size ▸ ha) (h.size ▸ hb)
    refine ⟨hW, hs.trans h.size, ?_⟩
    intro x y
    show Same (d.unite a b).1 x y ↔ _
    rw [Op.pairs, hsame, conn_snoc, h.same, h.same, h.same, h.same, h.same]
  | find a =>
    obtain ⟨_, hP, hW⟩ := find_spec h.wf (h.size ▸ hop : a < d.size)
    refine ⟨hW, hP.size.trans h.size, ?_⟩
    intro x y
    show Same (d.find a).1 x y ↔ _
    rw [hP.same, Op.pairs, List.append_nil]
    exact h.same x y

theorem inv_foldl {n : Nat} : ∀ (ops : List Op) {d : DS} {ps : List (Nat × Nat)}, Inv n d ps →
    (∀ op, op ∈ ops → op.inRange n) → Inv n (ops.foldl step d) (ps ++ pairsOf ops) := by
  intro ops
  induction ops with
  | nil => intro d ps h _; simpa [pairsOf] using h
  | cons op ops ih =>
    intro d ps h hr
    rw [List.foldl_cons, pairsOf_cons, ← List.append_assoc]
    exact ih (inv_step h op (hr op (by simp))) (fun o ho => hr o (by simp [ho]))

/-- The structure after a history satisfies the invariant for its unions. -/
theorem inv_run (n : Nat) (ops : List Op) (hr : ∀ op, op ∈ ops → op.inRange n) :
    Inv n (run n ops) (pairsOf ops) := by
  have := inv_foldl ops (inv_init n) hr
  simpa [run] using this

end SR.DS
