/-
  JSON text layer, the tokens: decimal integers, `\uXXXX` escapes, strings.
  `parseNat (natDigits n ++ rest) = some (n, rest)`, `parseStr (body of renderStr s ++ rest)
  = some (s, rest)` for EVERY string (all escapes of `ensure_ascii=True`, surrogate pairs
  included).
-/
import SRVerif.Model.Json

namespace SR.Json

/-! ## Decimal digits -/

theorem digitChar_isDigit : ∀ d < 10, (digitChar d).isDigit = true := by decide
theorem digitChar_val : ∀ d < 10, (digitChar d).toNat - 48 = d := by decide
theorem digitChar_ne_zero : ∀ d < 10, d ≠ 0 → digitChar d ≠ '0' := by decide

theorem readNat_digits (f : Nat) : ∀ n, n < f →
    ∃ k, ∀ acc rest, readNat acc (natDigitsF f n ++ rest) = readNat (acc * k + n) rest := by
  induction f with
  | zero => intro n h; omega
  | succ f ih =>
    intro n hn
    unfold natDigitsF
    by_cases h : n < 10
    · refine ⟨10, fun acc rest => ?_⟩
      simp only [h, if_true, List.cons_append, List.nil_append, readNat, digitChar_isDigit n h,
        digitChar_val n h]
    · obtain ⟨k, hk⟩ := ih (n / 10) (by omega)
      refine ⟨k * 10, fun acc rest => ?_⟩
      have hd : n % 10 < 10 := Nat.mod_lt _ (by omega)
      simp only [h, if_false, List.append_assoc, List.cons_append, List.nil_append, hk, readNat,
        digitChar_isDigit _ hd, digitChar_val _ hd, if_true]
      congr 1
      rw [Nat.add_mul, Nat.mul_assoc]
      omega

theorem natDigitsF_head (f : Nat) : ∀ n, n < f → 0 < n →
    ∃ c t, natDigitsF f n = c :: t ∧ c.isDigit = true ∧ c ≠ '0' := by
  induction f with
  | zero => intro n h; omega
  | succ f ih =>
    intro n hn hpos
    unfold natDigitsF
    by_cases h : n < 10
    · exact ⟨digitChar n, [], by simp [h], digitChar_isDigit n h, digitChar_ne_zero n h (by omega)⟩
    · obtain ⟨c, t, e, h1, h2⟩ := ih (n / 10) (by omega) (by omega)
      exact ⟨c, t ++ [digitChar (n % 10)], by simp [h, e], h1, h2⟩

/-- The text after a value: end of input, or `,` `]` `}`. -/
def Delim (rest : List Char) : Prop :=
  rest = [] ∨ ∃ c t, rest = c :: t ∧ (c = ',' ∨ c = ']' ∨ c = '}')

theorem readNat_delim (n : Nat) {rest : List Char} (h : Delim rest) : readNat n rest = (n, rest) := by
  rcases h with rfl | ⟨c, t, rfl, hc⟩
  · rfl
  · rcases hc with rfl | rfl | rfl <;> simp [readNat, Char.isDigit]

theorem numTail_delim (n : Nat) {rest : List Char} (h : Delim rest) : numTail n rest = some (n, rest) := by
  rcases h with rfl | ⟨c, t, rfl, hc⟩
  · rfl
  · rcases hc with rfl | rfl | rfl <;> simp [numTail]

theorem parseNat_natDigits (n : Nat) {rest : List Char} (h : Delim rest) :
    parseNat (natDigits n ++ rest) = some (n, rest) := by
  by_cases h0 : n = 0
  · subst h0
    show parseNat ('0' :: rest) = _
    simp only [parseNat, if_true]
    exact numTail_delim 0 h
  · obtain ⟨c, t, e, h1, h2⟩ := natDigitsF_head (n + 1) n (by omega) (by omega)
    obtain ⟨k, hk⟩ := readNat_digits (n + 1) n (by omega)
    have hr : readNat 0 (c :: (t ++ rest)) = (n, rest) := by
      have := hk 0 rest
      rw [e] at this
      simpa [readNat_delim n h] using this
    unfold natDigits
    rw [e]
    simp only [parseNat, List.cons_append, h2, if_false, h1, if_true, hr]
    exact numTail_delim n h

/-- The first character of a rendered integer is `-` or a digit. -/
theorem renderInt_head (n : Int) : ∃ c t, renderInt n = c :: t ∧ (c = '-' ∨ c.isDigit = true) := by
  have key : ∀ k, ∃ c t, natDigits k = c :: t ∧ c.isDigit = true := by
    intro k
    by_cases h0 : k = 0
    · subst h0; exact ⟨'0', [], rfl, by decide⟩
    · obtain ⟨c, t, e, h1, _⟩ := natDigitsF_head (k + 1) k (by omega) (by omega)
      exact ⟨c, t, e, h1⟩
  cases n with
  | ofNat k => obtain ⟨c, t, e, h⟩ := key k; exact ⟨c, t, e, .inr h⟩
  | negSucc k => exact ⟨'-', _, rfl, .inl rfl⟩

/-! ## `\uXXXX` -/

theorem hexVal_hexDigit : ∀ d < 16, hexVal? (hexDigit d) = some d := by decide

theorem hex4?_hex4 (n : Nat) (h : n < 65536) (r : List Char) : hex4? (hex4 n ++ r) = some (n, r) := by
  have m : ∀ x : Nat, x % 16 < 16 := fun x => Nat.mod_lt _ (by omega)
  simp only [hex4, List.cons_append, List.nil_append, hex4?, hexVal_hexDigit _ (m _)]
  congr 2
  omega

theorem char_scalar (c : Char) : c.toNat < 0xd800 ∨ (0xdfff < c.toNat ∧ c.toNat < 0x110000) :=
  c.valid

theorem charOfNat?_toNat (c : Char) : charOfNat? c.toNat = some c := by
  simp only [charOfNat?, char_scalar c, if_true, Char.ofNat_toNat]

theorem dropPrefix?_append (p r : List Char) : dropPrefix? p (p ++ r) = some r := by
  induction p with
  | nil => rfl
  | cons a p ih => simp [dropPrefix?, ih]

theorem unescapeU_bmp (c : Char) (h : c.toNat < 0x10000) (t : List Char) :
    unescapeU (hex4 c.toNat ++ t) = some (c, t) := by
  have hs : ¬ (0xd800 ≤ c.toNat ∧ c.toNat ≤ 0xdbff) := by
    have := char_scalar c
    omega
  unfold unescapeU
  rw [hex4?_hex4 _ h]
  simp only [hs, if_false, charOfNat?_toNat, Option.map_some]

theorem unescapeU_pair (hi lo : Nat) (c : Char) (t : List Char) (h1 : hi < 65536) (h2 : lo < 65536)
    (h3 : 0xd800 ≤ hi ∧ hi ≤ 0xdbff) (h4 : 0xdc00 ≤ lo ∧ lo ≤ 0xdfff)
    (h5 : joinSurrogates hi lo = c.toNat) :
    unescapeU (hex4 hi ++ (uEsc lo ++ t)) = some (c, t) := by
  have e : uEsc lo ++ t = ['\\', 'u'] ++ (hex4 lo ++ t) := rfl
  unfold unescapeU
  rw [hex4?_hex4 _ h1]
  simp only [h3, and_self, if_true]
  rw [e, dropPrefix?_append]
  simp only []
  rw [hex4?_hex4 _ h2]
  simp only [h4, and_self, if_true, h5, charOfNat?_toNat, Option.map_some]

theorem unescapeU_astral (c : Char) (h : ¬ c.toNat < 0x10000) (t : List Char) :
    unescapeU (hex4 (0xd800 + (c.toNat - 0x10000) / 1024) ++
      (uEsc (0xdc00 + (c.toNat - 0x10000) % 1024) ++ t)) = some (c, t) := by
  have hv := char_scalar c
  exact unescapeU_pair _ _ c t (by omega) (by omega) (by omega) (by omega)
    (by unfold joinSurrogates; omega)

/-! ## Strings -/

theorem escChar_ne_nil (c : Char) : escChar c ≠ [] := by
  unfold escChar uEsc
  repeat' split
  all_goals simp

theorem parseStrBody_bs (f : Nat) (r : List Char) :
    parseStrBody (f + 1) ('\\' :: r) =
      match unescape r with
      | none => none
      | some (x, r') => (parseStrBody f r').map (fun p => (x :: p.1, p.2)) := by
  cases h : unescape r <;> simp [parseStrBody, h]

theorem parseStrBody_plain (f : Nat) (c : Char) (r : List Char) (h1 : c ≠ '"') (h2 : c ≠ '\\')
    (h3 : ¬ c.toNat < 0x20) :
    parseStrBody (f + 1) (c :: r) = (parseStrBody f r).map (fun p => (c :: p.1, p.2)) := by
  simp [parseStrBody, h1, h2, h3]

theorem unescape_u (r : List Char) : unescape ('u' :: r) = unescapeU r := by
  simp [unescape]

/-- Reading one rendered character. -/
theorem parseStrBody_esc (c : Char) (f : Nat) (t : List Char) :
    parseStrBody (f + 1) (escChar c ++ t) = (parseStrBody f t).map (fun p => (c :: p.1, p.2)) := by
  unfold escChar
  split
  · subst_vars; rw [List.cons_append, parseStrBody_bs]; simp [unescape]
  split
  · subst_vars; rw [List.cons_append, parseStrBody_bs]; simp [unescape]
  split
  · subst_vars; rw [List.cons_append, parseStrBody_bs]; simp [unescape]
  split
  · subst_vars; rw [List.cons_append, parseStrBody_bs]; simp [unescape]
  split
  · subst_vars; rw [List.cons_append, parseStrBody_bs]; simp [unescape]
  split
  · subst_vars; rw [List.cons_append, parseStrBody_bs]; simp [unescape]
  split
  · subst_vars; rw [List.cons_append, parseStrBody_bs]; simp [unescape]
  rename_i n1 n2 n3 n4 n5 n6 n7
  split
  · rename_i hp
    have : ¬ c.toNat < 0x20 := by omega
    rw [List.cons_append, List.nil_append, parseStrBody_plain f c t n1 n2 this]
  split
  · rename_i hp hb
    rw [uEsc, List.cons_append, parseStrBody_bs, List.cons_append, unescape_u, unescapeU_bmp c hb t]
  · rename_i hp hb
    rw [List.append_assoc, uEsc, List.cons_append, parseStrBody_bs, List.cons_append, unescape_u,
      unescapeU_astral c hb t]

theorem parseStrBody_render (s : List Char) : ∀ (f : Nat) (rest : List Char), s.length < f →
    parseStrBody f (s.flatMap escChar ++ '"' :: rest) = some (s, rest) := by
  induction s with
  | nil =>
    intro f rest hf
    cases f with
    | zero => omega
    | succ f => simp [parseStrBody]
  | cons c s ih =>
    intro f rest hf
    cases f with
    | zero => omega
    | succ f =>
      simp only [List.flatMap_cons, List.append_assoc]
      rw [parseStrBody_esc, ih f rest (by simpa using hf)]
      rfl

theorem length_le_flatMap_esc (s : List Char) : s.length ≤ (s.flatMap escChar).length := by
  induction s with
  | nil => simp
  | cons c s ih =>
    have : 0 < (escChar c).length := List.length_pos_iff.mpr (escChar_ne_nil c)
    simp only [List.flatMap_cons, List.length_append, List.length_cons]
    omega

/-- A rendered string (after its opening quote) is read back, whatever follows. -/
theorem parseStr_render (s : String) (rest : List Char) :
    parseStr (s.toList.flatMap escChar ++ '"' :: rest) = some (s, rest) := by
  unfold parseStr
  rw [parseStrBody_render s.toList _ rest (by
    have := length_le_flatMap_esc s.toList
    simp only [List.length_append, List.length_cons]
    omega)]
  simp [String.ofList_toList]

/-- No line break in a rendered string body. -/
theorem escChar_no_newline (c : Char) : '\n' ∉ escChar c ∧ '\r' ∉ escChar c := by
  have hx : ∀ d < 16, hexDigit d ≠ '\n' ∧ hexDigit d ≠ '\r' := by decide
  have m : ∀ x : Nat, x % 16 < 16 := fun x => Nat.mod_lt _ (by omega)
  have hu : ∀ n, '\n' ∉ uEsc n ∧ '\r' ∉ uEsc n := by
    intro n
    simp only [uEsc, hex4, List.mem_cons, List.not_mem_nil, or_false, not_or]
    refine ⟨⟨by decide, by decide, ?_, ?_, ?_, ?_⟩, ⟨by decide, by decide, ?_, ?_, ?_, ?_⟩⟩ <;>
      first
      | exact fun e => (hx _ (m _)).1 e.symm
      | exact fun e => (hx _ (m _)).2 e.symm
  unfold escChar
  repeat' split
  all_goals try (constructor <;> decide)
  · rename_i h
    constructor <;> (simp only [List.mem_singleton]; intro e; subst e; simp at h)
  · exact hu _
  · simp only [List.mem_append, not_or]
    exact ⟨⟨(hu _).1, (hu _).1⟩, ⟨(hu _).2, (hu _).2⟩⟩

end SR.Json
