/-
  C19: the in-degree dictionary, and the state invariant shared by the Kahn
  loop and the backtracking enumeration.
-/
import SRVerif.Proofs.ToposortSpec

namespace SR.Toposort

/-! ### The in-degree dictionary -/

theorem lookup_set_self (I : Indeg) (k : Nat) (x y : Int) (h : I.lookup k = some y) :
    (I.set k x).lookup k = some x := by
  induction I with
  | nil => simp at h
  | cons a I ih =>
    obtain ⟨a1, a2⟩ := a
    simp only [Indeg.set, List.map_cons]
    by_cases e : a1 = k
    · subst e; simp
    · simp only [e, if_false, List.lookup_cons]
      have e' : (k == a1) = false := by simpa using fun h => e h.symm
      rw [List.lookup_cons, e'] at h
      rw [e']
      exact ih h

theorem lookup_set_ne (I : Indeg) (k k' : Nat) (x : Int) (h : k' ≠ k) :
    (I.set k x).lookup k' = I.lookup k' := by
  induction I with
  | nil => simp [Indeg.set]
  | cons a I ih =>
    obtain ⟨a1, a2⟩ := a
    simp only [Indeg.set, List.map_cons]
    by_cases e : a1 = k
    · subst e
      have e' : (k' == a1) = false := by simpa using h
      simp only [if_true, List.lookup_cons, e']
      exact ih
    · simp only [e, if_false, List.lookup_cons]
      cases (k' == a1)
      · exact ih
      · rfl

theorem keys_set (I : Indeg) (k : Nat) (x : Int) : (I.set k x).map (·.1) = I.map (·.1) := by
  simp only [Indeg.set, List.map_map]
  apply List.map_congr_left
  intro p _
  by_cases e : p.1 = k <;> simp [e]

theorem lookup_some_of_mem (I : Indeg) (k : Nat) (h : k ∈ I.map (·.1)) : ∃ x, I.lookup k = some x := by
  induction I with
  | nil => simp at h
  | cons a I ih =>
    obtain ⟨a1, a2⟩ := a
    rw [List.lookup_cons]
    by_cases e : k = a1
    · subst e; simp
    · have e' : (k == a1) = false := by simpa using e
      rw [e']
      simp only [List.map_cons, List.mem_cons] at h
      rcases h with h | h
      · exact absurd h e
      · exact ih h

theorem mem_of_lookup_some (I : Indeg) (k : Nat) (x : Int) (h : I.lookup k = some x) :
    k ∈ I.map (·.1) := by
  induction I with
  | nil => simp at h
  | cons a I ih =>
    obtain ⟨a1, a2⟩ := a
    rw [List.lookup_cons] at h
    by_cases e : k = a1
    · subst e; simp
    · have e' : (k == a1) = false := by simpa using e
      rw [e'] at h
      simp only [List.map_cons, List.mem_cons]
      exact Or.inr (ih h)

theorem indeg_ext : ∀ (I J : Indeg), I.map (·.1) = J.map (·.1) → (I.map (·.1)).Nodup →
    (∀ k, I.lookup k = J.lookup k) → I = J := by
  intro I
  induction I with
  | nil => intro J h _ _; cases J with | nil => rfl | cons _ _ => simp at h
  | cons a I ih =>
    intro J h hn hl
    cases J with
    | nil => simp at h
    | cons b J =>
      obtain ⟨a1, a2⟩ := a
      obtain ⟨b1, b2⟩ := b
      simp only [List.map_cons, List.cons.injEq] at h
      obtain ⟨h1, h2⟩ := h
      subst h1
      have h0 := hl a1
      simp only [List.lookup_cons, beq_self_eq_true, Option.some.injEq] at h0
      subst h0
      simp only [List.map_cons, List.nodup_cons] at hn
      congr 1
      apply ih J h2 hn.2
      intro k
      have := hl k
      by_cases e : k = a1
      · subst e
        have n1 : I.lookup k = none := by
          cases hh : I.lookup k with
          | none => rfl
          | some x => exact absurd (mem_of_lookup_some I k x hh) hn.1
        have n2 : J.lookup k = none := by
          cases hh : J.lookup k with
          | none => rfl
          | some x => exact absurd (h2 ▸ mem_of_lookup_some J k x hh) hn.1
        rw [n1, n2]
      · have e' : (k == a1) = false := by simpa using e
        simpa [List.lookup_cons, e'] using this

theorem bump_eq (I : Indeg) (k : Nat) (d x : Int) (h : I.lookup k = some x) :
    I.bump k d = .ok (I.set k (x + d), x + d) := by
  simp [Indeg.bump, h]

/-- The decrement loop over a successor set. -/
theorem decAll_spec (push : List Nat → Nat → List Nat)
    (hpush : ∀ ns v, v ∉ ns → push ns v = ns ++ [v]) :
    ∀ (ss ns : List Nat) (I : Indeg), ss.Nodup → (∀ v ∈ ss, ∃ x, I.lookup v = some x) →
      ns.Nodup → (∀ v ∈ ss, I.lookup v = some 1 → v ∉ ns) →
      ∃ ns' I', decAll push ss (ns, I) = .ok (ns', I') ∧ I'.map (·.1) = I.map (·.1) ∧
        (∀ v, I'.lookup v = if v ∈ ss then (I.lookup v).map (· - 1) else I.lookup v) ∧
        ns'.Nodup ∧ ∀ v, v ∈ ns' ↔ v ∈ ns ∨ (v ∈ ss ∧ I.lookup v = some 1) := by
  intro ss
  induction ss with
  | nil =>
    intro ns I _ _ hn _
    exact ⟨ns, I, by simp [decAll, pure, Except.pure], rfl, by simp, hn, by simp⟩
  | cons a ss ih =>
    intro ns I hss hlk hn hfresh
    obtain ⟨x, hx⟩ := hlk a (by simp)
    have hass : a ∉ ss := (List.nodup_cons.1 hss).1
    have hssn : ss.Nodup := (List.nodup_cons.1 hss).2
    let I1 := I.set a (x + -1)
    let ns1 := if x + -1 = 0 then push ns a else ns
    have hstep : decOne push (ns, I) a = .ok (ns1, I1) := by
      simp [decOne, bump_eq I a (-1) x hx, ns1, I1]
    have hlk1 : ∀ v ∈ ss, I1.lookup v = I.lookup v := by
      intro v hv
      exact lookup_set_ne I a v _ (fun e => hass (e ▸ hv))
    have hns1 : ns1.Nodup ∧ ∀ v, v ∈ ns1 ↔ v ∈ ns ∨ (v = a ∧ x = 1) := by
      by_cases e : x + -1 = 0
      · have e1 : x = 1 := by omega
        have hans : a ∉ ns := hfresh a (by simp) (by rw [hx, e1])
        simp only [ns1, e, if_true, hpush ns a hans]
        refine ⟨?_, ?_⟩
        · rw [List.nodup_append]
          refine ⟨hn, by simp, ?_⟩
          intro u hu w hw
          simp at hw; subst hw
          intro h; subst h; exact hans hu
        · intro v; simp [e1]
      · have e1 : x ≠ 1 := by omega
        simp only [ns1, e, if_false]
        exact ⟨hn, by intro v; simp [e1]⟩
    obtain ⟨ns', I', h1, h2, h3, h4, h5⟩ := ih ns1 I1 hssn
      (fun v hv => by rw [hlk1 v hv]; exact hlk v (by simp [hv]))
      hns1.1
      (by
        intro v hv h1 hmem
        rw [hlk1 v hv] at h1
        rcases (hns1.2 v).1 hmem with h | ⟨h, _⟩
        · exact hfresh v (by simp [hv]) h1 h
        · exact hass (h ▸ hv))
    refine ⟨ns', I', ?_, ?_, ?_, h4, ?_⟩
    · simp only [decAll, List.foldlM_cons, hstep, bind, Except.bind]
      exact h1
    · rw [h2]; exact keys_set I a _
    · intro v
      rw [h3 v]
      by_cases hv : v ∈ ss
      · have : v ≠ a := fun e => hass (e ▸ hv)
        simp [hv, hlk1 v hv]
      · by_cases e : v = a
        · subst e
          simp only [hv, if_false, List.mem_cons, true_or, if_true]
          rw [lookup_set_self I v _ x hx, hx]
          simp; omega
        · simp only [hv, if_false, List.mem_cons, e, false_or]
          exact lookup_set_ne I a v _ e
    · intro v
      rw [h5 v, hns1.2 v]
      constructor
      · rintro ((h | ⟨h, hx1⟩) | ⟨h, hl⟩)
        · exact Or.inl h
        · subst h; subst hx1; exact Or.inr ⟨by simp, hx⟩
        · exact Or.inr ⟨by simp [h], by rw [← hlk1 v h]; exact hl⟩
      · rintro (h | ⟨h, hl⟩)
        · exact Or.inl (Or.inl h)
        · rcases List.mem_cons.1 h with e | e
          · subst e
            rw [hx] at hl
            exact Or.inl (Or.inr ⟨rfl, by simpa using hl⟩)
          · exact Or.inr ⟨e, by rw [hlk1 v e]; exact hl⟩

/-- The restoring loop. -/
theorem incAll_spec : ∀ (ss : List Nat) (I : Indeg), ss.Nodup →
    (∀ v ∈ ss, ∃ x, I.lookup v = some x) →
    ∃ I', incAll ss I = .ok I' ∧ I'.map (·.1) = I.map (·.1) ∧
      ∀ v, I'.lookup v = if v ∈ ss then (I.lookup v).map (· + 1) else I.lookup v := by
  intro ss
  induction ss with
  | nil => intro I _ _; exact ⟨I, by simp [incAll, pure, Except.pure], rfl, by simp⟩
  | cons a ss ih =>
    intro I hss hlk
    obtain ⟨x, hx⟩ := hlk a (by simp)
    have hass : a ∉ ss := (List.nodup_cons.1 hss).1
    let I1 := I.set a (x + 1)
    have hstep : incOne I a = .ok I1 := by simp [incOne, bump_eq I a 1 x hx, I1]
    have hlk1 : ∀ v ∈ ss, I1.lookup v = I.lookup v := fun v hv =>
      lookup_set_ne I a v _ (fun e => hass (e ▸ hv))
    obtain ⟨I', h1, h2, h3⟩ := ih I1 (List.nodup_cons.1 hss).2
      (fun v hv => by rw [hlk1 v hv]; exact hlk v (by simp [hv]))
    refine ⟨I', ?_, ?_, ?_⟩
    · simp only [incAll, List.foldlM_cons, hstep, bind, Except.bind]; exact h1
    · rw [h2]; exact keys_set I a _
    · intro v
      rw [h3 v]
      by_cases hv : v ∈ ss
      · simp [hv, hlk1 v hv]
      · by_cases e : v = a
        · subst e
          simp only [hv, if_false, List.mem_cons, true_or, if_true]
          rw [lookup_set_self I v _ x hx, hx]; simp
        · simp only [hv, if_false, List.mem_cons, e, false_or]
          exact lookup_set_ne I a v _ e

/-! ### Remaining in-degree -/

/-- Number of predecessors of `v` that are not in `done`. -/
def indegOf (g : Graph) (done : List Nat) (v : Nat) : Nat :=
  g.countP (fun p => decide (p.1 ∉ done) && decide (v ∈ p.2))

theorem indegOf_eq_zero (g : Graph) (done : List Nat) (v : Nat) :
    indegOf g done v = 0 ↔ ∀ p ∈ g, v ∈ p.2 → p.1 ∈ done := by
  simp only [indegOf, List.countP_eq_zero, Bool.and_eq_true, decide_eq_true_eq, not_and]
  constructor
  · intro h p hp hv; by_contra hn; exact h p hp hn hv
  · intro h p hp hn hv; exact hn (h p hp hv)

theorem ready_iff (g : Graph) (done : List Nat) (v : Nat) :
    Ready g done v ↔ v ∈ keys g ∧ v ∉ done ∧ indegOf g done v = 0 := by
  rw [indegOf_eq_zero]; rfl

theorem mem_of_lookup_graph (g : Graph) (x : Nat) (ss : List Nat) (h : g.lookup x = some ss) :
    (x, ss) ∈ g := by
  induction g with
  | nil => simp at h
  | cons a g ih =>
    obtain ⟨a1, a2⟩ := a
    rw [List.lookup_cons] at h
    by_cases e : x = a1
    · subst e; simp at h; subst h; simp
    · have e' : (x == a1) = false := by simpa using e
      rw [e'] at h
      exact List.mem_cons_of_mem _ (ih h)

theorem lookup_graph_of_mem_keys (g : Graph) (x : Nat) (h : x ∈ keys g) :
    ∃ ss, g.lookup x = some ss := by
  induction g with
  | nil => simp [keys] at h
  | cons a g ih =>
    obtain ⟨a1, a2⟩ := a
    rw [List.lookup_cons]
    by_cases e : x = a1
    · subst e; simp
    · have e' : (x == a1) = false := by simpa using e
      rw [e']
      simp only [keys, List.map_cons, List.mem_cons] at h
      rcases h with h | h
      · exact absurd h e
      · exact ih h

/-- Removing `x` lowers by one the remaining in-degree of exactly its
    successors. -/
theorem indegOf_cons (g : Graph) (hk : (keys g).Nodup) (done : List Nat) (x : Nat) (ss : List Nat)
    (hx : (x, ss) ∈ g) (hxd : x ∉ done) (v : Nat) :
    indegOf g done v = indegOf g (x :: done) v + (if v ∈ ss then 1 else 0) := by
  induction g with
  | nil => simp at hx
  | cons a g ih =>
    obtain ⟨a1, a2⟩ := a
    simp only [keys, List.map_cons, List.nodup_cons] at hk
    simp only [indegOf, List.countP_cons]
    rcases List.mem_cons.1 hx with e | e
    · -- the entry of `x` itself; `x` is not a key of the tail
      simp only [Prod.mk.injEq] at e
      obtain ⟨e1, e2⟩ := e
      subst e1; subst e2
      have htail : ∀ p ∈ g, p.1 ≠ x := by
        intro p hp e; exact hk.1 (e ▸ List.mem_map_of_mem (f := (·.1)) hp)
      have : List.countP (fun p => decide (p.1 ∉ done) && decide (v ∈ p.2)) g
           = List.countP (fun p => decide (p.1 ∉ x :: done) && decide (v ∈ p.2)) g := by
        apply List.countP_congr
        intro p hp
        have := htail p hp
        simp [this]
      rw [this]
      simp [hxd]
    · have hne : a1 ≠ x := by
        intro e'; subst e'
        exact hk.1 (List.mem_map_of_mem (f := (·.1)) e)
      have := ih hk.2 e
      simp only [indegOf] at this
      rw [this]
      simp [hne]
      omega

/-! ### The state invariant -/

structure Inv (g : Graph) (done starts : List Nat) (I : Indeg) : Prop where
  ikeys : I.map (·.1) = keys g
  deg : ∀ v ∈ keys g, I.lookup v = some (indegOf g done v : Int)
  snodup : starts.Nodup
  smem : ∀ v, v ∈ starts ↔ Ready g done v
  closed : ∀ p ∈ g, ∀ v ∈ p.2, v ∈ done → p.1 ∈ done
  dnodup : done.Nodup
  dkeys : ∀ v ∈ done, v ∈ keys g

theorem Inv.done_length_lt {g : Graph} {done starts : List Nat} {I : Indeg} (h : Inv g done starts I)
    {x : Nat} (hx : x ∈ starts) : done.length < g.length := by
  have hr := (h.smem x).1 hx
  have hn : (x :: done).Nodup := List.nodup_cons.2 ⟨hr.2.1, h.dnodup⟩
  have hs : (x :: done) ⊆ keys g := by
    intro v hv
    rcases List.mem_cons.1 hv with e | e
    · exact e ▸ hr.1
    · exact h.dkeys v e
  have := hn.length_le_of_subset hs
  simp [keys] at this
  omega

/-- One removal step: pop `x` (leaving `rest`), decrement its successors,
    collecting those that become free.  The invariant is re-established for
    `x :: done`, and the restoring loop brings the dictionary back. -/
theorem inv_step {g : Graph} (hwf : WF g) {done starts : List Nat} {I : Indeg}
    (hinv : Inv g done starts I) {x : Nat} (hx : x ∈ starts) (rest : List Nat)
    (hrn : rest.Nodup) (hrm : ∀ v, v ∈ rest ↔ v ∈ starts ∧ v ≠ x)
    (push : List Nat → Nat → List Nat) (hpush : ∀ ns v, v ∉ ns → push ns v = ns ++ [v]) :
    ∃ ss, getSuccs g x = .ok ss ∧ ∃ ns' I', decAll push ss (rest, I) = .ok (ns', I') ∧
      Inv g (x :: done) ns' I' ∧ incAll ss I' = .ok I := by
  obtain ⟨hk, hwf2⟩ := hwf
  have hxr : Ready g done x := (hinv.smem x).1 hx
  obtain ⟨ss, hss⟩ := lookup_graph_of_mem_keys g x hxr.1
  have hmem : (x, ss) ∈ g := mem_of_lookup_graph g x ss hss
  obtain ⟨hssn, hssk⟩ := hwf2 _ hmem
  simp only at hssn hssk
  have hlk : ∀ v ∈ ss, ∃ y, I.lookup v = some y := fun v hv => ⟨_, hinv.deg v (hssk v hv)⟩
  have hxss : x ∉ ss := fun h => hxr.2.1 (hxr.2.2 _ hmem h)
  have hfresh : ∀ v ∈ ss, I.lookup v = some 1 → v ∉ rest := by
    intro v hv h1 hr
    have hvr : Ready g done v := (hinv.smem v).1 ((hrm v).1 hr).1
    have h0 := ((ready_iff g done v).1 hvr).2.2
    rw [hinv.deg v hvr.1, h0] at h1
    simp at h1
  obtain ⟨ns', I', h1, h2, h3, h4, h5⟩ := decAll_spec push hpush ss rest I hssn hlk hrn hfresh
  have hdeg' : ∀ v ∈ keys g, I'.lookup v = some (indegOf g (x :: done) v : Int) := by
    intro v hv
    rw [h3 v, hinv.deg v hv, indegOf_cons g hk done x ss hmem hxr.2.1 v]
    by_cases e : v ∈ ss <;> simp [e]
  refine ⟨ss, by simp [getSuccs, hss], ns', I', h1, ?_, ?_⟩
  · refine ⟨h2.trans hinv.ikeys, hdeg', h4, ?_, ?_, ?_, ?_⟩
    · intro v
      rw [h5 v, hrm v, hinv.smem v]
      constructor
      · rintro (⟨hr, hne⟩ | ⟨hv, hl⟩)
        · exact ⟨hr.1, by simp [hne, hr.2.1], fun p hp hvp => List.mem_cons_of_mem _ (hr.2.2 p hp hvp)⟩
        · have hvk := hssk v hv
          rw [hinv.deg v hvk] at hl
          have hl' : indegOf g done v = 1 := by
            have : (indegOf g done v : Int) = 1 := by simpa using hl
            exact_mod_cast this
          have hvd : v ∉ done := fun h => hxr.2.1 (hinv.closed _ hmem v hv h)
          have hvx : v ≠ x := fun e => hxss (e ▸ hv)
          rw [ready_iff]
          refine ⟨hvk, by simp [hvx, hvd], ?_⟩
          have := indegOf_cons g hk done x ss hmem hxr.2.1 v
          simp only [hv, if_true] at this
          omega
      · intro hr
        have hr' := (ready_iff g _ v).1 hr
        have hvx : v ≠ x := fun e => hr.2.1 (by simp [e])
        have hvd : v ∉ done := fun h => hr.2.1 (List.mem_cons_of_mem _ h)
        have := indegOf_cons g hk done x ss hmem hxr.2.1 v
        by_cases e : v ∈ ss
        · right
          refine ⟨e, ?_⟩
          rw [hinv.deg v hr.1]
          simp only [e, if_true] at this
          rw [this, hr'.2.2]; rfl
        · left
          simp only [e, if_false] at this
          refine ⟨?_, hvx⟩
          rw [ready_iff]
          exact ⟨hr.1, hvd, by omega⟩
    · intro p hp v hv hvd
      rcases List.mem_cons.1 hvd with e | e
      · subst e; exact List.mem_cons_of_mem _ (hxr.2.2 p hp hv)
      · exact List.mem_cons_of_mem _ (hinv.closed p hp v hv e)
    · exact List.nodup_cons.2 ⟨hxr.2.1, hinv.dnodup⟩
    · intro v hv
      rcases List.mem_cons.1 hv with e | e
      · exact e ▸ hxr.1
      · exact hinv.dkeys v e
  · obtain ⟨I'', g1, g2, g3⟩ := incAll_spec ss I' hssn
      (fun v hv => ⟨_, hdeg' v (hssk v hv)⟩)
    rw [g1]
    congr 1
    apply indeg_ext
    · rw [g2, h2]
    · rw [g2, h2, hinv.ikeys]; exact hk
    · intro v
      rw [g3 v, h3 v]
      by_cases e : v ∈ ss
      · simp only [e, if_true]
        cases I.lookup v <;> simp
      · simp [e]

end SR.Toposort
