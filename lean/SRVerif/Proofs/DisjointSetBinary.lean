/-
  `binary()`: the recursion enumerates colourings of the class
  representatives (true = joins the `first` block, false = the `second`
  block); every result is the structure obtained by gluing along the
  colouring, whose relation is the kernel of the colouring.
-/
import SRVerif.Proofs.DisjointSetList

namespace SR.DS

/-! ### The recursion as an enumeration of colourings -/

/-- The choices made by `_binary`, without the structures. -/
def colsGo : List Nat → Option Nat → Option Nat → List (List Bool)
  | [], some _, some _ => [[]]
  | [], _, _ => []
  | _ :: gs, some f, some s =>
      (colsGo gs (some f) (some s)).map (true :: ·) ++ (colsGo gs (some f) (some s)).map (false :: ·)
  | g :: gs, some f, none =>
      (colsGo gs (some f) none).map (true :: ·)
        ++ (if g > f then (colsGo gs (some f) (some g)).map (false :: ·) else [])
  | g :: gs, none, some s =>
      (if g < s then (colsGo gs (some g) (some s)).map (true :: ·) else [])
        ++ (colsGo gs none (some s)).map (false :: ·)
  | g :: gs, none, none =>
      (colsGo gs (some g) none).map (true :: ·) ++ (colsGo gs none (some g)).map (false :: ·)

/-- The structure reached by following one colouring. -/
def applyCol : List Nat → List Bool → DS → Option Nat → Option Nat → DS
  | g :: gs, true :: c, p, some f, s => applyCol gs c (p.unite f g).1 (some f) s
  | g :: gs, true :: c, p, none, s => applyCol gs c p (some g) s
  | g :: gs, false :: c, p, f, some s => applyCol gs c (p.unite s g).1 f (some s)
  | g :: gs, false :: c, p, f, none => applyCol gs c p f (some g)
  | _, _, p, _, _ => p

theorem binGo_eq : ∀ (gs : List Nat) (p : DS) (f s : Option Nat),
    binGo gs p f s = (colsGo gs f s).map (fun c => applyCol gs c p f s) := by
  intro gs
  induction gs with
  | nil =>
    intro p f s
    cases f <;> cases s <;> simp [binGo, colsGo, applyCol]
  | cons g gs ih =>
    intro p f s
    cases f with
    | none =>
      cases s with
      | none => simp [binGo, colsGo, applyCol, ih, List.map_map, Function.comp_def]
      | some s =>
        by_cases h : g < s <;>
          simp [binGo, colsGo, applyCol, ih, List.map_map, Function.comp_def, h]
    | some f =>
      cases s with
      | none =>
        by_cases h : g > f <;>
          simp [binGo, colsGo, applyCol, ih, List.map_map, Function.comp_def, h]
      | some s => simp [binGo, colsGo, applyCol, ih, List.map_map, Function.comp_def]

/-- The pairs united along a colouring. -/
def glue : List Nat → List Bool → Option Nat → Option Nat → List (Nat × Nat)
  | g :: gs, true :: c, some f, s => (f, g) :: glue gs c (some f) s
  | g :: gs, true :: c, none, s => glue gs c (some g) s
  | g :: gs, false :: c, f, some s => (s, g) :: glue gs c f (some s)
  | g :: gs, false :: c, f, none => glue gs c f (some g)
  | _, _, _, _ => []

theorem inv_unite {n : Nat} {d : DS} {ps : List (Nat × Nat)} (h : Inv n d ps) {a b : Nat}
    (ha : a < n) (hb : b < n) : Inv n (d.unite a b).1 (ps ++ [(a, b)]) :=
  inv_step h (.unite a b) ⟨ha, hb⟩

theorem applyCol_inv {n : Nat} : ∀ (gs : List Nat) (c : List Bool) (p : DS) (ps : List (Nat × Nat))
    (first second : Option Nat), Inv n p ps → (∀ g, g ∈ gs → g < n) →
    (∀ f, first = some f → f < n) → (∀ s, second = some s → s < n) →
    Inv n (applyCol gs c p first second) (ps ++ glue gs c first second) := by
  intro gs
  induction gs with
  | nil => intro c p ps first second h _ _ _; simpa [applyCol, glue] using h
  | cons g gs ih =>
    intro c p ps first second h hg hf hs
    have hg0 : g < n := hg g (by simp)
    have hgs : ∀ x, x ∈ gs → x < n := fun x hx => hg x (by simp [hx])
    cases c with
    | nil => simpa [applyCol, glue] using h
    | cons b c =>
      cases b with
      | true =>
        cases first with
        | none =>
          simp only [applyCol, glue]
          exact ih c p ps (some g) second h hgs (fun f hf' => by cases hf'; exact hg0) hs
        | some f =>
          simp only [applyCol, glue]
          have := ih c _ _ (some f) second (inv_unite h (hf f rfl) hg0) hgs hf hs
          simpa using this
      | false =>
        cases second with
        | none =>
          simp only [applyCol, glue]
          exact ih c p ps first (some g) h hgs hf (fun s hs' => by cases hs'; exact hg0)
        | some s =>
          simp only [applyCol, glue]
          have := ih c _ _ first (some s) (inv_unite h (hs s rfl) hg0) hgs hf hs
          simpa using this

/-! ### Gluing along a colouring function -/

/-- The element every `true`-coloured representative gets united with. -/
def anchorT (κ : Nat → Bool) (first : Option Nat) (gs : List Nat) : Nat :=
  match first with
  | some f => f
  | none => (gs.find? κ).getD 0

/-- The element every `false`-coloured representative gets united with. -/
def anchorF (κ : Nat → Bool) (second : Option Nat) (gs : List Nat) : Nat :=
  match second with
  | some s => s
  | none => (gs.find? (fun g => !κ g)).getD 0

theorem glue_mem (κ : Nat → Bool) : ∀ (gs : List Nat) (first second : Option Nat),
    (∀ f, first = some f → κ f = true) → (∀ s, second = some s → κ s = false) →
    ∀ u v, (u, v) ∈ glue gs (gs.map κ) first second →
      κ u = κ v ∧ (u ∈ gs ∨ first = some u ∨ second = some u) ∧ v ∈ gs := by
  intro gs
  induction gs with
  | nil => intro first second _ _ u v h; simp [glue] at h
  | cons g gs ih =>
    intro first second hf hs u v h
    rw [List.map_cons] at h
    cases hk : κ g with
    | true =>
      rw [hk] at h
      cases first with
      | none =>
        simp only [glue] at h
        obtain ⟨h1, h2, h3⟩ := ih (some g) second (fun f hf' => by cases hf'; exact hk) hs u v h
        refine ⟨h1, ?_, by simp [h3]⟩
        rcases h2 with h2 | h2 | h2
        · exact Or.inl (by simp [h2])
        · cases h2; exact Or.inl (by simp)
        · exact Or.inr (Or.inr h2)
      | some f =>
        simp only [glue, List.mem_cons, Prod.mk.injEq] at h
        rcases h with ⟨rfl, rfl⟩ | h
        · exact ⟨by rw [hf u rfl, hk], Or.inr (Or.inl rfl), by simp⟩
        · obtain ⟨h1, h2, h3⟩ := ih (some f) second hf hs u v h
          refine ⟨h1, ?_, by simp [h3]⟩
          rcases h2 with h2 | h2 | h2
          · exact Or.inl (by simp [h2])
          · exact Or.inr (Or.inl h2)
          · exact Or.inr (Or.inr h2)
    | false =>
      rw [hk] at h
      cases second with
      | none =>
        simp only [glue] at h
        obtain ⟨h1, h2, h3⟩ := ih first (some g) hf (fun s hs' => by cases hs'; exact hk) u v h
        refine ⟨h1, ?_, by simp [h3]⟩
        rcases h2 with h2 | h2 | h2
        · exact Or.inl (by simp [h2])
        · exact Or.inr (Or.inl h2)
        · cases h2; exact Or.inl (by simp)
      | some s =>
        simp only [glue, List.mem_cons, Prod.mk.injEq] at h
        rcases h with ⟨rfl, rfl⟩ | h
        · exact ⟨by rw [hs u rfl, hk], Or.inr (Or.inr rfl), by simp⟩
        · obtain ⟨h1, h2, h3⟩ := ih first (some s) hf hs u v h
          refine ⟨h1, ?_, by simp [h3]⟩
          rcases h2 with h2 | h2 | h2
          · exact Or.inl (by simp [h2])
          · exact Or.inr (Or.inl h2)
          · exact Or.inr (Or.inr h2)

theorem conn_cons_mono {ps : List (Nat × Nat)} (q : Nat × Nat) {a b : Nat} (h : Conn ps a b) :
    Conn (q :: ps) a b := h.mono (fun p hp => by simp [hp])

theorem glue_conn_true (κ : Nat → Bool) : ∀ (gs : List Nat) (first second : Option Nat),
    ∀ g, g ∈ gs → κ g = true → Conn (glue gs (gs.map κ) first second) (anchorT κ first gs) g := by
  intro gs
  induction gs with
  | nil => intro _ _ g hg; cases hg
  | cons g0 gs ih =>
    intro first second g hg hkg
    rw [List.map_cons]
    cases hk : κ g0 with
    | true =>
      cases first with
      | none =>
        simp only [glue]
        have ha : anchorT κ none (g0 :: gs) = g0 := by simp [anchorT, List.find?, hk]
        rw [ha]
        rcases List.mem_cons.mp hg with rfl | hg'
        · exact Conn.refl _
        · exact ih (some g0) second g hg' hkg
      | some f =>
        simp only [glue]
        rcases List.mem_cons.mp hg with rfl | hg'
        · exact Conn.base (by simp [anchorT])
        · exact conn_cons_mono _ (ih (some f) second g hg' hkg)
    | false =>
      have hne : g ≠ g0 := fun h => by rw [h, hk] at hkg; cases hkg
      have hg' : g ∈ gs := by
        rcases List.mem_cons.mp hg with h | h
        · exact absurd h hne
        · exact h
      have ha : anchorT κ first (g0 :: gs) = anchorT κ first gs := by
        cases first <;> simp [anchorT, List.find?, hk]
      rw [ha]
      cases second with
      | none => simp only [glue]; exact ih first (some g0) g hg' hkg
      | some s => simp only [glue]; exact conn_cons_mono _ (ih first (some s) g hg' hkg)

theorem glue_conn_false (κ : Nat → Bool) : ∀ (gs : List Nat) (first second : Option Nat),
    ∀ g, g ∈ gs → κ g = false → Conn (glue gs (gs.map κ) first second) (anchorF κ second gs) g := by
  intro gs
  induction gs with
  | nil => intro _ _ g hg; cases hg
  | cons g0 gs ih =>
    intro first second g hg hkg
    rw [List.map_cons]
    cases hk : κ g0 with
    | false =>
      cases second with
      | none =>
        simp only [glue]
        have ha : anchorF κ none (g0 :: gs) = g0 := by simp [anchorF, List.find?, hk]
        rw [ha]
        rcases List.mem_cons.mp hg with rfl | hg'
        · exact Conn.refl _
        · exact ih first (some g0) g hg' hkg
      | some s =>
        simp only [glue]
        rcases List.mem_cons.mp hg with rfl | hg'
        · exact Conn.base (by simp [anchorF])
        · exact conn_cons_mono _ (ih first (some s) g hg' hkg)
    | true =>
      have hne : g ≠ g0 := fun h => by rw [h, hk] at hkg; cases hkg
      have hg' : g ∈ gs := by
        rcases List.mem_cons.mp hg with h | h
        · exact absurd h hne
        · exact h
      have ha : anchorF κ second (g0 :: gs) = anchorF κ second gs := by
        cases second <;> simp [anchorF, List.find?, hk]
      rw [ha]
      cases first with
      | none => simp only [glue]; exact ih (some g0) second g hg' hkg
      | some f => simp only [glue]; exact conn_cons_mono _ (ih (some f) second g hg' hkg)

/-! ### Which colourings are enumerated (representatives in increasing order) -/

theorem nodup_cons_map (b : Bool) {L : List (List Bool)} (h : L.Nodup) : (L.map (b :: ·)).Nodup :=
  List.Pairwise.map _ (fun _ _ hne heq => hne (List.cons.inj heq).2) h

theorem nodup_true_false {A B : List (List Bool)} (hA : A.Nodup) (hB : B.Nodup) :
    (A.map (true :: ·) ++ B.map (false :: ·)).Nodup := by
  rw [List.nodup_append]
  refine ⟨nodup_cons_map _ hA, nodup_cons_map _ hB, ?_⟩
  intro a ha b hb
  obtain ⟨a', _, rfl⟩ := List.mem_map.mp ha
  obtain ⟨b', _, rfl⟩ := List.mem_map.mp hb
  intro h; cases h

theorem cols_both (gs : List Nat) (f s : Nat) :
    (∀ c, c ∈ colsGo gs (some f) (some s) ↔ c.length = gs.length) ∧
    (colsGo gs (some f) (some s)).Nodup ∧ (colsGo gs (some f) (some s)).length = 2 ^ gs.length := by
  induction gs with
  | nil =>
    refine ⟨fun c => ?_, by simp [colsGo], by simp [colsGo]⟩
    simp [colsGo]
  | cons g gs ih =>
    obtain ⟨hm, hn, hl⟩ := ih
    refine ⟨fun c => ?_, ?_, ?_⟩
    · cases c with
      | nil => simp [colsGo]
      | cons b c => cases b <;> simp [colsGo, hm]
    · simp only [colsGo]; exact nodup_true_false hn hn
    · simp only [colsGo, List.length_append, List.length_map, hl, List.length_cons]
      omega

theorem cols_first (gs : List Nat) (f : Nat) (hf : ∀ g, g ∈ gs → g > f) :
    (∀ c, c ∈ colsGo gs (some f) none ↔ c.length = gs.length ∧ false ∈ c) ∧
    (colsGo gs (some f) none).Nodup ∧ (colsGo gs (some f) none).length + 1 = 2 ^ gs.length := by
  induction gs with
  | nil =>
    refine ⟨fun c => ?_, by simp [colsGo], by simp [colsGo]⟩
    simp only [colsGo, List.not_mem_nil, false_iff]
    rintro ⟨h1, h2⟩
    cases c with
    | nil => cases h2
    | cons _ _ => simp at h1
  | cons g gs ih =>
    obtain ⟨hm, hn, hl⟩ := ih (fun x hx => hf x (by simp [hx]))
    have hg : g > f := hf g (by simp)
    obtain ⟨hm2, hn2, hl2⟩ := cols_both gs f g
    refine ⟨fun c => ?_, ?_, ?_⟩
    · cases c with
      | nil => simp [colsGo, hg]
      | cons b c => cases b <;> simp [colsGo, hg, hm, hm2]
    · simp only [colsGo, hg, if_true]; exact nodup_true_false hn hn2
    · simp only [colsGo, hg, if_true, List.length_append, List.length_map, hl2, List.length_cons]
      omega

theorem cols_second (gs : List Nat) (s : Nat) (hs : ∀ g, g ∈ gs → g > s) :
    colsGo gs none (some s) = [] := by
  induction gs with
  | nil => simp [colsGo]
  | cons g gs ih =>
    have hg : ¬ g < s := by have := hs g (by simp); omega
    simp [colsGo, hg, ih (fun x hx => hs x (by simp [hx]))]

/-- With the representatives in increasing order the enumerated colourings
    are exactly: first representative `true`, at least one `false`. -/
theorem cols_none (g : Nat) (gs : List Nat) (hs : ∀ x, x ∈ gs → x > g) :
    (∀ c, c ∈ colsGo (g :: gs) none none ↔
      c.length = gs.length + 1 ∧ c.head? = some true ∧ false ∈ c) ∧
    (colsGo (g :: gs) none none).Nodup ∧
    (colsGo (g :: gs) none none).length + 1 = 2 ^ gs.length := by
  obtain ⟨hm, hn, hl⟩ := cols_first gs g hs
  have h2 := cols_second gs g hs
  refine ⟨fun c => ?_, ?_, ?_⟩
  · cases c with
    | nil => simp [colsGo]
    | cons b c => cases b <;> simp [colsGo, h2, hm]
  · simp only [colsGo, h2, List.map_nil, List.append_nil]; exact nodup_cons_map _ hn
  · simp only [colsGo, h2, List.map_nil, List.append_nil, List.length_map]; exact hl

/-! ### The representatives -/

theorem rep_ge {d : DS} {x : Nat} (h : d.size ≤ x) : rep d x = x := by
  have hp := par_ge d h
  unfold rep find
  cases d.size <;> simp [findAux, hp]

theorem rep_rootOf_all {d : DS} (hd : WF d) (x : Nat) : RootOf d.par x (rep d x) := by
  by_cases hx : x < d.size
  · exact rep_rootOf hd hx
  · rw [rep_ge (by omega)]; exact RootOf.root (par_ge d (by omega))

theorem same_iff_rep {d : DS} (hd : WF d) (x y : Nat) : Same d x y ↔ rep d x = rep d y := by
  constructor
  · rintro ⟨r, h1, h2⟩
    rw [RootOf.det (rep_rootOf_all hd x) h1, RootOf.det (rep_rootOf_all hd y) h2]
  · intro h
    exact ⟨rep d x, rep_rootOf_all hd x, h ▸ rep_rootOf_all hd y⟩

theorem same_rep {d : DS} (hd : WF d) (x : Nat) : Same d x (rep d x) :=
  ⟨rep d x, rep_rootOf_all hd x, RootOf.root (rep_rootOf_all hd x).isRoot⟩

/-- The roots in increasing order. -/
def roots (d : DS) : List Nat := (List.range d.size).filter (fun r => d.par r = r)

theorem mem_roots {d : DS} {r : Nat} : r ∈ roots d ↔ r < d.size ∧ d.par r = r := by
  simp [roots]

theorem rep_mem_roots {d : DS} (hd : WF d) {x : Nat} (hx : x < d.size) : rep d x ∈ roots d :=
  mem_roots.mpr ⟨rep_lt hd hx, (rep_rootOf hd hx).isRoot⟩

theorem rep_of_mem_roots {d : DS} (hd : WF d) {r : Nat} (h : r ∈ roots d) : rep d r = r :=
  (rep_self_iff hd (mem_roots.mp h).1).mpr (mem_roots.mp h).2

theorem roots_sorted (d : DS) : (roots d).Pairwise (· < ·) :=
  List.Pairwise.filter _ List.pairwise_lt_range

theorem roots_nodup (d : DS) : (roots d).Nodup :=
  List.Pairwise.filter _ List.nodup_range

theorem roots_length (d : DS) : (roots d).length = d.nroots := by
  rw [roots, nroots, List.countP_eq_length_filter]

theorem allReps_fold {d : DS} (hd : WF d) : ∀ k, k ≤ d.size →
    Pres d ((List.range k).foldl repsStep (d, [])).1 ∧
    WF ((List.range k).foldl repsStep (d, [])).1 ∧
    ((List.range k).foldl repsStep (d, [])).2 = (List.range k).map (rep d) := by
  intro k
  induction k with
  | zero => intro _; exact ⟨Pres.refl d, hd, rfl⟩
  | succ k ih =>
    intro hk
    obtain ⟨hP, hW, hres⟩ := ih (by omega)
    rw [List.range_succ, List.foldl_append, List.foldl_cons, List.foldl_nil]
    generalize (List.range k).foldl repsStep (d, []) = p at hP hW hres
    have hk' : k < p.1.size := by rw [hP.size]; omega
    obtain ⟨_, hP2, hW2⟩ := find_spec hW hk'
    have hrep : (p.1.find k).2 = rep d k := rep_pres hd hW hP (by omega)
    refine ⟨hP.trans hP2, hW2, ?_⟩
    show p.2 ++ [(p.1.find k).2] = _
    rw [hrep, hres, List.map_append, List.map_singleton]

theorem sortedReps_eq {d : DS} (hd : WF d) :
    Pres d d.sortedReps.1 ∧ WF d.sortedReps.1 ∧ d.sortedReps.2 = roots d := by
  obtain ⟨hP, hW, hres⟩ := allReps_fold hd d.size (Nat.le_refl _)
  refine ⟨hP, hW, ?_⟩
  simp only [sortedReps, allReps, hres, roots]
  apply List.filter_congr
  intro r hr
  have hr' := List.mem_range.mp hr
  by_cases h : d.par r = r
  · have : r ∈ (List.range d.size).map (rep d) :=
      List.mem_map.mpr ⟨r, hr, (rep_self_iff hd hr').mpr h⟩
    simp [h, this]
  · have : r ∉ (List.range d.size).map (rep d) := by
      intro hm
      obtain ⟨i, hi, hir⟩ := List.mem_map.mp hm
      have := (rep_rootOf hd (List.mem_range.mp hi)).isRoot
      rw [hir] at this
      exact h this
    simp [h, this]

/-! ### The relation of a result is the kernel of its colouring -/

theorem glue_kernel {n : Nat} {d : DS} {ps : List (Nat × Nat)} (hI : Inv n d ps) (κ : Nat → Bool) :
    (∀ x y, Conn (ps ++ glue (roots d) ((roots d).map κ) none none) x y →
        κ (rep d x) = κ (rep d y)) ∧
    (∀ x y, x < n → y < n → κ (rep d x) = κ (rep d y) →
        Conn (ps ++ glue (roots d) ((roots d).map κ) none none) x y) := by
  have hW := hI.wf
  constructor
  · intro x y h
    induction h with
    | @base u v hm =>
      rcases List.mem_append.mp hm with hm | hm
      · have : Same d u v := (hI.same u v).mpr (Conn.base hm)
        rw [(same_iff_rep hW u v).mp this]
      · obtain ⟨h1, h2, h3⟩ := glue_mem κ (roots d) none none (fun f hf => by cases hf)
          (fun s hs => by cases hs) u v hm
        have hu : u ∈ roots d := by
          rcases h2 with h2 | h2 | h2
          · exact h2
          · cases h2
          · cases h2
        rw [rep_of_mem_roots hW hu, rep_of_mem_roots hW h3]; exact h1
    | refl a => rfl
    | symm _ ih => exact ih.symm
    | trans _ _ ih1 ih2 => exact ih1.trans ih2
  · intro x y hx hy hk
    have hl : ∀ p, p ∈ ps → p ∈ ps ++ glue (roots d) ((roots d).map κ) none none :=
      fun p hp => List.mem_append.mpr (Or.inl hp)
    have hr : ∀ p, p ∈ glue (roots d) ((roots d).map κ) none none →
        p ∈ ps ++ glue (roots d) ((roots d).map κ) none none :=
      fun p hp => List.mem_append.mpr (Or.inr hp)
    have hxr : Conn ps x (rep d x) := (hI.same _ _).mp (same_rep hW x)
    have hyr : Conn ps y (rep d y) := (hI.same _ _).mp (same_rep hW y)
    have hxm := rep_mem_roots hW (hI.size ▸ hx : x < d.size)
    have hym := rep_mem_roots hW (hI.size ▸ hy : y < d.size)
    have hmid : Conn (glue (roots d) ((roots d).map κ) none none) (rep d x) (rep d y) := by
      cases hkx : κ (rep d x) with
      | true =>
        have h1 := glue_conn_true κ (roots d) none none _ hxm hkx
        have h2 := glue_conn_true κ (roots d) none none _ hym (hk ▸ hkx)
        exact h1.symm.trans h2
      | false =>
        have h1 := glue_conn_false κ (roots d) none none _ hxm hkx
        have h2 := glue_conn_false κ (roots d) none none _ hym (hk ▸ hkx)
        exact h1.symm.trans h2
    exact ((hxr.mono hl).trans (hmid.mono hr)).trans (hyr.mono hl).symm

/-- The structure built for the colouring function `κ`. -/
def colour (d : DS) (κ : Nat → Bool) : DS :=
  applyCol (roots d) ((roots d).map κ) d.sortedReps.1 none none

theorem colour_spec {n : Nat} {d : DS} {ps : List (Nat × Nat)} (hI : Inv n d ps) (κ : Nat → Bool) :
    WF (colour d κ) ∧ (colour d κ).size = n ∧
    (∀ x y, Same (colour d κ) x y → κ (rep d x) = κ (rep d y)) ∧
    (∀ x y, x < n → y < n → κ (rep d x) = κ (rep d y) → Same (colour d κ) x y) ∧
    (∀ x y, Same d x y → Same (colour d κ) x y) := by
  obtain ⟨hP, hW', _⟩ := sortedReps_eq hI.wf
  have hI' : Inv n d.sortedReps.1 ps :=
    ⟨hW', hP.size.trans hI.size, fun x y => (hP.same x y).trans (hI.same x y)⟩
  have hroots : ∀ g, g ∈ roots d → g < n := fun g hg => hI.size ▸ (mem_roots.mp hg).1
  have hIc := applyCol_inv (roots d) ((roots d).map κ) _ ps none none hI' hroots
    (fun f hf => by cases hf) (fun s hs => by cases hs)
  obtain ⟨hk1, hk2⟩ := glue_kernel hI κ
  refine ⟨hIc.wf, hIc.size, ?_, ?_, ?_⟩
  · intro x y h; exact hk1 x y ((hIc.same x y).mp h)
  · intro x y hx hy h; exact (hIc.same x y).mpr (hk2 x y hx hy h)
  · intro x y h
    exact (hIc.same x y).mpr (((hI.same x y).mp h).mono (fun p hp => List.mem_append.mpr (Or.inl hp)))

/-- The colouring function of a list of choices. -/
def colFun (d : DS) (c : List Bool) : Nat → Bool := fun g => c.getD ((roots d).idxOf g) false

theorem map_colFun (d : DS) (c : List Bool) (hc : c.length = (roots d).length) :
    (roots d).map (colFun d c) = c := by
  apply List.ext_getElem (by simp [hc])
  intro i h1 h2
  simp only [List.getElem_map, colFun]
  rw [(roots_nodup d).idxOf_getElem i (by simpa using h1)]
  simp [List.getD_eq_getElem?_getD, h2]

theorem colFun_getElem (d : DS) (c : List Bool) (i : Nat) (hi : i < (roots d).length)
    (hc : i < c.length) : colFun d c (roots d)[i] = c[i] := by
  simp only [colFun]
  rw [(roots_nodup d).idxOf_getElem i hi]
  simp [List.getD_eq_getElem?_getD, hc]

theorem binary_eq (d : DS) :
    d.binary = (colsGo d.sortedReps.2 none none).map
      (fun c => applyCol d.sortedReps.2 c d.sortedReps.1 none none) := by
  simp only [binary, binGo_eq]

theorem binary_eq' {d : DS} (hd : WF d) :
    d.binary = (colsGo (roots d) none none).map (fun c => colour d (colFun d c)) := by
  rw [binary_eq, (sortedReps_eq hd).2.2]
  apply List.map_congr_left
  intro c hc
  have hlen : c.length = (roots d).length := by
    cases hr : roots d with
    | nil => rw [hr] at hc; simp [colsGo] at hc
    | cons g gs =>
      rw [hr] at hc
      have hs : ∀ x, x ∈ gs → x > g := by
        have := roots_sorted d
        rw [hr, List.pairwise_cons] at this
        exact fun x hx => this.1 x hx
      have := ((cols_none g gs hs).1 c).mp hc
      simp [this.1]
  simp only [colour, map_colFun d c hlen]

/-! ### `binary()` returns every two-block coarsening exactly once -/

theorem colour_same_iff {n : Nat} {d : DS} {ps : List (Nat × Nat)} (hI : Inv n d ps) (κ : Nat → Bool)
    {x y : Nat} (hx : x < n) (hy : y < n) :
    Same (colour d κ) x y ↔ κ (rep d x) = κ (rep d y) :=
  let h := colour_spec hI κ
  ⟨h.2.2.1 x y, h.2.2.2.1 x y hx hy⟩

theorem colour_two {n : Nat} {d : DS} {ps : List (Nat × Nat)} (hI : Inv n d ps) (κ : Nat → Bool)
    {g0 r : Nat} (hg0 : g0 ∈ roots d) (hk0 : κ g0 = true) (hr : r ∈ roots d) (hkr : κ r = false) :
    ∃ u v, u < n ∧ v < n ∧ ¬ Same (colour d κ) u v ∧
      ∀ x, x < n → Same (colour d κ) x u ∨ Same (colour d κ) x v := by
  have hW := hI.wf
  have hg0n : g0 < n := hI.size ▸ (mem_roots.mp hg0).1
  have hrn : r < n := hI.size ▸ (mem_roots.mp hr).1
  refine ⟨g0, r, hg0n, hrn, ?_, ?_⟩
  · rw [colour_same_iff hI κ hg0n hrn, rep_of_mem_roots hW hg0, rep_of_mem_roots hW hr, hk0, hkr]
    intro h; cases h
  · intro x hx
    cases hk : κ (rep d x) with
    | true =>
      left; rw [colour_same_iff hI κ hx hg0n, rep_of_mem_roots hW hg0, hk, hk0]
    | false =>
      right; rw [colour_same_iff hI κ hx hrn, rep_of_mem_roots hW hr, hk, hkr]

theorem colour_congr (d : DS) {κ κ' : Nat → Bool} (h : (roots d).map κ = (roots d).map κ') :
    colour d κ = colour d κ' := by
  simp only [colour, h]

open Classical in
theorem binary_main {n : Nat} {d : DS} {ps : List (Nat × Nat)} (hI : Inv n d ps) :
    (∀ b, b ∈ d.binary → WF b ∧ b.size = n ∧ (∀ x y, Same d x y → Same b x y) ∧
      ∃ u v, u < n ∧ v < n ∧ ¬ Same b u v ∧ ∀ x, x < n → Same b x u ∨ Same b x v) ∧
    d.binary.Pairwise (fun b b' => ∃ x y, x < n ∧ y < n ∧ ¬ (Same b x y ↔ Same b' x y)) ∧
    (∀ R : Nat → Nat → Prop, (∀ x, x < n → R x x) → (∀ x y, x < n → y < n → R x y → R y x) →
      (∀ x y z, x < n → y < n → z < n → R x y → R y z → R x z) →
      (∀ x y, x < n → y < n → Same d x y → R x y) →
      (∃ u v, u < n ∧ v < n ∧ ¬ R u v ∧ ∀ x, x < n → R x u ∨ R x v) →
      ∃ b, b ∈ d.binary ∧ ∀ x y, x < n → y < n → (Same b x y ↔ R x y)) ∧
    d.binary.length = 2 ^ (d.nroots - 1) - 1 := by
  have hW := hI.wf
  rw [binary_eq' hW]
  cases hr : roots d with
  | nil =>
    refine ⟨by simp [colsGo], by simp [colsGo], ?_, ?_⟩
    · intro R _ _ _ _ ⟨u, _, hu, _⟩
      have := rep_mem_roots hW (hI.size ▸ hu : u < d.size)
      rw [hr] at this; cases this
    · have := roots_length d
      rw [hr] at this
      simp [colsGo, ← this]
  | cons g0 gs =>
    have hs : ∀ x, x ∈ gs → x > g0 := by
      have := roots_sorted d
      rw [hr, List.pairwise_cons] at this
      exact fun x hx => this.1 x hx
    obtain ⟨hmem, hnd, hlen⟩ := cols_none g0 gs hs
    have hg0 : g0 ∈ roots d := by rw [hr]; simp
    have hg0n : g0 < n := hI.size ▸ (mem_roots.mp hg0).1
    have hrl : (roots d).length = gs.length + 1 := by rw [hr]; simp
    have hrep0 : rep d g0 = g0 := rep_of_mem_roots hW hg0
    have hget0 : (roots d)[0]'(by omega) = g0 := by simp [hr]
    -- facts about an enumerated colouring
    have hcol : ∀ c, c ∈ colsGo (g0 :: gs) none none →
        c.length = (roots d).length ∧ colFun d c g0 = true ∧ ∃ r, r ∈ roots d ∧ colFun d c r = false := by
      intro c hc
      obtain ⟨h1, h2, h3⟩ := (hmem c).mp hc
      refine ⟨by omega, ?_, ?_⟩
      · have := colFun_getElem d c 0 (by omega) (by omega)
        rw [hget0] at this
        rw [this]
        cases c with
        | nil => simp at h1
        | cons b c => simpa using h2
      · obtain ⟨j, hj, hjf⟩ := List.getElem_of_mem h3
        refine ⟨(roots d)[j]'(by omega), List.getElem_mem _, ?_⟩
        rw [colFun_getElem d c j (by omega) hj, hjf]
    refine ⟨?_, ?_, ?_, ?_⟩
    · intro b hb
      obtain ⟨c, hc, rfl⟩ := List.mem_map.mp hb
      obtain ⟨_, hk0, r, hrm, hkr⟩ := hcol c hc
      obtain ⟨h1, h2, _, _, h5⟩ := colour_spec hI (colFun d c)
      exact ⟨h1, h2, h5, colour_two hI _ hg0 hk0 hrm hkr⟩
    · rw [List.pairwise_map]
      refine List.Pairwise.imp_of_mem ?_ hnd
      intro c c' hc hc' hne
      obtain ⟨hl, hk0, _⟩ := hcol c hc
      obtain ⟨hl', hk0', _⟩ := hcol c' hc'
      have : ∃ j, ∃ (h1 : j < c.length) (h2 : j < c'.length), c[j] ≠ c'[j] := by
        apply Classical.byContradiction
        intro hcon
        apply hne
        apply List.ext_getElem (by omega)
        intro j h1 h2
        apply Classical.byContradiction
        intro hx
        exact hcon ⟨j, h1, h2, hx⟩
      obtain ⟨j, h1, h2, hj⟩ := this
      have hjr : j < (roots d).length := by omega
      have hxm : (roots d)[j] ∈ roots d := List.getElem_mem _
      have hxn : (roots d)[j] < n := hI.size ▸ (mem_roots.mp hxm).1
      refine ⟨(roots d)[j], g0, hxn, hg0n, ?_⟩
      rw [colour_same_iff hI _ hxn hg0n, colour_same_iff hI _ hxn hg0n, hrep0,
        rep_of_mem_roots hW hxm, hk0, hk0', colFun_getElem d c j hjr h1,
        colFun_getElem d c' j hjr h2]
      intro hiff
      apply hj
      cases hcj : c[j] <;> cases hcj' : c'[j] <;> simp_all
    · intro R hrefl hsymm htrans hco ⟨u, v, hu, hv, huv, hall⟩
      let κ : Nat → Bool := fun g => decide (R g g0)
      have hrepn : ∀ x, x < n → rep d x < n := fun x hx =>
        hI.size ▸ rep_lt hW (hI.size ▸ hx : x < d.size)
      have hxr : ∀ x, x < n → R x (rep d x) := fun x hx =>
        hco x _ hx (hrepn x hx) (same_rep hW x)
      -- some representative is not related to g0
      have hex : ∃ r, r ∈ roots d ∧ κ r = false := by
        have : ¬ R u g0 ∨ ¬ R v g0 := by
          apply Classical.byContradiction
          intro hcon
          have h1 : R u g0 := Classical.byContradiction fun h => hcon (Or.inl h)
          have h2 : R v g0 := Classical.byContradiction fun h => hcon (Or.inr h)
          exact huv (htrans u g0 v hu hg0n hv h1 (hsymm v g0 hv hg0n h2))
        rcases this with h | h
        · refine ⟨rep d u, rep_mem_roots hW (hI.size ▸ hu : u < d.size), ?_⟩
          simp only [κ, decide_eq_false_iff_not]
          intro h'
          exact h (htrans u _ g0 hu (hrepn u hu) hg0n (hxr u hu) h')
        · refine ⟨rep d v, rep_mem_roots hW (hI.size ▸ hv : v < d.size), ?_⟩
          simp only [κ, decide_eq_false_iff_not]
          intro h'
          exact h (htrans v _ g0 hv (hrepn v hv) hg0n (hxr v hv) h')
      have hk0 : κ g0 = true := by simp only [κ, decide_eq_true_eq]; exact hrefl g0 hg0n
      have hcin : (roots d).map κ ∈ colsGo (g0 :: gs) none none := by
        rw [hmem]
        refine ⟨by simp [hr], ?_, ?_⟩
        · rw [hr]; simp [hk0]
        · obtain ⟨r, hrm, hkr⟩ := hex
          exact List.mem_map.mpr ⟨r, hrm, hkr⟩
      have hcc : colour d (colFun d ((roots d).map κ)) = colour d κ :=
        colour_congr d (map_colFun d _ (by simp))
      refine ⟨colour d κ, List.mem_map.mpr ⟨(roots d).map κ, hcin, hcc⟩, ?_⟩
      intro x y hx hy
      rw [colour_same_iff hI κ hx hy]
      have hrx : ∀ z, z < n → (κ (rep d z) = true ↔ R z g0) := by
        intro z hz
        simp only [κ, decide_eq_true_eq]
        constructor
        · intro h; exact htrans z _ g0 hz (hrepn z hz) hg0n (hxr z hz) h
        · intro h
          exact htrans _ z g0 (hrepn z hz) hz hg0n (hsymm z _ hz (hrepn z hz) (hxr z hz)) h
      constructor
      · intro hk
        by_cases hxg : R x g0
        · have hyg : R y g0 := (hrx y hy).mp (hk ▸ (hrx x hx).mpr hxg)
          exact htrans x g0 y hx hg0n hy hxg (hsymm y g0 hy hg0n hyg)
        · have hyg : ¬ R y g0 := fun h => hxg ((hrx x hx).mp (hk.symm ▸ (hrx y hy).mpr h))
          -- both are in the class not containing g0
          rcases hall g0 hg0n with hg | hg
          · have hxv : R x v := by
              rcases hall x hx with h | h
              · exact absurd (htrans x u g0 hx hu hg0n h (hsymm g0 u hg0n hu hg)) hxg
              · exact h
            have hyv : R y v := by
              rcases hall y hy with h | h
              · exact absurd (htrans y u g0 hy hu hg0n h (hsymm g0 u hg0n hu hg)) hyg
              · exact h
            exact htrans x v y hx hv hy hxv (hsymm y v hy hv hyv)
          · have hxv : R x u := by
              rcases hall x hx with h | h
              · exact h
              · exact absurd (htrans x v g0 hx hv hg0n h (hsymm g0 v hg0n hv hg)) hxg
            have hyv : R y u := by
              rcases hall y hy with h | h
              · exact h
              · exact absurd (htrans y v g0 hy hv hg0n h (hsymm g0 v hg0n hv hg)) hyg
            exact htrans x u y hx hu hy hxv (hsymm y u hy hu hyv)
      · intro hxy
        have : κ (rep d x) = true ↔ κ (rep d y) = true := by
          rw [hrx x hx, hrx y hy]
          constructor
          · intro h; exact htrans y x g0 hy hx hg0n (hsymm x y hx hy hxy) h
          · intro h; exact htrans x y g0 hx hy hg0n hxy h
        cases h1 : κ (rep d x) <;> cases h2 : κ (rep d y) <;> simp_all
    · rw [List.length_map]
      have := roots_length d
      rw [hr] at this
      simp only [List.length_cons] at this
      rw [← this]
      simp only [Nat.add_sub_cancel]
      omega

end SR.DS
