/-
  The generic label-DP theorems (DESIGN 6.3 / 6.4), for an arbitrary `LabelAlg`:

  * `labCost`   the evaluator-style cost of a labelled solution: sum over the
                internal nodes of `genLocal` (= `gl` at the algebra's edge costs);
  * `dp_sound`  every decoded solution of every cell is admissible, has the
                cell's species and label, has only valid events, and its
                `labCost` is at most the cell value (+ slack outside the
                coherent region);
  * `dp_lower`  every admissible solution of finite `labCost` has a cell at its
                root state whose value is at most its cost (binary species
                tree; no coherence needed): the table never over-estimates;
  * `dp_all`    an admissible solution whose cost equals the value of the cell
                at its root state is among the decoded solutions of that cell;
  * `dp_nonempty` every cell decodes to at least one solution.
-/
import SRVerif.Proofs.LabelDPLocal

namespace SR

open Cost Path

namespace LSol

def sp {Lab : Type} : LSol Lab → Path
  | .leaf s _ => s
  | .node s _ _ _ => s

def lab {Lab : Type} : LSol Lab → Lab
  | .leaf _ l => l
  | .node _ l _ _ => l

/-- No internal node has the event INVALID. -/
def Valid {Lab : Type} : LSol Lab → Prop
  | .leaf _ _ => True
  | .node s _ l r => internalEvent s l.sp r.sp ≠ .invalid ∧ Valid l ∧ Valid r

end LSol

/-- Number of internal nodes. -/
def ATree.internal {α : Type} : ATree α → Nat
  | .leaf _ _ => 0
  | .node _ l r => l.internal + r.internal + 1

section

variable {α Lab : Type}

/-- `ls` is a solution of the annotated input `t`: same shape, leaves at their
    given species with the leaf label, internal species / labels among those the
    algebra allows. -/
def Adm (A : LabelAlg α Lab) : ATree α → LSol Lab → Prop
  | .leaf a sp, .leaf s lab => s = sp ∧ lab = A.leafLab a
  | .node a l r, .node s lab sl sr => s ∈ A.allowed a ∧ lab ∈ A.labs a ∧ Adm A l sl ∧ Adm A r sr
  | _, _ => False

/-- The evaluator's local cost at the algebra's edge costs. -/
def genLocal (A : LabelAlg α Lab) (c : Costs) (a : α) (s : Path) (lab : Lab)
    (la : α) (x : Path) (lx : Lab) (ra : α) (y : Path) (ly : Lab) : Cost :=
  gl c s x (A.conserv a lab la lx) (A.segment a lab la lx) y (A.conserv a lab ra ly)
    (A.segment a lab ra ly)

/-- The evaluator-style cost of a labelled solution. -/
def labCost (A : LabelAlg α Lab) (c : Costs) : ATree α → LSol Lab → Cost
  | .leaf _ _, .leaf _ _ => .fin 0
  | .node a l r, .node s lab sl sr =>
    genLocal A c a s lab l.data sl.sp sl.lab r.data sr.sp sr.lab + (labCost A c l sl + labCost A c r sr)
  | _, _ => .inf

/-- Leaf species and allowed species are nodes of the species tree. -/
def SpOk (A : LabelAlg α Lab) (S : RTree) : ATree α → Prop
  | .leaf _ sp => S.isNode sp = true
  | .node a l r => (∀ s ∈ A.allowed a, S.isNode s = true) ∧ SpOk A S l ∧ SpOk A S r

/-- The law relating the two edge costs: a conserved edge costs at most `K` more
    than a segment edge (`K = 0` plain, `2·sloss` ordered, `sloss` unordered). -/
def LabelAlg.Slack (A : LabelAlg α Lab) (K : Nat) : Prop :=
  ∀ a lab ca lc, A.conserv a lab ca lc ≼ A.segment a lab ca lc + .fin K

theorem adm_isNode {A : LabelAlg α Lab} {S : RTree} {t : ATree α} {ls : LSol Lab}
    (hok : SpOk A S t) (h : Adm A t ls) : S.isNode ls.sp = true := by
  cases t <;> cases ls <;> simp only [Adm, SpOk, LSol.sp] at *
  · rw [h.1]; exact hok
  · exact hok.1 _ h.1

variable [DecidableEq Lab]

theorem mem_dpTable_node {A : LabelAlg α Lab} {c : Costs} {S : RTree} {keep : Bool} {a : α}
    {l r : ATree α} {d : DCell Lab} :
    d ∈ dpTable A c S keep (.node a l r) ↔
      ∃ s ∈ A.allowed a, ∃ lab ∈ A.labs a,
        entry A c S keep a s lab l.data r.data (dpTable A c S keep l) (dpTable A c S keep r) = some d := by
  simp only [dpTable, List.mem_flatMap, List.mem_filterMap]

theorem mem_dpTable_leaf {A : LabelAlg α Lab} {c : Costs} {S : RTree} {keep : Bool} {a : α}
    {sp : Path} {d : DCell Lab} :
    d ∈ dpTable A c S keep (.leaf a sp) ↔
      d = { sp := sp, lab := A.leafLab a, cost := .fin 0,
            sols := if keep then [LSol.leaf sp (A.leafLab a)] else [] } := by
  simp only [dpTable, List.mem_singleton]

/-- A table has at most one cell per (species, label). -/
theorem dp_functional (A : LabelAlg α Lab) (c : Costs) (S : RTree) (keep : Bool) (t : ATree α)
    {d1 d2 : DCell Lab} (h1 : d1 ∈ dpTable A c S keep t) (h2 : d2 ∈ dpTable A c S keep t)
    (hs : d1.sp = d2.sp) (hl : d1.lab = d2.lab) : d1 = d2 := by
  cases t with
  | leaf a sp => rw [mem_dpTable_leaf] at h1 h2; rw [h1, h2]
  | node a l r =>
    obtain ⟨s1, _, lab1, _, e1⟩ := mem_dpTable_node.mp h1
    obtain ⟨s2, _, lab2, _, e2⟩ := mem_dpTable_node.mp h2
    have p1 := entry_eq_some _ _ _ _ _ _ _ _ _ _ e1
    have p2 := entry_eq_some _ _ _ _ _ _ _ _ _ _ e2
    have : s1 = s2 := by rw [← p1.1, ← p2.1, hs]
    subst this
    have : lab1 = lab2 := by rw [← p1.2.1, ← p2.2.1, hl]
    subst this
    rw [e1] at e2; injection e2

theorem cellTag_inj (A : LabelAlg α Lab) (c : Costs) (S : RTree) (keep : Bool) (t : ATree α)
    {d1 d2 : DCell Lab} (h1 : d1 ∈ dpTable A c S keep t) (h2 : d2 ∈ dpTable A c S keep t)
    (h : cellTag d1 = cellTag d2) : d1 = d2 := by
  simp only [cellTag, Prod.mk.injEq] at h
  exact dp_functional A c S keep t h1 h2 h.1 h.2

/-- Every cell is finite. -/
theorem dp_finite (A : LabelAlg α Lab) (c : Costs) (S : RTree) (keep : Bool) (t : ATree α)
    {d : DCell Lab} (h : d ∈ dpTable A c S keep t) : d.cost ≠ .inf := by
  cases t with
  | leaf a sp => rw [mem_dpTable_leaf] at h; rw [h]; simp
  | node a l r =>
    obtain ⟨s, _, lab, _, e⟩ := mem_dpTable_node.mp h
    have p := entry_eq_some _ _ _ _ _ _ _ _ _ _ e
    rw [p.2.2.1]; exact p.2.2.2.1

theorem sound_arith {g a b ca cb bst : Cost} {X nl nr : Nat} (ha : a ≼ ca + .fin (X * nl))
    (hb : b ≼ cb + .fin (X * nr)) (hg : g + (ca + cb) ≼ bst + .fin X) :
    g + (a + b) ≼ bst + .fin (X * (nl + nr + 1)) := by
  refine le_trans (add_le_add (le_refl g) (add_le_add ha hb)) ?_
  have e1 : g + (ca + .fin (X * nl) + (cb + .fin (X * nr))) =
      g + (ca + cb) + .fin (X * nl + X * nr) := by
    rw [← fin_add_fin_eq]; ac_rfl
  have e2 : bst + .fin (X * (nl + nr + 1)) = bst + .fin X + .fin (X * nl + X * nr) := by
    rw [add_assoc, fin_add_fin_eq]
    congr 2
    simp only [Nat.mul_add, Nat.mul_one]; omega
  rw [e1, e2]
  exact add_le_add hg (le_refl _)

/-- **Soundness of decoding.**  With `X = 0` (coherent region) the evaluated cost
    of a decoded solution is at most the cell value; in general it exceeds it by
    at most `X` per internal node, in particular it is finite. -/
theorem dp_sound (A : LabelAlg α Lab) (c : Costs) (S : RTree) {K X : Nat} (hK : A.Slack K)
    (hX : c.spe + K ≤ c.dup + 2 * c.floss + X) :
    ∀ (t : ATree α), ∀ d ∈ dpTable A c S true t, ∀ ls ∈ d.sols,
      Adm A t ls ∧ ls.sp = d.sp ∧ ls.lab = d.lab ∧ ls.Valid ∧
      labCost A c t ls ≼ d.cost + .fin (X * t.internal) := by
  intro t
  induction t with
  | leaf a sp =>
    intro d hd ls hls
    rw [mem_dpTable_leaf] at hd
    subst hd
    simp only [if_true, List.mem_singleton] at hls
    subst hls
    simp [Adm, LSol.sp, LSol.lab, LSol.Valid, labCost]
  | node a l r ihl ihr =>
    intro d hd ls hls
    obtain ⟨s, hs, lab, hlab, e⟩ := mem_dpTable_node.mp hd
    obtain ⟨hsp, hlb, hcost, hfin, hsols, _⟩ := entry_eq_some _ _ _ _ _ _ _ _ _ _ e
    obtain ⟨t0, t1, cl, cr, x, y, hc, f0, f1, hx, hy, rfl⟩ := (hsols rfl ls).mp hls
    obtain ⟨ev, hev, dl, hdl, dr, hdr, v0, v1, h0, h1, e0, e1, hv⟩ :=
      entry_attained _ _ _ _ _ _ _ _ _ _ hc
    obtain ⟨hcl, tcl⟩ := findCell_some f0
    obtain ⟨hcr, tcr⟩ := findCell_some f1
    have : cl = dl := cellTag_inj A c S true l hcl hdl (tcl.trans e0.symm)
    subst this
    have : cr = dr := cellTag_inj A c S true r hcr hdr (tcr.trans e1.symm)
    subst this
    obtain ⟨ax, sx, lx, vx, cx⟩ := ihl cl hcl x hx
    obtain ⟨ay, sy, ly, vy, cy⟩ := ihr cr hcr y hy
    have hg := gl_le (hK a lab l.data cl.lab) (hK a lab r.data cr.lab) hX hev h0 h1
    refine ⟨⟨hs, hlab, ax, ay⟩, hsp.symm, hlb.symm, ⟨?_, vx, vy⟩, ?_⟩
    · simp only [sx, sy]; exact hg.1
    · simp only [labCost, genLocal, ATree.internal, sx, sy, lx, ly, hcost]
      refine sound_arith cx cy ?_
      rw [hv]; exact hg.2

/-- **The table never over-estimates**: every admissible solution of finite cost
    has a cell at its root state, of value at most its cost. -/
theorem dp_lower (A : LabelAlg α Lab) (c : Costs) (S : RTree) (keep : Bool)
    (hb : S.isBinary = true) :
    ∀ (t : ATree α), SpOk A S t → ∀ ls, Adm A t ls → labCost A c t ls ≠ .inf →
      ∃ d ∈ dpTable A c S keep t, d.sp = ls.sp ∧ d.lab = ls.lab ∧ d.cost ≼ labCost A c t ls := by
  intro t
  induction t with
  | leaf a sp =>
    intro _ ls hadm _
    cases ls with
    | node => simp [Adm] at hadm
    | leaf s lab =>
      simp only [Adm] at hadm
      obtain ⟨rfl, rfl⟩ := hadm
      exact ⟨_, mem_dpTable_leaf.mpr rfl, rfl, rfl, by simp [labCost]⟩
  | node a l r ihl ihr =>
    intro hok ls hadm hfin
    cases ls with
    | leaf => simp [Adm] at hadm
    | node s lab x y =>
      simp only [Adm] at hadm
      obtain ⟨hs, hlab, ax, ay⟩ := hadm
      simp only [SpOk] at hok
      obtain ⟨_, okl, okr⟩ := hok
      simp only [labCost] at hfin ⊢
      obtain ⟨hgfin, hsub⟩ := add_ne_inf hfin
      obtain ⟨hxfin, hyfin⟩ := add_ne_inf hsub
      obtain ⟨dl, hdl, sl, ll, cl⟩ := ihl okl x ax hxfin
      obtain ⟨dr, hdr, sr, lr, cr⟩ := ihr okr y ay hyfin
      have hval : internalEvent s x.sp y.sp ≠ .invalid := event_valid_of_gl hgfin
      obtain ⟨ev, hev, v0, v1, h0, h1, hsum⟩ :=
        gl_ge (c := c) (cost0 := dl.cost) (cv0 := A.conserv a lab l.data x.lab)
          (sv0 := A.segment a lab l.data x.lab) (cost1 := dr.cost)
          (cv1 := A.conserv a lab r.data y.lab) (sv1 := A.segment a lab r.data y.lab)
          hb (adm_isNode okl ax) (adm_isNode okr ay) hval
      have hle := entry_le A c S a s lab l.data r.data _ _ hev hdl hdr
        (v0 := v0) (v1 := v1) (by simp only [roleVal, sl, ll]; exact h0)
        (by simp only [roleVal, sr, lr]; exact h1)
      have hle2 : best A c S a s lab l.data r.data (dpTable A c S keep l) (dpTable A c S keep r) ≼
          genLocal A c a s lab l.data x.sp x.lab r.data y.sp y.lab +
            (labCost A c l x + labCost A c r y) := by
        refine le_trans hle ?_
        rw [hsum]
        exact add_le_add (le_refl _) (add_le_add cl cr)
      have hbfin : best A c S a s lab l.data r.data (dpTable A c S keep l) (dpTable A c S keep r) ≠
          .inf := by
        intro e; rw [e] at hle2; exact hfin ((inf_le _).mp hle2)
      cases he : entry A c S keep a s lab l.data r.data (dpTable A c S keep l) (dpTable A c S keep r) with
      | none => exact absurd ((entry_eq_none _ _ _ _ _ _ _ _ _ _).mp he) hbfin
      | some d =>
        obtain ⟨hsp, hlb, hcost, _⟩ := entry_eq_some _ _ _ _ _ _ _ _ _ _ he
        refine ⟨d, mem_dpTable_node.mpr ⟨s, hs, lab, hlab, he⟩, hsp, hlb, ?_⟩
        rw [hcost]; exact hle2

theorem eq_of_add_le' {g a a' b b' : Cost} {n : Nat} (ha : a ≼ a') (hb : b ≼ b')
    (hfin : g + (a' + b') = .fin n) (hle : g + (a' + b') ≼ g + (a + b)) : a = a' ∧ b = b' := by
  cases g <;> cases a <;> cases a' <;> cases b <;> cases b' <;>
    simp_all [add_def, add] <;> omega

/-- **Completeness of decoding** (ALL): an admissible solution whose cost equals
    the value of the cell at its root state is decoded from that cell. -/
theorem dp_all (A : LabelAlg α Lab) (c : Costs) (S : RTree) (hb : S.isBinary = true) :
    ∀ (t : ATree α), SpOk A S t → ∀ ls, Adm A t ls → ∀ d ∈ dpTable A c S true t,
      d.sp = ls.sp → d.lab = ls.lab → labCost A c t ls = d.cost → ls ∈ d.sols := by
  intro t
  induction t with
  | leaf a sp =>
    intro _ ls hadm d hd _ _ _
    cases ls with
    | node => simp [Adm] at hadm
    | leaf s lab =>
      simp only [Adm] at hadm
      obtain ⟨rfl, rfl⟩ := hadm
      rw [mem_dpTable_leaf] at hd
      subst hd; simp
  | node a l r ihl ihr =>
    intro hok ls hadm d hd hdsp hdlab hcost
    cases ls with
    | leaf => simp [Adm] at hadm
    | node s lab x y =>
      simp only [Adm] at hadm
      obtain ⟨hs, hlab, ax, ay⟩ := hadm
      simp only [SpOk] at hok
      obtain ⟨_, okl, okr⟩ := hok
      obtain ⟨s', _, lab', _, e⟩ := mem_dpTable_node.mp hd
      obtain ⟨hsp, hlb, hc, hbfin, hsols, _⟩ := entry_eq_some _ _ _ _ _ _ _ _ _ _ e
      simp only [LSol.sp, LSol.lab] at hdsp hdlab
      have : s' = s := by rw [← hsp, hdsp]
      subst this
      have : lab' = lab := by rw [← hlb, hdlab]
      subst this
      have hdfin := dp_finite A c S true _ hd
      simp only [labCost] at hcost
      have hfin : genLocal A c a s' lab' l.data x.sp x.lab r.data y.sp y.lab +
          (labCost A c l x + labCost A c r y) ≠ .inf := by rw [hcost]; exact hdfin
      obtain ⟨hgfin, hsub⟩ := add_ne_inf hfin
      obtain ⟨hxfin, hyfin⟩ := add_ne_inf hsub
      obtain ⟨dl, hdl, sl, ll, cl⟩ := dp_lower A c S true hb l okl x ax hxfin
      obtain ⟨dr, hdr, sr, lr, cr⟩ := dp_lower A c S true hb r okr y ay hyfin
      have hval : internalEvent s' x.sp y.sp ≠ .invalid := event_valid_of_gl hgfin
      obtain ⟨ev, hev, v0, v1, h0, h1, hsum⟩ :=
        gl_ge (c := c) (cost0 := dl.cost) (cv0 := A.conserv a lab' l.data x.lab)
          (sv0 := A.segment a lab' l.data x.lab) (cost1 := dr.cost)
          (cv1 := A.conserv a lab' r.data y.lab) (sv1 := A.segment a lab' r.data y.lab)
          hb (adm_isNode okl ax) (adm_isNode okr ay) hval
      have r0 : roleVal A c S a s' lab' l.data ev.2.1 dl = some v0 := by
        simp only [roleVal, sl, ll]; exact h0
      have r1 : roleVal A c S a s' lab' r.data ev.2.2 dr = some v1 := by
        simp only [roleVal, sr, lr]; exact h1
      have hle := entry_le A c S a s' lab' l.data r.data _ _ hev hdl hdr r0 r1
      rw [hsum] at hle
      rw [← hc] at hle hbfin
      obtain ⟨n, hn⟩ := ne_inf_iff.mp hdfin
      -- gl + (dl.cost + dr.cost) ≤ gl + (cost x + cost y) = d.cost ≤ gl + (dl.cost + dr.cost)
      have hge : genLocal A c a s' lab' l.data x.sp x.lab r.data y.sp y.lab +
          (labCost A c l x + labCost A c r y) ≼
          genLocal A c a s' lab' l.data x.sp x.lab r.data y.sp y.lab + (dl.cost + dr.cost) := by
        rw [hcost]; exact hle
      obtain ⟨ex, ey⟩ := eq_of_add_le' cl cr (hcost.trans hn) hge
      have heq : ev.1 + v0 + v1 =
          best A c S a s' lab' l.data r.data (dpTable A c S true l) (dpTable A c S true r) := by
        rw [hsum, ← hc, ← hcost, ex, ey]; rfl
      have hmem := entry_all A c S a s' lab' l.data r.data _ _ hev hdl hdr r0 r1 heq (hc ▸ hbfin)
      obtain ⟨cl', fl⟩ := findCell_of_mem hdl
      obtain ⟨cr', fr⟩ := findCell_of_mem hdr
      have e1 := findCell_some fl
      have e2 := findCell_some fr
      have : cl' = dl := cellTag_inj A c S true l e1.1 hdl e1.2
      subst this
      have : cr' = dr := cellTag_inj A c S true r e2.1 hdr e2.2
      subst this
      have mx := ihl okl x ax cl' hdl sl ll ex.symm
      have my := ihr okr y ay cr' hdr sr lr ey.symm
      exact (hsols rfl _).mpr ⟨_, _, cl', cr', x, y, hmem, fl, fr, mx, my, rfl⟩

/-- Every cell decodes to at least one solution. -/
theorem dp_nonempty (A : LabelAlg α Lab) (c : Costs) (S : RTree) :
    ∀ (t : ATree α), ∀ d ∈ dpTable A c S true t, ∃ ls, ls ∈ d.sols := by
  intro t
  induction t with
  | leaf a sp =>
    intro d hd
    rw [mem_dpTable_leaf] at hd
    subst hd; exact ⟨LSol.leaf sp (A.leafLab a), by simp⟩
  | node a l r ihl ihr =>
    intro d hd
    obtain ⟨s, _, lab, _, e⟩ := mem_dpTable_node.mp hd
    obtain ⟨_, _, _, hbfin, hsols, _⟩ := entry_eq_some _ _ _ _ _ _ _ _ _ _ e
    obtain ⟨t0, t1, hc⟩ := best_attained _ _ _ _ _ _ _ _ _ _ hbfin
    obtain ⟨ev, hev, dl, hdl, dr, hdr, v0, v1, h0, h1, e0, e1, hv⟩ :=
      entry_attained _ _ _ _ _ _ _ _ _ _ hc
    obtain ⟨cl, fl⟩ := findCell_of_mem hdl
    obtain ⟨cr, fr⟩ := findCell_of_mem hdr
    obtain ⟨x, hx⟩ := ihl cl (findCell_some fl).1
    obtain ⟨y, hy⟩ := ihr cr (findCell_some fr).1
    rw [e0] at fl; rw [e1] at fr
    exact ⟨_, (hsols rfl _).mpr ⟨t0, t1, cl, cr, x, y, hc, fl, fr, hx, hy, rfl⟩⟩

end

end SR
