/-
  The local lemma of the label DP (DESIGN 6.4): the six (event, role, role)
  combinations offered by the optimiser versus the cost the *evaluator* charges
  at one internal node.

  `gl` is the evaluator's local cost at a node placed at `s` with children
  placed at `x` and `y`, for abstract edge costs (`cv*` = edge to a child that
  keeps everything, `sv*` = edge to a child that may be a partial copy):
  speciation: both edges conserved, one loss less on each side;
  duplication: the cheaper of the two ways of choosing the partial copy;
  transfer: the child that stays below `s` is conserved, the other is partial.

  * `gl_le` : every applicable combination costs at least what the evaluator
    charges (plus a slack `X` that is 0 inside the coherent region) — and its
    event is valid;
  * `gl_ge` : for nodes of a binary species tree, the evaluator's own event is
    one of the applicable combinations.
-/
import SRVerif.Proofs.LabelDPRoles

namespace SR

open Cost Path

/-- The evaluator's local cost with abstract edge costs. -/
def gl (c : Costs) (s x : Path) (cvx svx : Cost) (y : Path) (cvy svy : Cost) : Cost :=
  match internalEvent s x y with
  | .spec =>
    .fin c.spe + (.fin (c.floss * (dist s x - 1)) + cvx) + (.fin (c.floss * (dist s y - 1)) + cvy)
  | .dup =>
    Cost.min (.fin c.dup + (.fin (c.floss * dist s x) + cvx) + (.fin (c.floss * dist s y) + svy))
      (.fin c.dup + (.fin (c.floss * dist s x) + svx) + (.fin (c.floss * dist s y) + cvy))
  | .hgt =>
    if isAnc s x then c.hgt + (.fin (c.floss * dist s x) + cvx) + svy
    else c.hgt + svx + (.fin (c.floss * dist s y) + cvy)
  | _ => .inf

theorem gl_invalid {c : Costs} {s x y : Path} {cvx svx cvy svy : Cost}
    (h : internalEvent s x y = .invalid) : gl c s x cvx svx y cvy svy = .inf := by
  simp [gl, h]

theorem event_valid_of_gl {c : Costs} {s x y : Path} {cvx svx cvy svy : Cost}
    (h : gl c s x cvx svx y cvy svy ≠ .inf) : internalEvent s x y ≠ .invalid :=
  fun e => h (gl_invalid e)

/-- The arithmetic behind F-COHERENCE: a speciation is never dearer than the
    "duplication at the LCA" reading of the same placement, up to the slack `X`. -/
theorem coh_arith {spe dup fl K X n0 n1 : Nat} (hX : spe + K ≤ dup + 2 * fl + X)
    {cost0 cost1 cv0 cv1 sv1 : Cost} (hK1 : cv1 ≼ sv1 + .fin K) :
    .fin spe + (.fin (fl * n0) + cv0) + (.fin (fl * n1) + cv1) + (cost0 + cost1) ≼
      .fin dup + (.fin (fl * (n0 + 1)) + cost0 + cv0) + (.fin (fl * (n1 + 1)) + cost1 + sv1) + .fin X := by
  simp only [Nat.mul_add_one]
  generalize fl * n0 = p0
  generalize fl * n1 = p1
  cases cost0 <;> cases cost1 <;> cases cv0 <;> cases cv1 <;> cases sv1 <;>
    simp_all [add_def, add, Cost.LE, le, lt] <;> omega

theorem coh_arith' {spe dup fl K X n0 n1 : Nat} (hX : spe + K ≤ dup + 2 * fl + X)
    {cost0 cost1 cv0 cv1 sv0 : Cost} (hK0 : cv0 ≼ sv0 + .fin K) :
    .fin spe + (.fin (fl * n0) + cv0) + (.fin (fl * n1) + cv1) + (cost0 + cost1) ≼
      .fin dup + (.fin (fl * (n0 + 1)) + cost0 + sv0) + (.fin (fl * (n1 + 1)) + cost1 + cv1) + .fin X := by
  simp only [Nat.mul_add_one]
  generalize fl * n0 = p0
  generalize fl * n1 = p1
  cases cost0 <;> cases cost1 <;> cases cv0 <;> cases cv1 <;> cases sv0 <;>
    simp_all [add_def, add, Cost.LE, le, lt] <;> omega

theorem rv_cons_some {c : Costs} {S : RTree} {s x : Path} {cost cv sv v : Cost}
    (h : rv c S s .cons x cost cv sv = some v) :
    isAnc s x = true ∧ v = .fin (c.floss * dist s x) + cost + cv := by
  simp only [rv] at h; split at h
  · injection h with h; exact ⟨by assumption, h.symm⟩
  · cases h

theorem rv_seg_some {c : Costs} {S : RTree} {s x : Path} {cost cv sv v : Cost}
    (h : rv c S s .seg x cost cv sv = some v) :
    isAnc s x = true ∧ v = .fin (c.floss * dist s x) + cost + sv := by
  simp only [rv] at h; split at h
  · injection h with h; exact ⟨by assumption, h.symm⟩
  · cases h

theorem rv_left_some {c : Costs} {S : RTree} {s x : Path} {cost cv sv v : Cost}
    (h : rv c S s .left x cost cv sv = some v) :
    isAnc (s ++ [0]) x = true ∧ v = .fin (c.floss * (dist s x - 1)) + cost + cv := by
  simp only [rv] at h; split at h
  · rename_i hc
    simp only [Bool.and_eq_true] at hc
    injection h with h; exact ⟨hc.2, h.symm⟩
  · cases h

theorem rv_right_some {c : Costs} {S : RTree} {s x : Path} {cost cv sv v : Cost}
    (h : rv c S s .right x cost cv sv = some v) :
    isAnc (s ++ [1]) x = true ∧ v = .fin (c.floss * (dist s x - 1)) + cost + cv := by
  simp only [rv] at h; split at h
  · rename_i hc
    simp only [Bool.and_eq_true] at hc
    injection h with h; exact ⟨hc.2, h.symm⟩
  · cases h

theorem rv_sep_some {c : Costs} {S : RTree} {s x : Path} {cost cv sv v : Cost}
    (h : rv c S s .sep x cost cv sv = some v) :
    isAnc s x = false ∧ isAnc x s = false ∧ v = cost + sv := by
  simp only [rv] at h; split at h
  · rename_i hc
    simp only [Bool.and_eq_true, Bool.not_eq_true'] at hc
    injection h with h; exact ⟨hc.1, hc.2, h.symm⟩
  · cases h

/-- Both children at or below `s`, offered as conserved × segment. -/
theorem gl_le_dup {c : Costs} {s x y : Path} {cost0 cv0 sv0 cost1 cv1 sv1 : Cost} {K X : Nat}
    (hK1 : cv1 ≼ sv1 + .fin K) (hX : c.spe + K ≤ c.dup + 2 * c.floss + X)
    (hx : isAnc s x = true) (hy : isAnc s y = true) :
    internalEvent s x y ≠ .invalid ∧
    gl c s x cv0 sv0 y cv1 sv1 + (cost0 + cost1) ≼
      .fin c.dup + (.fin (c.floss * dist s x) + cost0 + cv0) +
        (.fin (c.floss * dist s y) + cost1 + sv1) + .fin X := by
  obtain ⟨a, rfl⟩ := isAnc_iff_append.mp hx
  obtain ⟨b, rfl⟩ := isAnc_iff_append.mp hy
  have hev := internalEvent_below s a b
  have hdup : internalEvent s (s ++ a) (s ++ b) = .dup →
      gl c s (s ++ a) cv0 sv0 (s ++ b) cv1 sv1 + (cost0 + cost1) ≼
      .fin c.dup + (.fin (c.floss * dist s (s ++ a)) + cost0 + cv0) +
        (.fin (c.floss * dist s (s ++ b)) + cost1 + sv1) + .fin X := by
    intro h
    simp only [gl, h]
    refine le_trans (add_le_add (min_le_left _ _) (le_refl _)) ?_
    refine le_trans (le_of_eq ?_) (le_add_right _ _)
    ac_rfl
  match a, b, hev, hdup with
  | [], _, hev, hdup => exact ⟨by rw [hev]; simp, hdup hev⟩
  | _ :: _, [], hev, hdup => exact ⟨by rw [hev]; simp, hdup hev⟩
  | i :: a, j :: b, hev, hdup =>
    by_cases hij : i = j
    · subst hij
      simp only [if_true] at hev
      exact ⟨by rw [hev]; simp, hdup hev⟩
    · simp only [hij, if_false] at hev
      refine ⟨by rw [hev]; simp, ?_⟩
      simp only [gl, hev, dist_append, List.length_cons, Nat.add_sub_cancel]
      exact coh_arith hX hK1

/-- Every applicable combination is at least the evaluator's local cost (up to
    the slack `X`, which is `0` in the coherent region), and its event is valid. -/
theorem gl_le {c : Costs} {S : RTree} {s x y : Path} {cost0 cv0 sv0 cost1 cv1 sv1 : Cost} {K X : Nat}
    (hK0 : cv0 ≼ sv0 + .fin K) (hK1 : cv1 ≼ sv1 + .fin K)
    (hX : c.spe + K ≤ c.dup + 2 * c.floss + X)
    {ev : Cost × RoleId × RoleId} (hev : ev ∈ events c) {v0 v1 : Cost}
    (h0 : rv c S s ev.2.1 x cost0 cv0 sv0 = some v0)
    (h1 : rv c S s ev.2.2 y cost1 cv1 sv1 = some v1) :
    internalEvent s x y ≠ .invalid ∧
    gl c s x cv0 sv0 y cv1 sv1 + (cost0 + cost1) ≼ ev.1 + v0 + v1 + .fin X := by
  simp only [events, List.mem_cons, List.not_mem_nil, or_false] at hev
  rcases hev with rfl | rfl | rfl | rfl | rfl | rfl
  · -- speciation, left × right
    obtain ⟨hx, rfl⟩ := rv_left_some h0
    obtain ⟨hy, rfl⟩ := rv_right_some h1
    have hev := internalEvent_spec_of_children hx hy (by decide)
    refine ⟨by rw [hev]; simp, ?_⟩
    simp only [gl, hev]
    refine le_trans (le_of_eq ?_) (le_add_right _ _)
    ac_rfl
  · -- speciation, right × left
    obtain ⟨hx, rfl⟩ := rv_right_some h0
    obtain ⟨hy, rfl⟩ := rv_left_some h1
    have hev := internalEvent_spec_of_children hx hy (by decide)
    refine ⟨by rw [hev]; simp, ?_⟩
    simp only [gl, hev]
    refine le_trans (le_of_eq ?_) (le_add_right _ _)
    ac_rfl
  · -- duplication, conserved × segment
    obtain ⟨hx, rfl⟩ := rv_cons_some h0
    obtain ⟨hy, rfl⟩ := rv_seg_some h1
    exact gl_le_dup hK1 hX hx hy
  · -- duplication, segment × conserved
    obtain ⟨hx, rfl⟩ := rv_seg_some h0
    obtain ⟨hy, rfl⟩ := rv_cons_some h1
    obtain ⟨a, rfl⟩ := isAnc_iff_append.mp hx
    obtain ⟨b, rfl⟩ := isAnc_iff_append.mp hy
    have hev := internalEvent_below s a b
    have hdup : internalEvent s (s ++ a) (s ++ b) = .dup →
        gl c s (s ++ a) cv0 sv0 (s ++ b) cv1 sv1 + (cost0 + cost1) ≼
        .fin c.dup + (.fin (c.floss * dist s (s ++ a)) + cost0 + sv0) +
          (.fin (c.floss * dist s (s ++ b)) + cost1 + cv1) + .fin X := by
      intro h
      simp only [gl, h]
      refine le_trans (add_le_add (min_le_right _ _) (le_refl _)) ?_
      refine le_trans (le_of_eq ?_) (le_add_right _ _)
      ac_rfl
    match a, b, hev, hdup with
    | [], _, hev, hdup => exact ⟨by rw [hev]; simp, hdup hev⟩
    | _ :: _, [], hev, hdup => exact ⟨by rw [hev]; simp, hdup hev⟩
    | i :: a, j :: b, hev, hdup =>
      by_cases hij : i = j
      · subst hij
        simp only [if_true] at hev
        exact ⟨by rw [hev]; simp, hdup hev⟩
      · simp only [hij, if_false] at hev
        refine ⟨by rw [hev]; simp, ?_⟩
        simp only [gl, hev, dist_append, List.length_cons, Nat.add_sub_cancel]
        exact coh_arith' hX hK0
  · -- transfer, conserved × separate
    obtain ⟨hx, rfl⟩ := rv_cons_some h0
    obtain ⟨hy, hy', rfl⟩ := rv_sep_some h1
    have hev := internalEvent_hgt_left hx hy hy'
    refine ⟨by rw [hev]; simp, ?_⟩
    simp only [gl, hev, hx, if_true]
    refine le_trans (le_of_eq ?_) (le_add_right _ _)
    ac_rfl
  · -- transfer, separate × conserved
    obtain ⟨hx, hx', rfl⟩ := rv_sep_some h0
    obtain ⟨hy, rfl⟩ := rv_cons_some h1
    have hev := internalEvent_hgt_right hx hx' hy
    refine ⟨by rw [hev]; simp, ?_⟩
    simp only [gl, hev, hx, Bool.false_eq_true, if_false]
    refine le_trans (le_of_eq ?_) (le_add_right _ _)
    ac_rfl

theorem rv_cons_of {c : Costs} {S : RTree} {s x : Path} {cost cv sv : Cost} (h : isAnc s x = true) :
    rv c S s .cons x cost cv sv = some (.fin (c.floss * dist s x) + cost + cv) := by
  simp only [rv, h, if_true]

theorem rv_seg_of {c : Costs} {S : RTree} {s x : Path} {cost cv sv : Cost} (h : isAnc s x = true) :
    rv c S s .seg x cost cv sv = some (.fin (c.floss * dist s x) + cost + sv) := by
  simp only [rv, h, if_true]

theorem rv_sep_of {c : Costs} {S : RTree} {s x : Path} {cost cv sv : Cost} (h : isAnc s x = false)
    (h' : isAnc x s = false) : rv c S s .sep x cost cv sv = some (cost + sv) := by
  simp only [rv, h, h', Bool.not_false, Bool.and_self, if_true]

theorem rv_left_of {c : Costs} {S : RTree} {s x : Path} {cost cv sv : Cost} (h : isAnc s x = true)
    (hl : speciesIsLeaf S s = false) (h0 : isAnc (s ++ [0]) x = true) :
    rv c S s .left x cost cv sv = some (.fin (c.floss * (dist s x - 1)) + cost + cv) := by
  simp only [rv, h, hl, h0, Bool.not_false, Bool.and_self, if_true]

theorem rv_right_of {c : Costs} {S : RTree} {s x : Path} {cost cv sv : Cost} (h : isAnc s x = true)
    (hl : speciesIsLeaf S s = false) (h0 : isAnc (s ++ [0]) x = false)
    (h1 : isAnc (s ++ [1]) x = true) :
    rv c S s .right x cost cv sv = some (.fin (c.floss * (dist s x - 1)) + cost + cv) := by
  simp only [rv, h, hl, h0, h1, Bool.not_false, Bool.and_self, if_true]

theorem speciesIsLeaf_false {S : RTree} {s : Path} {t : RTree} (h : S.sub s = some t)
    (hl : t.isLeaf = false) : speciesIsLeaf S s = false := by
  simp [speciesIsLeaf, h, hl]

/-- For nodes of a binary species tree, the evaluator's own reading of a valid
    placement is one of the combinations the optimiser offers, with exactly the
    evaluator's cost. -/
theorem gl_ge {c : Costs} {S : RTree} {s x y : Path} {cost0 cv0 sv0 cost1 cv1 sv1 : Cost}
    (hb : S.isBinary = true) (hx : S.isNode x = true) (hy : S.isNode y = true)
    (hval : internalEvent s x y ≠ .invalid) :
    ∃ ev ∈ events c, ∃ v0 v1,
      rv c S s ev.2.1 x cost0 cv0 sv0 = some v0 ∧ rv c S s ev.2.2 y cost1 cv1 sv1 = some v1 ∧
      ev.1 + v0 + v1 = gl c s x cv0 sv0 y cv1 sv1 + (cost0 + cost1) := by
  rcases placement_of_valid hval with ⟨a, b, rfl, rfl⟩ | ⟨hx', hy', hy''⟩ | ⟨hx', hx'', hy'⟩
  · have hev := internalEvent_below s a b
    have hdup : internalEvent s (s ++ a) (s ++ b) = .dup → ∃ ev ∈ events c, ∃ v0 v1,
        rv c S s ev.2.1 (s ++ a) cost0 cv0 sv0 = some v0 ∧
        rv c S s ev.2.2 (s ++ b) cost1 cv1 sv1 = some v1 ∧
        ev.1 + v0 + v1 = gl c s (s ++ a) cv0 sv0 (s ++ b) cv1 sv1 + (cost0 + cost1) := by
      intro h
      simp only [gl, h]
      rcases min_eq_or
        (.fin c.dup + (.fin (c.floss * dist s (s ++ a)) + cv0) + (.fin (c.floss * dist s (s ++ b)) + sv1))
        (.fin c.dup + (.fin (c.floss * dist s (s ++ a)) + sv0) + (.fin (c.floss * dist s (s ++ b)) + cv1))
        with hm | hm
      · refine ⟨(.fin c.dup, .cons, .seg), by simp [events], _, _,
          rv_cons_of (isAnc_append s a), rv_seg_of (isAnc_append s b), ?_⟩
        rw [hm]; (try dsimp only) <;> ac_rfl
      · refine ⟨(.fin c.dup, .seg, .cons), by simp [events], _, _,
          rv_seg_of (isAnc_append s a), rv_cons_of (isAnc_append s b), ?_⟩
        rw [hm]; (try dsimp only) <;> ac_rfl
    match a, b, hev, hdup, hx, hy with
    | [], _, hev, hdup, _, _ => exact hdup hev
    | _ :: _, [], hev, hdup, _, _ => exact hdup hev
    | i :: a, j :: b, hev, hdup, hx, hy =>
      by_cases hij : i = j
      · subst hij
        simp only [if_true] at hev
        exact hdup hev
      · simp only [hij, if_false] at hev
        obtain ⟨hi, t, hs, hl⟩ := RTree.child_of_isNode hb hx
        obtain ⟨hj, _⟩ := RTree.child_of_isNode hb hy
        have hleaf := speciesIsLeaf_false hs hl
        have e0 : ∀ (k : Nat) (r : Path), isAnc (s ++ [k]) (s ++ k :: r) = true := by
          intro k r
          have := isAnc_append_append s [k] (k :: r)
          rw [this]; simp [isAnc]
        have e1 : ∀ (r : Path), isAnc (s ++ [0]) (s ++ 1 :: r) = false := by
          intro r
          have := isAnc_append_append s [0] (1 :: r)
          rw [this]; simp [isAnc]
        simp only [gl, hev]
        rcases hi with rfl | rfl <;> rcases hj with rfl | rfl
        · exact absurd rfl hij
        · refine ⟨(.fin c.spe, .left, .right), by simp [events], _, _,
            rv_left_of (isAnc_append _ _) hleaf (e0 0 a),
            rv_right_of (isAnc_append _ _) hleaf (e1 b) (e0 1 b), ?_⟩
          (try dsimp only) <;> ac_rfl
        · refine ⟨(.fin c.spe, .right, .left), by simp [events], _, _,
            rv_right_of (isAnc_append _ _) hleaf (e1 a) (e0 1 a),
            rv_left_of (isAnc_append _ _) hleaf (e0 0 b), ?_⟩
          (try dsimp only) <;> ac_rfl
        · exact absurd rfl hij
  · have hev := internalEvent_hgt_left hx' hy' hy''
    refine ⟨(c.hgt, .cons, .sep), by simp [events], _, _, rv_cons_of hx', rv_sep_of hy' hy'', ?_⟩
    simp only [gl, hev, hx', if_true]; (try dsimp only) <;> ac_rfl
  · have hev := internalEvent_hgt_right hx' hx'' hy'
    refine ⟨(c.hgt, .sep, .cons), by simp [events], _, _, rv_sep_of hx' hx'', rv_cons_of hy', ?_⟩
    simp only [gl, hev, hx', Bool.false_eq_true, if_false]; (try dsimp only) <;> ac_rfl

end SR
