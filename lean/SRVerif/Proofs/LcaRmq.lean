/-
  The sparse table of `RangeMinQuery` answers range-minimum queries.

  Stated for a comparison that may raise (`Lt α`) and a key function into a
  linear order: as long as the comparison is only *needed* on pairs where it
  is defined (`CmpOK`), neither construction nor query raises and the answer
  is a key-minimal element of exactly the requested range.  The two instances
  are a total order (`key = id`) and Euler-tour entries (`key = level`).
-/
import SRVerif.Model.Lca
import Mathlib.Order.Defs.LinearOrder

namespace SR.Lca

/-! ### `_ilog2` -/

theorem ilog2Aux_spec : ∀ f v, 0 < v → v ≤ f →
    2 ^ ilog2Aux f v ≤ v ∧ v < 2 ^ (ilog2Aux f v + 1)
  | 0, v, h0, h => by omega
  | f + 1, v, h0, h => by
    unfold ilog2Aux
    split
    · simp; omega
    · have ih := ilog2Aux_spec f (v / 2) (by omega) (by omega)
      rw [Nat.pow_succ, Nat.pow_succ]
      rw [Nat.pow_succ] at ih
      omega

/-- `2 ^ ilog2 v ≤ v < 2 ^ (ilog2 v + 1)`: the integral base-2 logarithm. -/
theorem ilog2_spec {v : Nat} (h : 0 < v) : 2 ^ ilog2 v ≤ v ∧ v < 2 ^ (ilog2 v + 1) :=
  ilog2Aux_spec v v h (Nat.le_refl _)

theorem ilog2_mono {a b : Nat} (ha : 0 < a) (hab : a ≤ b) : ilog2 a ≤ ilog2 b := by
  have h1 := (ilog2_spec ha).1
  have h2 := (ilog2_spec (Nat.lt_of_lt_of_le ha hab)).2
  have : 2 ^ ilog2 a < 2 ^ (ilog2 b + 1) := by omega
  have := (Nat.pow_lt_pow_iff_right (by decide : 1 < 2)).1 this
  omega

/-! ### `mapE` -/

theorem mapE_ok {α β : Type} {f : α → Except PyErr β} {P : α → β → Prop} :
    ∀ l : List α, (∀ x ∈ l, ∃ y, f x = .ok y ∧ P x y) →
      ∃ ys, mapE f l = .ok ys ∧ ys.length = l.length ∧
        ∀ (k : Nat) (x : α), l[k]? = some x → ∃ y, ys[k]? = some y ∧ P x y
  | [], _ => ⟨[], rfl, rfl, by simp⟩
  | x :: xs, h => by
    obtain ⟨y, hy, hp⟩ := h x (by simp)
    obtain ⟨ys, hys, hlen, hall⟩ := mapE_ok xs (fun z hz => h z (by simp [hz]))
    refine ⟨y :: ys, by simp [mapE, hy, hys], by simp [hlen], ?_⟩
    intro k z hk
    cases k with
    | zero =>
      simp at hk
      subst hk
      exact ⟨y, by simp, hp⟩
    | succ k =>
      simp at hk
      simpa using hall k z hk

section Generic

variable {α κ : Type} [LinearOrder κ] (key : α → κ) (data : List α)

/-- `m` is an element of `data[i : i + w]` whose key is minimal there. -/
def IsMinAt (i w : Nat) (m : α) : Prop :=
  (∃ k, i ≤ k ∧ k < i + w ∧ data[k]? = some m) ∧
    ∀ k e, i ≤ k → k < i + w → data[k]? = some e → key m ≤ key e

/-- The comparison is defined, and agrees with the keys, wherever the sparse
    table needs it: on elements with different keys, and on two key-minimal
    elements of one and the same contiguous range. -/
structure CmpOK (lt : Lt α) : Prop where
  ne : ∀ a b, key a ≠ key b → lt b a = .ok (decide (key b < key a))
  eqmin : ∀ i w a b, IsMinAt key data i w a → IsMinAt key data i w b → lt b a = .ok false

variable {key data}

theorem IsMinAt.union_left {i1 w1 i2 w2 i w : Nat} {a b : α}
    (ha : IsMinAt key data i1 w1 a) (hb : IsMinAt key data i2 w2 b) (hab : key a ≤ key b)
    (hcover : ∀ k, (i ≤ k ∧ k < i + w) ↔ ((i1 ≤ k ∧ k < i1 + w1) ∨ (i2 ≤ k ∧ k < i2 + w2))) :
    IsMinAt key data i w a := by
  obtain ⟨⟨ka, h1, h2, h3⟩, hmin⟩ := ha
  refine ⟨⟨ka, ((hcover ka).2 (Or.inl ⟨h1, h2⟩)).1, ((hcover ka).2 (Or.inl ⟨h1, h2⟩)).2, h3⟩, ?_⟩
  intro k e hk1 hk2 he
  rcases (hcover k).1 ⟨hk1, hk2⟩ with h | h
  · exact hmin k e h.1 h.2 he
  · exact le_trans hab (hb.2 k e h.1 h.2 he)

theorem IsMinAt.union_right {i1 w1 i2 w2 i w : Nat} {a b : α}
    (ha : IsMinAt key data i1 w1 a) (hb : IsMinAt key data i2 w2 b) (hab : key b ≤ key a)
    (hcover : ∀ k, (i ≤ k ∧ k < i + w) ↔ ((i1 ≤ k ∧ k < i1 + w1) ∨ (i2 ≤ k ∧ k < i2 + w2))) :
    IsMinAt key data i w b :=
  IsMinAt.union_left hb ha hab (fun k => by rw [hcover k]; exact Or.comm)

/-- `min(a, b)` of the minima of two ranges is a minimum of their union,
    and the comparison it performs is defined. -/
theorem pyMin_spec {lt : Lt α} (h : CmpOK key data lt) {i1 w1 i2 w2 i w : Nat} {a b : α}
    (ha : IsMinAt key data i1 w1 a) (hb : IsMinAt key data i2 w2 b)
    (hcover : ∀ k, (i ≤ k ∧ k < i + w) ↔ ((i1 ≤ k ∧ k < i1 + w1) ∨ (i2 ≤ k ∧ k < i2 + w2))) :
    ∃ m, pyMin lt a b = .ok m ∧ IsMinAt key data i w m := by
  rcases lt_trichotomy (key a) (key b) with hlt | heq | hgt
  · refine ⟨a, ?_, IsMinAt.union_left ha hb (le_of_lt hlt) hcover⟩
    have : lt b a = .ok false := by
      rw [h.ne a b (ne_of_lt hlt)]
      simp [not_lt.2 (le_of_lt hlt)]
    simp [pyMin, this]
  · refine ⟨a, ?_, IsMinAt.union_left ha hb (le_of_eq heq) hcover⟩
    have := h.eqmin i w a b (IsMinAt.union_left ha hb (le_of_eq heq) hcover)
      (IsMinAt.union_right ha hb (le_of_eq heq.symm) hcover)
    simp [pyMin, this]
  · refine ⟨b, ?_, IsMinAt.union_right ha hb (le_of_lt hgt) hcover⟩
    have : lt b a = .ok true := by
      rw [h.ne a b (ne_of_gt hgt)]
      simp [hgt]
    simp [pyMin, this]

/-- Row `d` of the table: cell `i` holds a minimum of `data[i : i + 2^d]`
    whenever that window fits. -/
def RowOK (key : α → κ) (data : List α) (d : Nat) (row : List (Option α)) : Prop :=
  ∀ i, i + 2 ^ d ≤ data.length → ∃ m, row[i]? = some (some m) ∧ IsMinAt key data i (2 ^ d) m

theorem rowOK_zero : RowOK key data 0 (data.map some) := by
  intro i hi
  have hlt : i < data.length := by simp at hi; omega
  refine ⟨data[i], by simp [hlt], ⟨i, by omega, by omega, by simp [hlt]⟩, ?_⟩
  intro k e h1 h2 he
  have : k = i := by omega
  subst this
  simp [hlt] at he
  subst he
  exact le_refl _

theorem cell_ok {row : List (Option α)} {i : Nat} {m : α} (h : row[i]? = some (some m)) :
    cell row i = .ok m := by
  simp [cell, h]

theorem nextRow_ok {lt : Lt α} (h : CmpOK key data lt) {d : Nat} {prev : List (Option α)}
    (hp : RowOK key data d prev) :
    ∃ row, nextRow lt data.length prev (d + 1) = .ok row ∧ RowOK key data (d + 1) row := by
  have hpow : 2 ^ (d + 1) = 2 ^ d + 2 ^ d := by rw [Nat.pow_succ]; omega
  have hpos : 0 < 2 ^ d := Nat.two_pow_pos d
  have hm := mapE_ok (f := rowCell lt prev (d + 1))
    (P := fun i m => IsMinAt key data i (2 ^ (d + 1)) m)
    (List.range (data.length + 1 - 2 ^ (d + 1))) (by
      intro i hi
      have hi' : i + 2 ^ (d + 1) ≤ data.length := by
        have := List.mem_range.1 hi
        omega
      obtain ⟨l, hl, hlm⟩ := hp i (by omega)
      obtain ⟨r, hr, hrm⟩ := hp (i + 2 ^ d) (by omega)
      obtain ⟨m, hm1, hm2⟩ := pyMin_spec h hlm hrm (i := i) (w := 2 ^ (d + 1))
        (fun k => by rw [hpow]; omega)
      refine ⟨m, ?_, hm2⟩
      simp [rowCell, cell_ok hl, cell_ok hr, hm1])
  obtain ⟨vals, hv, hlen, hall⟩ := hm
  refine ⟨vals.map some ++ List.replicate (data.length - vals.length) none, ?_, ?_⟩
  · simp only [nextRow, hv]
  intro i hi
  have hk : (List.range (data.length + 1 - 2 ^ (d + 1)))[i]? = some i := by
    rw [List.getElem?_range]
    omega
  obtain ⟨m, hm1, hm2⟩ := hall i i hk
  refine ⟨m, ?_, hm2⟩
  have hil : i < vals.length := by
    rw [hlen, List.length_range]; omega
  rw [List.getElem?_append_left (by simpa using hil)]
  simp [hm1]

theorem buildFrom_ok {lt : Lt α} (h : CmpOK key data lt) :
    ∀ (n d : Nat) (prev : List (Option α)), RowOK key data d prev →
      ∃ tbl, buildFrom lt data.length n d prev = .ok tbl ∧
        ∀ j, j ≤ n → ∃ row, tbl[j]? = some row ∧ RowOK key data (d + j) row
  | 0, d, prev, hp => by
    refine ⟨[prev], rfl, ?_⟩
    intro j hj
    have : j = 0 := by omega
    subst this
    exact ⟨prev, rfl, hp⟩
  | n + 1, d, prev, hp => by
    obtain ⟨row, hrow, hrok⟩ := nextRow_ok h hp
    obtain ⟨rest, hrest, hall⟩ := buildFrom_ok h n (d + 1) row hrok
    refine ⟨prev :: rest, by simp [buildFrom, hrow, hrest], ?_⟩
    intro j hj
    cases j with
    | zero => exact ⟨prev, rfl, hp⟩
    | succ j =>
      obtain ⟨r, hr1, hr2⟩ := hall j (by omega)
      refine ⟨r, by simpa using hr1, ?_⟩
      have : d + (j + 1) = d + 1 + j := by omega
      rw [this]
      exact hr2

/-- The table built by `RangeMinQuery.__init__`. -/
def TableOK (key : α → κ) (data : List α) (tbl : List (List (Option α))) : Prop :=
  ∀ j, j ≤ ilog2 data.length → ∃ row, tbl[j]? = some row ∧ RowOK key data j row

theorem build_ok {lt : Lt α} (h : CmpOK key data lt) (hne : data ≠ []) :
    ∃ tbl, build lt data = .ok tbl ∧ TableOK key data tbl := by
  have hlen : data.length ≠ 0 := by
    intro h0
    exact hne (List.length_eq_zero_iff.1 h0)
  obtain ⟨tbl, h1, h2⟩ := buildFrom_ok h (ilog2 data.length) 0 (data.map some) rowOK_zero
  refine ⟨tbl, by simp [build, hlen, h1], ?_⟩
  intro j hj
  simpa using h2 j hj

theorem query_ok {lt : Lt α} (h : CmpOK key data lt) {tbl : List (List (Option α))}
    (ht : TableOK key data tbl) {start stop : Nat} (h1 : start < stop)
    (h2 : stop ≤ data.length) :
    ∃ m, query lt tbl start stop = .ok (some m) ∧ IsMinAt key data start (stop - start) m := by
  have hs := ilog2_spec (v := stop - start) (by omega)
  have hd : ilog2 (stop - start) ≤ ilog2 data.length := ilog2_mono (by omega) (by omega)
  obtain ⟨row, hrow, hrok⟩ := ht _ hd
  rw [Nat.pow_succ] at hs
  obtain ⟨a, ha, ham⟩ := hrok start (by omega)
  obtain ⟨b, hb, hbm⟩ := hrok (stop - 2 ^ ilog2 (stop - start)) (by omega)
  obtain ⟨m, hm1, hm2⟩ := pyMin_spec h ham hbm (i := start) (w := stop - start)
    (fun k => by omega)
  refine ⟨m, ?_, hm2⟩
  have hns : ¬ start ≥ stop := by omega
  simp [query, hns, hrow, ha, hb, pyMinCell, hm1]

theorem query_empty {lt : Lt α} (tbl : List (List (Option α))) {start stop : Nat}
    (h : stop ≤ start) : query lt tbl start stop = .ok none := by
  simp [query, h]

end Generic

/-! ### Ranges as slices -/

theorem mem_slice {α : Type} {data : List α} {i w : Nat} {e : α} :
    e ∈ (data.drop i).take w ↔ ∃ k, i ≤ k ∧ k < i + w ∧ data[k]? = some e := by
  rw [List.mem_iff_getElem?]
  constructor
  · rintro ⟨j, hj⟩
    rw [List.getElem?_take] at hj
    split at hj
    · rw [List.getElem?_drop] at hj
      exact ⟨i + j, by omega, by omega, hj⟩
    · simp at hj
  · rintro ⟨k, h1, h2, h3⟩
    refine ⟨k - i, ?_⟩
    rw [List.getElem?_take, if_pos (by omega), List.getElem?_drop]
    have : i + (k - i) = k := by omega
    rw [this]
    exact h3

/-- `IsMinAt` says: member of the slice `data[i : i + w]`, below every member. -/
theorem isMinAt_iff_slice {α κ : Type} [LinearOrder κ] {key : α → κ} {data : List α}
    {i w : Nat} {m : α} :
    IsMinAt key data i w m ↔
      m ∈ (data.drop i).take w ∧ ∀ e ∈ (data.drop i).take w, key m ≤ key e := by
  constructor
  · rintro ⟨h1, h2⟩
    refine ⟨mem_slice.2 h1, ?_⟩
    intro e he
    obtain ⟨k, hk1, hk2, hk3⟩ := mem_slice.1 he
    exact h2 k e hk1 hk2 hk3
  · rintro ⟨h1, h2⟩
    exact ⟨mem_slice.1 h1, fun k e hk1 hk2 hk3 => h2 e (mem_slice.2 ⟨k, hk1, hk2, hk3⟩)⟩

end SR.Lca
