/-
  The two loops of `_compute_branches` on a valid reconciliation: structural
  induction over the object tree for one species pass, induction over the
  post-order for the species loop.
-/
import SRVerif.Proofs.LayoutInv

namespace SR.Layout

open SR

/-- Valid reconciliation inside the species tree `S`: every species used is a
    node of `S` and no internal node carries an invalid event. -/
def Good (S : RTree) (sol : Sol) : Prop :=
  ∀ p sub, subAt sol p = some sub →
    S.isNode sub.sp = true ∧
    ∀ sp f l r, sub = .node sp f l r → internalEvent sp l.sp r.sp ≠ .invalid

def HasSp (sol : Sol) (q s : Path) : Prop := ∃ subq, subAt sol q = some subq ∧ subq.sp = s

def OwnersIn (D : Path → Prop) (st : LState) : Prop := ∀ t b, b ∈ brs st t → D b.key.owner

/-- Every branch of the state was inserted by the step of some object node. -/
def Typed (sol : Sol) (st : LState) : Prop :=
  ∀ t b, b ∈ brs st t → ∃ p sub, subAt sol p = some sub ∧ StepTyped sub.sp p sub t b

structure Grow (st st' : LState) : Prop where
  keys : skeys st' = skeys st
  brs : ∀ t, brs st t <+: brs st' t

theorem Grow.refl (st : LState) : Grow st st := ⟨rfl, fun _ => List.prefix_refl _⟩

theorem Grow.trans {a b c : LState} (h1 : Grow a b) (h2 : Grow b c) : Grow a c :=
  ⟨h2.keys.trans h1.keys, fun t => (h1.brs t).trans (h2.brs t)⟩

theorem Effect.grow {st st' : LState} {pl : List (Path × Branch)} {s : Path} {cons : List Key}
    (e : Effect st st' pl s cons) : Grow st st' :=
  ⟨e.keys, fun t => by rw [e.brs t]; exact List.prefix_append _ _⟩

theorem Grow.mem_keys {st st' : LState} (g : Grow st st') {t : Path} {k : Key}
    (h : k ∈ keysOf (Layout.brs st t)) : k ∈ keysOf (Layout.brs st' t) := by
  obtain ⟨m, hm⟩ := g.brs t
  rw [← hm, keysOf_append]
  exact List.mem_append_left _ h

theorem processGenes_append (s : Path) (a b : List (Path × Sol)) (st : LState) :
    processGenes s (a ++ b) st =
      match processGenes s a st with
      | .error e => .error e
      | .ok st1 => processGenes s b st1 := by
  induction a generalizing st with
  | nil => simp [processGenes]
  | cons x a ih =>
    obtain ⟨p, sub⟩ := x
    simp only [List.cons_append, processGenes]
    split
    · cases processGene st s p sub with
      | error e => rfl
      | ok st' => exact ih st'
    · exact ih st

theorem subAt_child {sol : Sol} {p : Path} {sp : Path} {f : List Nat} {l r : Sol}
    (h : subAt sol p = some (.node sp f l r)) :
    subAt sol (p ++ [0]) = some l ∧ subAt sol (p ++ [1]) = some r := by
  constructor <;> simp [subAt_append, h, subAt]

/-- One node inside the pass of species `s`. -/
theorem node_step {S : RTree} {sol : Sol} (hgood : Good S sol) {s p : Path} {sub : Sol}
    {st : LState} {D : Path → Prop}
    (hsub : subAt sol p = some sub) (inv : PInv st) (hs : s ∈ skeys st)
    (hkeys : ∀ t, S.isNode t = true → Path.isAnc s t = true → t ∈ skeys st)
    (hown : OwnersIn D st) (hD : sub.sp = s → ¬ D p) (htyp : Typed sol st)
    (hdone : sub.sp = s → ∀ sp f l r, sub = .node sp f l r →
      (l.sp = s → .gene (p ++ [0]) ∈ keysOf (brs st s)) ∧
      (r.sp = s → .gene (p ++ [1]) ∈ keysOf (brs st s))) :
    ∃ st', processGenes s [(p, sub)] st = .ok st' ∧ PInv st' ∧ Grow st st' ∧
      OwnersIn (fun q => D q ∨ (q = p ∧ HasSp sol q s)) st' ∧
      (sub.sp = s → .gene p ∈ keysOf (brs st' s)) ∧ Typed sol st' := by
  by_cases hsp : sub.sp = s
  · have hvalid : ∀ sp f l r, sub = .node sp f l r →
        internalEvent s l.sp r.sp ≠ .invalid ∧ S.isNode l.sp = true ∧ S.isNode r.sp = true := by
      intro sp f l r he
      subst he
      obtain ⟨_, hev⟩ := hgood p _ hsub
      obtain ⟨hl, hr⟩ := subAt_child hsub
      simp only [Sol.sp] at hsp
      subst hsp
      exact ⟨hev _ f l r rfl, (hgood _ l hl).1, (hgood _ r hr).1⟩
    obtain ⟨st', pl, cons, hok, eff, inv', howned, ⟨nb, hnb, hkey⟩, htyped⟩ :=
      step_valid (S := S) (p := p) hsp inv hs hkeys hvalid
        (fun b hb h => hD hsp (h ▸ hown s b hb)) (hdone hsp)
    refine ⟨st', ?_, inv', eff.grow, ?_, ?_, ?_⟩
    rotate_right
    · intro t b hb
      rw [eff.brs, List.mem_append] at hb
      rcases hb with hb | hb
      · exact htyp t b hb
      · exact ⟨p, sub, hsub, hsp ▸ htyped (t, b) (mem_planAt.1 hb)⟩
    · simp [processGenes, hsp, hok]
    · intro t b hb
      rw [eff.brs, List.mem_append] at hb
      rcases hb with hb | hb
      · left; exact hown t b hb
      · right
        have := howned (t, b) (mem_planAt.1 hb)
        exact ⟨this, this ▸ ⟨sub, hsub, hsp⟩⟩
    · intro _
      rw [eff.brs, keysOf_append, List.mem_append]
      right
      simp only [keysOf, List.mem_map]
      exact ⟨nb, mem_planAt.2 hnb, hkey⟩
  · refine ⟨st, by simp [processGenes, hsp], inv, Grow.refl st, ?_, fun h => absurd h hsp, htyp⟩
    intro t b hb; left; exact hown t b hb

theorem prefix_snoc_ne {p q : Path} (h0 : (p ++ [0]) <+: q) (h1 : (p ++ [1]) <+: q) : False := by
  obtain ⟨m0, rfl⟩ := h0
  obtain ⟨m1, h⟩ := h1
  simp only [List.append_assoc] at h
  have := List.append_cancel_left h
  simp at this

/-- The pass of species `s` over the subtree at `p0`. -/
theorem pass_sub {S : RTree} {sol : Sol} (hgood : Good S sol) (s : Path) :
    ∀ (sub : Sol) (p0 : Path) (st : LState) (D : Path → Prop),
      subAt sol p0 = some sub → PInv st → s ∈ skeys st →
      (∀ t, S.isNode t = true → Path.isAnc s t = true → t ∈ skeys st) →
      OwnersIn D st → (∀ q, D q → ¬ (p0 <+: q ∧ HasSp sol q s)) → Typed sol st →
      ∃ st', processGenes s (genesPost sub p0) st = .ok st' ∧ PInv st' ∧ Grow st st' ∧ Typed sol st' ∧
        OwnersIn (fun q => D q ∨ (p0 <+: q ∧ HasSp sol q s)) st' ∧
        (∀ q subq, subAt sub q = some subq → subq.sp = s →
          .gene (p0 ++ q) ∈ keysOf (brs st' s)) := by
  intro sub
  induction sub with
  | leaf sp f =>
    intro p0 st D hsub inv hs hkeys hown hD htyp
    obtain ⟨st', hok, inv', grow, hown', hdone', htyp'⟩ := node_step hgood hsub inv hs hkeys hown
      (fun hsp h => hD p0 h ⟨List.prefix_refl _, _, hsub, hsp⟩) htyp
      (fun _ sp' f' l' r' he => by cases he)
    refine ⟨st', by simpa [genesPost] using hok, inv', grow, htyp', ?_, ?_⟩
    · intro t b hb
      rcases hown' t b hb with h | ⟨h, h'⟩
      · left; exact h
      · right; exact ⟨h ▸ List.prefix_refl _, h'⟩
    · intro q subq hq hsp
      cases q with
      | nil =>
        simp only [subAt, Option.some.injEq] at hq
        subst hq
        simpa using hdone' hsp
      | cons i q => simp [subAt] at hq
  | node sp f l r ihl ihr =>
    intro p0 st D hsub inv hs hkeys hown hD htyp
    obtain ⟨hl, hr⟩ := subAt_child hsub
    -- left subtree
    obtain ⟨st1, ok1, inv1, grow1, typ1, own1, done1⟩ := ihl (p0 ++ [0]) st D hl inv hs hkeys hown
      (fun q hq ⟨hpre, hsp⟩ => hD q hq ⟨(List.prefix_append _ _).trans hpre, hsp⟩) htyp
    -- right subtree
    have hs1 : s ∈ skeys st1 := by rw [grow1.keys]; exact hs
    have hkeys1 : ∀ t, S.isNode t = true → Path.isAnc s t = true → t ∈ skeys st1 := by
      intro t h1 h2; rw [grow1.keys]; exact hkeys t h1 h2
    obtain ⟨st2, ok2, inv2, grow2, typ2, own2, done2⟩ := ihr (p0 ++ [1]) st1 _ hr inv1 hs1 hkeys1 own1
      (by
        rintro q (hq | ⟨hq, _⟩) ⟨hpre, hsp⟩
        · exact hD q hq ⟨(List.prefix_append _ _).trans hpre, hsp⟩
        · exact prefix_snoc_ne hq hpre) typ1
    -- the node itself
    have hs2 : s ∈ skeys st2 := by rw [grow2.keys]; exact hs1
    have hkeys2 : ∀ t, S.isNode t = true → Path.isAnc s t = true → t ∈ skeys st2 := by
      intro t h1 h2; rw [grow2.keys]; exact hkeys1 t h1 h2
    obtain ⟨st3, ok3, inv3, grow3, own3, done3, typ3⟩ := node_step hgood hsub inv2 hs2 hkeys2 own2
      (by
        rintro hsp ((hq | ⟨hq, _⟩) | ⟨hq, _⟩)
        · exact hD p0 hq ⟨List.prefix_refl _, _, hsub, hsp⟩
        · have := hq.length_le; simp only [List.length_append, List.length_singleton] at this; omega
        · have := hq.length_le; simp only [List.length_append, List.length_singleton] at this; omega)
      typ2
      (by
        intro _ sp' f' l' r' he
        cases he
        refine ⟨fun h => ?_, fun h => ?_⟩
        · have := done1 [] l (by cases l <;> rfl) h
          simp only [List.append_nil] at this
          exact grow2.mem_keys this
        · have := done2 [] r (by cases r <;> rfl) h
          simpa using this)
    refine ⟨st3, ?_, inv3, (grow1.trans grow2).trans grow3, typ3, ?_, ?_⟩
    · simp only [genesPost, processGenes_append, ok1, ok2]
      exact ok3
    · intro t b hb
      rcases own3 t b hb with ((h | ⟨h, h'⟩) | ⟨h, h'⟩) | ⟨h, h'⟩
      · left; exact h
      · right; exact ⟨(List.prefix_append _ _).trans h, h'⟩
      · right; exact ⟨(List.prefix_append _ _).trans h, h'⟩
      · right; exact ⟨h ▸ List.prefix_refl _, h'⟩
    · intro q subq hq hsp
      cases q with
      | nil =>
        simp only [subAt, Option.some.injEq] at hq
        subst hq
        simpa using done3 hsp
      | cons i q =>
        simp only [subAt] at hq
        split at hq
        · subst i
          have := done1 q subq hq hsp
          have := grow3.mem_keys (grow2.mem_keys this)
          simpa using this
        · split at hq
          · subst i
            have := done2 q subq hq hsp
            have := grow3.mem_keys this
            simpa using this
          · cases hq

/-! ### The species loop -/

theorem getSp_none_of_not_mem {st : LState} {s : Path} (h : s ∉ skeys st) : getSp st s = none := by
  cases hx : getSp st s with
  | none => rfl
  | some x =>
    exfalso; apply h
    exact (getSp_isSome_iff st s).1 (by simp [hx])

theorem brs_create {st : LState} {s : Path} (h : s ∉ skeys st) (t : Path) :
    brs (st ++ [(s, ⟨[], []⟩)]) t = brs st t := by
  unfold brs
  rw [getSp_append_new]
  cases hx : getSp st t with
  | some x => rfl
  | none =>
    by_cases hst : s = t
    · simp [hst]
    · simp [hst]

theorem ancs_create {st : LState} {s : Path} (h : s ∉ skeys st) (t : Path) :
    ancs (st ++ [(s, ⟨[], []⟩)]) t = ancs st t := by
  unfold ancs
  rw [getSp_append_new]
  cases hx : getSp st t with
  | some x => rfl
  | none =>
    by_cases hst : s = t
    · simp [hst]
    · simp [hst]

theorem HasSp_unique {sol : Sol} {q s s' : Path} (h : HasSp sol q s) (h' : HasSp sol q s') : s = s' := by
  obtain ⟨a, ha, rfl⟩ := h
  obtain ⟨b, hb, rfl⟩ := h'
  rw [ha] at hb; cases hb; rfl

theorem species_loop {S : RTree} {sol : Sol} (hgood : Good S sol) :
    ∀ (rest done : List Path) (st : LState),
      S.postorder = done ++ rest → skeys st = done → PInv st →
      OwnersIn (fun q => ∃ s', s' ∈ done ∧ HasSp sol q s') st →
      (∀ q subq, subAt sol q = some subq → subq.sp ∈ done → .gene q ∈ keysOf (brs st subq.sp)) →
      Typed sol st →
      ∃ st', processSpecies sol rest st = .ok st' ∧ skeys st' = S.postorder ∧ PInv st' ∧ Typed sol st' ∧
        (∀ q subq, subAt sol q = some subq → subq.sp ∈ S.postorder →
          .gene q ∈ keysOf (brs st' subq.sp)) := by
  intro rest
  induction rest with
  | nil =>
    intro done st hsplit hk inv _ hdone htyp
    simp only [List.append_nil] at hsplit
    exact ⟨st, rfl, by rw [hk, hsplit], inv, htyp, by rw [hsplit]; exact hdone⟩
  | cons s rest ih =>
    intro done st hsplit hk inv hown hdone htyp
    have hnd := postorder_nodup S
    rw [hsplit] at hnd
    have hsnot : s ∉ done := by
      intro h
      have := (List.nodup_append.1 hnd).2.2 s h s (List.mem_cons_self ..)
      exact this rfl
    have hsnot' : s ∉ skeys st := by rw [hk]; exact hsnot
    let st0 : LState := st ++ [(s, ⟨[], []⟩)]
    have hk0 : skeys st0 = done ++ [s] := by simp [st0, skeys, ← hk]
    have inv0 : PInv st0 := by
      refine ⟨?_, ?_⟩
      · intro t k h1 h2
        rw [brs_create hsnot'] at h1 h2
        rw [ancs_create hsnot']
        exact inv.anch t k h1 h2
      · intro t b hb
        rw [brs_create hsnot'] at hb
        exact inv.cons t b hb
    have hkeys : ∀ t, S.isNode t = true → Path.isAnc s t = true → t ∈ skeys st0 := by
      intro t h1 h2; rw [hk0]; exact desc_before hsplit h1 h2
    have hs0 : s ∈ skeys st0 := by rw [hk0]; simp
    have hown0 : OwnersIn (fun q => ∃ s', s' ∈ done ∧ HasSp sol q s') st0 := by
      intro t b hb; rw [brs_create hsnot'] at hb; exact hown t b hb
    have htyp0 : Typed sol st0 := by
      intro t b hb; rw [brs_create hsnot'] at hb; exact htyp t b hb
    obtain ⟨st1, ok1, inv1, grow1, typ1, own1, done1⟩ := pass_sub hgood s sol [] st0 _
      (by cases sol <;> rfl) inv0 hs0 hkeys hown0
      (by
        rintro q ⟨s', hs', h⟩ ⟨_, h'⟩
        exact hsnot (HasSp_unique h' h ▸ hs')) htyp0
    have hsplit' : S.postorder = (done ++ [s]) ++ rest := by rw [hsplit]; simp
    obtain ⟨st', ok', hk', inv', typ', done'⟩ := ih (done ++ [s]) st1 hsplit'
      (by rw [grow1.keys, hk0]) inv1
      (by
        intro t b hb
        rcases own1 t b hb with ⟨s', hs', h⟩ | ⟨_, h⟩
        · exact ⟨s', List.mem_append_left _ hs', h⟩
        · exact ⟨s, by simp, h⟩)
      (by
        intro q subq hq hsp
        simp only [List.mem_append, List.mem_singleton] at hsp
        rcases hsp with hsp | hsp
        · apply grow1.mem_keys
          rw [brs_create hsnot']
          exact hdone q subq hq hsp
        · have := done1 q subq hq hsp
          simpa [hsp] using this) typ1
    refine ⟨st', ?_, hk', inv', typ', done'⟩
    simp only [processSpecies]
    show (match processGenes s (genesPost sol []) st0 with
      | .error e => Except.error e
      | .ok st' => processSpecies sol rest st') = _
    rw [ok1]
    exact ok'

/-- `_compute_branches` never fails on a valid reconciliation, creates one
    state per species, and gives every object node a branch in its species. -/
theorem computeBranches_ok {S : RTree} {sol : Sol} (hgood : Good S sol) :
    ∃ st, computeBranches S sol = .ok st ∧ skeys st = S.postorder ∧ PInv st ∧ Typed sol st ∧
      (∀ q subq, subAt sol q = some subq → .gene q ∈ keysOf (brs st subq.sp)) := by
  obtain ⟨st, ok, hk, inv, typ, done⟩ := species_loop hgood S.postorder [] [] (by simp) rfl
    ⟨by intro t k h; simp [brs, getSp, keysOf] at h, by intro t b h; simp [brs, getSp] at h⟩
    (by intro t b h; simp [brs, getSp] at h)
    (by intro q subq _ h; simp at h)
    (by intro t b h; simp [brs, getSp] at h)
  refine ⟨st, ok, hk, inv, typ, ?_⟩
  intro q subq hq
  exact done q subq hq (mem_postorder_of_isNode _ S (hgood q subq hq).1)

end SR.Layout
