/-
  `keys()` / iteration / `in` on tables: which dictionary keys exist after a
  history (`Model/Table.lean`).
-/
import SRVerif.Proofs.TableRead

set_option linter.unusedSectionVars false

namespace SR.DP

variable {τ : Type} [DecidableEq τ]

/-! ### Prefixes of a resolved path -/

theorem resolveFrom_pre (ds : List Dim) (ks pre a : List Key)
    (h : (resolveFrom ds ks pre).2 = .ok a) : a.take pre.length = pre := by
  induction ks generalizing ds pre with
  | nil => simp [resolveFrom] at h; subst h; simp
  | cons k ks ih =>
    cases ds with
    | nil => simp [resolveFrom] at h
    | cons d ds =>
      simp only [resolveFrom] at h
      cases hn : normKey d k with
      | error e => simp [hn] at h
      | ok k' =>
        simp only [hn] at h
        have := ih ds _ h
        have h2 : (a.take (pre ++ [k']).length).take pre.length = (pre ++ [k']).take pre.length := by rw [this]
        rw [List.take_take] at h2
        simpa using h2

theorem resolveFrom_take (ds : List Dim) (ks pre a : List Key) (n : Nat)
    (h : (resolveFrom ds ks pre).2 = .ok a) :
    (resolveFrom ds (ks.take n) pre).2 = .ok (a.take (pre.length + min n ks.length)) := by
  induction ks generalizing ds pre n with
  | nil =>
    simp [resolveFrom] at h ⊢
    subst h; simp
  | cons k ks ih =>
    cases n with
    | zero =>
      simp [resolveFrom]
      exact (resolveFrom_pre ds (k :: ks) pre a h).symm
    | succ n =>
      cases ds with
      | nil => simp [resolveFrom] at h
      | cons d ds =>
        simp only [resolveFrom, List.take_succ_cons] at h ⊢
        cases hn : normKey d k with
        | error e => simp [hn] at h
        | ok k' =>
          simp only [hn] at h ⊢
          have := ih ds (pre ++ [k']) n h
          rw [this]
          congr 2
          simp
          omega

/-- The address of a prefix of a valid chain is the prefix of its address. -/
theorem addr_take (ds : List Dim) (ks a : List Key) (n : Nat) (h : addr ds ks = .ok a) (hn : n ≤ ks.length) :
    addr ds (ks.take n) = .ok (a.take n) := by
  have := resolveFrom_take ds ks [] a n h
  simpa [addr, Nat.min_eq_left hn] using this

namespace Table

/-! ### Operations that walk a whole path create its dictionary keys -/

/-- A write of a batch with a finite candidate through a valid complete chain creates every
    dictionary key on the way. -/
theorem step_write_touched [Min τ] (T : Table τ) (op : Op τ) (a : List Key) (b : List (Cand τ))
    (hw : writesTo T.dims a op = some b) (hfin : b.any (fun x => !x.value.isInfinite) = true) :
    ∃ ks ∈ opPaths op, addr T.dims ks = .ok a ∧ ks.length = T.dims.length ∧
      ∀ p ∈ visited T.dims ks, p ∈ (T.step op).1.touched := by
  cases op with
  | set pre k c =>
    simp only [writesTo] at hw
    split at hw
    · rename_i hc
      obtain ⟨hl, ha⟩ := hc
      injection hw with hw
      subst hw
      refine ⟨pre ++ [k], by simp [opPaths], (isAddr_iff _ _ _).mp ha, hl, ?_⟩
      intro p hp
      have hs : pre.length < T.dims.length := by simp at hl; omega
      simp only [step, index_short T pre hs, setitem]
      rw [if_pos (by simpa using hl)]
      have := updateAt_touched T (pre ++ [k]) p [c] hfin hp
      cases hu : T.updateAt (pre ++ [k]) [c] with
      | mk t2 r => rw [hu] at this; cases r <;> exact this
    · simp at hw
  | update ks bb =>
    simp only [writesTo] at hw
    split at hw
    · rename_i hc
      obtain ⟨hne, hl, ha⟩ := hc
      injection hw with hw
      subst hw
      refine ⟨ks, by simp [opPaths], (isAddr_iff _ _ _).mp ha, hl, ?_⟩
      intro p hp
      simp only [step, index_valid T ks a hne hl ((isAddr_iff _ _ _).mp ha)]
      have := updateAt_touched (T.walk ks.dropLast).1 ks p bb hfin (by rw [walk_dims]; exact hp)
      cases hu : (T.walk ks.dropLast).1.updateAt ks bb with
      | mk t2 r => rw [hu] at this; cases r <;> exact this
    · simp at hw
  | _ => simp [writesTo] at hw

/-- So does a mere READ through a valid complete chain (`defaultdict` creates what it is asked for). -/
theorem step_value_touched [Min τ] (T : Table τ) (ks a : List Key) (hne : ks ≠ [])
    (hlen : ks.length = T.dims.length) (ha : addr T.dims ks = .ok a) :
    ∀ p ∈ visited T.dims ks, p ∈ (T.step (.value ks)).1.touched := by
  intro p hp
  simp only [step, withCell, index_valid T ks a hne hlen ha]
  have := getReal_touched (T.walk ks.dropLast).1 ks p (by rw [walk_dims]; exact hp)
  cases hu : (T.walk ks.dropLast).1.getReal ks with
  | mk t2 r => rw [hu] at this; cases r <;> exact this

/-- Keys are never removed by a history. -/
theorem run_touched_mono [Min τ] (T : Table τ) (ops : List (Op τ)) (p : List Key) (hp : p ∈ T.touched) :
    p ∈ (T.run ops).1.touched := by
  obtain ⟨l, h, _⟩ := run_touched T ops
  rw [h]; exact List.mem_append_left _ hp

/-- `keys()`, iteration and `in` below a proper prefix leading to a dictionary. -/
theorem keys_dict [Min τ] (T : Table τ) (pre a : List Key) (hs : pre.length < T.dims.length)
    (ha : addr T.dims pre = .ok a) (hd : T.dims[pre.length]? = some .dict) :
    ∃ l, (T.step (.keys pre)).2 = .keys l ∧ (T.step (.iter pre)).2 = .keys l
      ∧ (∀ k, (T.step (.contains pre k)).2 = .bool (decide (k ∈ l)))
      ∧ ∀ k, k ∈ l ↔ a ++ [k] ∈ T.touched := by
  obtain ⟨l, h1, h2⟩ := keysAt_dict T pre a ha hd
  refine ⟨l, ?_, ?_, ?_, h2⟩
  · rw [step_keys_short T pre hs, h1]
  · rw [step_iter_short T pre hs, step_keys_short T pre hs, h1]
  · intro k; rw [step_contains_short T pre k hs, h1]

/-- The selection `keys()` makes among the existing dictionary keys, below the normalised prefix `a`. -/
def keySel (a : List Key) (p : List Key) : Option Key :=
  if p.length = a.length + 1 ∧ p.take a.length = a then p.getLast? else none

/-- `keys()` below a dictionary prefix, as a list: the keys created so far under it, in creation order. -/
theorem keysAt_dict_eq (t : Table τ) (pre a : List Key) (ha : addr t.dims pre = .ok a)
    (hd : t.dims[pre.length]? = some .dict) :
    (t.keysAt pre).2 = .ok (t.touched.filterMap (keySel a)) := by
  unfold keysAt
  have h2 := walk_snd t pre
  obtain ⟨l0, hl0, hv⟩ := (walk_ext t pre).touched
  cases hw : t.walk pre with
  | mk t' r =>
    rw [hw] at h2 hl0
    simp only at h2 hl0
    rw [ha] at h2
    subst h2
    simp only [hd]
    rw [hl0, List.filterMap_append]
    have : l0.filterMap (keySel a) = [] := by
      rw [List.filterMap_eq_nil_iff]
      intro p hp
      have h1 := visited_length_le _ _ _ (hv p hp)
      have h3 := (addr_length _ _ _ ha).1
      simp only [keySel]
      rw [if_neg]
      rintro ⟨h4, _⟩
      omega
    show Except.ok (List.filterMap (keySel a) t.touched ++ List.filterMap (keySel a) l0) = _
    rw [this, List.append_nil]

/-- **`keys()` is append-only**: what it lists after any further history extends what it listed
    before, in the same order. -/
theorem keys_prefix [Min τ] (T : Table τ) (ops : List (Op τ)) (pre a : List Key) (hs : pre.length < T.dims.length)
    (ha : addr T.dims pre = .ok a) (hd : T.dims[pre.length]? = some .dict) :
    ∃ l l', (T.step (.keys pre)).2 = .keys l ∧ ((T.run ops).1.step (.keys pre)).2 = .keys (l ++ l') := by
  obtain ⟨hdim, _, _⟩ := run_shape T ops
  obtain ⟨lx, hlx, _⟩ := run_touched T ops
  refine ⟨T.touched.filterMap (keySel a), lx.filterMap (keySel a), ?_, ?_⟩
  · rw [step_keys_short T pre hs, keysAt_dict_eq T pre a ha hd]
  · rw [step_keys_short _ pre (by rw [hdim]; exact hs),
      keysAt_dict_eq _ pre a (by rw [hdim]; exact ha) (by rw [hdim]; exact hd), hlx, List.filterMap_append]

theorem keys_list [Min τ] (T : Table τ) (pre a : List Key) (n : Nat) (hs : pre.length < T.dims.length)
    (ha : addr T.dims pre = .ok a) (hd : T.dims[pre.length]? = some (.list n)) :
    (T.step (.keys pre)).2 = .keys ((List.range n).map (fun i => Key.int (i : Nat)))
    ∧ (T.step (.iter pre)).2 = .keys ((List.range n).map (fun i => Key.int (i : Nat)))
    ∧ ∀ k, (T.step (.contains pre k)).2 = .bool (decide (∃ i, i < n ∧ k = Key.int (i : Nat))) := by
  have h1 := keysAt_list T pre a n ha hd
  refine ⟨?_, ?_, ?_⟩
  · rw [step_keys_short T pre hs, h1]
  · rw [step_iter_short T pre hs, step_keys_short T pre hs, h1]
  · intro k
    rw [step_contains_short T pre k hs, h1]
    simp only [Out.bool.injEq, decide_eq_decide, List.mem_map, List.mem_range]
    constructor
    · rintro ⟨i, hi, rfl⟩; exact ⟨i, hi, rfl⟩
    · rintro ⟨i, hi, rfl⟩; exact ⟨i, hi, rfl⟩

end Table

end SR.DP
