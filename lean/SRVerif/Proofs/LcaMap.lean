/-
  C07 — definitions and path lemmas for the duplication-loss optimality of the
  LCA reconciliation.

  * `OTree.leafSpecies`, `Sol.transferFree`, `Sol.eraseFam`, `famsMatch`
  * `dlLocal` / `dlCost`: the evaluator's cost of a transfer-free valid
    solution as a natural number, with closed forms in terms of depths
  * the classification of `internalEvent` on vertical (non-transfer) nodes
-/
import SRVerif.Proofs.Cost
import SRVerif.Proofs.Paths
import SRVerif.Spec.Opt

namespace SR

/-- Species of the leaves below a node, left to right. -/
def OTree.leafSpecies : OTree → List Path
  | .leaf sp _ => [sp]
  | .node l r => l.leafSpecies ++ r.leafSpecies

namespace Sol

/-- No internal node is a horizontal transfer. -/
def transferFree : Sol → Bool
  | .leaf _ _ => true
  | .node s _ l r => internalEvent s l.sp r.sp != .hgt && transferFree l && transferFree r

/-- The species mapping alone: all synteny annotations erased. -/
def eraseFam : Sol → Sol
  | .leaf s _ => .leaf s []
  | .node s _ l r => .node s [] (eraseFam l) (eraseFam r)

@[simp] theorem sp_leaf (s : Path) (f : List Nat) : (Sol.leaf s f).sp = s := rfl
@[simp] theorem sp_node (s : Path) (f : List Nat) (l r : Sol) : (Sol.node s f l r).sp = s := rfl

@[simp] theorem eraseFam_sp (s : Sol) : s.eraseFam.sp = s.sp := by cases s <;> rfl

end Sol

/-- The synteny annotations of a plain reconciliation output: the leaves carry
    the input's data, internal nodes carry nothing (what `lcaSol`,
    `Spec.allMappings` and the driver's decoding of a Python output produce). -/
def famsMatch : OTree → Sol → Bool
  | .leaf _ f, .leaf _ g => g == f
  | .node ol or, .node _ f l r => f == [] && famsMatch ol l && famsMatch or r
  | _, _ => false

/-- The speciation test of `node_event` on a node whose children are below it. -/
def specCond (s a b : Path) : Bool := s == Path.lcp a b && !Path.comparable a b

/-- Local cost of a vertical (speciation / duplication) node, as a number. -/
def dlLocal (c : Costs) (s a b : Path) : Nat :=
  if specCond s a b then c.spe + c.floss * (Path.dist s a + Path.dist s b - 2)
  else c.dup + c.floss * (Path.dist s a + Path.dist s b)

/-- Cost of a transfer-free valid solution, as a number. -/
def dlCost (c : Costs) : Sol → Nat
  | .leaf _ _ => 0
  | .node s _ l r => dlLocal c s l.sp r.sp + (dlCost c l + dlCost c r)

namespace Path

theorem comparable_of_common_desc {p q r : Path} (h1 : isAnc p r = true) (h2 : isAnc q r = true) :
    comparable p q = true := by
  rw [isAnc_iff_prefix] at h1 h2
  simp only [comparable, Bool.or_eq_true, isAnc_iff_prefix]
  exact List.prefix_or_prefix_of_prefix h1 h2

theorem eq_of_isAnc_of_length_le {p q : Path} (h : isAnc p q = true) (hl : q.length ≤ p.length) :
    p = q := by
  rw [isAnc_iff_prefix] at h
  exact List.IsPrefix.eq_of_length_le h hl

theorem isAnc_lcp_iff (r p q : Path) :
    isAnc r (lcp p q) = true ↔ isAnc r p = true ∧ isAnc r q = true :=
  ⟨fun h => ⟨isAnc_trans h (lcp_isAnc_left p q), isAnc_trans h (lcp_isAnc_right p q)⟩,
   fun h => isAnc_lcp h.1 h.2⟩

theorem not_isStrictAnc_of_isAnc {s a : Path} (h : isAnc s a = true) : isStrictAnc a s = false := by
  cases hs : isStrictAnc a s
  · rfl
  · rw [isStrictAnc_iff] at hs
    exact absurd (isAnc_antisymm hs.1 h) hs.2

/-- A speciation stays a speciation, at the same species, when the children move down. -/
theorem specCond_descend {s a b a' b' : Path} (hs : specCond s a b = true)
    (ha : isAnc a a' = true) (hb : isAnc b b' = true) :
    lcp a' b' = s ∧ comparable a' b' = false := by
  simp only [specCond, Bool.and_eq_true, beq_iff_eq, Bool.not_eq_true'] at hs
  obtain ⟨rfl, hinc⟩ := hs
  have hinc1 : isAnc a b = false := by
    cases h : isAnc a b
    · rfl
    · simp [comparable, h] at hinc
  have hinc2 : isAnc b a = false := by
    cases h : isAnc b a
    · rfl
    · simp [comparable, h] at hinc
  refine ⟨?_, ?_⟩
  · apply isAnc_antisymm
    · -- `m = lcp a' b'` is comparable with `a` and with `b`, and cannot be below either
      have hma : isAnc (lcp a' b') a = true := by
        have hc := comparable_of_common_desc (lcp_isAnc_left a' b') ha
        simp only [comparable, Bool.or_eq_true] at hc
        rcases hc with h | h
        · exact h
        · have : isAnc a b' = true := isAnc_trans h (lcp_isAnc_right a' b')
          have hc2 := comparable_of_common_desc this hb
          simp [comparable, hinc1, hinc2] at hc2
      have hmb : isAnc (lcp a' b') b = true := by
        have hc := comparable_of_common_desc (lcp_isAnc_right a' b') hb
        simp only [comparable, Bool.or_eq_true] at hc
        rcases hc with h | h
        · exact h
        · have : isAnc b a' = true := isAnc_trans h (lcp_isAnc_left a' b')
          have hc2 := comparable_of_common_desc this ha
          simp [comparable, hinc1, hinc2] at hc2
      exact isAnc_lcp hma hmb
    · exact isAnc_lcp (isAnc_trans (lcp_isAnc_left a b) ha) (isAnc_trans (lcp_isAnc_right a b) hb)
  · cases hc : comparable a' b'
    · rfl
    · simp only [comparable, Bool.or_eq_true] at hc
      rcases hc with h | h
      · have hc2 := comparable_of_common_desc (isAnc_trans ha h) hb
        simp [comparable, hinc1, hinc2] at hc2
      · have hc2 := comparable_of_common_desc (isAnc_trans hb h) ha
        simp [comparable, hinc1, hinc2] at hc2

/-- Children of a speciation are strictly below it. -/
theorem specCond_length {s a b : Path} (hs : specCond s a b = true) :
    s.length + 1 ≤ a.length ∧ s.length + 1 ≤ b.length := by
  simp only [specCond, Bool.and_eq_true, beq_iff_eq, Bool.not_eq_true'] at hs
  obtain ⟨rfl, hinc⟩ := hs
  have hla := length_le_of_isAnc (lcp_isAnc_left a b)
  have hlb := length_le_of_isAnc (lcp_isAnc_right a b)
  refine ⟨?_, ?_⟩
  · rcases Nat.lt_or_ge (lcp a b).length a.length with h | h
    · exact h
    · have := eq_of_isAnc_of_length_le (lcp_isAnc_left a b) h
      have h2 : isAnc a b = true := by
        have := lcp_isAnc_right a b
        rwa [‹lcp a b = a›] at this
      simp [comparable, h2] at hinc
  · rcases Nat.lt_or_ge (lcp a b).length b.length with h | h
    · exact h
    · have := eq_of_isAnc_of_length_le (lcp_isAnc_right a b) h
      have h2 : isAnc b a = true := by
        have := lcp_isAnc_left a b
        rwa [‹lcp a b = b›] at this
      simp [comparable, h2] at hinc

end Path

/-! ### Events of vertical nodes -/

/-- A node that is neither INVALID nor a transfer has both children below it,
    and its event is decided by the speciation test. -/
theorem internalEvent_vertical {s a b : Path} (h1 : internalEvent s a b ≠ .invalid)
    (h2 : internalEvent s a b ≠ .hgt) :
    Path.isAnc s a = true ∧ Path.isAnc s b = true ∧
      internalEvent s a b = (if specCond s a b then .spec else .dup) := by
  unfold internalEvent at h1 h2 ⊢
  by_cases hst : (Path.isStrictAnc a s || Path.isStrictAnc b s) = true
  · simp [hst] at h1
  · by_cases hab : (Path.isAnc s a && Path.isAnc s b) = true
    · have hab' := hab
      simp only [Bool.and_eq_true] at hab'
      refine ⟨hab'.1, hab'.2, ?_⟩
      simp only [hst, hab, if_true, specCond]
      rfl
    · by_cases hor : (Path.isAnc s a || Path.isAnc s b) = true
      · simp [hst, hab, hor] at h2
      · simp [hst, hab, hor] at h1

/-- Conversely, a node above both children is vertical. -/
theorem internalEvent_of_isAnc {s a b : Path} (ha : Path.isAnc s a = true)
    (hb : Path.isAnc s b = true) :
    internalEvent s a b = (if specCond s a b then .spec else .dup) := by
  unfold internalEvent
  simp only [Path.not_isStrictAnc_of_isAnc ha, Path.not_isStrictAnc_of_isAnc hb, ha, hb,
    Bool.or_self, Bool.false_eq_true, if_false, Bool.and_self, if_true, specCond]
  rfl

theorem localRecCost_vertical (c : Costs) {s a b : Path} (ha : Path.isAnc s a = true)
    (hb : Path.isAnc s b = true) : localRecCost c s a b = .fin (dlLocal c s a b) := by
  unfold localRecCost dlLocal
  rw [internalEvent_of_isAnc ha hb]
  cases specCond s a b <;> rfl

/-! ### Closed forms of the local cost in terms of depths -/

theorem dlLocal_spec_form (c : Costs) {s a b : Path} (hs : specCond s a b = true)
    (ha : Path.isAnc s a = true) (hb : Path.isAnc s b = true) :
    dlLocal c s a b + 2 * (c.floss * s.length) + 2 * c.floss
      = c.spe + c.floss * a.length + c.floss * b.length := by
  obtain ⟨la, lb⟩ := Path.specCond_length hs
  simp only [dlLocal, hs, if_true, Path.dist_of_isAnc ha, Path.dist_of_isAnc hb]
  obtain ⟨x, hx⟩ : ∃ x, a.length = s.length + 1 + x := ⟨a.length - (s.length + 1), by omega⟩
  obtain ⟨y, hy⟩ : ∃ y, b.length = s.length + 1 + y := ⟨b.length - (s.length + 1), by omega⟩
  have e : a.length - s.length + (b.length - s.length) - 2 = x + y := by omega
  rw [e, hx, hy]
  simp only [Nat.mul_add, Nat.mul_one]
  omega

theorem dlLocal_dup_form (c : Costs) {s a b : Path} (hs : specCond s a b = false)
    (ha : Path.isAnc s a = true) (hb : Path.isAnc s b = true) :
    dlLocal c s a b + 2 * (c.floss * s.length)
      = c.dup + c.floss * a.length + c.floss * b.length := by
  have la := Path.length_le_of_isAnc ha
  have lb := Path.length_le_of_isAnc hb
  simp only [dlLocal, hs, Bool.false_eq_true, if_false, Path.dist_of_isAnc ha, Path.dist_of_isAnc hb]
  obtain ⟨x, hx⟩ : ∃ x, a.length = s.length + x := ⟨a.length - s.length, by omega⟩
  obtain ⟨y, hy⟩ : ∃ y, b.length = s.length + y := ⟨b.length - s.length, by omega⟩
  have e : a.length - s.length + (b.length - s.length) = x + y := by omega
  rw [e, hx, hy]
  simp only [Nat.mul_add]
  omega

end SR
