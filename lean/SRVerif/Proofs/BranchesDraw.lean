/-
  `tikz.render` (statement kinds of `_tikz_draw_branches`) on the output of
  `layout.compute`: every dictionary look-up succeeds, and the emitted
  statements are, branch by branch, an optional `\path` followed by the
  statements `coreStmts` determined by the branch alone.
-/
import SRVerif.Proofs.BranchesWire
import SRVerif.Proofs.BranchesLayout

namespace SR.Layout

open SR

/-! ### Pre-order and post-order list the same species -/

mutual
  theorem isNode_of_mem_postorder : ∀ (t : RTree) (p : Path), p ∈ t.postorder → t.isNode p = true
    | .node cs, p, h => by
      simp only [RTree.postorder, List.mem_append, List.mem_singleton] at h
      rcases h with h | rfl
      · obtain ⟨i, q, c, rfl, hc, hq⟩ := isNode_of_mem_postorderList cs 0 p h
        simp only [Nat.zero_add] at *
        simp only [RTree.isNode, RTree.sub, hc]
        exact hq
      · rfl
  theorem isNode_of_mem_postorderList : ∀ (cs : List RTree) (k : Nat) (p : Path),
      p ∈ RTree.postorderList cs k → ∃ i q c, p = (k + i) :: q ∧ cs[i]? = some c ∧ c.isNode q = true
    | [], _, p, h => by simp [RTree.postorderList] at h
    | c :: cs, k, p, h => by
      simp only [RTree.postorderList, List.mem_append, List.mem_map] at h
      rcases h with ⟨q, hq, rfl⟩ | h
      · exact ⟨0, q, c, rfl, rfl, isNode_of_mem_postorder c q hq⟩
      · obtain ⟨i, q, c', rfl, hc, hq⟩ := isNode_of_mem_postorderList cs (k + 1) p h
        exact ⟨i + 1, q, c', by simp; omega, by simpa using hc, hq⟩
end

theorem preorder_perm_postorder (S : RTree) : S.preorder.Perm S.postorder :=
  (List.perm_ext_iff_of_nodup (RTree.nodup_preorder S) (postorder_nodup S)).2 fun p => by
    rw [RTree.mem_preorder_iff]
    exact ⟨mem_postorder_of_isNode p S, isNode_of_mem_postorder S p⟩

/-! ### Look-ups -/

theorem hasKey_iff_mem {β : Type} (l : List (Key × β)) (k : Key) : hasKey l k = true ↔ k ∈ l.map (·.1) := by
  unfold hasKey
  constructor
  · intro h
    induction l with
    | nil => simp [lookupKey] at h
    | cons e l ih =>
      obtain ⟨k0, v⟩ := e
      simp only [lookupKey] at h
      by_cases hk : k0 = k
      · simp [hk]
      · simp only [hk, if_false] at h
        simp [ih h]
  · intro h
    obtain ⟨r, hr⟩ := lookupKey_of_mem h
    simp [hr]

theorem fbLookup_isSome_iff (l : List FBranch) (k : Key) :
    (fbLookup l k).isSome = true ↔ k ∈ (l.map FBranch.asBranch).map (·.key) := by
  induction l with
  | nil => simp [fbLookup]
  | cons b l ih =>
    by_cases hk : b.key = k
    · simp [fbLookup, hk, FBranch.asBranch]
    · have : ¬ k = b.key := fun e => hk e.symm
      simp only [fbLookup, hk, if_false, ih]
      simp [FBranch.asBranch, this]

theorem slLookup_of_mem {all : List SubLayout} {s : Path} (h : s ∈ all.map (·.sp)) :
    ∃ sl, slLookup all s = some sl ∧ sl ∈ all ∧ sl.sp = s := by
  induction all with
  | nil => simp at h
  | cons a all ih =>
    by_cases hs : a.sp = s
    · exact ⟨a, by simp [slLookup, hs], List.mem_cons_self .., hs⟩
    · simp only [List.map_cons, List.mem_cons] at h
      rcases h with h | h
      · exact absurd h.symm hs
      · obtain ⟨sl, h1, h2, h3⟩ := ih h
        exact ⟨sl, by simp [slLookup, hs, h1], List.mem_cons_of_mem _ h2, h3⟩

theorem spOfSol_eq_subAt (sol : Sol) (p : Path) : spOfSol sol p = (subAt sol p).map Sol.sp := by
  induction p generalizing sol with
  | nil => cases sol <;> rfl
  | cons i p ih =>
    cases sol with
    | leaf s f => rfl
    | node s f l r =>
      simp only [spOfSol, subAt]
      split
      · exact ih l
      · split
        · exact ih r
        · rfl

theorem not_isLeaf_of_child {S : RTree} {t : Path} {j : Nat} (h : S.isNode (t ++ [j]) = true) :
    (S.sub t).any RTree.isLeaf = false := by
  induction t generalizing S with
  | nil =>
    cases S with
    | node cs =>
      simp only [List.nil_append, RTree.isNode, RTree.sub] at h
      cases cs with
      | nil => simp at h
      | cons c cs => simp [RTree.sub, RTree.isLeaf, RTree.children]
  | cons x t ih =>
    cases S with
    | node cs =>
      simp only [List.cons_append, RTree.isNode, RTree.sub] at h ⊢
      cases hc : cs[x]? with
      | none => simp [hc] at h
      | some c =>
        simp only [hc] at h ⊢
        exact ih (by simpa [RTree.isNode] using h)

theorem BNeeds.mono {b : Branch} {ks ks' : List Key} (h : BNeeds b ks) (hsub : ∀ k ∈ ks, k ∈ ks') :
    BNeeds b ks' := by
  unfold BNeeds at h ⊢
  split
  · rename_i hk
    simp only [hk] at h
    obtain ⟨k1, k2, a, b', c, d⟩ := h
    exact ⟨k1, k2, a, b', hsub _ c, hsub _ d⟩
  · rename_i hk
    simp only [hk] at h
    obtain ⟨k1, a, c⟩ := h
    exact ⟨k1, a, hsub _ c⟩
  · trivial

theorem Ordered.needs_mem {l : List Branch} (h : Ordered l) {b : Branch} (hb : b ∈ l) :
    BNeeds b (keysOf l) := by
  obtain ⟨pre, post, rfl⟩ := List.append_of_mem hb
  exact (h pre b post rfl).mono (by intro k hk; rw [keysOf_append]; exact List.mem_append_left _ hk)

/-! ### One branch -/

/-- The statements a branch contributes after the optional anchor `\path`. -/
def coreStmts (b : Branch) : List Stmt :=
  match b.kind with
  | .leaf => [.event b.key .leaf]
  | .loss => [.path, .lossMarker b.key, .path]
  | .spec => [.path, .event b.key .spec]
  | .dup => [.path, .event b.key .dup]
  | .hgt =>
    match b.right with
    | some t => [.path, .transfer b.key t, .event b.key .hgt]
    | none => []

def preStmts (lay : SubLayout) (b : FBranch) : List Stmt :=
  if hasKey lay.anchors b.key then [.path] else []

/-- Everything known about the output of `layout.compute`. -/
structure Ctx (S : RTree) (sol : Sol) (st : LState) (all : List SubLayout) : Prop where
  good : Good S sol
  species : all.map (·.sp) = S.preorder
  skel : ∀ sl ∈ all, Skel st sl
  wire : Wiring S sol st
  ord : Ord st

theorem Ctx.anchorIn {S : RTree} {sol : Sol} {st : LState} {all : List SubLayout}
    (c : Ctx S sol st all) {t : Path} {kk : Key} (hn : S.isNode t = true)
    (hk : kk ∈ keysOf (brs st t)) (ha : kk ∈ ancs st t) :
    anchorIn (slLookup all t) (some kk) = .ok () := by
  obtain ⟨sl, h1, h2, h3⟩ := slLookup_of_mem (all := all) (s := t)
    (by rw [c.species, RTree.mem_preorder_iff]; exact hn)
  have := (c.skel sl h2).anchors
  rw [h3] at this
  have hkey : hasKey sl.anchors kk = true := by
    rw [hasKey_iff_mem, this, List.mem_filter]
    exact ⟨hk, by simpa using ha⟩
  simp [h1, SR.Layout.anchorIn, hkey]

theorem Ctx.branchIn {S : RTree} {sol : Sol} {st : LState} {all : List SubLayout}
    (c : Ctx S sol st all) {lay : SubLayout} (hl : lay ∈ all) {k : Key}
    (hk : k ∈ keysOf (brs st lay.sp)) : branchIn lay (some k) = .ok () := by
  have : (fbLookup lay.branches k).isSome = true := by
    rw [fbLookup_isSome_iff, (c.skel lay hl).branches]; exact hk
  simp [SR.Layout.branchIn, this]

theorem Ctx.drawBranch {S : RTree} {sol : Sol} {st : LState} {all : List SubLayout}
    (c : Ctx S sol st all) {lay : SubLayout} (hl : lay ∈ all) {b : FBranch} (hb : b ∈ lay.branches) :
    drawBranch all (spOfSol sol) lay
      (if (S.sub lay.sp).any RTree.isLeaf then none else slLookup all (lay.sp ++ [0]))
      (if (S.sub lay.sp).any RTree.isLeaf then none else slLookup all (lay.sp ++ [1])) b =
      .ok (preStmts lay b ++ coreStmts b.asBranch) := by
  have hbb : b.asBranch ∈ brs st lay.sp := by
    rw [← (c.skel lay hl).branches]; exact List.mem_map.2 ⟨b, hb, rfl⟩
  have hneeds := (c.ord lay.sp).needs_mem hbb
  unfold SR.Layout.drawBranch preStmts coreStmts
  cases hk : b.kind with
  | leaf => simp [FBranch.asBranch, hk]
  | loss =>
    obtain ⟨j, kk, hj, hn, hleft, hright, hkey, hanc⟩ := c.wire.loss _ _ hbb hk
    have hnl := not_isLeaf_of_child hn
    simp only [FBranch.asBranch] at hleft hright
    rcases hj with rfl | rfl
    · simp only [if_true] at hleft
      simp only [Nat.zero_ne_one, if_false] at hright
      simp [FBranch.asBranch, hk, hleft, hright, hnl, c.anchorIn hn hkey hanc]
    · simp only [Nat.one_ne_zero, if_false] at hleft
      simp only [if_true] at hright
      simp [FBranch.asBranch, hk, hleft, hright, hnl, c.anchorIn hn hkey hanc]
  | spec =>
    obtain ⟨k1, k2, hleft, hright, n1, n2, a1, b1, a2, b2⟩ := c.wire.spec _ _ hbb hk
    have hnl := not_isLeaf_of_child n1
    simp only [FBranch.asBranch] at hleft hright
    simp [FBranch.asBranch, hk, hleft, hright, hnl, c.anchorIn n1 a1 b1, c.anchorIn n2 a2 b2]
  | dup =>
    simp only [BNeeds, FBranch.asBranch, hk] at hneeds
    obtain ⟨k1, k2, hleft, hright, m1, m2⟩ := hneeds
    simp [FBranch.asBranch, hk, hleft, hright, c.branchIn hl m1, c.branchIn hl m2]
  | hgt =>
    simp only [BNeeds, FBranch.asBranch, hk] at hneeds
    obtain ⟨k1, hleft, m1⟩ := hneeds
    obtain ⟨g, sub, hright, hsub, hkey, hanc⟩ := c.wire.hgt _ _ hbb hk
    simp only [FBranch.asBranch] at hright
    have hsp : spOfSol sol g = some sub.sp := by rw [spOfSol_eq_subAt, hsub]; rfl
    obtain ⟨fl, h1, h2, h3⟩ := slLookup_of_mem (all := all) (s := sub.sp)
      (by rw [c.species, RTree.mem_preorder_iff]; exact (c.good _ _ hsub).1)
    have hfl : hasKey fl.anchors (.gene g) = true := by
      have := (c.skel fl h2).anchors
      rw [h3] at this
      rw [hasKey_iff_mem, this, List.mem_filter]
      exact ⟨hkey, by simpa using hanc⟩
    simp [FBranch.asBranch, hk, hleft, hright, hsp, h1, hfl, c.branchIn hl m1]

theorem Ctx.drawBranches {S : RTree} {sol : Sol} {st : LState} {all : List SubLayout}
    (c : Ctx S sol st all) {lay : SubLayout} (hl : lay ∈ all) :
    ∀ bs : List FBranch, (∀ b ∈ bs, b ∈ lay.branches) →
      drawBranches all (spOfSol sol) lay
        (if (S.sub lay.sp).any RTree.isLeaf then none else slLookup all (lay.sp ++ [0]))
        (if (S.sub lay.sp).any RTree.isLeaf then none else slLookup all (lay.sp ++ [1])) bs =
        .ok (bs.flatMap fun b => preStmts lay b ++ coreStmts b.asBranch) := by
  intro bs
  induction bs with
  | nil => intro _; rfl
  | cons b bs ih =>
    intro h
    simp only [SR.Layout.drawBranches, c.drawBranch hl (h b (List.mem_cons_self ..)),
      ih (fun x hx => h x (List.mem_cons_of_mem _ hx)), List.flatMap_cons]

theorem Ctx.drawAll {S : RTree} {sol : Sol} {st : LState} {all : List SubLayout}
    (c : Ctx S sol st all) : ∀ L : List SubLayout, (∀ lay ∈ L, lay ∈ all) →
      drawAll S sol all L = .ok (L.flatMap fun lay =>
        lay.branches.flatMap fun b => preStmts lay b ++ coreStmts b.asBranch) := by
  intro L
  induction L with
  | nil => intro _; rfl
  | cons lay L ih =>
    intro h
    simp only [SR.Layout.drawAll, c.drawBranches (h lay (List.mem_cons_self ..)) lay.branches
      (fun _ hb => hb), ih (fun x hx => h x (List.mem_cons_of_mem _ hx)), List.flatMap_cons]

/-! ### The whole drawing -/

/-- All the branches of a state, species by species (post-order). -/
def allBranches (S : RTree) (st : LState) : List Branch := S.postorder.flatMap (brs st)

theorem filter_pre (q : Stmt → Bool) (hq : q .path = false) (lay : SubLayout) (b : FBranch) :
    (preStmts lay b ++ coreStmts b.asBranch).filter q = (coreStmts b.asBranch).filter q := by
  unfold preStmts
  split <;> simp [hq]

/-- **`tikz.render` succeeds** on a valid reconciliation in a binary species
    tree, for both orientations, and — `\path` statements aside — emits exactly
    the `coreStmts` of the branches of the state. -/
theorem render_succeeds {S : RTree} {sol : Sol} {st : LState} (o : Orientation) (P : Params)
    (sizes : Key → Size) (hgood : Good S sol) (hbin : S.isBinary = true)
    (h : computeBranches S sol = .ok st) :
    ∃ ss, render o P sizes S sol = .ok ss ∧
      ∀ q : Stmt → Bool, q .path = false →
        (ss.filter q).Perm ((allBranches S st).flatMap fun b => (coreStmts b).filter q) := by
  obtain ⟨all, hc, hsp, hsk⟩ := compute_succeeds o P sizes hbin h
  have c : Ctx S sol st all :=
    ⟨hgood, hsp, hsk, computeBranches_wiring hgood hbin h, (computeBranches_ord h).2⟩
  refine ⟨_, by simp only [render, hc]; exact c.drawAll all (fun _ hl => hl), ?_⟩
  intro q hq
  have e1 : (all.flatMap fun lay =>
      lay.branches.flatMap fun b => preStmts lay b ++ coreStmts b.asBranch).filter q =
      (S.preorder.flatMap (brs st)).flatMap fun b => (coreStmts b).filter q := by
    rw [← hsp, List.flatMap_map, List.flatMap_assoc, List.filter_flatMap]
    apply List.flatMap_congr
    intro lay hl
    rw [← (hsk lay hl).branches, List.flatMap_map, List.filter_flatMap]
    apply List.flatMap_congr
    intro b _
    exact filter_pre q hq lay b
  rw [e1]
  exact List.Perm.flatMap_right _ (List.Perm.flatMap_right _ (preorder_perm_postorder S))

end SR.Layout
