/-
  The BreakUp triples of a binary tree are proper and displayed by the tree;
  a supertree displays the BreakUp triples of every input tree.
-/
import SRVerif.Proofs.TriplesRoundtrip

namespace SR.Tri

open SR SR.DS LTree Spec

theorem contract_displayed : ∀ (T : LTree), T.isBinary = true → T.leaves.Nodup → ∀ s, s ∉ T.leaves →
    ∀ tr, tr ∈ (contract T s).2 →
      proper tr = true ∧ ∃ C, C ∈ clades T ∧ tr.1 ∈ C ∧ tr.2.1 ∈ C ∧ tr.2.2 ∉ C
  | .leaf _, _, _, _, _, tr, h => by simp [contract] at h
  | .node [t1, t2], hb, hn, s, hs, tr, htr => by
    simp only [isBinary, Bool.and_eq_true] at hb
    have hTl : (LTree.node [t1, t2]).leaves = t1.leaves ++ t2.leaves := by simp [leaves, leavesL]
    rw [hTl] at hn hs
    obtain ⟨hn1, hn2, hd⟩ := List.nodup_append.mp hn
    have hdis : ∀ x, x ∈ t1.leaves → x ∉ t2.leaves := fun x h1 h2 => hd x h1 x h2 rfl
    have hr1 : (contract t1 t2.firstLeaf).1 ∈ t1.leaves := (contract_facts t1 hb.1 _).1
    have hr2 : (contract t2 (contract t1 t2.firstLeaf).1).1 ∈ t2.leaves := (contract_facts t2 hb.2 _).1
    have hfl : t2.firstLeaf ∉ t1.leaves := fun h => hdis _ h (firstLeaf_mem hb.2)
    obtain ⟨left, right, heq, hlr⟩ := contract_node t1 t2 s
    rw [heq, innerTr_node] at htr
    simp only [List.mem_append, List.mem_singleton] at htr
    rcases htr with (htr | htr) | rfl
    · obtain ⟨hp, C, hC, h⟩ := contract_displayed t1 hb.1 hn1 _ hfl tr htr
      exact ⟨hp, C, (mem_clades_node2 t1 t2 C).mpr (Or.inr (Or.inl hC)), h⟩
    · obtain ⟨hp, C, hC, h⟩ := contract_displayed t2 hb.2 hn2 _ (hdis _ hr1) tr htr
      exact ⟨hp, C, (mem_clades_node2 t1 t2 C).mpr (Or.inr (Or.inr hC)), h⟩
    · have hl : left ∈ t1.leaves ++ t2.leaves ∧ right ∈ t1.leaves ++ t2.leaves ∧ left ≠ right := by
        rcases hlr with ⟨rfl, rfl⟩ | ⟨rfl, rfl⟩
        · exact ⟨List.mem_append.mpr (Or.inl hr1), List.mem_append.mpr (Or.inr hr2),
            fun h => hdis _ hr1 (h ▸ hr2)⟩
        · exact ⟨List.mem_append.mpr (Or.inr hr2), List.mem_append.mpr (Or.inl hr1),
            fun h => hdis _ hr1 (h ▸ hr2)⟩
      have hls : left ≠ s := fun h => hs (h ▸ hl.1)
      have hrs : right ≠ s := fun h => hs (h ▸ hl.2.1)
      have hroot : t1.leaves ++ t2.leaves ∈ clades (.node [t1, t2]) :=
        (mem_clades_node2 t1 t2 _).mpr (Or.inl rfl)
      rcases mkTriple_cases left right s with e | e <;> rw [e]
      · exact ⟨(proper_iff _).mpr ⟨hl.2.2, hls, hrs⟩, _, hroot, hl.1, hl.2.1, hs⟩
      · exact ⟨(proper_iff _).mpr ⟨Ne.symm hl.2.2, hrs, hls⟩, _, hroot, hl.2.1, hl.1, hs⟩
  | .node [], h, _, _, _, _, _ => by simp [isBinary] at h
  | .node [_], h, _, _, _, _, _ => by simp [isBinary] at h
  | .node (_ :: _ :: _ :: _), h, _, _, _, _, _ => by simp [isBinary] at h

/-- The triples of `tree_to_triples` are proper and displayed by the tree. -/
theorem innerTr_displayed : ∀ (T : LTree), T.isBinary = true → T.leaves.Nodup →
    ∀ tr, tr ∈ innerTr T → proper tr = true ∧ displays T tr = true
  | .leaf _, _, _, tr, h => by simp [innerTr] at h
  | .node [t1, t2], hb, hn, tr, htr => by
    have hin := innerTr_inside _ hb tr htr
    have hb' := hb
    simp only [isBinary, Bool.and_eq_true] at hb
    have hTl : (LTree.node [t1, t2]).leaves = t1.leaves ++ t2.leaves := by simp [leaves, leavesL]
    have hn' := hn
    rw [hTl] at hn'
    obtain ⟨hn1, hn2, hd⟩ := List.nodup_append.mp hn'
    have hdis : ∀ x, x ∈ t1.leaves → x ∉ t2.leaves := fun x h1 h2 => hd x h1 x h2 rfl
    have hr1 : (contract t1 t2.firstLeaf).1 ∈ t1.leaves := (contract_facts t1 hb.1 _).1
    have hfl : t2.firstLeaf ∉ t1.leaves := fun h => hdis _ h (firstLeaf_mem hb.2)
    rw [displays_iff]
    rw [innerTr_node, List.mem_append] at htr
    rcases htr with htr | htr
    · obtain ⟨hp, C, hC, h⟩ := contract_displayed t1 hb.1 hn1 _ hfl tr htr
      exact ⟨hp, hin.1, hin.2.1, hin.2.2, C, (mem_clades_node2 t1 t2 C).mpr (Or.inr (Or.inl hC)), h⟩
    · obtain ⟨hp, C, hC, h⟩ := contract_displayed t2 hb.2 hn2 _ (hdis _ hr1) tr htr
      exact ⟨hp, hin.1, hin.2.1, hin.2.2, C, (mem_clades_node2 t1 t2 C).mpr (Or.inr (Or.inr hC)), h⟩
  | .node [], h, _, _, _ => by simp [isBinary] at h
  | .node [_], h, _, _, _ => by simp [isBinary] at h
  | .node (_ :: _ :: _ :: _), h, _, _, _ => by simp [isBinary] at h

theorem treeToTriples_eq : ∀ (t : LTree), t.isBinary = true →
    treeToTriples t = some (t.leaves, innerTr t)
  | .leaf a, _ => by simp [treeToTriples, isBinary, leaves, innerTr]
  | .node [t1, t2], h => by simp [treeToTriples, h, innerTr]
  | .node [], h => by simp [isBinary] at h
  | .node [_], h => by simp [isBinary] at h
  | .node (_ :: _ :: _ :: _), h => by simp [isBinary] at h

theorem treeToTriples_none {t : LTree} (h : t.isBinary = false) : treeToTriples t = none := by
  simp [treeToTriples, h]

/-! ### `dedup` -/

theorem dedup_foldl {α : Type} [BEq α] [LawfulBEq α] (l : List α) : ∀ (acc : List α), acc.Nodup →
    (l.foldl (fun acc x => if acc.contains x then acc else acc ++ [x]) acc).Nodup ∧
    ∀ x, x ∈ l.foldl (fun acc x => if acc.contains x then acc else acc ++ [x]) acc ↔ x ∈ acc ∨ x ∈ l := by
  induction l with
  | nil => intro acc h; simp [h]
  | cons a l ih =>
    intro acc h
    simp only [List.foldl_cons]
    by_cases hc : acc.contains a = true
    · simp only [hc, if_true]
      obtain ⟨h1, h2⟩ := ih acc h
      refine ⟨h1, fun x => ?_⟩
      rw [h2, List.mem_cons]
      have := List.contains_iff_mem.mp hc
      constructor
      · rintro (h | h); exact Or.inl h; exact Or.inr (Or.inr h)
      · rintro (h | rfl | h); exact Or.inl h; exact Or.inl this; exact Or.inr h
    · have hc' : acc.contains a = false := by simpa using hc
      simp only [hc', Bool.false_eq_true, if_false]
      have hna : a ∉ acc := fun h => hc (List.contains_iff_mem.mpr h)
      have hn' : (acc ++ [a]).Nodup := by
        rw [List.nodup_append]
        refine ⟨h, by simp, ?_⟩
        intro x hx y hy
        simp only [List.mem_singleton] at hy
        subst hy; intro h; exact hna (h ▸ hx)
      obtain ⟨h1, h2⟩ := ih (acc ++ [a]) hn'
      refine ⟨h1, fun x => ?_⟩
      rw [h2, List.mem_append, List.mem_singleton, List.mem_cons]
      constructor
      · rintro ((h | h) | h); exact Or.inl h; exact Or.inr (Or.inl h); exact Or.inr (Or.inr h)
      · rintro (h | h | h); exact Or.inl (Or.inl h); exact Or.inl (Or.inr h); exact Or.inr h

theorem nodup_dedup {α : Type} [BEq α] [LawfulBEq α] (l : List α) : (dedup l).Nodup :=
  (dedup_foldl l [] List.nodup_nil).1

theorem mem_dedup {α : Type} [BEq α] [LawfulBEq α] (l : List α) (x : α) : x ∈ dedup l ↔ x ∈ l := by
  have := (dedup_foldl l [] List.nodup_nil).2 x
  simpa [dedup] using this

/-! ### Supertrees -/

theorem mapM_treeToTriples {ts : List LTree} (hb : ∀ t, t ∈ ts → t.isBinary = true) :
    ts.mapM treeToTriples = some (ts.map (fun t => (t.leaves, innerTr t))) := by
  induction ts with
  | nil => simp
  | cons t ts ih =>
    rw [List.mapM_cons, treeToTriples_eq t (hb t (by simp)), ih (fun u hu => hb u (by simp [hu]))]
    simp

/-- A supertree has the union of the leaves and displays the BreakUp triples
    of every input tree. -/
theorem supertree_displays {ts : List LTree} (hb : ∀ t, t ∈ ts → t.isBinary = true)
    (hn : ∀ t, t ∈ ts → t.leaves.Nodup) {S : LTree} (h : supertree ts = some (some S)) :
    S.leaves.Nodup ∧ (∀ x, x ∈ S.leaves ↔ ∃ t, t ∈ ts ∧ x ∈ t.leaves) ∧
    ∀ t, t ∈ ts → ∀ tr, tr ∈ innerTr t → displays S tr = true := by
  simp only [supertree, treesToTriples, mapM_treeToTriples hb, Option.map_some, Option.some.injEq] at h
  simp only [List.flatMap_map] at h
  generalize hL : dedup (ts.flatMap (fun t => t.leaves)) = L at h
  generalize hT : dedup (ts.flatMap (fun t => innerTr t)) = trs at h
  have hLm : ∀ x, x ∈ L ↔ ∃ t, t ∈ ts ∧ x ∈ t.leaves := by
    intro x; rw [← hL, mem_dedup, List.mem_flatMap]
  have hTm : ∀ tr, tr ∈ trs ↔ ∃ t, t ∈ ts ∧ tr ∈ innerTr t := by
    intro tr; rw [← hT, mem_dedup, List.mem_flatMap]
  have hLn : L.Nodup := hL ▸ nodup_dedup _
  have hin : ∀ tr, tr ∈ trs → tr.1 ∈ L ∧ tr.2.1 ∈ L ∧ tr.2.2 ∈ L := by
    intro tr htr
    obtain ⟨t, ht, hti⟩ := (hTm tr).mp htr
    obtain ⟨a, b, c⟩ := innerTr_inside t (hb t ht) tr hti
    exact ⟨(hLm _).mpr ⟨t, ht, a⟩, (hLm _).mpr ⟨t, ht, b⟩, (hLm _).mpr ⟨t, ht, c⟩⟩
  have hg := treeFromTriples_good hLn (fun tr htr => ⟨(hin tr htr).1, (hin tr htr).2.1⟩)
    (fun tr htr => by
      obtain ⟨t, ht, hti⟩ := (hTm tr).mp htr
      exact (innerTr_displayed t (hb t ht) (hn t ht) tr hti).1) h
  refine ⟨hg.nodup, fun x => (hg.mem x).trans (hLm x), ?_⟩
  intro t ht tr htr
  have htrs : tr ∈ trs := (hTm tr).mpr ⟨t, ht, htr⟩
  exact hg.disp tr htrs ((inside_iff L tr).mpr (hin tr htrs))

end SR.Tri
