/-
  `reconcile_thl` (code-structured model `Model/ThlCode.lean`) under
  `RetentionPolicy.ANY` against the same model under `RetentionPolicy.ALL`.

  * `process_rec` / `computeTable_rec`   for EVERY retention policy the table is the
        solution of the recurrence `RowSpec`: the row of a leaf holds the single batch
        `[Candidate(0)]`, the cell (w, s) of an internal node is the fold of
        `EntryProxy.update` over `batches` computed from the VALUE rows of the two
        children (post-order induction with the frame argument of `process_ok`);
  * `cellRel_rows`     every cell of the ANY table is related to the cell of the ALL
        table (`AnyCode.CellRel`: instantiated together, same value, the ANY tag is
        one of the ALL tags);
  * `decode_sub`       hence every mapping decoded from the ANY table is decoded from
        the ALL table, at every object node and species;
  * `decode_ne_nil`    an instantiated cell decodes to at least one mapping (every
        tag-retaining policy): its value is finite, it has a tag, and the tags point to
        instantiated cells of the children;
  * `reconcile_rel`    the result entries.
-/
import SRVerif.Proofs.AnyCodeEntry
import SRVerif.Proofs.ThlCodeTable

namespace SR

open Path Cost AnyCode

namespace ThlCode

/-! ### The table as the solution of a recurrence (every retention policy) -/

/-- The body of the species loop. -/
def stepR (r : Retain) (c : Costs) (S : RTree) (v : Path) (tbl : Table) (s : Path) : Table :=
  tryDuplicationTransfer r c S s v
    (if !S.isLeafAt s then trySpeciation r c S s v tbl else tbl)

theorem stepR_get (r : Retain) (c : Costs) (S : RTree) (v : Path) (tbl : Table) (s : Path) (k : Key) :
    (stepR r c S v tbl s).get k =
      if k = (v, s) then
        (batches r c S s (fun x => tbl.value (v ++ [0], x)) (fun x => tbl.value (v ++ [1], x))).foldl
          (Cell.update .min r) (tbl.get (v, s))
      else tbl.get k := by
  unfold stepR
  rw [tryDuplicationTransfer_eq, Table.get_update]
  by_cases hleaf : S.isLeafAt s = true
  · simp only [hleaf, Bool.not_true, Bool.false_eq_true, if_false, batches, if_true, List.nil_append,
      List.foldl_cons, List.foldl_nil]
  · have hleaf' : S.isLeafAt s = false := by simpa using hleaf
    simp only [hleaf', Bool.not_false, if_true, batches, Bool.false_eq_true, if_false,
      List.cons_append, List.nil_append, List.foldl_cons, List.foldl_nil]
    rw [trySpeciation_eq]
    have h0 : ∀ x, (v ++ [0], x) ≠ (v, s) := fun x h => ne_child v 0 (Prod.mk.inj h).1
    have h1 : ∀ x, (v ++ [1], x) ≠ (v, s) := fun x h => ne_child v 1 (Prod.mk.inj h).1
    simp only [Table.value_update_ne _ _ _ (h0 _), Table.value_update_ne _ _ _ (h1 _)]
    by_cases hk : k = (v, s)
    · subst hk; simp only [if_true, Table.get_update]
    · simp only [hk, if_false, Table.get_update]

theorem loopR_get (r : Retain) (c : Costs) (S : RTree) (v : Path) (gl gr : Path → ExtInt) :
    ∀ (ss : List Path), ss.Nodup → ∀ (tbl : Table),
      (∀ x, tbl.value (v ++ [0], x) = gl x) → (∀ x, tbl.value (v ++ [1], x) = gr x) →
      ∀ k, (ss.foldl (stepR r c S v) tbl).get k =
        if k.1 = v ∧ k.2 ∈ ss then
          (batches r c S k.2 gl gr).foldl (Cell.update .min r) (tbl.get k)
        else tbl.get k := by
  intro ss
  induction ss with
  | nil => intro _ tbl _ _ k; simp
  | cons s ss ih =>
    intro hnd tbl hgl hgr k
    obtain ⟨hs, hnd'⟩ := List.nodup_cons.mp hnd
    have hgl' : ∀ x, (stepR r c S v tbl s).value (v ++ [0], x) = gl x := by
      intro x
      rw [Table.value, stepR_get, if_neg (fun h => ne_child v 0 (Prod.mk.inj h).1), ← hgl x]; rfl
    have hgr' : ∀ x, (stepR r c S v tbl s).value (v ++ [1], x) = gr x := by
      intro x
      rw [Table.value, stepR_get, if_neg (fun h => ne_child v 1 (Prod.mk.inj h).1), ← hgr x]; rfl
    rw [List.foldl_cons, ih hnd' _ hgl' hgr' k, stepR_get]
    have hfl : (fun x => tbl.value (v ++ [0], x)) = gl := funext hgl
    have hfr : (fun x => tbl.value (v ++ [1], x)) = gr := funext hgr
    rw [hfl, hfr]
    obtain ⟨kw, ks⟩ := k
    by_cases hw : kw = v
    · subst hw
      by_cases hks : ks = s
      · subst hks
        simp [hs]
      · have : (kw, ks) ≠ (kw, s) := fun h => hks (Prod.mk.inj h).2
        simp [hks, this]
    · have : (kw, ks) ≠ (v, s) := fun h => hw (Prod.mk.inj h).1
      simp [hw, this]

/-- The recurrence satisfied by the row of object node `w` (subtree `t`). -/
def RowSpec (r : Retain) (c : Costs) (S : RTree) (tbl : Table) (w : Path) : OTree → Prop
  | .leaf sp _ => ∀ s, tbl.get (w, s) =
      if s = sp then Cell.update .min r none [⟨.fin 0, none⟩] else none
  | .node _ _ => ∀ s, tbl.get (w, s) =
      if s ∈ S.postorder then
        (batches r c S s (fun x => tbl.value (w ++ [0], x)) (fun x => tbl.value (w ++ [1], x))).foldl
          (Cell.update .min r) none
      else none

theorem RowSpec_congr {r : Retain} {c : Costs} {S : RTree} {tbl tbl' : Table} {w : Path} {t : OTree}
    (h : ∀ w' s, w <+: w' → tbl'.get (w', s) = tbl.get (w', s)) (hr : RowSpec r c S tbl w t) :
    RowSpec r c S tbl' w t := by
  cases t with
  | leaf sp f =>
    intro s; rw [h w s (List.prefix_refl w)]; exact hr s
  | node l r' =>
    intro s
    have h0 : (fun x => tbl'.value (w ++ [0], x)) = fun x => tbl.value (w ++ [0], x) := by
      funext x; simp only [Table.value]; rw [h _ x (List.prefix_append w [0])]
    have h1 : (fun x => tbl'.value (w ++ [1], x)) = fun x => tbl.value (w ++ [1], x) := by
      funext x; simp only [Table.value]; rw [h _ x (List.prefix_append w [1])]
    rw [h w s (List.prefix_refl w), h0, h1]; exact hr s

/-- Every row of the subtree `t` hanging at `w` satisfies the recurrence. -/
def Rows (r : Retain) (c : Costs) (S : RTree) (tbl : Table) (t : OTree) (w : Path) : Prop :=
  ∀ p ∈ postorderNodes t w, RowSpec r c S tbl p.1 p.2

theorem Rows.root {r : Retain} {c : Costs} {S : RTree} {tbl : Table} {t : OTree} {w : Path}
    (h : Rows r c S tbl t w) : RowSpec r c S tbl w t := h _ (root_mem_postorderNodes t w)

theorem Rows.left {r : Retain} {c : Costs} {S : RTree} {tbl : Table} {l r' : OTree} {w : Path}
    (h : Rows r c S tbl (.node l r') w) : Rows r c S tbl l (w ++ [0]) :=
  fun p hp => h p (by simp [postorderNodes, hp])

theorem Rows.right {r : Retain} {c : Costs} {S : RTree} {tbl : Table} {l r' : OTree} {w : Path}
    (h : Rows r c S tbl (.node l r') w) : Rows r c S tbl r' (w ++ [1]) :=
  fun p hp => h p (by simp [postorderNodes, hp])

/-- Processing the nodes of the subtree `t` hanging at `v`, starting from a table
    with nothing at or below `v`, leaves every other row untouched and makes every
    row of the subtree satisfy the recurrence. -/
theorem process_rec (r : Retain) (c : Costs) (S : RTree) : ∀ (t : OTree) (v : Path) (tbl0 : Table),
    (∀ w s, v <+: w → tbl0.get (w, s) = none) →
    (∀ w s, ¬ v <+: w →
      ((postorderNodes t v).foldl (processNode r c S) tbl0).get (w, s) = tbl0.get (w, s)) ∧
    Rows r c S ((postorderNodes t v).foldl (processNode r c S) tbl0) t v := by
  intro t
  induction t with
  | leaf sp f =>
    intro v tbl0 hfresh
    simp only [Rows, postorderNodes, List.foldl_cons, List.foldl_nil, processNode]
    constructor
    · intro w s hw
      rw [Table.get_update, if_neg]
      intro h; exact hw ((Prod.mk.inj h).1 ▸ List.prefix_refl _)
    · intro p hp
      simp only [List.mem_singleton] at hp
      subst hp
      intro s
      rw [Table.get_update]
      by_cases hs : s = sp
      · subst hs; simp only [if_true]; rw [hfresh v s (List.prefix_refl v)]
      · rw [if_neg (fun h => hs (Prod.mk.inj h).2), if_neg hs]
        exact hfresh v s (List.prefix_refl v)
  | node l r' ihl ihr =>
    intro v tbl0 hfresh
    simp only [Rows, postorderNodes, List.foldl_append, List.foldl_cons, List.foldl_nil]
    obtain ⟨frL, rowsL⟩ := ihl (v ++ [0]) tbl0
      (fun w s hw => hfresh w s ((List.prefix_append v [0]).trans hw))
    generalize hL : (postorderNodes l (v ++ [0])).foldl (processNode r c S) tbl0 = tblL at frL rowsL
    have hfreshR : ∀ w s, v ++ [1] <+: w → tblL.get (w, s) = none := by
      intro w s hw
      rw [frL w s (not_prefix_sibling (by decide) hw)]
      exact hfresh w s ((List.prefix_append v [1]).trans hw)
    obtain ⟨frR, rowsR⟩ := ihr (v ++ [1]) tblL hfreshR
    generalize hR : (postorderNodes r' (v ++ [1])).foldl (processNode r c S) tblL = tblR at frR rowsR
    have hfreshV : ∀ s, tblR.get (v, s) = none := by
      intro s
      rw [frR v s (not_child_prefix_self v 1), frL v s (not_child_prefix_self v 0)]
      exact hfresh v s (List.prefix_refl v)
    have hloop := loopR_get r c S v (fun x => tblR.value (v ++ [0], x))
      (fun x => tblR.value (v ++ [1], x)) S.postorder (Layout.postorder_nodup S) tblR
      (fun _ => rfl) (fun _ => rfl)
    have hproc : processNode r c S tblR (v, .node l r') = S.postorder.foldl (stepR r c S v) tblR := rfl
    rw [hproc]
    -- rows other than `v` are those of `tblR`
    have hother : ∀ w s, w ≠ v → (S.postorder.foldl (stepR r c S v) tblR).get (w, s) = tblR.get (w, s) := by
      intro w s hw
      rw [hloop (w, s), if_neg (fun h => hw h.1)]
    constructor
    · intro w s hw
      have hwv : w ≠ v := fun h => hw (h ▸ List.prefix_refl _)
      rw [hother w s hwv]
      rw [frR w s (fun h => hw ((List.prefix_append v [1]).trans h)),
        frL w s (fun h => hw ((List.prefix_append v [0]).trans h))]
    · intro p hp
      simp only [List.mem_append, List.mem_singleton] at hp
      rcases hp with (hp | hp) | hp
      · have hpre := prefix_of_mem_postorderNodes l _ p hp
        refine RowSpec_congr (fun w' s hw' => ?_) (rowsL p hp)
        have hpre' : v ++ [0] <+: w' := hpre.trans hw'
        have hne : w' ≠ v := fun h => not_child_prefix_self v 0 (h ▸ hpre')
        rw [hother w' s hne]
        exact frR _ s (not_prefix_sibling (by decide) hpre')
      · have hpre := prefix_of_mem_postorderNodes r' _ p hp
        refine RowSpec_congr (fun w' s hw' => ?_) (rowsR p hp)
        have hpre' : v ++ [1] <+: w' := hpre.trans hw'
        have hne : w' ≠ v := fun h => not_child_prefix_self v 1 (h ▸ hpre')
        exact hother w' s hne
      · subst hp
        intro s
        have h0 : (fun x => (S.postorder.foldl (stepR r c S v) tblR).value (v ++ [0], x)) =
            fun x => tblR.value (v ++ [0], x) := by
          funext x; simp only [Table.value]; rw [hother _ x (ne_child v 0)]
        have h1 : (fun x => (S.postorder.foldl (stepR r c S v) tblR).value (v ++ [1], x)) =
            fun x => tblR.value (v ++ [1], x) := by
          funext x; simp only [Table.value]; rw [hother _ x (ne_child v 1)]
        show (S.postorder.foldl (stepR r c S v) tblR).get (v, s) = _
        rw [h0, h1, hloop (v, s), hfreshV s]
        by_cases hs : s ∈ S.postorder <;> simp [hs]

/-- **The table of `_compute_thl_table` solves the recurrence**, for every
    retention policy. -/
theorem computeTable_rec (r : Retain) (c : Costs) (S : RTree) (o : OTree) :
    Rows r c S (computeTable r c S o) o [] :=
  (process_rec r c S o [] Table.empty (fun _ _ _ => rfl)).2

/-! ### The batches of the two runs -/

theorem aggOf_anySub (xs : List Path) (w : Path → ExtInt) :
    AnySub .min (aggOf .any xs w) (aggOf .all xs w) :=
  Inv.anySub (aggOf_inv .any xs w) (aggOf_inv .all xs w) (BRel.refl _)

theorem comb_bRel (xs ys : List Path) (wa wb : Path → ExtInt) (k : ExtInt) :
    BRel (cands ((aggOf .any xs wa).combine (aggOf .any ys wb) (combinator k)))
      (cands ((aggOf .all xs wa).combine (aggOf .all ys wb) (combinator k))) :=
  cands_bRel (combine_anySub (aggOf_anySub xs wa) (aggOf_anySub ys wb) (combinator k)
    (fun a b => k + a + b) MappingInfo.mk (fun _ _ _ _ => rfl))

theorem speBatch_bRel (c : Costs) (S : RTree) (s : Path) (gl gr : Path → ExtInt) :
    BRel (speBatch .any c S s gl gr) (speBatch .all c S s gl gr) :=
  (comb_bRel ..).append (comb_bRel ..)

theorem dtBatch_bRel (c : Costs) (S : RTree) (s : Path) (gl gr : Path → ExtInt) :
    BRel (dtBatch .any c S s gl gr) (dtBatch .all c S s gl gr) :=
  ((comb_bRel ..).append (comb_bRel ..)).append (comb_bRel ..)

theorem batches_bRels (c : Costs) (S : RTree) (s : Path) (gl gr : Path → ExtInt) :
    BRels (batches .any c S s gl gr) (batches .all c S s gl gr) := by
  unfold batches
  cases S.isLeafAt s
  · exact .cons (speBatch_bRel c S s gl gr) (.cons (dtBatch_bRel c S s gl gr) .nil)
  · exact .cons (dtBatch_bRel c S s gl gr) .nil

/-! ### The two tables -/

/-- **Every cell of the ANY table against the cell of the ALL table.** -/
theorem cellRel_rows (c : Costs) (S : RTree) (tA tL : Table) : ∀ (t : OTree) (w : Path),
    Rows .any c S tA t w → Rows .all c S tL t w →
    ∀ s, CellRel .min (tA.get (w, s)) (tL.get (w, s)) := by
  intro t
  induction t with
  | leaf sp f =>
    intro w hA hL s
    rw [hA.root s, hL.root s]
    split
    · exact cellRel_update .none (BRel.refl _)
    · exact .none
  | node l r ihl ihr =>
    intro w hA hL s
    have h0 : (fun x => tA.value (w ++ [0], x)) = fun x => tL.value (w ++ [0], x) :=
      funext fun x => (ihl _ hA.left hL.left x).value
    have h1 : (fun x => tA.value (w ++ [1], x)) = fun x => tL.value (w ++ [1], x) :=
      funext fun x => (ihr _ hA.right hL.right x).value
    rw [hA.root s, hL.root s, h0, h1]
    split
    · exact cellRel_foldl (batches_bRels ..) .none
    · exact .none

/-- Every mapping decoded from the ANY table is decoded from the ALL table. -/
theorem decode_sub (c : Costs) (S : RTree) (tA tL : Table) : ∀ (t : OTree) (w : Path),
    Rows .any c S tA t w → Rows .all c S tL t w →
    ∀ s, ∀ sol ∈ decode tA t w s, sol ∈ decode tL t w s := by
  intro t
  induction t with
  | leaf sp f =>
    intro w hA hL s sol hsol
    have hv : tA.value (w, s) = tL.value (w, s) := (cellRel_rows c S tA tL _ w hA hL s).value
    simp only [decode] at hsol ⊢
    rw [← hv]; exact hsol
  | node l r ihl ihr =>
    intro w hA hL s sol hsol
    have hrel := cellRel_rows c S tA tL _ w hA hL s
    simp only [decode, List.mem_flatMap, List.mem_map] at hsol ⊢
    obtain ⟨info, hi, ml, hml, mr, hmr, rfl⟩ := hsol
    exact ⟨info, hrel.infos_sub info hi, ml, ihl _ hA.left hL.left _ ml hml,
      mr, ihr _ hA.right hL.right _ mr hmr, rfl⟩

/-- A cell from which something is decoded is instantiated. -/
theorem get_ne_none_of_decode (tbl : Table) (t : OTree) (w s : Path) (h : decode tbl t w s ≠ []) :
    tbl.get (w, s) ≠ none := by
  intro hn
  apply h
  cases t with
  | leaf sp f => simp [decode, Table.value, hn, Cell.value, ExtInt.isInfinite]
  | node l r => simp [decode, Table.infos, hn, Cell.infos]

/-! ### Provenance of the tags (every retention policy) -/

theorem cands_combine_prov (r : Retain) (xs ys : List Path) (wa wb : Path → ExtInt) (k : ExtInt)
    (cnd : Cand MappingInfo)
    (h : cnd ∈ cands ((aggOf r xs wa).combine (aggOf r ys wb) (combinator k))) :
    ∃ x y, cnd.info = some ⟨x, y⟩ ∧ cnd.value = k + wa x + wb y := by
  obtain ⟨t, ht, rfl⟩ := List.mem_map.mp h
  obtain ⟨x, hx, y, hy, rfl, hv⟩ := combine_sound (aggOf r xs wa) (aggOf r ys wb) (combinator k)
    (fun a b => k + a + b) MappingInfo.mk (fun _ _ _ _ => rfl) t ht
  obtain ⟨cx, hcx, hx1, hx2⟩ := Inv.sound (aggOf_inv r xs wa) x hx
  obtain ⟨cy, hcy, hy1, hy2⟩ := Inv.sound (aggOf_inv r ys wb) y hy
  obtain ⟨x', _, rfl⟩ := List.mem_map.mp hcx
  obtain ⟨y', _, rfl⟩ := List.mem_map.mp hcy
  simp only [Option.some.injEq] at hx1 hy1
  subst hx1; subst hy1
  refine ⟨x', y', rfl, ?_⟩
  show ((aggOf r xs wa).combine (aggOf r ys wb) (combinator k)).value = _
  rw [hv, ← hx2, ← hy2]

/-- Every candidate written to a cell of an internal node carries a tag, and if
    its value is not `+inf` both tagged child cells have a value other than `+inf`. -/
theorem batches_prov (r : Retain) (c : Costs) (S : RTree) (s : Path) (gl gr : Path → ExtInt) :
    ∀ cnd ∈ (batches r c S s gl gr).flatten, ∃ x y, cnd.info = some ⟨x, y⟩ ∧
      (cnd.value ≠ .posInf → gl x ≠ .posInf ∧ gr y ≠ .posInf) := by
  have key : ∀ (xs ys : List Path) (ka kb : Path → ExtInt) (k : ExtInt) (cnd : Cand MappingInfo),
      cnd ∈ cands ((aggOf r xs fun x => gl x + ka x).combine (aggOf r ys fun x => gr x + kb x)
        (combinator k)) →
      ∃ x y, cnd.info = some ⟨x, y⟩ ∧ (cnd.value ≠ .posInf → gl x ≠ .posInf ∧ gr y ≠ .posInf) := by
    intro xs ys ka kb k cnd h
    obtain ⟨x, y, hi, hv⟩ := cands_combine_prov r xs ys _ _ k cnd h
    refine ⟨x, y, hi, fun hne => ?_⟩
    rw [hv] at hne
    obtain ⟨h1, h2⟩ := AnyCode.add_ne_posInf hne
    exact ⟨(AnyCode.add_ne_posInf (AnyCode.add_ne_posInf h1).2).1, (AnyCode.add_ne_posInf h2).1⟩
  have key0 : ∀ (xs ys : List Path) (ka : Path → ExtInt) (k : ExtInt) (cnd : Cand MappingInfo),
      cnd ∈ cands ((aggOf r xs fun x => gl x + ka x).combine (aggOf r ys gr) (combinator k)) →
      ∃ x y, cnd.info = some ⟨x, y⟩ ∧ (cnd.value ≠ .posInf → gl x ≠ .posInf ∧ gr y ≠ .posInf) := by
    intro xs ys ka k cnd h
    obtain ⟨x, y, hi, hv⟩ := cands_combine_prov r xs ys _ _ k cnd h
    refine ⟨x, y, hi, fun hne => ?_⟩
    rw [hv] at hne
    obtain ⟨h1, h2⟩ := AnyCode.add_ne_posInf hne
    exact ⟨(AnyCode.add_ne_posInf (AnyCode.add_ne_posInf h1).2).1, h2⟩
  have key1 : ∀ (xs ys : List Path) (kb : Path → ExtInt) (k : ExtInt) (cnd : Cand MappingInfo),
      cnd ∈ cands ((aggOf r xs gl).combine (aggOf r ys fun x => gr x + kb x) (combinator k)) →
      ∃ x y, cnd.info = some ⟨x, y⟩ ∧ (cnd.value ≠ .posInf → gl x ≠ .posInf ∧ gr y ≠ .posInf) := by
    intro xs ys kb k cnd h
    obtain ⟨x, y, hi, hv⟩ := cands_combine_prov r xs ys _ _ k cnd h
    refine ⟨x, y, hi, fun hne => ?_⟩
    rw [hv] at hne
    obtain ⟨h1, h2⟩ := AnyCode.add_ne_posInf hne
    exact ⟨(AnyCode.add_ne_posInf h1).2, (AnyCode.add_ne_posInf h2).1⟩
  have hspe : ∀ cnd ∈ speBatch r c S s gl gr, ∃ x y, cnd.info = some ⟨x, y⟩ ∧
      (cnd.value ≠ .posInf → gl x ≠ .posInf ∧ gr y ≠ .posInf) := by
    intro cnd h
    simp only [speBatch, List.mem_append] at h
    rcases h with h | h
    · exact key _ _ _ _ _ cnd h
    · exact key _ _ _ _ _ cnd h
  have hdt : ∀ cnd ∈ dtBatch r c S s gl gr, ∃ x y, cnd.info = some ⟨x, y⟩ ∧
      (cnd.value ≠ .posInf → gl x ≠ .posInf ∧ gr y ≠ .posInf) := by
    intro cnd h
    simp only [dtBatch, List.mem_append] at h
    rcases h with (h | h) | h
    · exact key _ _ _ _ _ cnd h
    · exact key1 _ _ _ _ cnd h
    · exact key0 _ _ _ _ cnd h
  intro cnd h
  unfold batches at h
  cases hl : S.isLeafAt s <;> simp only [hl, Bool.false_eq_true, if_false, if_true, List.nil_append,
    List.cons_append, List.flatten_cons, List.flatten_nil, List.append_nil, List.mem_append] at h
  · rcases h with h | h
    · exact hspe cnd h
    · exact hdt cnd h
  · exact hdt cnd h

theorem leaf_cell (r : Retain) :
    Cell.update .min r (none : Cell MappingInfo) [⟨.fin 0, none⟩] =
      some { value := .fin 0, infos := [], merge := .min, retain := r } := by
  cases r <;> rfl

/-- **An instantiated cell decodes to at least one mapping** (policies ANY and ALL). -/
theorem decode_ne_nil (r : Retain) (hr : r ≠ .none) (c : Costs) (S : RTree) (tbl : Table) :
    ∀ (t : OTree) (w : Path), Rows r c S tbl t w →
    ∀ s, tbl.get (w, s) ≠ none → decode tbl t w s ≠ [] := by
  intro t
  induction t with
  | leaf sp f =>
    intro w hrows s hs
    have hrow := hrows.root s
    by_cases hsp : s = sp
    · rw [if_pos hsp, leaf_cell] at hrow
      simp [decode, Table.value, hrow, Cell.value, ExtInt.isInfinite]
    · rw [if_neg hsp] at hrow
      exact absurd hrow hs
  | node l r' ihl ihr =>
    intro w hrows s hs
    have hrow := hrows.root s
    by_cases hsp : s ∈ S.postorder
    · rw [if_pos hsp] at hrow
      obtain ⟨e, he⟩ := Option.ne_none_iff_exists'.mp hs
      rw [he] at hrow
      obtain ⟨inv, c0, hc0, hfin⟩ := cell_some_inv hrow.symm
      obtain ⟨hval, _⟩ := Inv.finite_offered inv hc0 hfin
      have hprov := batches_prov r c S s (fun x => tbl.value (w ++ [0], x))
        (fun x => tbl.value (w ++ [1], x))
      have htag : ∀ cnd ∈ (List.filter C16.writes (batches r c S s (fun x => tbl.value (w ++ [0], x))
          (fun x => tbl.value (w ++ [1], x)))).flatten, cnd.info.isSome := by
        intro cnd hc
        obtain ⟨x, y, hi, _⟩ := hprov cnd (mem_written_flatten hc)
        simp [hi]
      obtain ⟨t, ht⟩ := List.exists_mem_of_ne_nil _
        (Inv.nonempty_of_tagged inv hr htag (List.ne_nil_of_mem hc0))
      obtain ⟨cnd, hc, hi, hv⟩ := Inv.sound inv t ht
      obtain ⟨x, y, hi', hfinxy⟩ := hprov cnd (mem_written_flatten hc)
      rw [hi] at hi'
      simp only [Option.some.injEq] at hi'
      subst hi'
      obtain ⟨hx, hy⟩ := hfinxy (by rw [hv]; exact hval)
      have hgx : tbl.get (w ++ [0], x) ≠ none := by
        intro hn; apply hx; simp [Table.value, hn, Cell.value]
      have hgy : tbl.get (w ++ [1], y) ≠ none := by
        intro hn; apply hy; simp [Table.value, hn, Cell.value]
      obtain ⟨ml, hml⟩ := List.exists_mem_of_ne_nil _ (ihl _ hrows.left x hgx)
      obtain ⟨mr, hmr⟩ := List.exists_mem_of_ne_nil _ (ihr _ hrows.right y hgy)
      apply List.ne_nil_of_mem (a := Sol.node s [] ml mr)
      simp only [decode, List.mem_flatMap, List.mem_map]
      refine ⟨⟨x, y⟩, ?_, ml, hml, mr, hmr, rfl⟩
      simp only [Table.infos, he, Cell.infos]
      exact ht
    · rw [if_neg hsp] at hrow
      exact absurd hrow hs

/-! ### The result entry -/

/-- The result entry, for every retention policy, as an entry with its history. -/
theorem reconcile_inv (r : Retain) (c : Costs) (S : RTree) (o : OTree) :
    Entry.Inv .min r
      (outCands (fun out => (recCost c o out).toExt) S.levelorder
        (fun s => decode (computeTable r c S o) o [] s))
      (reconcile r c S o) := by
  have : reconcile r c S o = Entry.update (Entry.init .min r)
      (outCands (fun out => (recCost c o out).toExt) S.levelorder
        (fun s => decode (computeTable r c S o) o [] s)) := by
    unfold reconcile outCands
    generalize S.levelorder = ss
    generalize (Entry.init Merge.min r : Entry Sol) = e0
    induction ss generalizing e0 with
    | nil => rfl
    | cons s ss ih =>
      simp only [List.foldl_cons, List.flatMap_cons]
      rw [ih, Entry.update_append]
  rw [this]
  simpa using Entry.inv_update (Entry.inv_init (τ := Sol) .min r) _

/-- Decodings of the root cells under the two policies. -/
theorem root_decodings (c : Costs) (S : RTree) (o : OTree) (s : Path) :
    (∀ sol ∈ decode (computeTable .any c S o) o [] s, sol ∈ decode (computeTable .all c S o) o [] s) ∧
    (decode (computeTable .all c S o) o [] s ≠ [] → decode (computeTable .any c S o) o [] s ≠ []) := by
  have hA := computeTable_rec .any c S o
  have hL := computeTable_rec .all c S o
  refine ⟨decode_sub c S _ _ o [] hA hL s, fun h => ?_⟩
  apply decode_ne_nil .any (by simp) c S _ o [] hA s
  intro hn
  exact get_ne_none_of_decode _ o [] s h ((cellRel_rows c S _ _ o [] hA hL s).isNone.mp hn)

/-- **The two result entries**: at most one ANY solution, none iff ALL has none;
    if the evaluated cost is constant on the decodings of each root cell, same
    value and the ANY solution is one of the ALL solutions. -/
theorem reconcile_rel (c : Costs) (S : RTree) (o : OTree) :
    (thlCodeAny c S o).length ≤ 1 ∧ (thlCodeAny c S o = [] ↔ thlCode c S o = []) ∧
    ((∀ s ∈ S.levelorder, ∀ x ∈ decode (computeTable .all c S o) o [] s,
        ∀ y ∈ decode (computeTable .all c S o) o [] s, recCost c o x = recCost c o y) →
      (reconcile .any c S o).value = (reconcile .all c S o).value ∧
      ∀ sol ∈ thlCodeAny c S o, sol ∈ thlCode c S o) := by
  obtain ⟨h1, h2, h3⟩ := result_rel (fun out => (recCost c o out).toExt) S.levelorder
    (fun s => decode (computeTable .any c S o) o [] s)
    (fun s => decode (computeTable .all c S o) o [] s)
    (fun s _ => (root_decodings c S o s).1) (fun s _ => (root_decodings c S o s).2)
    _ _ (reconcile_inv .any c S o) (reconcile_inv .all c S o)
  refine ⟨h1, h2, fun hu => h3 ?_⟩
  intro s hs x hx y hy
  rw [hu s hs x hx y hy]

end ThlCode

end SR
