/-
  Bridge between the two aggregation idioms:

  * the code-structured model (`Model/SpfsCode.lean`) aggregates with the C16 model
    of `Entry.update` / `Entry.combine` / `EntryProxy.update` over Python numbers
    (`ExtInt`);
  * the label-DP model (`Model/LabelDP.lean`) aggregates with `Agg` / `Cost.minList`
    over `Cost`.

  `transfer` : an entry that was offered candidates `cs` and a list `xs` of
  (cost, tag) pairs carrying the same FINITE candidates have the same value
  (`Cost.toExt`) and, when that value is finite, the same tags.
  `mem_combine_cands` : what `a.combine(b, _make_event_combinator(ev))` iterates to.
-/
import SRVerif.Model.SpfsCode
import SRVerif.Proofs.Entry
import SRVerif.Proofs.Agg

namespace SR

open Cost

namespace Cost

@[simp] theorem toExt_fin (n : Nat) : (Cost.fin n).toExt = ExtInt.fin (n : Int) := rfl
@[simp] theorem toExt_inf : Cost.inf.toExt = ExtInt.posInf := rfl

theorem toExt_add (a b : Cost) : (a + b).toExt = a.toExt + b.toExt := by
  cases a <;> cases b <;> simp [Cost.add_def, Cost.add, Cost.toExt] <;> rfl

theorem toExt_inj {a b : Cost} (h : a.toExt = b.toExt) : a = b := by
  cases a <;> cases b <;> simp_all [Cost.toExt] <;> omega

theorem toExt_eq_posInf {a : Cost} : a.toExt = .posInf ↔ a = .inf := by
  cases a <;> simp [Cost.toExt]

theorem toExt_ne_negInf (a : Cost) : a.toExt ≠ .negInf := by
  cases a <;> simp [Cost.toExt]

theorem toExt_lt (a b : Cost) : ExtInt.lt a.toExt b.toExt = Cost.lt a b := by
  cases a <;> cases b <;> simp [Cost.toExt, ExtInt.lt, Cost.lt]

theorem toExt_isInfinite (a : Cost) : a.toExt.isInfinite = a.isInf := by
  cases a <;> rfl

end Cost

namespace ExtInt

theorem fin_add_fin (a b : Int) : (ExtInt.fin a + ExtInt.fin b) = ExtInt.fin (a + b) := rfl

theorem lt_posInf_false {w : ExtInt} (h : ExtInt.lt w .posInf = false) : w = .posInf := by
  cases w <;> simp_all [ExtInt.lt]

end ExtInt

section transfer

variable {τ : Type}

/-- **Transfer.**  `e` was offered exactly `cs` (MIN / ALL); every candidate of `cs` is a pair of
    `xs` (same tag, value `toExt`), and every FINITE pair of `xs` is a candidate of `cs`.  Then `e`
    holds the minimum of `xs`, and when it is finite, exactly the tags attaining it. -/
theorem transfer {cs : List (Cand τ)} {e : Entry τ} {xs : List (Cost × τ)}
    (inv : Entry.Inv .min .all cs e)
    (h1 : ∀ c ∈ cs, ∃ p ∈ xs, c.value = p.1.toExt ∧ c.info = some p.2)
    (h2 : ∀ p ∈ xs, p.1 ≠ .inf → ∃ c ∈ cs, c.value = p.1.toExt ∧ c.info = some p.2) :
    e.value = (Cost.minList (xs.map (·.1))).toExt ∧
    (Cost.minList (xs.map (·.1)) ≠ .inf →
      ∀ t, t ∈ e.infos ↔ ∃ p ∈ xs, p.2 = t ∧ p.1 = Cost.minList (xs.map (·.1))) := by
  have hlow : ∀ p ∈ xs, Cost.minList (xs.map (·.1)) ≼ p.1 :=
    fun p hp => Cost.minList_le (List.mem_map.mpr ⟨p, hp, rfl⟩)
  have hval : e.value = (Cost.minList (xs.map (·.1))).toExt := by
    cases hm : Cost.minList (xs.map (·.1)) with
    | inf =>
      rcases inv.attained with h | ⟨c, hc, h⟩
      · simpa [Entry.sentinel] using h
      · obtain ⟨p, hp, hv, _⟩ := h1 c hc
        have := hlow p hp
        rw [hm, Cost.inf_le] at this
        rw [← h, hv, this]
    | fin n =>
      have hmem : Cost.fin n ∈ xs.map (·.1) := by
        rcases Cost.minList_mem_or_inf (xs.map (·.1)) with h | h
        · rw [hm] at h; cases h
        · rwa [hm] at h
      obtain ⟨p, hp, hpn⟩ := List.mem_map.mp hmem
      obtain ⟨c0, hc0, hv0, _⟩ := h2 p hp (by rw [hpn]; simp)
      have hopt := inv.optimal c0 hc0
      rw [hv0, hpn] at hopt
      simp only [Entry.better, Cost.toExt_fin] at hopt
      rcases inv.attained with h | ⟨c, hc, h⟩
      · rw [h] at hopt; simp [Entry.sentinel, ExtInt.lt] at hopt
      · obtain ⟨q, hq, hv, _⟩ := h1 c hc
        have hle := hlow q hq
        rw [hm] at hle
        rw [← h, hv] at hopt ⊢
        cases hq1 : q.1 with
        | inf => rw [hq1] at hopt; simp [Cost.toExt, ExtInt.lt] at hopt
        | fin k =>
          rw [hq1] at hopt hle
          simp only [Cost.toExt_fin, ExtInt.lt, decide_eq_false_iff_not] at hopt
          rw [Cost.fin_le_fin] at hle
          simp only [Cost.toExt_fin]
          congr 1
          omega
  refine ⟨hval, ?_⟩
  intro hfin t
  rw [inv.all rfl t]
  constructor
  · rintro ⟨c, hc, hi, hv⟩
    obtain ⟨p, hp, hv', hi'⟩ := h1 c hc
    rw [hi] at hi'
    injection hi' with hi'
    refine ⟨p, hp, hi'.symm, ?_⟩
    apply Cost.toExt_inj
    rw [← hv', hv, hval]
  · rintro ⟨p, hp, rfl, hv⟩
    obtain ⟨c, hc, hv', hi'⟩ := h2 p hp (by rw [hv]; exact hfin)
    exact ⟨c, hc, hi', by rw [hv', hval, hv]⟩

/-- With finite candidates only, an infinite value means that nothing was retained. -/
theorem infos_nil_of_inf {cs : List (Cand τ)} {e : Entry τ}
    (inv : Entry.Inv .min .all cs e) (hfin : ∀ c ∈ cs, c.value ≠ .posInf)
    (hv : e.value = .posInf) : e.infos = [] := by
  apply List.eq_nil_iff_forall_not_mem.mpr
  intro t ht
  obtain ⟨c, hc, _, h⟩ := (inv.all rfl t).mp ht
  exact hfin c hc (h.trans hv)

end transfer

/-! ### `Entry.combine` with `_make_event_combinator` -/

namespace SpfsCode

theorem mem_cands {τ : Type} {e : Entry τ} {c : Cand τ} :
    c ∈ e.cands ↔ ∃ t ∈ e.infos, c = ⟨e.value, some t⟩ := by
  simp only [Entry.cands, List.mem_map]
  constructor
  · rintro ⟨t, ht, rfl⟩; exact ⟨t, ht, rfl⟩
  · rintro ⟨t, ht, rfl⟩; exact ⟨t, ht, rfl⟩

/-- The candidates `*a.combine(b, comb)` unpacks to: one per pair of retained tags, all with
    the value `ev + a.value + b.value`. -/
theorem mem_combine_cands {a b : Entry OAsg} (hm : a.merge = .min) (hr : a.retain = .all)
    (ev : ExtInt) (c : Cand CAsg) :
    c ∈ (a.combine b (eventComb ev)).cands ↔
      ∃ x ∈ a.infos, ∃ y ∈ b.infos, c = ⟨ev + a.value + b.value, some (x, y)⟩ := by
  have inv : Entry.Inv .min .all
      ((a.infos.flatMap (fun x => b.infos.map (fun y => (x, y)))).map
        (fun p => eventComb ev a.value p.1 b.value p.2))
      (a.combine b (eventComb ev)) := by
    have := Entry.inv_update (Entry.inv_init (τ := CAsg) .min .all)
      ((a.infos.flatMap (fun x => b.infos.map (fun y => (x, y)))).map
        (fun p => eventComb ev a.value p.1 b.value p.2))
    simpa [Entry.combine, hm, hr] using this
  have hmemP : ∀ c' : Cand CAsg,
      c' ∈ (a.infos.flatMap (fun x => b.infos.map (fun y => (x, y)))).map
        (fun p => eventComb ev a.value p.1 b.value p.2) ↔
      ∃ x ∈ a.infos, ∃ y ∈ b.infos, c' = ⟨ev + a.value + b.value, some (x, y)⟩ := by
    intro c'
    simp only [List.mem_map, List.mem_flatMap, eventComb]
    constructor
    · rintro ⟨⟨x, y⟩, ⟨x', hx', y', hy', hxy⟩, rfl⟩
      cases hxy
      exact ⟨x, hx', y, hy', rfl⟩
    · rintro ⟨x, hx, y, hy, rfl⟩
      exact ⟨(x, y), ⟨x, hx, y, hy, rfl⟩, rfl⟩
  rw [mem_cands]
  constructor
  · rintro ⟨t, ht, rfl⟩
    obtain ⟨c', hc', hi, hv⟩ := (inv.all rfl t).mp ht
    obtain ⟨x, hx, y, hy, rfl⟩ := (hmemP c').mp hc'
    simp only at hi hv
    injection hi with hi
    exact ⟨x, hx, y, hy, by rw [← hv, hi]⟩
  · rintro ⟨x, hx, y, hy, rfl⟩
    have hc' : (⟨ev + a.value + b.value, some (x, y)⟩ : Cand CAsg) ∈ _ :=
      (hmemP _).mpr ⟨x, hx, y, hy, rfl⟩
    have hv : (a.combine b (eventComb ev)).value = ev + a.value + b.value := by
      rcases inv.attained with h | ⟨c'', hc'', h⟩
      · have hopt := inv.optimal _ hc'
        rw [h] at hopt
        simp only [Entry.better, Entry.sentinel] at hopt
        rw [h]
        exact (ExtInt.lt_posInf_false hopt).symm
      · obtain ⟨_, _, _, _, rfl⟩ := (hmemP c'').mp hc''
        exact h.symm
    refine ⟨(x, y), (inv.all rfl _).mpr ⟨_, hc', rfl, hv.symm⟩, by rw [hv]⟩

end SpfsCode

end SR
