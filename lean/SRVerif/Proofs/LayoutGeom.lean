/-
  Geometry of the VERTICAL layout pass under positive node sizes and
  non-negative parameters (used by `SR.C14.C14_siblings`, `C14_trunk_inside`,
  `C14_trunk_above_children`, `C14_trunks`, `C14_species`); the HORIZONTAL
  results are obtained through the mirror theorem `computeH_tr`
  (`computeH_facts`: the transposed HORIZONTAL output satisfies `FactsV`).

  Phases: `minOf`/`maxOf` bounds; the branch loop only produces rects of the
  measured size; after the padding shift every rect ends before `-pad`
  (`GoodLay`); trunk dimensions are non-negative; invariant `GoodV` of the
  size pass (`InfoOK`, `ChildOK`); the placement pass node by node
  (`nodeAtV`, `mem_placeV`, `BoxIn`, `ChildBoxes`); assembly (`FactsV`); one
  `SubLayout` per species in pre-order (`computeV_species`).
-/
import SRVerif.Proofs.LayoutMirror
import Mathlib.Tactic.Linarith
import Mathlib.Algebra.Order.Field.Rat

namespace SR.Layout

/-! ## `min(...)`, `max(...)` over sequences -/

theorem foldl_min_le (t : List Rat) (a : Rat) :
    t.foldl min a ≤ a ∧ ∀ x ∈ t, t.foldl min a ≤ x := by
  induction t generalizing a with
  | nil => simp
  | cons b t ih =>
    simp only [List.foldl_cons, List.mem_cons, forall_eq_or_imp]
    obtain ⟨h1, h2⟩ := ih (min a b)
    exact ⟨le_trans h1 (min_le_left a b), le_trans h1 (min_le_right a b), h2⟩

theorem le_foldl_max (t : List Rat) (a : Rat) :
    a ≤ t.foldl max a ∧ ∀ x ∈ t, x ≤ t.foldl max a := by
  induction t generalizing a with
  | nil => simp
  | cons b t ih =>
    simp only [List.foldl_cons, List.mem_cons, forall_eq_or_imp]
    obtain ⟨h1, h2⟩ := ih (max a b)
    exact ⟨le_trans (le_max_left a b) h1, le_trans (le_max_right a b) h1, h2⟩

theorem minOf_le {l : List Rat} {a : Rat} (h : a ∈ l) : minOf l ≤ a := by
  cases l with
  | nil => cases h
  | cons b t =>
    rcases List.mem_cons.1 h with rfl | h
    · exact (foldl_min_le t a).1
    · exact (foldl_min_le t b).2 a h

theorem le_maxOf {l : List Rat} {a : Rat} (h : a ∈ l) : a ≤ maxOf l := by
  cases l with
  | nil => cases h
  | cons b t =>
    rcases List.mem_cons.1 h with rfl | h
    · exact (le_foldl_max t a).1
    · exact (le_foldl_max t b).2 a h

/-! ## The branch loop only produces rects of the measured size -/

def RectsSized (sizes : Key → Size) (rects : List (Key × Rect)) : Prop :=
  ∀ e ∈ rects, e.2.w = (sizes e.1).w ∧ e.2.h = (sizes e.1).h

theorem stepV_rects {P : Params} {sizes : Key → Size} {an : List Key} {bs bs' : BState}
    {b : Branch} (h : stepV P sizes an bs b = .ok bs') :
    ∃ pos, bs'.rects = bs.rects ++ [(b.key, Rect.makeFrom pos (sizes b.key))] := by
  obtain ⟨key, kind, left, right⟩ := b
  cases kind
  case leaf => simp only [stepV] at h; cases h; exact ⟨_, rfl⟩
  case spec => simp only [stepV] at h; cases h; exact ⟨_, rfl⟩
  case loss => simp only [stepV] at h; cases h; exact ⟨_, rfl⟩
  case dup =>
    simp only [stepV] at h
    cases h1 : rectOf bs.rects left <;> cases h2 : rectOf bs.rects right <;>
      simp only [h1, h2] at h <;> first | (cases h; exact ⟨_, rfl⟩) | cases h
  case hgt =>
    simp only [stepV] at h
    cases h1 : rectOf bs.rects left <;>
      simp only [h1] at h <;> first | (cases h; exact ⟨_, rfl⟩) | cases h

theorem foldE_stepV_sized {P : Params} {sizes : Key → Size} {an : List Key} (bl : List Branch)
    {bs bs' : BState} (h : foldE (stepV P sizes an) bl bs = .ok bs')
    (h0 : RectsSized sizes bs.rects) : RectsSized sizes bs'.rects := by
  induction bl generalizing bs with
  | nil => simp only [foldE] at h; cases h; exact h0
  | cons b t ih =>
    simp only [foldE] at h
    cases hs : stepV P sizes an bs b with
    | error e => rw [hs] at h; cases h
    | ok bs1 =>
      rw [hs] at h
      refine ih h ?_
      obtain ⟨pos, hr⟩ := stepV_rects hs
      rw [hr]
      intro e he
      rcases List.mem_append.1 he with he | he
      · exact h0 e he
      · simp only [List.mem_singleton] at he
        subst he
        exact ⟨rfl, rfl⟩

/-! ## `_layout_branches`: after the padding shift every rect ends before `-pad` -/

/-- What `_layout_branches` guarantees for the relative rects of a species. -/
def GoodLay (P : Params) (sizes : Key → Size) (lay : SpLayout) : Prop :=
  ∀ e ∈ lay.rects, e.2.w = (sizes e.1).w ∧ e.2.h = (sizes e.1).h ∧ e.2.x + e.2.w ≤ -P.pad

theorem layoutBranchesV_good {P : Params} {sizes : Key → Size} {st : SpState} {lay : SpLayout}
    (h : layoutBranchesV P sizes st = .ok lay) : GoodLay P sizes lay := by
  unfold layoutBranchesV at h
  cases hf : foldE (stepV P sizes st.anchors) st.branches ⟨0, P.pad, [], []⟩ with
  | error e => rw [hf] at h; cases h
  | ok bs =>
    rw [hf] at h
    have hs : RectsSized sizes bs.rects :=
      foldE_stepV_sized st.branches hf (by intro e he; cases he)
    simp only at h
    split at h
    · rename_i hemp
      cases h
      have : st.branches = [] := by simpa using hemp
      rw [this] at hf
      simp only [foldE] at hf
      cases hf
      intro e he
      cases he
    · cases h
      intro e he
      simp only [shiftRects, List.mem_map] at he
      obtain ⟨e0, he0, rfl⟩ := he
      obtain ⟨hw, hh⟩ := hs e0 he0
      refine ⟨hw, hh, ?_⟩
      have hm : minOf (bs.rects.map fun e => -(e.2.right.x)) ≤ -(e0.2.right.x) :=
        minOf_le (List.mem_map.2 ⟨e0, he0, rfl⟩)
      generalize minOf (bs.rects.map fun e => -(e.2.right.x)) = m at hm ⊢
      simp only [Rect.right] at hm
      simp only [Rect.shift]
      linarith

theorem layoutAllV_good {P : Params} {sizes : Key → Size} (st : LState)
    {lays : List (Path × SpLayout)} (h : layoutAllV P sizes st = .ok lays)
    {p : Path} {lay : SpLayout} (hl : lookupSp lays p = some lay) : GoodLay P sizes lay := by
  induction st generalizing lays with
  | nil => simp only [layoutAllV] at h; cases h; cases hl
  | cons a t ih =>
    obtain ⟨s, sp⟩ := a
    simp only [layoutAllV] at h
    cases h1 : layoutBranchesV P sizes sp with
    | error e => rw [h1] at h; cases layoutAllV P sizes t <;> cases h
    | ok l =>
      cases h2 : layoutAllV P sizes t with
      | error e => rw [h1, h2] at h; cases h
      | ok ls =>
        rw [h1, h2] at h
        cases h
        simp only [lookupSp] at hl
        split at hl
        · cases hl; exact layoutBranchesV_good h1
        · exact ih h2 hl

/-! ## Trunk dimensions are non-negative -/

theorem trunkDimsV_nonneg {P : Params} {sizes : Key → Size} {lay : SpLayout}
    (hpos : ∀ k, 0 < (sizes k).w ∧ 0 < (sizes k).h) (hpad : 0 ≤ P.pad) (hov : 0 ≤ P.overhead)
    (hg : GoodLay P sizes lay) :
    0 ≤ (trunkDimsV P lay.rects).1 ∧ 0 ≤ (trunkDimsV P lay.rects).2.1 ∧
      0 ≤ (trunkDimsV P lay.rects).2.2 := by
  unfold trunkDimsV
  cases hr : lay.rects with
  | nil => simp [hov]
  | cons e t =>
    simp only [List.isEmpty_cons, Bool.false_eq_true, ↓reduceIte]
    have he : e ∈ lay.rects := by rw [hr]; simp
    obtain ⟨hw, _, hx⟩ := hg e he
    have hwp := (hpos e.1).1
    have h1 : -(e.2.topLeft.x) ≤ maxOf ((e :: t).map fun e => -(e.2.topLeft.x)) :=
      le_maxOf (List.mem_map.2 ⟨e, by simp, rfl⟩)
    simp only [Rect.topLeft] at h1
    refine ⟨?_, ?_, ?_⟩
    · simp only [Rect.topLeft]; linarith
    · have := le_max_left (0 : Rat) (maxOf ((e :: t).map fun e => -(e.2.topLeft.y)))
      linarith
    · have := le_max_left (0 : Rat) (maxOf ((e :: t).map fun e => e.2.bottomRight.y))
      linarith

/-! ## The size pass: invariant of the `ITree` -/

/-- Facts about one species after the size pass (VERTICAL; coordinates
    relative to the species' own box). -/
structure InfoOK (i : Info) (p : Path) : Prop where
  sp : i.sp = p
  w : 0 ≤ i.size.w
  h : 0 ≤ i.size.h
  tx : 0 ≤ i.trunk.x
  txw : i.trunk.x + i.trunk.w ≤ i.size.w
  ty : i.trunk.y = 0
  tw : 0 ≤ i.trunk.w
  th : 0 ≤ i.trunk.h
  thle : i.trunk.h ≤ i.size.h
  fork : 0 ≤ i.fork

/-- Placement of the two children's boxes inside the parent's box. -/
structure ChildOK (P : Params) (i l r : Info) : Prop where
  lx : i.leftPos.x = 0
  ly : i.trunk.h + P.level + i.fork ≤ i.leftPos.y
  lh : i.leftPos.y + l.size.h = i.size.h
  sep : i.leftPos.x + l.size.w + P.minsp ≤ i.rightPos.x
  rw : i.rightPos.x + r.size.w = i.size.w
  ry : i.trunk.h + P.level + i.fork ≤ i.rightPos.y
  rh : i.rightPos.y + r.size.h = i.size.h

def GoodV (P : Params) : ITree → Path → Prop
  | .leaf i, p => InfoOK i p
  | .node i l r, p =>
    InfoOK i p ∧ ChildOK P i l.info r.info ∧ GoodV P l (p ++ [0]) ∧ GoodV P r (p ++ [1])

theorem GoodV.info {P : Params} {t : ITree} {p : Path} (h : GoodV P t p) : InfoOK t.info p := by
  cases t with
  | leaf i => exact h
  | node i l r => exact h.1

theorem sizesV_good {P : Params} {sizes : Key → Size} {lays : Path → Option SpLayout}
    (hpos : ∀ k, 0 < (sizes k).w ∧ 0 < (sizes k).h) (hpad : 0 ≤ P.pad) (hov : 0 ≤ P.overhead)
    (hlev : 0 ≤ P.level) (hmin : 0 < P.minsp)
    (hlays : ∀ p lay, lays p = some lay → GoodLay P sizes lay)
    (B : BTree) (p : Path) (t : ITree) (h : sizesV P lays B p = .ok t) : GoodV P t p := by
  induction B generalizing p t with
  | leaf =>
    simp only [sizesV] at h
    cases hl : lays p with
    | none => rw [hl] at h; cases h
    | some lay =>
      rw [hl] at h
      simp only at h
      obtain ⟨h1, h2, _⟩ := trunkDimsV_nonneg hpos hpad hov (hlays p lay hl)
      generalize trunkDimsV P lay.rects = d at h h1 h2
      obtain ⟨tw, th, fk⟩ := d
      simp only at h h1 h2
      cases h
      constructor <;> simp only [Rect.makeFrom] <;> linarith
  | node a b iha ihb =>
    simp only [sizesV] at h
    cases h1 : sizesV P lays a (p ++ [0]) with
    | error e => rw [h1] at h; cases h
    | ok lt =>
      cases h2 : sizesV P lays b (p ++ [1]) with
      | error e => rw [h1, h2] at h; cases h
      | ok rt =>
        cases hl : lays p with
        | none => rw [h1, h2, hl] at h; cases h
        | some lay =>
          rw [h1, h2, hl] at h
          simp only at h
          have gl := iha _ _ h1
          have gr := ihb _ _ h2
          have il := gl.info
          have ir := gr.info
          obtain ⟨d1, d2, d3⟩ := trunkDimsV_nonneg hpos hpad hov (hlays p lay hl)
          generalize trunkDimsV P lay.rects = d at h d1 d2 d3
          obtain ⟨tw, th, fk⟩ := d
          simp only at h d1 d2 d3
          cases h
          have hM1 := le_max_left lt.info.size.h rt.info.size.h
          have hM2 := le_max_right lt.info.size.h rt.info.size.h
          have hs1 := le_max_left
            (tw - (lt.info.size.w - lt.info.trunk.right.x + rt.info.trunk.left.x)) P.minsp
          have hs2 := le_max_right
            (tw - (lt.info.size.w - lt.info.trunk.right.x + rt.info.trunk.left.x)) P.minsp
          generalize max lt.info.size.h rt.info.size.h = M at hM1 hM2 ⊢
          generalize max
            (tw - (lt.info.size.w - lt.info.trunk.right.x + rt.info.trunk.left.x)) P.minsp = s
            at hs1 hs2 ⊢
          simp only [Rect.right, Rect.left] at hs1 ⊢
          have := il.w; have := il.h; have := il.tx; have := il.txw; have := il.tw
          have := ir.w; have := ir.h; have := ir.tx; have := ir.txw; have := ir.tw
          refine ⟨?_, ?_, gl, gr⟩
          · constructor <;> simp only [Rect.makeFrom] <;> linarith
          · constructor <;> simp only [Rect.makeFrom] <;> linarith

/-! ## The placement pass, node by node -/

def rectL (i : Info) (lt : ITree) (r : Rect) : Rect :=
  Rect.makeFrom (r.topLeft.add i.leftPos) lt.info.size

def rectR (i : Info) (rt : ITree) (r : Rect) : Rect :=
  Rect.makeFrom (r.topLeft.add i.rightPos) rt.info.size

/-- The `SubLayout` that `placeV t r` produces for the node reached from the
    root of `t` by the child indices `q`. -/
def nodeAtV : ITree → Rect → Path → Option SubLayout
  | t, r, [] => some (finishV t.info r)
  | .leaf _, _, _ :: _ => none
  | .node i lt rt, r, k :: q =>
    if k = 0 then nodeAtV lt (rectL i lt r) q
    else if k = 1 then nodeAtV rt (rectR i rt r) q
    else none

theorem nodeAtV_nil (t : ITree) (r : Rect) : nodeAtV t r [] = some (finishV t.info r) := by
  cases t <;> rfl

theorem nodeAtV_cons {i : Info} {lt rt : ITree} {r : Rect} {k : Nat} {q : Path} {d : SubLayout}
    (h : nodeAtV (.node i lt rt) r (k :: q) = some d) :
    (k = 0 ∧ nodeAtV lt (rectL i lt r) q = some d) ∨
      (k = 1 ∧ nodeAtV rt (rectR i rt r) q = some d) := by
  simp only [nodeAtV] at h
  split at h
  · exact .inl ⟨‹_›, h⟩
  · split at h
    · exact .inr ⟨‹_›, h⟩
    · cases h

theorem mem_placeV {P : Params} {t : ITree} {p : Path} {r : Rect} {sl : SubLayout}
    (g : GoodV P t p) (h : sl ∈ placeV t r) : ∃ q, nodeAtV t r q = some sl ∧ sl.sp = p ++ q := by
  induction t generalizing p r with
  | leaf i =>
    simp only [placeV, List.mem_singleton] at h
    subst h
    exact ⟨[], rfl, by simpa [finishV] using g.sp⟩
  | node i lt rt ihl ihr =>
    obtain ⟨io, _, gl, gr⟩ := g
    simp only [placeV, List.mem_cons, List.mem_append] at h
    rcases h with h | h | h
    · subst h
      exact ⟨[], rfl, by simpa [finishV] using io.sp⟩
    · obtain ⟨q, h1, h2⟩ := ihl gl h
      exact ⟨0 :: q, by simpa [nodeAtV, rectL] using h1, by simpa using h2⟩
    · obtain ⟨q, h1, h2⟩ := ihr gr h
      exact ⟨1 :: q, by simpa [nodeAtV, rectR] using h1, by simpa using h2⟩

/-- The rect handed to `placeV` has the size computed by the size pass. -/
structure Sized (t : ITree) (r : Rect) : Prop where
  w : r.w = t.info.size.w
  h : r.h = t.info.size.h

theorem sized_rectL (i : Info) (lt : ITree) (r : Rect) : Sized lt (rectL i lt r) := ⟨rfl, rfl⟩
theorem sized_rectR (i : Info) (rt : ITree) (r : Rect) : Sized rt (rectR i rt r) := ⟨rfl, rfl⟩

/-- The boxes `r1`, `r2` of the two children of a species with box `r`. -/
structure ChildBoxes (P : Params) (i : Info) (r r1 r2 : Rect) : Prop where
  x1 : r1.x = r.x
  y1 : r.y + i.trunk.h + P.level + i.fork ≤ r1.y
  b1 : r1.y + r1.h = r.y + r.h
  sep : r1.x + r1.w + P.minsp ≤ r2.x
  e2 : r2.x + r2.w = r.x + r.w
  y2 : r.y + i.trunk.h + P.level + i.fork ≤ r2.y
  b2 : r2.y + r2.h = r.y + r.h
  w1 : 0 ≤ r1.w
  w2 : 0 ≤ r2.w
  th : 0 ≤ i.trunk.h
  fork : 0 ≤ i.fork

theorem childBoxes {P : Params} {i : Info} {lt rt : ITree} {p : Path} {r : Rect}
    (g : GoodV P (.node i lt rt) p) (hs : Sized (.node i lt rt) r) :
    ChildBoxes P i r (rectL i lt r) (rectR i rt r) := by
  obtain ⟨io, co, gl, gr⟩ := g
  have il := gl.info
  have ir := gr.info
  have hw : r.w = i.size.w := hs.w
  have hh : r.h = i.size.h := hs.h
  have := co.lx; have := co.ly; have := co.lh; have := co.sep; have := co.rw
  have := co.ry; have := co.rh; have := il.w; have := ir.w; have := io.th; have := io.fork
  constructor <;> (try simp only [rectL, rectR, Rect.makeFrom, Rect.topLeft, Pos.add]) <;> linarith

/-- `d` (a species of the subtree placed in `r`) has its box inside `r` and
    its trunk inside its box, starting at the top edge. -/
structure BoxIn (d : SubLayout) (r : Rect) : Prop where
  x : r.x ≤ d.rect.x
  y : r.y ≤ d.rect.y
  xw : d.rect.x + d.rect.w ≤ r.x + r.w
  yh : d.rect.y + d.rect.h ≤ r.y + r.h
  tx : d.rect.x ≤ d.trunk.x
  txw : d.trunk.x + d.trunk.w ≤ d.rect.x + d.rect.w
  ty : d.trunk.y = d.rect.y
  tw : 0 ≤ d.trunk.w
  th : 0 ≤ d.trunk.h
  tyh : d.trunk.y + d.trunk.h ≤ d.rect.y + d.rect.h
  fork : 0 ≤ d.fork

theorem finishV_boxIn {i : Info} {p : Path} {r : Rect} (io : InfoOK i p)
    (hw : r.w = i.size.w) (hh : r.h = i.size.h) : BoxIn (finishV i r) r := by
  have := io.tx; have := io.txw; have := io.ty; have := io.tw; have := io.th
  have := io.thle; have := io.fork
  constructor <;> simp only [finishV, Rect.shift, Rect.topLeft] <;> linarith

theorem BoxIn.mono {d : SubLayout} {r1 r : Rect} (b : BoxIn d r1) (hx : r.x ≤ r1.x)
    (hy : r.y ≤ r1.y) (hxw : r1.x + r1.w ≤ r.x + r.w) (hyh : r1.y + r1.h ≤ r.y + r.h) :
    BoxIn d r :=
  { b with x := le_trans hx b.x, y := le_trans hy b.y, xw := le_trans b.xw hxw,
           yh := le_trans b.yh hyh }

theorem nodeAtV_boxIn {P : Params} (hlev : 0 ≤ P.level) (hmin : 0 < P.minsp) (q : Path) :
    ∀ (t : ITree) (p : Path) (r : Rect) (d : SubLayout), GoodV P t p → Sized t r →
      nodeAtV t r q = some d → BoxIn d r := by
  induction q with
  | nil =>
    intro t p r d g hs h
    rw [nodeAtV_nil] at h
    cases h
    exact finishV_boxIn g.info hs.w hs.h
  | cons k q ih =>
    intro t p r d g hs h
    cases t with
    | leaf i => simp [nodeAtV] at h
    | node i lt rt =>
      have cb := childBoxes g hs
      obtain ⟨_, _, gl, gr⟩ := g
      have := cb.x1; have := cb.y1; have := cb.b1; have := cb.sep; have := cb.e2
      have := cb.y2; have := cb.b2; have := cb.w1; have := cb.w2; have := cb.th; have := cb.fork
      rcases nodeAtV_cons h with ⟨_, h⟩ | ⟨_, h⟩
      · exact (ih lt _ _ d gl (sized_rectL i lt r) h).mono (by linarith) (by linarith)
          (by linarith) (by linarith)
      · exact (ih rt _ _ d gr (sized_rectR i rt r) h).mono (by linarith) (by linarith)
          (by linarith) (by linarith)

/-- Sibling boxes: separated by `minsp` across, both inside the parent's box. -/
theorem nodeAtV_siblings {P : Params} (hlev : 0 ≤ P.level) (hmin : 0 < P.minsp) (q : Path) :
    ∀ (t : ITree) (p : Path) (r : Rect) (par l r' : SubLayout), GoodV P t p → Sized t r →
      nodeAtV t r q = some par → nodeAtV t r (q ++ [0]) = some l →
      nodeAtV t r (q ++ [1]) = some r' →
      l.rect.x + l.rect.w + P.minsp ≤ r'.rect.x ∧
      (par.rect.x ≤ l.rect.x ∧ par.rect.y ≤ l.rect.y ∧
        l.rect.x + l.rect.w ≤ par.rect.x + par.rect.w ∧
        l.rect.y + l.rect.h ≤ par.rect.y + par.rect.h) ∧
      (par.rect.x ≤ r'.rect.x ∧ par.rect.y ≤ r'.rect.y ∧
        r'.rect.x + r'.rect.w ≤ par.rect.x + par.rect.w ∧
        r'.rect.y + r'.rect.h ≤ par.rect.y + par.rect.h) := by
  induction q with
  | nil =>
    intro t p r par l r' g hs hp hl hr
    rw [nodeAtV_nil] at hp
    cases hp
    cases t with
    | leaf i => simp [nodeAtV] at hl
    | node i lt rt =>
      have cb := childBoxes g hs
      have := cb.x1; have := cb.y1; have := cb.b1; have := cb.sep; have := cb.e2
      have := cb.y2; have := cb.b2; have := cb.w1; have := cb.w2; have := cb.th; have := cb.fork
      simp only [List.nil_append, nodeAtV, ↓reduceIte, nodeAtV_nil, Option.some.injEq,
        one_ne_zero] at hl hr
      subst hl
      subst hr
      simp only [finishV]
      refine ⟨by linarith, ⟨by linarith, by linarith, by linarith, by linarith⟩,
        ⟨by linarith, by linarith, by linarith, by linarith⟩⟩
  | cons k q ih =>
    intro t p r par l r' g hs hp hl hr
    cases t with
    | leaf i => simp [nodeAtV] at hp
    | node i lt rt =>
      obtain ⟨_, _, gl, gr⟩ := g
      simp only [List.cons_append] at hl hr
      rcases nodeAtV_cons hp with ⟨hk, hp⟩ | ⟨hk, hp⟩
      · subst hk
        simp only [nodeAtV, ↓reduceIte] at hl hr
        exact ih lt _ _ par l r' gl (sized_rectL i lt r) hp hl hr
      · subst hk
        simp only [nodeAtV, ↓reduceIte, one_ne_zero] at hl hr
        exact ih rt _ _ par l r' gr (sized_rectR i rt r) hp hl hr

/-- A species' trunk ends (at least `level + fork`) above the box of every
    proper descendant. -/
theorem nodeAtV_trunk_above {P : Params} (hlev : 0 ≤ P.level) (hmin : 0 < P.minsp) (q : Path) :
    ∀ (t : ITree) (p : Path) (r : Rect) (par d : SubLayout) (k : Nat) (q' : Path),
      GoodV P t p → Sized t r → nodeAtV t r q = some par →
      nodeAtV t r (q ++ k :: q') = some d →
      par.trunk.y + par.trunk.h + P.level + par.fork ≤ d.rect.y := by
  induction q with
  | nil =>
    intro t p r par d k q' g hs hp hd
    rw [nodeAtV_nil] at hp
    cases hp
    cases t with
    | leaf i => simp [nodeAtV] at hd
    | node i lt rt =>
      have cb := childBoxes g hs
      have io := g.1
      obtain ⟨_, _, gl, gr⟩ := g
      have := cb.y1; have := cb.y2; have := io.ty
      simp only [List.nil_append] at hd
      simp only [finishV, Rect.shift, Rect.topLeft, ITree.info]
      rcases nodeAtV_cons hd with ⟨_, hd⟩ | ⟨_, hd⟩
      · have b := nodeAtV_boxIn hlev hmin q' lt _ _ d gl (sized_rectL i lt r) hd
        have := b.y
        linarith
      · have b := nodeAtV_boxIn hlev hmin q' rt _ _ d gr (sized_rectR i rt r) hd
        have := b.y
        linarith
  | cons k0 q ih =>
    intro t p r par d k q' g hs hp hd
    cases t with
    | leaf i => simp [nodeAtV] at hp
    | node i lt rt =>
      obtain ⟨_, _, gl, gr⟩ := g
      simp only [List.cons_append] at hd
      rcases nodeAtV_cons hp with ⟨hk, hp⟩ | ⟨hk, hp⟩
      · subst hk
        simp only [nodeAtV, ↓reduceIte] at hd
        exact ih lt _ _ par d k q' gl (sized_rectL i lt r) hp hd
      · subst hk
        simp only [nodeAtV, ↓reduceIte, one_ne_zero] at hd
        exact ih rt _ _ par d k q' gr (sized_rectR i rt r) hp hd

/-- Trunks of two distinct species are separated along one axis. -/
theorem nodeAtV_trunks_disjoint {P : Params} (hlev : 0 ≤ P.level) (hmin : 0 < P.minsp)
    (qa : Path) :
    ∀ (qb : Path) (t : ITree) (p : Path) (r : Rect) (a b : SubLayout),
      GoodV P t p → Sized t r → qa ≠ qb → nodeAtV t r qa = some a → nodeAtV t r qb = some b →
      a.trunk.x + a.trunk.w ≤ b.trunk.x ∨ b.trunk.x + b.trunk.w ≤ a.trunk.x ∨
      a.trunk.y + a.trunk.h ≤ b.trunk.y ∨ b.trunk.y + b.trunk.h ≤ a.trunk.y := by
  induction qa with
  | nil =>
    intro qb t p r a b g hs hne ha hb
    cases qb with
    | nil => exact absurd rfl hne
    | cons k qb =>
      have h1 := nodeAtV_trunk_above hlev hmin [] t p r a b k qb g hs ha hb
      have bb := nodeAtV_boxIn hlev hmin _ t p r b g hs hb
      have ba := nodeAtV_boxIn hlev hmin _ t p r a g hs ha
      have := bb.ty; have := ba.fork
      right; right; left; linarith
  | cons k qa ih =>
    intro qb t p r a b g hs hne ha hb
    cases qb with
    | nil =>
      have h1 := nodeAtV_trunk_above hlev hmin [] t p r b a k qa g hs hb ha
      have bb := nodeAtV_boxIn hlev hmin _ t p r b g hs hb
      have ba := nodeAtV_boxIn hlev hmin _ t p r a g hs ha
      have := ba.ty; have := bb.fork
      right; right; right; linarith
    | cons k' qb =>
      cases t with
      | leaf i => simp [nodeAtV] at ha
      | node i lt rt =>
        have cb := childBoxes g hs
        obtain ⟨_, _, gl, gr⟩ := g
        rcases nodeAtV_cons ha with ⟨hk, ha⟩ | ⟨hk, ha⟩ <;>
          rcases nodeAtV_cons hb with ⟨hk', hb⟩ | ⟨hk', hb⟩
        · subst hk; subst hk'
          exact ih qb lt _ _ a b gl (sized_rectL i lt r) (by simpa using hne) ha hb
        · have ba := nodeAtV_boxIn hlev hmin _ lt _ _ a gl (sized_rectL i lt r) ha
          have bb := nodeAtV_boxIn hlev hmin _ rt _ _ b gr (sized_rectR i rt r) hb
          have := ba.txw; have := ba.xw; have := bb.x; have := bb.tx; have := cb.sep
          left; linarith
        · have ba := nodeAtV_boxIn hlev hmin _ rt _ _ a gr (sized_rectR i rt r) ha
          have bb := nodeAtV_boxIn hlev hmin _ lt _ _ b gl (sized_rectL i lt r) hb
          have := bb.txw; have := bb.xw; have := ba.x; have := ba.tx; have := cb.sep
          right; left; linarith
        · subst hk; subst hk'
          exact ih qb rt _ _ a b gr (sized_rectR i rt r) (by simpa using hne) ha hb

/-! ## `computeV`, and `computeH` through the mirror theorem -/

/-- The numeric hypotheses of C14. -/
structure Hyps (P : Params) (sizes : Key → Size) : Prop where
  pos : ∀ k, 0 < (sizes k).w ∧ 0 < (sizes k).h
  pad : 0 ≤ P.pad
  gsp : 0 ≤ P.gsp
  overhead : 0 ≤ P.overhead
  level : 0 ≤ P.level
  minsp : 0 < P.minsp

theorem Hyps.swap {P : Params} {sizes : Key → Size} (hy : Hyps P sizes) :
    Hyps P (fun k => (sizes k).swap) :=
  { hy with pos := fun k => ⟨(hy.pos k).2, (hy.pos k).1⟩ }

theorem computeV_tree {P : Params} {sizes : Key → Size} {S : RTree} {sol : Sol}
    {all : List SubLayout} (hy : Hyps P sizes) (h : computeV P sizes S sol = .ok all) :
    ∃ t, GoodV P t [] ∧ all = placeV t (Rect.makeFrom ⟨0, 0⟩ t.info.size) := by
  unfold computeV at h
  cases h1 : computeBranches S sol with
  | error e => rw [h1] at h; cases h
  | ok st =>
    rw [h1] at h
    simp only at h
    cases h2 : layoutAllV P sizes st with
    | error e => rw [h2] at h; cases h
    | ok lays =>
      rw [h2] at h
      simp only at h
      cases h3 : toBTree S with
      | none => rw [h3] at h; cases h
      | some B =>
        rw [h3] at h
        simp only at h
        cases h4 : sizesV P (lookupSp lays) B [] with
        | error e => rw [h4] at h; cases h
        | ok t =>
          rw [h4] at h
          cases h
          exact ⟨t, sizesV_good hy.pos hy.pad hy.overhead hy.level hy.minsp
            (fun p lay hl => layoutAllV_good st h2 hl) B [] t h4, rfl⟩

/-- Everything C14 says about a VERTICAL layout, over the output list. -/
structure FactsV (P : Params) (all : List SubLayout) : Prop where
  unique : ∀ a b, a ∈ all → b ∈ all → a.sp = b.sp → a = b
  siblings : ∀ par l r, par ∈ all → l ∈ all → r ∈ all →
    l.sp = par.sp ++ [0] → r.sp = par.sp ++ [1] →
      l.rect.x + l.rect.w + P.minsp ≤ r.rect.x ∧
      (par.rect.x ≤ l.rect.x ∧ par.rect.y ≤ l.rect.y ∧
        l.rect.x + l.rect.w ≤ par.rect.x + par.rect.w ∧
        l.rect.y + l.rect.h ≤ par.rect.y + par.rect.h) ∧
      (par.rect.x ≤ r.rect.x ∧ par.rect.y ≤ r.rect.y ∧
        r.rect.x + r.rect.w ≤ par.rect.x + par.rect.w ∧
        r.rect.y + r.rect.h ≤ par.rect.y + par.rect.h)
  nonneg : ∀ a, a ∈ all → 0 ≤ a.rect.w ∧ 0 ≤ a.rect.h ∧ 0 ≤ a.trunk.w ∧ 0 ≤ a.trunk.h ∧ 0 ≤ a.fork
  trunkIn : ∀ a, a ∈ all →
    a.rect.x ≤ a.trunk.x ∧ a.trunk.x + a.trunk.w ≤ a.rect.x + a.rect.w ∧
    a.trunk.y = a.rect.y ∧ a.trunk.y + a.trunk.h ≤ a.rect.y + a.rect.h
  trunkAbove : ∀ par d k q, par ∈ all → d ∈ all → d.sp = par.sp ++ k :: q →
    par.trunk.y + par.trunk.h + P.level + par.fork ≤ d.rect.y
  trunks : ∀ a b, a ∈ all → b ∈ all → a.sp ≠ b.sp →
    a.trunk.x + a.trunk.w ≤ b.trunk.x ∨ b.trunk.x + b.trunk.w ≤ a.trunk.x ∨
    a.trunk.y + a.trunk.h ≤ b.trunk.y ∨ b.trunk.y + b.trunk.h ≤ a.trunk.y

theorem computeV_facts {P : Params} {sizes : Key → Size} {S : RTree} {sol : Sol}
    {all : List SubLayout} (hy : Hyps P sizes) (h : computeV P sizes S sol = .ok all) :
    FactsV P all := by
  obtain ⟨t, g, rfl⟩ := computeV_tree hy h
  have hs : Sized t (Rect.makeFrom ⟨0, 0⟩ t.info.size) := ⟨rfl, rfl⟩
  have hlev := hy.level
  have hmin := hy.minsp
  refine ⟨?_, ?_, ?_, ?_, ?_, ?_⟩
  · intro a b ha hb hab
    obtain ⟨qa, ha1, ha2⟩ := mem_placeV g ha
    obtain ⟨qb, hb1, hb2⟩ := mem_placeV g hb
    simp only [List.nil_append] at ha2 hb2
    have : qa = qb := by rw [← ha2, ← hb2, hab]
    subst this
    rw [ha1] at hb1
    exact Option.some.inj hb1
  · intro par l r hp hl hr hl' hr'
    obtain ⟨q, hp1, hp2⟩ := mem_placeV g hp
    obtain ⟨ql, hl1, hl2⟩ := mem_placeV g hl
    obtain ⟨qr, hr1, hr2⟩ := mem_placeV g hr
    simp only [List.nil_append] at hp2 hl2 hr2
    rw [hl2, hp2] at hl'
    rw [hr2, hp2] at hr'
    subst hl'
    subst hr'
    exact nodeAtV_siblings hlev hmin q t [] _ par l r g hs hp1 hl1 hr1
  · intro a ha
    obtain ⟨q, h1, _⟩ := mem_placeV g ha
    have b := nodeAtV_boxIn hlev hmin q t [] _ a g hs h1
    have := b.tx; have := b.txw; have := b.ty; have := b.tyh; have := b.tw; have := b.th
    exact ⟨by linarith, by linarith, b.tw, b.th, b.fork⟩
  · intro a ha
    obtain ⟨q, h1, _⟩ := mem_placeV g ha
    have b := nodeAtV_boxIn hlev hmin q t [] _ a g hs h1
    exact ⟨b.tx, b.txw, b.ty, b.tyh⟩
  · intro par d k q' hp hd hsp
    obtain ⟨q, hp1, hp2⟩ := mem_placeV g hp
    obtain ⟨qd, hd1, hd2⟩ := mem_placeV g hd
    simp only [List.nil_append] at hp2 hd2
    rw [hd2, hp2] at hsp
    subst hsp
    exact nodeAtV_trunk_above hlev hmin q t [] _ par d k q' g hs hp1 hd1
  · intro a b ha hb hab
    obtain ⟨qa, ha1, ha2⟩ := mem_placeV g ha
    obtain ⟨qb, hb1, hb2⟩ := mem_placeV g hb
    simp only [List.nil_append] at ha2 hb2
    exact nodeAtV_trunks_disjoint hlev hmin qa qb t [] _ a b g hs
      (by rw [← ha2, ← hb2]; exact hab) ha1 hb1

theorem FBranch.tr_tr (b : FBranch) : b.tr.tr = b := rfl

theorem SubLayout.tr_tr (l : SubLayout) : l.tr.tr = l := by
  obtain ⟨sp, rect, trunk, fork, anchors, branches⟩ := l
  simp only [SubLayout.tr, trAnchors, List.map_map, Rect.tr_tr, SubLayout.mk.injEq, true_and]
  constructor
  · conv => rhs; rw [← List.map_id anchors]
    apply List.map_congr_left
    intro e _
    rfl
  · conv => rhs; rw [← List.map_id branches]
    apply List.map_congr_left
    intro e _
    rfl

/-- The transposed HORIZONTAL layout is a VERTICAL layout (for the exchanged
    sizes), hence satisfies `FactsV`. -/
theorem computeH_facts {P : Params} {sizes : Key → Size} {S : RTree} {sol : Sol}
    {all : List SubLayout} (hy : Hyps P sizes) (h : computeH P sizes S sol = .ok all) :
    FactsV P (all.map SubLayout.tr) := by
  rw [computeH_tr] at h
  cases hv : computeV P (fun k => (sizes k).swap) S sol with
  | error e => rw [hv] at h; cases h
  | ok allV =>
    rw [hv] at h
    simp only [Except.map_ok', Except.ok.injEq] at h
    subst h
    have : (allV.map SubLayout.tr).map SubLayout.tr = allV := by
      rw [List.map_map]
      conv => rhs; rw [← List.map_id allV]
      apply List.map_congr_left
      intro e _
      exact SubLayout.tr_tr e
    rw [this]
    exact computeV_facts hy.swap hv

/-! ## One `SubLayout` per species, in pre-order -/

/-- Paths of the nodes of a binary tree rooted at `p`, in pre-order. -/
def BTree.paths : BTree → Path → List Path
  | .leaf, p => [p]
  | .node a b, p => p :: (a.paths (p ++ [0]) ++ b.paths (p ++ [1]))

theorem BTree.paths_eq_map (B : BTree) (p : Path) : B.paths p = (B.paths []).map (p ++ ·) := by
  induction B generalizing p with
  | leaf => simp [BTree.paths]
  | node a b iha ihb =>
    simp only [BTree.paths, List.nil_append, List.map_cons, List.append_nil, List.map_append]
    rw [iha (p ++ [0]), ihb (p ++ [1]), iha [0], ihb [1]]
    simp [List.map_map, Function.comp_def]

theorem toBTree_preorder (B : BTree) : ∀ S : RTree, toBTree S = some B → S.preorder = B.paths [] := by
  induction B with
  | leaf =>
    intro S h
    obtain ⟨cs⟩ := S
    match cs, h with
    | [], _ => simp [RTree.preorder, RTree.preorderList, BTree.paths]
    | [a, b], h =>
      simp only [toBTree] at h
      cases ha : toBTree a <;> cases hb : toBTree b <;> rw [ha, hb] at h <;> cases h
    | [_], h => simp [toBTree] at h
    | _ :: _ :: _ :: _, h => simp [toBTree] at h
  | node x y ihx ihy =>
    intro S h
    obtain ⟨cs⟩ := S
    match cs, h with
    | [], h => simp [toBTree] at h
    | [a, b], h =>
      simp only [toBTree] at h
      cases ha : toBTree a with
      | none => rw [ha] at h; simp at h
      | some x' =>
        cases hb : toBTree b with
        | none => rw [ha, hb] at h; simp at h
        | some y' =>
          rw [ha, hb] at h
          simp only [Option.some.injEq, BTree.node.injEq] at h
          obtain ⟨rfl, rfl⟩ := h
          simp only [RTree.preorder, RTree.preorderList, ihx a ha, ihy b hb, BTree.paths,
            List.nil_append, List.append_nil]
          rw [BTree.paths_eq_map x' [0], BTree.paths_eq_map y' [1]]
          simp
    | [_], h => simp [toBTree] at h
    | _ :: _ :: _ :: _, h => simp [toBTree] at h

theorem sizesV_paths {P : Params} {lays : Path → Option SpLayout} (B : BTree) :
    ∀ (p : Path) (t : ITree) (r : Rect), sizesV P lays B p = .ok t →
      (placeV t r).map (·.sp) = B.paths p := by
  induction B with
  | leaf =>
    intro p t r h
    simp only [sizesV] at h
    cases hl : lays p with
    | none => rw [hl] at h; cases h
    | some lay =>
      rw [hl] at h
      simp only at h
      cases h
      simp [placeV, finishV, BTree.paths]
  | node a b iha ihb =>
    intro p t r h
    simp only [sizesV] at h
    cases h1 : sizesV P lays a (p ++ [0]) with
    | error e => rw [h1] at h; cases h
    | ok lt =>
      cases h2 : sizesV P lays b (p ++ [1]) with
      | error e => rw [h1, h2] at h; cases h
      | ok rt =>
        cases hl : lays p with
        | none => rw [h1, h2, hl] at h; cases h
        | some lay =>
          rw [h1, h2, hl] at h
          simp only at h
          cases h
          simp only [placeV, List.map_cons, List.map_append, iha _ _ _ h1, ihb _ _ _ h2,
            BTree.paths, finishV]

theorem computeV_species {P : Params} {sizes : Key → Size} {S : RTree} {sol : Sol}
    {all : List SubLayout} (h : computeV P sizes S sol = .ok all) :
    all.map (·.sp) = S.preorder := by
  unfold computeV at h
  cases h1 : computeBranches S sol with
  | error e => rw [h1] at h; cases h
  | ok st =>
    rw [h1] at h
    simp only at h
    cases h2 : layoutAllV P sizes st with
    | error e => rw [h2] at h; cases h
    | ok lays =>
      rw [h2] at h
      simp only at h
      cases h3 : toBTree S with
      | none => rw [h3] at h; cases h
      | some B =>
        rw [h3] at h
        simp only at h
        cases h4 : sizesV P (lookupSp lays) B [] with
        | error e => rw [h4] at h; cases h
        | ok t =>
          rw [h4] at h
          cases h
          rw [sizesV_paths B [] t _ h4, toBTree_preorder B S h3]

theorem computeH_species {P : Params} {sizes : Key → Size} {S : RTree} {sol : Sol}
    {all : List SubLayout} (h : computeH P sizes S sol = .ok all) :
    all.map (·.sp) = S.preorder := by
  rw [computeH_tr] at h
  cases hv : computeV P (fun k => (sizes k).swap) S sol with
  | error e => rw [hv] at h; cases h
  | ok allV =>
    rw [hv] at h
    simp only [Except.map_ok', Except.ok.injEq] at h
    subst h
    rw [← computeV_species hv, List.map_map]
    rfl

end SR.Layout
