/-
  C14, anchors — part 5: every dictionary look-up of `_tikz_draw_branches`
  succeeds on the output of `layout.compute` for a valid reconciliation.
-/
import SRVerif.Proofs.LayoutAnchorsFinal
import SRVerif.Proofs.LayoutAnchorsLayout

namespace SR.Layout

open SR

/-! ### Look-ups -/

theorem slLookup_some {all : List SubLayout} {q : Path} (h : q ∈ all.map (·.sp)) :
    ∃ sl, slLookup all q = some sl ∧ sl ∈ all ∧ sl.sp = q := by
  induction all with
  | nil => cases h
  | cons a all ih =>
    simp only [slLookup]
    by_cases ha : a.sp = q
    · exact ⟨a, by simp [ha], List.mem_cons_self .., ha⟩
    · simp only [List.map_cons, List.mem_cons] at h
      rcases h with h | h
      · exact absurd h.symm ha
      · obtain ⟨sl, h1, h2, h3⟩ := ih h
        exact ⟨sl, by simp [ha, h1], List.mem_cons_of_mem _ h2, h3⟩

theorem hasKey_iff {β : Type} (l : List (Key × β)) (k : Key) :
    hasKey l k = true ↔ k ∈ l.map (·.1) := lookupKey_isSome l k

theorem fbLookup_isSome (l : List FBranch) (k : Key) :
    (fbLookup l k).isSome = true ↔ k ∈ l.map (·.key) := by
  induction l with
  | nil => simp [fbLookup]
  | cons b l ih =>
    simp only [fbLookup, List.map_cons, List.mem_cons]
    by_cases h : b.key = k
    · simp [h]
    · have h' : ¬ k = b.key := fun e => h e.symm
      simp [h, h', ih]

theorem branchIn_ok {lay : SubLayout} {k : Key} (h : k ∈ lay.branches.map (·.key)) :
    branchIn lay (some k) = .ok () := by
  simp [branchIn, (fbLookup_isSome _ _).2 h]

/-- Facts about one finished species layout, read off `Struct`. -/
theorem Struct.keys {S : RTree} {st : LState} {all : List SubLayout} (h : Struct S st all)
    {sl : SubLayout} (hsl : sl ∈ all) :
    sl.branches.map (·.key) = keysOf (brs st sl.sp) ∧
    (∀ fb ∈ sl.branches, fb.toBranch ∈ brs st sl.sp) ∧
    (∀ k, k ∈ keysOf (brs st sl.sp) → k ∈ ancs st sl.sp → hasKey sl.anchors k = true) := by
  obtain ⟨x, hx, ha, hb⟩ := h.each sl hsl
  rw [brs_of_getSp hx, ancs_of_getSp hx]
  refine ⟨?_, ?_, ?_⟩
  · rw [← hb, keysOf, List.map_map]; rfl
  · intro fb hfb
    rw [← hb]
    exact List.mem_map_of_mem hfb
  · intro k h1 h2
    rw [hasKey_iff, ha, List.mem_filter]
    exact ⟨h1, by simpa using h2⟩

/-- `X_layout.anchors[k]` succeeds for a key of species `u` that is still an
    anchor node. -/
theorem anchor_lookup {S : RTree} {st : LState} {all : List SubLayout} (h : Struct S st all)
    {u : Path} {k : Key} (hu : S.isNode u = true) (h1 : k ∈ keysOf (brs st u))
    (h2 : k ∈ ancs st u) : ∃ sl, slLookup all u = some sl ∧ hasKey sl.anchors k = true := by
  have : u ∈ all.map (·.sp) := by rw [h.species, RTree.mem_preorder_iff]; exact hu
  obtain ⟨sl, e, hsl, rfl⟩ := slLookup_some this
  exact ⟨sl, e, (h.keys hsl).2.2 k h1 h2⟩

theorem anchorIn_ok {S : RTree} {st : LState} {all : List SubLayout} (h : Struct S st all)
    {u : Path} {k : Key} (hu : S.isNode u = true) (h1 : k ∈ keysOf (brs st u))
    (h2 : k ∈ ancs st u) : anchorIn (slLookup all u) (some k) = .ok () := by
  obtain ⟨sl, e, hk⟩ := anchor_lookup h hu h1 h2
  simp [anchorIn, e, hk]

/-- The keys a duplication / transfer branch refers to are branches of the
    same species. -/
theorem needs_of_mem {l : List Branch} (h : OrdOK l) {b : Branch} (hb : b ∈ l) :
    Needs (keysOf l) b := by
  obtain ⟨pre, post, rfl⟩ := List.append_of_mem hb
  exact (h pre b post rfl).mono (by intro k hk; simp [keysOf] at hk ⊢; exact .inl hk)

/-! ### One branch, one species, all species -/

theorem drawBranch_ok {S : RTree} {sol : Sol} {st : LState} {all : List SubLayout}
    (hbin : S.isBinary = true) (hfin : FinalOK S sol st) (hstr : Struct S st all)
    {lay : SubLayout} (hlay : lay ∈ all) {fb : FBranch} (hfb : fb ∈ lay.branches)
    (ll rl : Option SubLayout)
    (hll : (S.sub lay.sp).any RTree.isLeaf = false → ll = slLookup all (lay.sp ++ [0]))
    (hrl : (S.sub lay.sp).any RTree.isLeaf = false → rl = slLookup all (lay.sp ++ [1])) :
    ∃ a, drawBranch all (spOfSol sol) lay ll rl fb = .ok a := by
  obtain ⟨hkeys, hmem, _⟩ := hstr.keys hlay
  have hb := hmem fb hfb
  cases hk : fb.kind with
  | leaf =>
    simp only [drawBranch, hk]
    exact ⟨_, rfl⟩
  | loss =>
    obtain ⟨i, k, hi, hnode, hleft, hright, h1, h2⟩ := hfin.loss _ _ hb hk
    obtain ⟨_, hn0, hn1, hleaf⟩ := RTree.binary_child hbin hnode
    have hl : fb.left = if i = 0 then some k else none := hleft
    have hr : fb.right = if i = 1 then some k else none := hright
    rcases hi with rfl | rfl
    · simp only [if_true, zero_ne_one, if_false] at hl hr
      have := anchorIn_ok hstr hnode h1 h2
      simp only [drawBranch, hk, hl, hr, hll hleaf, Option.isNone_none, if_true, this]
      exact ⟨_, rfl⟩
    · simp only [one_ne_zero, if_false, if_true] at hl hr
      have := anchorIn_ok hstr hnode h1 h2
      simp only [drawBranch, hk, hl, hr, hrl hleaf, Option.isNone_some, Bool.false_eq_true,
        if_false, this]
      exact ⟨_, rfl⟩
  | spec =>
    obtain ⟨k1, k2, hleft, hright, hn0, a1, a2, b1, b2⟩ := hfin.spec _ _ hb hk
    obtain ⟨_, _, hn1, hleaf⟩ := RTree.binary_child hbin hn0
    have hl : fb.left = some k1 := hleft
    have hr : fb.right = some k2 := hright
    have e1 := anchorIn_ok hstr hn0 a1 a2
    have e2 := anchorIn_ok hstr hn1 b1 b2
    simp only [drawBranch, hk, hl, hr, hll hleaf, hrl hleaf, e1, e2]
    exact ⟨_, rfl⟩
  | dup =>
    have hn := needs_of_mem (hfin.ord lay.sp) hb
    simp only [Needs, show fb.toBranch.kind = .dup from hk] at hn
    obtain ⟨k1, k2, hleft, hright, h1, h2⟩ := hn
    have hl : fb.left = some k1 := hleft
    have hr : fb.right = some k2 := hright
    rw [← hkeys] at h1 h2
    simp only [drawBranch, hk, hl, hr, branchIn_ok h1, branchIn_ok h2]
    exact ⟨_, rfl⟩
  | hgt =>
    have hn := needs_of_mem (hfin.ord lay.sp) hb
    simp only [Needs, show fb.toBranch.kind = .hgt from hk] at hn
    obtain ⟨k1, hleft, h1⟩ := hn
    have hl : fb.left = some k1 := hleft
    rw [← hkeys] at h1
    obtain ⟨gf, sf, hright, hsp, hnsf, a1, a2⟩ := hfin.hgt _ _ hb hk
    have hr : fb.right = some (.gene gf) := hright
    obtain ⟨fl, e, hfl⟩ := anchor_lookup hstr hnsf a1 a2
    simp only [drawBranch, hk, hr, hsp, e, hfl, if_true, hl, branchIn_ok h1]
    exact ⟨_, rfl⟩

theorem drawBranches_ok {S : RTree} {sol : Sol} {st : LState} {all : List SubLayout}
    (hbin : S.isBinary = true) (hfin : FinalOK S sol st) (hstr : Struct S st all)
    {lay : SubLayout} (hlay : lay ∈ all) (ll rl : Option SubLayout)
    (hll : (S.sub lay.sp).any RTree.isLeaf = false → ll = slLookup all (lay.sp ++ [0]))
    (hrl : (S.sub lay.sp).any RTree.isLeaf = false → rl = slLookup all (lay.sp ++ [1])) :
    ∀ l : List FBranch, (∀ fb ∈ l, fb ∈ lay.branches) →
      ∃ a, drawBranches all (spOfSol sol) lay ll rl l = .ok a := by
  intro l
  induction l with
  | nil => intro _; exact ⟨[], rfl⟩
  | cons fb l ih =>
    intro h
    obtain ⟨a, ha⟩ := drawBranch_ok hbin hfin hstr hlay (h fb (List.mem_cons_self ..)) ll rl hll hrl
    obtain ⟨r, hr⟩ := ih (fun x hx => h x (List.mem_cons_of_mem _ hx))
    exact ⟨a ++ r, by simp only [drawBranches, ha, hr]⟩

theorem drawAll_ok {S : RTree} {sol : Sol} {st : LState} {all : List SubLayout}
    (hbin : S.isBinary = true) (hfin : FinalOK S sol st) (hstr : Struct S st all) :
    ∀ rest : List SubLayout, (∀ lay ∈ rest, lay ∈ all) →
      ∃ ss, drawAll S sol all rest = .ok ss := by
  intro rest
  induction rest with
  | nil => intro _; exact ⟨[], rfl⟩
  | cons lay rest ih =>
    intro h
    have hlay := h lay (List.mem_cons_self ..)
    obtain ⟨a, ha⟩ := drawBranches_ok hbin hfin hstr hlay
      (if (S.sub lay.sp).any RTree.isLeaf then none else slLookup all (lay.sp ++ [0]))
      (if (S.sub lay.sp).any RTree.isLeaf then none else slLookup all (lay.sp ++ [1]))
      (by intro hl; simp [hl]) (by intro hl; simp [hl]) lay.branches (fun _ hx => hx)
    obtain ⟨r, hr⟩ := ih (fun x hx => h x (List.mem_cons_of_mem _ hx))
    exact ⟨a ++ r, by simp only [drawAll, ha, hr]⟩

/-- `tikz.render ∘ layout.compute` performs no failing look-up. -/
theorem render_ok (o : Orientation) (P : Params) (sizes : Key → Size) {S : RTree} {sol : Sol}
    (hbin : S.isBinary = true) (hgood : Good S sol) :
    ∃ st all ss, computeBranches S sol = .ok st ∧ FinalOK S sol st ∧
      compute o P sizes S sol = .ok all ∧ Struct S st all ∧ render o P sizes S sol = .ok ss := by
  obtain ⟨st, hst, hfin⟩ := computeBranches_final hbin hgood
  obtain ⟨all, hall, hstr⟩ := compute_ok o P sizes hbin hst hfin.keys hfin.ord
  obtain ⟨ss, hss⟩ := drawAll_ok (sol := sol) hbin hfin hstr all (fun _ h => h)
  exact ⟨st, all, ss, hst, hfin, hall, hstr, by simp only [render, hall, hss]⟩

end SR.Layout
