/-
  C08, part 3: the result entry fed by all pairs of refinements.
-/
import SRVerif.Proofs.Cost
import SRVerif.Proofs.BinarizeTree

namespace SR.Bin

open SR

theorem mem_refinementPairs {tO tS : NTree} {p : BinT × BinT} :
    p ∈ refinementPairs tO tS ↔ p.1 ∈ binarize tO ∧ p.2 ∈ binarize tS := by
  simp only [refinementPairs, List.mem_flatMap, List.mem_map]
  constructor
  · rintro ⟨bO, hO, bS, hS, rfl⟩; exact ⟨hO, hS⟩
  · rintro ⟨hO, hS⟩; exact ⟨p.1, hO, p.2, hS, rfl⟩

/-- The result entry keeps exactly the offered outputs of minimum evaluated
    cost, each once. -/
theorem mem_rankOuts (c : Costs) (mode : LabelMode) (data : LeafData) (outs : List Out) (x : Out) :
    x ∈ rankOuts c mode data outs ↔
      x ∈ outs ∧ ∀ y ∈ outs, Cost.le (x.cost c mode data) (y.cost c mode data) = true := by
  simp only [rankOuts, mem_dedup, List.mem_filter, decide_eq_true_eq]
  constructor
  · rintro ⟨hs, hbest⟩
    refine ⟨hs, fun y hy => ?_⟩
    rw [hbest]
    exact Cost.minList_le (l := outs.map (Out.cost c mode data)) (List.mem_map.mpr ⟨y, hy, rfl⟩)
  · rintro ⟨hs, hmin⟩
    refine ⟨hs, ?_⟩
    rcases Cost.minList_mem_or_inf (outs.map (Out.cost c mode data)) with h | h
    · have := Cost.minList_le (l := outs.map (Out.cost c mode data)) (List.mem_map.mpr ⟨x, hs, rfl⟩)
      rw [h] at this ⊢
      exact Cost.le_antisymm (Cost.le_inf _) this
    · obtain ⟨y, hy, h'⟩ := List.mem_map.mp h
      apply Cost.le_antisymm
      · rw [← h']; exact hmin y hy
      · exact Cost.minList_le (l := outs.map (Out.cost c mode data)) (List.mem_map.mpr ⟨x, hs, rfl⟩)

theorem nodup_rankOuts (c : Costs) (mode : LabelMode) (data : LeafData) (outs : List Out) :
    (rankOuts c mode data outs).Nodup := nodup_dedup _

theorem mem_multiCands {tO tS : NTree} {data : LeafData} {cands : RTree → OTree → List Sol} {x : Out} :
    x ∈ multiCands tO tS data cands ↔
      x.oTree ∈ binarize tO ∧ x.sTree ∈ binarize tS ∧
        x.sol ∈ cands (shape x.sTree.toN) (toOTree data x.sTree x.oTree) := by
  simp only [multiCands, List.mem_flatMap, List.mem_map]
  constructor
  · rintro ⟨p, hp, s, hs, rfl⟩
    exact ⟨(mem_refinementPairs.mp hp).1, (mem_refinementPairs.mp hp).2, hs⟩
  · rintro ⟨hO, hS, hs⟩
    exact ⟨(x.oTree, x.sTree), mem_refinementPairs.mpr ⟨hO, hS⟩, x.sol, hs, rfl⟩

/-- The generic statement behind `C08_opt`: with per-input candidates `cands`,
    the result over a multifurcating input is the set of arg-minima of the
    evaluated cost over the candidates of all pairs of refinements. -/
theorem mem_rank_multi (c : Costs) (mode : LabelMode) (tO tS : NTree) (data : LeafData)
    (cands : RTree → OTree → List Sol) (x : Out) :
    x ∈ rankOuts c mode data (multiCands tO tS data cands) ↔
      (x.oTree ∈ binarize tO ∧ x.sTree ∈ binarize tS ∧
        x.sol ∈ cands (shape x.sTree.toN) (toOTree data x.sTree x.oTree)) ∧
      ∀ bO ∈ binarize tO, ∀ bS ∈ binarize tS,
        ∀ s ∈ cands (shape bS.toN) (toOTree data bS bO),
          Cost.le (x.cost c mode data) (totalCost c mode (toOTree data bS bO) s) = true := by
  rw [mem_rankOuts, mem_multiCands]
  constructor
  · rintro ⟨hx, hmin⟩
    refine ⟨hx, fun bO hO bS hS s hs => ?_⟩
    exact hmin { sTree := bS, oTree := bO, sol := s } (mem_multiCands.mpr ⟨hO, hS, hs⟩)
  · rintro ⟨hx, hmin⟩
    refine ⟨hx, fun y hy => ?_⟩
    obtain ⟨hO, hS, hs⟩ := mem_multiCands.mp hy
    exact hmin y.oTree hO y.sTree hS y.sol hs

/-- A solution kept for the multifurcating input is one the binary solver
    returns for the refined input it refers to. -/
theorem sol_mem_rankByCost_of_mem_rank_multi {c : Costs} {mode : LabelMode} {tO tS : NTree}
    {data : LeafData} {cands : RTree → OTree → List Sol} {x : Out}
    (h : x ∈ rankOuts c mode data (multiCands tO tS data cands)) :
    x.sol ∈ rankByCost c mode (toOTree data x.sTree x.oTree)
      (cands (shape x.sTree.toN) (toOTree data x.sTree x.oTree)) := by
  obtain ⟨⟨hO, hS, hs⟩, hmin⟩ := (mem_rank_multi c mode tO tS data cands x).mp h
  exact (mem_rankByCost _ _ _ _ _).mpr ⟨hs, fun s' hs' => hmin _ hO _ hS s' hs'⟩

theorem spfs_eq_rank (c : Costs) (S : RTree) (base : Bool) (o : OTree) (pre : Option (List Nat)) :
    spfs c S base o pre = rankByCost c .ordered o (spfsCands c S base o pre) := rfl

theorem uspfs_eq_rank (c : Costs) (S : RTree) (base : Bool) (o : OTree) :
    uspfs c S base o = rankByCost c .unordered o (uspfsCands c S base o) := rfl

end SR.Bin
