/-
  The generic oracle adequacy (`Proofs/OptAdequacy.lean`) specialised to the ordered
  mode: for sequence-labelled solutions

  * `specCost_ordered`   on a solution with valid events and "child ⊑ parent" labels,
                         the oracle's cost `specCost (.ordered order)` is the evaluator's
                         `_cost_rec + sloss · _ordered_labeling_cost` with masks taken
                         relative to `order` (`ordEval`), and `totalCost` is `ordEval` at
                         `order = root synteny` (`totalCost_eq_ordEval`);
  * `feasible_of_valid`  such a solution whose labels are subsequences of `order` (the
                         root's being `order`) and whose species are allowed is feasible;
  * `valid_of_feasible`  conversely a feasible solution of finite cost has valid events
                         and "child ⊑ parent" labels;
  * `validSol_iff_rootOrder`  `Spec.validSol .ordered` = valid events + valid labels +
                         root synteny ∈ `rootOrders o none`.
-/
import SRVerif.Proofs.OptAdequacy
import SRVerif.Proofs.LabelDPOrdValid

namespace SR.Spec

open SR Cost Path

/-! ### Lists: `sublists`, `permutations`, `dedup` -/

theorem mem_sublists {β : Type} (l : List β) : ∀ xs : List β, l ∈ sublists xs ↔ l.Sublist xs := by
  intro xs
  induction xs generalizing l with
  | nil => simp [sublists]
  | cons x xs ih =>
    simp only [sublists, List.mem_flatMap, List.mem_cons, List.not_mem_nil, or_false]
    constructor
    · rintro ⟨l', hl', rfl | rfl⟩
      · exact List.Sublist.cons _ ((ih _).mp hl')
      · exact List.Sublist.cons_cons _ ((ih _).mp hl')
    · intro h
      cases h with
      | cons _ h' => exact ⟨l, (ih l).mpr h', Or.inl rfl⟩
      | cons_cons _ h' => exact ⟨_, (ih _).mpr h', Or.inr rfl⟩

theorem mem_insertEverywhere_mid {β : Type} (x : β) (a b : List β) :
    a ++ x :: b ∈ insertEverywhere x (a ++ b) := by
  induction a with
  | nil =>
    cases b with
    | nil => simp [insertEverywhere]
    | cons y ys => simp [insertEverywhere]
  | cons y a ih =>
    simp only [List.cons_append, insertEverywhere, List.mem_cons, List.mem_map]
    exact Or.inr ⟨_, ih, rfl⟩

/-- `permutations` is complete. -/
theorem mem_permutations_of_perm {β : Type} : ∀ (l p : List β), p.Perm l → p ∈ permutations l := by
  intro l
  induction l with
  | nil => intro p h; rw [List.Perm.eq_nil h]; simp [permutations]
  | cons x xs ih =>
    intro p h
    have hx : x ∈ p := h.mem_iff.mpr (by simp)
    obtain ⟨a, b, rfl⟩ := List.append_of_mem hx
    have h' : (a ++ b).Perm xs := (List.perm_middle.symm.trans h).cons_inv
    simp only [permutations, List.mem_flatMap]
    exact ⟨a ++ b, ih _ h', mem_insertEverywhere_mid x a b⟩

theorem length_foldl_insertNew_le {β : Type} [DecidableEq β] (l : List β) : ∀ acc : List β,
    (l.foldl insertNew acc).length ≤ acc.length + l.length := by
  induction l with
  | nil => intro acc; simp
  | cons x xs ih =>
    intro acc
    simp only [List.foldl_cons, List.length_cons]
    refine Nat.le_trans (ih _) ?_
    unfold insertNew
    split
    · omega
    · simp only [List.length_append, List.length_singleton]; omega

theorem nodup_of_length_foldl_insertNew {β : Type} [DecidableEq β] (l : List β) : ∀ acc : List β,
    acc.Nodup → (l.foldl insertNew acc).length = acc.length + l.length → (acc ++ l).Nodup := by
  induction l with
  | nil => intro acc h _; simpa using h
  | cons x xs ih =>
    intro acc hnd hlen
    simp only [List.foldl_cons, List.length_cons] at hlen
    by_cases hx : x ∈ acc
    · have : insertNew acc x = acc := by simp [insertNew, hx]
      rw [this] at hlen
      have := length_foldl_insertNew_le xs acc
      omega
    · have hi : insertNew acc x = acc ++ [x] := by simp [insertNew, hx]
      rw [hi] at hlen
      have hnd' : (acc ++ [x]).Nodup := by
        rw [← hi]; exact nodup_insertNew hnd
      have := ih (acc ++ [x]) hnd' (by rw [hlen]; simp; omega)
      simpa using this

theorem nodup_of_length_dedup {β : Type} [DecidableEq β] (l : List β)
    (h : l.length = (dedup l).length) : l.Nodup := by
  have := nodup_of_length_foldl_insertNew l [] (by simp) (by simpa [dedup] using h.symm)
  simpa using this

theorem isPermOf_self (a : List Nat) : isPermOf a a = true := by
  simp [isPermOf]

/-! ### The evaluator's cost, masks relative to an arbitrary `order` -/

/-- `_cost_rec + sloss · _ordered_labeling_cost`, masks relative to `order`, the mask
    of the root being that of its own synteny. -/
def ordEval (c : Costs) (order : List Nat) (t : OTree) (sol : Sol) : Cost :=
  match ordLosses order (maskFromSubseq sol.fam order) sol with
  | some k => recCost c t sol + .fin (k * c.sloss)
  | none => .inf

theorem totalCost_eq_ordEval (c : Costs) (o : OTree) (sol : Sol) :
    totalCost c .ordered o sol = ordEval c sol.fam o sol := by
  simp only [totalCost, labelingCost, ordEval, SubseqProofs.mask_self]
  cases ordLosses sol.fam (subseqComplete sol.fam) sol <;> rfl

private theorem fam_node (s : Path) (f : List Nat) (l r : Sol) : (Sol.node s f l r).fam = f := rfl

/-- On a single leaf the order is irrelevant. -/
theorem ordEval_leaf (c : Costs) (order : List Nat) (t : OTree) (s : Path) (g : List Nat) :
    ordEval c order t (.leaf s g) = recCost c t (.leaf s g) := by
  simp [ordEval, ordLosses]

private theorem sum3 (x y z : Cost) (a b d sl : Nat) :
    x + Cost.fin (a * sl) + ((y + Cost.fin (b * sl)) + (z + Cost.fin (d * sl))) =
      x + (y + z) + Cost.fin ((a + b + d) * sl) := by
  rw [Nat.add_mul, Nat.add_mul, ← fin_add_fin_eq, ← fin_add_fin_eq]
  ac_rfl

/-- **The oracle's cost is the evaluator's** on solutions with valid events and
    "child ⊑ parent" labels (any `order`, any position `p`). -/
theorem specCost_ordered (c : Costs) (order : List Nat) (whole : OTree) : ∀ (t : OTree) (p : Path)
    (sol : Sol), validRec t sol = true → validOrdLabels t sol = true →
      specCost c (.ordered order) whole p sol = ordEval c order t sol := by
  intro t
  induction t with
  | leaf sp f =>
    intro p sol hv _
    cases sol with
    | node s g sl sr => simp [validRec] at hv
    | leaf s g =>
      simp only [validRec] at hv
      simp [specCost, ordEval, ordLosses, recCost, hv]
  | node l r ihl ihr =>
    intro p sol hv hl
    cases sol with
    | leaf s g => simp [validRec] at hv
    | node s g sl sr =>
      simp only [validRec, Bool.and_eq_true, bne_iff_ne, ne_eq] at hv
      obtain ⟨⟨hev, hvl⟩, hvr⟩ := hv
      simp only [validOrdLabels, Bool.and_eq_true] at hl
      obtain ⟨⟨⟨hsl, hsr⟩, hll⟩, hlr⟩ := hl
      simp only [specCost, ihl (p ++ [0]) sl hvl hll, ihr (p ++ [1]) sr hvr hlr]
      simp only [ordEval, fam_node, ordLosses, SR.recCost_node, localCost, edgeOk, hsl, hsr,
        Bool.and_self, Bool.not_true, Bool.false_eq_true, if_false]
      cases localOrdLosses (internalEvent s sl.sp sr.sp) (comparable s sl.sp)
          (maskFromSubseq g order) (maskFromSubseq sl.fam order) (maskFromSubseq sr.fam order) with
      | none => simp
      | some a =>
        cases ordLosses order (maskFromSubseq sl.fam order) sl with
        | none => simp
        | some b =>
          cases ordLosses order (maskFromSubseq sr.fam order) sr with
          | none => simp
          | some d => exact sum3 _ _ _ a b d c.sloss

/-! ### Allowed species -/

/-- Every internal node sits in an allowed species (a node of `S`; the LCA species
    for `base`). -/
def SpeciesOk (S : RTree) (base : Bool) : OTree → Sol → Prop
  | .node l r, .node s _ sl sr =>
    s ∈ speciesSpace S base (.node l r) ∧ SpeciesOk S base l sl ∧ SpeciesOk S base r sr
  | _, _ => True

/-- Same shape and same species at every node (syntenies ignored). -/
def sameMapping : Sol → Sol → Bool
  | .leaf s _, .leaf s' _ => s == s'
  | .node s _ l r, .node s' _ l' r' => s == s' && sameMapping l l' && sameMapping r r'
  | _, _ => false

/-- In a valid reconciliation over a species tree containing the leaf species, every
    node sits in a species of the tree. -/
theorem speciesOk_of_valid (S : RTree) : ∀ (t : OTree) (sol : Sol),
    (∀ q ∈ leafSpecies t, S.isNode q = true) → validRec t sol = true → SpeciesOk S false t sol := by
  intro t
  induction t with
  | leaf sp f => intro sol _ _; cases sol <;> simp [SpeciesOk]
  | node l r ihl ihr =>
    intro sol hS hv
    obtain ⟨q, hq, hqa⟩ := validRec_sp_anc_leaf _ sol hv
    cases sol with
    | leaf s g => simp [SpeciesOk]
    | node s g sl sr =>
      simp only [validRec, Bool.and_eq_true] at hv
      refine ⟨?_, ihl sl (fun q hq => hS q (by simp [leafSpecies, hq])) hv.1.2,
        ihr sr (fun q hq => hS q (by simp [leafSpecies, hq])) hv.2⟩
      simp only [speciesSpace, Bool.false_eq_true, if_false, allSpecies]
      exact (RTree.mem_preorder_iff s S).mpr (RTree.isNode_of_isAnc hqa (hS q hq))

/-- For `base`: the allowed species are those of the LCA mapping. -/
theorem speciesOk_base_iff (S : RTree) : ∀ (t : OTree) (sol : Sol), validRec t sol = true →
    (SpeciesOk S true t sol ↔ sameMapping sol (lcaSol t) = true) := by
  intro t
  induction t with
  | leaf sp f =>
    intro sol hv
    cases sol with
    | node s g sl sr => simp [validRec] at hv
    | leaf s g =>
      simp only [validRec] at hv
      simp [SpeciesOk, sameMapping, lcaSol, hv]
  | node l r ihl ihr =>
    intro sol hv
    cases sol with
    | leaf s g => simp [validRec] at hv
    | node s g sl sr =>
      simp only [validRec, Bool.and_eq_true] at hv
      simp only [SpeciesOk, speciesSpace, if_true, List.mem_singleton, lcaSol, sameMapping, Sol.sp,
        Bool.and_eq_true, beq_iff_eq, ihl sl hv.1.2, ihr sr hv.2, and_assoc]

/-! ### Valid ⟹ feasible -/

private theorem isEmpty_snoc (p : Path) (k : Nat) : (p ++ [k]).isEmpty = false := by cases p <;> rfl

theorem feasible_of_valid (S : RTree) (base : Bool) (order : List Nat) (whole : OTree) :
    ∀ (t : OTree) (p : Path) (sol : Sol), validRec t sol = true → validOrdLabels t sol = true →
      SpeciesOk S base t sol →
      (if p.isEmpty then sol.fam = order else sol.fam.Sublist order) →
      Feasible S (.ordered order) base whole p t sol := by
  intro t
  induction t with
  | leaf sp f =>
    intro p sol hv hl _ _
    cases sol with
    | node s g sl sr => simp [validRec] at hv
    | leaf s g =>
      simp only [validRec, validOrdLabels, beq_iff_eq] at hv hl
      simp [Feasible, leafLabel, hv, hl]
  | node l r ihl ihr =>
    intro p sol hv hl hs hlab
    cases sol with
    | leaf s g => simp [validRec] at hv
    | node s g sl sr =>
      simp only [validRec, Bool.and_eq_true] at hv
      simp only [validOrdLabels, Bool.and_eq_true] at hl
      obtain ⟨⟨⟨hsl, hsr⟩, hll⟩, hlr⟩ := hl
      obtain ⟨hs0, hsl', hsr'⟩ := hs
      have hg : g.Sublist order := by
        simp only [Sol.fam] at hlab
        split at hlab
        · rw [hlab]
        · exact hlab
      simp only [Feasible]
      refine ⟨hs0, ?_, ihl (p ++ [0]) sl hv.1.2 hll hsl' ?_, ihr (p ++ [1]) sr hv.2 hlr hsr' ?_⟩
      · simp only [labelSpace]
        simp only [Sol.fam] at hlab
        split
        · rename_i hp; rw [if_pos hp] at hlab; simp [hlab]
        · exact (mem_sublists g order).mpr hg
      · simp only [isEmpty_snoc, Bool.false_eq_true, if_false]
        exact ((isSublist_iff _ _).mp hsl).trans hg
      · simp only [isEmpty_snoc, Bool.false_eq_true, if_false]
        exact ((isSublist_iff _ _).mp hsr).trans hg

/-! ### Feasible of finite cost ⟹ valid -/

theorem localCost_ordered_ne_inf {c : Costs} {order : List Nat} {whole : OTree} {p s : Path}
    {f : List Nat} {a : Path} {fa : List Nat} {b : Path} {fb : List Nat}
    (h : localCost c (.ordered order) whole p s f a fa b fb ≠ .inf) :
    isSublist fa f = true ∧ isSublist fb f = true ∧ internalEvent s a b ≠ .invalid := by
  unfold localCost at h
  split at h
  · exact absurd rfl h
  · rename_i hedge
    simp only [edgeOk, Bool.not_eq_true', Bool.and_eq_false_iff, not_or, Bool.not_eq_false] at hedge
    refine ⟨hedge.1, hedge.2, ?_⟩
    intro hev
    simp only [hev, localOrdLosses] at h
    exact h rfl

theorem valid_of_feasible (c : Costs) (S : RTree) (base : Bool) (order : List Nat) (whole : OTree) :
    ∀ (t : OTree) (p : Path) (sol : Sol), Feasible S (.ordered order) base whole p t sol →
      specCost c (.ordered order) whole p sol ≠ .inf →
      validRec t sol = true ∧ validOrdLabels t sol = true ∧ SpeciesOk S base t sol := by
  intro t
  induction t with
  | leaf sp f =>
    intro p sol hf _
    cases sol with
    | node s g sl sr => simp [Feasible] at hf
    | leaf s g =>
      simp only [Feasible, leafLabel] at hf
      obtain ⟨rfl, rfl⟩ := hf
      simp [validRec, validOrdLabels, SpeciesOk]
  | node l r ihl ihr =>
    intro p sol hf hfin
    cases sol with
    | leaf s g => simp [Feasible] at hf
    | node s g sl sr =>
      simp only [Feasible] at hf
      obtain ⟨hs, _, hfl, hfr⟩ := hf
      simp only [specCost] at hfin
      obtain ⟨hloc, hfin'⟩ := add_ne_inf hfin
      obtain ⟨hfinl, hfinr⟩ := add_ne_inf hfin'
      obtain ⟨hsl, hsr, hev⟩ := localCost_ordered_ne_inf hloc
      obtain ⟨vl, ll, sl'⟩ := ihl (p ++ [0]) sl hfl hfinl
      obtain ⟨vr, lr, sr'⟩ := ihr (p ++ [1]) sr hfr hfinr
      refine ⟨?_, ?_, hs, sl', sr'⟩
      · simp only [validRec, Bool.and_eq_true, bne_iff_ne, ne_eq]
        exact ⟨⟨hev, vl⟩, vr⟩
      · simp only [validOrdLabels, Bool.and_eq_true]
        exact ⟨⟨⟨hsl, hsr⟩, ll⟩, lr⟩

/-- The root label of a feasible solution of an internal root is the root order. -/
theorem feasible_root_fam {S : RTree} {base : Bool} {order : List Nat} {whole : OTree} {l r : OTree}
    {sol : Sol} (hf : Feasible S (.ordered order) base whole [] (.node l r) sol) : sol.fam = order := by
  cases sol with
  | leaf s g => simp [Feasible] at hf
  | node s g sl sr =>
    simp only [Feasible, labelSpace, List.isEmpty_nil, if_true, List.mem_singleton] at hf
    exact hf.2.1

/-! ### The root synteny of a valid solution is a root order -/

theorem leaf_sublist_root : ∀ (t : OTree) (sol : Sol), validOrdLabels t sol = true →
    ∀ f ∈ leafSyntenies t, f.Sublist sol.fam := by
  intro t
  induction t with
  | leaf sp f =>
    intro sol hl
    cases sol with
    | node s g sl sr => simp [validOrdLabels] at hl
    | leaf s g =>
      simp only [validOrdLabels, beq_iff_eq] at hl
      subst hl
      simp [leafSyntenies, Sol.fam]
  | node l r ihl ihr =>
    intro sol hl
    cases sol with
    | leaf s g => simp [validOrdLabels] at hl
    | node s g sl sr =>
      simp only [validOrdLabels, Bool.and_eq_true] at hl
      obtain ⟨⟨⟨hsl, hsr⟩, hll⟩, hlr⟩ := hl
      intro f hf
      simp only [leafSyntenies, List.mem_append] at hf
      rcases hf with hf | hf
      · exact (ihl sl hll f hf).trans ((isSublist_iff _ _).mp hsl)
      · exact (ihr sr hlr f hf).trans ((isSublist_iff _ _).mp hsr)

/-- `Spec.validSol .ordered` = valid events, valid labels, and the root synteny is one
    of the root orders (the permutations of the families having every leaf synteny as a
    subsequence). -/
theorem validSol_iff_rootOrder (o : OTree) (sol : Sol) :
    validSol .ordered o sol = true ↔
      validRec o sol = true ∧ validOrdLabels o sol = true ∧ sol.fam ∈ rootOrders o none := by
  simp only [validSol, Bool.and_eq_true]
  constructor
  · rintro ⟨hv, ⟨hl, hperm⟩, hlen⟩
    refine ⟨hv, hl, ?_⟩
    have hnd : sol.fam.Nodup := nodup_of_length_dedup _ (by simpa using hlen)
    simp only [isPermOf, Bool.and_eq_true, List.all_eq_true, List.contains_iff_mem] at hperm
    have hp : sol.fam.Perm (families o) :=
      (List.perm_ext_iff_of_nodup hnd (nodup_dedup _)).mpr
        (fun x => ⟨fun hx => hperm.1.2 x hx, fun hx => hperm.2 x hx⟩)
    simp only [rootOrders, List.mem_filter, List.all_eq_true]
    exact ⟨mem_permutations_of_perm _ _ hp,
      fun f hf => (isSublist_iff _ _).mpr (leaf_sublist_root o sol hl f hf)⟩
  · rintro ⟨hv, hl, ho⟩
    obtain ⟨hp, hlen⟩ := rootOrders_perm o _ ho
    exact ⟨hv, ⟨hl, hp⟩, hlen⟩

/-- For a single-leaf input the only root order is the leaf's synteny. -/
theorem rootOrders_leaf {sp : Path} {f order : List Nat}
    (h : order ∈ rootOrders (.leaf sp f) none) : order = f := by
  have hnd := ((mem_permutations _ _ (List.mem_filter.mp h).1).2 (nodup_dedup _))
  simp only [rootOrders, List.mem_filter, List.all_eq_true, leafSyntenies, List.mem_singleton,
    forall_eq] at h
  obtain ⟨hp, hs⟩ := h
  have hsub := (isSublist_iff _ _).mp hs
  have hfn : f.Nodup := hsub.nodup hnd
  have hlen : order.length = f.length := by
    rw [length_permutations _ _ hp]
    simp [families, leafSyntenies, dedup_of_nodup f hfn]
  exact (hsub.eq_of_length hlen.symm).symm

end SR.Spec
