/-
  Adequacy of the specification oracle `Spec.optimum … .unordered` with respect to EVERY
  valid unordered super-reconciliation (`Spec.validSol .unordered`), needed by C08
  (optimum over all refinements) to turn "the cost returned by `uspfs` is `Spec.optimum`"
  (C03Full) into "… is the minimum of the evaluated cost over all valid solutions".

  `Spec.validUnLabels` does not ask the synteny of an internal node to be a sorted,
  duplicate-free list, whereas the oracle's label space (`Spec.labelSpace .unordered`)
  consists of sorted lists between required and allowed content.  `normU` sorts and
  de-duplicates every internal label; the evaluator only tests membership, so:

  * `totalCost_normU`, `validRec_normU`, `validUnLabels_normU`   normalising changes neither
        the cost nor validity;
  * `valid_required`    a valid family placement holds, at every node, the required content
        (every family carried by a leaf below whose gain node is at or above the node);
  * `feasible_normU`    the normalised valid solution lies in the oracle's solution space;
  * `optimum_un_le_valid`   hence the oracle's optimum is a lower bound of the evaluated
        cost of every valid unordered solution (species tree containing the leaf species).
-/
import SRVerif.Proofs.UnContentFeasible
import SRVerif.Proofs.OptAdequacyOrd

namespace SR

open Path Cost Spec

/-- Sort and de-duplicate the synteny of every internal node. -/
def normU : Sol → Sol
  | .leaf s g => .leaf s g
  | .node s f l r => .node s (sortNat (dedup f)) (normU l) (normU r)

@[simp] theorem normU_sp (σ : Sol) : (normU σ).sp = σ.sp := by cases σ <;> rfl

theorem mem_normU_fam (σ : Sol) (x : Nat) : x ∈ (normU σ).fam ↔ x ∈ σ.fam := by
  cases σ with
  | leaf s g => rfl
  | node s f l r => simp only [normU, Sol.fam, mem_sortNat, mem_dedup]

/-! ### The evaluator and the validity test only see membership -/

theorem subsetB_congr {a a' b b' : List Nat} (ha : ∀ x, x ∈ a' ↔ x ∈ a) (hb : ∀ x, x ∈ b' ↔ x ∈ b) :
    subsetB a' b' = subsetB a b := by
  rw [Bool.eq_iff_iff]
  simp only [subsetB, List.all_eq_true, List.contains_iff_mem]
  constructor
  · intro h x hx; exact (hb x).mp (h x ((ha x).mpr hx))
  · intro h x hx; exact (hb x).mpr (h x ((ha x).mp hx))

theorem localUnordLosses_congr (ev : Event) (k : Bool) {f f' fl fl' fr fr' : List Nat}
    (hf : ∀ x, x ∈ f' ↔ x ∈ f) (hl : ∀ x, x ∈ fl' ↔ x ∈ fl) (hr : ∀ x, x ∈ fr' ↔ x ∈ fr) :
    localUnordLosses ev k f' fl' fr' = localUnordLosses ev k f fl fr := by
  simp only [localUnordLosses, subsetB_congr hf hl, subsetB_congr hf hr]

theorem unordLosses_normU : ∀ σ : Sol, unordLosses (normU σ) = unordLosses σ := by
  intro σ
  induction σ with
  | leaf s g => rfl
  | node s f l r ihl ihr =>
    simp only [normU, unordLosses, normU_sp, ihl, ihr]
    rw [localUnordLosses_congr _ _ (f := f) (fl := l.fam) (fr := r.fam)
      (fun x => by simp only [mem_sortNat, mem_dedup]) (mem_normU_fam l) (mem_normU_fam r)]

theorem recCost_normU (c : Costs) : ∀ (t : OTree) (σ : Sol), recCost c t (normU σ) = recCost c t σ := by
  intro t
  induction t with
  | leaf sp f0 => intro σ; cases σ <;> rfl
  | node l r ihl ihr =>
    intro σ
    cases σ with
    | leaf s g => rfl
    | node s f x y => simp only [normU, recCost, normU_sp, ihl, ihr]

theorem validRec_normU : ∀ (t : OTree) (σ : Sol), validRec t (normU σ) = validRec t σ := by
  intro t
  induction t with
  | leaf sp f0 => intro σ; cases σ <;> rfl
  | node l r ihl ihr =>
    intro σ
    cases σ with
    | leaf s g => rfl
    | node s f x y => simp only [normU, validRec, normU_sp, ihl, ihr]

theorem totalCost_normU (c : Costs) (o : OTree) (σ : Sol) :
    totalCost c .unordered o (normU σ) = totalCost c .unordered o σ := by
  simp only [totalCost, labelingCost, unordLosses_normU, recCost_normU]

theorem edgeOk_un_congr (whole : OTree) (pc : Path) {f f' fc fc' : List Nat}
    (hf : ∀ x, x ∈ f' ↔ x ∈ f) (hc : ∀ x, x ∈ fc' ↔ x ∈ fc) :
    edgeOk .unordered whole pc f' fc' = edgeOk .unordered whole pc f fc := by
  rw [Bool.eq_iff_iff]
  simp only [edgeOk, List.all_eq_true, Bool.or_eq_true, List.contains_iff_mem]
  constructor
  · intro h x hx
    rcases h x ((hc x).mpr hx) with h1 | h1
    · exact Or.inl ((hf x).mp h1)
    · exact Or.inr h1
  · intro h x hx
    rcases h x ((hc x).mp hx) with h1 | h1
    · exact Or.inl ((hf x).mpr h1)
    · exact Or.inr h1

theorem validUnLabels_normU (whole : OTree) : ∀ (t : OTree) (p : Path) (σ : Sol),
    validUnLabels whole p t (normU σ) = validUnLabels whole p t σ := by
  intro t
  induction t with
  | leaf sp f0 => intro p σ; cases σ <;> rfl
  | node l r ihl ihr =>
    intro p σ
    cases σ with
    | leaf s g => rfl
    | node s f x y =>
      have hf : ∀ z, z ∈ sortNat (dedup f) ↔ z ∈ f := fun z => by simp only [mem_sortNat, mem_dedup]
      simp only [normU, validUnLabels, ihl, ihr]
      rw [edgeOk_un_congr whole _ hf (mem_normU_fam x), edgeOk_un_congr whole _ hf (mem_normU_fam y)]
      congr 4
      rw [Bool.eq_iff_iff]
      simp only [List.all_eq_true]
      exact ⟨fun h z hz => h z ((hf z).mpr hz), fun h z hz => h z ((hf z).mp hz)⟩

/-! ### A valid placement holds the required content -/

theorem valid_required (whole : OTree) : ∀ (t : OTree) (p : Path) (σ : Sol), IsSub whole p t →
    validUnLabels whole p t σ = true → ∀ x ∈ requiredContent whole p, x ∈ σ.fam := by
  intro t
  induction t with
  | leaf sp f0 =>
    intro p σ hsub hv x hx
    cases σ with
    | node => simp [validUnLabels] at hv
    | leaf s g =>
      simp only [validUnLabels, beq_iff_eq] at hv
      obtain ⟨_, _, q, f, hm, ha, hxf⟩ := mem_requiredContent.mp hx
      obtain ⟨_, rfl⟩ := (below_leaf hsub q f).mp ⟨hm, ha⟩
      simp only [Sol.fam, hv, mem_sortNat, mem_dedup]
      exact hxf
  | node l r ihl ihr =>
    intro p σ hsub hv x hx
    cases σ with
    | leaf => simp [validUnLabels] at hv
    | node s f a b =>
      simp only [validUnLabels, Bool.and_eq_true] at hv
      obtain ⟨⟨⟨⟨_, he0⟩, he1⟩, hva⟩, hvb⟩ := hv
      obtain ⟨hsl, hsr⟩ := isSub_child hsub
      obtain ⟨hfam, hanc, q, f', hm, ha, hxf⟩ := mem_requiredContent.mp hx
      simp only [Sol.fam]
      -- the edge to the child below which the leaf lies
      have key : ∀ (i : Nat) (ch : Sol), isAnc (p ++ [i]) q = true →
          (∀ y ∈ requiredContent whole (p ++ [i]), y ∈ ch.fam) →
          edgeOk .unordered whole (p ++ [i]) f ch.fam = true → x ∈ f := by
        intro i ch hai hreq hedge
        have hxc : x ∈ ch.fam := hreq x (mem_requiredContent.mpr
          ⟨hfam, isAnc_trans hanc (isAnc_append p [i]), q, f', hm, hai, hxf⟩)
        simp only [edgeOk, List.all_eq_true, Bool.or_eq_true, List.contains_iff_mem] at hedge
        rcases hedge x hxc with h1 | h1
        · exact h1
        · exact absurd (mem_gainsAt.mp h1).2 (ne_snoc_of_isAnc hanc)
      rcases below_child hsub hm ha with h0 | h1
      · exact key 0 a h0 (ihl _ a hsl hva) he0
      · exact key 1 b h1 (ihr _ b hsr hvb) he1

/-! ### The normalised solution is in the oracle's solution space -/

theorem feasible_normU (S : RTree) (whole : OTree) : ∀ (t : OTree) (p : Path) (σ : Sol),
    IsSub whole p t → validUnLabels whole p t σ = true → validRec t σ = true →
    SpeciesOk S false t σ → Feasible S .unordered false whole p t (normU σ) := by
  intro t
  induction t with
  | leaf sp f0 =>
    intro p σ _ hv hr _
    cases σ with
    | node => simp [validRec] at hr
    | leaf s g =>
      simp only [validUnLabels, beq_iff_eq] at hv
      simp only [validRec, beq_iff_eq] at hr
      exact ⟨hr, hv⟩
  | node l r ihl ihr =>
    intro p σ hsub hv hr hs
    cases σ with
    | leaf => simp [validRec] at hr
    | node s f a b =>
      have hreq := valid_required whole _ p _ hsub hv
      simp only [validUnLabels, Bool.and_eq_true, List.all_eq_true, List.contains_iff_mem] at hv
      obtain ⟨⟨⟨⟨hall, _⟩, _⟩, hva⟩, hvb⟩ := hv
      simp only [validRec, Bool.and_eq_true] at hr
      obtain ⟨hsl, hsr⟩ := isSub_child hsub
      simp only [SpeciesOk] at hs
      refine ⟨hs.1, ?_, ihl _ a hsl hva hr.1.2 hs.2.1, ihr _ b hsr hvb hr.2 hs.2.2⟩
      refine mem_labelSpace_of_between (sortNat_sorted (nodup_dedup f)) ?_ ?_
      · intro x hx
        simp only [mem_sortNat, mem_dedup]
        exact hreq x hx
      · intro x hx
        simp only [mem_sortNat, mem_dedup] at hx
        exact hall x hx

/-- **Adequacy, unordered model**: the oracle's optimum is a lower bound of the evaluated
    cost of EVERY valid unordered super-reconciliation (any species mapping over `S`, any
    valid family placement, sorted or not). -/
theorem optimum_un_le_valid (c : Costs) (S : RTree) (o : OTree) (keep : Bool)
    (hS : ∀ p ∈ leafSpecies o, S.isNode p = true) (sol : Sol)
    (hv : Spec.validSol .unordered o sol = true) :
    Cost.le (Spec.optimum c S .unordered false keep o none).1 (totalCost c .unordered o sol) = true := by
  simp only [Spec.validSol, Bool.and_eq_true] at hv
  obtain ⟨hr, hu⟩ := hv
  have hf := feasible_normU S o o [] sol (isSub_root o) hu hr (speciesOk_of_valid S o sol hS hr)
  have h := optimum_le c S false .unordered keep o none .unordered (by simp [modeDatas]) (normU sol) hf
  rw [specCost_eq_totalCostU c o o [] (normU sol) (by rw [validUnLabels_normU]; exact hu)
    (by rw [validRec_normU]; exact hr), totalCostU_eq, totalCost_normU] at h
  exact h

end SR
