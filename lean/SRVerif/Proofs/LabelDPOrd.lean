/-
  The ordered instance (`ordAlg`, `spfs`): bridge between the algebra's edge costs
  (`subseq_segment_dist` with / without the end runs) and the evaluator's ordered
  labelling cost (`localOrdLosses`, `ordLosses`, `totalCost … .ordered`).

  * `gl_ord`        at one node with non-empty child masks, the generic local cost
                    is the evaluator's: `localRecCost + sloss · localOrdLosses`
                    (speciation = cons + cons, duplication = min (cons + seg, seg + cons),
                    transfer = cons (kept) + seg (transferred));
  * `labCost_ord`   summed over a solution whose masks are all non-empty;
  * `totalCost_ordSol`  for a decoded mask labelling whose masks fit the root
                    order, `totalCost c .ordered o (ordSol order ls) = labCost …`;
  * `nz_of_finite`  finite cost forces non-empty masks everywhere (non-empty leaves).
-/
import SRVerif.Proofs.LabelDPInst
import SRVerif.Proofs.LabelDPThl

namespace SR

open Cost Path SubseqSpec SubseqProofs

/-! ### Signs of the two distances -/

theorem segDist_nonneg_of_contained {mc m : Nat} (hc : mc ≠ 0) (h : Contained mc m) (e : Bool) :
    0 ≤ subseqSegmentDist mc m e := by
  rw [C18.C18_dist_runs mc m e hc h]; omega

theorem segDist_neg_of_not_contained {mc m : Nat} (hc : mc ≠ 0) (h : ¬ Contained mc m) (e : Bool) :
    subseqSegmentDist mc m e < 0 := by
  rw [(C18.C18_dist_neg mc m e hc).2 h]; omega

theorem contained_of_segDist {mc m : Nat} (hc : mc ≠ 0) {e : Bool}
    (h : ¬ subseqSegmentDist mc m e < 0) : Contained mc m := by
  by_cases hcont : Contained mc m
  · exact hcont
  · exact absurd (segDist_neg_of_not_contained hc hcont e) h

theorem ne_zero_of_contained {mc m : Nat} (hc : mc ≠ 0) (h : Contained mc m) : m ≠ 0 := by
  rintro rfl
  apply hc
  apply Nat.eq_of_testBit_eq
  intro i
  cases hi : mc.testBit i
  · simp
  · have := h i hi; simp at this

/-- The two edge costs of the ordered algebra for a non-empty child mask. -/
theorem ord_costs {c : Costs} {a ca : OrdAnn} {m mc : Nat} (hc : mc ≠ 0) :
    (Contained mc m ∧
      (ordAlg c).conserv a m ca mc = .fin ((subseqSegmentDist mc m true).toNat * c.sloss) ∧
      (ordAlg c).segment a m ca mc = .fin ((subseqSegmentDist mc m false).toNat * c.sloss) ∧
      0 ≤ subseqSegmentDist mc m true ∧ 0 ≤ subseqSegmentDist mc m false) ∨
    (¬ Contained mc m ∧ (ordAlg c).conserv a m ca mc = .inf ∧ (ordAlg c).segment a m ca mc = .inf ∧
      subseqSegmentDist mc m true < 0 ∧ subseqSegmentDist mc m false < 0) := by
  by_cases h : Contained mc m
  · left
    have h1 := segDist_nonneg_of_contained hc h true
    have h2 := segDist_nonneg_of_contained hc h false
    have n1 : ¬ subseqSegmentDist mc m true < 0 := by omega
    have n2 : ¬ subseqSegmentDist mc m false < 0 := by omega
    refine ⟨h, ?_, ?_, h1, h2⟩ <;> simp [ordAlg, n1, n2]
  · right
    have h1 := segDist_neg_of_not_contained hc h true
    have h2 := segDist_neg_of_not_contained hc h false
    refine ⟨h, ?_, ?_, h1, h2⟩ <;> simp [ordAlg, h1]

/-! ### The local cost with finite / infinite edge costs -/

theorem min_fin (p q : Nat) : Cost.min (.fin p) (.fin q) = .fin (Nat.min p q) := by
  unfold Cost.min Cost.lt
  by_cases h : q < p
  · simp [h, Nat.min_def]; omega
  · simp [h, Nat.min_def]

theorem gl_inf_left (c : Costs) (s x y : Path) (cvy svy : Cost) :
    gl c s x .inf .inf y cvy svy = .inf := by
  unfold gl
  cases internalEvent s x y <;> simp [Cost.min, Cost.lt]

theorem gl_inf_right (c : Costs) (s x y : Path) (cvx svx : Cost) :
    gl c s x cvx svx y .inf .inf = .inf := by
  unfold gl
  cases internalEvent s x y <;> simp [Cost.min, Cost.lt]

/-- Finite edge costs shift the zero-cost local cost by the evaluator's combination. -/
theorem gl_shift (c : Costs) (s x y : Path) (a a' b b' : Nat) :
    gl c s x (.fin a) (.fin a') y (.fin b) (.fin b') =
      match internalEvent s x y with
      | .spec => localRecCost c s x y + .fin (a + b)
      | .dup => localRecCost c s x y + .fin (Nat.min (a + b') (a' + b))
      | .hgt => localRecCost c s x y + .fin (if isAnc s x then a + b' else a' + b)
      | _ => .inf := by
  rw [← gl_zero]
  unfold gl
  cases internalEvent s x y with
  | leaf => rfl
  | invalid => rfl
  | spec =>
    simp only [fin_add_fin_eq]
    congr 1; omega
  | dup =>
    simp only [fin_add_fin_eq, min_fin, min_self]
    congr 1
    simp only [Nat.min_def]
    split <;> split <;> omega
  | hgt =>
    by_cases h : isAnc s x = true
    · simp only [h, if_true]
      cases c.hgt <;> simp [add_def, Cost.add]; omega
    · simp only [h, if_false, Bool.false_eq_true]
      cases c.hgt <;> simp [add_def, Cost.add]; omega

theorem comparable_eq_isAnc_of_hgt {s x y : Path} (h : internalEvent s x y = .hgt) :
    comparable s x = isAnc s x := by
  have hval : internalEvent s x y ≠ .invalid := by rw [h]; simp
  rcases placement_of_valid hval with ⟨a, b, rfl, rfl⟩ | ⟨hx, _, _⟩ | ⟨hx, hx', _⟩
  · rw [internalEvent_below] at h
    split at h
    · split at h <;> cases h
    · cases h
  · simp [comparable, hx]
  · simp [comparable, hx, hx']

/-- **The local lemma of C02**: with non-empty child masks the generic local cost of
    the ordered algebra is the evaluator's `localRecCost + sloss · localOrdLosses`
    (`inf` exactly when the evaluator's count is undefined). -/
theorem gl_ord (c : Costs) (a la ra : OrdAnn) (s x y : Path) (m ml mr : Nat) (hl : ml ≠ 0)
    (hr : mr ≠ 0) :
    genLocal (ordAlg c) c a s m la x ml ra y mr =
      match localOrdLosses (internalEvent s x y) (comparable s x) m ml mr with
      | some k => localRecCost c s x y + .fin (k * c.sloss)
      | none => .inf := by
  unfold genLocal
  rcases ord_costs (c := c) (a := a) (ca := la) (m := m) hl with
    ⟨_, e1, e2, p1, p2⟩ | ⟨_, e1, e2, p1, p2⟩
  · rcases ord_costs (c := c) (a := a) (ca := ra) (m := m) hr with
      ⟨_, f1, f2, q1, q2⟩ | ⟨_, f1, f2, q1, q2⟩
    · rw [e1, e2, f1, f2, gl_shift]
      have n1 : ¬ subseqSegmentDist ml m true < 0 := by omega
      have n2 : ¬ subseqSegmentDist ml m false < 0 := by omega
      have n3 : ¬ subseqSegmentDist mr m true < 0 := by omega
      have n4 : ¬ subseqSegmentDist mr m false < 0 := by omega
      cases hev : internalEvent s x y with
      | leaf => simp [localOrdLosses]
      | invalid => simp [localOrdLosses]
      | spec => simp [localOrdLosses, addDist, n1, n3, Nat.add_mul]
      | dup =>
        simp only [localOrdLosses, addDist, n1, n2, n3, n4, Bool.or_self, decide_false,
          Bool.false_eq_true, if_false]
        congr 2
        simp only [Nat.min_def, ← Nat.add_mul]
        by_cases hle : (subseqSegmentDist ml m true).toNat + (subseqSegmentDist mr m false).toNat ≤
            (subseqSegmentDist ml m false).toNat + (subseqSegmentDist mr m true).toNat
        · have := Nat.mul_le_mul_right c.sloss hle
          simp [hle, this]
        · have hlt : (subseqSegmentDist ml m false).toNat + (subseqSegmentDist mr m true).toNat ≤
              (subseqSegmentDist ml m true).toNat + (subseqSegmentDist mr m false).toNat := by omega
          have := Nat.mul_le_mul_right c.sloss hlt
          simp only [hle, if_false]
          split
          · omega
          · rfl
      | hgt =>
        rw [comparable_eq_isAnc_of_hgt hev]
        cases hx : isAnc s x <;>
          simp [localOrdLosses, addDist, n1, n2, n3, n4, Nat.add_mul]
    · rw [f1, f2, gl_inf_right]
      cases hev : internalEvent s x y <;> cases hk : comparable s x <;>
        simp [localOrdLosses, addDist, q1, q2]
  · rw [e1, e2, gl_inf_left]
    cases hev : internalEvent s x y <;> cases hk : comparable s x <;>
      simp [localOrdLosses, addDist, p1, p2]

/-! ### Whole solutions -/

/-- All masks of a labelled solution are non-empty. -/
def NZ : LSol Nat → Prop
  | .leaf _ m => m ≠ 0
  | .node _ m l r => m ≠ 0 ∧ NZ l ∧ NZ r

/-- All masks fit the root order. -/
def Fits (n : Nat) : LSol Nat → Prop
  | .leaf _ m => m < 2 ^ n
  | .node _ m l r => m < 2 ^ n ∧ Fits n l ∧ Fits n r

theorem NZ.lab_ne {ls : LSol Nat} (h : NZ ls) : ls.lab ≠ 0 := by
  cases ls with
  | leaf => exact h
  | node => exact h.1

/-- The evaluator's ordered loss count, on masks. -/
def ordLossesM : LSol Nat → Option Nat
  | .leaf _ _ => some 0
  | .node s m l r =>
    match localOrdLosses (internalEvent s l.sp r.sp) (comparable s l.sp) m l.lab r.lab,
          ordLossesM l, ordLossesM r with
    | some a, some b, some d => some (a + b + d)
    | _, _, _ => none

theorem annOrd_data_irrel (c : Costs) (a a' la la' ra ra' : OrdAnn) (s x y : Path) (m ml mr : Nat) :
    genLocal (ordAlg c) c a s m la x ml ra y mr = genLocal (ordAlg c) c a' s m la' x ml ra' y mr := rfl

/-- The generic cost of a mask labelling with non-empty masks is the evaluated cost
    of the reconciliation plus `sloss` times the evaluator's loss count. -/
theorem labCost_ord (c : Costs) (S : RTree) (base : Bool) (order : List Nat) (o : OTree) :
    ∀ (isRoot : Bool) (ls : LSol Nat), Adm (ordAlg c) (annOrd S base order isRoot o) ls → NZ ls →
      labCost (ordAlg c) c (annOrd S base order isRoot o) ls =
        match ordLossesM ls with
        | some k => recCost c o (ordSol order ls) + .fin (k * c.sloss)
        | none => .inf := by
  induction o with
  | leaf sp f =>
    intro isRoot ls h _
    cases ls with
    | node => simp [annOrd, Adm] at h
    | leaf s lab =>
      simp only [annOrd, Adm] at h
      simp [annOrd, labCost, ordLossesM, ordSol, recCost, h.1]
  | node l r ihl ihr =>
    intro isRoot ls h hnz
    cases ls with
    | leaf => simp [annOrd, Adm] at h
    | node s m x y =>
      simp only [annOrd, Adm] at h
      simp only [NZ] at hnz
      simp only [annOrd, labCost, ordLossesM, ordSol, recCost_node, ordSol_sp,
        ihl false x h.2.2.1 hnz.2.1, ihr false y h.2.2.2 hnz.2.2,
        gl_ord c _ _ _ s x.sp y.sp m x.lab y.lab hnz.2.1.lab_ne hnz.2.2.lab_ne]
      cases localOrdLosses (internalEvent s x.sp y.sp) (comparable s x.sp) m x.lab y.lab with
      | none => simp
      | some k =>
        cases ordLossesM x with
        | none => simp
        | some kx =>
          cases ordLossesM y with
          | none => simp
          | some ky =>
            simp only []
            have : (k + kx + ky) * c.sloss = k * c.sloss + (kx * c.sloss + ky * c.sloss) := by
              simp only [Nat.add_mul]; omega
            rw [this, ← fin_add_fin_eq, ← fin_add_fin_eq]
            ac_rfl

theorem fits_of_adm (c : Costs) (S : RTree) (base : Bool) (order : List Nat) (o : OTree) :
    ∀ (isRoot : Bool) (ls : LSol Nat), Adm (ordAlg c) (annOrd S base order isRoot o) ls →
      Fits order.length ls := by
  induction o with
  | leaf sp f =>
    intro isRoot ls h
    cases ls with
    | node => simp [annOrd, Adm] at h
    | leaf s lab =>
      simp only [annOrd, Adm, ordAlg] at h
      simp only [Fits, h.2]
      exact mask_lt order f
  | node l r ihl ihr =>
    intro isRoot ls h
    cases ls with
    | leaf => simp [annOrd, Adm] at h
    | node s m x y =>
      simp only [annOrd, Adm] at h
      refine ⟨?_, ihl false x h.2.2.1, ihr false y h.2.2.2⟩
      have hm := h.2.1
      simp only [ordAlg] at hm
      have hpos : 0 < 2 ^ order.length := Nat.pos_of_ne_zero (by simp)
      split at hm
      · simp only [List.mem_singleton] at hm; omega
      · simpa using hm

theorem ordSol_fam (order : List Nat) (ls : LSol Nat) :
    (ordSol order ls).fam = (subseqFromMask ls.lab order).getD [] := by
  cases ls <;> rfl

theorem mask_roundtrip {order : List Nat} (hnd : order.Nodup) {m : Nat} (h : m < 2 ^ order.length) :
    maskFromSubseq ((subseqFromMask m order).getD []) order = m := by
  obtain ⟨child, h1, _, h3⟩ := roundtrip_mask order hnd m h
  rw [h1]; exact h3

theorem Fits.lab_lt {n : Nat} {ls : LSol Nat} (h : Fits n ls) : ls.lab < 2 ^ n := by
  cases ls with
  | leaf => exact h
  | node => exact h.1

/-- On a decoded solution the evaluator's loop computes the mask-level count. -/
theorem ordLosses_ordSol {order : List Nat} (hnd : order.Nodup) :
    ∀ (ls : LSol Nat) (m : Nat), Fits order.length ls → m = ls.lab →
      ordLosses order m (ordSol order ls) = ordLossesM ls := by
  intro ls
  induction ls with
  | leaf s lab => intro m _ _; rfl
  | node s lab x y ihx ihy =>
    intro m hf hm
    simp only [Fits] at hf
    simp only [LSol.lab] at hm
    subst hm
    simp only [ordSol, ordLosses, ordLossesM, ordSol_sp, ordSol_fam,
      mask_roundtrip hnd hf.2.1.lab_lt, mask_roundtrip hnd hf.2.2.lab_lt]
    rw [ihx _ hf.2.1 rfl, ihy _ hf.2.2 rfl]
    generalize localOrdLosses (internalEvent s x.sp y.sp) (comparable s x.sp) m x.lab y.lab = A
    generalize ordLossesM x = B
    generalize ordLossesM y = C
    cases A <;> cases B <;> cases C <;> rfl

/-- **Bridge for whole solutions**: for an admissible mask labelling with non-empty
    masks and complete root mask, the generic cost is the evaluator's total cost of
    the decoded solution. -/
theorem totalCost_ordSol (c : Costs) (S : RTree) (base : Bool) {order : List Nat} (hnd : order.Nodup)
    (o : OTree) (ls : LSol Nat) (hadm : Adm (ordAlg c) (annOrd S base order true o) ls)
    (hnz : NZ ls) (hroot : ls.lab = 2 ^ order.length - 1) :
    totalCost c .ordered o (ordSol order ls) = labCost (ordAlg c) c (annOrd S base order true o) ls := by
  rw [labCost_ord c S base order o true ls hadm hnz]
  have hfit := fits_of_adm c S base order o true ls hadm
  have hfam : (ordSol order ls).fam = order := by
    rw [ordSol_fam, hroot]
    have := roundtrip_seq order order (List.Sublist.refl _)
    rw [mask_self] at this
    unfold subseqComplete at this
    rw [this]; rfl
  simp only [totalCost, labelingCost, hfam]
  rw [ordLosses_ordSol hnd ls _ hfit (by rw [hroot]; rfl)]
  cases ordLossesM ls <;> simp

/-! ### Finite cost forces non-empty masks -/

/-- Leaf syntenies are non-empty subsequences of the root order. -/
def LeavesOk (order : List Nat) : OTree → Prop
  | .leaf _ f => f ≠ [] ∧ f.Sublist order
  | .node l r => LeavesOk order l ∧ LeavesOk order r

theorem nz_of_finite (c : Costs) (S : RTree) (base : Bool) (order : List Nat) (o : OTree)
    (hlv : LeavesOk order o) :
    ∀ (isRoot : Bool) (ls : LSol Nat), Adm (ordAlg c) (annOrd S base order isRoot o) ls →
      labCost (ordAlg c) c (annOrd S base order isRoot o) ls ≠ .inf → NZ ls := by
  induction o with
  | leaf sp f =>
    intro isRoot ls h _
    cases ls with
    | node => simp [annOrd, Adm] at h
    | leaf s lab =>
      simp only [annOrd, Adm, ordAlg] at h
      simp only [NZ, h.2]
      exact mask_ne_zero order f hlv.1 hlv.2
  | node l r ihl ihr =>
    intro isRoot ls h hfin
    cases ls with
    | leaf => simp [annOrd, Adm] at h
    | node s m x y =>
      simp only [annOrd, Adm] at h
      simp only [annOrd, labCost] at hfin
      obtain ⟨hg, hsub⟩ := add_ne_inf hfin
      obtain ⟨hxf, hyf⟩ := add_ne_inf hsub
      have nx := ihl hlv.1 false x h.2.2.1 hxf
      have ny := ihr hlv.2 false y h.2.2.2 hyf
      refine ⟨?_, nx, ny⟩
      -- the edge to the left child is finite in some form, so its mask is contained in `m`
      unfold genLocal at hg
      rcases ord_costs (c := c)
        (a := { isRoot := isRoot, leafMask := 0,
                allowed := if base then [(lcaSol (.node l r)).sp] else (allSpecies S).reverse,
                nfam := order.length })
        (ca := (annOrd S base order false l).data) (m := m) nx.lab_ne with
        ⟨hc, _⟩ | ⟨_, e1, e2, _⟩
      · exact ne_zero_of_contained nx.lab_ne hc
      · rw [e1, e2, gl_inf_left] at hg; exact absurd rfl hg

end SR
