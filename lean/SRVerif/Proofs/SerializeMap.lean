/-
  C11: round trips of the name-keyed mappings (tree mappings, synteny
  mappings, cost tables).
-/
import SRVerif.Proofs.Serialize

namespace SR.Ser

instance instDecEqExcept {ε α : Type} [DecidableEq ε] [DecidableEq α] : DecidableEq (Except ε α)
  | .ok a, .ok b => if h : a = b then isTrue (h ▸ rfl) else isFalse (fun e => h (Except.ok.inj e))
  | .error a, .error b =>
    if h : a = b then isTrue (h ▸ rfl) else isFalse (fun e => h (Except.error.inj e))
  | .ok _, .error _ => isFalse (fun e => by cases e)
  | .error _, .ok _ => isFalse (fun e => by cases e)

theorem nodup_map_of_inj_on {α β : Type} (f : α → β) :
    ∀ {l : List α}, l.Nodup → (∀ a ∈ l, ∀ b ∈ l, f a = f b → a = b) → (l.map f).Nodup
  | [], _, _ => by simp
  | x :: l, h, hinj => by
    simp only [List.nodup_cons] at h
    simp only [List.map_cons, List.nodup_cons, List.mem_map, not_exists, not_and]
    refine ⟨fun y hy hf => ?_, nodup_map_of_inj_on f h.2
      (fun a ha b hb => hinj a (List.mem_cons_of_mem _ ha) b (List.mem_cons_of_mem _ hb))⟩
    have := hinj y (List.mem_cons_of_mem _ hy) x List.mem_cons_self hf
    exact h.1 (this ▸ hy)

theorem mapM_map_ok {α β : Type} (g : α → β) (f : β → Except Err α) :
    ∀ (l : List α), (∀ x ∈ l, f (g x) = .ok x) → (l.map g).mapM f = .ok l
  | [], _ => rfl
  | x :: l, h => by
    have h1 := h x List.mem_cons_self
    have h2 := mapM_map_ok g f l (fun y hy => h y (List.mem_cons_of_mem _ hy))
    simp only [List.map_cons, List.mapM_cons, h1, h2]
    rfl

theorem find_name {t : NT} (hu : t.UniqueNames) {p : Path} (hp : (t.sub p).isSome) :
    find t (t.nameAt p) = .ok p := by
  obtain ⟨s, hs⟩ := Option.isSome_iff_exists.1 hp
  simp [find, NT.nameAt_of_sub hs, NT.findPath_name hu hs]

theorem nameAt_inj {t : NT} (hu : t.UniqueNames) {p q : Path} (hp : (t.sub p).isSome)
    (hq : (t.sub q).isSome) (h : t.nameAt p = t.nameAt q) : p = q := by
  obtain ⟨a, ha⟩ := Option.isSome_iff_exists.1 hp
  obtain ⟨b, hb⟩ := Option.isSome_iff_exists.1 hq
  rw [NT.nameAt_of_sub ha, NT.nameAt_of_sub hb] at h
  exact NT.path_eq_of_name_eq hu ha hb h

/-- Keys are pairwise distinct nodes of the tree. -/
def KeysIn (t : NT) {ν : Type} (m : List (Path × ν)) : Prop :=
  (m.map (·.1)).Nodup ∧ ∀ x ∈ m, (t.sub x.1).isSome

instance (t : NT) {ν : Type} (m : List (Path × ν)) : Decidable (KeysIn t m) := by
  unfold KeysIn; infer_instance

/-- A tree mapping between two trees: distinct nodes of the first tree to nodes of the second. -/
def TreeMappingWF (ft tt : NT) (m : TreeMapping) : Prop :=
  KeysIn ft m ∧ ∀ x ∈ m, (tt.sub x.2).isSome

instance (ft tt : NT) (m : TreeMapping) : Decidable (TreeMappingWF ft tt m) := by
  unfold TreeMappingWF; infer_instance

theorem names_nodup_of_keysIn {t : NT} (hu : t.UniqueNames) {ν μ : Type} {m : List (Path × ν)}
    (hk : KeysIn t m) (g : Path × ν → μ) :
    ((m.map (fun x => (t.nameAt x.1, g x))).map (·.1)).Nodup := by
  rw [List.map_map]
  have : ((fun x : String × μ => x.1) ∘ fun x : Path × ν => (t.nameAt x.1, g x))
      = (fun p => t.nameAt p) ∘ (fun x : Path × ν => x.1) := rfl
  rw [this, ← List.map_map]
  refine nodup_map_of_inj_on _ hk.1 ?_
  intro a ha b hb h
  obtain ⟨x, hx, rfl⟩ := List.mem_map.1 ha
  obtain ⟨y, hy, rfl⟩ := List.mem_map.1 hb
  exact nameAt_inj hu (hk.2 x hx) (hk.2 y hy) h

theorem serializeTreeMapping_eq {ft tt : NT} (hu : ft.UniqueNames) {m : TreeMapping}
    (hk : KeysIn ft m) :
    serializeTreeMapping ft tt m = m.map (fun x => (ft.nameAt x.1, tt.nameAt x.2)) := by
  unfold serializeTreeMapping
  exact Dict.ofList_nodup _ (names_nodup_of_keysIn hu hk (fun x => tt.nameAt x.2))

/-- `parse_tree_mapping ∘ serialize_tree_mapping` is the identity. -/
theorem parse_serialize_treeMapping {ft tt : NT} (hf : ft.UniqueNames) (ht : tt.UniqueNames)
    {m : TreeMapping} (hm : TreeMappingWF ft tt m) :
    parseTreeMapping ft tt (serializeTreeMapping ft tt m) = .ok m := by
  rw [serializeTreeMapping_eq hf hm.1]
  unfold parseTreeMapping
  have := mapM_map_ok (fun x : Path × Path => (ft.nameAt x.1, tt.nameAt x.2))
    (fun x => do
      let a ← find ft x.1
      let b ← find tt x.2
      pure (a, b)) m (by
        intro x hx
        simp only [find_name hf (hm.1.2 x hx), find_name ht (hm.2 x hx)]
        rfl)
  rw [this]
  show Except.ok (Dict.ofList m) = Except.ok m
  rw [Dict.ofList_nodup m hm.1.1]

/-! ### Syntenies -/

/-- What a synteny mapping reads back as: sets have become sorted lists. -/
def normSyn (m : SynMapping) : SynMapping := m.map (fun x => (x.1, Syn.lst x.2.serial))

theorem serializeSynMapping_eq {t : NT} (hu : t.UniqueNames) {m : SynMapping} (hk : KeysIn t m) :
    serializeSynMapping t m = m.map (fun x => (t.nameAt x.1, x.2.serial)) := by
  unfold serializeSynMapping
  exact Dict.ofList_nodup _ (names_nodup_of_keysIn hu hk (fun x => x.2.serial))

theorem keysIn_normSyn {t : NT} {m : SynMapping} (hk : KeysIn t m) : KeysIn t (normSyn m) := by
  unfold KeysIn normSyn
  simp only [List.map_map, List.mem_map]
  refine ⟨by simpa [Function.comp_def] using hk.1, ?_⟩
  rintro _ ⟨x, hx, rfl⟩
  exact hk.2 x hx

/-- `parse_synteny_mapping ∘ serialize_synteny_mapping`: lists verbatim, sets sorted. -/
theorem parse_serialize_synMapping {t : NT} (hu : t.UniqueNames) {m : SynMapping}
    (hk : KeysIn t m) :
    parseSynMapping t (serializeSynMapping t m) = .ok (normSyn m) := by
  rw [serializeSynMapping_eq hu hk]
  unfold parseSynMapping
  have h1 : m.map (fun x => (t.nameAt x.1, x.2.serial))
      = (normSyn m).map (fun x => (t.nameAt x.1, x.2.serial)) := by
    simp [normSyn, List.map_map, Function.comp_def, Syn.serial]
  rw [h1]
  have := mapM_map_ok (fun x : Path × Syn => (t.nameAt x.1, x.2.serial))
    (fun x => do
      let a ← find t x.1
      pure (a, Syn.lst x.2)) (normSyn m) (by
        intro x hx
        simp only [find_name hu ((keysIn_normSyn hk).2 x hx)]
        obtain ⟨y, _, rfl⟩ := List.mem_map.1 hx
        rfl)
  rw [this]
  show Except.ok (Dict.ofList (normSyn m)) = Except.ok (normSyn m)
  rw [Dict.ofList_nodup _ (keysIn_normSyn hk).1]

theorem serialize_normSyn {t : NT} (hu : t.UniqueNames) {m : SynMapping} (hk : KeysIn t m) :
    serializeSynMapping t (normSyn m) = serializeSynMapping t m := by
  rw [serializeSynMapping_eq hu hk, serializeSynMapping_eq hu (keysIn_normSyn hk)]
  simp [normSyn, List.map_map, Function.comp_def, Syn.serial]

theorem normSyn_of_lists {m : SynMapping} (h : ∀ x ∈ m, ∃ l, x.2 = Syn.lst l) : normSyn m = m := by
  unfold normSyn
  conv => rhs; rw [← List.map_id m]
  apply List.map_congr_left
  intro x hx
  obtain ⟨l, hl⟩ := h x hx
  obtain ⟨p, s⟩ := x
  simp only at hl
  subst hl
  rfl

end SR.Ser
