/-
  JSON text layer, the glue with `Model/Serialize.lean`: `dictOfJ (dictToJ d) = some d` for
  every dictionary structure; `dictToJ d` has no repeated key when the five mappings of `d`
  have none; the dictionaries written by `to_dict` have none (`Dict.ofList`).
-/
import SRVerif.Proofs.Json

namespace SR.Json

open SR SR.Ser

/-! ## Reading back what `dictToJ` wrote -/

theorem mapOfJ_map {α : Type} (f : JVal → Option α) (g : α → JVal) (hfg : ∀ a, f (g a) = some a)
    (l : List (String × α)) : mapOfJ f (.obj (l.map (fun x => (x.1, g x.2)))) = some l := by
  simp only [mapOfJ]
  induction l with
  | nil => rfl
  | cons x l ih => simp [List.mapM_cons, hfg, ih]

theorem strListOfJ_map (l : List String) : strListOfJ (.arr (l.map .str)) = some l := by
  simp only [strListOfJ]
  induction l with
  | nil => rfl
  | cons x l ih => simp [List.mapM_cons, strOfJ, ih]

theorem costOfJ_costToJ (c : Cost) : costOfJ (costToJ c) = some c := by
  cases c <;> rfl

theorem strMap_back (l : List (String × String)) : mapOfJ strOfJ (strMapToJ l) = some l :=
  mapOfJ_map strOfJ .str (fun _ => rfl) l

theorem costMap_back (l : List (String × Cost)) : mapOfJ costOfJ (costMapToJ l) = some l :=
  mapOfJ_map costOfJ costToJ costOfJ_costToJ l

theorem synMap_back (l : List (String × List String)) : mapOfJ strListOfJ (synMapToJ l) = some l :=
  mapOfJ_map strListOfJ (fun x => .arr (x.map .str)) strListOfJ_map l

theorem inputOfJ_inputToJ (d : InputDict) : inputOfJ (inputToJ d) = some d := by
  obtain ⟨ot, st, los, costs, ls⟩ := d
  cases los <;> cases costs <;> cases ls <;>
    simp [inputOfJ, inputToJ, optField, lookupJ, optOfJ, strOfJ, strMap_back, costMap_back,
      synMap_back]

/-- Reading by key what `dictToJ` wrote gives the dictionary back, whatever it holds. -/
theorem dictOfJ_dictToJ (d : OutputDict) : dictOfJ (dictToJ d) = some d := by
  obtain ⟨inp, os, syn, ord⟩ := d
  cases syn <;> cases ord <;>
    simp [dictOfJ, dictToJ, optField, lookupJ, optOfJ, boolOfJ, inputOfJ_inputToJ, strMap_back,
      synMap_back]

/-! ## No repeated key -/

/-- The keys of a mapping are pairwise distinct. -/
def KeysNodup {α : Type} (l : List (String × α)) : Prop := (l.map (·.1)).Nodup

instance {α : Type} (l : List (String × α)) : Decidable (KeysNodup l) :=
  inferInstanceAs (Decidable (List.Nodup _))

def optKeysNodup {α : Type} : Option (List (String × α)) → Prop
  | none => True
  | some l => KeysNodup l

instance {α : Type} (o : Option (List (String × α))) : Decidable (optKeysNodup o) := by
  cases o <;> unfold optKeysNodup <;> infer_instance

/-- The five mappings of an output dictionary are Python `dict`s: no key twice. -/
def DictOk (d : OutputDict) : Prop :=
  optKeysNodup d.input.leaf_object_species ∧ optKeysNodup d.input.costs ∧
  optKeysNodup d.input.leaf_syntenies ∧ KeysNodup d.object_species ∧ optKeysNodup d.syntenies

instance (d : OutputDict) : Decidable (DictOk d) := by unfold DictOk; infer_instance

theorem wf_mapped {α : Type} (g : α → JVal) (hg : ∀ a, (g a).wf = true) (l : List (String × α))
    (h : KeysNodup l) : (JVal.obj (l.map (fun x => (x.1, g x.2)))).wf = true := by
  have hw : ∀ l : List (String × α), wfM (l.map (fun x => (x.1, g x.2))) = true := by
    intro l
    induction l with
    | nil => rfl
    | cons x l ih => simp only [List.map_cons, wfM, hg, Bool.true_and, ih]
  have hw := hw l
  have hk : keysM (l.map (fun x => (x.1, g x.2))) = l.map (·.1) := by
    rw [keysM_eq]; simp [List.map_map, Function.comp_def]
  simp only [JVal.wf, hk, hw, Bool.and_true, decide_eq_true_eq]
  exact h

theorem wf_strs (l : List String) : (JVal.arr (l.map .str)).wf = true := by
  simp only [JVal.wf]
  induction l with
  | nil => rfl
  | cons x l ih => simp [wfL, JVal.wf, ih]

theorem wf_strMap (l : List (String × String)) (h : KeysNodup l) : (strMapToJ l).wf = true :=
  wf_mapped .str (fun _ => rfl) l h

theorem wf_costMap (l : List (String × Cost)) (h : KeysNodup l) : (costMapToJ l).wf = true :=
  wf_mapped costToJ (fun c => by cases c <;> rfl) l h

theorem wf_synMap (l : List (String × List String)) (h : KeysNodup l) : (synMapToJ l).wf = true :=
  wf_mapped (fun x : List String => JVal.arr (x.map JVal.str)) wf_strs l h

theorem wf_inputToJ (d : InputDict) (h1 : optKeysNodup d.leaf_object_species)
    (h2 : optKeysNodup d.costs) (h3 : optKeysNodup d.leaf_syntenies) : (inputToJ d).wf = true := by
  obtain ⟨ot, st, los, costs, ls⟩ := d
  cases los <;> cases costs <;> cases ls <;>
    simp_all [inputToJ, optField, JVal.wf, wfM, keysM, optKeysNodup, wf_strMap, wf_costMap,
      wf_synMap]

/-- A dictionary structure whose mappings have no repeated key is written as a JSON value
    without repeated keys. -/
theorem wf_dictToJ (d : OutputDict) (h : DictOk d) : WFJ (dictToJ d) := by
  obtain ⟨inp, os, syn, ord⟩ := d
  obtain ⟨h1, h2, h3, h4, h5⟩ := h
  have hi := wf_inputToJ inp h1 h2 h3
  cases syn <;> cases ord <;>
    simp_all [WFJ, dictToJ, optField, JVal.wf, wfM, keysM, optKeysNodup, wf_strMap, wf_synMap]

/-! ## `to_dict` writes Python dicts -/

theorem set_keys {ν : Type} (d : List (String × ν)) (k : String) (v : ν) :
    (Dict.set d k v).map (·.1) = if k ∈ d.map (·.1) then d.map (·.1) else d.map (·.1) ++ [k] := by
  induction d with
  | nil => simp [Dict.set]
  | cons x d ih =>
    obtain ⟨k', v'⟩ := x
    by_cases hk : k' = k
    · subst hk; simp [Dict.set]
    · have hk' : ¬ k = k' := fun e => hk e.symm
      simp only [Dict.set, beq_iff_eq, hk, if_false, List.map_cons, ih, List.mem_cons, hk', false_or]
      split <;> simp

theorem ofList_keysNodup {ν : Type} (l : List (String × ν)) : KeysNodup (Dict.ofList l) := by
  unfold Dict.ofList KeysNodup
  suffices ∀ acc : List (String × ν), (acc.map (·.1)).Nodup →
      ((l.foldl (fun d kv => Dict.set d kv.1 kv.2) acc).map (·.1)).Nodup from this [] (by simp)
  induction l with
  | nil => intro acc h; exact h
  | cons x l ih =>
    intro acc h
    apply ih
    rw [set_keys]
    split
    · exact h
    · rename_i hn
      rw [List.nodup_append]
      exact ⟨h, by simp, fun a ha b hb => by
        simp only [List.mem_singleton] at hb
        subst hb
        exact fun e => hn (e ▸ ha)⟩

theorem dictOk_inputToDict (write : NT → String) (x : AnyInput) :
    optKeysNodup (x.toDict write).leaf_object_species ∧ optKeysNodup (x.toDict write).costs ∧
    optKeysNodup (x.toDict write).leaf_syntenies := by
  cases x with
  | plain i =>
    exact ⟨ofList_keysNodup _, ofList_keysNodup _, trivial⟩
  | super i =>
    exact ⟨ofList_keysNodup _, ofList_keysNodup _, ofList_keysNodup _⟩

/-- `ReconciliationOutput.to_dict()` has no repeated key. -/
theorem dictOk_recOutput (write : NT → String) (x : RecOutput) : DictOk (x.toDict write) := by
  obtain ⟨h1, h2, h3⟩ := dictOk_inputToDict write x.input
  exact ⟨h1, h2, h3, ofList_keysNodup _, trivial⟩

/-- `SuperReconciliationOutput.to_dict()` has no repeated key. -/
theorem dictOk_srecOutput (write : NT → String) (x : SRecOutput) : DictOk (x.toDict write) := by
  obtain ⟨h1, h2, h3⟩ := dictOk_inputToDict write x.input
  exact ⟨h1, h2, h3, ofList_keysNodup _, ofList_keysNodup _⟩

end SR.Json
