/-
  The threaded table of `_compute_uspfs_table` (code model, `computeTable`): after the
  post-order loop, the entry at (object node, species, kind) is `cellSpec` of the object
  subtree at that node — for EVERY node of the object tree (`computeTable_ok`), so the
  decoder, which reads the final table, sees `cellSpec` everywhere.

  Needs only that the species handed out by `allowed_species` for one node are pairwise
  distinct (`AllowedNodup`: a post-order traversal / a single species), i.e. that every
  entry is written by ONE `update(…)` batch.
-/
import SRVerif.Proofs.UspfsCodeCell

namespace SR.UspfsCode

open SR

/-! ### Reading after writing -/

theorem cellAt_cons (key : Key) (e : Entry CAsg) (T : Table) (v s : Path) (k : Kind) :
    cellAt ((key, e) :: T) v s k = if (v, s, k) = key then some e else cellAt T v s k := by
  unfold cellAt
  rw [List.lookup_cons]
  by_cases h : (v, s, k) = key
  · rw [if_pos h, h]; simp
  · rw [if_neg h]
    have : ((v, s, k) == key) = false := by
      cases hh : ((v, s, k) == key)
      · rfl
      · exact absurd (eq_of_beq hh) h
    rw [this]

theorem cellAt_tupdate (pol : Retain) (T : Table) (v s : Path) (k : Kind) (batch : List (Cand CAsg))
    (v' s' : Path) (k' : Kind) :
    cellAt (tupdate pol T v s k batch) v' s' k' =
      if (v', s', k') = (v, s, k) then Cell.update .min pol (cellAt T v s k) batch
      else cellAt T v' s' k' := by
  unfold tupdate
  cases h : Cell.update .min pol (cellAt T v s k) batch with
  | some e => simp only [cellAt_cons]
  | none =>
    by_cases hk : (v', s', k') = (v, s, k)
    · rw [if_pos hk]
      simp only [Prod.mk.injEq] at hk
      obtain ⟨rfl, rfl, rfl⟩ := hk
      unfold Cell.update at h
      split at h
      · cases h
      · exact h
    · rw [if_neg hk]

/-! ### One call of `_compute_uspfs_entry` -/

theorem cellAt_computeEntry (c : Costs) (S : RTree) (s v : Path) (rootSet lSet rSet : List Nat)
    (T : Table) (v' s' : Path) (k' : Kind) :
    cellAt (computeEntry .all c S s v rootSet lSet rSet T) v' s' k' =
      if v' = v ∧ s' = s then
        Cell.update .min .all (cellAt T v s k')
          (entryBatch c ((childSub .all c S (cellAt T (v ++ [0])) s rootSet lSet).get k')
            ((childSub .all c S (cellAt T (v ++ [1])) s rootSet rSet).get k'))
      else cellAt T v' s' k' := by
  simp only [computeEntry, List.foldl_cons, List.foldl_nil, cellAt_tupdate, Prod.mk.injEq]
  by_cases h : v' = v ∧ s' = s
  · obtain ⟨rfl, rfl⟩ := h
    cases k' <;> simp
  · rw [if_neg h]
    have h1 : ¬ (v' = v ∧ s' = s ∧ k' = Kind.inh) := fun hh => h ⟨hh.1, hh.2.1⟩
    have h2 : ¬ (v' = v ∧ s' = s ∧ k' = Kind.lca) := fun hh => h ⟨hh.1, hh.2.1⟩
    rw [if_neg h1, if_neg h2]

/-- The loop over `allowed_species(…)` for one object node. -/
theorem cellAt_allowed (c : Costs) (S : RTree) (v : Path) (a la ra : UnAnn) (rowL rowR : Row) :
    ∀ (al : List Path) (T : Table), al.Nodup →
      cellAt T (v ++ [0]) = rowL → cellAt T (v ++ [1]) = rowR →
      (∀ s ∈ al, ∀ k, cellAt T v s k = none) →
      let T' := al.foldl (fun T s => computeEntry .all c S s v a.lcaSet la.lcaSet ra.lcaSet T) T
      (∀ v' s' k', (v' ≠ v ∨ s' ∉ al) → cellAt T' v' s' k' = cellAt T v' s' k') ∧
      (∀ s' ∈ al, ∀ k', cellAt T' v s' k' =
        Cell.update .min .all none (nodeBatch c S a la ra rowL rowR s' k')) := by
  intro al
  induction al with
  | nil => intro T _ _ _ _; simp
  | cons s rest ih =>
    intro T hnd hL hR hfresh
    rw [List.nodup_cons] at hnd
    have hne0 : v ++ [0] ≠ v := by intro h; have := congrArg List.length h; simp at this
    have hne1 : v ++ [1] ≠ v := by intro h; have := congrArg List.length h; simp at this
    let T1 := computeEntry .all c S s v a.lcaSet la.lcaSet ra.lcaSet T
    have hL1 : cellAt T1 (v ++ [0]) = rowL := by
      funext s' k'
      rw [cellAt_computeEntry, if_neg (fun h => hne0 h.1), hL]
    have hR1 : cellAt T1 (v ++ [1]) = rowR := by
      funext s' k'
      rw [cellAt_computeEntry, if_neg (fun h => hne1 h.1), hR]
    have hfresh1 : ∀ s' ∈ rest, ∀ k, cellAt T1 v s' k = none := by
      intro s' hs' k
      rw [cellAt_computeEntry, if_neg, hfresh s' (List.mem_cons_of_mem _ hs') k]
      rintro ⟨_, rfl⟩; exact hnd.1 hs'
    have := ih T1 hnd.2 hL1 hR1 hfresh1
    simp only [List.foldl_cons]
    refine ⟨?_, ?_⟩
    · intro v' s' k' h
      rw [this.1 v' s' k' (by
        rcases h with h | h
        · exact Or.inl h
        · exact Or.inr (fun hh => h (List.mem_cons_of_mem _ hh)))]
      rw [cellAt_computeEntry, if_neg]
      rintro ⟨rfl, rfl⟩
      rcases h with h | h
      · exact h rfl
      · exact h (List.mem_cons_self ..)
    · intro s' hs' k'
      rcases List.mem_cons.mp hs' with rfl | hs'
      · rw [this.1 v s' k' (Or.inr hnd.1), cellAt_computeEntry, if_pos ⟨rfl, rfl⟩,
          hfresh s' (List.mem_cons_self ..) k', hL, hR]
        rfl
      · exact this.2 s' hs' k'

/-! ### The whole post-order loop -/

/-- The subtree of an annotated object tree at a path. -/
def subAt : ATree UnAnn → Path → Option (ATree UnAnn)
  | t, [] => some t
  | .leaf _ _, _ :: _ => none
  | .node _ l r, i :: q => if i = 0 then subAt l q else if i = 1 then subAt r q else none

theorem subAt_nil (t : ATree UnAnn) : subAt t [] = some t := by cases t <;> rfl

/-- `allowed_species` hands out pairwise distinct species for each object node. -/
def AllowedNodup : ATree UnAnn → Prop
  | .leaf _ _ => True
  | .node a l r => a.allowed.Nodup ∧ AllowedNodup l ∧ AllowedNodup r

theorem not_prefix_sibling {v q : Path} {i j : Nat} (hij : i ≠ j) : ¬ (v ++ [i]) <+: (v ++ j :: q) := by
  rintro ⟨w, hw⟩
  rw [List.append_assoc] at hw
  have := List.append_cancel_left hw
  simp only [List.cons_append, List.nil_append, List.cons.injEq] at this
  exact hij this.1

theorem not_prefix_self {v : Path} {i : Nat} : ¬ (v ++ [i]) <+: v := by
  intro h; have := h.length_le; simp at this; omega

theorem prefix_child {v v' : Path} {i : Nat} (h : (v ++ [i]) <+: v') : v <+: v' :=
  (List.prefix_append v [i]).trans h

/-- **The threaded table holds `cellSpec` at every object node of the processed subtree**, and
    nothing outside that subtree is touched. -/
theorem computeTable_ok (c : Costs) (S : RTree) :
    ∀ (t : ATree UnAnn) (v : Path) (T : Table), AllowedNodup t →
      (∀ v' s k, v <+: v' → cellAt T v' s k = none) →
      (∀ v' s k, ¬ v <+: v' → cellAt (computeTable .all c S t v T) v' s k = cellAt T v' s k) ∧
      (∀ q tq, subAt t q = some tq → ∀ s k,
        cellAt (computeTable .all c S t v T) (v ++ q) s k = cellSpec c S tq s k) := by
  intro t
  induction t with
  | leaf a sp =>
    intro v T _ hfresh
    simp only [computeTable]
    refine ⟨?_, ?_⟩
    · intro v' s k hv'
      rw [cellAt_tupdate, if_neg]
      intro h
      simp only [Prod.mk.injEq] at h
      exact hv' (h.1 ▸ List.prefix_refl _)
    · intro q tq hq s k
      cases q with
      | cons _ _ => simp [subAt] at hq
      | nil =>
        simp only [subAt_nil, Option.some.injEq] at hq
        subst hq
        rw [List.append_nil, cellAt_tupdate, hfresh v sp .lca (List.prefix_refl _)]
        simp only [cellSpec, Prod.mk.injEq, true_and]
        by_cases h : s = sp ∧ k = .lca
        · rw [if_pos h, if_pos h]
        · rw [if_neg h, if_neg h]; exact hfresh v s k (List.prefix_refl _)
  | node a l r ihl ihr =>
    intro v T hnd hfresh
    obtain ⟨hnda, hndl, hndr⟩ := hnd
    simp only [computeTable]
    -- left subtree
    have hfreshL : ∀ v' s k, (v ++ [0]) <+: v' → cellAt T v' s k = none :=
      fun v' s k h => hfresh v' s k (prefix_child h)
    obtain ⟨frame1, ok1⟩ := ihl (v ++ [0]) T hndl hfreshL
    -- right subtree
    have hfreshR : ∀ v' s k, (v ++ [1]) <+: v' →
        cellAt (computeTable .all c S l (v ++ [0]) T) v' s k = none := by
      intro v' s k h
      rw [frame1 v' s k]
      · exact hfresh v' s k (prefix_child h)
      · intro h0
        obtain ⟨w, rfl⟩ := h
        rw [List.append_assoc] at h0
        exact not_prefix_sibling (by decide) h0
    obtain ⟨frame2, ok2⟩ := ihr (v ++ [1]) _ hndr hfreshR
    -- the rows of the children in the table handed to the loop over the species
    have hrowL : cellAt (computeTable .all c S r (v ++ [1]) (computeTable .all c S l (v ++ [0]) T))
        (v ++ [0]) = cellSpec c S l := by
      funext s k
      rw [frame2 _ s k (by
        intro h
        have := not_prefix_sibling (v := v) (q := []) (i := 1) (j := 0) (by decide)
        exact this h)]
      have := ok1 [] l (subAt_nil l) s k
      rwa [List.append_nil] at this
    have hrowR : cellAt (computeTable .all c S r (v ++ [1]) (computeTable .all c S l (v ++ [0]) T))
        (v ++ [1]) = cellSpec c S r := by
      funext s k
      have := ok2 [] r (subAt_nil r) s k
      rwa [List.append_nil] at this
    have hfreshV : ∀ s k, cellAt (computeTable .all c S r (v ++ [1])
        (computeTable .all c S l (v ++ [0]) T)) v s k = none := by
      intro s k
      rw [frame2 v s k not_prefix_self, frame1 v s k not_prefix_self]
      exact hfresh v s k (List.prefix_refl _)
    obtain ⟨frame3, ok3⟩ := cellAt_allowed c S v a l.data r.data _ _ a.allowed _ hnda hrowL hrowR
      (fun s _ k => hfreshV s k)
    refine ⟨?_, ?_⟩
    · intro v' s k hv'
      have hne : v' ≠ v := fun h => hv' (h ▸ List.prefix_refl _)
      rw [frame3 v' s k (Or.inl hne), frame2 v' s k (fun h => hv' (prefix_child h)),
        frame1 v' s k (fun h => hv' (prefix_child h))]
    · intro q tq hq s k
      cases q with
      | nil =>
        simp only [subAt_nil, Option.some.injEq] at hq
        subst hq
        rw [List.append_nil]
        simp only [cellSpec]
        by_cases hs : s ∈ a.allowed
        · rw [if_pos hs]; exact ok3 s hs k
        · rw [if_neg hs, frame3 v s k (Or.inr hs)]; exact hfreshV s k
      | cons i q =>
        have hne : v ++ i :: q ≠ v := by
          intro h; have := congrArg List.length h; simp at this
        rw [frame3 _ s k (Or.inl hne)]
        simp only [subAt] at hq
        by_cases hi0 : i = 0
        · subst hi0
          simp only [if_true] at hq
          rw [frame2 _ s k (not_prefix_sibling (by decide))]
          have := ok1 q tq hq s k
          rwa [List.append_assoc] at this
        · rw [if_neg hi0] at hq
          by_cases hi1 : i = 1
          · subst hi1
            simp only [if_true] at hq
            have := ok2 q tq hq s k
            rwa [List.append_assoc] at this
          · rw [if_neg hi1] at hq; cases hq

end SR.UspfsCode
