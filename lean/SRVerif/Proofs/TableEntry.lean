/-
  Entry-level lemmas for the table model (`Model/Table.lean`): the value of an
  entry does not depend on the retention policy, `iter`, `info`, `eqv`,
  `combineOpt`.
-/
import SRVerif.Model.Table
import SRVerif.Proofs.Entry

set_option linter.unusedSectionVars false

namespace SR.DP

open SR.Entry

variable {τ : Type} [DecidableEq τ]

/-! ### The value is a fold of the values alone -/

/-- One step of the optimum of a sequence of values. -/
def optStep (m : Merge) (v : ExtInt) (c : Cand τ) : ExtInt := if better m v c.value then c.value else v

theorem merge_update (e : Entry τ) (cs : List (Cand τ)) : (Entry.update e cs).merge = e.merge := by
  induction cs generalizing e with
  | nil => rfl
  | cons c cs ih =>
    have : Entry.update e (c :: cs) = Entry.update (update1 e c) cs := by simp [Entry.update]
    rw [this, ih, merge_update1]

theorem retain_update (e : Entry τ) (cs : List (Cand τ)) : (Entry.update e cs).retain = e.retain := by
  induction cs generalizing e with
  | nil => rfl
  | cons c cs ih =>
    have : Entry.update e (c :: cs) = Entry.update (update1 e c) cs := by simp [Entry.update]
    rw [this, ih, retain_update1]

theorem value_update (e : Entry τ) (cs : List (Cand τ)) :
    (Entry.update e cs).value = cs.foldl (optStep e.merge) e.value := by
  induction cs generalizing e with
  | nil => rfl
  | cons c cs ih =>
    have : Entry.update e (c :: cs) = Entry.update (update1 e c) cs := by simp [Entry.update]
    rw [this, ih, merge_update1, value_update1]
    rfl

/-- Two entries with the same merge policy and the same value keep the same value whatever
    their retention policies and tags. -/
theorem value_update_congr (e e' : Entry τ) (hm : e.merge = e'.merge) (hv : e.value = e'.value)
    (cs : List (Cand τ)) : (Entry.update e cs).value = (Entry.update e' cs).value := by
  rw [value_update, value_update, hm, hv]

/-! ### `iter` -/

theorem length_iter (e : Entry τ) : (iter e).length = e.infos.length := by simp [iter]

theorem mem_iter (e : Entry τ) (c : Cand τ) :
    c ∈ iter e ↔ ∃ t ∈ e.infos, c = { value := e.value, info := some t } := by
  simp only [iter, List.mem_map]
  constructor
  · rintro ⟨t, ht, rfl⟩; exact ⟨t, ht, rfl⟩
  · rintro ⟨t, ht, rfl⟩; exact ⟨t, ht, rfl⟩

theorem iter_infos (e : Entry τ) : (iter e).map (·.info) = e.infos.map some := by
  simp [iter, List.map_map, Function.comp_def]

/-! ### `combineOpt` -/

theorem mem_pairs {α β : Type} (l : List α) (l' : List β) (p : α × β) :
    p ∈ l.flatMap (fun x => l'.map (fun y => (x, y))) ↔ p.1 ∈ l ∧ p.2 ∈ l' := by
  simp only [List.mem_flatMap, List.mem_map]
  constructor
  · rintro ⟨x, hx, y, hy, rfl⟩; exact ⟨hx, hy⟩
  · rintro ⟨h1, h2⟩; exact ⟨p.1, h1, p.2, h2, rfl⟩

/-- A combinator that never returns `None` on the pairs of retained tags: `combineOpt` is
    `Entry.combine`. -/
theorem combineOpt_total {σ : Type} [DecidableEq σ] (a b : Entry τ)
    (f : ExtInt → τ → ExtInt → τ → Option (Cand σ)) (g : ExtInt → τ → ExtInt → τ → Cand σ)
    (h : ∀ x ∈ a.infos, ∀ y ∈ b.infos, f a.value x b.value y = some (g a.value x b.value y)) :
    combineOpt a b f = .ok (Entry.combine a b g) := by
  unfold combineOpt Entry.combine
  have hall : (a.infos.flatMap (fun x => b.infos.map (fun y => (x, y)))).all
      (fun p => (f a.value p.1 b.value p.2).isSome) = true := by
    rw [List.all_eq_true]
    intro p hp
    obtain ⟨h1, h2⟩ := (mem_pairs _ _ p).mp hp
    rw [h p.1 h1 p.2 h2]; rfl
  simp only [hall, if_true]
  congr 2
  generalize hps : a.infos.flatMap (fun x => b.infos.map (fun y => (x, y))) = ps
  have hp : ∀ p ∈ ps, f a.value p.1 b.value p.2 = some (g a.value p.1 b.value p.2) := by
    intro p hp
    rw [← hps] at hp
    obtain ⟨h1, h2⟩ := (mem_pairs _ _ p).mp hp
    exact h p.1 h1 p.2 h2
  clear hps hall
  induction ps with
  | nil => rfl
  | cons p ps ih =>
    simp only [List.filterMap_cons, List.map_cons, hp p (by simp)]
    rw [ih (fun q hq => hp q (by simp [hq]))]

/-- As soon as the combinator returns `None` on some pair of retained tags, `combine` raises. -/
theorem combineOpt_none {σ : Type} [DecidableEq σ] (a b : Entry τ)
    (f : ExtInt → τ → ExtInt → τ → Option (Cand σ)) :
    combineOpt a b f = .error .attributeError ↔
      ∃ x ∈ a.infos, ∃ y ∈ b.infos, f a.value x b.value y = none := by
  unfold combineOpt
  constructor
  · intro h
    apply Classical.byContradiction
    intro hne
    have hall : (a.infos.flatMap (fun x => b.infos.map (fun y => (x, y)))).all
        (fun p => (f a.value p.1 b.value p.2).isSome) = true := by
      rw [List.all_eq_true]
      intro p hp
      obtain ⟨h1, h2⟩ := (mem_pairs _ _ p).mp hp
      cases hf : f a.value p.1 b.value p.2 with
      | none => exact absurd ⟨p.1, h1, p.2, h2, hf⟩ hne
      | some c => rfl
    simp [hall] at h
  · rintro ⟨x, hx, y, hy, hn⟩
    have hall : ¬ (a.infos.flatMap (fun x => b.infos.map (fun y => (x, y)))).all
        (fun p => (f a.value p.1 b.value p.2).isSome) = true := by
      rw [List.all_eq_true]
      intro h
      have := h (x, y) ((mem_pairs _ _ (x, y)).mpr ⟨hx, hy⟩)
      simp [hn] at this
    simp [hall]

/-! ### `info`, `eqv`, `entryOf` -/

theorem info_eq_none [Min τ] (e : Entry τ) : info e = none ↔ e.infos = [] := by
  simp [info, List.min?_eq_none_iff]

theorem info_eq_some [Min τ] [LE τ] [Std.IsLinearOrder τ] [Std.LawfulOrderMin τ] (e : Entry τ) (t : τ) :
    info e = some t ↔ t ∈ e.infos ∧ ∀ u ∈ e.infos, t ≤ u := by
  simp [info, List.min?_eq_some_iff]

theorem eqv_iff (a : Entry τ) (v : ExtInt) (infos : List τ) :
    eqv a v infos = true ↔ a.value = v ∧ ∀ t, t ∈ a.infos ↔ t ∈ infos := by
  simp only [eqv, Bool.and_eq_true, decide_eq_true_eq, List.all_eq_true]
  constructor
  · rintro ⟨⟨h1, h2⟩, h3⟩; exact ⟨h1, fun t => ⟨h2 t, h3 t⟩⟩
  · rintro ⟨h1, h2⟩; exact ⟨⟨h1, fun t ht => (h2 t).mp ht⟩, fun t ht => (h2 t).mpr ht⟩

theorem mem_entryOf (v : ExtInt) (infos : List τ) (m : Merge) (r : Retain) (t : τ) :
    t ∈ (entryOf v infos m r).infos ↔ t ∈ infos := by
  simp [entryOf, List.mem_eraseDups]

end SR.DP
