/-
  `_add_losses` as "plan, then apply": the loop of `addLossesLoop` inserts a
  list of loss branches that is a pure function of the paths, and returns the
  key at the top of the chain.
-/
import SRVerif.Proofs.LayoutState

namespace SR.Layout

open SR

/-- The branches `_add_losses` inserts (with their species) and the returned key. -/
def chainPlan (g : Path) (end_ : Option Path) :
    List Nat → Key → Option (List (Path × Branch) × Key)
  | [], prev => if end_ = none then some ([], prev) else none
  | i :: rest, prev =>
    if some rest.reverse = end_ then some ([], prev)
    else
      match chainPlan g end_ rest (.loss g rest.reverse) with
      | some (l, k) => some ((rest.reverse, lossBranch g rest.reverse prev i) :: l, k)
      | none => none

def addPlanned (b : Branch) (x : SpState) : SpState :=
  { branches := x.branches ++ [b], anchors := setAdd x.anchors b.key }

def applyPlan (st : LState) : List (Path × Branch) → LState
  | [] => st
  | (t, b) :: l => applyPlan (modifySp (addPlanned b) st t) l

def planAt (t : Path) (pl : List (Path × Branch)) : List Branch :=
  (pl.filter (fun e => e.1 = t)).map (·.2)

@[simp] theorem planAt_nil (t : Path) : planAt t [] = [] := rfl

theorem planAt_cons (t : Path) (e : Path × Branch) (pl : List (Path × Branch)) :
    planAt t (e :: pl) = if e.1 = t then e.2 :: planAt t pl else planAt t pl := by
  unfold planAt
  by_cases h : e.1 = t <;> simp [h]

@[simp] theorem planAt_append (t : Path) (a b : List (Path × Branch)) :
    planAt t (a ++ b) = planAt t a ++ planAt t b := by
  simp [planAt]

theorem mem_planAt {t : Path} {b : Branch} {pl : List (Path × Branch)} :
    b ∈ planAt t pl ↔ (t, b) ∈ pl := by
  unfold planAt
  simp only [List.mem_map, List.mem_filter, decide_eq_true_eq]
  constructor
  · rintro ⟨⟨t', b'⟩, ⟨h, rfl⟩, rfl⟩; exact h
  · intro h; exact ⟨(t, b), ⟨h, rfl⟩, rfl⟩

theorem skeys_applyPlan (st : LState) (pl : List (Path × Branch)) :
    skeys (applyPlan st pl) = skeys st := by
  induction pl generalizing st with
  | nil => rfl
  | cons e pl ih => obtain ⟨t, b⟩ := e; simp [applyPlan, ih, skeys_modifySp]

theorem addLossAt_eq (g s : Path) (prev : Key) (i : Nat) :
    addLossAt g s prev i = addPlanned (lossBranch g s prev i) := by
  funext x; simp [addLossAt, addPlanned, lossBranch]

theorem addLossesLoop_eq (g : Path) (end_ : Option Path) :
    ∀ (rp : List Nat) (st : LState) (prev : Key) (pl : List (Path × Branch)) (k : Key),
      chainPlan g end_ rp prev = some (pl, k) → (∀ e ∈ pl, e.1 ∈ skeys st) →
      addLossesLoop g end_ rp st prev = .ok (applyPlan st pl, k) := by
  intro rp
  induction rp with
  | nil =>
    intro st prev pl k h _
    simp only [chainPlan] at h
    split at h
    · simp only [Option.some.injEq, Prod.mk.injEq] at h
      obtain ⟨rfl, rfl⟩ := h
      simp [addLossesLoop, applyPlan, *]
    · cases h
  | cons i rest ih =>
    intro st prev pl k h hex
    simp only [chainPlan] at h
    by_cases he : some rest.reverse = end_
    · simp only [he, if_true, Option.some.injEq, Prod.mk.injEq] at h
      obtain ⟨rfl, rfl⟩ := h
      simp [addLossesLoop, he, applyPlan]
    · simp only [he, if_false] at h
      cases hc : chainPlan g end_ rest (.loss g rest.reverse) with
      | none => simp [hc] at h
      | some r =>
        obtain ⟨l, k'⟩ := r
        simp only [hc, Option.some.injEq, Prod.mk.injEq] at h
        obtain ⟨rfl, rfl⟩ := h
        have hmem : rest.reverse ∈ skeys st := hex _ (List.mem_cons_self ..)
        obtain ⟨x, hx⟩ := getSp_some_of_mem hmem
        simp only [addLossesLoop, he, if_false, hx]
        rw [addLossAt_eq]
        have := ih (modifySp (addPlanned (lossBranch g rest.reverse prev i)) st rest.reverse)
          (.loss g rest.reverse) l k' hc
          (by intro e he'; rw [skeys_modifySp]; exact hex e (List.mem_cons_of_mem _ he'))
        rw [this]
        simp [applyPlan]

theorem brs_applyPlan (st : LState) (pl : List (Path × Branch)) (hex : ∀ e ∈ pl, e.1 ∈ skeys st)
    (t : Path) : brs (applyPlan st pl) t = brs st t ++ planAt t pl := by
  induction pl generalizing st with
  | nil => simp [applyPlan]
  | cons e pl ih =>
    obtain ⟨u, b⟩ := e
    have hu : u ∈ skeys st := hex _ (List.mem_cons_self ..)
    obtain ⟨x, hx⟩ := getSp_some_of_mem hu
    simp only [applyPlan]
    rw [ih _ (by intro e he; rw [skeys_modifySp]; exact hex e (List.mem_cons_of_mem _ he))]
    rw [brs_modifySp, planAt_cons]
    by_cases h : t = u
    · subst h
      simp only [if_true, hx, addPlanned]
      have : brs st t = x.branches := by simp [brs, hx]
      simp [this]
    · have h' : ¬ u = t := fun e => h e.symm
      simp [h, h']

theorem ancs_applyPlan (st : LState) (pl : List (Path × Branch)) (hex : ∀ e ∈ pl, e.1 ∈ skeys st)
    (t : Path) (k : Key) (h : k ∈ ancs st t ∨ k ∈ keysOf (planAt t pl)) :
    k ∈ ancs (applyPlan st pl) t := by
  induction pl generalizing st with
  | nil => simpa [applyPlan, keysOf] using h
  | cons e pl ih =>
    obtain ⟨u, b⟩ := e
    have hu : u ∈ skeys st := hex _ (List.mem_cons_self ..)
    obtain ⟨x, hx⟩ := getSp_some_of_mem hu
    simp only [applyPlan]
    apply ih _ (by intro e he; rw [skeys_modifySp]; exact hex e (List.mem_cons_of_mem _ he))
    rw [ancs_modifySp]
    rw [planAt_cons] at h
    by_cases hut : t = u
    · subst hut
      simp only [if_true, hx, addPlanned, mem_setAdd]
      have ha : ancs st t = x.anchors := by simp [ancs, hx]
      rw [ha] at h
      simp only [if_true, keysOf, List.map_cons, List.mem_cons] at h
      rcases h with h | h | h
      · left; left; exact h
      · left; right; exact h
      · right; exact h
    · have h' : ¬ u = t := fun e => hut e.symm
      simp only [hut, if_false]
      simp only [h', if_false] at h
      exact h

theorem end_above_rest {e : Path} {i : Nat} {rest : List Nat}
    (h : ∃ m, m ≠ [] ∧ (i :: rest).reverse = e ++ m) (hne : ¬ rest.reverse = e) :
    ∃ m, m ≠ [] ∧ rest.reverse = e ++ m := by
  obtain ⟨m, hm, hrm⟩ := h
  simp only [List.reverse_cons] at hrm
  rcases List.eq_nil_or_concat m with rfl | ⟨m', x, rfl⟩
  · exact absurd rfl hm
  · rw [List.concat_eq_append, ← List.append_assoc] at hrm
    have := List.append_inj' hrm (by simp)
    refine ⟨m', ?_, this.1⟩
    rintro rfl
    apply hne
    rw [this.1]; simp

/-! ### Pure facts about a chain -/

/-- Number of species between: `|start| - lo` where `lo = |e| + 1` or `0`. -/
def endLevel : Option Path → Nat
  | some e => e.length + 1
  | none => 0

theorem chainPlan_facts (g : Path) (end_ : Option Path) :
    ∀ (rp : List Nat) (prev : Key) (pl : List (Path × Branch)) (k : Key),
      (∀ e, end_ = some e → ∃ m, m ≠ [] ∧ rp.reverse = e ++ m) →
      chainPlan g end_ rp prev = some (pl, k) →
      (∀ t b, (t, b) ∈ pl → b.key = .loss g t ∧ b.kind = .loss ∧
          (∃ m, m ≠ [] ∧ rp.reverse = t ++ m) ∧ endLevel end_ ≤ t.length ∧
          ((∃ k', b.left = some k' ∧ b.right = none ∧ (t ++ [0]) <+: rp.reverse) ∨
           (∃ k', b.left = none ∧ b.right = some k' ∧ (t ++ [1]) <+: rp.reverse) ∨
           (b.left = none ∧ b.right = none))) ∧
      pl.length + endLevel end_ = rp.length ∧
      (pl.map (·.1)).Pairwise (fun a b => b.length < a.length) ∧
      ((pl = [] ∧ k = prev) ∨ (∃ t b, (t, b) ∈ pl ∧ b.key = k ∧ t.length = endLevel end_)) := by
  intro rp
  induction rp with
  | nil =>
    intro prev pl k hend h
    simp only [chainPlan] at h
    split at h
    · rename_i hn
      simp only [Option.some.injEq, Prod.mk.injEq] at h
      obtain ⟨rfl, rfl⟩ := h
      subst hn
      simp [endLevel]
    · cases h
  | cons i rest ih =>
    intro prev pl k hend h
    simp only [chainPlan] at h
    by_cases he : some rest.reverse = end_
    · simp only [he, if_true, Option.some.injEq, Prod.mk.injEq] at h
      obtain ⟨rfl, rfl⟩ := h
      subst he
      simp [endLevel]
    · simp only [he, if_false] at h
      cases hc : chainPlan g end_ rest (.loss g rest.reverse) with
      | none => simp [hc] at h
      | some r =>
        obtain ⟨l, k'⟩ := r
        simp only [hc, Option.some.injEq, Prod.mk.injEq] at h
        obtain ⟨rfl, rfl⟩ := h
        -- the end is still strictly above `rest`
        have hend' : ∀ e, end_ = some e → ∃ m, m ≠ [] ∧ rest.reverse = e ++ m := by
          intro e hee
          exact end_above_rest (hend e hee) (by intro h; apply he; rw [hee, h])
        obtain ⟨f1, f2, f3, f4⟩ := ih (.loss g rest.reverse) l k' hend' hc
        have hlev : endLevel end_ ≤ rest.length := by
          cases hee : end_ with
          | none => simp [endLevel]
          | some e =>
            obtain ⟨m, hm, hrm⟩ := hend' e hee
            have : rest.length = e.length + m.length := by
              have := congrArg List.length hrm; simpa using this
            have : 0 < m.length := List.length_pos_iff.2 hm
            simp only [endLevel]; omega
        refine ⟨?_, ?_, ?_, ?_⟩
        · intro t b hb
          simp only [List.mem_cons, Prod.mk.injEq] at hb
          rcases hb with ⟨rfl, rfl⟩ | hb
          · refine ⟨rfl, rfl, ⟨[i], by simp, by simp⟩, by simpa using hlev, ?_⟩
            simp only [lossBranch]
            by_cases h0 : i = 0
            · subst h0; left; exact ⟨prev, by simp, by simp, by simp⟩
            · by_cases h1 : i = 1
              · subst h1; right; left; exact ⟨prev, by simp, by simp, by simp⟩
              · right; right; simp [h0, h1]
          · obtain ⟨a1, a2, ⟨m, hm, hrm⟩, a4, a5⟩ := f1 t b hb
            refine ⟨a1, a2, ⟨m ++ [i], by simp, by simp [hrm]⟩, a4, ?_⟩
            have hpre : ∀ x : Path, x <+: rest.reverse → x <+: (i :: rest).reverse := by
              intro x hx
              simp only [List.reverse_cons]
              exact hx.trans (List.prefix_append _ _)
            rcases a5 with ⟨k', x1, x2, x3⟩ | ⟨k', x1, x2, x3⟩ | x
            · left; exact ⟨k', x1, x2, hpre _ x3⟩
            · right; left; exact ⟨k', x1, x2, hpre _ x3⟩
            · right; right; exact x
        · simp only [List.length_cons]; omega
        · simp only [List.map_cons, List.pairwise_cons]
          refine ⟨?_, f3⟩
          intro a ha
          simp only [List.mem_map] at ha
          obtain ⟨⟨t, b⟩, hb, rfl⟩ := ha
          obtain ⟨_, _, ⟨m, hm, hrm⟩, _, _⟩ := f1 t b hb
          have hl := congrArg List.length hrm
          have : 0 < m.length := List.length_pos_iff.2 hm
          simp only [List.length_reverse, List.length_append] at hl
          simp only [List.length_reverse]
          omega
        · right
          rcases f4 with ⟨rfl, rfl⟩ | ⟨t, b, hb, hk, hl⟩
          · refine ⟨rest.reverse, _, List.mem_cons_self .., rfl, ?_⟩
            simp only [List.length_nil, Nat.zero_add] at f2
            simp [f2]
          · exact ⟨t, b, List.mem_cons_of_mem _ hb, hk, hl⟩

/-- The plan exists whenever the end is strictly above the start (or is `None`). -/
theorem chainPlan_isSome (g : Path) (end_ : Option Path) :
    ∀ (rp : List Nat) (prev : Key),
      (∀ e, end_ = some e → ∃ m, m ≠ [] ∧ rp.reverse = e ++ m) →
      ∃ pl k, chainPlan g end_ rp prev = some (pl, k) := by
  intro rp
  induction rp with
  | nil =>
    intro prev hend
    cases hee : end_ with
    | none => exact ⟨[], prev, by simp [chainPlan]⟩
    | some e =>
      obtain ⟨m, hm, hrm⟩ := hend e hee
      simp only [List.reverse_nil] at hrm
      have := congrArg List.length hrm
      simp only [List.length_nil, List.length_append] at this
      have : 0 < m.length := List.length_pos_iff.2 hm
      omega
  | cons i rest ih =>
    intro prev hend
    simp only [chainPlan]
    by_cases he : some rest.reverse = end_
    · exact ⟨[], prev, by simp [he]⟩
    · have hend' : ∀ e, end_ = some e → ∃ m, m ≠ [] ∧ rest.reverse = e ++ m := by
        intro e hee
        exact end_above_rest (hend e hee) (by intro h; apply he; rw [hee, h])
      obtain ⟨pl, k, h⟩ := ih (.loss g rest.reverse) hend'
      exact ⟨(rest.reverse, lossBranch g rest.reverse prev i) :: pl, k, by simp [he, h]⟩

end SR.Layout
