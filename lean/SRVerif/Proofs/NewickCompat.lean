/-
  C11 (Newick codec) — link with the hypotheses of `Properties/C11.lean`:
  `NT.SafeNames` (every name and colour a non-empty word over `[A-Za-z0-9_.-]`)
  implies `safeTree`, hence the model codec satisfies `NewickLaw`.
-/
import SRVerif.Proofs.NewickTop
import SRVerif.Proofs.SerializeClasses

namespace SR.Newick

open SR.Ser

theorem safeChar_range {c : Char} (h : NT.safeChar c = true) :
    (48 ≤ c.toNat ∧ c.toNat ≤ 57) ∨ (65 ≤ c.toNat ∧ c.toNat ≤ 90) ∨ (97 ≤ c.toNat ∧ c.toNat ≤ 122)
      ∨ c.toNat = 95 ∨ c.toNat = 46 ∨ c.toNat = 45 := by
  simp only [NT.safeChar, Char.isAlphanum, Char.isAlpha, Char.isUpper, Char.isLower, Char.isDigit,
    Bool.or_eq_true, Bool.and_eq_true, decide_eq_true_eq, beq_iff_eq] at h
  rcases h with ((((h | h) | h) | h) | h) | h
  · right; left
    exact ⟨UInt32.le_iff_toNat_le.1 h.1, UInt32.le_iff_toNat_le.1 h.2⟩
  · right; right; left
    exact ⟨UInt32.le_iff_toNat_le.1 h.1, UInt32.le_iff_toNat_le.1 h.2⟩
  · left
    exact ⟨UInt32.le_iff_toNat_le.1 h.1, UInt32.le_iff_toNat_le.1 h.2⟩
  · right; right; right; left; subst h; decide
  · right; right; right; right; left; subst h; decide
  · right; right; right; right; right; subst h; decide

theorem ne_of_toNat_ne {c d : Char} (h : c.toNat ≠ d.toNat) : c ≠ d := fun e => h (by rw [e])

theorem wordChar_legal {c : Char} (h : NT.safeChar c = true) : illegal c = false := by
  have hr := safeChar_range h
  have ne : ∀ d : Char, (d.toNat < 45 ∨ d.toNat = 47 ∨ (57 < d.toNat ∧ d.toNat < 65) ∨ (90 < d.toNat ∧ d.toNat < 95)
      ∨ d.toNat = 96 ∨ 122 < d.toNat) → (c == d) = false := by
    intro d hd
    have : c ≠ d := ne_of_toNat_ne (by omega)
    simpa using this
  simp only [illegal, Bool.or_eq_false_iff]
  refine ⟨⟨⟨⟨⟨⟨⟨⟨⟨⟨?_, ?_⟩, ?_⟩, ?_⟩, ?_⟩, ?_⟩, ?_⟩, ?_⟩, ?_⟩, ?_⟩, ?_⟩ <;> apply ne <;> decide

theorem wordChar_nonspace {c : Char} (h : NT.safeChar c = true) : isSpace c = false := by
  have hr := safeChar_range h
  simp only [isSpace, Bool.or_eq_false_iff, Bool.and_eq_false_iff, decide_eq_false_iff_not,
    beq_eq_false_iff_ne, ne_eq]
  refine ⟨⟨⟨⟨⟨⟨⟨⟨⟨⟨?_, ?_⟩, ?_⟩, ?_⟩, ?_⟩, ?_⟩, ?_⟩, ?_⟩, ?_⟩, ?_⟩, ?_⟩ <;> omega

theorem safeChars_of_word {s : Chars} (h : s.all NT.safeChar = true) : safeChars s = true := by
  simp only [safeChars, List.all_eq_true, Bool.not_eq_true'] at h ⊢
  exact fun c hc => wordChar_legal (h c hc)

theorem safeName_of_safeStr {n : String} (h : NT.safeStr n = true) : safeName n = true := by
  simp only [NT.safeStr, Bool.and_eq_true, Bool.not_eq_true'] at h
  have hall := h.2
  simp only [safeName, Bool.and_eq_true]
  refine ⟨safeChars_of_word hall, ?_⟩
  rw [List.all_eq_true] at hall
  cases hl : n.toList with
  | nil => simp [hl] at h
  | cons a m =>
    have ha : isSpace a = false := wordChar_nonspace (hall a (by simp [hl]))
    have hz : isSpace ((a :: m).getLast (by simp)) = false :=
      wordChar_nonspace (hall _ (by rw [hl]; exact List.getLast_mem _))
    simp [edgeOk, List.getLast?_eq_some_getLast, ha, hz]

theorem safeValue_of_safeStr {v : String} (h : NT.safeStr v = true) : safeValue v = true := by
  simp only [NT.safeStr, Bool.and_eq_true] at h
  exact safeChars_of_word h.2

/-- The hypothesis of `NT.SafeNames` on one node. -/
def WordNode (s : NT) : Prop :=
  NT.safeStr s.name = true ∧ ∀ c, s.color = some c → NT.safeStr c = true

mutual
  theorem safeTree_of_sub : ∀ (t : NT), (∀ p s, t.sub p = some s → WordNode s) → safeTree t = true
    | .node n c ks, h => by
      have hroot := h [] (.node n c ks) rfl
      simp only [safeTree, Bool.and_eq_true]
      refine ⟨⟨safeName_of_safeStr hroot.1, ?_⟩, safeTrees_of_sub ks ?_⟩
      · cases c with
        | none => rfl
        | some v => exact safeValue_of_safeStr (hroot.2 v rfl)
      · intro k hk p s hs
        obtain ⟨i, hi⟩ := List.getElem?_of_mem hk
        apply h (i :: p) s
        simp [NT.sub, NT.children, hi, hs]
  theorem safeTrees_of_sub : ∀ (ks : List NT), (∀ k ∈ ks, ∀ p s, k.sub p = some s → WordNode s) →
      safeTrees ks = true
    | [], _ => rfl
    | k :: ks, h => by
      simp only [safeTrees, Bool.and_eq_true]
      exact ⟨safeTree_of_sub k (h k (by simp)), safeTrees_of_sub ks (fun k' hk' => h k' (by simp [hk']))⟩
end

/-- Words over letters, digits and underscore are safe. -/
theorem safeTree_of_SafeNames {t : NT} (h : t.SafeNames) : safeTree t = true := by
  apply safeTree_of_sub
  intro p s hs
  exact h (p, s) ((NT.mem_pre t p s).2 hs)

/-- The model codec satisfies the law that `Properties/C11.lean` assumes of ete3. -/
theorem newickLaw : NewickLaw Newick.write (fun s => (Newick.readNT s).toOption) := by
  intro t _ hs
  simp [readNT_write t (safeTree_of_SafeNames hs), Except.toOption]

end SR.Newick
