/-
  JSON text layer: `parseRaw (render v) = some v` for EVERY value, `parse (render v) = some v`
  for every value without repeated keys, `render v` has no line break; decidable equality of
  `JVal`.
-/
import SRVerif.Proofs.JsonStr
import SRVerif.Proofs.Serialize

namespace SR.Json

open SR SR.Ser

/-! ## Decidable equality -/

mutual
  theorem JVal.beq_iff : ∀ (a b : JVal), a.beq b = true ↔ a = b
    | .null, b => by cases b <;> simp [JVal.beq]
    | .bool x, b => by cases b <;> simp [JVal.beq]
    | .int x, b => by cases b <;> simp [JVal.beq]
    | .inf, b => by cases b <;> simp [JVal.beq]
    | .ninf, b => by cases b <;> simp [JVal.beq]
    | .str x, b => by cases b <;> simp [JVal.beq]
    | .arr x, b => by cases b <;> simp [JVal.beq, beqL_iff x]
    | .obj x, b => by cases b <;> simp [JVal.beq, beqM_iff x]
  theorem beqL_iff : ∀ (a b : List JVal), beqL a b = true ↔ a = b
    | [], [] => by simp [beqL]
    | [], _ :: _ => by simp [beqL]
    | _ :: _, [] => by simp [beqL]
    | a :: as, b :: bs => by simp [beqL, JVal.beq_iff a b, beqL_iff as bs]
  theorem beqM_iff : ∀ (a b : List (String × JVal)), beqM a b = true ↔ a = b
    | [], [] => by simp [beqM]
    | [], _ :: _ => by simp [beqM]
    | _ :: _, [] => by simp [beqM]
    | (k, a) :: as, (k', b) :: bs => by
      simp [beqM, JVal.beq_iff a b, beqM_iff as bs, and_assoc]
end

instance : DecidableEq JVal := fun a b => decidable_of_iff _ (JVal.beq_iff a b)

/-! ## Whitespace and first characters -/

/-- First character of a rendered value. -/
def StartChar (c : Char) : Prop :=
  c = 'n' ∨ c = 't' ∨ c = 'f' ∨ c = 'I' ∨ c = '"' ∨ c = '[' ∨ c = '{' ∨ c = '-' ∨ c.isDigit = true

theorem StartChar.not_ws {c : Char} (h : StartChar c) : isWs c = false := by
  rcases h with rfl | rfl | rfl | rfl | rfl | rfl | rfl | rfl | h
  iterate 8 decide
  · cases hw : isWs c
    · rfl
    · simp only [isWs, Bool.or_eq_true, beq_iff_eq] at hw
      rcases hw with ((rfl | rfl) | rfl) | rfl <;> revert h <;> decide

theorem StartChar.ne_close {c : Char} (h : StartChar c) : c ≠ ']' ∧ c ≠ '}' := by
  rcases h with rfl | rfl | rfl | rfl | rfl | rfl | rfl | rfl | h
  iterate 8 decide
  · constructor <;> (intro e; subst e; revert h; decide)

theorem renderV_head (v : JVal) : ∃ c t, renderV v = c :: t ∧ StartChar c := by
  cases v with
  | null => rw [renderV]; exact ⟨_, _, rfl, by simp [StartChar]⟩
  | bool b => cases b <;> rw [renderV] <;> exact ⟨_, _, rfl, by simp [StartChar]⟩
  | int n =>
    obtain ⟨c, t, e, h⟩ := renderInt_head n
    refine ⟨c, t, by rw [renderV, e], ?_⟩
    rcases h with rfl | h
    · simp [StartChar]
    · simp [StartChar, h]
  | inf => rw [renderV]; exact ⟨_, _, rfl, by simp [StartChar]⟩
  | ninf => rw [renderV]; exact ⟨_, _, rfl, by simp [StartChar]⟩
  | str s => rw [renderV, renderStr]; exact ⟨_, _, rfl, by simp [StartChar]⟩
  | arr l => cases l <;> rw [renderV] <;> exact ⟨_, _, rfl, by simp [StartChar]⟩
  | obj m =>
    cases m with
    | nil => rw [renderV]; exact ⟨_, _, rfl, by simp [StartChar]⟩
    | cons kv m => obtain ⟨k, v⟩ := kv; rw [renderV]; exact ⟨_, _, rfl, by simp [StartChar]⟩

theorem skipWs_cons {c : Char} (h : isWs c = false) (r : List Char) : skipWs (c :: r) = c :: r := by
  simp [skipWs, h]

theorem skipWs_space (r : List Char) : skipWs (' ' :: r) = skipWs r := by
  simp [skipWs, isWs]

theorem skipWs_render (v : JVal) (x : List Char) : skipWs (renderV v ++ x) = renderV v ++ x := by
  obtain ⟨c, t, e, h⟩ := renderV_head v
  rw [e, List.cons_append, skipWs_cons h.not_ws]

theorem head?_render (v : JVal) (x : List Char) :
    (renderV v ++ x).head? ≠ some ']' ∧ (renderV v ++ x).head? ≠ some '}' := by
  obtain ⟨c, t, e, h⟩ := renderV_head v
  rw [e, List.cons_append, List.head?_cons]
  exact ⟨fun e' => h.ne_close.1 (Option.some.inj e'), fun e' => h.ne_close.2 (Option.some.inj e')⟩

theorem delim_comma (x : List Char) : Delim (',' :: x) := .inr ⟨_, _, rfl, .inl rfl⟩
theorem delim_rbracket (x : List Char) : Delim (']' :: x) := .inr ⟨_, _, rfl, .inr (.inl rfl)⟩
theorem delim_rbrace (x : List Char) : Delim ('}' :: x) := .inr ⟨_, _, rfl, .inr (.inr rfl)⟩

theorem delim_tail (l : List JVal) (rest : List Char) : Delim (renderTail l ++ ']' :: rest) := by
  cases l with
  | nil => exact delim_rbracket _
  | cons v l => exact delim_comma _

theorem delim_mtail (m : List (String × JVal)) (rest : List Char) :
    Delim (renderMTail m ++ '}' :: rest) := by
  cases m with
  | nil => exact delim_rbrace _
  | cons kv m => obtain ⟨k, v⟩ := kv; exact delim_comma _

/-! ## Leaves -/

theorem parseVal_digit (f : Nat) (c : Char) (r : List Char) (h : c.isDigit = true) :
    parseVal (f + 1) (c :: r) = (parseNat (c :: r)).map (fun p => (.int (p.1 : Int), p.2)) := by
  have ne : ∀ d : Char, d.isDigit = false → c ≠ d := fun d hd e => by
    subst e; rw [h] at hd; exact absurd hd (by decide)
  simp only [parseVal, ne 'n' (by decide), ne 't' (by decide), ne 'f' (by decide), ne 'I' (by decide),
    ne '"' (by decide), ne '[' (by decide), ne '{' (by decide), ne '-' (by decide), if_false]

theorem parseVal_int (n : Int) (f : Nat) (rest : List Char) (hd : Delim rest) :
    parseVal (f + 1) (renderInt n ++ rest) = some (.int n, rest) := by
  cases n with
  | ofNat k =>
    obtain ⟨c, t, e, h⟩ := renderInt_head (.ofNat k)
    have hdig : c.isDigit = true := by
      rcases h with rfl | h
      · exfalso
        have : natDigits k = '-' :: t := e
        by_cases h0 : k = 0
        · subst h0
          have this' : ['0'] = '-' :: t := this
          injection this' with hc _
          exact absurd hc (by decide)
        · obtain ⟨c', t', e', h1, _⟩ := natDigitsF_head (k + 1) k (by omega) (by omega)
          rw [natDigits, e'] at this
          injection this with hc _
          subst hc
          exact absurd h1 (by decide)
      · exact h
    rw [e, List.cons_append, parseVal_digit f c _ hdig, ← List.cons_append, ← e]
    show Option.map _ (parseNat (natDigits k ++ rest)) = _
    rw [parseNat_natDigits k hd]
    rfl
  | negSucc k =>
    show parseVal (f + 1) ('-' :: (natDigits (k + 1) ++ rest)) = _
    obtain ⟨c, t, e, h1, _⟩ := natDigitsF_head (k + 1 + 1) (k + 1) (by omega) (by omega)
    have hI : c ≠ 'I' := fun e' => by subst e'; exact absurd h1 (by decide)
    have e2 : natDigits (k + 1) = c :: t := e
    have : parseVal (f + 1) ('-' :: (c :: (t ++ rest))) =
        (parseNat (c :: (t ++ rest))).map (fun p => (.int (-(p.1 : Int)), p.2)) := by
      simp [parseVal, hI]
    rw [e2, List.cons_append, this, ← List.cons_append, ← e2, parseNat_natDigits (k + 1) hd]
    rfl

theorem parseVal_str (s : String) (f : Nat) (rest : List Char) :
    parseVal (f + 1) (renderStr s.toList ++ rest) = some (.str s, rest) := by
  have : renderStr s.toList ++ rest = '"' :: (s.toList.flatMap escChar ++ '"' :: rest) := by
    simp [renderStr]
  rw [this]
  simp [parseVal, parseStr_render]

theorem parseMember_key (k : String) (f : Nat) (x : List Char) (v : JVal) (r3 : List Char)
    (h : parseVal f (skipWs x) = some (v, r3)) :
    parseMember (f + 1) (renderStr k.toList ++ (':' :: ' ' :: x)) = some ((k, v), r3) := by
  have : renderStr k.toList ++ (':' :: ' ' :: x) =
      '"' :: (k.toList.flatMap escChar ++ '"' :: (':' :: ' ' :: x)) := by
    simp [renderStr]
  rw [this]
  simp [parseMember, parseStr_render, skipWs, isWs, h]

theorem skipWs_renderStr (k : List Char) (x : List Char) :
    skipWs (renderStr k ++ x) = renderStr k ++ x := by
  simp [renderStr, skipWs, isWs]

theorem head?_renderStr (k : List Char) (x : List Char) : (renderStr k ++ x).head? ≠ some '}' := by
  simp [renderStr]

theorem parseVal_arr_cons (f : Nat) (r r' rest : List Char) (v : JVal) (l : List JVal)
    (hh : (skipWs r).head? ≠ some ']') (h1 : parseVal f (skipWs r) = some (v, r'))
    (h2 : parseTail f r' = some (l, rest)) :
    parseVal (f + 1) ('[' :: r) = some (.arr (v :: l), rest) := by
  simp [parseVal, hh, h1, h2]

theorem parseVal_obj_cons (f : Nat) (r r' rest : List Char) (kv : String × JVal)
    (m : List (String × JVal)) (hh : (skipWs r).head? ≠ some '}')
    (h1 : parseMember f (skipWs r) = some (kv, r')) (h2 : parseMTail f r' = some (m, rest)) :
    parseVal (f + 1) ('{' :: r) = some (.obj (kv :: m), rest) := by
  simp [parseVal, hh, h1, h2]

theorem parseTail_cons (f : Nat) (r r' rest : List Char) (v : JVal) (l : List JVal)
    (h1 : parseVal f (skipWs r) = some (v, r')) (h2 : parseTail f r' = some (l, rest)) :
    parseTail (f + 1) (',' :: r) = some (v :: l, rest) := by
  simp [parseTail, skipWs, isWs, h1, h2]

theorem parseMTail_cons (f : Nat) (r r' rest : List Char) (kv : String × JVal)
    (m : List (String × JVal)) (h1 : parseMember f (skipWs r) = some (kv, r'))
    (h2 : parseMTail f r' = some (m, rest)) :
    parseMTail (f + 1) (',' :: r) = some (kv :: m, rest) := by
  simp [parseMTail, skipWs, isWs, h1, h2]

/-! ## The round trip -/

mutual
  theorem parseVal_render : ∀ (v : JVal) (f : Nat) (rest : List Char),
      (renderV v ++ rest).length < f → Delim rest → parseVal f (renderV v ++ rest) = some (v, rest)
    | .null, f, rest, hf, _ => by
      cases f with
      | zero => omega
      | succ f => simp [renderV, parseVal, dropPrefix?]
    | .bool true, f, rest, hf, _ => by
      cases f with
      | zero => omega
      | succ f => simp [renderV, parseVal, dropPrefix?]
    | .bool false, f, rest, hf, _ => by
      cases f with
      | zero => omega
      | succ f => simp [renderV, parseVal, dropPrefix?]
    | .inf, f, rest, hf, _ => by
      cases f with
      | zero => omega
      | succ f => simp [renderV, parseVal, dropPrefix?]
    | .ninf, f, rest, hf, _ => by
      cases f with
      | zero => omega
      | succ f => simp [renderV, parseVal, dropPrefix?]
    | .int n, f, rest, hf, hd => by
      cases f with
      | zero => omega
      | succ f => simp only [renderV]; exact parseVal_int n f rest hd
    | .str s, f, rest, hf, _ => by
      cases f with
      | zero => omega
      | succ f => simp only [renderV]; exact parseVal_str s f rest
    | .arr [], f, rest, hf, _ => by
      cases f with
      | zero => omega
      | succ f => simp [renderV, parseVal, skipWs, isWs]
    | .arr (v :: l), f, rest, hf, _ => by
      cases f with
      | zero => omega
      | succ f =>
        have e : renderV (.arr (v :: l)) ++ rest
            = '[' :: (renderV v ++ (renderTail l ++ ']' :: rest)) := by simp [renderV]
        rw [e] at hf ⊢
        have h1 := parseVal_render v f (renderTail l ++ ']' :: rest)
          (by simp only [List.length_cons] at hf; omega) (delim_tail l rest)
        have h2 := parseTail_render l f rest (by
          simp only [List.length_cons, List.length_append] at hf ⊢; omega)
        have hh := (head?_render v (renderTail l ++ ']' :: rest)).1
        exact parseVal_arr_cons f _ _ rest v l (by rw [skipWs_render]; exact hh)
          (by rw [skipWs_render]; exact h1) h2
    | .obj [], f, rest, hf, _ => by
      cases f with
      | zero => omega
      | succ f => simp [renderV, parseVal, skipWs, isWs]
    | .obj ((k, v) :: m), f, rest, hf, _ => by
      cases f with
      | zero => omega
      | succ f =>
        have e : renderV (.obj ((k, v) :: m)) ++ rest
            = '{' :: (renderStr k.toList ++ (':' :: ' ' :: (renderV v ++ (renderMTail m ++ '}' :: rest))))
            := by simp [renderV]
        rw [e] at hf ⊢
        cases f with
        | zero => simp [renderStr] at hf
        | succ f =>
          have h1 := parseVal_render v f (renderMTail m ++ '}' :: rest)
            (by simp only [List.length_cons, List.length_append] at hf ⊢; omega) (delim_mtail m rest)
          have h2 := parseMTail_render m (f + 1) rest (by
            simp only [List.length_cons, List.length_append] at hf ⊢; omega)
          have h3 := parseMember_key k f _ v _ (by rw [skipWs_render]; exact h1)
          exact parseVal_obj_cons (f + 1) _ _ rest (k, v) m
            (by rw [skipWs_renderStr]; exact head?_renderStr _ _)
            (by rw [skipWs_renderStr]; exact h3) h2
  theorem parseTail_render : ∀ (l : List JVal) (f : Nat) (rest : List Char),
      (renderTail l ++ ']' :: rest).length < f →
      parseTail f (renderTail l ++ ']' :: rest) = some (l, rest)
    | [], f, rest, hf => by
      cases f with
      | zero => omega
      | succ f => simp [renderTail, parseTail, skipWs, isWs]
    | v :: l, f, rest, hf => by
      cases f with
      | zero => omega
      | succ f =>
        have e : renderTail (v :: l) ++ ']' :: rest
            = ',' :: ' ' :: (renderV v ++ (renderTail l ++ ']' :: rest)) := by simp [renderTail]
        rw [e] at hf ⊢
        have h1 := parseVal_render v f (renderTail l ++ ']' :: rest)
          (by simp only [List.length_cons] at hf; omega) (delim_tail l rest)
        have h2 := parseTail_render l f rest (by
          simp only [List.length_cons, List.length_append] at hf ⊢; omega)
        exact parseTail_cons f _ _ rest v l (by rw [skipWs_space, skipWs_render]; exact h1) h2
  theorem parseMTail_render : ∀ (m : List (String × JVal)) (f : Nat) (rest : List Char),
      (renderMTail m ++ '}' :: rest).length < f →
      parseMTail f (renderMTail m ++ '}' :: rest) = some (m, rest)
    | [], f, rest, hf => by
      cases f with
      | zero => omega
      | succ f => simp [renderMTail, parseMTail, skipWs, isWs]
    | (k, v) :: m, f, rest, hf => by
      cases f with
      | zero => omega
      | succ f =>
        have e : renderMTail ((k, v) :: m) ++ '}' :: rest
            = ',' :: ' ' :: (renderStr k.toList ++
                (':' :: ' ' :: (renderV v ++ (renderMTail m ++ '}' :: rest)))) := by
          simp [renderMTail]
        rw [e] at hf ⊢
        cases f with
        | zero => simp [renderStr] at hf
        | succ f =>
          have h1 := parseVal_render v f (renderMTail m ++ '}' :: rest)
            (by simp only [List.length_cons, List.length_append] at hf ⊢; omega) (delim_mtail m rest)
          have h2 := parseMTail_render m (f + 1) rest (by
            simp only [List.length_cons, List.length_append] at hf ⊢; omega)
          have h3 := parseMember_key k f _ v _ (by rw [skipWs_render]; exact h1)
          exact parseMTail_cons (f + 1) _ _ rest (k, v) m
            (by rw [skipWs_space, skipWs_renderStr]; exact h3) h2
end

/-- On characters: every rendered value is read back. -/
theorem parseC_renderV (v : JVal) : parseC (renderV v) = some v := by
  have h := parseVal_render v ((renderV v).length + 1) [] (by simp) (.inl rfl)
  simp only [List.append_nil] at h
  have hs := skipWs_render v []
  simp only [List.append_nil] at hs
  simp [parseC, hs, h, skipWs]

/-- **Round trip, pairs kept**: `json.loads(json.dumps(v), object_pairs_hook=…)` is `v`, for
    every value. -/
theorem parseRaw_render (v : JVal) : parseRaw (render v) = some v := by
  simp [parseRaw, render, String.toList_ofList, parseC_renderV]

/-! ## Objects as Python dicts -/

theorem keysM_eq (m : List (String × JVal)) : keysM m = m.map (·.1) := by
  induction m with
  | nil => rfl
  | cons kv m ih => obtain ⟨k, v⟩ := kv; simp [keysM, ih]

mutual
  theorem norm_wf : ∀ (v : JVal), v.wf = true → v.norm = v
    | .null, _ => rfl
    | .bool _, _ => rfl
    | .int _, _ => rfl
    | .inf, _ => rfl
    | .ninf, _ => rfl
    | .str _, _ => rfl
    | .arr l, h => by
      simp only [JVal.wf] at h
      simp [JVal.norm, normL_wf l h]
    | .obj m, h => by
      simp only [JVal.wf, Bool.and_eq_true, decide_eq_true_eq] at h
      simp only [JVal.norm, normM_wf m h.2]
      rw [Dict.ofList_nodup m (by rw [← keysM_eq]; exact h.1)]
  theorem normL_wf : ∀ (l : List JVal), wfL l = true → normL l = l
    | [], _ => rfl
    | v :: l, h => by
      simp only [wfL, Bool.and_eq_true] at h
      simp [normL, norm_wf v h.1, normL_wf l h.2]
  theorem normM_wf : ∀ (m : List (String × JVal)), wfM m = true → normM m = m
    | [], _ => rfl
    | (k, v) :: m, h => by
      simp only [wfM, Bool.and_eq_true] at h
      simp [normM, norm_wf v h.1, normM_wf m h.2]
end

/-- **Round trip**: `json.loads(json.dumps(v)) = v` for every value without repeated keys. -/
theorem parse_render (v : JVal) (h : WFJ v) : parse (render v) = some v := by
  simp [parse, parseRaw_render, norm_wf v h]

/-! ## One line -/

theorem natDigitsF_no_newline (f : Nat) : ∀ n, '\n' ∉ natDigitsF f n ∧ '\r' ∉ natDigitsF f n := by
  have hd : ∀ d < 10, digitChar d ≠ '\n' ∧ digitChar d ≠ '\r' := by decide
  induction f with
  | zero => intro n; simp [natDigitsF]
  | succ f ih =>
    intro n
    unfold natDigitsF
    by_cases h : n < 10
    · simp only [h, if_true, List.mem_singleton]
      exact ⟨fun e => (hd n h).1 e.symm, fun e => (hd n h).2 e.symm⟩
    · have hm : n % 10 < 10 := Nat.mod_lt _ (by omega)
      simp only [h, if_false, List.mem_append, List.mem_singleton, not_or]
      exact ⟨⟨(ih _).1, fun e => (hd _ hm).1 e.symm⟩, ⟨(ih _).2, fun e => (hd _ hm).2 e.symm⟩⟩

theorem renderStr_no_newline (s : List Char) : '\n' ∉ renderStr s ∧ '\r' ∉ renderStr s := by
  have : ∀ c, c ∈ s.flatMap escChar → c ≠ '\n' ∧ c ≠ '\r' := by
    intro c hc
    obtain ⟨a, _, ha⟩ := List.mem_flatMap.mp hc
    exact ⟨fun e => (escChar_no_newline a).1 (e ▸ ha), fun e => (escChar_no_newline a).2 (e ▸ ha)⟩
  simp only [renderStr, List.mem_cons, List.mem_append, List.not_mem_nil, or_false, not_or]
  exact ⟨⟨by decide, fun h => (this _ h).1 rfl, by decide⟩, ⟨by decide, fun h => (this _ h).2 rfl, by decide⟩⟩

/-- Neither `\n` nor `\r`. -/
def NoBreak (l : List Char) : Prop := '\n' ∉ l ∧ '\r' ∉ l

theorem NoBreak.append {a b : List Char} (ha : NoBreak a) (hb : NoBreak b) : NoBreak (a ++ b) := by
  simp only [NoBreak, List.mem_append, not_or] at *
  exact ⟨⟨ha.1, hb.1⟩, ⟨ha.2, hb.2⟩⟩

theorem NoBreak.cons {c : Char} {a : List Char} (h1 : c ≠ '\n') (h2 : c ≠ '\r') (ha : NoBreak a) :
    NoBreak (c :: a) := by
  simp only [NoBreak, List.mem_cons, not_or] at *
  exact ⟨⟨fun e => h1 e.symm, ha.1⟩, ⟨fun e => h2 e.symm, ha.2⟩⟩

theorem NoBreak.nil : NoBreak [] := by simp [NoBreak]

theorem NoBreak.ofStr (s : List Char) : NoBreak (renderStr s) := renderStr_no_newline s

mutual
  theorem renderV_noBreak : ∀ v : JVal, NoBreak (renderV v)
    | .null => by simp only [renderV, NoBreak]; decide
    | .bool true => by simp only [renderV, NoBreak]; decide
    | .bool false => by simp only [renderV, NoBreak]; decide
    | .inf => by simp only [renderV, NoBreak]; decide
    | .ninf => by simp only [renderV, NoBreak]; decide
    | .int (.ofNat n) => natDigitsF_no_newline _ n
    | .int (.negSucc n) =>
      NoBreak.cons (by decide) (by decide) (natDigitsF_no_newline _ (n + 1))
    | .str s => renderStr_no_newline _
    | .arr [] => by simp only [renderV, NoBreak]; decide
    | .arr (v :: l) => by
      simp only [renderV]
      exact .cons (by decide) (by decide) ((renderV_noBreak v).append
        ((renderTail_noBreak l).append (.cons (by decide) (by decide) .nil)))
    | .obj [] => by simp only [renderV, NoBreak]; decide
    | .obj ((k, v) :: m) => by
      simp only [renderV]
      exact .cons (by decide) (by decide) ((NoBreak.ofStr _).append
        (.cons (by decide) (by decide) (.cons (by decide) (by decide) ((renderV_noBreak v).append
          ((renderMTail_noBreak m).append (.cons (by decide) (by decide) .nil))))))
  theorem renderTail_noBreak : ∀ l : List JVal, NoBreak (renderTail l)
    | [] => .nil
    | v :: l => by
      simp only [renderTail]
      exact .cons (by decide) (by decide) (.cons (by decide) (by decide)
        ((renderV_noBreak v).append (renderTail_noBreak l)))
  theorem renderMTail_noBreak : ∀ m : List (String × JVal), NoBreak (renderMTail m)
    | [] => .nil
    | (k, v) :: m => by
      simp only [renderMTail]
      exact .cons (by decide) (by decide) (.cons (by decide) (by decide)
        ((NoBreak.ofStr _).append (.cons (by decide) (by decide)
          (.cons (by decide) (by decide) ((renderV_noBreak v).append (renderMTail_noBreak m))))))
end

theorem render_no_newline (v : JVal) : '\n' ∉ (render v).toList ∧ '\r' ∉ (render v).toList := by
  simp only [render, String.toList_ofList]
  exact renderV_noBreak v

end SR.Json
