/-
  Basic facts about the code-structured model of `reconcile_thl`
  (`Model/ThlCode.lean`):

  * `levelorder` / `traverseAt` list exactly the nodes (of the subtree);
  * the table is a finite map: `get` after `set` / `update` (frame lemmas);
  * `Cost.toExt` is an order embedding compatible with `+`.
-/
import SRVerif.Model.ThlCode
import SRVerif.Proofs.RTree
import SRVerif.Proofs.LabelDPPaths
import SRVerif.Proofs.Entry
import SRVerif.Proofs.Agg

namespace SR

open Path

/-! ### `Cost.toExt` -/

namespace Cost

@[simp] theorem toExt_fin (n : Nat) : (Cost.fin n).toExt = .fin (n : Int) := rfl
@[simp] theorem toExt_inf : Cost.inf.toExt = .posInf := rfl

theorem toExt_add (a b : Cost) : (a + b).toExt = a.toExt + b.toExt := by
  cases a <;> cases b <;> rfl

theorem toExt_inj {a b : Cost} (h : a.toExt = b.toExt) : a = b := by
  cases a <;> cases b <;> simp_all [toExt] <;> omega

theorem toExt_lt (a b : Cost) : ExtInt.lt a.toExt b.toExt = Cost.lt a b := by
  cases a <;> cases b <;> simp [toExt, ExtInt.lt, Cost.lt]

theorem toExt_isInfinite (a : Cost) : a.toExt.isInfinite = a.isInf := by
  cases a <;> rfl

theorem toExt_eq_posInf {a : Cost} : a.toExt = .posInf ↔ a = .inf := by
  cases a <;> simp [toExt]

end Cost

/-! ### Level-order traversal -/

namespace RTree

theorem mem_childrenAt (p : Path) (cs : List RTree) (i : Nat) (pt : Path × RTree) :
    pt ∈ childrenAt p cs i ↔ ∃ j c, cs[j]? = some c ∧ pt = (p ++ [i + j], c) := by
  induction cs generalizing i with
  | nil => simp [childrenAt]
  | cons c cs ih =>
    simp only [childrenAt, List.mem_cons, ih]
    constructor
    · rintro (rfl | ⟨j, c', hj, rfl⟩)
      · exact ⟨0, c, by simp, by simp⟩
      · exact ⟨j + 1, c', by simpa using hj, by simp; omega⟩
    · rintro ⟨j, c', hj, rfl⟩
      cases j with
      | zero =>
        simp only [List.getElem?_cons_zero, Option.some.injEq] at hj
        subst hj; exact Or.inl (by simp)
      | succ j =>
        simp only [List.getElem?_cons_succ] at hj
        exact Or.inr ⟨j, c', hj, by simp; omega⟩

/-- Total number of nodes of the trees of a queue. -/
def qsize (q : List (Path × RTree)) : Nat := (q.map (fun pt => pt.2.preorder.length)).sum

theorem qsize_append (a b : List (Path × RTree)) : qsize (a ++ b) = qsize a + qsize b := by
  simp [qsize]

theorem qsize_childrenAt (p : Path) (cs : List RTree) (i k : Nat) :
    qsize (childrenAt p cs i) = (preorderList cs k).length := by
  induction cs generalizing i k with
  | nil => simp [childrenAt, preorderList, qsize]
  | cons c cs ih =>
    have := ih (i + 1) (k + 1)
    simp only [qsize] at this
    simp [childrenAt, preorderList, qsize, this]

theorem preorder_length_pos (t : RTree) : 0 < t.preorder.length := by
  cases t; simp [preorder]

theorem mem_levelorderAux : ∀ (fuel : Nat) (q : List (Path × RTree)), qsize q ≤ fuel →
    ∀ x, x ∈ levelorderAux fuel q ↔ ∃ pt ∈ q, ∃ r ∈ pt.2.preorder, x = pt.1 ++ r := by
  intro fuel
  induction fuel with
  | zero =>
    intro q hq x
    cases q with
    | nil => simp [levelorderAux]
    | cons pt q =>
      have := preorder_length_pos pt.2
      simp only [qsize, List.map_cons, List.sum_cons] at hq
      omega
  | succ fuel ih =>
    intro q hq x
    match q with
    | [] => simp [levelorderAux]
    | (p, node cs) :: q' =>
      have hsz : qsize (q' ++ childrenAt p cs 0) ≤ fuel := by
        rw [qsize_append, qsize_childrenAt p cs 0 0]
        simp [qsize, preorder] at hq
        simp only [qsize]
        omega
      simp only [levelorderAux, List.mem_cons, ih _ hsz x, List.mem_append]
      constructor
      · rintro (rfl | ⟨pt, hpt | hpt, r, hr, rfl⟩)
        · exact ⟨(x, node cs), Or.inl rfl, [], by simp [preorder], by simp⟩
        · exact ⟨pt, Or.inr hpt, r, hr, rfl⟩
        · obtain ⟨j, c, hj, rfl⟩ := (mem_childrenAt p cs 0 pt).mp hpt
          refine ⟨(p, node cs), Or.inl rfl, (0 + j) :: r, ?_, by simp⟩
          simp only [preorder, List.mem_cons, reduceCtorEq, false_or]
          exact (mem_preorderList cs 0 _).mpr ⟨j, c, r, hj, hr, rfl⟩
      · rintro ⟨pt, hpt | hpt, r, hr, rfl⟩
        · subst hpt
          simp only [preorder, List.mem_cons] at hr
          rcases hr with rfl | hr
          · exact Or.inl (by simp)
          · obtain ⟨j, c, q'', hj, hq'', rfl⟩ := (mem_preorderList cs 0 _).mp hr
            refine Or.inr ⟨(p ++ [0 + j], c), Or.inr ?_, q'', hq'', by simp⟩
            exact (mem_childrenAt p cs 0 _).mpr ⟨j, c, hj, rfl⟩
        · exact Or.inr ⟨pt, Or.inl hpt, r, hr, rfl⟩

/-- `traverse()` visits exactly the nodes. -/
theorem mem_levelorder (t : RTree) (x : Path) : x ∈ t.levelorder ↔ t.isNode x = true := by
  unfold levelorder
  rw [mem_levelorderAux _ _ (by simp [qsize]), ← mem_preorder_iff]
  simp

/-- `node.traverse()` visits exactly the nodes of `S` at or below that node. -/
theorem mem_traverseAt (S : RTree) (p x : Path) :
    x ∈ S.traverseAt p ↔ isAnc p x = true ∧ S.isNode x = true := by
  unfold traverseAt
  cases hs : S.sub p with
  | none =>
    simp only [List.not_mem_nil, false_iff, not_and]
    intro ha hx
    obtain ⟨q, rfl⟩ := isAnc_iff_append.mp ha
    simp [isNode, sub_append, hs] at hx
  | some t =>
    simp only [List.mem_map, mem_levelorder]
    constructor
    · rintro ⟨q, hq, rfl⟩
      refine ⟨isAnc_append p q, ?_⟩
      simpa [isNode, sub_append, hs] using hq
    · rintro ⟨ha, hx⟩
      obtain ⟨q, rfl⟩ := isAnc_iff_append.mp ha
      exact ⟨q, by simpa [isNode, sub_append, hs] using hx, rfl⟩

end RTree

/-! ### The table as a finite map -/

namespace ThlCode

mutual
  theorem isNode_of_mem_postorder : ∀ (t : RTree) (p : Path), p ∈ t.postorder → t.isNode p = true
    | .node cs, p, h => by
      simp only [RTree.postorder, List.mem_append, List.mem_singleton] at h
      rcases h with h | rfl
      · obtain ⟨i, q, c, rfl, hc, hq⟩ := isNode_of_mem_postorderList cs 0 p h
        simp only [Nat.zero_add] at *
        simp only [RTree.isNode, RTree.sub, hc]
        exact hq
      · rfl
  theorem isNode_of_mem_postorderList : ∀ (cs : List RTree) (k : Nat) (p : Path),
      p ∈ RTree.postorderList cs k → ∃ i q c, p = (k + i) :: q ∧ cs[i]? = some c ∧ c.isNode q = true
    | [], _, p, h => by simp [RTree.postorderList] at h
    | c :: cs, k, p, h => by
      simp only [RTree.postorderList, List.mem_append, List.mem_map] at h
      rcases h with ⟨q, hq, rfl⟩ | h
      · exact ⟨0, q, c, rfl, rfl, isNode_of_mem_postorder c q hq⟩
      · obtain ⟨i, q, c', rfl, hc, hq⟩ := isNode_of_mem_postorderList cs (k + 1) p h
        exact ⟨i + 1, q, c', by simp; omega, by simpa using hc, hq⟩
end

namespace Table

theorem lookup_setCell (t : List (Key × Entry MappingInfo)) (k k' : Key) (e : Entry MappingInfo) :
    (setCell t k e).lookup k' = if k' = k then some e else t.lookup k' := by
  induction t with
  | nil =>
    by_cases h : k' = k
    · subst h; simp [setCell]
    · have : (k' == k) = false := by simpa using h
      simp [setCell, List.lookup, h, this]
  | cons a t ih =>
    obtain ⟨ka, ea⟩ := a
    simp only [setCell]
    by_cases hka : ka = k
    · subst hka
      by_cases h : k' = ka
      · subst h; simp
      · have : (k' == ka) = false := by simpa using h
        simp [List.lookup, h, this]
    · rw [if_neg hka]
      by_cases h : k' = ka
      · subst h
        have : k' ≠ k := hka
        simp [List.lookup, this]
      · have h' : (k' == ka) = false := by simpa using h
        simp only [List.lookup, h', ih]

@[simp] theorem get_empty (k : Key) : empty.get k = none := rfl

theorem get_set (t : Table) (k k' : Key) (e : Entry MappingInfo) :
    (t.set k e).get k' = if k' = k then some e else t.get k' := by
  simp only [get, set, lookup_setCell]

/-- `EntryProxy.update` touches only its own key, where it is `Cell.update`. -/
theorem get_update (r : Retain) (t : Table) (k k' : Key) (batch : List (Cand MappingInfo)) :
    (t.update r k batch).get k' = if k' = k then Cell.update .min r (t.get k) batch else t.get k' := by
  unfold update
  cases h : Cell.update .min r (t.get k) batch with
  | some e =>
    simp only [get_set]
  | none =>
    by_cases hk : k' = k
    · subst hk
      simp only [if_true]
      -- `Cell.update` returns `none` only when the cell was `none` and nothing was written
      unfold Cell.update at h
      split at h
      · cases h
      · exact h
    · simp [hk]

theorem value_update_ne (r : Retain) (t : Table) {k k' : Key} (batch : List (Cand MappingInfo))
    (h : k' ≠ k) : (t.update r k batch).value k' = t.value k' := by
  simp [value, get_update, h]

end Table

end ThlCode

end SR
