/-
  Round trip: BUILD applied to the BreakUp triples of a binary tree with
  distinct leaf names rebuilds the clades of the tree.
-/
import SRVerif.Proofs.TriplesDistinct

namespace SR.Tri

open SR SR.DS LTree Spec

/-! ### What `contract` emits -/

/-- The triples emitted strictly inside a subtree (all but the last one). -/
def innerTr : LTree → List Triple
  | .node [t1, t2] => (contract t1 t2.firstLeaf).2 ++ (contract t2 (contract t1 t2.firstLeaf).1).2
  | _ => []

/-- The pairs united by BUILD for a list of triples (on names). -/
def pairsN (trs : List Triple) : List (Nat × Nat) := trs.map (fun t => (t.1, t.2.1))

theorem pairsN_append (a b : List Triple) : pairsN (a ++ b) = pairsN a ++ pairsN b := by
  simp [pairsN]

theorem mkTriple_cases (l r s : Nat) :
    mkTriple l r s = (l, r, s) ∨ mkTriple l r s = (r, l, s) := by
  unfold mkTriple; split <;> simp

theorem firstLeaf_mem {t : LTree} (h : t.isBinary = true) : t.firstLeaf ∈ t.leaves := by
  have := binary_leaves_ne t h
  unfold firstLeaf
  cases hl : t.leaves with
  | nil => exact absurd hl this
  | cons a as => simp

theorem conn_append_left {ps qs : List (Nat × Nat)} {a b : Nat} (h : Conn ps a b) :
    Conn (ps ++ qs) a b := h.mono (fun p hp => List.mem_append.mpr (Or.inl hp))

theorem conn_append_right {ps qs : List (Nat × Nat)} {a b : Nat} (h : Conn qs a b) :
    Conn (ps ++ qs) a b := h.mono (fun p hp => List.mem_append.mpr (Or.inr hp))

/-- The last triple of a contraction and the representative. -/
theorem contract_node (t1 t2 : LTree) (s : Nat) :
    ∃ left right, (contract (.node [t1, t2]) s) =
        (right, innerTr (.node [t1, t2]) ++ [mkTriple left right s]) ∧
      ((left = (contract t1 t2.firstLeaf).1 ∧ right = (contract t2 (contract t1 t2.firstLeaf).1).1) ∨
       (right = (contract t1 t2.firstLeaf).1 ∧ left = (contract t2 (contract t1 t2.firstLeaf).1).1)) := by
  by_cases h : (t1.isLeaf || !t2.isLeaf) = true
  · exact ⟨_, _, by simp only [contract, innerTr, h, if_true], Or.inl ⟨rfl, rfl⟩⟩
  · exact ⟨_, _, by simp only [contract, innerTr, h]; rfl, Or.inr ⟨rfl, rfl⟩⟩

theorem contract_facts : ∀ (T : LTree), T.isBinary = true → ∀ s,
    (contract T s).1 ∈ T.leaves ∧
    (∀ tr, tr ∈ (contract T s).2 →
      tr.1 ∈ T.leaves ∧ tr.2.1 ∈ T.leaves ∧ (tr.2.2 ∈ T.leaves ∨ tr.2.2 = s)) ∧
    (∀ x, x ∈ T.leaves → Conn (pairsN (contract T s).2) x (contract T s).1)
  | .leaf a, _, s => by
    refine ⟨by simp [contract, leaves], by simp [contract], ?_⟩
    intro x hx
    simp only [leaves, List.mem_singleton] at hx
    subst hx; exact Conn.refl _
  | .node [t1, t2], h, s => by
    have hb := h
    simp only [isBinary, Bool.and_eq_true] at h
    obtain ⟨a1, b1, c1⟩ := contract_facts t1 h.1 t2.firstLeaf
    obtain ⟨a2, b2, c2⟩ := contract_facts t2 h.2 (contract t1 t2.firstLeaf).1
    obtain ⟨left, right, heq, hlr⟩ := contract_node t1 t2 s
    have hleaves : ∀ x, x ∈ (LTree.node [t1, t2]).leaves ↔ x ∈ t1.leaves ∨ x ∈ t2.leaves := by
      intro x; simp [leaves, leavesL]
    have hfl := firstLeaf_mem h.2
    rw [heq]
    simp only [innerTr]
    have hL : left ∈ (LTree.node [t1, t2]).leaves ∧ right ∈ (LTree.node [t1, t2]).leaves := by
      rcases hlr with ⟨rfl, rfl⟩ | ⟨rfl, rfl⟩
      · exact ⟨(hleaves _).mpr (Or.inl a1), (hleaves _).mpr (Or.inr a2)⟩
      · exact ⟨(hleaves _).mpr (Or.inr a2), (hleaves _).mpr (Or.inl a1)⟩
    refine ⟨hL.2, ?_, ?_⟩
    · intro tr htr
      simp only [List.mem_append, List.mem_singleton] at htr
      rcases htr with (htr | htr) | rfl
      · obtain ⟨p, q, r⟩ := b1 tr htr
        refine ⟨(hleaves _).mpr (Or.inl p), (hleaves _).mpr (Or.inl q), Or.inl ?_⟩
        rcases r with r | r
        · exact (hleaves _).mpr (Or.inl r)
        · rw [r]; exact (hleaves _).mpr (Or.inr hfl)
      · obtain ⟨p, q, r⟩ := b2 tr htr
        refine ⟨(hleaves _).mpr (Or.inr p), (hleaves _).mpr (Or.inr q), Or.inl ?_⟩
        rcases r with r | r
        · exact (hleaves _).mpr (Or.inr r)
        · rw [r]; exact (hleaves _).mpr (Or.inl a1)
      · rcases mkTriple_cases left right s with e | e <;> rw [e]
        · exact ⟨hL.1, hL.2, Or.inr rfl⟩
        · exact ⟨hL.2, hL.1, Or.inr rfl⟩
    · have hlast : Conn (pairsN [mkTriple left right s]) left right := by
        rcases mkTriple_cases left right s with e | e <;> rw [e]
        · exact Conn.base (by simp [pairsN])
        · exact (Conn.base (by simp [pairsN])).symm
      have h12 : Conn (pairsN (((contract t1 t2.firstLeaf).2 ++
          (contract t2 (contract t1 t2.firstLeaf).1).2) ++ [mkTriple left right s]))
          (contract t1 t2.firstLeaf).1 (contract t2 (contract t1 t2.firstLeaf).1).1 := by
        rw [pairsN_append]
        rcases hlr with ⟨rfl, rfl⟩ | ⟨rfl, rfl⟩
        · exact conn_append_right hlast
        · exact conn_append_right hlast.symm
      intro x hx
      have hx1 : x ∈ t1.leaves → Conn (pairsN (((contract t1 t2.firstLeaf).2 ++
          (contract t2 (contract t1 t2.firstLeaf).1).2) ++ [mkTriple left right s]))
          x (contract t1 t2.firstLeaf).1 := by
        intro hx
        rw [pairsN_append, pairsN_append]
        exact conn_append_left (conn_append_left (c1 x hx))
      have hx2 : x ∈ t2.leaves → Conn (pairsN (((contract t1 t2.firstLeaf).2 ++
          (contract t2 (contract t1 t2.firstLeaf).1).2) ++ [mkTriple left right s]))
          x (contract t2 (contract t1 t2.firstLeaf).1).1 := by
        intro hx
        rw [pairsN_append, pairsN_append]
        exact conn_append_left (conn_append_right (c2 x hx))
      rcases (hleaves x).mp hx with hx | hx
      · rcases hlr with ⟨_, rfl⟩ | ⟨rfl, _⟩
        · exact (hx1 hx).trans h12
        · exact hx1 hx
      · rcases hlr with ⟨_, rfl⟩ | ⟨rfl, _⟩
        · exact hx2 hx
        · exact (hx2 hx).trans h12.symm
  | .node [], h, _ => by simp [isBinary] at h
  | .node [_], h, _ => by simp [isBinary] at h
  | .node (_ :: _ :: _ :: _), h, _ => by simp [isBinary] at h

/-! ### Assembling the rebuilt tree -/

theorem sameClades_iff (t u : LTree) :
    sameClades t u = true ↔
      (∀ C, C ∈ clades t → ∃ C', C' ∈ clades u ∧ ∀ x, x ∈ C ↔ x ∈ C') ∧
      (∀ C, C ∈ clades u → ∃ C', C' ∈ clades t ∧ ∀ x, x ∈ C ↔ x ∈ C') := by
  simp only [sameClades, Bool.and_eq_true, cladesSub_iff]

theorem mem_clades_node (cs : List LTree) (C : List Nat) :
    C ∈ clades (.node cs) ↔ C = leavesL cs ∨ ∃ c, c ∈ cs ∧ C ∈ clades c := by
  simp [clades, mem_cladesL]

/-- The rebuilt children match the two subtrees in some order. -/
theorem assemble {T1 T2 : LTree} {us : List LTree}
    (h1 : ∀ u, u ∈ us → ∃ Ti, (Ti = T1 ∨ Ti = T2) ∧ sameClades Ti u = true ∧
      ∀ x, x ∈ u.leaves ↔ x ∈ Ti.leaves)
    (h2 : ∀ Ti, (Ti = T1 ∨ Ti = T2) → ∃ u, u ∈ us ∧ sameClades Ti u = true ∧
      ∀ x, x ∈ u.leaves ↔ x ∈ Ti.leaves) :
    sameClades (.node [T1, T2]) (.node us) = true ∧
    ∀ x, x ∈ (LTree.node us).leaves ↔ x ∈ (LTree.node [T1, T2]).leaves := by
  have hleaves : ∀ x, x ∈ (LTree.node us).leaves ↔ x ∈ (LTree.node [T1, T2]).leaves := by
    intro x
    simp only [leaves, mem_leavesL, List.mem_cons, List.not_mem_nil, or_false]
    constructor
    · rintro ⟨u, hu, hx⟩
      obtain ⟨Ti, hTi, _, hm⟩ := h1 u hu
      exact ⟨Ti, hTi, (hm x).mp hx⟩
    · rintro ⟨Ti, hTi, hx⟩
      obtain ⟨u, hu, _, hm⟩ := h2 Ti hTi
      exact ⟨u, hu, (hm x).mpr hx⟩
  refine ⟨?_, hleaves⟩
  rw [sameClades_iff]
  constructor
  · intro C hC
    rcases (mem_clades_node _ C).mp hC with rfl | ⟨Ti, hTi, hCi⟩
    · exact ⟨leavesL us, (mem_clades_node _ _).mpr (Or.inl rfl), fun x => (hleaves x).symm⟩
    · simp only [List.mem_cons, List.not_mem_nil, or_false] at hTi
      obtain ⟨u, hu, hs, _⟩ := h2 Ti hTi
      obtain ⟨C', hC', heq⟩ := ((sameClades_iff Ti u).mp hs).1 C hCi
      exact ⟨C', (mem_clades_node _ _).mpr (Or.inr ⟨u, hu, hC'⟩), heq⟩
  · intro C hC
    rcases (mem_clades_node _ C).mp hC with rfl | ⟨u, hu, hCu⟩
    · exact ⟨leavesL [T1, T2], (mem_clades_node _ _).mpr (Or.inl rfl), fun x => hleaves x⟩
    · obtain ⟨Ti, hTi, hs, _⟩ := h1 u hu
      obtain ⟨C', hC', heq⟩ := ((sameClades_iff Ti u).mp hs).2 C hCu
      exact ⟨C', (mem_clades_node _ _).mpr (Or.inr ⟨Ti, by simpa using hTi, hC'⟩), heq⟩

theorem sameClades_leaf (a : Nat) : sameClades (.leaf a) (.leaf a) = true := by
  simp [sameClades, cladesSub, clades, sameSet]

theorem mapM_of_forall {α β : Type} {f : α → Option β} : ∀ {as : List α},
    (∀ a, a ∈ as → ∃ b, f a = some b) → ∃ bs, as.mapM f = some bs := by
  intro as
  induction as with
  | nil => intro _; exact ⟨[], by simp⟩
  | cons a as ih =>
    intro h
    obtain ⟨b, hb⟩ := h a (by simp)
    obtain ⟨bs, hbs⟩ := ih (fun x hx => h x (by simp [hx]))
    exact ⟨b :: bs, by rw [List.mapM_cons]; simp [hb, hbs]⟩

theorem conn_map (f : Nat → Nat) {ps : List (Nat × Nat)} {a b : Nat} (h : Conn ps a b) :
    Conn (ps.map (fun p => (f p.1, f p.2))) (f a) (f b) := by
  induction h with
  | base hm => exact Conn.base (List.mem_map.mpr ⟨_, hm, rfl⟩)
  | refl a => exact Conn.refl _
  | symm _ ih => exact ih.symm
  | trans _ _ ih1 ih2 => exact ih1.trans ih2

theorem binary_single : ∀ (t : LTree), t.isBinary = true → t.leaves.length = 1 → ∃ a, t = .leaf a
  | .leaf a, _, _ => ⟨a, rfl⟩
  | .node [a, b], h, hl => by
    simp only [isBinary, Bool.and_eq_true] at h
    have h1 := binary_leaves_ne a h.1
    have h2 := binary_leaves_ne b h.2
    simp only [leaves, leavesL, List.append_nil, List.length_append] at hl
    have : a.leaves.length ≠ 0 := fun h => h1 (List.eq_nil_of_length_eq_zero h)
    have : b.leaves.length ≠ 0 := fun h => h2 (List.eq_nil_of_length_eq_zero h)
    omega
  | .node [], h, _ => by simp [isBinary] at h
  | .node [_], h, _ => by simp [isBinary] at h
  | .node (_ :: _ :: _ :: _), h, _ => by simp [isBinary] at h

/-! ### One level of the round trip -/

theorem innerTr_node (t1 t2 : LTree) : innerTr (.node [t1, t2]) =
    (contract t1 t2.firstLeaf).2 ++ (contract t2 (contract t1 t2.firstLeaf).1).2 := rfl

theorem leaves_node2 (t1 t2 : LTree) (x : Nat) :
    x ∈ (LTree.node [t1, t2]).leaves ↔ x ∈ t1.leaves ∨ x ∈ t2.leaves := by
  simp [leaves, leavesL]

/-- The sides of the inner triples of a two-child node. -/
theorem innerTr_sides {t1 t2 : LTree} (h1 : t1.isBinary = true) (h2 : t2.isBinary = true) :
    (∀ tr, tr ∈ (contract t1 t2.firstLeaf).2 →
      tr.1 ∈ t1.leaves ∧ tr.2.1 ∈ t1.leaves ∧ (tr.2.2 ∈ t1.leaves ∨ tr.2.2 ∈ t2.leaves)) ∧
    (∀ tr, tr ∈ (contract t2 (contract t1 t2.firstLeaf).1).2 →
      tr.1 ∈ t2.leaves ∧ tr.2.1 ∈ t2.leaves ∧ (tr.2.2 ∈ t2.leaves ∨ tr.2.2 ∈ t1.leaves)) := by
  obtain ⟨a1, b1, _⟩ := contract_facts t1 h1 t2.firstLeaf
  obtain ⟨_, b2, _⟩ := contract_facts t2 h2 (contract t1 t2.firstLeaf).1
  constructor
  · intro tr htr
    obtain ⟨p, q, r⟩ := b1 tr htr
    refine ⟨p, q, ?_⟩
    rcases r with r | r
    · exact Or.inl r
    · rw [r]; exact Or.inr (firstLeaf_mem h2)
  · intro tr htr
    obtain ⟨p, q, r⟩ := b2 tr htr
    refine ⟨p, q, ?_⟩
    rcases r with r | r
    · exact Or.inl r
    · rw [r]; exact Or.inr a1

theorem innerTr_inside : ∀ (T : LTree), T.isBinary = true → ∀ tr, tr ∈ innerTr T →
    tr.1 ∈ T.leaves ∧ tr.2.1 ∈ T.leaves ∧ tr.2.2 ∈ T.leaves
  | .leaf _, _, tr, h => by simp [innerTr] at h
  | .node [t1, t2], h, tr, htr => by
    simp only [isBinary, Bool.and_eq_true] at h
    obtain ⟨s1, s2⟩ := innerTr_sides h.1 h.2
    rw [innerTr_node, List.mem_append] at htr
    simp only [leaves_node2]
    rcases htr with htr | htr
    · obtain ⟨p, q, r⟩ := s1 tr htr
      exact ⟨Or.inl p, Or.inl q, r⟩
    · obtain ⟨p, q, r⟩ := s2 tr htr
      exact ⟨Or.inr p, Or.inr q, r.symm⟩
  | .node [], h, _, _ => by simp [isBinary] at h
  | .node [_], h, _, _ => by simp [isBinary] at h
  | .node (_ :: _ :: _ :: _), h, _, _ => by simp [isBinary] at h

/-- The emitted triples whose third leaf is inside are the inner ones. -/
theorem contract_inner : ∀ (T : LTree), T.isBinary = true → ∀ s, s ∉ T.leaves → ∀ tr,
    (tr ∈ (contract T s).2 ∧ tr.2.2 ∈ T.leaves) ↔ tr ∈ innerTr T
  | .leaf _, _, s, _, tr => by simp [contract, innerTr]
  | .node [t1, t2], h, s, hs, tr => by
    obtain ⟨left, right, heq, _⟩ := contract_node t1 t2 s
    rw [heq]
    simp only [List.mem_append, List.mem_singleton]
    constructor
    · rintro ⟨htr | rfl, h3⟩
      · exact htr
      · exfalso
        rcases mkTriple_cases left right s with e | e <;> rw [e] at h3 <;> exact hs h3
    · intro htr
      exact ⟨Or.inl htr, (innerTr_inside _ h tr htr).2.2⟩
  | .node [], h, _, _, _ => by simp [isBinary] at h
  | .node [_], h, _, _, _ => by simp [isBinary] at h
  | .node (_ :: _ :: _ :: _), h, _, _, _ => by simp [isBinary] at h

/-- Restricting the inner triples of a node to one child gives the inner
    triples of that child. -/
theorem innerTr_filter {t1 t2 : LTree} (h1 : t1.isBinary = true) (h2 : t2.isBinary = true)
    (hdis : ∀ x, x ∈ t1.leaves → x ∉ t2.leaves) :
    (∀ L, (∀ x, x ∈ L ↔ x ∈ t1.leaves) → ∀ tr,
      (tr ∈ innerTr (.node [t1, t2]) ∧ inside L tr = true) ↔ tr ∈ innerTr t1) ∧
    (∀ L, (∀ x, x ∈ L ↔ x ∈ t2.leaves) → ∀ tr,
      (tr ∈ innerTr (.node [t1, t2]) ∧ inside L tr = true) ↔ tr ∈ innerTr t2) := by
  obtain ⟨s1, s2⟩ := innerTr_sides h1 h2
  have hr1 : (contract t1 t2.firstLeaf).1 ∈ t1.leaves := (contract_facts t1 h1 _).1
  have hfl : t2.firstLeaf ∉ t1.leaves := fun h => hdis _ h (firstLeaf_mem h2)
  have hr1' : (contract t1 t2.firstLeaf).1 ∉ t2.leaves := hdis _ hr1
  constructor
  · intro L hL tr
    rw [innerTr_node, List.mem_append, inside_iff, hL, hL, hL]
    constructor
    · rintro ⟨htr | htr, i1, _, i3⟩
      · exact (contract_inner t1 h1 _ hfl tr).mp ⟨htr, i3⟩
      · exact absurd (s2 tr htr).1 (hdis _ i1)
    · intro htr
      have := innerTr_inside t1 h1 tr htr
      exact ⟨Or.inl ((contract_inner t1 h1 _ hfl tr).mpr htr).1, this⟩
  · intro L hL tr
    rw [innerTr_node, List.mem_append, inside_iff, hL, hL, hL]
    constructor
    · rintro ⟨htr | htr, i1, _, i3⟩
      · exact absurd i1 (hdis _ (s1 tr htr).1)
      · exact (contract_inner t2 h2 _ hr1' tr).mp ⟨htr, i3⟩
    · intro htr
      have := innerTr_inside t2 h2 tr htr
      exact ⟨Or.inr ((contract_inner t2 h2 _ hr1' tr).mpr htr).1, this⟩

/-- The BUILD partition at the root of `node [t1, t2]` separates exactly the
    leaves of `t1` from those of `t2`. -/
theorem level_classes {t1 t2 : LTree} (h1 : t1.isBinary = true) (h2 : t2.isBinary = true)
    (hdis : ∀ x, x ∈ t1.leaves → x ∉ t2.leaves) {l : List Nat} {trs : List Triple} (hl : l.Nodup)
    (hmem : ∀ x, x ∈ l ↔ x ∈ t1.leaves ∨ x ∈ t2.leaves)
    (htrs : ∀ tr, tr ∈ trs ↔ tr ∈ innerTr (.node [t1, t2])) :
    Known l trs ∧ ∀ i j, i < l.length → j < l.length →
      (Same (partitionOf l trs) i j ↔ (l.getD i 0 ∈ t1.leaves ↔ l.getD j 0 ∈ t1.leaves)) := by
  obtain ⟨s1, s2⟩ := innerTr_sides h1 h2
  have hsides : ∀ tr, tr ∈ trs → (tr.1 ∈ t1.leaves ∧ tr.2.1 ∈ t1.leaves) ∨
      (tr.1 ∈ t2.leaves ∧ tr.2.1 ∈ t2.leaves) := by
    intro tr htr
    have := (htrs tr).mp htr
    rw [innerTr_node, List.mem_append] at this
    rcases this with h | h
    · exact Or.inl ⟨(s1 tr h).1, (s1 tr h).2.1⟩
    · exact Or.inr ⟨(s2 tr h).1, (s2 tr h).2.1⟩
  have hk : Known l trs := by
    intro tr htr
    rcases hsides tr htr with ⟨a, b⟩ | ⟨a, b⟩
    · exact ⟨(hmem _).mpr (Or.inl a), (hmem _).mpr (Or.inl b)⟩
    · exact ⟨(hmem _).mpr (Or.inr a), (hmem _).mpr (Or.inr b)⟩
  refine ⟨hk, ?_⟩
  have hI := partitionOf_inv hk
  -- the side of an index
  let σ : Nat → Bool := fun i => decide (l.getD i 0 ∈ t1.leaves)
  have hker : ∀ i j, Conn (trs.map (fun t => (l.idxOf t.1, l.idxOf t.2.1))) i j → σ i = σ j := by
    intro i j h
    induction h with
    | base hm =>
      obtain ⟨tr, htr, heq⟩ := List.mem_map.mp hm
      simp only [Prod.mk.injEq] at heq
      obtain ⟨rfl, rfl⟩ := heq
      simp only [σ, getD_idxOf (hk tr htr).1, getD_idxOf (hk tr htr).2]
      rcases hsides tr htr with ⟨a, b⟩ | ⟨a, b⟩
      · simp [a, b]
      · have na : tr.1 ∉ t1.leaves := fun h => hdis _ h a
        have nb : tr.2.1 ∉ t1.leaves := fun h => hdis _ h b
        simp [na, nb]
    | refl a => rfl
    | symm _ ih => exact ih.symm
    | trans _ _ ih1 ih2 => exact ih1.trans ih2
  -- every leaf is connected to the representative of its side
  have hmono : ∀ {C : List Triple}, (∀ tr, tr ∈ C → tr ∈ trs) → ∀ {x y : Nat},
      Conn (pairsN C) x y →
      Conn (trs.map (fun t => (l.idxOf t.1, l.idxOf t.2.1))) (l.idxOf x) (l.idxOf y) := by
    intro C hC x y h
    have h' : Conn (pairsN trs) x y := h.mono (by
      intro p hp
      obtain ⟨tr, htr, rfl⟩ := List.mem_map.mp hp
      exact List.mem_map.mpr ⟨tr, hC tr htr, rfl⟩)
    have := conn_map l.idxOf h'
    simpa [pairsN, List.map_map, Function.comp_def] using this
  have hc1 := (contract_facts t1 h1 t2.firstLeaf).2.2
  have hc2 := (contract_facts t2 h2 (contract t1 t2.firstLeaf).1).2.2
  have hC1 : ∀ tr, tr ∈ (contract t1 t2.firstLeaf).2 → tr ∈ trs := fun tr h =>
    (htrs tr).mpr (by rw [innerTr_node]; exact List.mem_append.mpr (Or.inl h))
  have hC2 : ∀ tr, tr ∈ (contract t2 (contract t1 t2.firstLeaf).1).2 → tr ∈ trs := fun tr h =>
    (htrs tr).mpr (by rw [innerTr_node]; exact List.mem_append.mpr (Or.inr h))
  intro i j hi hj
  rw [hI.same]
  constructor
  · intro h
    have := hker i j h
    simp only [σ, decide_eq_decide] at this
    exact this
  · intro hiff
    have hli := getD_mem hi
    have hlj := getD_mem hj
    by_cases hi1 : l.getD i 0 ∈ t1.leaves
    · have hj1 := hiff.mp hi1
      have ci := hmono hC1 (hc1 _ hi1)
      have cj := hmono hC1 (hc1 _ hj1)
      rw [idxOf_getD hl hi] at ci
      rw [idxOf_getD hl hj] at cj
      exact ci.trans cj.symm
    · have hj1 : l.getD j 0 ∉ t1.leaves := fun h => hi1 (hiff.mpr h)
      have hi2 := ((hmem _).mp hli).resolve_left hi1
      have hj2 := ((hmem _).mp hlj).resolve_left hj1
      have ci := hmono hC2 (hc2 _ hi2)
      have cj := hmono hC2 (hc2 _ hj2)
      rw [idxOf_getD hl hi] at ci
      rw [idxOf_getD hl hj] at cj
      exact ci.trans cj.symm

/-! ### The round trip -/

theorem build_roundtrip : ∀ (fuel : Nat) (T : LTree) (l : List Nat) (trs : List Triple),
    T.isBinary = true → T.leaves.Nodup → l.Nodup → (∀ x, x ∈ l ↔ x ∈ T.leaves) →
    (∀ tr, tr ∈ trs ↔ tr ∈ innerTr T) → T.leaves.length ≤ fuel →
    ∃ u, build fuel l trs = some u ∧ sameClades T u = true ∧ ∀ x, x ∈ u.leaves ↔ x ∈ T.leaves := by
  intro fuel
  induction fuel with
  | zero =>
    intro T l trs hb _ _ _ _ hlen
    exact absurd (List.eq_nil_of_length_eq_zero (Nat.le_zero.mp hlen)) (binary_leaves_ne T hb)
  | succ fuel ih =>
    intro T l trs hb hTn hl hmem htrs hlen
    have hperm : l.Perm T.leaves := (List.perm_ext_iff_of_nodup hl hTn).mpr hmem
    have hll : l.length = T.leaves.length := hperm.length_eq
    match T, hb with
    | .leaf a, _ =>
      have : l = [a] := by simpa [leaves] using hperm
      subst this
      exact ⟨.leaf a, by simp [build], sameClades_leaf a, fun x => Iff.rfl⟩
    | .node [], hb => simp [isBinary] at hb
    | .node [_], hb => simp [isBinary] at hb
    | .node (_ :: _ :: _ :: _), hb => simp [isBinary] at hb
    | .node [t1, t2], hb =>
      simp only [isBinary, Bool.and_eq_true] at hb
      obtain ⟨hb1, hb2⟩ := hb
      have hTl : (LTree.node [t1, t2]).leaves = t1.leaves ++ t2.leaves := by simp [leaves, leavesL]
      rw [hTl] at hTn hlen hll
      obtain ⟨hn1, hn2, hd⟩ := List.nodup_append.mp hTn
      have hdis : ∀ x, x ∈ t1.leaves → x ∉ t2.leaves := fun x h1 h2 => hd x h1 x h2 rfl
      have hmem' : ∀ x, x ∈ l ↔ x ∈ t1.leaves ∨ x ∈ t2.leaves := fun x => by
        rw [hmem, leaves_node2]
      have hne1 := binary_leaves_ne t1 hb1
      have hne2 := binary_leaves_ne t2 hb2
      have hlen1 : 1 ≤ t1.leaves.length := by
        cases h : t1.leaves with
        | nil => exact absurd h hne1
        | cons _ _ => simp
      have hlen2 : 1 ≤ t2.leaves.length := by
        cases h : t2.leaves with
        | nil => exact absurd h hne2
        | cons _ _ => simp
      rw [List.length_append] at hlen hll
      match l, hl, hmem', hll, htrs with
      | [], _, _, hll, _ => simp at hll; omega
      | [_], _, _, hll, _ => simp at hll; omega
      | [x, y], hl, hmem', hll, _ =>
        simp only [List.length_cons, List.length_nil] at hll
        obtain ⟨a, rfl⟩ := binary_single t1 hb1 (by omega)
        obtain ⟨b, rfl⟩ := binary_single t2 hb2 (by omega)
        refine ⟨.node [.leaf x, .leaf y], by simp [build], ?_⟩
        have hres := assemble (T1 := .leaf a) (T2 := .leaf b) (us := [.leaf x, .leaf y]) ?_ ?_
        · exact ⟨hres.1, hres.2⟩
        · intro u hu
          simp only [List.mem_cons, List.not_mem_nil, or_false] at hu
          have hxy : ∀ z, z ∈ [x, y] → ∃ Ti : LTree, (Ti = .leaf a ∨ Ti = .leaf b) ∧
              sameClades Ti (.leaf z) = true ∧ ∀ w, w ∈ (LTree.leaf z).leaves ↔ w ∈ Ti.leaves := by
            intro z hz
            have := (hmem' z).mp hz
            simp only [leaves, List.mem_singleton] at this
            rcases this with rfl | rfl
            · exact ⟨_, Or.inl rfl, sameClades_leaf _, fun w => Iff.rfl⟩
            · exact ⟨_, Or.inr rfl, sameClades_leaf _, fun w => Iff.rfl⟩
          rcases hu with rfl | rfl
          · exact hxy x (by simp)
          · exact hxy y (by simp)
        · intro Ti hTi
          have hab : ∀ z, (z = a ∨ z = b) → ∃ u, u ∈ [LTree.leaf x, LTree.leaf y] ∧
              sameClades (.leaf z) u = true ∧ ∀ w, w ∈ u.leaves ↔ w ∈ (LTree.leaf z).leaves := by
            intro z hz
            have : z ∈ [x, y] := (hmem' z).mpr (by simpa [leaves] using hz)
            simp only [List.mem_cons, List.not_mem_nil, or_false] at this
            rcases this with rfl | rfl
            · exact ⟨_, by simp, sameClades_leaf _, fun w => Iff.rfl⟩
            · exact ⟨_, by simp, sameClades_leaf _, fun w => Iff.rfl⟩
          rcases hTi with rfl | rfl
          · exact hab a (Or.inl rfl)
          · exact hab b (Or.inr rfl)
      | x :: y :: z :: rest, hl, hmem', hll, htrs =>
        generalize hl' : x :: y :: z :: rest = l at *
        obtain ⟨hk, hsame⟩ := level_classes hb1 hb2 hdis hl hmem' htrs
        have hI := partitionOf_inv hk
        have hW := hI.wf
        have hn := hI.size
        obtain ⟨f1, f2⟩ := innerTr_filter hb1 hb2 hdis
        -- two classes
        obtain ⟨x1, hx1⟩ := List.exists_mem_of_ne_nil _ hne1
        obtain ⟨x2, hx2⟩ := List.exists_mem_of_ne_nil _ hne2
        have hx1l : x1 ∈ l := (hmem' _).mpr (Or.inl hx1)
        have hx2l : x2 ∈ l := (hmem' _).mpr (Or.inr hx2)
        have hi1 : l.idxOf x1 < l.length := List.idxOf_lt_length_iff.mpr hx1l
        have hi2 : l.idxOf x2 < l.length := List.idxOf_lt_length_iff.mpr hx2l
        have hx2n : x2 ∉ t1.leaves := fun h => hdis _ h hx2
        have htwo : (partitionOf l trs).nroots = 2 := by
          apply nroots_two hW hn
          refine ⟨l.idxOf x1, l.idxOf x2, hi1, hi2, ?_, ?_⟩
          · rw [hsame _ _ hi1 hi2, getD_idxOf hx1l, getD_idxOf hx2l]
            intro h; exact hx2n (h.mp hx1)
          · intro i hi
            by_cases h : l.getD i 0 ∈ t1.leaves
            · left; rw [hsame _ _ hi hi1, getD_idxOf hx1l]; exact ⟨fun _ => hx1, fun _ => h⟩
            · right; rw [hsame _ _ hi hi2, getD_idxOf hx2l]
              exact ⟨fun h' => absurd h' h, fun h' => absurd h' hx2n⟩
        have hgroups : ¬ (partitionOf l trs).groups ≤ 1 := by rw [hW.grp, htwo]; omega
        have hC := toList_isClassList hW
        obtain ⟨_, q2, _, q4⟩ := classList_names hl hn hC
        -- every group is one of the two subtrees, and is rebuilt correctly
        have hgroup : ∀ g, g ∈ (partitionOf l trs).toList.2 → ∃ Ti : LTree, (Ti = t1 ∨ Ti = t2) ∧
            (∀ w, w ∈ groupLeaves l g ↔ w ∈ Ti.leaves) ∧
            ∃ u, build fuel (groupLeaves l g) (trs.filter (inside (groupLeaves l g))) = some u ∧
              sameClades Ti u = true ∧ ∀ w, w ∈ u.leaves ↔ w ∈ Ti.leaves := by
          intro g hg
          obtain ⟨r, hr, hroot, hm⟩ := hC.isClass g hg
          have hrn : r < l.length := hn ▸ hr
          have hgl : ∀ i, i ∈ g → i < l.length := fun i hi => hn ▸ ((hm i).mp hi).1
          have hsr : ∀ i, i < l.length → (i ∈ g ↔ Same (partitionOf l trs) i r) := by
            intro i hi
            rw [hm]
            constructor
            · rintro ⟨_, h⟩; exact ⟨r, h, RootOf.root hroot⟩
            · rintro ⟨ρ, h1, h2⟩
              rw [RootOf.of_root hroot h2] at h1
              exact ⟨hn ▸ hi, h1⟩
          have hside : ∀ (P : Nat → Prop), (∀ i, i < l.length → (i ∈ g ↔ P (l.getD i 0))) →
              (∀ w, P w → w ∈ l) → ∀ w, w ∈ groupLeaves l g ↔ P w := by
            intro P hP hPl w
            rw [mem_groupLeaves]
            constructor
            · rintro ⟨i, hi, rfl⟩; exact (hP i (hgl i hi)).mp hi
            · intro hw
              have hwl := hPl w hw
              have hi := List.idxOf_lt_length_iff.mpr hwl
              exact ⟨l.idxOf w, (hP _ hi).mpr (by rw [getD_idxOf hwl]; exact hw), getD_idxOf hwl⟩
          by_cases hr1 : l.getD r 0 ∈ t1.leaves
          · have hg1 : ∀ w, w ∈ groupLeaves l g ↔ w ∈ t1.leaves := by
              apply hside (fun w => w ∈ t1.leaves)
              · intro i hi
                rw [hsr i hi, hsame i r hi hrn]
                exact ⟨fun h => h.mpr hr1, fun h => ⟨fun _ => hr1, fun _ => h⟩⟩
              · intro w hw; exact (hmem' w).mpr (Or.inl hw)
            refine ⟨t1, Or.inl rfl, hg1, ?_⟩
            apply ih t1 _ _ hb1 hn1 (q4 g hg) hg1
            · intro tr
              rw [List.mem_filter, htrs]
              exact f1 _ hg1 tr
            · omega
          · have hg2 : ∀ w, w ∈ groupLeaves l g ↔ w ∈ t2.leaves := by
              apply hside (fun w => w ∈ t2.leaves)
              · intro i hi
                rw [hsr i hi, hsame i r hi hrn]
                have hi2 : l.getD i 0 ∈ t1.leaves ∨ l.getD i 0 ∈ t2.leaves := (hmem' _).mp (getD_mem hi)
                constructor
                · intro h
                  exact hi2.resolve_left (fun h' => hr1 (h.mp h'))
                · intro h
                  exact ⟨fun h' => absurd h (hdis _ h'), fun h' => absurd h' hr1⟩
              · intro w hw; exact (hmem' w).mpr (Or.inr hw)
            refine ⟨t2, Or.inr rfl, hg2, ?_⟩
            apply ih t2 _ _ hb2 hn2 (q4 g hg) hg2
            · intro tr
              rw [List.mem_filter, htrs]
              exact f2 _ hg2 tr
            · omega
        obtain ⟨us, hus⟩ := mapM_of_forall (f := fun g =>
            build fuel (groupLeaves l g) (trs.filter (inside (groupLeaves l g))))
          (fun g hg => by obtain ⟨_, _, _, u, hu, _⟩ := hgroup g hg; exact ⟨u, hu⟩)
        have hall := all2_of_mapM hus
        refine ⟨.node us, ?_, ?_⟩
        · rw [← hl']
          simp only [build]
          rw [hl']
          simp only [hgroups, if_false]
          rw [hus]; rfl
        · have hres := assemble (T1 := t1) (T2 := t2) (us := us) ?_ ?_
          · exact ⟨hres.1, hres.2⟩
          · intro u hu
            obtain ⟨g, hg, hgu⟩ := hall.right hu
            obtain ⟨Ti, hTi, _, u', hu', hs, hlv⟩ := hgroup g hg
            have : u = u' := by
              have h := hgu.symm.trans hu'
              exact Option.some.inj h
            subst this
            exact ⟨Ti, hTi, hs, hlv⟩
          · intro Ti hTi
            have hneT : Ti.leaves ≠ [] := by rcases hTi with rfl | rfl <;> assumption
            obtain ⟨w, hw⟩ := List.exists_mem_of_ne_nil _ hneT
            have hwl : w ∈ l := (hmem' w).mpr (by rcases hTi with rfl | rfl; exact Or.inl hw; exact Or.inr hw)
            obtain ⟨L, hL, hwL⟩ := (q2 w).mp hwl
            obtain ⟨g, hg, rfl⟩ := List.mem_map.mp hL
            obtain ⟨Tg, hTg, hgm, u, hu, hs, hlv⟩ := hgroup g hg
            have hwg : w ∈ Tg.leaves := (hgm w).mp hwL
            have hTT : Tg = Ti := by
              rcases hTi with rfl | rfl <;> rcases hTg with rfl | rfl
              · rfl
              · exact absurd hwg (hdis _ hw)
              · exact absurd hw (hdis _ hwg)
              · rfl
            subst hTT
            obtain ⟨u'', hu'', hgu⟩ := hall.left hg
            have : u'' = u := Option.some.inj (hgu.symm.trans hu)
            subst this
            exact ⟨u'', hu'', hs, hlv⟩

end SR.Tri
