/-
  C10 (unordered ≤ ordered), local part: at one internal node the unordered evaluator
  never charges more segmental losses than the ordered one, provided that "the parent's
  set is not included in the child's set" implies "the child's sequence misses an element
  of the parent's sequence".

  * `one_le_lostRuns_true`   a keep/lost pattern containing a lost position has at least
        one run of lost positions when the end runs are counted;
  * `dist_true_pos`          for `child <+ parent <+ root` (duplicate-free root order), if
        some element of `parent` is absent from `child` then
        `subseq_segment_dist(child, parent, edges=True) ≥ 1` (C18 bridge; the empty child is
        the recorded special case `C18_dist_zero`);
  * `localLoss_le`           `localOrdLosses … = some k → localUnordLosses … = some k'` with
        `k' ≤ k`, for every event (speciation: both sides with ends; duplication: the
        minimum over which side is the conserved copy; transfer: the kept side), given the
        two implications above for the two children.
-/
import SRVerif.Properties.C18
import SRVerif.Model.Rec

namespace SR

open SubseqSpec SubseqProofs

/-- A pattern with a lost position has at least one lost run (ends counted). -/
theorem one_le_cnt_true (l : List Bool) (h : false ∈ l) : 1 ≤ cnt true false l := by
  induction l with
  | nil => simp at h
  | cons b t ih =>
    cases b with
    | true =>
      rw [cnt_true_cons_true]
      exact ih (by simpa using h)
    | false =>
      have e := cnt_true_cons_false false t
      by_cases hh : t.head? = some false
      · have hm : false ∈ t := by
          cases t with
          | nil => simp at hh
          | cons a t' => simp at hh; simp [hh]
        have := ih hm
        have hs : startsWith false t = 1 := by simp [startsWith, hh]
        rw [hs] at e
        omega
      · have hs : startsWith false t = 0 := by simp [startsWith, hh]
        rw [hs] at e
        omega

theorem one_le_lostRuns_true (l : List Bool) (h : false ∈ l) : 1 ≤ lostRuns true l := by
  rw [lostRuns_eq_cnt]; exact one_le_cnt_true l h

/-- With the end runs counted, a child sequence that misses an element of its parent is
    at segment distance at least one. -/
theorem dist_true_pos {order f fa : List Nat} (hnd : order.Nodup) (hf : f.Sublist order)
    (hfa : fa.Sublist f) {x : Nat} (hx : x ∈ f) (hxa : x ∉ fa) :
    1 ≤ subseqSegmentDist (maskFromSubseq fa order) (maskFromSubseq f order) true := by
  by_cases hne : fa = []
  · subst hne
    rw [maskFromSubseq_nil_left, (C18.C18_dist_zero _).2.1]
    have : maskFromSubseq f order ≠ 0 := mask_ne_zero order f (List.ne_nil_of_mem hx) hf
    simp [this]
  · rw [C18.C18_bridge fa f order true hnd hfa hf hne]
    have : 1 ≤ lostRunsSeq true fa f := by
      unfold lostRunsSeq
      apply one_le_lostRuns_true
      simp only [List.mem_map, decide_eq_false_iff_not]
      exact ⟨x, hx, hxa⟩
    exact_mod_cast this

/-- **One node**: the unordered charge is at most the ordered charge. -/
theorem localLoss_le {ev : Event} {kl : Bool} {m ml mr k : Nat} {f fl fr : List Nat}
    (hl : subsetB f fl = false → 1 ≤ subseqSegmentDist ml m true)
    (hr : subsetB f fr = false → 1 ≤ subseqSegmentDist mr m true)
    (h : localOrdLosses ev kl m ml mr = some k) :
    ∃ k', localUnordLosses ev kl f fl fr = some k' ∧ k' ≤ k := by
  have hl' : (if subsetB f fl then 0 else 1 : Nat) ≤ (subseqSegmentDist ml m true).toNat := by
    cases hb : subsetB f fl
    · have := hl hb; simp; omega
    · simp
  have hr' : (if subsetB f fr then 0 else 1 : Nat) ≤ (subseqSegmentDist mr m true).toNat := by
    cases hb : subsetB f fr
    · have := hr hb; simp; omega
    · simp
  cases ev with
  | leaf => simp [localOrdLosses] at h
  | invalid => simp [localOrdLosses] at h
  | spec =>
    simp only [localOrdLosses, addDist] at h
    split at h
    · cases h
    · injection h with h
      refine ⟨_, rfl, ?_⟩
      omega
  | dup =>
    simp only [localOrdLosses, addDist] at h
    split at h
    · rename_i x y h1 h2
      injection h with h
      split at h1
      · cases h1
      · split at h2
        · cases h2
        · injection h1 with h1
          injection h2 with h2
          refine ⟨_, rfl, ?_⟩
          subst h1 h2 h
          rename_i hn1 hn2
          simp only [Bool.or_eq_true, decide_eq_true_eq, not_or, Int.not_lt] at hn1 hn2
          show min _ _ ≤ min _ _
          omega
    · cases h
  | hgt =>
    simp only [localOrdLosses, addDist] at h
    split at h
    · cases h
    · injection h with h
      cases kl with
      | true =>
        refine ⟨_, rfl, ?_⟩
        simp only [if_true]
        simp only [Bool.not_true] at h
        omega
      | false =>
        refine ⟨_, rfl, ?_⟩
        simp only [Bool.false_eq_true, if_false]
        simp only [Bool.not_false] at h
        omega

end SR
