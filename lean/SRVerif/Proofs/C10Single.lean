/-
  Helpers for C10 "single family": when every leaf carries the same single family
  the label part of the ordered DP degenerates — every admissible labelling of finite
  cost carries the mask 1 everywhere, its edge costs vanish, and its generic cost is
  the plain (THL) generic cost of the underlying species mapping.
-/
import SRVerif.Proofs.C10Base
import SRVerif.Proofs.LabelDPThl

/-! ### Forgetting / constant labels -/

namespace SR.LSol

variable {Lab : Type}

/-- The species mapping of a labelled solution. -/
def forget : LSol Lab → LSol Unit
  | .leaf s _ => .leaf s ()
  | .node s _ l r => .node s () (forget l) (forget r)

/-- The labelling that carries `x` everywhere. -/
def lift (x : Lab) : LSol Unit → LSol Lab
  | .leaf s _ => .leaf s x
  | .node s _ l r => .node s x (lift x l) (lift x r)

/-- Every label satisfies `P`. -/
def All (P : Lab → Prop) : LSol Lab → Prop
  | .leaf _ m => P m
  | .node _ m l r => P m ∧ All P l ∧ All P r

@[simp] theorem forget_sp (ls : LSol Lab) : ls.forget.sp = ls.sp := by cases ls <;> rfl
@[simp] theorem lift_sp (x : Lab) (ls : LSol Unit) : (lift x ls).sp = ls.sp := by cases ls <;> rfl
@[simp] theorem lift_lab (x : Lab) (ls : LSol Unit) : (lift x ls).lab = x := by cases ls <;> rfl

@[simp] theorem forget_lift (x : Lab) (ls : LSol Unit) : (lift x ls).forget = ls := by
  induction ls with
  | leaf s u => rfl
  | node s u l r ihl ihr => simp [lift, forget, ihl, ihr]

theorem All.lab {P : Lab → Prop} {ls : LSol Lab} (h : All P ls) : P ls.lab := by
  cases ls with
  | leaf => exact h
  | node => exact h.1

theorem all_lift {P : Lab → Prop} {x : Lab} (hx : P x) (ls : LSol Unit) : All P (lift x ls) := by
  induction ls with
  | leaf s u => exact hx
  | node s u l r ihl ihr => exact ⟨hx, ihl, ihr⟩

theorem forget_valid (ls : LSol Lab) : ls.forget.Valid ↔ ls.Valid := by
  induction ls with
  | leaf s u => simp [forget, Valid]
  | node s u l r ihl ihr => simp [forget, Valid, ihl, ihr]

end SR.LSol

namespace SR.C10

open Cost Path

/-- Every leaf synteny of the input is `[f]`. -/
def SingleFam (f : Nat) : OTree → Prop
  | .leaf _ g => g = [f]
  | .node l r => SingleFam f l ∧ SingleFam f r

theorem singleFam_iff (f : Nat) (o : OTree) :
    SingleFam f o ↔ ∀ g ∈ leafSyntenies o, g = [f] := by
  induction o with
  | leaf sp g => simp [SingleFam, leafSyntenies]
  | node l r ihl ihr =>
    simp only [SingleFam, leafSyntenies, List.mem_append, ihl, ihr]
    constructor
    · rintro ⟨h1, h2⟩ g (hg | hg)
      · exact h1 g hg
      · exact h2 g hg
    · intro h; exact ⟨fun g hg => h g (Or.inl hg), fun g hg => h g (Or.inr hg)⟩

/-! ### Root orders -/

theorem leafSyntenies_ne_nil (o : OTree) : leafSyntenies o ≠ [] := by
  induction o with
  | leaf sp g => simp [leafSyntenies]
  | node l r ihl _ => simp [leafSyntenies, ihl]

theorem foldl_insertNew_const (f : Nat) (l : List Nat) (h : ∀ x ∈ l, x = f) :
    l.foldl insertNew [f] = [f] := by
  induction l with
  | nil => rfl
  | cons x xs ih =>
    have hx : x = f := h x (by simp)
    subst hx
    simp only [List.foldl_cons, insertNew, List.mem_singleton, if_true]
    exact ih (fun y hy => h y (by simp [hy]))

theorem dedup_const (f : Nat) (l : List Nat) (hne : l ≠ []) (h : ∀ x ∈ l, x = f) :
    dedup l = [f] := by
  cases l with
  | nil => exact absurd rfl hne
  | cons x xs =>
    have hx : x = f := h x (by simp)
    subst hx
    simp only [dedup, List.foldl_cons, insertNew, List.not_mem_nil, if_false, List.nil_append]
    exact foldl_insertNew_const x xs (fun y hy => h y (by simp [hy]))

theorem families_single {f : Nat} {o : OTree} (h : SingleFam f o) : families o = [f] := by
  rw [singleFam_iff] at h
  unfold families
  apply dedup_const
  · obtain ⟨g, hg⟩ := List.exists_mem_of_ne_nil _ (leafSyntenies_ne_nil o)
    intro e
    have : f ∈ (leafSyntenies o).flatten :=
      List.mem_flatten.mpr ⟨g, hg, by rw [h g hg]; simp⟩
    rw [e] at this; cases this
  · intro x hx
    obtain ⟨g, hg, hxg⟩ := List.mem_flatten.mp hx
    rw [h g hg] at hxg
    simpa using hxg

/-- With a single family there is exactly one root order. -/
theorem rootOrders_single {f : Nat} {o : OTree} (h : SingleFam f o) : rootOrders o none = [[f]] := by
  simp only [rootOrders, families_single h]
  have hp : permutations [f] = [[f]] := rfl
  rw [hp]
  rw [singleFam_iff] at h
  have : (leafSyntenies o).all (fun s => isSublist s [f]) = true := by
    rw [List.all_eq_true]
    intro g hg
    rw [h g hg]
    simp [isSublist]
  simp [List.filter, this]

theorem leavesOk_single {f : Nat} {o : OTree} (h : SingleFam f o) : LeavesOk [f] o := by
  induction o with
  | leaf sp g => simp only [SingleFam] at h; subst h; exact ⟨by simp, List.Sublist.refl _⟩
  | node l r ihl ihr => exact ⟨ihl h.1, ihr h.2⟩

/-! ### The ordered label algebra at the mask 1 -/

theorem segDist_one_true : subseqSegmentDist 1 1 true = 0 := by decide +kernel
theorem segDist_one_false : subseqSegmentDist 1 1 false = 0 := by decide +kernel

theorem ord_conserv_one (c : Costs) (a ca : OrdAnn) : (ordAlg c).conserv a 1 ca 1 = .fin 0 := by
  simp [ordAlg, segDist_one_true]

theorem ord_segment_one (c : Costs) (a ca : OrdAnn) : (ordAlg c).segment a 1 ca 1 = .fin 0 := by
  simp [ordAlg, segDist_one_true, segDist_one_false]

/-- A labelling carrying the mask 1 everywhere costs what its species mapping costs in
    the plain model. -/
theorem labCost_ord_allOne (c : Costs) (S : RTree) (base : Bool) (order : List Nat) (o : OTree) :
    ∀ (isRoot : Bool) (ls : LSol Nat), ls.All (· = 1) →
      labCost (ordAlg c) c (annOrd S base order isRoot o) ls =
        labCost thlAlg c (annPlain S o) ls.forget := by
  induction o with
  | leaf sp g => intro isRoot ls _; cases ls <;> rfl
  | node l r ihl ihr =>
    intro isRoot ls h
    cases ls with
    | leaf => rfl
    | node s m x y =>
      simp only [LSol.All] at h
      obtain ⟨rfl, hx, hy⟩ := h
      simp only [annOrd, annPlain, labCost, LSol.forget, ihl false x hx, ihr false y hy]
      congr 1
      simp only [genLocal, LSol.forget_sp, hx.lab, hy.lab, ord_conserv_one, ord_segment_one]
      rfl

theorem allOne_of_fits_nz : ∀ (ls : LSol Nat), Fits 1 ls → NZ ls → ls.All (· = 1) := by
  intro ls
  induction ls with
  | leaf s m => intro hf hn; simp only [Fits, NZ, LSol.All] at *; omega
  | node s m l r ihl ihr =>
    intro hf hn
    simp only [Fits, NZ] at hf hn
    exact ⟨by omega, ihl hf.2.1 hn.2.1, ihr hf.2.2 hn.2.2⟩

theorem nz_of_allOne : ∀ (ls : LSol Nat), ls.All (· = 1) → NZ ls := by
  intro ls
  induction ls with
  | leaf s m => intro h; simp only [LSol.All] at h; simp [NZ, h]
  | node s m l r ihl ihr =>
    intro h
    simp only [LSol.All] at h
    exact ⟨by simp [h.1], ihl h.2.1, ihr h.2.2⟩

/-- The evaluator's ordered loss count vanishes on valid all-1 labellings. -/
theorem ordLossesM_allOne : ∀ (ls : LSol Nat), ls.All (· = 1) → ls.Valid → ordLossesM ls = some 0 := by
  intro ls
  induction ls with
  | leaf s m => intro _ _; rfl
  | node s m l r ihl ihr =>
    intro h hv
    simp only [LSol.All] at h
    simp only [LSol.Valid] at hv
    obtain ⟨rfl, hl, hr⟩ := h
    simp only [ordLossesM, ihl hl hv.2.1, ihr hr hv.2.2, hl.lab, hr.lab]
    have hne := hv.1
    have key : ∀ (ev : Event) (k : Bool), ev ≠ .invalid →
        (ev = .spec ∨ ev = .dup ∨ ev = .hgt) → localOrdLosses ev k 1 1 1 = some 0 := by
      intro ev k _ h
      rcases h with rfl | rfl | rfl <;> cases k <;>
        simp [localOrdLosses, segDist_one_true, segDist_one_false, addDist]
    have hev : internalEvent s l.sp r.sp = .spec ∨ internalEvent s l.sp r.sp = .dup ∨
        internalEvent s l.sp r.sp = .hgt := by
      unfold internalEvent at hne ⊢
      split <;> simp_all
      split <;> simp_all
      split <;> simp_all
    rw [key _ _ hne hev]

/-! ### Admissibility transfers (ordered ↔ plain) -/

theorem adm_ord_forget (c : Costs) (S : RTree) (order : List Nat) (o : OTree) :
    ∀ (isRoot : Bool) (ls : LSol Nat), Adm (ordAlg c) (annOrd S false order isRoot o) ls →
      Adm thlAlg (annPlain S o) ls.forget := by
  induction o with
  | leaf sp g =>
    intro isRoot ls h
    cases ls with
    | node => simp [annOrd, Adm] at h
    | leaf s m => simp only [annOrd, Adm] at h; simp [annPlain, Adm, LSol.forget, h.1, thlAlg]
  | node l r ihl ihr =>
    intro isRoot ls h
    cases ls with
    | leaf => simp [annOrd, Adm] at h
    | node s m x y =>
      simp only [annOrd, Adm] at h
      simp only [annPlain, Adm, LSol.forget]
      refine ⟨?_, by simp [thlAlg], ihl false x h.2.2.1, ihr false y h.2.2.2⟩
      have := h.1
      simpa [ordAlg, thlAlg] using this

theorem mask_single (f : Nat) : maskFromSubseq [f] [f] = 1 := by simp [maskFromSubseq]

theorem adm_ord_lift (c : Costs) (S : RTree) (f : Nat) (o : OTree) (hsf : SingleFam f o) :
    ∀ (isRoot : Bool) (ls : LSol Unit), Adm thlAlg (annPlain S o) ls →
      Adm (ordAlg c) (annOrd S false [f] isRoot o) (LSol.lift 1 ls) := by
  induction o with
  | leaf sp g =>
    intro isRoot ls h
    cases ls with
    | node => simp [annPlain, Adm] at h
    | leaf s m =>
      simp only [annPlain, Adm] at h
      simp only [SingleFam] at hsf
      subst hsf
      simp [annOrd, Adm, LSol.lift, h.1, ordAlg, mask_single]
  | node l r ihl ihr =>
    intro isRoot ls h
    cases ls with
    | leaf => simp [annPlain, Adm] at h
    | node s m x y =>
      simp only [annPlain, Adm] at h
      simp only [annOrd, Adm, LSol.lift]
      refine ⟨by simpa [ordAlg, thlAlg] using h.1, ?_, ihl hsf.1 false x h.2.2.1,
        ihr hsf.2 false y h.2.2.2⟩
      cases isRoot <;> simp [ordAlg]

/-- A labelling admissible for the base variant sits on the LCA mapping. -/
theorem adm_ord_base_forget (c : Costs) (S : RTree) (order : List Nat) (o : OTree) :
    ∀ (isRoot : Bool) (ls : LSol Nat), Adm (ordAlg c) (annOrd S true order isRoot o) ls →
      ls.forget = toLSol (lcaSol o) := by
  induction o with
  | leaf sp g =>
    intro isRoot ls h
    cases ls with
    | node => simp [annOrd, Adm] at h
    | leaf s m => simp only [annOrd, Adm] at h; simp [LSol.forget, lcaSol, toLSol, h.1]
  | node l r ihl ihr =>
    intro isRoot ls h
    cases ls with
    | leaf => simp [annOrd, Adm] at h
    | node s m x y =>
      simp only [annOrd, Adm] at h
      have hs : s = (lcaSol (.node l r)).sp := by simpa [ordAlg] using h.1
      simp only [LSol.forget, ihl false x h.2.2.1, ihr false y h.2.2.2, hs]
      rfl

theorem adm_ord_base_lift (c : Costs) (S : RTree) (f : Nat) (o : OTree) (hsf : SingleFam f o) :
    ∀ (isRoot : Bool), Adm (ordAlg c) (annOrd S true [f] isRoot o) (LSol.lift 1 (toLSol (lcaSol o))) := by
  induction o with
  | leaf sp g =>
    intro isRoot
    simp only [SingleFam] at hsf
    subst hsf
    simp [annOrd, Adm, LSol.lift, lcaSol, toLSol, ordAlg, mask_single]
  | node l r ihl ihr =>
    intro isRoot
    simp only [annOrd, Adm, LSol.lift, lcaSol, toLSol]
    refine ⟨by simp [ordAlg, Sol.sp], ?_, ihl hsf.1 false, ihr hsf.2 false⟩
    cases isRoot <;> simp [ordAlg]

end SR.C10
