/-
  Part 2 of the equivalence for `superrec2/utils/toposort.py`: the generated
  `toposort_all` / `_toposort_all_bt` (`SRVerif/Generated/TopoPy.lean`) for EVERY
  iteration order of the Python sets `starts` / `next_starts`.

  The generated functions take the iteration order of a set as the parameter
  `ord_` (applied to the elements in insertion order); the hand-written model
  fixes one order (the list order).  The two are therefore not equal as lists;
  what is proved is
  * the initialisation loops, the decrement / restore loops over a successor
    set, the loop that extends the sub-results and the final
    length-check-and-reverse loop are EQUAL to the model's `allInit`,
    `decAll setAdd`, `incAll`, `sub.map (· ++ [x])`, `checkRev` (exceptions
    included, on every input);
  * `bt_rec_spec`: for every `ord` with `Py.SetOrder ord`, under the model's state
    invariant `Inv`, `_toposort_all_bt.rec_ ord fuel` returns the in-degree dict
    unchanged and a duplicate-free list of exactly the reversed maximal removal
    sequences — the specification `bt_spec` proves of the model's `bt` (the
    induction is the model's, over the permuted list `ord starts`; the generic
    lemma `inv_step` of `Proofs/ToposortInv.lean` does the work);
  * `toposort_all_spec`, `toposort_all_perm`: on a well-formed graph the
    generated `toposort_all ord` returns, without exception, a duplicate-free
    list of exactly the topological orderings, hence a PERMUTATION of the
    model's result, for every admissible order;
  * `toposort_all_malformed`: `KeyError` when a successor is not a key.
-/
import SRVerif.Proofs.TopoPyEquiv

namespace SR.TopoPyProofs
open SR SR.Toposort

/-! ### Initialisation -/

theorem all_loop2_eq : ∀ (ss st : List Nat) (I : Indeg),
    (Gen.Topo.toposort_all.loop2 ss (st, I) : Py.Ctl _ (List (List Nat)))
      = ctl id (ss.foldlM allInitOne (st, I)) := by
  intro ss
  induction ss with
  | nil => intro st I; simp [Gen.Topo.toposort_all.loop2, pure, Except.pure]
  | cons a ss ih =>
    intro st I
    rw [Gen.Topo.toposort_all.loop2, List.foldlM_cons]
    simp only [dictGet?_eq_lookup, allInitOne, Indeg.bump, discard_eq]
    cases hl : I.lookup a with
    | none => simp [bind, Except.bind, toPy]
    | some x =>
      simp only [bind, Except.bind, dictSet_eq_set _ hl]
      exact ih _ _

theorem all_loop1_eq : ∀ (g : Graph) (st : List Nat) (I : Indeg),
    (Gen.Topo.toposort_all.loop1 (Py.dictValues g) (st, I) : Py.Ctl _ (List (List Nat)))
      = ctl id (g.foldlM (fun st p => p.2.foldlM allInitOne st) (st, I)) := by
  intro g
  induction g with
  | nil => intro st I; simp [Py.dictValues, Gen.Topo.toposort_all.loop1, pure, Except.pure]
  | cons p g ih =>
    intro st I
    rw [Py.dictValues, List.map_cons, Gen.Topo.toposort_all.loop1, all_loop2_eq, List.foldlM_cons]
    cases h : p.2.foldlM allInitOne (st, I) with
    | error e => simp [bind, Except.bind]
    | ok s =>
      obtain ⟨s1, s2⟩ := s
      simp only [ctl_ok, id, bind, Except.bind]
      exact ih s1 s2

/-! ### The loops of `_toposort_all_bt` -/

/-- `for node_to in graph[node_from]: indeg[node_to] -= 1; if indeg[node_to] == 0: next_starts.add(node_to)`. -/
theorem bt_loop2_eq : ∀ (ss ns : List Nat) (I : Indeg),
    (Gen.Topo._toposort_all_bt.loop2 ss (I, ns) : Py.Ctl _ (List (Nat × Int) × List (List Nat)))
      = ctl (fun s : List Nat × Indeg => (s.2, s.1)) (decAll Toposort.setAdd ss (ns, I)) := by
  intro ss
  induction ss with
  | nil => intro ns I; simp [Gen.Topo._toposort_all_bt.loop2, decAll, pure, Except.pure]
  | cons a ss ih =>
    intro ns I
    rw [Gen.Topo._toposort_all_bt.loop2, decAll, List.foldlM_cons]
    simp only [dictGet?_eq_lookup, decOne, Indeg.bump]
    cases hl : I.lookup a with
    | none => simp [bind, Except.bind, toPy]
    | some x =>
      have hs : (I.set a (x - 1)).lookup a = some (x - 1) := lookup_set_self I a _ _ hl
      simp only [dictSet_eq_set _ hl, hs, bind, Except.bind, Int.sub_eq_add_neg, setAdd_eq] at *
      by_cases hx : x + -1 = 0
      · simp only [hx, if_true]; rw [ih]; rfl
      · simp only [hx, if_false]; rw [ih]; rfl

/-- `for node_to in graph[node_from]: indeg[node_to] += 1`. -/
theorem bt_loop4_eq : ∀ (ss : List Nat) (I : Indeg),
    (Gen.Topo._toposort_all_bt.loop4 ss I : Py.Ctl _ (List (Nat × Int) × List (List Nat)))
      = ctl id (incAll ss I) := by
  intro ss
  induction ss with
  | nil => intro I; simp [Gen.Topo._toposort_all_bt.loop4, incAll, pure, Except.pure]
  | cons a ss ih =>
    intro I
    rw [Gen.Topo._toposort_all_bt.loop4, incAll, List.foldlM_cons]
    simp only [dictGet?_eq_lookup, incOne, Indeg.bump]
    cases hl : I.lookup a with
    | none => simp [bind, Except.bind, toPy]
    | some x =>
      simp only [dictSet_eq_set _ hl, bind, Except.bind]
      rw [ih]; rfl

/-- `for subresult in <sub>: subresult.append(node_from); results.append(subresult)`. -/
theorem bt_loop3_eq (x : Nat) : ∀ (sub acc : List (List Nat)),
    (Gen.Topo._toposort_all_bt.loop3 x sub acc : Py.Ctl _ (List (Nat × Int) × List (List Nat)))
      = .next (acc ++ sub.map (· ++ [x])) := by
  intro sub
  induction sub with
  | nil => intro acc; simp [Gen.Topo._toposort_all_bt.loop3]
  | cons r sub ih =>
    intro acc
    rw [Gen.Topo._toposort_all_bt.loop3, ih]
    simp

/-! ### The backtracking enumeration, for every set order -/

theorem ord_nodup {ord : List Nat → List Nat} (hord : Py.SetOrder ord) {l : List Nat} (h : l.Nodup) :
    (ord l).Nodup := (hord l h).nodup_iff.2 h

theorem ord_mem {ord : List Nat → List Nat} (hord : Py.SetOrder ord) {l : List Nat} (h : l.Nodup)
    (v : Nat) : v ∈ ord l ↔ v ∈ l := (hord l h).mem_iff

/-- The generated `for node_from in starts` loop, given the specification of the recursive calls:
    the counterpart of `btLoop_spec`, with the copy `set(starts)` listed in the order `ord`. -/
theorem bt_loop1_spec {ord : List Nat → List Nat} (hord : Py.SetOrder ord) {g : Graph} (hwf : WF g)
    {done starts : List Nat} {I : Indeg} (hinv : Inv g done starts I)
    (rec : List Nat → Graph → Indeg → Except Py.Err (List (Nat × Int) × List (List Nat)))
    (hrec : ∀ x ns I', Inv g (x :: done) ns I' →
      ∃ rs, rec ns g I' = .ok (I', rs) ∧ rs.Nodup ∧ ∀ r, r ∈ rs ↔ Greedy g (x :: done) r.reverse) :
    ∀ (l : List Nat) (acc : List (List Nat)), l.Nodup → (∀ x ∈ l, x ∈ starts) →
      ∃ rs, Gen.Topo._toposort_all_bt.loop1 ord rec starts g l (I, acc) = .next (I, acc ++ rs) ∧
        rs.Nodup ∧
        ∀ r, r ∈ rs ↔ ∃ x ∈ l, ∃ r', r = r' ++ [x] ∧ Greedy g (x :: done) r'.reverse := by
  intro l
  induction l with
  | nil => intro acc _ _; exact ⟨[], by simp [Gen.Topo._toposort_all_bt.loop1], by simp, by simp⟩
  | cons x l ih =>
    intro acc hl hsub
    have hx : x ∈ starts := hsub x (by simp)
    have hon : (ord starts).Nodup := ord_nodup hord hinv.snodup
    have hxo : x ∈ ord starts := (ord_mem hord hinv.snodup x).2 hx
    obtain ⟨ss, hss, ns', I', hdec, hinv', hinc⟩ := inv_step hwf hinv hx ((ord starts).erase x)
      (hon.erase x)
      (fun v => by rw [hon.mem_erase_iff, ord_mem hord hinv.snodup]; tauto)
      Toposort.setAdd setAdd_fresh
    obtain ⟨sub, hsubr, hsubn, hsubm⟩ := hrec x ns' I' hinv'
    have hgs : Py.dictGet? g x = some ss := by
      rw [getSuccs_eq] at hss
      cases h : Py.dictGet? g x with
      | none => rw [h] at hss; simp at hss
      | some s => rw [h] at hss; simp only [Except.ok.injEq] at hss; rw [hss]
    obtain ⟨rs', h1, h2, h3⟩ := ih (acc ++ sub.map (· ++ [x])) (List.nodup_cons.1 hl).2
      (fun y hy => hsub y (by simp [hy]))
    refine ⟨sub.map (· ++ [x]) ++ rs', ?_, ?_, ?_⟩
    · rw [Gen.Topo._toposort_all_bt.loop1]
      simp only [setOfList_nodup hon, remove?_eq, hxo, if_true, hgs, bt_loop2_eq, hdec, ctl_ok,
        hsubr, bt_loop3_eq, bt_loop4_eq, hinc, id]
      rw [h1, List.append_assoc]
    · rw [List.nodup_append]
      refine ⟨hsubn.map (List.append_left_injective [x]), h2, ?_⟩
      intro r hr r2 hr2 e
      subst e
      obtain ⟨r', _, hr'⟩ := List.mem_map.1 hr
      obtain ⟨y, hy, r'', hr'', _⟩ := (h3 r).1 hr2
      rw [← hr'] at hr''
      have := List.append_inj_right' hr'' rfl
      simp only [List.cons.injEq, and_true] at this
      subst this
      exact (List.nodup_cons.1 hl).1 hy
    · intro r
      rw [List.mem_append, h3 r, List.mem_map]
      constructor
      · rintro (⟨r', hr', e⟩ | ⟨y, hy, r', e, hg⟩)
        · exact ⟨x, by simp, r', e.symm, (hsubm r').1 hr'⟩
        · exact ⟨y, by simp [hy], r', e, hg⟩
      · rintro ⟨y, hy, r', e, hg⟩
        rcases List.mem_cons.1 hy with h | h
        · subst h; exact Or.inl ⟨r', (hsubm r').2 hg, e.symm⟩
        · exact Or.inr ⟨y, h, r', e, hg⟩

/-- `_toposort_all_bt.rec_` under ANY set order: no exception, the in-degree dict is given back
    unchanged, and the results are, each exactly once and reversed, the maximal removal sequences
    from the current state; `g.length - done.length + 1` units of fuel suffice (never `Diverged`). -/
theorem bt_rec_spec {ord : List Nat → List Nat} (hord : Py.SetOrder ord) {g : Graph} (hwf : WF g) :
    ∀ (fuel : Nat) (done starts : List Nat) (I : Indeg),
    Inv g done starts I → g.length - done.length < fuel →
    ∃ rs, Gen.Topo._toposort_all_bt.rec_ ord fuel starts g I = .ok (I, rs) ∧ rs.Nodup ∧
      ∀ r, r ∈ rs ↔ Greedy g done r.reverse := by
  intro fuel
  induction fuel with
  | zero => intro _ _ _ _ h; omega
  | succ fuel ih =>
    intro done starts I hinv hfuel
    cases hst : starts with
    | nil =>
      subst hst
      refine ⟨[[]], by simp [Gen.Topo._toposort_all_bt.rec_], by simp, ?_⟩
      intro r
      simp only [List.mem_singleton]
      constructor
      · intro e; subst e
        intro v hv
        exact absurd ((hinv.smem v).2 hv) (by simp)
      · intro hg
        cases hr : r.reverse with
        | nil => simpa using hr
        | cons v s =>
          rw [hr] at hg
          exact absurd ((hinv.smem v).2 hg.1) (by simp)
    | cons x0 t =>
      have hrec : ∀ x ns I', Inv g (x :: done) ns I' →
          ∃ rs, Gen.Topo._toposort_all_bt.rec_ ord fuel ns g I' = .ok (I', rs) ∧ rs.Nodup ∧
            ∀ r, r ∈ rs ↔ Greedy g (x :: done) r.reverse := by
        intro x ns I' hinv'
        apply ih (x :: done) ns I' hinv'
        have := hinv'.dnodup.length_le_of_subset (l₂ := keys g) (fun v hv => hinv'.dkeys v hv)
        simp [keys] at this
        simp only [List.length_cons]
        omega
      obtain ⟨rs, h1, h2, h3⟩ := bt_loop1_spec hord hwf hinv (Gen.Topo._toposort_all_bt.rec_ ord fuel)
        hrec (ord starts) [] (ord_nodup hord hinv.snodup)
        (fun v hv => (ord_mem hord hinv.snodup v).1 hv)
      refine ⟨rs, ?_, h2, ?_⟩
      · rw [Gen.Topo._toposort_all_bt.rec_]
        have hne : x0 :: t ≠ [] := by simp
        rw [hst] at h1
        simp only [hne, ne_eq, not_true_eq_false, not_false_eq_true, if_false, h1]
        simp
      · intro r
        rw [h3 r]
        constructor
        · rintro ⟨x, hx, r', e, hg⟩
          subst e
          simp only [List.reverse_append, List.reverse_cons, List.reverse_nil, List.nil_append,
            List.singleton_append]
          exact ⟨(hinv.smem x).1 ((ord_mem hord hinv.snodup x).1 hx), hg⟩
        · intro hg
          cases hr : r.reverse with
          | nil =>
            rw [hr] at hg
            exact absurd ((hinv.smem x0).1 (by simp [hst])) (hg x0)
          | cons v s =>
            rw [hr] at hg
            refine ⟨v, (ord_mem hord hinv.snodup v).2 ((hinv.smem v).2 hg.1), s.reverse,
              List.reverse_eq_cons_iff.1 hr, ?_⟩
            simpa using hg.2

/-! ### The final loop and the whole function -/

/-- `for subresult in results: if len(subresult) != len(graph): return []; subresult.reverse()`. -/
theorem all_loop3_eq (g : Graph) : ∀ (rs acc : List (List Nat)),
    (Gen.Topo.toposort_all.loop3 g rs acc : Py.Ctl _ (List (List Nat)))
      = match checkRev g.length rs with
        | none => .ret []
        | some out => .next (acc ++ out) := by
  intro rs
  induction rs with
  | nil => intro acc; simp [Gen.Topo.toposort_all.loop3, checkRev]
  | cons r rs ih =>
    intro acc
    rw [Gen.Topo.toposort_all.loop3, checkRev]
    by_cases hlen : r.length = g.length
    · simp only [hlen, ne_eq, not_true_eq_false, if_false]
      rw [ih]
      cases checkRev g.length rs with
      | none => rfl
      | some out => simp
    · simp [hlen]

/-- What the length check and the reversal make of a duplicate-free list of exactly the reversed
    maximal removal sequences (the last step of the model's `toposortAll_spec`). -/
theorem checkRev_spec {g : Graph} (hwf : WF g) {rs : List (List Nat)} (hn : rs.Nodup)
    (hm : ∀ r, r ∈ rs ↔ Greedy g [] r.reverse) :
    ((checkRev g.length rs).getD []).Nodup ∧
      ∀ o, o ∈ (checkRev g.length rs).getD [] ↔ IsTopo g o := by
  constructor
  · rw [checkRev_eq]
    split
    · exact hn.map List.reverse_injective
    · simp
  · intro o
    rw [checkRev_eq]
    constructor
    · intro ho
      split at ho
      · rename_i hall
        obtain ⟨r, hr, e⟩ := List.mem_map.1 ho
        subst e
        exact greedy_full_isTopo hwf.succ_keys ((hm r).1 hr) (by simp [hall r hr])
      · simp at ho
    · intro ht
      have hall : ∀ r ∈ rs, r.length = g.length := by
        intro r hr
        have := greedy_full hwf.1 ht ((hm r).1 hr)
        simpa using this
      rw [if_pos hall]
      simp only [Option.getD_some, List.mem_map]
      exact ⟨o.reverse, (hm _).2 (by simpa using isTopo_greedy ht), by simp⟩

/-- The generated `toposort_all` as a function of the model's initialisation and of the generated
    backtracking (no hypothesis on the graph but pairwise different keys). -/
theorem toposort_all_unfold (ord : List Nat → List Nat) {g : Graph} (hk : (keys g).Nodup) :
    Gen.Topo.toposort_all ord g =
      match allInit g with
      | .error e => .error (toPy e)
      | .ok (starts, I) =>
        match Gen.Topo._toposort_all_bt.rec_ ord (g.length + 1) starts g I with
        | .error e => .error e
        | .ok (_, rs) => .ok ((checkRev g.length rs).getD []) := by
  rw [Gen.Topo.toposort_all]
  simp only [dictKeys_eq, dictOfList_init hk, setOfList_nodup hk, all_loop1_eq, allInit]
  cases hi : g.foldlM (fun st p => p.2.foldlM allInitOne st) (keys g, Indeg.init g) with
  | error e => simp
  | ok s =>
    obtain ⟨starts, I⟩ := s
    simp only [ctl_ok, id, Gen.Topo._toposort_all_bt]
    cases hb : Gen.Topo._toposort_all_bt.rec_ ord (g.length + 1) starts g I with
    | error e => simp
    | ok p =>
      obtain ⟨I', rs⟩ := p
      simp only [all_loop3_eq, List.nil_append]
      cases checkRev g.length rs with
      | none => simp
      | some out => simp

/-- `toposort_all`, generated, on a well-formed graph, for EVERY iteration order of its sets: no
    exception, and the result lists each topological ordering exactly once. -/
theorem toposort_all_spec {ord : List Nat → List Nat} (hord : Py.SetOrder ord) {g : Graph} (hwf : WF g) :
    ∃ os, Gen.Topo.toposort_all ord g = .ok os ∧ os.Nodup ∧ ∀ o, o ∈ os ↔ IsTopo g o := by
  obtain ⟨starts, I, hinit, hinv⟩ := allInit_spec hwf
  obtain ⟨rs, hbt, hn, hm⟩ := bt_rec_spec hord hwf (g.length + 1) [] starts I hinv (by simp)
  obtain ⟨h1, h2⟩ := checkRev_spec hwf hn hm
  exact ⟨(checkRev g.length rs).getD [], by rw [toposort_all_unfold ord hwf.1, hinit]; simp [hbt], h1, h2⟩

/-- … hence a permutation of the hand-written model's result. -/
theorem toposort_all_perm {ord : List Nat → List Nat} (hord : Py.SetOrder ord) {g : Graph} (hwf : WF g) :
    ∃ os ms, Gen.Topo.toposort_all ord g = .ok os ∧ toposortAll g = .ok ms ∧ os.Perm ms := by
  obtain ⟨os, h, hn, hm⟩ := toposort_all_spec hord hwf
  obtain ⟨ms, h', hn', hm'⟩ := toposortAll_spec hwf
  exact ⟨os, ms, h, h', (List.perm_ext_iff_of_nodup hn hn').2 (fun o => (hm o).trans (hm' o).symm)⟩

/-- A successor that is not a key: `KeyError` (for every order: the initialisation fails). -/
theorem toposort_all_malformed (ord : List Nat → List Nat) {g : Graph} (hk : (keys g).Nodup)
    (hbad : ∃ p ∈ g, ∃ v ∈ p.2, v ∉ keys g) :
    Gen.Topo.toposort_all ord g = .error .KeyError := by
  have : allInit g = .error .keyError := init_err hk hbad allInitOne (fun _ _ _ _ => rfl)
  rw [toposort_all_unfold ord hk, this]
  rfl

end SR.TopoPyProofs
