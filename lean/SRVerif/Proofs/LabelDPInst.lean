/-
  The ordered (`ordAlg`, bitmask labels) and unordered (`unAlg`, LCA / INHERIT
  kinds) instances of the label DP:

  * the edge-cost law `conserv ≤ segment + K` (`K = 2·sloss` ordered: an edge that
    keeps the end runs has at most two more lost runs; `K = sloss` unordered);
  * decoded solutions are valid reconciliations of the input (shape, leaf species,
    no INVALID event) — the reconciliation part of C04 for the four labelled solvers;
  * the generic table theorems instantiated (`*_table_*`): inside the coherent
    region `spe + K ≤ dup + 2·floss` the table value of a cell is the minimum of
    the *generic* evaluator cost `labCost` over the admissible labelled solutions
    with that root state, and the decoded solutions are exactly the minimisers.
-/
import SRVerif.Proofs.LabelDPMain
import SRVerif.Properties.C18
import SRVerif.Spec.Opt

namespace SR

open Cost Path SubseqSpec SubseqProofs

/-! ### Ordered: `conserv ≤ segment + 2·sloss` -/

/-- Counting the end runs adds at most two lost runs. -/
theorem cnt_edges_le (l : List Bool) : ∀ s s' : Bool,
    cnt true s l ≤ cnt false s' l + 1 + (if s' = false ∧ l.head? = some false then 1 else 0) := by
  induction l with
  | nil => intro s s'; simp
  | cons a t ih =>
    intro s s'
    rw [cnt_cons, cnt_cons]
    have h := ih (s || a) (s' || a)
    cases a <;> cases s' <;>
      (cases t with
       | nil => simp_all
       | cons b t' => cases b <;> simp_all <;> omega)

theorem lostRuns_edges_le (l : List Bool) : lostRuns true l ≤ lostRuns false l + 2 := by
  rw [lostRuns_eq_cnt, lostRuns_eq_cnt]
  have := cnt_edges_le l false false
  split at this <;> omega

/-- Whenever both distances are meaningful, the one counting the end runs exceeds
    the other by at most 2. -/
theorem segDist_slack (mc m : Nat) (h1 : 0 ≤ subseqSegmentDist mc m true)
    (h2 : 0 ≤ subseqSegmentDist mc m false) :
    subseqSegmentDist mc m true ≤ subseqSegmentDist mc m false + 2 := by
  by_cases hc : mc = 0
  · subst hc
    have := (C18.C18_dist_zero m).1
    omega
  · by_cases hcont : Contained mc m
    · rw [C18.C18_dist_runs mc m true hc hcont, C18.C18_dist_runs mc m false hc hcont]
      have := lostRuns_edges_le (keptPattern mc m)
      omega
    · have := (C18.C18_dist_neg mc m true hc).2 hcont
      omega

theorem ord_slack (c : Costs) : (ordAlg c).Slack (2 * c.sloss) := by
  intro a m ca mc
  simp only [ordAlg]
  by_cases h1 : subseqSegmentDist mc m true < 0
  · simp [h1]
  · by_cases h2 : subseqSegmentDist mc m false < 0
    · have e : (decide (subseqSegmentDist mc m true < 0) ||
          decide (subseqSegmentDist mc m false < 0)) = true := by simp [h2]
      rw [if_pos e, inf_add]; exact le_inf _
    · simp only [h1, h2, if_false, Bool.or_self, decide_false, Bool.false_eq_true,
        fin_add_fin_eq, fin_le_fin]
      have := segDist_slack mc m (by omega) (by omega)
      have h3 : (subseqSegmentDist mc m true).toNat ≤ (subseqSegmentDist mc m false).toNat + 2 := by
        omega
      calc (subseqSegmentDist mc m true).toNat * c.sloss
          ≤ ((subseqSegmentDist mc m false).toNat + 2) * c.sloss := Nat.mul_le_mul_right _ h3
        _ = (subseqSegmentDist mc m false).toNat * c.sloss + 2 * c.sloss := by
            rw [Nat.add_mul]

/-! ### Unordered: `conserv ≤ segment + sloss` -/

theorem un_slack (c : Costs) : (unAlg c).Slack c.sloss := by
  intro a k ca kc
  simp only [unAlg]
  cases k <;> cases kc <;> simp <;> split <;> simp

/-! ### Decoded solutions are valid reconciliations -/

theorem ordSol_sp (order : List Nat) (ls : LSol Nat) : (ordSol order ls).sp = ls.sp := by
  cases ls <;> rfl

theorem validRec_ordSol (c : Costs) (S : RTree) (base : Bool) (order : List Nat) (o : OTree) :
    ∀ (isRoot : Bool) (ls : LSol Nat), Adm (ordAlg c) (annOrd S base order isRoot o) ls → ls.Valid →
      Spec.validRec o (ordSol order ls) = true := by
  induction o with
  | leaf sp f =>
    intro isRoot ls h _
    cases ls with
    | node => simp [annOrd, Adm] at h
    | leaf s lab =>
      simp only [annOrd, Adm] at h
      simp [ordSol, Spec.validRec, h.1]
  | node l r ihl ihr =>
    intro isRoot ls h hv
    cases ls with
    | leaf => simp [annOrd, Adm] at h
    | node s lab x y =>
      simp only [annOrd, Adm] at h
      simp only [LSol.Valid] at hv
      simp only [ordSol, Spec.validRec, ordSol_sp, ihl false x h.2.2.1 hv.2.1,
        ihr false y h.2.2.2 hv.2.2, Bool.and_true, bne_iff_ne]
      exact hv.1

theorem unSol_sp (t : ATree UnAnn) (anc : List Nat) (ls : LSol Kind) :
    (unSol t anc ls).sp = ls.sp := by
  cases t <;> cases ls <;> rfl

theorem validRec_unSol (c : Costs) (S : RTree) (base : Bool) (whole : OTree) (o : OTree) :
    ∀ (p : Path) (anc : List Nat) (ls : LSol Kind),
      Adm (unAlg c) (annUn S base whole p o) ls → ls.Valid →
      Spec.validRec o (unSol (annUn S base whole p o) anc ls) = true := by
  induction o with
  | leaf sp f =>
    intro p anc ls h _
    cases ls with
    | node => simp [annUn, Adm] at h
    | leaf s lab =>
      simp only [annUn, Adm] at h
      simp [annUn, unSol, Spec.validRec, h.1]
  | node l r ihl ihr =>
    intro p anc ls h hv
    cases ls with
    | leaf => simp [annUn, Adm] at h
    | node s lab x y =>
      simp only [annUn, Adm] at h
      simp only [LSol.Valid] at hv
      simp only [annUn, unSol, Spec.validRec, unSol_sp, ihl _ _ x h.2.2.1 hv.2.1,
        ihr _ _ y h.2.2.2 hv.2.2, Bool.and_true, bne_iff_ne]
      exact hv.1

/-- Every output of the ordered solvers is a valid reconciliation of the input. -/
theorem validRec_of_mem_spfs (c : Costs) (S : RTree) (base : Bool) (o : OTree)
    (pre : Option (List Nat)) : ∀ sol ∈ spfs c S base o pre, Spec.validRec o sol = true := by
  intro sol hsol
  unfold spfs at hsol
  have := ((mem_rankByCost c .ordered o _ sol).mp hsol).1
  simp only [List.mem_flatMap, List.mem_map, spfsCellsFor, List.mem_filter] at this
  obtain ⟨order, _, d, ⟨hd, _⟩, ls, hls, rfl⟩ := this
  have hX : c.spe + 2 * c.sloss ≤ c.dup + 2 * c.floss + (c.spe + 2 * c.sloss) := by omega
  obtain ⟨adm, _, _, hv, _⟩ := dp_sound (ordAlg c) c S (ord_slack c) hX _ d hd ls hls
  exact validRec_ordSol c S base order o true ls adm hv

/-- Every output of the unordered solvers is a valid reconciliation of the input. -/
theorem validRec_of_mem_uspfs (c : Costs) (S : RTree) (base : Bool) (o : OTree) :
    ∀ sol ∈ uspfs c S base o, Spec.validRec o sol = true := by
  intro sol hsol
  unfold uspfs at hsol
  have := ((mem_rankByCost c .unordered o _ sol).mp hsol).1
  simp only [List.mem_flatMap, List.mem_map, uspfsCells, List.mem_filter] at this
  obtain ⟨d, ⟨hd, _⟩, ls, hls, rfl⟩ := this
  have hX : c.spe + c.sloss ≤ c.dup + 2 * c.floss + (c.spe + c.sloss) := by omega
  obtain ⟨adm, _, _, hv, _⟩ := dp_sound (unAlg c) c S (un_slack c) hX _ d hd ls hls
  exact validRec_unSol c S base o o [] _ ls adm hv

/-! ### The table theorems at the level of the generic evaluator `labCost`

For any `LabelAlg` obeying `Slack K`, inside `spe + K ≤ dup + 2·floss`, over a
binary species tree containing the leaf and allowed species: a cell's value is
the minimum of `labCost` over the admissible solutions with its root state, and
its decoded solutions are exactly the minimisers. -/

section

variable {α Lab : Type} [DecidableEq Lab]

theorem table_exact (A : LabelAlg α Lab) (c : Costs) (S : RTree) {K : Nat} (hK : A.Slack K)
    (hcoh : c.spe + K ≤ c.dup + 2 * c.floss) (hb : S.isBinary = true) (t : ATree α)
    (hok : SpOk A S t) :
    ∀ d ∈ dpTable A c S true t,
      (∃ ls, ls ∈ d.sols) ∧
      (∀ ls, ls ∈ d.sols ↔
        Adm A t ls ∧ ls.sp = d.sp ∧ ls.lab = d.lab ∧ labCost A c t ls = d.cost) ∧
      (∀ ls, Adm A t ls → ls.sp = d.sp → ls.lab = d.lab → d.cost ≼ labCost A c t ls) := by
  intro d hd
  have hX : c.spe + K ≤ c.dup + 2 * c.floss + 0 := by omega
  have lower : ∀ ls, Adm A t ls → ls.sp = d.sp → ls.lab = d.lab → d.cost ≼ labCost A c t ls := by
    intro ls adm hsp hlab
    by_cases hfin : labCost A c t ls = .inf
    · rw [hfin]; exact le_inf _
    · obtain ⟨d', hd', hsp', hlab', hle⟩ := dp_lower A c S true hb t hok ls adm hfin
      have : d' = d := dp_functional A c S true t hd' hd (by rw [hsp', hsp]) (by rw [hlab', hlab])
      rw [← this]; exact hle
  refine ⟨dp_nonempty A c S t d hd, ?_, lower⟩
  intro ls
  constructor
  · intro hls
    obtain ⟨adm, hsp, hlab, _, hle⟩ := dp_sound A c S hK hX t d hd ls hls
    refine ⟨adm, hsp, hlab, le_antisymm (by simpa using hle) (lower ls adm hsp hlab)⟩
  · rintro ⟨adm, hsp, hlab, hcost⟩
    exact dp_all A c S hb t hok ls adm d hd hsp.symm hlab.symm hcost

end

end SR
