/-
  Greedy wrapping and the `balanced_wrap` loop.
-/
import SRVerif.Model.Tikz

namespace SR.Tikz

theorem lineLen_cons_cons (w v : Word) (r : Line) :
    lineLen (w :: v :: r) = w.length + 1 + lineLen (v :: r) := rfl

/-- Appending a word to a non-empty line costs a space and the word. -/
theorem lineLen_snoc (w : Word) (l : Line) (v : Word) :
    lineLen (w :: l ++ [v]) = lineLen (w :: l) + 1 + v.length := by
  induction l generalizing w with
  | nil => simp [lineLen]
  | cons x r ih =>
    rw [List.cons_append, List.cons_append, lineLen_cons_cons, lineLen_cons_cons,
      ← List.cons_append, ih x]
    omega

theorem lineLen_first_snoc (first : Word) (acc : List Word) (w : Word) :
    lineLen (first :: (w :: acc).reverse) = lineLen (first :: acc.reverse) + 1 + w.length := by
  rw [List.reverse_cons, ← List.cons_append, lineLen_snoc]

/-- The words come back in order. -/
theorem wrapFrom_flatten (width : Nat) (ws : List Word) (first : Word) (acc : List Word) (len : Nat) :
    (wrapFrom width first acc len ws).flatten = first :: acc.reverse ++ ws := by
  induction ws generalizing first acc len with
  | nil => simp [wrapFrom]
  | cons w r ih =>
    simp only [wrapFrom]
    split
    · rw [ih]; simp
    · rw [List.flatten_cons, ih]; simp

theorem wrap_flatten (width : Nat) (ws : List Word) : (wrap width ws).flatten = ws := by
  cases ws with
  | nil => rfl
  | cons w r => simp [wrap, wrapFrom_flatten]

theorem wrapFrom_ne_nil (width : Nat) (ws : List Word) (first : Word) (acc : List Word) (len : Nat) :
    ∀ l ∈ wrapFrom width first acc len ws, l ≠ [] := by
  induction ws generalizing first acc len with
  | nil => simp [wrapFrom]
  | cons w r ih =>
    simp only [wrapFrom]
    split
    · exact ih _ _ _
    · intro l hl
      rcases List.mem_cons.1 hl with h | h
      · simp [h]
      · exact ih _ _ _ l h

theorem wrap_ne_nil (width : Nat) (ws : List Word) : ∀ l ∈ wrap width ws, l ≠ [] := by
  cases ws with
  | nil => simp [wrap]
  | cons w r => exact wrapFrom_ne_nil width r w [] _

/-- Every line fits the width unless it consists of a single word. -/
theorem wrapFrom_width (width : Nat) (ws : List Word) (first : Word) (acc : List Word) (len : Nat)
    (hlen : len = lineLen (first :: acc.reverse)) (hfit : len ≤ width ∨ acc = []) :
    ∀ l ∈ wrapFrom width first acc len ws, lineLen l ≤ width ∨ l.length = 1 := by
  induction ws generalizing first acc len with
  | nil =>
    intro l hl
    simp only [wrapFrom, List.mem_singleton] at hl
    subst hl
    rcases hfit with h | h
    · left; omega
    · right; simp [h]
  | cons w r ih =>
    simp only [wrapFrom]
    split
    · rename_i hle
      apply ih
      · rw [lineLen_first_snoc, ← hlen]
      · left; exact hle
    · intro l hl
      rcases List.mem_cons.1 hl with h | h
      · subst h
        rcases hfit with h' | h'
        · left; omega
        · right; simp [h']
      · exact ih w [] w.length (by simp [lineLen]) (Or.inr rfl) l h

theorem wrap_width (width : Nat) (ws : List Word) :
    ∀ l ∈ wrap width ws, lineLen l ≤ width ∨ l.length = 1 := by
  cases ws with
  | nil => simp [wrap]
  | cons w r => exact wrapFrom_width width r w [] _ (by simp [lineLen]) (Or.inr rfl)

/-- The loop only ever returns a greedy wrapping at some width between 1 and the starting width,
    with the same number of lines as the first one. -/
theorem bwLoop_spec (ws : List Word) (count W : Nat) (cur : Nat) (best : List Line) (bad : Nat)
    (hcur : cur ≤ W)
    (hbest : ∃ w', 0 < w' ∧ w' ≤ W ∧ best = wrap w' ws ∧ best.length = count) :
    ∃ w', 0 < w' ∧ w' ≤ W ∧ bwLoop ws count cur best bad = wrap w' ws ∧
      (bwLoop ws count cur best bad).length = count := by
  induction cur generalizing best bad with
  | zero => simpa [bwLoop] using hbest
  | succ w ih =>
    simp only [bwLoop]
    split
    · exact hbest
    · rename_i hw
      split
      · exact hbest
      · rename_i hc
        split
        · exact ih _ _ (by omega) ⟨w, by omega, by omega, rfl, by simpa using hc⟩
        · exact ih _ _ (by omega) hbest

theorem balancedWrap_spec (width : Nat) (ws : List Word) (ls : List Line)
    (h : balancedWrap width ws = some ls) :
    ∃ w', 0 < w' ∧ w' ≤ width ∧ ls = wrap w' ws ∧ ls.length = (wrap width ws).length := by
  simp only [balancedWrap] at h
  split at h
  · cases h
  · rename_i hw
    simp only [Option.some.injEq] at h
    subst h
    exact bwLoop_spec ws _ width width _ _ (Nat.le_refl _)
      ⟨width, by omega, Nat.le_refl _, rfl, rfl⟩

theorem balancedWrap_isSome (width : Nat) (ws : List Word) (h : 0 < width) :
    (balancedWrap width ws).isSome = true := by
  simp [balancedWrap]; omega

/-! ### Text level: joining with single spaces -/

theorem lineText_length (l : Line) : (lineText l).length = lineLen l := by
  induction l with
  | nil => rfl
  | cons w r ih =>
    cases r with
    | nil => simp [lineText, List.intercalate, lineLen]
    | cons v t =>
      have : lineText (w :: v :: t) = w ++ ' ' :: lineText (v :: t) := by
        simp [lineText, List.intercalate, List.intersperse]
      rw [this, lineLen_cons_cons, ← ih]
      simp; omega

theorem intercalate_cons_cons (sep : Str) (x y : Str) (r : List Str) :
    List.intercalate sep (x :: y :: r) = x ++ sep ++ List.intercalate sep (y :: r) := by
  simp [List.intercalate, List.intersperse]

/-- Joining the texts of non-empty lines with spaces is joining all their words with spaces. -/
theorem lineText_join (ls : List Line) (h : ∀ l ∈ ls, l ≠ []) :
    List.intercalate [' '] (ls.map lineText) = lineText ls.flatten := by
  induction ls with
  | nil => rfl
  | cons l r ih =>
    have ihr := ih (fun x hx => h x (List.mem_cons_of_mem _ hx))
    cases r with
    | nil => simp [List.intercalate]
    | cons l2 r2 =>
      have hl : l ≠ [] := h l (by simp)
      have hl2 : l2 ≠ [] := h l2 (by simp)
      rw [List.map_cons, List.map_cons, intercalate_cons_cons, ← List.map_cons, ihr]
      -- joining `l` with a non-empty remainder
      have key : ∀ (a b : Line), a ≠ [] → b ≠ [] →
          lineText a ++ [' '] ++ lineText b = lineText (a ++ b) := by
        intro a
        induction a with
        | nil => intro b ha; exact absurd rfl ha
        | cons w t iht =>
          intro b _ hb
          cases t with
          | nil =>
            cases b with
            | nil => exact absurd rfl hb
            | cons v s => simp [lineText, List.intercalate]
          | cons u t2 =>
            have := iht b (by simp) hb
            simp only [lineText] at this ⊢
            rw [List.cons_append, intercalate_cons_cons, List.cons_append, intercalate_cons_cons,
              ← List.cons_append, ← this]
            simp
      have hne : (l2 :: r2).flatten ≠ [] := by
        cases l2 with
        | nil => exact absurd rfl hl2
        | cons a b => simp
      rw [List.flatten_cons]
      exact key l _ hl hne

end SR.Tikz
