/-
  C06, part 3: the labelling costs.  Ordered model: the evaluator's mask
  distances (relative to the root's synteny) are the runs counted on the
  sequences (`C18_bridge`).  Unordered model: set inclusion.
-/
import SRVerif.Proofs.EventLogCost
import SRVerif.Properties.C18

namespace SR.EventLog

open SR SR.Path SR.SubseqSpec

/-! ### Ordered model -/

theorem addDist_natCast (x y : Nat) : addDist (x : Int) (y : Int) = some (x + y) := by
  unfold addDist
  have hx : ¬ ((x : Int) < 0) := by omega
  have hy : ¬ ((y : Int) < 0) := by omega
  simp [hx, hy]

/-- One node of the ordered model: the four mask distances of the evaluator
    are the run counts on the sequences. -/
theorem localOrdLosses_eq (root f fl fr : List Nat) (k : Kind) (hk : k ≠ .invalid)
    (kl kl' : Bool) (hkl : k = .hgt → kl = kl')
    (hnd : root.Nodup) (hf : f.Sublist root) (hl : fl.Sublist f) (hr : fr.Sublist f)
    (hln : fl ≠ []) (hrn : fr ≠ []) :
    localOrdLosses k.toEvent kl (maskFromSubseq f root) (maskFromSubseq fl root)
        (maskFromSubseq fr root)
      = some (nodeOrdLosses k kl' f fl fr) := by
  have BL := fun e => C18.C18_bridge fl f root e hnd hl hf hln
  have BR := fun e => C18.C18_bridge fr f root e hnd hr hf hrn
  cases k with
  | invalid => exact absurd rfl hk
  | spec => simp only [localOrdLosses, Kind.toEvent, BL, BR, addDist_natCast, nodeOrdLosses]
  | dup => simp only [localOrdLosses, Kind.toEvent, BL, BR, addDist_natCast, nodeOrdLosses]
  | hgt =>
    have := hkl rfl
    subst this
    cases kl <;>
      simp [localOrdLosses, Kind.toEvent, BL, BR, addDist_natCast, nodeOrdLosses]

/-- What the ordered clause needs from a labelled solution: valid events,
    every child synteny a non-empty subsequence of its parent's. -/
def OrdWF : Sol → Prop
  | .leaf _ _ => True
  | .node s f l r =>
    classify s l.sp r.sp ≠ .invalid ∧ l.fam.Sublist f ∧ r.fam.Sublist f ∧
      l.fam ≠ [] ∧ r.fam ≠ [] ∧ OrdWF l ∧ OrdWF r

theorem fam_node (s : Path) (f : List Nat) (l r : Sol) : (Sol.node s f l r).fam = f := rfl

theorem ordLosses_eq (root : List Nat) (hnd : root.Nodup) : ∀ sol : Sol, OrdWF sol →
    sol.fam.Sublist root →
    ordLosses root (maskFromSubseq sol.fam root) sol = some (segLosses .ordered sol)
  | .leaf _ _, _, _ => rfl
  | .node s f l r, h, hf => by
    obtain ⟨hk, hl, hr, hln, hrn, hwl, hwr⟩ := h
    rw [fam_node] at hf
    have ihl := ordLosses_eq root hnd l hwl (hl.trans hf)
    have ihr := ordLosses_eq root hnd r hwr (hr.trans hf)
    have hnode := localOrdLosses_eq root f l.fam r.fam (classify s l.sp r.sp) hk
      (comparable s l.sp) (leftConserved s l.sp) (fun h => (classify_hgt h).2) hnd hf hl hr hln hrn
    simp only [ordLosses, fam_node, internalEvent_eq_classify, hnode, ihl, ihr, segLosses,
      nodeLosses, Nat.add_assoc]

theorem sublist_of_isSublist : ∀ (a b : List Nat), isSublist a b = true → a.Sublist b
  | [], b, _ => List.nil_sublist b
  | _ :: _, [], h => by simp [isSublist] at h
  | a :: as, b :: bs, h => by
    rw [isSublist] at h
    split at h
    · rename_i hab
      have : a = b := by simpa using hab
      subst this
      exact (sublist_of_isSublist as bs h).cons_cons a
    · exact (sublist_of_isSublist (a :: as) bs h).cons b

theorem ordWF_of_valid : ∀ (o : OTree) (sol : Sol), Spec.validRec o sol = true →
    Spec.validOrdLabels o sol = true → leafFamsNonempty o = true → OrdWF sol ∧ sol.fam ≠ []
  | .leaf _ f, .leaf _ g, _, h, hne => by
    simp only [Spec.validOrdLabels, beq_iff_eq] at h
    subst h
    refine ⟨trivial, ?_⟩
    intro hf
    simp only [Sol.fam] at hf
    subst hf
    simp [leafFamsNonempty] at hne
  | .node ol or, .node s f l r, hv, h, hne => by
    simp only [Spec.validRec, Bool.and_eq_true, bne_iff_ne, ne_eq] at hv
    simp only [Spec.validOrdLabels, Bool.and_eq_true] at h
    simp only [leafFamsNonempty, Bool.and_eq_true] at hne
    obtain ⟨⟨hev, hvl⟩, hvr⟩ := hv
    obtain ⟨⟨⟨hsl, hsr⟩, hl⟩, hr⟩ := h
    obtain ⟨ihl, hln⟩ := ordWF_of_valid ol l hvl hl hne.1
    obtain ⟨ihr, hrn⟩ := ordWF_of_valid or r hvr hr hne.2
    have hsl' := sublist_of_isSublist _ _ hsl
    have hsr' := sublist_of_isSublist _ _ hsr
    refine ⟨⟨classify_ne_invalid hev, hsl', hsr', hln, hrn, ihl, ihr⟩, ?_⟩
    intro hf
    simp only [Sol.fam] at hf
    subst hf
    exact hln (List.eq_nil_of_sublist_nil hsl')
  | .leaf _ _, .node _ _ _ _, h, _, _ => by simp [Spec.validRec] at h
  | .node _ _, .leaf _ _, h, _, _ => by simp [Spec.validRec] at h

/-! "As many distinct elements as elements" means duplicate-free. -/

theorem length_foldl_insertNew_le : ∀ (l acc : List Nat),
    (l.foldl insertNew acc).length ≤ acc.length + l.length
  | [], acc => by simp
  | x :: xs, acc => by
    have := length_foldl_insertNew_le xs (insertNew acc x)
    simp only [List.foldl_cons, List.length_cons]
    unfold insertNew at this ⊢
    split at this <;> simp_all <;> omega

theorem nodup_of_length_foldl : ∀ (l acc : List Nat),
    (l.foldl insertNew acc).length = acc.length + l.length → l.Nodup ∧ ∀ x ∈ l, x ∉ acc
  | [], acc, _ => by simp
  | x :: xs, acc, h => by
    simp only [List.foldl_cons, List.length_cons] at h
    by_cases hx : x ∈ acc
    · have hle := length_foldl_insertNew_le xs acc
      simp only [insertNew, hx, if_true] at h
      omega
    · simp only [insertNew, hx, if_false] at h
      obtain ⟨hnd, hdis⟩ := nodup_of_length_foldl xs (acc ++ [x])
        (by simp only [List.length_append, List.length_cons, List.length_nil]; omega)
      refine ⟨List.nodup_cons.2 ⟨fun hm => ?_, hnd⟩, ?_⟩
      · exact hdis x hm (by simp)
      · intro y hy
        rcases List.mem_cons.1 hy with rfl | hy
        · exact hx
        · intro hya
          exact hdis y hy (by simp [hya])

theorem nodup_of_length_dedup (l : List Nat) (h : l.length = (dedup l).length) : l.Nodup :=
  (nodup_of_length_foldl l [] (by simpa [dedup] using h.symm)).1

/-! ### Unordered model -/

theorem subsetB_eq_not_lacks (f g : List Nat) : subsetB f g = !lacks f g := by
  induction f with
  | nil => rfl
  | cons x xs ih =>
    simp only [subsetB, lacks, List.all_cons, List.any_cons] at ih ⊢
    rw [ih]
    by_cases hx : x ∈ g <;> simp [hx]

theorem localUnordLosses_eq (k : Kind) (hk : k ≠ .invalid) (kl kl' : Bool)
    (hkl : k = .hgt → kl = kl') (f fl fr : List Nat) :
    localUnordLosses k.toEvent kl f fl fr = some (nodeUnordLosses k kl' f fl fr) := by
  unfold localUnordLosses nodeUnordLosses
  simp only [subsetB_eq_not_lacks]
  cases k with
  | invalid => exact absurd rfl hk
  | spec => cases lacks f fl <;> cases lacks f fr <;> rfl
  | dup => cases lacks f fl <;> cases lacks f fr <;> rfl
  | hgt =>
    have := hkl rfl
    subst this
    cases lacks f fl <;> cases lacks f fr <;> cases kl <;> rfl

theorem unordLosses_eq : ∀ sol : Sol, AllEvents sol →
    unordLosses sol = some (segLosses .unordered sol)
  | .leaf _ _, _ => rfl
  | .node s f l r, h => by
    obtain ⟨hk, hl, hr⟩ := h
    have hnode := localUnordLosses_eq (classify s l.sp r.sp) hk (comparable s l.sp)
      (leftConserved s l.sp) (fun h => (classify_hgt h).2) f l.fam r.fam
    simp only [unordLosses, internalEvent_eq_classify, hnode, unordLosses_eq l hl,
      unordLosses_eq r hr, segLosses, nodeLosses, Nat.add_assoc]

/-! ### Events in pre-order, absence of `invalid` records -/

/-- The evaluator's event of every internal node, in pre-order. -/
def internalEvents : Sol → List Event
  | .leaf _ _ => []
  | .node s _ l r => internalEvent s l.sp r.sp :: (internalEvents l ++ internalEvents r)

theorem internalEvents_eq : ∀ sol : Sol, internalEvents sol = (kinds sol).map Kind.toEvent
  | .leaf _ _ => rfl
  | .node s _ l r => by
    simp [internalEvents, kinds, internalEvent_eq_classify, internalEvents_eq l,
      internalEvents_eq r]

theorem kinds_valid : ∀ sol : Sol, AllEvents sol → ∀ k ∈ kinds sol, k ≠ .invalid
  | .leaf _ _, _, k, hk => by simp [kinds] at hk
  | .node s _ l r, h, k, hk => by
    obtain ⟨h0, hl, hr⟩ := h
    simp only [kinds, List.mem_cons, List.mem_append] at hk
    rcases hk with rfl | hk | hk
    · exact h0
    · exact kinds_valid l hl k hk
    · exact kinds_valid r hr k hk

theorem nInvalid_append (l₁ l₂ : List Ev) : nInvalid (l₁ ++ l₂) = nInvalid l₁ + nInvalid l₂ := by
  simp [nInvalid, List.countP_append]

theorem nInvalid_cons_node (e : Ev) (h : ∀ p, e ≠ .invalid p) (l : List Path) :
    nInvalid (e :: l.map .floss) = 0 := by
  cases e <;> first | exact absurd rfl (h _) | simp [nInvalid]

theorem nInvalid_nodeRecLog (s a b : Path) (h : classify s a b ≠ .invalid) :
    nInvalid (nodeRecLog s a b) = 0 := by
  unfold nodeRecLog
  cases hk : classify s a b
  · exact nInvalid_cons_node _ (by simp) _
  · exact nInvalid_cons_node _ (by simp) _
  · exact nInvalid_cons_node _ (by simp) _
  · exact absurd hk h

theorem nInvalid_replicate (n : Nat) : nInvalid (List.replicate n .sloss) = 0 := by
  simp [nInvalid]

theorem nInvalid_eventLog (mode : LabelMode) : ∀ sol : Sol, AllEvents sol →
    nInvalid (eventLog mode sol) = 0
  | .leaf _ _, _ => by simp [eventLog, nInvalid]
  | .node s f l r, h => by
    obtain ⟨h0, hl, hr⟩ := h
    simp [eventLog, nInvalid_append, nInvalid_nodeRecLog s _ _ h0, nInvalid_replicate,
      nInvalid_eventLog mode l hl, nInvalid_eventLog mode r hr]

/-- Without `invalid` records the linear form has its five documented terms. -/
theorem linearForm_valid (c : Costs) (log : List Ev) (h : nInvalid log = 0) :
    linearForm c log =
      .fin (c.spe * nSpec log + c.dup * nDup log + c.floss * nFloss log + c.sloss * nSloss log)
        + times (nHgt log) c.hgt := by
  simp [linearForm, h, times, Cost.add_zero]

/-- The guard of the total-cost clause: a valid solution of the given model;
    for the ordered model the input's leaf syntenies are non-empty. -/
def Valid (mode : LabelMode) (o : OTree) (sol : Sol) : Prop :=
  Spec.validSol mode o sol = true ∧ (mode = .ordered → leafFamsNonempty o = true)

theorem validRec_of_valid {mode : LabelMode} {o : OTree} {sol : Sol} (h : Valid mode o sol) :
    Spec.validRec o sol = true := by
  have := h.1
  simp only [Spec.validSol, Bool.and_eq_true] at this
  exact this.1

end SR.EventLog
