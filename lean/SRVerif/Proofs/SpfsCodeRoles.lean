/-
  One table entry of the code-structured model (`SpfsCode.computeEntry`) against one
  entry of the label DP at bitmask labels (`entry (ordAlg c)`), given that the cells of
  the two children correspond (`CellsRel`):

  * `visit_get`, `choices_get`  each of the five role entries is a default-initialised
      `Entry` that was offered the candidates `codeCands ρ` of the child cells;
  * `rel_val`        a code cell and a DP cell with the same species, the same non-empty
      mask and the same finite value are offered to the same roles with the same FINITE
      values (`Int` arithmetic of the code vs `Nat` arithmetic of the DP; the `< 0` test
      vs the infinite edge cost);
  * `roles_rel`      hence each role entry has the value of the DP's role aggregate and,
      when finite, its tags; nothing when infinite;
  * `mem_batch`      the batch written to the cell: one candidate per event combination
      and pair of retained tags;
  * `computeEntry_rel`  the cell is instantiated iff the DP entry is finite, with the same
      value and exactly the tag pairs of the DP candidates attaining it.
-/
import SRVerif.Proofs.SpfsCodeEntry
import SRVerif.Proofs.LabelDPRoles
import SRVerif.Proofs.LabelDPOrd

namespace SR.SpfsCode

open Cost Path SubseqSpec

def Choices.get (r : Choices) : RoleId → Entry OAsg
  | .left => r.left
  | .right => r.right
  | .cons => r.conserved
  | .seg => r.segment
  | .sep => r.separate

/-- The value with which a child cell is offered to role `ρ` of `(s, m)` by the code;
    `none` when it is not offered (wrong placement, or not a subsequence). -/
def cv (c : Costs) (S : RTree) (s : Path) (m : Nat) (ρ : RoleId) (cell : TCell) : Option ExtInt :=
  if subseqSegmentDist cell.syn m true < 0 then none
  else
    let cd : Int := subseqSegmentDist cell.syn m true * (c.sloss : Int)
    let sd : Int := subseqSegmentDist cell.syn m false * (c.sloss : Int)
    let above : Int := (dist s cell.sp : Int) * (c.floss : Int)
    match ρ with
    | .cons => if isAnc s cell.sp then some (.fin above + cell.entry.value + .fin cd) else none
    | .seg => if isAnc s cell.sp then some (.fin above + cell.entry.value + .fin sd) else none
    | .left =>
      if isAnc s cell.sp && !speciesIsLeaf S s && isAnc (s ++ [0]) cell.sp then
        some (.fin (above - (c.floss : Int)) + cell.entry.value + .fin cd) else none
    | .right =>
      if isAnc s cell.sp && !speciesIsLeaf S s && !isAnc (s ++ [0]) cell.sp
          && isAnc (s ++ [1]) cell.sp then
        some (.fin (above - (c.floss : Int)) + cell.entry.value + .fin cd) else none
    | .sep =>
      if !isAnc s cell.sp && !isAnc cell.sp s then some (cell.entry.value + .fin sd) else none

def cellAsg (cell : TCell) : OAsg := (cell.sp, cell.syn)

theorem visit_get (c : Costs) (S : RTree) (s : Path) (m : Nat) (r : Choices) (cell : TCell)
    (ρ : RoleId) :
    (visit c S s m r cell).get ρ =
      match cv c S s m ρ cell with
      | some w => (r.get ρ).update [⟨w, some (cellAsg cell)⟩]
      | none => r.get ρ := by
  by_cases hneg : subseqSegmentDist cell.syn m true < 0
  · simp [visit, cv, hneg]
  · cases h1 : isAnc s cell.sp <;> cases h2 : speciesIsLeaf S s <;>
      cases h3 : isAnc (s ++ [0]) cell.sp <;> cases h4 : isAnc (s ++ [1]) cell.sp <;>
      cases h5 : isAnc cell.sp s <;> cases ρ <;>
      simp [visit, cv, hneg, Choices.get, cellAsg, h1, h2, h3, h4, h5]

/-- The candidates offered to role `ρ` by a list of child cells. -/
def codeCands (c : Costs) (S : RTree) (s : Path) (m : Nat) (ρ : RoleId) (cells : List TCell) :
    List (Cand OAsg) :=
  cells.filterMap (fun cell => (cv c S s m ρ cell).map (fun w => ⟨w, some (cellAsg cell)⟩))

theorem foldl_visit_get (c : Costs) (S : RTree) (s : Path) (m : Nat) (ρ : RoleId)
    (cells : List TCell) (r : Choices) :
    (cells.foldl (visit c S s m) r).get ρ = (r.get ρ).update (codeCands c S s m ρ cells) := by
  induction cells generalizing r with
  | nil => simp [codeCands, Entry.update]
  | cons cell cells ih =>
    rw [List.foldl_cons, ih, visit_get]
    cases h : cv c S s m ρ cell with
    | none => simp [codeCands, h]
    | some w => simp [codeCands, h, Entry.update]

theorem choices_inv (c : Costs) (S : RTree) (s : Path) (m : Nat) (ρ : RoleId) (cells : List TCell) :
    Entry.Inv .min .all (codeCands c S s m ρ (childCells S cells))
      ((choices c S .all s m cells).get ρ) := by
  unfold choices
  rw [foldl_visit_get]
  have := Entry.inv_update (Entry.inv_init (τ := OAsg) .min .all)
    (codeCands c S s m ρ (childCells S cells))
  cases ρ <;> simpa [Choices.init, Choices.get] using this

theorem mem_codeCands {c : Costs} {S : RTree} {s : Path} {m : Nat} {ρ : RoleId} {cells : List TCell}
    {x : Cand OAsg} :
    x ∈ codeCands c S s m ρ cells ↔
      ∃ cell ∈ cells, ∃ w, cv c S s m ρ cell = some w ∧ x = ⟨w, some (cellAsg cell)⟩ := by
  simp only [codeCands, List.mem_filterMap, Option.map_eq_some_iff]
  constructor
  · rintro ⟨cell, hc, w, hw, rfl⟩; exact ⟨cell, hc, w, hw, rfl⟩
  · rintro ⟨cell, hc, w, hw, rfl⟩; exact ⟨cell, hc, w, hw, rfl⟩

/-! ### Corresponding cells -/

/-- A code cell and a DP cell with the same key and the same value. -/
def CellRel (cc : TCell) (d : DCell Nat) : Prop :=
  cc.sp = d.sp ∧ cc.syn = d.lab ∧ cc.entry.value = d.cost.toExt

/-- The cells of one object node correspond, and the DP cells are finite, have a non-empty
    mask and sit at a species of `S`. -/
structure CellsRel (S : RTree) (cs : List TCell) (ds : List (DCell Nat)) : Prop where
  fwd : ∀ cc ∈ cs, ∃ d ∈ ds, CellRel cc d
  bwd : ∀ d ∈ ds, ∃ cc ∈ cs, CellRel cc d
  fin : ∀ d ∈ ds, d.cost ≠ .inf
  nz : ∀ d ∈ ds, d.lab ≠ 0
  node : ∀ d ∈ ds, S.isNode d.sp = true

theorem one_le_dist_of_child {s x : Path} {i : Nat} (h : isAnc (s ++ [i]) x = true) :
    1 ≤ dist s x := by
  obtain ⟨t, rfl⟩ := isAnc_iff_append.mp h
  rw [List.append_assoc, dist_append]
  simp

private theorem fin3 (a b d : Nat) :
    (ExtInt.fin (a : Int) + ExtInt.fin (b : Int) + ExtInt.fin (d : Int)) =
      (Cost.fin a + Cost.fin b + Cost.fin d).toExt := by
  simp [Cost.toExt, ExtInt.fin_add_fin]

private theorem fin2 (b d : Nat) :
    (ExtInt.fin (b : Int) + ExtInt.fin (d : Int)) = (Cost.fin b + Cost.fin d).toExt := by
  simp [Cost.toExt, ExtInt.fin_add_fin]

private theorem map_ite {α β : Type} (f : α → β) (b : Bool) (x : α) :
    (if b = true then some x else none).map f = if b = true then some (f x) else none := by
  cases b <;> rfl

/-- For a contained non-empty child mask the code offers exactly what the DP offers. -/
theorem cv_eq_rv (c : Costs) (S : RTree) (s : Path) (m : Nat) (ρ : RoleId) (cc : TCell) (n : Nat)
    (hval : cc.entry.value = .fin (n : Int))
    (h1 : 0 ≤ subseqSegmentDist cc.syn m true) (h2 : 0 ≤ subseqSegmentDist cc.syn m false) :
    cv c S s m ρ cc =
      (rv c S s ρ cc.sp (.fin n) (.fin ((subseqSegmentDist cc.syn m true).toNat * c.sloss))
        (.fin ((subseqSegmentDist cc.syn m false).toNat * c.sloss))).map Cost.toExt := by
  have hneg : ¬ subseqSegmentDist cc.syn m true < 0 := by omega
  have e1 : (subseqSegmentDist cc.syn m true) * (c.sloss : Int) =
      (((subseqSegmentDist cc.syn m true).toNat * c.sloss : Nat) : Int) := by
    rw [Int.natCast_mul, Int.toNat_of_nonneg h1]
  have e2 : (subseqSegmentDist cc.syn m false) * (c.sloss : Int) =
      (((subseqSegmentDist cc.syn m false).toNat * c.sloss : Nat) : Int) := by
    rw [Int.natCast_mul, Int.toNat_of_nonneg h2]
  have e3 : (dist s cc.sp : Int) * (c.floss : Int) = ((c.floss * dist s cc.sp : Nat) : Int) := by
    rw [Int.natCast_mul, Int.mul_comm]
  have e4 : ∀ i, isAnc (s ++ [i]) cc.sp = true →
      (dist s cc.sp : Int) * (c.floss : Int) - (c.floss : Int) =
        ((c.floss * (dist s cc.sp - 1) : Nat) : Int) := by
    intro i hi
    have := one_le_dist_of_child hi
    rw [Int.natCast_mul, Int.natCast_sub this, Int.mul_sub, Int.mul_comm]
    simp
  cases ρ
  · -- left
    simp only [cv, rv, hneg, if_false, hval]
    by_cases hc : (isAnc s cc.sp && !speciesIsLeaf S s && isAnc (s ++ [0]) cc.sp) = true
    · have h0 : isAnc (s ++ [0]) cc.sp = true := by
        simp only [Bool.and_eq_true] at hc; exact hc.2
      rw [if_pos hc, if_pos hc, Option.map_some, e4 0 h0, e1, fin3]
    · rw [if_neg hc, if_neg hc]; rfl
  · -- right
    simp only [cv, rv, hneg, if_false, hval]
    by_cases hc : (isAnc s cc.sp && !speciesIsLeaf S s && !isAnc (s ++ [0]) cc.sp
        && isAnc (s ++ [1]) cc.sp) = true
    · have h0 : isAnc (s ++ [1]) cc.sp = true := by
        simp only [Bool.and_eq_true] at hc; exact hc.2
      rw [if_pos hc, if_pos hc, Option.map_some, e4 1 h0, e1, fin3]
    · rw [if_neg hc, if_neg hc]; rfl
  · -- cons
    simp only [cv, rv, hneg, if_false, hval]
    rw [map_ite, e3, e1, fin3]
  · -- seg
    simp only [cv, rv, hneg, if_false, hval]
    rw [map_ite, e3, e2, fin3]
  · -- sep
    simp only [cv, rv, hneg, if_false, hval]
    by_cases hc : (!isAnc s cc.sp && !isAnc cc.sp s) = true
    · rw [if_pos hc, if_pos hc, Option.map_some, e2, fin2]
    · rw [if_neg hc, if_neg hc]; rfl

/-- What the DP offers is finite as soon as sub-cost and edge costs are. -/
theorem rv_fin {c : Costs} {S : RTree} {s x : Path} {ρ : RoleId} {n a b : Nat} {v : Cost}
    (h : rv c S s ρ x (.fin n) (.fin a) (.fin b) = some v) : v ≠ .inf := by
  cases ρ <;> simp only [rv] at h <;> split at h <;> simp_all <;> subst h <;> simp

/-- With infinite edge costs the DP offers nothing finite. -/
theorem rv_inf {c : Costs} {S : RTree} {s x : Path} {ρ : RoleId} {cost v : Cost}
    (h : rv c S s ρ x cost .inf .inf = some v) : v = .inf := by
  cases ρ <;> simp only [rv] at h <;> split at h <;> simp_all

/-- Corresponding cells are offered to the same roles with the same finite values. -/
theorem rel_val (c : Costs) (S : RTree) (a ca : OrdAnn) (s : Path) (m : Nat) (ρ : RoleId)
    {cc : TCell} {d : DCell Nat} (h : CellRel cc d) (hfin : d.cost ≠ .inf) (hnz : d.lab ≠ 0) :
    (∀ w, cv c S s m ρ cc = some w →
      ∃ v, roleVal (ordAlg c) c S a s m ca ρ d = some v ∧ w = v.toExt ∧ v ≠ .inf) ∧
    (∀ v, roleVal (ordAlg c) c S a s m ca ρ d = some v → v ≠ .inf →
      cv c S s m ρ cc = some v.toExt) := by
  obtain ⟨hsp, hsyn, hval⟩ := h
  obtain ⟨n, hn⟩ := ne_inf_iff.mp hfin
  rw [hn] at hval
  rcases ord_costs (c := c) (a := a) (ca := ca) (m := m) hnz with
    ⟨_, hcv, hsv, h1, h2⟩ | ⟨_, hcv, hsv, h1, _⟩
  · have key := cv_eq_rv c S s m ρ cc n hval (by rw [hsyn]; exact h1) (by rw [hsyn]; exact h2)
    have hrv : roleVal (ordAlg c) c S a s m ca ρ d =
        rv c S s ρ cc.sp (.fin n) (.fin ((subseqSegmentDist cc.syn m true).toNat * c.sloss))
          (.fin ((subseqSegmentDist cc.syn m false).toNat * c.sloss)) := by
      simp only [roleVal, hn, hcv, hsv, hsp, hsyn]
    rw [key, hrv]
    constructor
    · intro w hw
      obtain ⟨v, hv, rfl⟩ := Option.map_eq_some_iff.mp hw
      exact ⟨v, hv, rfl, rv_fin hv⟩
    · intro v hv _
      rw [hv]; rfl
  · have hneg : subseqSegmentDist cc.syn m true < 0 := by rw [hsyn]; exact h1
    constructor
    · intro w hw; simp [cv, hneg] at hw
    · intro v hv hv'
      exfalso
      apply hv'
      simp only [roleVal, hcv, hsv] at hv
      exact rv_inf hv

/-! ### The visiting order -/

theorem le_foldl_max (ps : List Path) : ∀ init : Nat,
    init ≤ ps.foldl (fun d p => Nat.max d p.length) init ∧
    ∀ p ∈ ps, p.length ≤ ps.foldl (fun d p => Nat.max d p.length) init := by
  induction ps with
  | nil => intro init; simp
  | cons q qs ih =>
    intro init
    obtain ⟨h1, h2⟩ := ih (Nat.max init q.length)
    simp only [List.foldl_cons, List.mem_cons]
    refine ⟨Nat.le_trans (Nat.le_max_left _ _) h1, ?_⟩
    rintro p (rfl | hp)
    · exact Nat.le_trans (Nat.le_max_right _ _) h1
    · exact h2 p hp

theorem mem_levelorder (S : RTree) (p : Path) : p ∈ levelorder S ↔ S.isNode p = true := by
  rw [← RTree.mem_preorder_iff]
  simp only [levelorder, List.mem_flatMap, List.mem_range, List.mem_filter, beq_iff_eq]
  constructor
  · rintro ⟨_, _, hp, _⟩; exact hp
  · intro hp
    exact ⟨p.length, Nat.lt_succ_of_le ((le_foldl_max S.preorder 0).2 p hp), hp, rfl⟩

theorem mem_childCells (S : RTree) (cells : List TCell) (cell : TCell) :
    cell ∈ childCells S cells ↔ cell ∈ cells ∧ S.isNode cell.sp = true := by
  simp only [childCells, List.mem_flatMap, List.mem_filter, beq_iff_eq]
  constructor
  · rintro ⟨x, hx, hc, rfl⟩; exact ⟨hc, (mem_levelorder S _).mp hx⟩
  · rintro ⟨hc, hn⟩; exact ⟨cell.sp, (mem_levelorder S _).mpr hn, hc, rfl⟩

/-! ### The role entries -/

/-- **Role entries.**  Each role entry of the code has the value of the DP's role aggregate;
    when that value is finite it retains the same tags, otherwise none. -/
theorem roles_rel (c : Costs) (S : RTree) (a ca : OrdAnn) (s : Path) (m : Nat) (ρ : RoleId)
    {cs : List TCell} {ds : List (DCell Nat)} (h : CellsRel S cs ds) :
    ((choices c S .all s m cs).get ρ).merge = .min ∧
    ((choices c S .all s m cs).get ρ).retain = .all ∧
    ((choices c S .all s m cs).get ρ).value =
      ((roles (ordAlg c) c S a s m ca ds).get ρ).val.toExt ∧
    (((roles (ordAlg c) c S a s m ca ds).get ρ).val ≠ .inf →
      ∀ t, t ∈ ((choices c S .all s m cs).get ρ).infos ↔
        t ∈ ((roles (ordAlg c) c S a s m ca ds).get ρ).tags) ∧
    (((roles (ordAlg c) c S a s m ca ds).get ρ).val = .inf →
      ((choices c S .all s m cs).get ρ).infos = []) := by
  have inv := choices_inv c S s m ρ cs
  have hag := roles_get (ordAlg c) c S a s m ca ρ ds
  have spec := Agg.ofList_spec (roleCands (ordAlg c) c S a s m ca ρ ds)
  rw [← hag] at spec
  have h1 : ∀ x ∈ codeCands c S s m ρ (childCells S cs),
      ∃ p ∈ roleCands (ordAlg c) c S a s m ca ρ ds, x.value = p.1.toExt ∧ x.info = some p.2 := by
    intro x hx
    obtain ⟨cc, hcc, w, hw, rfl⟩ := mem_codeCands.mp hx
    obtain ⟨hcc, _⟩ := (mem_childCells S cs cc).mp hcc
    obtain ⟨d, hd, hrel⟩ := h.fwd cc hcc
    obtain ⟨v, hv, rfl, _⟩ := (rel_val c S a ca s m ρ hrel (h.fin d hd) (h.nz d hd)).1 w hw
    refine ⟨(v, cellTag d), mem_roleCands.mpr ⟨d, hd, hv, rfl⟩, rfl, ?_⟩
    simp [cellAsg, cellTag, hrel.1, hrel.2.1]
  have hfinC : ∀ x ∈ codeCands c S s m ρ (childCells S cs), x.value ≠ .posInf := by
    intro x hx
    obtain ⟨cc, hcc, w, hw, rfl⟩ := mem_codeCands.mp hx
    obtain ⟨hcc, _⟩ := (mem_childCells S cs cc).mp hcc
    obtain ⟨d, hd, hrel⟩ := h.fwd cc hcc
    obtain ⟨v, _, rfl, hvf⟩ := (rel_val c S a ca s m ρ hrel (h.fin d hd) (h.nz d hd)).1 w hw
    intro e; exact hvf (Cost.toExt_eq_posInf.mp e)
  have h2 : ∀ p ∈ roleCands (ordAlg c) c S a s m ca ρ ds, p.1 ≠ .inf →
      ∃ x ∈ codeCands c S s m ρ (childCells S cs), x.value = p.1.toExt ∧ x.info = some p.2 := by
    intro p hp hpf
    obtain ⟨d, hd, hv, ht⟩ := mem_roleCands.mp hp
    obtain ⟨cc, hcc, hrel⟩ := h.bwd d hd
    have hcv := (rel_val c S a ca s m ρ hrel (h.fin d hd) (h.nz d hd)).2 p.1 hv hpf
    have hmem : cc ∈ childCells S cs :=
      (mem_childCells S cs cc).mpr ⟨hcc, by rw [hrel.1]; exact h.node d hd⟩
    refine ⟨⟨p.1.toExt, some (cellAsg cc)⟩, mem_codeCands.mpr ⟨cc, hmem, _, hcv, rfl⟩, rfl, ?_⟩
    rw [← ht]; simp [cellAsg, cellTag, hrel.1, hrel.2.1]
  obtain ⟨hval, htags⟩ := transfer inv h1 h2
  rw [← spec.1] at hval htags
  refine ⟨inv.merge, inv.retain, hval, ?_, ?_⟩
  · intro hfin t
    rw [htags hfin t, spec.2.1 t, spec.1]
  · intro hinf
    exact infos_nil_of_inf inv hfinC (by rw [hval, hinf]; rfl)

/-! ### The batch and the cell -/

theorem mem_batch (c : Costs) {sub0 sub1 : Choices}
    (h0 : ∀ ρ, (sub0.get ρ).merge = .min ∧ (sub0.get ρ).retain = .all) (x : Cand CAsg) :
    x ∈ batch c sub0 sub1 ↔
      ∃ ev ∈ events c, ∃ t0 ∈ (sub0.get ev.2.1).infos, ∃ t1 ∈ (sub1.get ev.2.2).infos,
        x = ⟨ev.1.toExt + (sub0.get ev.2.1).value + (sub1.get ev.2.2).value, some (t0, t1)⟩ := by
  have hl := h0 .left
  have hr := h0 .right
  have hc := h0 .cons
  have hs := h0 .seg
  have hp := h0 .sep
  simp only [Choices.get] at hl hr hc hs hp
  simp only [batch, List.mem_append, mem_combine_cands hl.1 hl.2, mem_combine_cands hr.1 hr.2,
    mem_combine_cands hc.1 hc.2, mem_combine_cands hs.1 hs.2, mem_combine_cands hp.1 hp.2]
  constructor
  · rintro (((((h | h) | h) | h) | h) | h)
    · exact ⟨(.fin c.spe, .left, .right), by simp [events], h⟩
    · exact ⟨(.fin c.spe, .right, .left), by simp [events], h⟩
    · exact ⟨(.fin c.dup, .cons, .seg), by simp [events], h⟩
    · exact ⟨(.fin c.dup, .seg, .cons), by simp [events], h⟩
    · exact ⟨(c.hgt, .cons, .sep), by simp [events], h⟩
    · exact ⟨(c.hgt, .sep, .cons), by simp [events], h⟩
  · rintro ⟨ev, hev, h⟩
    simp only [events, List.mem_cons, List.not_mem_nil, or_false] at hev
    rcases hev with rfl | rfl | rfl | rfl | rfl | rfl
    · exact Or.inl (Or.inl (Or.inl (Or.inl (Or.inl h))))
    · exact Or.inl (Or.inl (Or.inl (Or.inl (Or.inr h))))
    · exact Or.inl (Or.inl (Or.inl (Or.inr h)))
    · exact Or.inl (Or.inl (Or.inr h))
    · exact Or.inl (Or.inr h)
    · exact Or.inr h

/-- **One cell.**  The code instantiates `table[obj][s][m]` exactly when the DP entry is
    finite; then its value is the DP value and its tags are exactly the tag pairs of the DP
    candidates attaining that value. -/
theorem computeEntry_rel (c : Costs) (S : RTree) (a la ra : OrdAnn) (s : Path) (m : Nat)
    {L R : List TCell} {dL dR : List (DCell Nat)} (hL : CellsRel S L dL) (hR : CellsRel S R dR) :
    (computeEntry c S .all s m L R = none ↔ best (ordAlg c) c S a s m la ra dL dR = .inf) ∧
    (∀ e, computeEntry c S .all s m L R = some e →
      e.value = (best (ordAlg c) c S a s m la ra dL dR).toExt ∧
      ∀ t, t ∈ e.infos ↔
        (best (ordAlg c) c S a s m la ra dL dR, t) ∈ cands (ordAlg c) c S a s m la ra dL dR) := by
  have r0 := fun ρ => roles_rel c S a la s m ρ hL
  have r1 := fun ρ => roles_rel c S a ra s m ρ hR
  have hb := mem_batch c (sub0 := choices c S .all s m L) (sub1 := choices c S .all s m R)
    (fun ρ => ⟨(r0 ρ).1, (r0 ρ).2.1⟩)
  -- the two candidate lists carry the same finite candidates
  have h1 : ∀ x ∈ batch c (choices c S .all s m L) (choices c S .all s m R),
      ∃ p ∈ cands (ordAlg c) c S a s m la ra dL dR, x.value = p.1.toExt ∧ x.info = some p.2 := by
    intro x hx
    obtain ⟨ev, hev, t0, ht0, t1, ht1, rfl⟩ := (hb x).mp hx
    have f0 : ((roles (ordAlg c) c S a s m la dL).get ev.2.1).val ≠ .inf := by
      intro e; rw [(r0 ev.2.1).2.2.2.2 e] at ht0; cases ht0
    have f1 : ((roles (ordAlg c) c S a s m ra dR).get ev.2.2).val ≠ .inf := by
      intro e; rw [(r1 ev.2.2).2.2.2.2 e] at ht1; cases ht1
    refine ⟨(_, (t0, t1)), SR.mem_cands.mpr ⟨ev, hev, ((r0 ev.2.1).2.2.2.1 f0 t0).mp ht0,
      ((r1 ev.2.2).2.2.2.1 f1 t1).mp ht1, rfl⟩, ?_, rfl⟩
    simp only [Cost.toExt_add, (r0 ev.2.1).2.2.1, (r1 ev.2.2).2.2.1]
  have h2 : ∀ p ∈ cands (ordAlg c) c S a s m la ra dL dR, p.1 ≠ .inf →
      ∃ x ∈ batch c (choices c S .all s m L) (choices c S .all s m R),
        x.value = p.1.toExt ∧ x.info = some p.2 := by
    rintro ⟨v, t0, t1⟩ hp hpf
    obtain ⟨ev, hev, ht0, ht1, hv⟩ := SR.mem_cands.mp hp
    simp only at hpf
    rw [hv] at hpf
    obtain ⟨hpf', f1⟩ := add_ne_inf hpf
    obtain ⟨_, f0⟩ := add_ne_inf hpf'
    refine ⟨_, (hb _).mpr ⟨ev, hev, t0, ((r0 ev.2.1).2.2.2.1 f0 t0).mpr ht0, t1,
      ((r1 ev.2.2).2.2.2.1 f1 t1).mpr ht1, rfl⟩, ?_, rfl⟩
    simp only [hv, Cost.toExt_add, (r0 ev.2.1).2.2.1, (r1 ev.2.2).2.2.1]
  -- is the cell instantiated?
  have hany : (batch c (choices c S .all s m L) (choices c S .all s m R)).any
      (fun x => !x.value.isInfinite) = true ↔ best (ordAlg c) c S a s m la ra dL dR ≠ .inf := by
    simp only [List.any_eq_true, Bool.not_eq_true']
    constructor
    · rintro ⟨x, hx, hfin⟩ e
      obtain ⟨p, hp, hv, _⟩ := h1 x hx
      have hle : best (ordAlg c) c S a s m la ra dL dR ≼ p.1 :=
        Cost.minList_le (List.mem_map.mpr ⟨p, hp, rfl⟩)
      rw [e, Cost.inf_le] at hle
      rw [hv, hle] at hfin
      simp [Cost.toExt, ExtInt.isInfinite] at hfin
    · intro hfin
      obtain ⟨t0, t1, hp⟩ := best_attained (ordAlg c) c S a s m la ra dL dR hfin
      obtain ⟨x, hx, hv, _⟩ := h2 _ hp hfin
      refine ⟨x, hx, ?_⟩
      rw [hv, Cost.toExt_isInfinite]
      exact Cost.isInf_eq_false.mpr hfin
  constructor
  · unfold computeEntry Cell.update
    by_cases hw : (batch c (choices c S .all s m L) (choices c S .all s m R)).any
        (fun x => !x.value.isInfinite) = true
    · rw [if_pos hw]
      simp only [reduceCtorEq, false_iff]
      exact hany.mp hw
    · rw [if_neg hw]
      simp only [true_iff]
      by_cases hbst : best (ordAlg c) c S a s m la ra dL dR = .inf
      · exact hbst
      · exact absurd (hany.mpr hbst) hw
  · intro e he
    unfold computeEntry Cell.update at he
    by_cases hw : (batch c (choices c S .all s m L) (choices c S .all s m R)).any
        (fun x => !x.value.isInfinite) = true
    · rw [if_pos hw] at he
      injection he with he
      have inv : Entry.Inv .min .all
          (batch c (choices c S .all s m L) (choices c S .all s m R)) e := by
        have := Entry.inv_update (Entry.inv_init (τ := CAsg) .min .all)
          (batch c (choices c S .all s m L) (choices c S .all s m R))
        rw [← he]
        simpa using this
      obtain ⟨hval, htags⟩ := transfer inv h1 h2
      refine ⟨hval, ?_⟩
      intro t
      rw [htags (hany.mp hw) t]
      constructor
      · rintro ⟨⟨v, t'⟩, hp, rfl, hv⟩
        simp only at hv
        rw [show best (ordAlg c) c S a s m la ra dL dR = v from hv.symm]
        exact hp
      · intro hp
        exact ⟨_, hp, rfl, rfl⟩
    · rw [if_neg hw] at he; cases he

end SR.SpfsCode
