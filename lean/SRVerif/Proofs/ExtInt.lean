/-
  Order lemmas on `ExtInt` and `Cost`.
-/
import SRVerif.Model.Basic

namespace SR

namespace ExtInt

theorem lt_irrefl (a : ExtInt) : lt a a = false := by
  cases a <;> simp [lt]

theorem lt_asymm {a b : ExtInt} (h : lt a b = true) : lt b a = false := by
  cases a <;> cases b <;> simp_all [lt] <;> omega

theorem lt_trans {a b c : ExtInt} (h1 : lt a b = true) (h2 : lt b c = true) : lt a c = true := by
  cases a <;> cases b <;> cases c <;> simp_all [lt] <;> omega

theorem trichotomy (a b : ExtInt) : a = b ∨ lt a b = true ∨ lt b a = true := by
  cases a <;> cases b <;> simp [lt] <;> omega

theorem not_lt_posInf (a : ExtInt) : lt posInf a = false := by
  cases a <;> simp [lt]

theorem not_lt_negInf (a : ExtInt) : lt a negInf = false := by
  cases a <;> simp [lt]

theorem lt_of_lt_of_not_lt {a b c : ExtInt} (h1 : lt a b = true) (h2 : lt c b = false) :
    lt a c = true := by
  cases a <;> cases b <;> cases c <;> simp_all [lt] <;> omega

theorem not_lt_of_not_lt_of_not_lt {a b c : ExtInt} (h1 : lt b a = false) (h2 : lt c b = false) :
    lt c a = false := by
  cases a <;> cases b <;> cases c <;> simp_all [lt] <;> omega

end ExtInt

end SR
