/-
  `LowestCommonAncestor` computes the path operations: the sparse table over
  the Euler tour never compares two distinct nodes, and the query between the
  extreme first occurrences returns the longest common prefix.
-/
import SRVerif.Proofs.LcaRmq
import SRVerif.Proofs.LcaTour
import Mathlib.Data.Nat.Basic

namespace SR.Lca

open Path

/-! ### Minimal entries of a tour range -/

theorem eulerTour_getElem? (t : RTree) (k : Nat) (e : TourEntry) :
    (eulerTour t)[k]? = some e ↔ ∃ p, (tourPaths t)[k]? = some p ∧ e = entry p := by
  rw [eulerTour_eq]
  simp only [List.getElem?_map, Option.map_eq_some_iff]
  constructor
  · rintro ⟨p, hp, rfl⟩
    exact ⟨p, hp, rfl⟩
  · rintro ⟨p, hp, rfl⟩
    exact ⟨p, hp, rfl⟩

/-- A level-minimal entry of a tour range is the entry of a length-minimal
    path of the same range. -/
theorem isMinAt_entry {t : RTree} {i w : Nat} {m : TourEntry}
    (h : IsMinAt Prod.fst (eulerTour t) i w m) :
    ∃ p, m = entry p ∧ IsMinAt List.length (tourPaths t) i w p := by
  obtain ⟨⟨k, h1, h2, h3⟩, hmin⟩ := h
  obtain ⟨p, hp, rfl⟩ := (eulerTour_getElem? t k m).1 h3
  refine ⟨p, rfl, ⟨k, h1, h2, hp⟩, ?_⟩
  intro k' e hk1 hk2 he
  have := hmin k' (entry e) hk1 hk2 ((eulerTour_getElem? t k' _).2 ⟨e, he, rfl⟩)
  simpa [entry] using this

/-- In a range between two visited nodes the shortest path is their longest
    common prefix. -/
theorem min_is_lcp {T : List Path} (hT : Inv T) {x y : Nat} {u v m : Path} (hxy : x ≤ y)
    (hu : T[x]? = some u) (hv : T[y]? = some v)
    (hm : IsMinAt List.length T x (y + 1 - x) m) : m = lcp u v := by
  obtain ⟨⟨z, hz1, hz2, hz3⟩, hall⟩ := hT x y u v hxy hu hv
  obtain ⟨⟨k, hk1, hk2, hk3⟩, hmin⟩ := hm
  have hpre : lcp u v <+: m := hall k m hk1 (by omega) hk3
  have hlen : m.length ≤ (lcp u v).length := hmin z _ hz1 (by omega) hz3
  exact (hpre.eq_of_length_le hlen).symm

/-- Two length-minimal paths of one tour range are the same node. -/
theorem min_paths_eq {T : List Path} (hT : Inv T) {i w : Nat} {u v : Path}
    (hu : IsMinAt List.length T i w u) (hv : IsMinAt List.length T i w v) : u = v := by
  obtain ⟨⟨ku, hu1, hu2, hu3⟩, humin⟩ := hu
  obtain ⟨⟨kv, hv1, hv2, hv3⟩, hvmin⟩ := hv
  have key : ∀ (x y : Nat) (a b : Path), x ≤ y → i ≤ x → y < i + w → T[x]? = some a →
      T[y]? = some b → (∀ k e, i ≤ k → k < i + w → T[k]? = some e → a.length ≤ e.length) →
      (∀ k e, i ≤ k → k < i + w → T[k]? = some e → b.length ≤ e.length) → a = b := by
    intro x y a b hxy hx hy ha hb hamin hbmin
    obtain ⟨⟨z, hz1, hz2, hz3⟩, _⟩ := hT x y a b hxy ha hb
    have h1 := hamin z _ (by omega) (by omega) hz3
    have h2 := hbmin z _ (by omega) (by omega) hz3
    have e1 := (lcp_prefix_left a b).eq_of_length_le h1
    have e2 := (lcp_prefix_right a b).eq_of_length_le h2
    rw [← e1, e2]
  rcases Nat.le_total ku kv with h | h
  · exact key ku kv u v h hu1 hv2 hu3 hv3 humin hvmin
  · exact (key kv ku v u h hv1 hu2 hv3 hu3 hvmin humin).symm

/-- The comparisons the sparse table needs on a tour are defined. -/
theorem cmpOK_tour (t : RTree) : CmpOK Prod.fst (eulerTour t) entryLt where
  ne a b h := by
    have : b.1 ≠ a.1 := Ne.symm h
    simp [entryLt, this]
  eqmin i w a b ha hb := by
    obtain ⟨u, rfl, hu⟩ := isMinAt_entry ha
    obtain ⟨v, rfl, hv⟩ := isMinAt_entry hb
    have := min_paths_eq (tourPaths_inv t) hu hv
    subst this
    simp [entryLt]

theorem tourPaths_ne_nil (t : RTree) : tourPaths t ≠ [] := by
  cases t with
  | node cs => simp [tourPaths]

theorem eulerTour_ne_nil (t : RTree) : eulerTour t ≠ [] := by
  rw [eulerTour_eq]
  simpa using tourPaths_ne_nil t

theorem eulerTour_length (t : RTree) : (eulerTour t).length = (tourPaths t).length := by
  rw [eulerTour_eq]
  simp

/-- `LowestCommonAncestor.__init__` does not raise. -/
theorem init_ok (t : RTree) :
    ∃ tbl, init t = .ok ⟨eulerTour t, tbl⟩ ∧ TableOK Prod.fst (eulerTour t) tbl := by
  obtain ⟨tbl, h1, h2⟩ := build_ok (cmpOK_tour t) (eulerTour_ne_nil t)
  exact ⟨tbl, by simp [init, h1], h2⟩

/-! ### First-occurrence index -/

theorem firstIdxFrom_ok (p : Path) : ∀ (es : List TourEntry) (n : Nat), (∃ e ∈ es, e.2 = p) →
    ∃ k, firstIdxFrom p es n = .ok (n + k) ∧ ∃ e, es[k]? = some e ∧ e.2 = p
  | [], n, h => by simp at h
  | e :: es, n, h => by
    by_cases he : e.2 = p
    · exact ⟨0, by simp [firstIdxFrom, he], e, by simp, he⟩
    · have : ∃ e ∈ es, e.2 = p := by
        obtain ⟨e', he', hp⟩ := h
        simp only [List.mem_cons] at he'
        rcases he' with rfl | he'
        · exact absurd hp he
        · exact ⟨e', he', hp⟩
      obtain ⟨k, hk, e', he1, he2⟩ := firstIdxFrom_ok p es (n + 1) this
      refine ⟨k + 1, ?_, e', by simpa using he1, he2⟩
      simp only [firstIdxFrom, he, if_false, hk]
      congr 1
      omega

/-- The index of a node of the tree exists and points at that node. -/
theorem firstIdx_ok {t : RTree} {p : Path} (h : t.isNode p = true) :
    ∃ k, firstIdx (eulerTour t) p = .ok k ∧ (tourPaths t)[k]? = some p := by
  have hmem : ∃ e ∈ eulerTour t, e.2 = p := by
    refine ⟨entry p, ?_, rfl⟩
    rw [eulerTour_eq]
    exact List.mem_map.2 ⟨p, mem_tourPaths_of_isNode p t h, rfl⟩
  obtain ⟨k, hk, e, he1, he2⟩ := firstIdxFrom_ok p (eulerTour t) 0 hmem
  refine ⟨k, by simpa [firstIdx] using hk, ?_⟩
  obtain ⟨q, hq, rfl⟩ := (eulerTour_getElem? t k e).1 he1
  simp only [entry] at he2
  rw [hq, he2]

/-! ### Folds of `min` / `max` -/

theorem foldl_min_mem : ∀ (is : List Nat) (i0 : Nat), is.foldl min i0 ∈ i0 :: is
  | [], i0 => by simp
  | i :: is, i0 => by
    have := foldl_min_mem is (min i0 i)
    simp only [List.foldl_cons, List.mem_cons] at this ⊢
    rcases this with h | h
    · rw [h]
      rcases Nat.le_total i0 i with h' | h'
      · exact Or.inl (Nat.min_eq_left h')
      · exact Or.inr (Or.inl (Nat.min_eq_right h'))
    · exact Or.inr (Or.inr h)

theorem foldl_min_le : ∀ (is : List Nat) (i0 : Nat), ∀ k ∈ i0 :: is, is.foldl min i0 ≤ k
  | [], i0, k, hk => by
    simp at hk
    subst hk
    exact Nat.le_refl _
  | i :: is, i0, k, hk => by
    have ih := foldl_min_le is (min i0 i)
    simp only [List.foldl_cons]
    simp only [List.mem_cons] at hk
    rcases hk with rfl | rfl | hk
    · exact Nat.le_trans (ih (min k i) (by simp)) (Nat.min_le_left _ _)
    · exact Nat.le_trans (ih (min i0 k) (by simp)) (Nat.min_le_right _ _)
    · exact ih k (by simp [hk])

theorem foldl_max_mem : ∀ (is : List Nat) (i0 : Nat), is.foldl max i0 ∈ i0 :: is
  | [], i0 => by simp
  | i :: is, i0 => by
    have := foldl_max_mem is (max i0 i)
    simp only [List.foldl_cons, List.mem_cons] at this ⊢
    rcases this with h | h
    · rw [h]
      rcases Nat.le_total i0 i with h' | h'
      · exact Or.inr (Or.inl (Nat.max_eq_right h'))
      · exact Or.inl (Nat.max_eq_left h')
    · exact Or.inr (Or.inr h)

theorem le_foldl_max : ∀ (is : List Nat) (i0 : Nat), ∀ k ∈ i0 :: is, k ≤ is.foldl max i0
  | [], i0, k, hk => by
    simp at hk
    subst hk
    exact Nat.le_refl _
  | i :: is, i0, k, hk => by
    have ih := le_foldl_max is (max i0 i)
    simp only [List.foldl_cons]
    simp only [List.mem_cons] at hk
    rcases hk with rfl | rfl | hk
    · exact Nat.le_trans (Nat.le_max_left _ _) (ih (max k i) (by simp))
    · exact Nat.le_trans (Nat.le_max_right _ _) (ih (max i0 k) (by simp))
    · exact ih k (by simp [hk])

theorem mapE_ok_mem {α β : Type} {f : α → Except PyErr β} {P : α → β → Prop} :
    ∀ l : List α, (∀ x ∈ l, ∃ y, f x = .ok y ∧ P x y) →
      ∃ ys, mapE f l = .ok ys ∧ (∀ y ∈ ys, ∃ x ∈ l, P x y) ∧ (∀ x ∈ l, ∃ y ∈ ys, P x y)
  | [], _ => ⟨[], rfl, by simp, by simp⟩
  | x :: xs, h => by
    obtain ⟨y, hy, hp⟩ := h x (by simp)
    obtain ⟨ys, hys, h1, h2⟩ := mapE_ok_mem xs (fun z hz => h z (by simp [hz]))
    refine ⟨y :: ys, by simp [mapE, hy, hys], ?_, ?_⟩
    · intro y' hy'
      simp only [List.mem_cons] at hy'
      rcases hy' with rfl | hy'
      · exact ⟨x, by simp, hp⟩
      · obtain ⟨x', hx', hp'⟩ := h1 y' hy'
        exact ⟨x', by simp [hx'], hp'⟩
    · intro x' hx'
      simp only [List.mem_cons] at hx'
      rcases hx' with rfl | hx'
      · exact ⟨y, by simp, hp⟩
      · obtain ⟨y', hy', hp'⟩ := h2 x' hx'
        exact ⟨y', by simp [hy'], hp'⟩

/-! ### The query -/

/-- `lca(p0, *rest)` is the longest common prefix of all the arguments. -/
theorem call_ok (t : RTree) {tbl : List (List (Option TourEntry))}
    (ht : TableOK Prod.fst (eulerTour t) tbl) (p0 : Path) (rest : List Path)
    (hn : ∀ x ∈ p0 :: rest, t.isNode x = true) :
    State.call ⟨eulerTour t, tbl⟩ (p0 :: rest) = .ok (rest.foldl lcp p0) := by
  obtain ⟨i0, hi0, hT0⟩ := firstIdx_ok (hn p0 (by simp))
  obtain ⟨is, his, hfw, hbw⟩ := mapE_ok_mem (f := firstIdx (eulerTour t))
    (P := fun x k => (tourPaths t)[k]? = some x) rest (by
      intro x hx
      exact firstIdx_ok (hn x (by simp [hx])))
  -- every index points at an argument, every argument has an index
  have hidx : ∀ k ∈ i0 :: is, ∃ x ∈ p0 :: rest, (tourPaths t)[k]? = some x := by
    intro k hk
    simp only [List.mem_cons] at hk
    rcases hk with rfl | hk
    · exact ⟨p0, by simp, hT0⟩
    · obtain ⟨x, hx, hp⟩ := hfw k hk
      exact ⟨x, by simp [hx], hp⟩
  have harg : ∀ x ∈ p0 :: rest, ∃ k ∈ i0 :: is, (tourPaths t)[k]? = some x := by
    intro x hx
    simp only [List.mem_cons] at hx
    rcases hx with rfl | hx
    · exact ⟨i0, by simp, hT0⟩
    · obtain ⟨k, hk, hp⟩ := hbw x hx
      exact ⟨k, by simp [hk], hp⟩
  obtain ⟨pa, hpa, hTa⟩ := hidx _ (foldl_min_mem is i0)
  obtain ⟨pb, hpb, hTb⟩ := hidx _ (foldl_max_mem is i0)
  have hle : is.foldl min i0 ≤ is.foldl max i0 :=
    Nat.le_trans (foldl_min_le is i0 i0 (by simp)) (le_foldl_max is i0 i0 (by simp))
  have hstop : is.foldl max i0 < (eulerTour t).length := by
    rw [eulerTour_length]
    exact (List.getElem?_eq_some_iff.1 hTb).1
  obtain ⟨m, hq, hm⟩ := query_ok (cmpOK_tour t) ht
    (start := is.foldl min i0) (stop := is.foldl max i0 + 1) (by omega) (by omega)
  obtain ⟨w, rfl, hw⟩ := isMinAt_entry hm
  have hwl : w = lcp pa pb := min_is_lcp (tourPaths_inv t) hle hTa hTb hw
  -- the lcp of the two extreme arguments is the lcp of all of them
  have hall : lcp pa pb = rest.foldl lcp p0 := by
    apply prefix_antisymm
    · apply prefix_foldl_lcp
      intro x hx
      obtain ⟨k, hk, hTk⟩ := harg x hx
      exact ((tourPaths_inv t) _ _ pa pb hle hTa hTb).2 k x
        (foldl_min_le is i0 k hk) (le_foldl_max is i0 k hk) hTk
    · exact prefix_lcp (foldl_lcp_prefix rest p0 pa hpa) (foldl_lcp_prefix rest p0 pb hpb)
  simp only [State.call, hi0, his, hq, entry, hwl, hall]

theorem lcaQuery_ok (t : RTree) (p0 : Path) (rest : List Path)
    (hn : ∀ x ∈ p0 :: rest, t.isNode x = true) :
    lcaQuery t (p0 :: rest) = .ok (rest.foldl lcp p0) := by
  obtain ⟨tbl, h1, h2⟩ := init_ok t
  simp only [lcaQuery, withState, h1]
  exact call_ok t h2 p0 rest hn

/-! ### Derived queries -/

theorem isNode_lcp {t : RTree} : ∀ {p : Path} (q : Path), t.isNode p = true →
    t.isNode (lcp p q) = true := by
  intro p q h
  have key : ∀ (r p : Path) (t : RTree), r <+: p → t.isNode p = true → t.isNode r = true := by
    intro r
    induction r with
    | nil => intro p t _ _; simp [RTree.isNode, RTree.sub]
    | cons a r ih =>
      intro p t hpre hp
      cases p with
      | nil => simp at hpre
      | cons b p =>
        obtain ⟨rfl, hpre'⟩ := List.cons_prefix_cons.1 hpre
        cases t with
        | node cs =>
          simp only [RTree.isNode, RTree.sub] at hp ⊢
          cases hc : cs[a]? with
          | none => simp [hc] at hp
          | some c =>
            simp only [hc] at hp ⊢
            exact ih p c hpre' (by simpa [RTree.isNode] using hp)
  exact key _ p t (lcp_prefix_left p q) h

theorem level_ok (t : RTree) {tbl : List (List (Option TourEntry))} {p : Path}
    (h : t.isNode p = true) : State.level ⟨eulerTour t, tbl⟩ p = .ok p.length := by
  obtain ⟨k, hk, hT⟩ := firstIdx_ok h
  have := (eulerTour_getElem? t k (entry p)).2 ⟨p, hT, rfl⟩
  simp [State.level, hk, this, entry]

theorem isAncestorOf_ok (t : RTree) {tbl : List (List (Option TourEntry))}
    (ht : TableOK Prod.fst (eulerTour t) tbl) {p q : Path}
    (hp : t.isNode p = true) (hq : t.isNode q = true) :
    State.isAncestorOf ⟨eulerTour t, tbl⟩ p q = .ok (isAnc p q) := by
  have hc := call_ok t ht p [q] (by simp [hp, hq])
  simp only [List.foldl_cons, List.foldl_nil] at hc
  simp only [State.isAncestorOf, hc]
  congr 1
  rw [Bool.eq_iff_iff, beq_iff_eq, lcp_eq_left_iff, isAnc_iff_prefix]

theorem isStrictAncestorOf_ok (t : RTree) {tbl : List (List (Option TourEntry))}
    (ht : TableOK Prod.fst (eulerTour t) tbl) {p q : Path}
    (hp : t.isNode p = true) (hq : t.isNode q = true) :
    State.isStrictAncestorOf ⟨eulerTour t, tbl⟩ p q = .ok (isStrictAnc p q) := by
  have hc := call_ok t ht p [q] (by simp [hp, hq])
  simp only [List.foldl_cons, List.foldl_nil] at hc
  simp only [State.isStrictAncestorOf, hc, isStrictAnc]
  congr 2
  rw [Bool.eq_iff_iff, beq_iff_eq, lcp_eq_left_iff, isAnc_iff_prefix]

theorem isComparable_ok (t : RTree) {tbl : List (List (Option TourEntry))}
    (ht : TableOK Prod.fst (eulerTour t) tbl) {p q : Path}
    (hp : t.isNode p = true) (hq : t.isNode q = true) :
    State.isComparable ⟨eulerTour t, tbl⟩ p q = .ok (comparable p q) := by
  simp only [State.isComparable, isAncestorOf_ok t ht hp hq, isAncestorOf_ok t ht hq hp,
    comparable]
  cases isAnc p q <;> simp

theorem distance_ok (t : RTree) {tbl : List (List (Option TourEntry))}
    (ht : TableOK Prod.fst (eulerTour t) tbl) {p q : Path}
    (hp : t.isNode p = true) (hq : t.isNode q = true) :
    State.distance ⟨eulerTour t, tbl⟩ p q = .ok (dist p q : Int) := by
  have hc := call_ok t ht p [q] (by simp [hp, hq])
  simp only [List.foldl_cons, List.foldl_nil] at hc
  simp only [State.distance, level_ok t hp, level_ok t hq, hc, level_ok t (isNode_lcp q hp), dist]
  congr 1
  have h1 := (lcp_prefix_left p q).length_le
  have h2 := (lcp_prefix_right p q).length_le
  omega

/-! ### Total orders -/

theorem cmpOK_total {α : Type} [LinearOrder α] (data : List α) :
    CmpOK id data (totalLt (fun a b : α => decide (a < b))) where
  ne a b _ := rfl
  eqmin i w a b ha hb := by
    have h1 : a ≤ b := ha.2 _ b hb.1.choose_spec.1 hb.1.choose_spec.2.1 hb.1.choose_spec.2.2
    have : ¬ b < a := not_lt.2 h1
    simp [totalLt, this]

theorem foldl_min_spec {α : Type} [LinearOrder α] : ∀ (l : List α) (a : α),
    l.foldl min a ∈ a :: l ∧ ∀ x ∈ a :: l, l.foldl min a ≤ x
  | [], a => by simp
  | b :: l, a => by
    obtain ⟨h1, h2⟩ := foldl_min_spec l (min a b)
    simp only [List.foldl_cons]
    constructor
    · simp only [List.mem_cons] at h1 ⊢
      rcases h1 with h | h
      · rw [h]
        rcases le_total a b with h' | h'
        · exact Or.inl (min_eq_left h')
        · exact Or.inr (Or.inl (min_eq_right h'))
      · exact Or.inr (Or.inr h)
    · intro x hx
      simp only [List.mem_cons] at hx
      rcases hx with rfl | rfl | hx
      · exact le_trans (h2 (min x b) (by simp)) (min_le_left _ _)
      · exact le_trans (h2 (min a x) (by simp)) (min_le_right _ _)
      · exact h2 x (by simp [hx])

end SR.Lca
