/-
  `_decode_uspfs_table` and `_uspfs` of the code model against the label-DP model.

  * `annCode_sim`, `annCode_nodup`  the code's node data is the label DP's (`annUn`), with
      the same allowed species as sets, each handed out once;
  * `decode_iff`    reading the tags of the final table top-down (`decode`) yields exactly
      the materialisations `unSol` of the solutions stored in the label DP's cell;
  * `result_iff`    the result `Entry` (MIN / ALL over `output.cost()`) keeps exactly
      `rankByCost` of the decoded outputs;
  * `mem_uspfsCode_iff`  **`uspfsCode` and `uspfs` have the same members**, for every input
      whose leaf species are nodes of the species tree.
-/
import SRVerif.Proofs.UspfsCodeTable
import SRVerif.Proofs.LayoutState
import SRVerif.Proofs.BranchesDraw

namespace SR.UspfsCode

open SR Cost

/-! ### The annotated trees -/

theorem mem_postorder_iff (S : RTree) (s : Path) : s ∈ S.postorder ↔ S.isNode s = true :=
  ⟨SR.Layout.isNode_of_mem_postorder S s, SR.Layout.mem_postorder_of_isNode s S⟩

theorem annCode_sim (S : RTree) (base : Bool) (whole : OTree) :
    ∀ (o : OTree) (p : Path), Sim (annCode S base whole p o) (annUn S base whole p o) := by
  intro o
  induction o with
  | leaf sp f => intro p; simp [annCode, annUn, Sim]
  | node l r ihl ihr =>
    intro p
    have hl := ihl (p ++ [0])
    have hr := ihr (p ++ [1])
    show _ ∧ _ ∧ _ ∧ _ ∧ _
    refine ⟨?_, rfl, ?_, hl, hr⟩
    · show sortNat _ = sortNat _
      rw [hl.data.1, hl.data.2, hr.data.1, hr.data.2]
    · intro s
      show (s ∈ if base = true then _ else _) ↔ (s ∈ if base = true then _ else _)
      cases base with
      | true => simp
      | false =>
        simp only [Bool.false_eq_true, if_false, List.mem_reverse, allSpecies, mem_postorder_iff,
          RTree.mem_preorder_iff]

theorem annCode_nodup (S : RTree) (base : Bool) (whole : OTree) :
    ∀ (o : OTree) (p : Path), AllowedNodup (annCode S base whole p o) := by
  intro o
  induction o with
  | leaf sp f => intro p; trivial
  | node l r ihl ihr =>
    intro p
    simp only [annCode, AllowedNodup]
    refine ⟨?_, ihl _, ihr _⟩
    cases base with
    | true => simp
    | false => simpa using SR.Layout.postorder_nodup S

/-! ### Decoding -/

theorem content_congr {a b : UnAnn} (h1 : a.lcaSet = b.lcaSet) (h2 : a.gain = b.gain) (k : Kind)
    (anc : List Nat) : content a k anc = content b k anc := by
  cases k <;> simp [content, h1, h2]

theorem unSol_leaf (b : UnAnn) (sp : Path) (anc : List Nat) (s : Path) (k : Kind) :
    unSol (.leaf b sp) anc (.leaf s k) = .leaf s (content b k anc) := by
  cases k <;> rfl

theorem unSol_node (b : UnAnn) (l r : ATree UnAnn) (anc : List Nat) (s : Path) (k : Kind)
    (x y : LSol Kind) :
    unSol (.node b l r) anc (.node s k x y) =
      .node s (content b k anc) (unSol l (content b k anc) x) (unSol r (content b k anc) y) := by
  cases k <;> rfl

/-- **Decoded solutions, set equality**: following the tags of the table from
    (object node `v`, species `s`, kind `k`) yields exactly the materialised solutions of the
    label DP's cell `(s, k)` of that node. -/
theorem decode_iff (c : Costs) (S : RTree) (T : Table) :
    ∀ (t' t : ATree UnAnn), Sim t' t → SpOk (unAlg c) S t → ∀ (v : Path),
      (∀ q tq, subAt t' q = some tq → ∀ s k, cellAt T (v ++ q) s k = cellSpec c S tq s k) →
      ∀ (s : Path) (k : Kind) (anc : List Nat) (sol : Sol),
        sol ∈ decode T t' v s k anc ↔
          ∃ d, findCell (dpTable (unAlg c) c S true t) (s, k) = some d ∧
            ∃ ls ∈ d.sols, sol = unSol t anc ls := by
  intro t'
  induction t' with
  | leaf a sp =>
    intro t hsim hok v hT s k anc sol
    cases t with
    | node _ _ _ => simp [Sim] at hsim
    | leaf b sq =>
      obtain ⟨rfl, h1, h2⟩ := hsim
      have hcell := hT [] _ (subAt_nil _) s k
      rw [List.append_nil] at hcell
      simp only [decode, hcell, cellSpec, findCell_dpTable_leaf]
      by_cases h : s = sp ∧ k = .lca
      · obtain ⟨rfl, rfl⟩ := h
        simp [Cell.update, Cell.value, ExtInt.isInfinite, Entry.update, Entry.update1, Entry.init,
          Entry.better, ExtInt.lt, unSol_leaf, content_congr h1 h2]
      · simp [h, Cell.value, ExtInt.isInfinite]
  | node a l' r' ihl ihr =>
    intro t hsim hok v hT s k anc sol
    cases t with
    | leaf _ _ => simp [Sim] at hsim
    | node b l r =>
      have hsim' := hsim
      obtain ⟨h1, h2, hal, hsl, hsr⟩ := hsim
      have hTl : ∀ q tq, subAt l' q = some tq → ∀ s k,
          cellAt T ((v ++ [0]) ++ q) s k = cellSpec c S tq s k := by
        intro q tq hq s k
        rw [List.append_assoc]
        exact hT (0 :: q) tq (by simpa [subAt] using hq) s k
      have hTr : ∀ q tq, subAt r' q = some tq → ∀ s k,
          cellAt T ((v ++ [1]) ++ q) s k = cellSpec c S tq s k := by
        intro q tq hq s k
        rw [List.append_assoc]
        exact hT (1 :: q) tq (by simpa [subAt] using hq) s k
      have ihL := ihl l hsl hok.2.1 (v ++ [0]) hTl
      have ihR := ihr r hsr hok.2.2 (v ++ [1]) hTr
      have hcell := hT [] _ (subAt_nil _) s k
      rw [List.append_nil] at hcell
      have hspec := cellSpec_node c S true a b l' r' l r hsim' hok s k
      simp only [decode, hcell, List.mem_flatMap, List.mem_map]
      rw [content_congr h1 h2]
      cases hf : findCell (dpTable (unAlg c) c S true (.node b l r)) (s, k) with
      | none =>
        rw [hspec.1 hf]
        simp [Cell.infos]
      | some d =>
        obtain ⟨e, hce, _, htags⟩ := hspec.2 d hf
        rw [hce]
        simp only [Cell.infos]
        have he : entry (unAlg c) c S true b s k l.data r.data (dpTable (unAlg c) c S true l)
            (dpTable (unAlg c) c S true r) = some d := by
          rw [findCell_dpTable_node] at hf
          split at hf
          · exact hf
          · cases hf
        have hsols := (entry_eq_some _ _ _ _ _ _ _ _ _ _ he).2.2.2.2.1 rfl
        constructor
        · rintro ⟨info, hinfo, ml, hml, mr, hmr, rfl⟩
          obtain ⟨cl, hcl, x, hx, rfl⟩ := (ihL _ _ _ _).mp hml
          obtain ⟨cr, hcr, y, hy, rfl⟩ := (ihR _ _ _ _).mp hmr
          refine ⟨d, rfl, .node s k x y, ?_, by rw [unSol_node]⟩
          rw [hsols]
          exact ⟨info.1, info.2, cl, cr, x, y, (htags info).mp hinfo, hcl, hcr, hx, hy, rfl⟩
        · rintro ⟨d', hd', ls, hls, rfl⟩
          simp only [Option.some.injEq] at hd'
          subst hd'
          obtain ⟨t0, t1, cl, cr, x, y, hmem, hcl, hcr, hx, hy, rfl⟩ := (hsols ls).mp hls
          refine ⟨(t0, t1), (htags _).mpr hmem, unSol l (content b k anc) x,
            (ihL _ _ _ _).mpr ⟨cl, hcl, x, hx, rfl⟩, unSol r (content b k anc) y,
            (ihR _ _ _ _).mpr ⟨cr, hcr, y, hy, rfl⟩, by rw [unSol_node]⟩

/-! ### The result entry -/

/-- A MIN / ALL result entry over `Candidate(cost(out), out)` for the outputs `D` keeps the
    members of `rankByCost` of any list with the same members. -/
theorem result_iff (c : Costs) (mode : LabelMode) (o : OTree) (D D' : List Sol)
    (hD : ∀ sol, sol ∈ D ↔ sol ∈ D') (sol : Sol) :
    sol ∈ (Entry.update (Entry.init .min .all)
      (D.map fun out => ({ value := Cost.toExt (totalCost c mode o out), info := some out } : Cand Sol))).infos ↔
      sol ∈ rankByCost c mode o D' := by
  let cs := D.map fun out => ({ value := Cost.toExt (totalCost c mode o out), info := some out } : Cand Sol)
  let xs := D'.map fun out => (totalCost c mode o out, out)
  have hI : Entry.Inv .min .all cs (Entry.update (Entry.init .min .all) cs) := by
    simpa using Entry.inv_update (Entry.inv_init .min .all) cs
  have hC : Corr cs xs := by
    constructor
    · intro cd hcd
      obtain ⟨out, _, rfl⟩ := List.mem_map.mp hcd
      exact ⟨_, out, rfl⟩
    · intro n t
      simp only [cs, xs, List.mem_map, Cand.mk.injEq, Option.some.injEq, Prod.mk.injEq]
      constructor
      · rintro ⟨out, hout, hv, rfl⟩
        exact ⟨out, (hD out).mp hout, toExt_eq_fin.mp hv, rfl⟩
      · rintro ⟨out, hout, hv, rfl⟩
        exact ⟨out, (hD out).mpr hout, by rw [hv]; rfl, rfl⟩
  have hmap : (xs.map (·.1)) = D'.map (totalCost c mode o) := by
    simp only [xs, List.map_map]; rfl
  obtain ⟨hv, ht⟩ := minall_of_corr hI hC
  rw [hmap] at hv ht
  show sol ∈ (Entry.update (Entry.init .min .all) cs).infos ↔ _
  simp only [rankByCost, mem_dedup, List.mem_filter, decide_eq_true_eq]
  cases hm : minList (D'.map (totalCost c mode o)) with
  | fin n =>
    rw [hm] at ht
    rw [ht (by simp) sol]
    simp only [xs, List.mem_map, Prod.mk.injEq]
    constructor
    · rintro ⟨out, hout, hval, rfl⟩; exact ⟨hout, hval⟩
    · rintro ⟨hout, hval⟩; exact ⟨sol, hout, hval, rfl⟩
  | inf =>
    rw [hm] at hv
    have hall := minList_eq_inf_iff.mp hm
    rw [hI.all rfl sol, hv]
    simp only [cs, List.mem_map]
    constructor
    · rintro ⟨_, ⟨out, hout, rfl⟩, hi, _⟩
      simp only [Option.some.injEq] at hi
      subst hi
      exact ⟨(hD out).mp hout, hall _ (List.mem_map.mpr ⟨out, (hD out).mp hout, rfl⟩)⟩
    · rintro ⟨hout, hval⟩
      exact ⟨_, ⟨sol, (hD sol).mpr hout, rfl⟩, rfl, by rw [hval]⟩

/-! ### The two solver models have the same members -/

theorem resultEntry_eq (c : Costs) (S : RTree) (base : Bool) (o : OTree) :
    resultEntry .all c S base o =
      Entry.update (Entry.init .min .all)
        (((levelOrder S).flatMap (decodeRoot .all c S base o)).map fun out =>
          ({ value := Cost.toExt (totalCost c .unordered o out), info := some out } : Cand Sol)) := by
  unfold resultEntry
  generalize Entry.init Merge.min Retain.all = e
  induction levelOrder S generalizing e with
  | nil => rfl
  | cons s ss ih =>
    rw [List.foldl_cons, ih, Entry.update_append, List.flatMap_cons, List.map_append]

/-- The final table holds `cellSpec` at every object node. -/
theorem codeTable_ok (c : Costs) (S : RTree) (base : Bool) (o : OTree) :
    ∀ q tq, subAt (annCode S base o [] o) q = some tq → ∀ s k,
      cellAt (codeTable .all c S base o) ([] ++ q) s k = cellSpec c S tq s k :=
  (computeTable_ok c S (annCode S base o [] o) [] [] (annCode_nodup S base o o [])
    (fun _ _ _ _ => rfl)).2

/-- The outputs decoded over all root species are the materialised solutions of the label
    DP's root cells of kind LCA. -/
theorem decoded_iff (c : Costs) (S : RTree) (base : Bool) (o : OTree)
    (hok : SpOk (unAlg c) S (annUn S base o [] o)) (sol : Sol) :
    sol ∈ (levelOrder S).flatMap (decodeRoot .all c S base o) ↔
      sol ∈ (uspfsCells c S base true o).flatMap
        (fun d => d.sols.map (unSol (annUn S base o [] o) (annUn S base o [] o).data.lcaSet)) := by
  have hsim := annCode_sim S base o o []
  simp only [List.mem_flatMap, mem_levelOrder, decodeRoot, uspfsCells, List.mem_filter, List.mem_map,
    beq_iff_eq]
  rw [hsim.data.1]
  constructor
  · rintro ⟨s, _, hsol⟩
    obtain ⟨d, hd, ls, hls, rfl⟩ :=
      (decode_iff c S _ _ _ hsim hok [] (codeTable_ok c S base o) s .lca _ sol).mp hsol
    obtain ⟨hmem, htag⟩ := findCell_some hd
    exact ⟨d, ⟨hmem, (cellTag_eq.mp htag).2⟩, ls, hls, rfl⟩
  · rintro ⟨d, ⟨hmem, hlab⟩, ls, hls, rfl⟩
    refine ⟨d.sp, dp_isNode c S true _ hok hmem, ?_⟩
    refine (decode_iff c S _ _ _ hsim hok [] (codeTable_ok c S base o) d.sp .lca _ _).mpr ?_
    obtain ⟨d', hd'⟩ := findCell_of_mem hmem
    obtain ⟨hmem', htag'⟩ := findCell_some hd'
    have : d' = d := cellTag_inj _ c S true _ hmem' hmem htag'
    subst this
    refine ⟨d', ?_, ls, hls, rfl⟩
    rw [← hd', cellTag, hlab]

/-! ### Every object node of the final table -/

theorem sim_subAt : ∀ (t' t : ATree UnAnn), Sim t' t → ∀ q tq, subAt t q = some tq →
    ∃ tq', subAt t' q = some tq' ∧ Sim tq' tq := by
  intro t'
  induction t' with
  | leaf a sp =>
    intro t hsim q tq hq
    cases t with
    | node _ _ _ => simp [Sim] at hsim
    | leaf b sq =>
      cases q with
      | nil => simp only [subAt_nil, Option.some.injEq] at hq; subst hq; exact ⟨_, subAt_nil _, hsim⟩
      | cons _ _ => simp [subAt] at hq
  | node a l' r' ihl ihr =>
    intro t hsim q tq hq
    cases t with
    | leaf _ _ => simp [Sim] at hsim
    | node b l r =>
      cases q with
      | nil => simp only [subAt_nil, Option.some.injEq] at hq; subst hq; exact ⟨_, subAt_nil _, hsim⟩
      | cons i q =>
        simp only [subAt] at hq ⊢
        by_cases hi0 : i = 0
        · simp only [hi0, if_true] at hq ⊢
          exact ihl l hsim.2.2.2.1 q tq hq
        · simp only [hi0, if_false] at hq ⊢
          by_cases hi1 : i = 1
          · simp only [hi1, if_true] at hq ⊢
            exact ihr r hsim.2.2.2.2 q tq hq
          · simp only [hi1, if_false] at hq; cases hq

theorem spOk_subAt (c : Costs) (S : RTree) : ∀ (t : ATree UnAnn), SpOk (unAlg c) S t →
    ∀ q tq, subAt t q = some tq → SpOk (unAlg c) S tq := by
  intro t
  induction t with
  | leaf a sp =>
    intro hok q tq hq
    cases q with
    | nil => simp only [subAt_nil, Option.some.injEq] at hq; subst hq; exact hok
    | cons _ _ => simp [subAt] at hq
  | node a l r ihl ihr =>
    intro hok q tq hq
    cases q with
    | nil => simp only [subAt_nil, Option.some.injEq] at hq; subst hq; exact hok
    | cons i q =>
      simp only [subAt] at hq
      by_cases hi0 : i = 0
      · simp only [hi0, if_true] at hq; exact ihl hok.2.1 q tq hq
      · simp only [hi0, if_false] at hq
        by_cases hi1 : i = 1
        · simp only [hi1, if_true] at hq; exact ihr hok.2.2 q tq hq
        · simp only [hi1, if_false] at hq; cases hq

/-- At every object node `q`, the row of the final table is `cellSpec` of the code's subtree
    there, which is in relation `Sim` with the label DP's subtree. -/
theorem codeTable_row (c : Costs) (S : RTree) (base : Bool) (o : OTree) (q : Path)
    (tq : ATree UnAnn) (hq : subAt (annUn S base o [] o) q = some tq) :
    ∃ tq', Sim tq' tq ∧ cellAt (codeTable .all c S base o) q = cellSpec c S tq' := by
  obtain ⟨tq', hq', hsim⟩ := sim_subAt _ _ (annCode_sim S base o o []) q tq hq
  refine ⟨tq', hsim, ?_⟩
  funext s k
  have := codeTable_ok c S base o q tq' hq' s k
  rwa [List.nil_append] at this

/-- **Refinement**: the code-structured model returns the same set of solutions as the
    label-DP model. -/
theorem mem_uspfsCode_iff (c : Costs) (S : RTree) (base : Bool) (o : OTree)
    (hok : SpOk (unAlg c) S (annUn S base o [] o)) (sol : Sol) :
    sol ∈ uspfsCode c S base o ↔ sol ∈ uspfs c S base o := by
  unfold uspfsCode uspfsCodePol uspfs
  rw [resultEntry_eq]
  exact result_iff c .unordered o _ _ (decoded_iff c S base o hok) sol

end SR.UspfsCode
