/-
  C08, part 2: `binarize` on trees of arbitrary arity.

  * `binarize_sound`: every member has the leaves of the input, keeps every
    clade together with its annotation, and carries no other annotation;
  * `length_binarize`: the number of members is Π (2k−3)‼;
  * the executable specification (`isRefinementB`, `keepsAnnB`) agrees with
    the propositional one.
-/
import SRVerif.Proofs.Binarize

namespace SR.Bin

open BTree

/-! ### Substituting trees for items -/

theorem leaves_subst (s : BTree BinT) : (subst s).leaves = s.items.flatMap BinT.leaves := by
  induction s with
  | item d => simp [subst, BTree.items]
  | node l r ihl ihr => simp [subst, BTree.items, BinT.leaves, ihl, ihr]

theorem BinT.leaves_setAnn (a : Option Nat) (b : BinT) : (b.setAnn a).leaves = b.leaves := by
  cases b <;> rfl

theorem inner_subst_of_mem {s : BTree BinT} {d : BinT} (hd : d ∈ s.items)
    {c : List Nat × Option Nat} (hc : c ∈ d.inner) : c ∈ (subst s).inner := by
  induction s with
  | item d' =>
    simp only [BTree.items, List.mem_singleton] at hd
    subst hd; exact hc
  | node l r ihl ihr =>
    simp only [BTree.items, List.mem_append] at hd
    simp only [subst, BinT.inner, List.mem_cons, List.mem_append]
    rcases hd with hd | hd
    · exact Or.inr (Or.inl (ihl hd))
    · exact Or.inr (Or.inr (ihr hd))

theorem mem_inner_subst {s : BTree BinT} {c : List Nat × Option Nat} (hc : c ∈ (subst s).inner) :
    c.2 = none ∨ ∃ d ∈ s.items, c ∈ d.inner := by
  induction s with
  | item d => exact Or.inr ⟨d, by simp [BTree.items], hc⟩
  | node l r ihl ihr =>
    simp only [subst, BinT.inner, List.mem_cons, List.mem_append] at hc
    rcases hc with rfl | hc | hc
    · exact Or.inl rfl
    · rcases ihl hc with h | ⟨d, hd, h⟩
      · exact Or.inl h
      · exact Or.inr ⟨d, by simp [BTree.items, hd], h⟩
    · rcases ihr hc with h | ⟨d, hd, h⟩
      · exact Or.inl h
      · exact Or.inr ⟨d, by simp [BTree.items, hd], h⟩

theorem BTree.eq_node_of_two_le {α : Type} (s : BTree α) (h : 2 ≤ s.items.length) :
    ∃ l r, s = .node l r := by
  cases s with
  | item a => simp [BTree.items] at h
  | node l r => exact ⟨l, r, rfl⟩

/-! ### The product over the children -/

theorem mem_binarizeChildren_cons {c : NTree} {cs : List NTree} {descs : List BinT} :
    descs ∈ binarizeChildren (c :: cs) ↔
      ∃ d ds, descs = d :: ds ∧ d ∈ binarize c ∧ ds ∈ binarizeChildren cs := by
  rw [binarizeChildren]
  simp only [List.mem_flatMap, List.mem_map]
  constructor
  · rintro ⟨d, hd, ds, hds, rfl⟩; exact ⟨d, ds, rfl, hd, hds⟩
  · rintro ⟨d, ds, rfl, hd, hds⟩; exact ⟨d, hd, ds, hds, rfl⟩

theorem mem_binarizeChildren_nil {descs : List BinT} : descs ∈ binarizeChildren [] ↔ descs = [] := by
  rw [binarizeChildren]; simp

theorem mem_binarize_node {a : Option Nat} {cs : List NTree} {b : BinT} :
    b ∈ binarize (.node a cs) ↔
      ∃ descs ∈ binarizeChildren cs, ∃ s ∈ arrange descs, b = (subst s).setAnn a := by
  rw [binarize]
  simp only [List.mem_flatMap, List.mem_map]
  constructor
  · rintro ⟨descs, hd, s, hs, rfl⟩; exact ⟨descs, hd, s, hs, rfl⟩
  · rintro ⟨descs, hd, s, hs, rfl⟩; exact ⟨descs, hd, s, hs, rfl⟩

/-! ### Soundness -/

/-- What a member `b` of `binarize t` satisfies. -/
def Sound (b : BinT) (t : NTree) : Prop :=
  b.leaves.Perm t.leaves ∧
  (∀ c ∈ t.inner, ∃ c' ∈ b.inner, c'.1.Perm c.1 ∧ c'.2 = c.2) ∧
  (∀ c' ∈ b.inner, c'.2 ≠ none → ∃ c ∈ t.inner, c'.1.Perm c.1 ∧ c'.2 = c.2)

/-- The same for a tuple of refinements of the children. -/
def SoundL (descs : List BinT) (cs : List NTree) : Prop :=
  descs.length = cs.length ∧
  (descs.flatMap BinT.leaves).Perm (NTree.leavesList cs) ∧
  (∀ c ∈ NTree.innerList cs, ∃ d ∈ descs, ∃ c' ∈ d.inner, c'.1.Perm c.1 ∧ c'.2 = c.2) ∧
  (∀ d ∈ descs, ∀ c' ∈ d.inner, c'.2 ≠ none →
    ∃ c ∈ NTree.innerList cs, c'.1.Perm c.1 ∧ c'.2 = c.2)

theorem sound_node {a : Option Nat} {cs : List NTree} (hk : 2 ≤ cs.length) {descs : List BinT}
    (hl : SoundL descs cs) {s : BTree BinT} (hs : s ∈ arrange descs) :
    Sound ((subst s).setAnn a) (.node a cs) := by
  obtain ⟨hlen, hleaves, hkeep, hfrom⟩ := hl
  have hp := items_arrange hs
  obtain ⟨l, r, rfl⟩ := BTree.eq_node_of_two_le s (by rw [hp.length_eq, hlen]; exact hk)
  have hlv : ((subst (.node l r)).setAnn a).leaves.Perm (NTree.leavesList cs) := by
    rw [BinT.leaves_setAnn, leaves_subst]
    exact (hp.flatMap_right _).trans hleaves
  have hroot : ((subst (.node l r)).setAnn a).inner =
      (((subst (.node l r)).setAnn a).leaves, a) :: ((subst l).inner ++ (subst r).inner) := by
    simp [subst, BinT.setAnn, BinT.inner, BinT.leaves]
  refine ⟨by rw [NTree.leaves]; exact hlv, ?_, ?_⟩
  · intro c hc
    rw [NTree.inner, List.mem_cons] at hc
    rcases hc with rfl | hc
    · exact ⟨(((subst (.node l r)).setAnn a).leaves, a), by rw [hroot]; exact List.mem_cons_self,
        hlv, rfl⟩
    · obtain ⟨d, hd, c', hc', h⟩ := hkeep c hc
      have hdi : d ∈ (BTree.node l r).items := hp.mem_iff.mpr hd
      refine ⟨c', ?_, h⟩
      rw [hroot, List.mem_cons, List.mem_append]
      right
      simp only [BTree.items, List.mem_append] at hdi
      rcases hdi with hdi | hdi
      · exact Or.inl (inner_subst_of_mem hdi hc')
      · exact Or.inr (inner_subst_of_mem hdi hc')
  · intro c' hc' hne
    rw [hroot, List.mem_cons, List.mem_append] at hc'
    rcases hc' with rfl | hc'
    · exact ⟨(NTree.leavesList cs, a), by rw [NTree.inner]; exact List.mem_cons_self, hlv, rfl⟩
    · have hmem : ∃ d ∈ (BTree.node l r).items, c' ∈ d.inner := by
        rcases hc' with hc' | hc'
        · rcases mem_inner_subst hc' with h | ⟨d, hd, h⟩
          · exact absurd h hne
          · exact ⟨d, by simp [BTree.items, hd], h⟩
        · rcases mem_inner_subst hc' with h | ⟨d, hd, h⟩
          · exact absurd h hne
          · exact ⟨d, by simp [BTree.items, hd], h⟩
      obtain ⟨d, hd, hcd⟩ := hmem
      obtain ⟨c, hc, h⟩ := hfrom d (hp.mem_iff.mp hd) c' hcd hne
      exact ⟨c, by rw [NTree.inner]; exact List.mem_cons_of_mem _ hc, h⟩

mutual
  theorem binarize_sound : ∀ (t : NTree), t.WF = true → ∀ b ∈ binarize t, Sound b t
    | .leaf i, _, b, hb => by
      rw [binarize, List.mem_singleton] at hb
      subst hb
      exact ⟨by simp [BinT.leaves, NTree.leaves], by simp [NTree.inner], by simp [BinT.inner]⟩
    | .node a cs, hwf, b, hb => by
      rw [NTree.WF, Bool.and_eq_true, decide_eq_true_eq] at hwf
      obtain ⟨descs, hd, s, hs, rfl⟩ := mem_binarize_node.mp hb
      exact sound_node hwf.1 (binarizeChildren_sound cs hwf.2 descs hd) hs
  theorem binarizeChildren_sound : ∀ (cs : List NTree), NTree.WFList cs = true →
      ∀ descs ∈ binarizeChildren cs, SoundL descs cs
    | [], _, descs, hd => by
      rw [mem_binarizeChildren_nil] at hd
      subst hd
      exact ⟨rfl, by simp [NTree.leavesList], by simp [NTree.innerList], by simp⟩
    | c :: cs, hwf, descs, hd => by
      rw [NTree.WFList, Bool.and_eq_true] at hwf
      obtain ⟨d, ds, rfl, hdc, hds⟩ := mem_binarizeChildren_cons.mp hd
      obtain ⟨h1, h2, h3⟩ := binarize_sound c hwf.1 d hdc
      obtain ⟨g0, g1, g2, g3⟩ := binarizeChildren_sound cs hwf.2 ds hds
      refine ⟨by simp [g0], ?_, ?_, ?_⟩
      · rw [List.flatMap_cons, NTree.leavesList]; exact h1.append g1
      · intro x hx
        rw [NTree.innerList, List.mem_append] at hx
        rcases hx with hx | hx
        · obtain ⟨c', hc', h⟩ := h2 x hx
          exact ⟨d, by simp, c', hc', h⟩
        · obtain ⟨d', hd', c', hc', h⟩ := g2 x hx
          exact ⟨d', by simp [hd'], c', hc', h⟩
      · intro d' hd' c' hc' hne
        rw [NTree.innerList]
        rcases List.mem_cons.mp hd' with rfl | hd'
        · obtain ⟨x, hx, h⟩ := h3 c' hc' hne
          exact ⟨x, by simp [hx], h⟩
        · obtain ⟨x, hx, h⟩ := g3 d' hd' c' hc' hne
          exact ⟨x, by simp [hx], h⟩
end

/-! ### Count -/

mutual
  theorem length_binarize : ∀ (t : NTree), t.WF = true → (binarize t).length = Spec.refCount t
    | .leaf i, _ => by simp [binarize, Spec.refCount]
    | .node a cs, hwf => by
      rw [NTree.WF, Bool.and_eq_true, decide_eq_true_eq] at hwf
      obtain ⟨hlen, hprod⟩ := length_binarizeChildren cs hwf.2
      rw [binarize, Spec.refCount,
        length_flatMap_const _ _ (Spec.dfact (2 * cs.length - 3)), hprod, Nat.mul_comm]
      intro descs hd
      have hl := hlen descs hd
      rw [List.length_map, length_arrange descs (by intro h; rw [h] at hl; simp at hl; omega), hl]
  theorem length_binarizeChildren : ∀ (cs : List NTree), NTree.WFList cs = true →
      (∀ descs ∈ binarizeChildren cs, descs.length = cs.length) ∧
      (binarizeChildren cs).length = Spec.refCountList cs
    | [], _ => by simp [binarizeChildren, Spec.refCountList]
    | c :: cs, hwf => by
      rw [NTree.WFList, Bool.and_eq_true] at hwf
      obtain ⟨hlen, hprod⟩ := length_binarizeChildren cs hwf.2
      refine ⟨?_, ?_⟩
      · intro descs hd
        obtain ⟨d, ds, rfl, _, hds⟩ := mem_binarizeChildren_cons.mp hd
        simp [hlen ds hds]
      · rw [binarizeChildren, Spec.refCountList,
          length_flatMap_const _ _ (Spec.refCountList cs), length_binarize c hwf.1]
        intro d _
        rw [List.length_map, hprod]
end

/-! ### The executable specification -/

theorem sortIds_eq_iff {l l' : List Nat} : Spec.sortIds l = Spec.sortIds l' ↔ l.Perm l' := by
  unfold Spec.sortIds
  constructor
  · intro h
    exact (List.mergeSort_perm l _).symm.trans (h ▸ List.mergeSort_perm l' _)
  · intro h
    have hs : ∀ l : List Nat, (l.mergeSort (fun a b => decide (a ≤ b))).Pairwise
        (fun a b => decide (a ≤ b) = true) := fun l =>
      List.pairwise_mergeSort (fun a b c hab hbc => by simp at *; omega)
        (fun a b => by simp; omega) l
    refine List.Perm.eq_of_pairwise (le := fun a b => decide (a ≤ b) = true) ?_ (hs l) (hs l') ?_
    · intro a b _ _ h1 h2; simp at h1 h2; omega
    · exact (List.mergeSort_perm l _).trans (h.trans (List.mergeSort_perm l' _).symm)

theorem isRefinementB_iff (b t : NTree) : Spec.isRefinementB b t = true ↔ Spec.IsRefinement b t := by
  simp only [Spec.isRefinementB, Spec.IsRefinement, Bool.and_eq_true, List.all_eq_true,
    List.any_eq_true, beq_iff_eq, sortIds_eq_iff, and_assoc]

theorem keepsAnnB_iff (b t : NTree) : Spec.keepsAnnB b t = true ↔ Spec.KeepsAnn b t := by
  simp only [Spec.keepsAnnB, Spec.KeepsAnn, Bool.and_eq_true, List.all_eq_true,
    List.any_eq_true, beq_iff_eq, sortIds_eq_iff, Bool.or_eq_true]
  constructor
  · rintro ⟨h1, h2⟩
    refine ⟨h1, fun c' hc' hne => ?_⟩
    rcases h2 c' hc' with h | h
    · exact absurd h hne
    · exact h
  · rintro ⟨h1, h2⟩
    refine ⟨h1, fun c' hc' => ?_⟩
    by_cases hne : c'.2 = none
    · exact Or.inl hne
    · exact Or.inr (h2 c' hc' hne)

theorem BinT.leaves_toN (b : BinT) : b.toN.leaves = b.leaves := by
  induction b with
  | leaf i => rfl
  | node a l r ihl ihr => simp [BinT.toN, NTree.leaves, NTree.leavesList, BinT.leaves, ihl, ihr]

theorem BinT.inner_toN (b : BinT) : b.toN.inner = b.inner := by
  induction b with
  | leaf i => rfl
  | node a l r ihl ihr =>
    simp [BinT.toN, NTree.inner, NTree.innerList, NTree.leavesList, BinT.inner, ihl, ihr,
      BinT.leaves_toN]

theorem BinT.isBinary_toN (b : BinT) : b.toN.isBinary = true := by
  induction b with
  | leaf i => rfl
  | node a l r ihl ihr => simp [BinT.toN, NTree.isBinary, NTree.isBinaryList, ihl, ihr]

end SR.Bin
