/-
  C12 ∘ C08, part 5: a canonical code of a name tree, so that the composition theorem
  can be stated for EVERY name tree with no hypothesis about codes.

  `encode t` numbers the nodes of `t` in pre-order: a leaf becomes `leaf k`, an internal
  node `node (some k) …`, `k` the pre-order index; `decOf t` reads the index back in the
  table `lab t` of (name, colour) in pre-order.  `decN_encode`: decoding gives `t` back.
  `wf_encode`: if every node of `t` has no child or at least two, the code is in the
  domain of `binarize` (C08's `NTree.WF`).

  `refine_cli`: the composition with this code and with the Newick codec of the model.
-/
import SRVerif.Proofs.CliRefineNewick

namespace SR.Cli

open SR.Ser SR.Bin

mutual
  /-- (name, colour) of the nodes in pre-order. -/
  def lab : NT → List (String × Option String)
    | .node n c ks => (n, c) :: labL ks
  def labL : List NT → List (String × Option String)
    | [] => []
    | k :: ks => lab k ++ labL ks
end

mutual
  theorem length_lab : ∀ t : NT, (lab t).length = t.size
    | .node n c ks => by simp [lab, NT.size, length_labL ks]; omega
  theorem length_labL : ∀ ks : List NT, (labL ks).length = NT.sizeL ks
    | [] => rfl
    | k :: ks => by simp [labL, NT.sizeL, length_lab k, length_labL ks]
end

mutual
  /-- Code of the subtree whose root has pre-order index `k`. -/
  def encAt : NT → Nat → NTree
    | .node _ _ [], k => .leaf k
    | .node _ _ (c :: cs), k => .node (some k) (encAtL (c :: cs) (k + 1))
  def encAtL : List NT → Nat → List NTree
    | [], _ => []
    | c :: cs, k => encAt c k :: encAtL cs (k + c.size)
end

/-- The canonical code of a name tree. -/
def encode (t : NT) : NTree := encAt t 0

/-- Codes are indices in a table. -/
def tblDec (tbl : List (String × Option String)) : Dec :=
  { leaf := fun i => tbl[i]?.getD ("", none), ann := fun i => tbl[i]?.getD ("", none) }

/-- The meaning of the canonical code of `t`. -/
def decOf (t : NT) : Dec := tblDec (lab t)

theorem prefix_drop_cons {α : Type} {x : α} {r tbl : List α} {k : Nat} (h : x :: r <+: tbl.drop k) :
    tbl[k]? = some x ∧ r <+: tbl.drop (k + 1) := by
  obtain ⟨s, hs⟩ := h
  constructor
  · have : (tbl.drop k)[0]? = some x := by rw [← hs]; rfl
    simpa [List.getElem?_drop] using this
  · refine ⟨s, ?_⟩
    have : (tbl.drop k).drop 1 = r ++ s := by rw [← hs]; rfl
    rw [← this, List.drop_drop]

theorem prefix_drop_append {α : Type} {a b tbl : List α} {k : Nat} (h : a ++ b <+: tbl.drop k) :
    a <+: tbl.drop k ∧ b <+: tbl.drop (k + a.length) := by
  refine ⟨(List.prefix_append a b).trans h, ?_⟩
  obtain ⟨s, hs⟩ := h
  refine ⟨s, ?_⟩
  have : (tbl.drop k).drop a.length = b ++ s := by
    rw [← hs, List.append_assoc, List.drop_left]
  rw [← this, List.drop_drop]

mutual
  theorem decN_encAt (tbl : List (String × Option String)) : ∀ (s : NT) (k : Nat),
      lab s <+: tbl.drop k → decN (tblDec tbl) (encAt s k) = s
    | .node n c [], k, h => by
      have := (prefix_drop_cons (by simpa [lab, labL] using h)).1
      simp [encAt, decN, tblDec, this]
    | .node n c (c1 :: cs), k, h => by
      rw [lab] at h
      obtain ⟨h1, h2⟩ := prefix_drop_cons h
      have := decNL_encAtL tbl (c1 :: cs) (k + 1) h2
      simp [encAt, decN, Dec.annOf, tblDec, h1] at this ⊢
      exact this
  theorem decNL_encAtL (tbl : List (String × Option String)) : ∀ (ks : List NT) (k : Nat),
      labL ks <+: tbl.drop k → decNL (tblDec tbl) (encAtL ks k) = ks
    | [], _, _ => rfl
    | c :: cs, k, h => by
      rw [labL] at h
      obtain ⟨h1, h2⟩ := prefix_drop_append h
      rw [length_lab] at h2
      simp only [encAtL, decNL, decN_encAt tbl c k h1, decNL_encAtL tbl cs (k + c.size) h2]
end

/-- Decoding the canonical code gives the tree back. -/
theorem decN_encode (t : NT) : decN (decOf t) (encode t) = t :=
  decN_encAt (lab t) t 0 (by simp)

/-! ### Domain of `binarize` -/

mutual
  /-- Every node has no child or at least two. -/
  def wf2 : NT → Bool
    | .node _ _ ks => (ks.length == 0 || decide (2 ≤ ks.length)) && wf2L ks
  def wf2L : List NT → Bool
    | [] => true
    | k :: ks => wf2 k && wf2L ks
end

theorem length_encAtL : ∀ (ks : List NT) (k : Nat), (encAtL ks k).length = ks.length
  | [], _ => rfl
  | c :: cs, k => by simp [encAtL, length_encAtL cs]

mutual
  theorem wf_encAt : ∀ (s : NT) (k : Nat), wf2 s = true → (encAt s k).WF = true
    | .node n c [], k, _ => rfl
    | .node n c (c1 :: cs), k, h => by
      simp only [wf2, Bool.and_eq_true, Bool.or_eq_true, decide_eq_true_eq] at h
      simp only [encAt, NTree.WF, Bool.and_eq_true, decide_eq_true_eq, length_encAtL]
      refine ⟨?_, wfL_encAtL (c1 :: cs) (k + 1) h.2⟩
      rcases h.1 with h1 | h1
      · simp at h1
      · exact h1
  theorem wfL_encAtL : ∀ (ks : List NT) (k : Nat), wf2L ks = true →
      NTree.WFList (encAtL ks k) = true
    | [], _, _ => rfl
    | c :: cs, k, h => by
      simp only [wf2L, Bool.and_eq_true] at h
      simp only [encAtL, NTree.WFList, Bool.and_eq_true]
      exact ⟨wf_encAt c k h.1, wfL_encAtL cs _ h.2⟩
end

theorem wf_encode (t : NT) (h : wf2 t = true) : (encode t).WF = true := wf_encAt t 0 h

mutual
  theorem Relab.wf2_eq {R : String → String → Prop} : ∀ (t t' : NT), Relab R t t' →
      wf2 t' = wf2 t
    | .node n c ks, .node n' c' ks', h => by
      simp only [Relab] at h
      simp only [wf2]
      rw [RelabL.wf2_eq ks ks' h.2.2, RelabL.length_eq ks ks' h.2.2]
  theorem RelabL.wf2_eq {R : String → String → Prop} : ∀ (ks ks' : List NT), RelabL R ks ks' →
      wf2L ks' = wf2L ks
    | [], [], _ => rfl
    | [], _ :: _, h => by simp [RelabL] at h
    | _ :: _, [], h => by simp [RelabL] at h
    | k :: ks, k' :: ks', h => by
      simp only [RelabL] at h
      simp only [wf2L]
      rw [Relab.wf2_eq k k' h.1, RelabL.wf2_eq ks ks' h.2]
end

/-! ### Safety of the canonical code -/

mutual
  theorem okPair_lab : ∀ t : NT, Newick.safeTree t = true → ∀ x ∈ lab t, okPair x = true
    | .node n c ks, h, x, hx => by
      simp only [Newick.safeTree, Bool.and_eq_true] at h
      rw [lab, List.mem_cons] at hx
      rcases hx with rfl | hx
      · simp only [okPair, Bool.and_eq_true, Bool.or_eq_true]
        exact ⟨Or.inr h.1.1, h.1.2⟩
      · exact okPair_labL ks h.2 x hx
  theorem okPair_labL : ∀ ks : List NT, Newick.safeTrees ks = true → ∀ x ∈ labL ks, okPair x = true
    | [], _, x, hx => by simp [labL] at hx
    | k :: ks, h, x, hx => by
      simp only [Newick.safeTrees, Bool.and_eq_true] at h
      rw [labL, List.mem_append] at hx
      rcases hx with hx | hx
      · exact okPair_lab k h.1 x hx
      · exact okPair_labL ks h.2 x hx
end

theorem safe_tblDec {tbl : List (String × Option String)} (h : ∀ x ∈ tbl, okPair x = true) :
    (tblDec tbl).Safe := by
  have key : ∀ i : Nat, okPair (tbl[i]?.getD ("", none)) = true := by
    intro i
    cases hi : tbl[i]? with
    | none => rfl
    | some x => exact h x (List.mem_of_getElem? hi)
  exact fun i => ⟨key i, key i⟩

theorem safe_decOf {t : NT} (h : Newick.safeTree t = true) : (decOf t).Safe :=
  safe_tblDec (okPair_lab t h)

/-! ### The composition as the command-line tool runs it -/

/-- `reconcile` on a multifurcating tree `t` (every node has no child or at least two;
    names are Newick-safe or empty; leaves named; given names pairwise distinct), prefix a
    word: for every refinement `b` that `binarize` lists for the labelled tree, re-parsing
    what is written for `b` succeeds, and labelling the result gives a `Refined` tree. -/
theorem refine_cli (pfx : String) (hpfx : pfx.toList.all NT.safeChar = true) (t : NT)
    (hwf : wf2 t = true) (hsafe : safeTreeE t = true)
    (hleaf : ∀ x ∈ lvs t, isUnnamed x = false) (hg : (given t).Nodup)
    (b : BinT) (hb : b ∈ binarize (encode (labelTree pfx t))) :
    ∃ r, Newick.readNT (Newick.write (decB (decOf (labelTree pfx t)) b)) = .ok r ∧
      Refined pfx t (labelTree pfx t) (labelTree pfx r) := by
  have hs1 : Newick.safeTree (labelTree pfx t) = true := safeTree_labelTree hpfx t hsafe
  have hwf1 : wf2 (labelTree pfx t) = true := by
    rw [Relab.wf2_eq _ _ (labelTree_relab pfx t)]; exact hwf
  refine ⟨fixEmpty (decB (decOf (labelTree pfx t)) b),
    reparse _ (safeTreeE_decB (safe_decOf hs1) b), ?_⟩
  exact refine_compose pfx t hleaf hg (decOf (labelTree pfx t)) (encode (labelTree pfx t))
    (wf_encode _ hwf1) (decN_encode _) b hb _ (relab_fixEmpty _)

end SR.Cli
