/-
  C12 ∘ C08, part 3: the composition
  `label_internal` → `binarize` → (re-parse) → `label_internal`
  on coded trees, for any code (`Dec`) of the labelled input tree.

  `Same`: what re-parsing through Newick may do to a name — a given name is kept, an
  unnamed node stays unnamed (ete3 writes the empty name of a new node as `NoName`;
  both are "unnamed" for `label_internal`).  The identity is a `Relab Same`.

  `refine_compose` proves `Refined pfx t t₁ b₁` (the clauses are the fields).
-/
import SRVerif.Proofs.CliRefineBridge
import SRVerif.Properties.C12

namespace SR.Cli

open SR.Ser SR.Bin

/-- Re-parsing keeps given names and keeps unnamed nodes unnamed. -/
def Same (n n' : String) : Prop :=
  (isUnnamed n = false → n' = n) ∧ (isUnnamed n = true → isUnnamed n' = true)

theorem Same.refl (n : String) : Same n n := ⟨fun _ => rfl, fun h => h⟩

theorem same_keeps : ∀ n n', Same n n' → isUnnamed n = false → n' = n := fun _ _ h => h.1

theorem givenOf_of_same {l l' : List String} (h : Aligned Same l l') : givenOf l' = givenOf l := by
  induction h with
  | nil => rfl
  | @cons a b l₁ l₂ hr _ ih =>
    by_cases hu : isUnnamed a = true
    · have hb := hr.2 hu
      simp only [givenOf, List.filter_cons, hu, hb, Bool.not_true] at ih ⊢
      exact ih
    · have hu' : isUnnamed a = false := by simpa using hu
      have hb := hr.1 hu'
      subst hb
      simp only [givenOf, List.filter_cons, hu', Bool.not_false] at ih ⊢
      rw [ih]

theorem Aligned.map_eq {α β γ : Type} {f : α → γ} {g : β → γ} {l : List α} {l' : List β}
    (h : Aligned (fun x y => g y = f x) l l') : l'.map g = l.map f := by
  induction h with
  | nil => rfl
  | cons hr _ ih => simp [hr, ih]

theorem givenOf_eq_self {l : List String} (h : ∀ x ∈ l, isUnnamed x = false) : givenOf l = l := by
  unfold givenOf
  rw [List.filter_eq_self]
  intro x hx
  simp [h x hx]

theorem mem_givenOf {l : List String} {x : String} :
    x ∈ givenOf l ↔ x ∈ l ∧ isUnnamed x = false := by
  simp [givenOf, List.mem_filter]

theorem mem_names_of_mem_cn {t : NT} {x : List String × String} (h : x ∈ cn t) : x.2 ∈ t.names := by
  rw [names_eq_cn]; exact List.mem_map_of_mem h

/-- The statement of the composition.  `t` the input tree, `t₁` after the first
    `label_internal`, `b₁` a refinement after the second `label_internal`; nodes are
    (clade = leaf names below, name), `cn`, in pre-order. -/
structure Refined (pfx : String) (t t₁ b₁ : NT) : Prop where
  /-- (1) all names of the output tree are pairwise distinct … -/
  nodup : b₁.names.Nodup
  /-- … and none is empty or `NoName`. -/
  named : ∀ x ∈ b₁.names, isUnnamed x = false
  /-- (2) every node of the labelled input is found with the same clade and the same name … -/
  kept : ∀ x ∈ cn t₁, ∃ y ∈ cn b₁, y.1.Perm x.1 ∧ y.2 = x.2
  /-- … where the labelled input has the clades of the input, in the same pre-order
      positions, and the names `label_internal` computes from the input's names … -/
  first_clades : (cn t₁).map (·.1) = (cn t).map (·.1)
  first_names : t₁.names = labelNames pfx t.names
  /-- … in particular every node the user named keeps its name on the node with its clade. -/
  user : ∀ x ∈ cn t, isUnnamed x.2 = false → ∃ y ∈ cn b₁, y.1.Perm x.1 ∧ y.2 = x.2
  /-- (3) every node whose clade is not a clade of the input is called `pfx ++ k`, a name
      the labelled input does not use. -/
  fresh : ∀ y ∈ cn b₁, (∀ x ∈ cn t₁, ¬ y.1.Perm x.1) →
    ∃ k, y.2 = mkName pfx k ∧ mkName pfx k ∉ t₁.names
  /-- (4) the output tree is binary with the leaves of the input. -/
  binary : isBin b₁ = true
  leaves : (lvs b₁).Perm (lvs t)

theorem refine_compose (pfx : String) (t : NT) (hleaf : ∀ x ∈ lvs t, isUnnamed x = false) (hg : (given t).Nodup)
    (d : Dec) (tN : NTree) (hwfN : tN.WF = true) (henc : decN d tN = labelTree pfx t)
    (b : BinT) (hb : b ∈ binarize tN) (r : NT) (hr : Relab Same (decB d b) r) :
    Refined pfx t (labelTree pfx t) (labelTree pfx r) := by
  -- first round
  have hrel1 := labelTree_relab pfx t
  have hk1 := labRel_keeps pfx t.names
  have hnames1 : (labelTree pfx t).names = labelNames pfx t.names := names_labelTree pfx t
  obtain ⟨hnd1, _, _⟩ := SR.C12.C12_label_distinct pfx t.names hg
  have hnamed1 : ∀ x ∈ (labelTree pfx t).names, isUnnamed x = false := by
    rw [hnames1]; exact labelNames_named pfx t.names
  have hnd1 : (labelTree pfx t).names.Nodup := by rw [hnames1]; exact hnd1
  have hlvs1 : lvs (labelTree pfx t) = lvs t := Relab.lvs_eq hk1 _ _ hrel1 hleaf
  have hcn1 := Relab.cn_aligned hk1 _ _ hrel1 hleaf
  have hgiven1 : given (labelTree pfx t) = (labelTree pfx t).names := givenOf_eq_self hnamed1
  -- the refinement
  have hgivenB : (given (decB d b)).Perm (labelTree pfx t).names := by
    rw [← hgiven1, ← henc]; exact binarize_given d tN hwfN b hb
  have hlvsB : (lvs (decB d b)).Perm (lvs t) := by
    rw [← hlvs1, ← henc]; exact binarize_lvs d hwfN hb
  have hleafB : ∀ x ∈ lvs (decB d b), isUnnamed x = false :=
    fun x hx => hleaf x (hlvsB.mem_iff.mp hx)
  -- re-parse
  have hlvsR : lvs r = lvs (decB d b) := Relab.lvs_eq same_keeps _ _ hr hleafB
  have hcnR := Relab.cn_aligned same_keeps _ _ hr hleafB
  have hgivenR : given r = given (decB d b) :=
    givenOf_of_same (Relab.names_aligned same_keeps hr hleafB)
  have hleafR : ∀ x ∈ lvs r, isUnnamed x = false := by rw [hlvsR]; exact hleafB
  -- second round
  have hrel2 := labelTree_relab pfx r
  have hk2 := labRel_keeps pfx r.names
  have hnames2 : (labelTree pfx r).names = labelNames pfx r.names := names_labelTree pfx r
  have hgR : (given r).Nodup := by
    rw [hgivenR]; exact hgivenB.nodup_iff.mpr hnd1
  obtain ⟨hnd2, _, _⟩ := SR.C12.C12_label_distinct pfx r.names hgR
  have hcn2 := Relab.cn_aligned hk2 _ _ hrel2 hleafR
  have hkept : ∀ x ∈ cn (labelTree pfx t), ∃ y ∈ cn (labelTree pfx r), y.1.Perm x.1 ∧ y.2 = x.2 := by
    intro x hx
    have hxn := hnamed1 _ (mem_names_of_mem_cn hx)
    obtain ⟨y, hy, hp1, he1⟩ := binarize_keeps_cn d hwfN hb (henc ▸ hx)
    obtain ⟨z, hz, hz1, hz2⟩ := hcnR.exists_right hy
    have hzy : z.2 = y.2 := hz2.1 (he1 ▸ hxn)
    obtain ⟨w, hw, hw1, hw2⟩ := hcn2.exists_right hz
    have hwz : w.2 = z.2 := hw2.1 (by rw [hzy, he1]; exact hxn)
    exact ⟨w, hw, by rw [hw1, hz1]; exact hp1, by rw [hwz, hzy, he1]⟩
  refine
    { nodup := by rw [hnames2]; exact hnd2
      named := by rw [hnames2]; exact labelNames_named pfx r.names
      kept := hkept
      first_clades := Aligned.map_eq (hcn1.imp fun _ _ h => h.1)
      first_names := hnames1
      user := ?_
      fresh := ?_
      binary := by
        rw [Relab.isBin_eq _ _ hrel2, Relab.isBin_eq _ _ hr]; exact isBin_decB d b
      leaves := by
        rw [Relab.lvs_eq hk2 _ _ hrel2 hleafR, hlvsR]; exact hlvsB }
  · intro x hx hxn
    obtain ⟨y, hy, hy1, hy2⟩ := hcn1.exists_right hx
    have : y = x := Prod.ext hy1 (hy2.1 hxn)
    subst this
    exact hkept y hy
  · intro w hw hno
    obtain ⟨z, hz, hz1, hz2⟩ := hcn2.exists_left hw
    obtain ⟨y, hy, hy1, hy2⟩ := hcnR.exists_left hz
    have hyu : isUnnamed y.2 = true := by
      cases hyn : isUnnamed y.2 with
      | true => rfl
      | false =>
        obtain ⟨x, hx, hpx, _⟩ := binarize_named_from d hwfN hb hy hyn
        exact absurd (by rw [hz1, hy1]; exact hpx) (hno x (henc ▸ hx))
    obtain ⟨k, hk, hfree⟩ := hz2.2 (hy2.2 hyu)
    refine ⟨k, hk, fun hmem => ?_⟩
    have h1 : mkName pfx k ∈ given r := by
      rw [hgivenR]; exact hgivenB.mem_iff.mpr hmem
    obtain ⟨h2, h3⟩ := mem_givenOf.mp h1
    exact hfree _ h2 h3 rfl

end SR.Cli
