/-
  Path and species-tree facts needed by the label-DP proofs: how the
  evaluator's event at `(s, x, y)` is determined by the prefix relations between
  `s`, `x`, `y`, and what "node of a binary species tree" gives.
-/
import SRVerif.Proofs.Paths
import SRVerif.Model.Rec

namespace SR

namespace Path

theorem isAnc_iff_append {s x : Path} : isAnc s x = true ↔ ∃ t, x = s ++ t := by
  rw [isAnc_iff_prefix]
  constructor
  · rintro ⟨t, rfl⟩; exact ⟨t, rfl⟩
  · rintro ⟨t, rfl⟩; exact ⟨t, rfl⟩

theorem isAnc_append (s t : Path) : isAnc s (s ++ t) = true :=
  isAnc_iff_append.mpr ⟨t, rfl⟩

theorem isAnc_append_append (s a b : Path) : isAnc (s ++ a) (s ++ b) = isAnc a b := by
  induction s with
  | nil => rfl
  | cons i s ih => simp [isAnc, ih]

theorem lcp_append_append (s a b : Path) : lcp (s ++ a) (s ++ b) = s ++ lcp a b := by
  induction s with
  | nil => rfl
  | cons i s ih => simp [lcp, ih]

theorem dist_append (s t : Path) : dist s (s ++ t) = t.length := by
  rw [dist_of_isAnc (isAnc_append s t)]; simp

theorem isAnc_false_iff {s x : Path} : isAnc s x = false ↔ ¬ isAnc s x = true := by simp

theorem isStrictAnc_self_append (s t : Path) : isStrictAnc (s ++ t) s = false := by
  cases h : isStrictAnc (s ++ t) s
  · rfl
  · rw [isStrictAnc_iff] at h
    exact absurd (isAnc_antisymm h.1 (isAnc_append s t)) h.2

theorem isAnc_cons_cons (i j : Nat) (a b : Path) : isAnc (i :: a) (j :: b) = (i == j && isAnc a b) := rfl

end Path

open Path

/-- Both children at or below `s`: the event is a speciation exactly when they sit
    below two different children of `s`, a duplication otherwise. -/
theorem internalEvent_below (s a b : Path) :
    internalEvent s (s ++ a) (s ++ b) =
      match a, b with
      | i :: _, j :: _ => if i = j then .dup else .spec
      | _, _ => .dup := by
  unfold internalEvent
  simp only [isStrictAnc_self_append, isAnc_append, Bool.or_self, Bool.false_eq_true, if_false,
    Bool.and_self, if_true, lcp_append_append, comparable, isAnc_append_append]
  cases a with
  | nil => simp [lcp, isAnc]
  | cons i a =>
    cases b with
    | nil => simp [lcp, isAnc]
    | cons j b =>
      by_cases h : i = j
      · subst h; simp [lcp]
      · have h' : ¬ j = i := fun e => h e.symm
        simp [lcp, isAnc, h, h']

theorem internalEvent_spec_of_children {s x y : Path} {i j : Nat}
    (hx : isAnc (s ++ [i]) x = true) (hy : isAnc (s ++ [j]) y = true) (hij : i ≠ j) :
    internalEvent s x y = .spec := by
  obtain ⟨a, rfl⟩ := isAnc_iff_append.mp hx
  obtain ⟨b, rfl⟩ := isAnc_iff_append.mp hy
  simp only [List.append_assoc, List.singleton_append]
  rw [internalEvent_below]; simp [hij]

/-- One child at or below `s`, the other incomparable with `s`: a transfer. -/
theorem internalEvent_hgt_left {s x y : Path} (hx : isAnc s x = true) (hy : isAnc s y = false)
    (hy' : isAnc y s = false) : internalEvent s x y = .hgt := by
  obtain ⟨a, rfl⟩ := isAnc_iff_append.mp hx
  have h1 := isStrictAnc_self_append s a
  have h2 : isStrictAnc y s = false := by simp [isStrictAnc, hy']
  unfold internalEvent
  simp [h1, h2, isAnc_append, hy]

theorem internalEvent_hgt_right {s x y : Path} (hx : isAnc s x = false) (hx' : isAnc x s = false)
    (hy : isAnc s y = true) : internalEvent s x y = .hgt := by
  obtain ⟨b, rfl⟩ := isAnc_iff_append.mp hy
  have h1 := isStrictAnc_self_append s b
  have h2 : isStrictAnc x s = false := by simp [isStrictAnc, hx']
  unfold internalEvent
  simp [h1, h2, isAnc_append, hx]

/-- Classification of the placements with a valid event. -/
inductive Placement (s x y : Path) : Prop where
  | below (a b : Path) (hx : x = s ++ a) (hy : y = s ++ b)
  | hgtLeft (hx : isAnc s x = true) (hy : isAnc s y = false) (hy' : isAnc y s = false)
  | hgtRight (hx : isAnc s x = false) (hx' : isAnc x s = false) (hy : isAnc s y = true)

theorem placement_of_valid {s x y : Path} (h : internalEvent s x y ≠ .invalid) : Placement s x y := by
  unfold internalEvent at h
  by_cases h1 : (isStrictAnc x s || isStrictAnc y s) = true
  · simp [h1] at h
  · rw [if_neg h1] at h
    simp only [Bool.or_eq_true, not_or, Bool.not_eq_true] at h1
    cases hx : isAnc s x <;> cases hy : isAnc s y
    · simp [hx, hy] at h
    · refine .hgtRight hx ?_ hy
      cases hx' : isAnc x s
      · rfl
      · have : x ≠ s := by
          rintro rfl; rw [isAnc_refl] at hx; cases hx
        have : isStrictAnc x s = true := (isStrictAnc_iff _ _).mpr ⟨hx', this⟩
        rw [this] at h1; cases h1.1
    · refine .hgtLeft hx hy ?_
      cases hy' : isAnc y s
      · rfl
      · have : y ≠ s := by
          rintro rfl; rw [isAnc_refl] at hy; cases hy
        have : isStrictAnc y s = true := (isStrictAnc_iff _ _).mpr ⟨hy', this⟩
        rw [this] at h1; cases h1.2
    · obtain ⟨a, rfl⟩ := isAnc_iff_append.mp hx
      obtain ⟨b, rfl⟩ := isAnc_iff_append.mp hy
      exact .below a b rfl rfl

namespace RTree

theorem sub_append (t : RTree) (p q : Path) : t.sub (p ++ q) = (t.sub p).bind (fun u => u.sub q) := by
  induction p generalizing t with
  | nil => simp [sub]
  | cons i p ih =>
    cases t with
    | node cs =>
      simp only [List.cons_append, sub]
      cases cs[i]? with
      | none => simp
      | some c => simpa using ih c

theorem isBinary_children {cs : List RTree} (h : (node cs).isBinary = true) :
    cs = [] ∨ ∃ a b, cs = [a, b] ∧ a.isBinary = true ∧ b.isBinary = true := by
  match cs, h with
  | [], _ => exact Or.inl rfl
  | [a, b], h =>
    simp only [isBinary, Bool.and_eq_true] at h
    exact Or.inr ⟨a, b, rfl, h.1, h.2⟩
  | [_], h => simp [isBinary] at h
  | _ :: _ :: _ :: _, h => simp [isBinary] at h

theorem isBinary_sub {t u : RTree} {p : Path} (h : t.isBinary = true) (hs : t.sub p = some u) :
    u.isBinary = true := by
  induction p generalizing t with
  | nil => simp [sub] at hs; subst hs; exact h
  | cons i p ih =>
    cases t with
    | node cs =>
      simp only [sub] at hs
      rcases isBinary_children h with rfl | ⟨a, b, rfl, ha, hb⟩
      · simp at hs
      · match i, hs with
        | 0, hs => exact ih ha (by simpa using hs)
        | 1, hs => exact ih hb (by simpa using hs)
        | (n + 2), hs => simp at hs

/-- In a binary tree, a node strictly below `s` through child `i` forces
    `i < 2`, and `s` is an internal node. -/
theorem child_of_isNode {S : RTree} {s : Path} {i : Nat} {rest : Path} (hb : S.isBinary = true)
    (hn : S.isNode (s ++ i :: rest) = true) :
    (i = 0 ∨ i = 1) ∧ ∃ t, S.sub s = some t ∧ t.isLeaf = false := by
  simp only [isNode, sub_append] at hn
  cases hs : S.sub s with
  | none => simp [hs] at hn
  | some u =>
    have hu := isBinary_sub hb hs
    cases u with
    | node cs =>
      simp only [hs, Option.bind_some, sub] at hn
      rcases isBinary_children hu with rfl | ⟨a, b, rfl, _, _⟩
      · simp at hn
      · refine ⟨?_, _, rfl, by simp [isLeaf, children]⟩
        match i, hn with
        | 0, _ => exact Or.inl rfl
        | 1, _ => exact Or.inr rfl
        | (n + 2), hn => simp at hn

theorem isNode_of_anc {S : RTree} {p q : Path} (h : isAnc p q = true) (hq : S.isNode q = true) :
    S.isNode p = true := by
  obtain ⟨t, rfl⟩ := isAnc_iff_append.mp h
  simp only [isNode, sub_append] at hq ⊢
  cases hs : S.sub p with
  | none => simp [hs] at hq
  | some u => rfl

mutual
  theorem isNode_of_mem_preorder : ∀ (t : RTree) (p : Path), p ∈ t.preorder → t.isNode p = true
    | node cs, p, h => by
      simp only [preorder, List.mem_cons] at h
      rcases h with rfl | h
      · rfl
      · obtain ⟨i, q, c, rfl, hc, hq⟩ := isNode_of_mem_preorderList cs 0 p h
        simp only [Nat.zero_add] at *
        simp only [isNode, sub, hc]
        exact hq
  theorem isNode_of_mem_preorderList : ∀ (cs : List RTree) (k : Nat) (p : Path),
      p ∈ preorderList cs k → ∃ i q c, p = (k + i) :: q ∧ cs[i]? = some c ∧ c.isNode q = true
    | [], _, p, h => by simp [preorderList] at h
    | c :: cs, k, p, h => by
      simp only [preorderList, List.mem_append, List.mem_map] at h
      rcases h with ⟨q, hq, rfl⟩ | h
      · exact ⟨0, q, c, rfl, rfl, isNode_of_mem_preorder c q hq⟩
      · obtain ⟨i, q, c', rfl, hc, hq⟩ := isNode_of_mem_preorderList cs (k + 1) p h
        exact ⟨i + 1, q, c', by simp; omega, by simpa using hc, hq⟩
end

end RTree

end SR
