/-
  AllTrees is complete: every binary tree on the leaf set displaying all the
  triples is (up to child order) a member of `all_trees_from_triples`.
-/
import SRVerif.Proofs.TriplesComplete

namespace SR.Tri

open SR SR.DS LTree Spec

/-- A triple displayed by `node [t1, t2]` whose leaves all lie in one child is
    displayed by that child; and its first two leaves are on the same side. -/
theorem displays_child {t1 t2 : LTree} (hdis : ∀ x, x ∈ t1.leaves → x ∉ t2.leaves) {tr : Triple}
    (hd : displays (.node [t1, t2]) tr = true) :
    ((tr.1 ∈ t1.leaves ∧ tr.2.1 ∈ t1.leaves) ∨ (tr.1 ∈ t2.leaves ∧ tr.2.1 ∈ t2.leaves)) ∧
    (tr.1 ∈ t1.leaves → tr.2.2 ∈ t1.leaves → displays t1 tr = true) ∧
    (tr.1 ∈ t2.leaves → tr.2.2 ∈ t2.leaves → displays t2 tr = true) := by
  obtain ⟨_, _, h3, C, hC, ha, hb, hc⟩ := (displays_iff _ tr).mp hd
  rcases (mem_clades_node2 t1 t2 C).mp hC with rfl | hC1 | hC2
  · exact absurd (by simpa [leaves, leavesL] using h3) hc
  · have a1 := clade_sub_leaves t1 C hC1 _ ha
    have b1 := clade_sub_leaves t1 C hC1 _ hb
    refine ⟨Or.inl ⟨a1, b1⟩, fun _ c1 => ?_, fun a2 _ => absurd a2 (hdis _ a1)⟩
    exact (displays_iff t1 tr).mpr ⟨a1, b1, c1, C, hC1, ha, hb, hc⟩
  · have a2 := clade_sub_leaves t2 C hC2 _ ha
    have b2 := clade_sub_leaves t2 C hC2 _ hb
    refine ⟨Or.inr ⟨a2, b2⟩, fun a1 _ => absurd a2 (hdis _ a1), fun _ c2 => ?_⟩
    exact (displays_iff t2 tr).mpr ⟨a2, b2, c2, C, hC2, ha, hb, hc⟩

open Classical in
theorem allTrees_complete : ∀ (fuel : Nat) (T : LTree) (l : List Nat) (trs : List Triple),
    T.isBinary = true → T.leaves.Nodup → l.Nodup → (∀ x, x ∈ l ↔ x ∈ T.leaves) →
    (∀ tr, tr ∈ trs → inside l tr = true ∧ displays T tr = true) → T.leaves.length ≤ fuel →
    ∃ u, u ∈ allTrees fuel l trs ∧ sameClades T u = true ∧ ∀ x, x ∈ u.leaves ↔ x ∈ T.leaves := by
  intro fuel
  induction fuel with
  | zero =>
    intro T l trs hb _ _ _ _ hlen
    exact absurd (List.eq_nil_of_length_eq_zero (Nat.le_zero.mp hlen)) (binary_leaves_ne T hb)
  | succ fuel ih =>
    intro T l trs hb hTn hl hmem htrs hlen
    have hperm : l.Perm T.leaves := (List.perm_ext_iff_of_nodup hl hTn).mpr hmem
    have hll : l.length = T.leaves.length := hperm.length_eq
    match T, hb with
    | .leaf a, _ =>
      have : l = [a] := by simpa [leaves] using hperm
      subst this
      exact ⟨.leaf a, by simp [allTrees], sameClades_leaf a, fun x => Iff.rfl⟩
    | .node [], hb => simp [isBinary] at hb
    | .node [_], hb => simp [isBinary] at hb
    | .node (_ :: _ :: _ :: _), hb => simp [isBinary] at hb
    | .node [t1, t2], hb =>
      simp only [isBinary, Bool.and_eq_true] at hb
      obtain ⟨hb1, hb2⟩ := hb
      have hTl : (LTree.node [t1, t2]).leaves = t1.leaves ++ t2.leaves := by simp [leaves, leavesL]
      rw [hTl] at hTn hlen hll
      obtain ⟨hn1, hn2, hd⟩ := List.nodup_append.mp hTn
      have hdis : ∀ x, x ∈ t1.leaves → x ∉ t2.leaves := fun x h1 h2 => hd x h1 x h2 rfl
      have hmem' : ∀ x, x ∈ l ↔ x ∈ t1.leaves ∨ x ∈ t2.leaves := fun x => by
        rw [hmem, leaves_node2]
      have hne1 := binary_leaves_ne t1 hb1
      have hne2 := binary_leaves_ne t2 hb2
      have hlen1 : 1 ≤ t1.leaves.length := by
        cases h : t1.leaves with
        | nil => exact absurd h hne1
        | cons _ _ => simp
      have hlen2 : 1 ≤ t2.leaves.length := by
        cases h : t2.leaves with
        | nil => exact absurd h hne2
        | cons _ _ => simp
      rw [List.length_append] at hlen hll
      match l, hl, hmem', hll, htrs with
      | [], _, _, hll, _ => simp at hll; omega
      | [_], _, _, hll, _ => simp at hll; omega
      | [x, y], hl, hmem', hll, _ =>
        simp only [List.length_cons, List.length_nil] at hll
        obtain ⟨a, rfl⟩ := binary_single t1 hb1 (by omega)
        obtain ⟨b, rfl⟩ := binary_single t2 hb2 (by omega)
        refine ⟨.node [.leaf x, .leaf y], by simp [allTrees], ?_⟩
        have hres := assemble (T1 := .leaf a) (T2 := .leaf b) (us := [.leaf x, .leaf y]) ?_ ?_
        · exact ⟨hres.1, hres.2⟩
        · intro u hu
          simp only [List.mem_cons, List.not_mem_nil, or_false] at hu
          have hxy : ∀ z, z ∈ [x, y] → ∃ Ti : LTree, (Ti = .leaf a ∨ Ti = .leaf b) ∧
              sameClades Ti (.leaf z) = true ∧ ∀ w, w ∈ (LTree.leaf z).leaves ↔ w ∈ Ti.leaves := by
            intro z hz
            have := (hmem' z).mp hz
            simp only [leaves, List.mem_singleton] at this
            rcases this with rfl | rfl
            · exact ⟨_, Or.inl rfl, sameClades_leaf _, fun w => Iff.rfl⟩
            · exact ⟨_, Or.inr rfl, sameClades_leaf _, fun w => Iff.rfl⟩
          rcases hu with rfl | rfl
          · exact hxy x (by simp)
          · exact hxy y (by simp)
        · intro Ti hTi
          have hab : ∀ z, (z = a ∨ z = b) → ∃ u, u ∈ [LTree.leaf x, LTree.leaf y] ∧
              sameClades (.leaf z) u = true ∧ ∀ w, w ∈ u.leaves ↔ w ∈ (LTree.leaf z).leaves := by
            intro z hz
            have : z ∈ [x, y] := (hmem' z).mpr (by simpa [leaves] using hz)
            simp only [List.mem_cons, List.not_mem_nil, or_false] at this
            rcases this with rfl | rfl
            · exact ⟨_, by simp, sameClades_leaf _, fun w => Iff.rfl⟩
            · exact ⟨_, by simp, sameClades_leaf _, fun w => Iff.rfl⟩
          rcases hTi with rfl | rfl
          · exact hab a (Or.inl rfl)
          · exact hab b (Or.inr rfl)
      | x :: y :: z :: rest, hl, hmem', hll, htrs =>
        generalize hl' : x :: y :: z :: rest = l at *
        have hk : Known l trs := fun tr htr =>
          let h := (inside_iff l tr).mp (htrs tr htr).1; ⟨h.1, h.2.1⟩
        have hI := partitionOf_inv hk
        have hn := hI.size
        have hsides : ∀ tr, tr ∈ trs → (tr.1 ∈ t1.leaves ∧ tr.2.1 ∈ t1.leaves) ∨
            (tr.1 ∈ t2.leaves ∧ tr.2.1 ∈ t2.leaves) :=
          fun tr htr => (displays_child hdis (htrs tr htr).2).1
        -- the root bipartition of `T` as a relation on indices
        let σ : Nat → Bool := fun i => decide (l.getD i 0 ∈ t1.leaves)
        have hker : ∀ i j, Conn (trs.map (fun t => (l.idxOf t.1, l.idxOf t.2.1))) i j → σ i = σ j := by
          intro i j h
          induction h with
          | base hm =>
            obtain ⟨tr, htr, heq⟩ := List.mem_map.mp hm
            simp only [Prod.mk.injEq] at heq
            obtain ⟨rfl, rfl⟩ := heq
            simp only [σ, getD_idxOf (hk tr htr).1, getD_idxOf (hk tr htr).2]
            rcases hsides tr htr with ⟨a, b⟩ | ⟨a, b⟩
            · simp [a, b]
            · have na : tr.1 ∉ t1.leaves := fun h => hdis _ h a
              have nb : tr.2.1 ∉ t1.leaves := fun h => hdis _ h b
              simp [na, nb]
          | refl a => rfl
          | symm _ ih => exact ih.symm
          | trans _ _ ih1 ih2 => exact ih1.trans ih2
        obtain ⟨x1, hx1⟩ := List.exists_mem_of_ne_nil _ hne1
        obtain ⟨x2, hx2⟩ := List.exists_mem_of_ne_nil _ hne2
        have hx1l : x1 ∈ l := (hmem' _).mpr (Or.inl hx1)
        have hx2l : x2 ∈ l := (hmem' _).mpr (Or.inr hx2)
        have hi1 : l.idxOf x1 < l.length := List.idxOf_lt_length_iff.mpr hx1l
        have hi2 : l.idxOf x2 < l.length := List.idxOf_lt_length_iff.mpr hx2l
        have hx2n : x2 ∉ t1.leaves := fun h => hdis _ h hx2
        obtain ⟨bp, hbp, hbpR⟩ := (binary_main hI).2.2.1 (fun i j => σ i = σ j)
          (fun _ _ => rfl) (fun _ _ _ _ h => h.symm) (fun _ _ _ _ _ _ h1 h2 => h1.trans h2)
          (fun i j _ _ h => hker i j ((hI.same i j).mp h))
          ⟨l.idxOf x1, l.idxOf x2, hi1, hi2,
            by
              simp only [σ, getD_idxOf hx1l, getD_idxOf hx2l]
              exact fun hh => hx2n ((decide_eq_decide.mp hh).mp hx1),
            fun i _ => by
              simp only [σ, getD_idxOf hx1l, getD_idxOf hx2l]
              by_cases h : l.getD i 0 ∈ t1.leaves
              · exact Or.inl (decide_eq_decide.mpr ⟨fun _ => hx1, fun _ => h⟩)
              · exact Or.inr (decide_eq_decide.mpr ⟨fun h' => absurd h' h, fun h' => absurd h' hx2n⟩)⟩
        have hsame : ∀ i j, i < l.length → j < l.length →
            (Same bp i j ↔ (l.getD i 0 ∈ t1.leaves ↔ l.getD j 0 ∈ t1.leaves)) := by
          intro i j hi hj
          rw [hbpR i j hi hj]
          simp only [σ, decide_eq_decide]
        obtain ⟨hW, hs, _, _⟩ := (binary_main hI).1 bp hbp
        obtain ⟨g0, g1, hgs, _, hcov, _, hgn0, hgn1⟩ := level_binary hl hk hbp
        have hC := toList_isClassList hW
        rw [hgs] at hC
        -- every group is one of the two subtrees, and some member of AllTrees matches it
        have hgroup : ∀ g, g ∈ [g0, g1] → (groupLeaves l g).Nodup → ∃ Ti : LTree, (Ti = t1 ∨ Ti = t2) ∧
            (∀ w, w ∈ groupLeaves l g ↔ w ∈ Ti.leaves) ∧
            ∃ u, u ∈ allTrees fuel (groupLeaves l g) (trs.filter (inside (groupLeaves l g))) ∧
              sameClades Ti u = true ∧ ∀ w, w ∈ u.leaves ↔ w ∈ Ti.leaves := by
          intro g hg hgn
          obtain ⟨r, hr, hroot, hm⟩ := hC.isClass g hg
          have hrn : r < l.length := hs ▸ hr
          have hgl : ∀ i, i ∈ g → i < l.length := fun i hi => hs ▸ ((hm i).mp hi).1
          have hsr : ∀ i, i < l.length → (i ∈ g ↔ Same bp i r) := by
            intro i hi
            rw [hm]
            constructor
            · rintro ⟨_, h⟩; exact ⟨r, h, RootOf.root hroot⟩
            · rintro ⟨ρ, h1, h2⟩
              rw [RootOf.of_root hroot h2] at h1
              exact ⟨hs ▸ hi, h1⟩
          have hside : ∀ (P : Nat → Prop), (∀ i, i < l.length → (i ∈ g ↔ P (l.getD i 0))) →
              (∀ w, P w → w ∈ l) → ∀ w, w ∈ groupLeaves l g ↔ P w := by
            intro P hP hPl w
            rw [mem_groupLeaves]
            constructor
            · rintro ⟨i, hi, rfl⟩; exact (hP i (hgl i hi)).mp hi
            · intro hw
              have hwl := hPl w hw
              have hi := List.idxOf_lt_length_iff.mpr hwl
              exact ⟨l.idxOf w, (hP _ hi).mpr (by rw [getD_idxOf hwl]; exact hw), getD_idxOf hwl⟩
          by_cases hr1 : l.getD r 0 ∈ t1.leaves
          · have hg1 : ∀ w, w ∈ groupLeaves l g ↔ w ∈ t1.leaves := by
              apply hside (fun w => w ∈ t1.leaves)
              · intro i hi
                rw [hsr i hi, hsame i r hi hrn]
                exact ⟨fun h => h.mpr hr1, fun h => ⟨fun _ => hr1, fun _ => h⟩⟩
              · intro w hw; exact (hmem' w).mpr (Or.inl hw)
            refine ⟨t1, Or.inl rfl, hg1, ?_⟩
            apply ih t1 _ _ hb1 hn1 hgn hg1
            · intro tr htr
              obtain ⟨htr, hin⟩ := List.mem_filter.mp htr
              obtain ⟨i1, _, i3⟩ := (inside_iff _ tr).mp hin
              exact ⟨hin, (displays_child hdis (htrs tr htr).2).2.1 ((hg1 _).mp i1) ((hg1 _).mp i3)⟩
            · omega
          · have hg2 : ∀ w, w ∈ groupLeaves l g ↔ w ∈ t2.leaves := by
              apply hside (fun w => w ∈ t2.leaves)
              · intro i hi
                rw [hsr i hi, hsame i r hi hrn]
                have hi2 : l.getD i 0 ∈ t1.leaves ∨ l.getD i 0 ∈ t2.leaves := (hmem' _).mp (getD_mem hi)
                constructor
                · intro h
                  exact hi2.resolve_left (fun h' => hr1 (h.mp h'))
                · intro h
                  exact ⟨fun h' => absurd h (hdis _ h'), fun h' => absurd h' hr1⟩
              · intro w hw; exact (hmem' w).mpr (Or.inr hw)
            refine ⟨t2, Or.inr rfl, hg2, ?_⟩
            apply ih t2 _ _ hb2 hn2 hgn hg2
            · intro tr htr
              obtain ⟨htr, hin⟩ := List.mem_filter.mp htr
              obtain ⟨i1, _, i3⟩ := (inside_iff _ tr).mp hin
              exact ⟨hin, (displays_child hdis (htrs tr htr).2).2.2 ((hg2 _).mp i1) ((hg2 _).mp i3)⟩
            · omega
        obtain ⟨Ta, hTa, hga, ua, hua, hsa, hla⟩ := hgroup g0 (by simp) hgn0
        obtain ⟨Tb, hTb, hgb, ub, hub, hsb, hlb⟩ := hgroup g1 (by simp) hgn1
        refine ⟨.node [ua, ub], ?_, ?_⟩
        · rw [← hl']
          simp only [allTrees]
          rw [hl']
          refine List.mem_flatMap.mpr ⟨bp, hbp, ?_⟩
          simp only [hgs, List.getD_cons_zero, List.getD_cons_succ]
          exact mem_joinAll.mpr ⟨ua, hua, ub, hub, rfl⟩
        · have hres := assemble (T1 := t1) (T2 := t2) (us := [ua, ub]) ?_ ?_
          · exact ⟨hres.1, hres.2⟩
          · intro u hu
            simp only [List.mem_cons, List.not_mem_nil, or_false] at hu
            rcases hu with rfl | rfl
            · exact ⟨Ta, hTa, hsa, hla⟩
            · exact ⟨Tb, hTb, hsb, hlb⟩
          · intro Ti hTi
            have hneT : Ti.leaves ≠ [] := by rcases hTi with rfl | rfl <;> assumption
            obtain ⟨w, hw⟩ := List.exists_mem_of_ne_nil _ hneT
            have hwl : w ∈ l := (hmem' w).mpr (by rcases hTi with rfl | rfl; exact Or.inl hw; exact Or.inr hw)
            have hpick : ∀ (Tg : LTree), (Tg = t1 ∨ Tg = t2) → w ∈ Tg.leaves → Tg = Ti := by
              intro Tg hTg hwg
              rcases hTi with rfl | rfl <;> rcases hTg with rfl | rfl
              · rfl
              · exact absurd hwg (hdis _ hw)
              · exact absurd hw (hdis _ hwg)
              · rfl
            rcases (hcov w).mp hwl with h | h
            · have := hpick Ta hTa ((hga w).mp h)
              subst this
              exact ⟨ua, by simp, hsa, hla⟩
            · have := hpick Tb hTb ((hgb w).mp h)
              subst this
              exact ⟨ub, by simp, hsb, hlb⟩

end SR.Tri
