/-
  C12: the prefixes `get_species_mapping` tries for a leaf name (`split("_")`,
  then `"_".join(parts[:i])` for `i = 1 … len(parts) - 1`) are the prefixes of the
  name that are followed by an underscore, shortest first.
-/
import SRVerif.Model.Cli

namespace SR.Cli

open SR.Ser

/-- Specification: the prefixes of `nm` immediately followed by `'_'`, by increasing length. -/
def underscorePrefixes : List Char → List (List Char)
  | [] => []
  | c :: cs =>
    if c == '_' then [] :: (underscorePrefixes cs).map (c :: ·)
    else (underscorePrefixes cs).map (c :: ·)

theorem mem_underscorePrefixes : ∀ (nm p : List Char),
    p ∈ underscorePrefixes nm ↔ ∃ rest, nm = p ++ '_' :: rest
  | [], p => by simp [underscorePrefixes]
  | c :: cs, p => by
    have ih := mem_underscorePrefixes cs
    constructor
    · intro h
      simp only [underscorePrefixes] at h
      split at h
      · rename_i hc
        have hc' : c = '_' := by simpa using hc
        rcases List.mem_cons.1 h with rfl | h
        · exact ⟨cs, by simp [hc']⟩
        · obtain ⟨p', hp', rfl⟩ := List.mem_map.1 h
          obtain ⟨rest, hr⟩ := (ih p').1 hp'
          exact ⟨rest, by simp [hr]⟩
      · obtain ⟨p', hp', rfl⟩ := List.mem_map.1 h
        obtain ⟨rest, hr⟩ := (ih p').1 hp'
        exact ⟨rest, by simp [hr]⟩
    · rintro ⟨rest, hr⟩
      simp only [underscorePrefixes]
      cases p with
      | nil =>
        simp only [List.nil_append, List.cons.injEq] at hr
        simp [hr.1]
      | cons d p' =>
        simp only [List.cons_append, List.cons.injEq] at hr
        obtain ⟨rfl, hr'⟩ := hr
        have : p' ∈ underscorePrefixes cs := (ih p').2 ⟨rest, hr'⟩
        split
        · exact List.mem_cons_of_mem _ (List.mem_map.2 ⟨p', this, rfl⟩)
        · exact List.mem_map.2 ⟨p', this, rfl⟩

theorem underscorePrefixes_sorted : ∀ nm : List Char,
    (underscorePrefixes nm).Pairwise (fun a b => a.length < b.length)
  | [] => by simp [underscorePrefixes]
  | c :: cs => by
    have ih := underscorePrefixes_sorted cs
    have hm : ((underscorePrefixes cs).map (c :: ·)).Pairwise (fun a b => a.length < b.length) := by
      rw [List.pairwise_map]
      exact ih.imp (fun h => by simpa using h)
    simp only [underscorePrefixes]
    split
    · rw [List.pairwise_cons]
      refine ⟨fun a ha => ?_, hm⟩
      obtain ⟨p', _, rfl⟩ := List.mem_map.1 ha
      simp
    · exact hm

theorem splitU_ne_nil : ∀ cs : List Char, ∃ p ps, splitU cs = p :: ps
  | [] => ⟨[], [], rfl⟩
  | c :: cs => by
    obtain ⟨p, ps, h⟩ := splitU_ne_nil cs
    simp only [splitU, h]
    split <;> exact ⟨_, _, rfl⟩

theorem joinU_cons_cons (c : Char) (p : List Char) (r : List (List Char)) :
    joinU ((c :: p) :: r) = c :: joinU (p :: r) := by
  cases r <;> simp [joinU]

/-- The candidates before lower-casing. -/
def cands0 (nm : List Char) : List (List Char) :=
  (List.range' 1 ((splitU nm).length - 1)).map (fun i => joinU ((splitU nm).take i))

theorem cands0_eq : ∀ nm : List Char, cands0 nm = underscorePrefixes nm
  | [] => by simp [cands0, splitU, underscorePrefixes]
  | c :: cs => by
    have ih := cands0_eq cs
    obtain ⟨p, ps, hs⟩ := splitU_ne_nil cs
    unfold cands0 at ih ⊢
    simp only [hs, List.length_cons, Nat.add_sub_cancel] at ih
    simp only [splitU, hs, underscorePrefixes]
    by_cases hc : (c == '_') = true
    · simp only [hc, if_true, List.length_cons, Nat.add_sub_cancel]
      rw [List.range'_succ, List.map_cons]
      congr 1
      rw [← ih, List.map_map]
      have : List.range' (1 + 1) ps.length = (List.range' 1 ps.length).map (· + 1) := by
        have := List.map_add_range' (a := 1) (s := 1) (n := ps.length) (step := 1)
        rw [← this]
        apply List.map_congr_left
        intro x _; omega
      rw [this, List.map_map]
      apply List.map_congr_left
      intro i hi
      rw [List.mem_range'_1] at hi
      obtain ⟨j, rfl⟩ : ∃ j, i = j + 1 := ⟨i - 1, by omega⟩
      have hc' : c = '_' := by simpa using hc
      simp [List.take_succ_cons, joinU, hc']
    · simp only [hc]
      simp only [Bool.false_eq_true, if_false, List.length_cons, Nat.add_sub_cancel]
      rw [← ih, List.map_map]
      apply List.map_congr_left
      intro i hi
      rw [List.mem_range'_1] at hi
      obtain ⟨j, rfl⟩ : ∃ j, i = j + 1 := ⟨i - 1, by omega⟩
      simp [List.take_succ_cons, joinU_cons_cons]

theorem prefixCands_eq (nm : List Char) : prefixCands nm = (underscorePrefixes nm).map lowerChars := by
  rw [← cands0_eq]
  simp [prefixCands, cands0, List.map_map, Function.comp_def]

end SR.Cli
