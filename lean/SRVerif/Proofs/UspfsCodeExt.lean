/-
  Bridge between the `ExtInt`-valued `Entry`s of the code model
  (`Model/UspfsCode.lean`, `Model/Entry.lean`) and the `Cost`-valued MIN / ALL
  aggregates of the label DP (`Agg`, `Proofs/Agg.lean`).

  * `Cost.toExt` is an order- and sum-preserving embedding of `Cost` into `ExtInt`;
  * `Corr cs xs`: a list of tagged `ExtInt` candidates and a list of `Cost`
    candidates agree on their FINITE members (the code also offers candidates of
    infinite value — sub-costs of table cells that do not exist — which the label
    DP never forms);
  * `minall_of_corr`: an entry that received `cs` under MIN / ALL has the value
    `minList` of `xs` and, when that is finite, exactly the tags attaining it;
  * `corr_combine`, `cell_of_corr`: the same through `Entry.combine` /
    `Agg.comb` and through `EntryProxy.update`.
-/
import SRVerif.Model.UspfsCode
import SRVerif.Proofs.Entry
import SRVerif.Proofs.Agg

namespace SR.UspfsCode

open SR Cost

/-! ### `Cost.toExt` -/

theorem toExt_inj {a b : Cost} (h : Cost.toExt a = Cost.toExt b) : a = b := by
  cases a <;> cases b <;> simp_all [Cost.toExt] <;> omega

theorem add_def (a b : ExtInt) : a + b = ExtInt.add a b := rfl

theorem toExt_add (a b : Cost) : Cost.toExt (a + b) = Cost.toExt a + Cost.toExt b := by
  cases a <;> cases b <;> simp [Cost.toExt, add_def, ExtInt.add, Cost.add_def, Cost.add]

theorem toExt_lt (a b : Cost) : ExtInt.lt (Cost.toExt a) (Cost.toExt b) = Cost.lt a b := by
  cases a <;> cases b <;> simp [Cost.toExt, ExtInt.lt, Cost.lt]

@[simp] theorem toExt_fin (n : Nat) : Cost.toExt (.fin n) = .fin (n : Int) := rfl
@[simp] theorem toExt_inf : Cost.toExt .inf = .posInf := rfl

theorem toExt_eq_posInf {a : Cost} : Cost.toExt a = .posInf ↔ a = .inf := by
  cases a <;> simp [Cost.toExt]

theorem toExt_eq_fin {a : Cost} {n : Nat} : Cost.toExt a = .fin (n : Int) ↔ a = .fin n := by
  cases a <;> simp [Cost.toExt] <;> omega

theorem toExt_ne_negInf (a : Cost) : Cost.toExt a ≠ .negInf := by
  cases a <;> simp [Cost.toExt]

theorem toExt_isInfinite (a : Cost) : (Cost.toExt a).isInfinite = a.isInf := by
  cases a <;> rfl

@[simp] theorem ext_add_zero (v : ExtInt) : v + .fin 0 = v := by
  cases v <;> simp [add_def, ExtInt.add]

@[simp] theorem ext_zero_add (v : ExtInt) : ExtInt.fin 0 + v = v := by
  cases v <;> simp [add_def, ExtInt.add]

/-! ### Candidate lists agreeing on their finite members -/

variable {τ : Type}

/-- `cs` (tagged `ExtInt` candidates) and `xs` (`Cost` candidates) have the same finite
    members; every member of `cs` is tagged and has a non-negative or `+∞` value. -/
structure Corr (cs : List (Cand τ)) (xs : List (Cost × τ)) : Prop where
  shape : ∀ c ∈ cs, ∃ v t, c = { value := Cost.toExt v, info := some t }
  fin : ∀ (n : Nat) (t : τ),
    ({ value := .fin (n : Int), info := some t } : Cand τ) ∈ cs ↔ (Cost.fin n, t) ∈ xs

theorem Corr.nil : Corr ([] : List (Cand τ)) [] := ⟨by simp, by simp⟩

theorem Corr.append {cs1 cs2 : List (Cand τ)} {xs1 xs2 : List (Cost × τ)}
    (h1 : Corr cs1 xs1) (h2 : Corr cs2 xs2) : Corr (cs1 ++ cs2) (xs1 ++ xs2) := by
  constructor
  · intro c hc
    rcases List.mem_append.mp hc with hc | hc
    · exact h1.shape c hc
    · exact h2.shape c hc
  · intro n t
    simp only [List.mem_append, h1.fin n t, h2.fin n t]

theorem minList_eq_inf_iff {l : List Cost} : minList l = .inf ↔ ∀ x ∈ l, x = .inf := by
  constructor
  · intro h x hx
    have := minList_le hx
    rw [h] at this
    exact (inf_le x).mp this
  · intro h
    rcases minList_mem_or_inf l with h' | h'
    · exact h'
    · exact h _ h'

theorem minList_fin_mem {l : List Cost} {n : Nat} (h : minList l = .fin n) : Cost.fin n ∈ l := by
  rcases minList_mem_or_inf l with h' | h'
  · rw [h] at h'; cases h'
  · rw [h] at h'; exact h'

set_option linter.unusedSectionVars false

variable [DecidableEq τ]

/-- **MIN / ALL through the embedding**: value and (for a finite value) tags. -/
theorem minall_of_corr {cs : List (Cand τ)} {xs : List (Cost × τ)} {e : Entry τ}
    (hI : Entry.Inv .min .all cs e) (hC : Corr cs xs) :
    e.value = Cost.toExt (minList (xs.map (·.1))) ∧
    (minList (xs.map (·.1)) ≠ .inf →
      ∀ t, t ∈ e.infos ↔ (minList (xs.map (·.1)), t) ∈ xs) := by
  cases hm : minList (xs.map (·.1)) with
  | inf =>
    refine ⟨?_, fun h => absurd rfl h⟩
    have hall := minList_eq_inf_iff.mp hm
    rcases hI.attained with h | ⟨c, hc, hv⟩
    · simpa [Entry.sentinel] using h
    · obtain ⟨v, t, rfl⟩ := hC.shape c hc
      rw [← hv]
      cases v with
      | inf => rfl
      | fin n =>
        have hx := (hC.fin n t).mp hc
        have := hall (Cost.fin n) (List.mem_map.mpr ⟨_, hx, rfl⟩)
        cases this
  | fin n =>
    have hmem := minList_fin_mem hm
    obtain ⟨⟨v0, t0⟩, hp0, hv0⟩ := List.mem_map.mp hmem
    simp only at hv0
    subst hv0
    have hc0 := (hC.fin n t0).mpr hp0
    have hopt0 := hI.optimal _ hc0
    simp only [Entry.better] at hopt0
    -- the value is attained by a candidate
    have hval : e.value = .fin (n : Int) := by
      rcases hI.attained with h | ⟨c, hc, hv⟩
      · rw [h] at hopt0; simp [Entry.sentinel, ExtInt.lt] at hopt0
      · obtain ⟨v, t, rfl⟩ := hC.shape c hc
        simp only at hv
        cases v with
        | inf => rw [← hv] at hopt0; simp [Cost.toExt, ExtInt.lt] at hopt0
        | fin k =>
          have hx := (hC.fin k t).mp hc
          have hle : minList (xs.map (·.1)) ≼ Cost.fin k :=
            minList_le (List.mem_map.mpr ⟨_, hx, rfl⟩)
          rw [hm] at hle
          have hle' : n ≤ k := (fin_le_fin n k).mp hle
          rw [← hv] at hopt0
          simp only [Cost.toExt, ExtInt.lt, decide_eq_false_iff_not] at hopt0
          rw [← hv]
          simp only [Cost.toExt]
          congr 1
          omega
    refine ⟨by rw [hval]; rfl, fun _ t => ?_⟩
    rw [hI.all rfl t, hval]
    constructor
    · rintro ⟨c, hc, hi, hv⟩
      obtain ⟨v, t', rfl⟩ := hC.shape c hc
      simp only [Option.some.injEq] at hi
      subst hi
      simp only at hv
      rw [toExt_eq_fin.mp hv] at hc
      exact (hC.fin n t').mp hc
    · intro hx
      exact ⟨_, (hC.fin n t).mpr hx, rfl, rfl⟩

/-! ### Entries in relation with aggregates -/

/-- A MIN / ALL entry of the code model and an aggregate of the label DP hold the
    same value, and the same tags as soon as the value is finite. -/
structure Rel (e : Entry τ) (a : Agg τ) : Prop where
  merge : e.merge = .min
  retain : e.retain = .all
  value : e.value = Cost.toExt a.val
  tags : a.val ≠ .inf → ∀ t, t ∈ e.infos ↔ t ∈ a.tags

theorem rel_of_corr {cs : List (Cand τ)} {xs : List (Cost × τ)} (hC : Corr cs xs) :
    Rel (Entry.update (Entry.init .min .all) cs) (Agg.ofList xs) := by
  have hI : Entry.Inv .min .all cs (Entry.update (Entry.init .min .all) cs) := by
    simpa using Entry.inv_update (Entry.inv_init .min .all) cs
  have hA := Agg.inv_ofList xs
  obtain ⟨hv, ht⟩ := minall_of_corr hI hC
  refine ⟨hI.merge, hI.retain, by rw [hv, hA.val_eq], ?_⟩
  intro hfin t
  rw [hA.val_eq] at hfin
  rw [ht hfin t, hA.tags t, hA.val_eq]
  constructor
  · intro h; exact ⟨_, h, rfl, rfl⟩
  · rintro ⟨⟨v, t'⟩, hp, rfl, hv'⟩
    simp only at hv'
    rw [← hv']; exact hp

end SR.UspfsCode
