/-
  C08, part 1: arrangements over opaque items.

  * `BTree.Equiv` is an equivalence relation that preserves the items;
  * `graft x t` has `2·size t − 1` members, each with items `x :: items t`;
  * `IsGraft x t g` — relational form of `graft`;
  * un-grafting is well defined up to child order (`isGraft_inv`), every tree
    containing `x` is a graft of a tree without `x` (`exists_isGraft`),
    grafting respects child order (`isGraft_equiv`);
  * `arrange xs`: sound, counted by `(2k−3)‼`, pairwise inequivalent and
    complete for distinct items.
-/
import SRVerif.Spec.Refine

namespace SR.Bin

open BTree

variable {α : Type}

/-! ### Items and size -/

theorem BTree.size_eq_length (t : BTree α) : t.size = t.items.length := by
  induction t with
  | item a => rfl
  | node l r ihl ihr => simp [BTree.size, BTree.items, ihl, ihr]

theorem BTree.size_pos (t : BTree α) : 0 < t.size := by
  induction t with
  | item a => simp [BTree.size]
  | node l r ihl ihr => simp [BTree.size]; omega

theorem BTree.items_ne_nil (t : BTree α) : t.items ≠ [] := by
  intro h
  have := BTree.size_pos t
  rw [BTree.size_eq_length, h] at this
  simp at this

theorem BTree.exists_mem_items (t : BTree α) : ∃ a, a ∈ t.items := by
  cases h : t.items with
  | nil => exact absurd h (BTree.items_ne_nil t)
  | cons a _ => exact ⟨a, by simp⟩

/-! ### Equality up to child order -/

namespace BTree.Equiv

theorem refl (t : BTree α) : BTree.Equiv t t := by
  induction t with
  | item a => exact .item a
  | node l r ihl ihr => exact .congr ihl ihr

theorem symm {s t : BTree α} (h : BTree.Equiv s t) : BTree.Equiv t s := by
  induction h with
  | item a => exact .item a
  | congr _ _ ih1 ih2 => exact .congr ih1 ih2
  | swap _ _ ih1 ih2 => exact .swap ih2 ih1

theorem trans {s t u : BTree α} (h1 : BTree.Equiv s t) (h2 : BTree.Equiv t u) : BTree.Equiv s u := by
  induction h1 generalizing u with
  | item a => exact h2
  | congr _ _ ih1 ih2 =>
    cases h2 with
    | congr g1 g2 => exact .congr (ih1 g1) (ih2 g2)
    | swap g1 g2 => exact .swap (ih1 g1) (ih2 g2)
  | swap _ _ ih1 ih2 =>
    cases h2 with
    | congr g1 g2 => exact .swap (ih1 g2) (ih2 g1)
    | swap g1 g2 => exact .congr (ih1 g2) (ih2 g1)

theorem items_perm {s t : BTree α} (h : BTree.Equiv s t) : s.items.Perm t.items := by
  induction h with
  | item a => exact .refl _
  | congr _ _ ih1 ih2 => exact ih1.append ih2
  | swap _ _ ih1 ih2 =>
    simp only [BTree.items]
    exact (ih1.append ih2).trans List.perm_append_comm

theorem mem_items_iff {s t : BTree α} (h : BTree.Equiv s t) (x : α) : x ∈ s.items ↔ x ∈ t.items :=
  h.items_perm.mem_iff

theorem item_left {a : α} {t : BTree α} (h : BTree.Equiv (.item a) t) : t = .item a := by
  cases h; rfl

theorem item_right {a : α} {t : BTree α} (h : BTree.Equiv t (.item a)) : t = .item a := by
  cases h; rfl

end BTree.Equiv

/-! ### `graft` -/

/-- Relational form of `graft`: `g` is `t` with the item `x` attached as the
    (left) sibling of one of the nodes of `t`. -/
inductive IsGraft (x : α) : BTree α → BTree α → Prop where
  | root (t : BTree α) : IsGraft x t (.node (.item x) t)
  | left {l g : BTree α} (r : BTree α) : IsGraft x l g → IsGraft x (.node l r) (.node g r)
  | right (l : BTree α) {r g : BTree α} : IsGraft x r g → IsGraft x (.node l r) (.node l g)

theorem mem_graft {x : α} {t g : BTree α} : g ∈ graft x t ↔ IsGraft x t g := by
  induction t generalizing g with
  | item a =>
    simp only [graft, List.mem_singleton]
    constructor
    · rintro rfl; exact .root _
    · intro h; cases h; rfl
  | node l r ihl ihr =>
    simp only [graft, List.mem_cons, List.mem_append, List.mem_map]
    constructor
    · rintro (rfl | ⟨g', hg', rfl⟩ | ⟨g', hg', rfl⟩)
      · exact .root _
      · exact .left r (ihl.mp hg')
      · exact .right l (ihr.mp hg')
    · intro h
      cases h with
      | root => exact Or.inl rfl
      | left _ h' => exact Or.inr (Or.inl ⟨_, ihl.mpr h', rfl⟩)
      | right _ h' => exact Or.inr (Or.inr ⟨_, ihr.mpr h', rfl⟩)

theorem IsGraft.items_perm {x : α} {t g : BTree α} (h : IsGraft x t g) :
    g.items.Perm (x :: t.items) := by
  induction h with
  | root t => exact .refl _
  | left r _ ih =>
    simp only [BTree.items]
    exact (ih.append_right _)
  | right l _ ih =>
    simp only [BTree.items]
    exact ((List.Perm.refl l.items).append ih).trans List.perm_middle

theorem IsGraft.mem_items {x : α} {t g : BTree α} (h : IsGraft x t g) : x ∈ g.items :=
  h.items_perm.mem_iff.mpr (by simp)

theorem IsGraft.is_node {x : α} {t g : BTree α} (h : IsGraft x t g) : ∃ l r, g = .node l r := by
  cases h <;> exact ⟨_, _, rfl⟩

theorem length_graft (x : α) (t : BTree α) : (graft x t).length = 2 * t.size - 1 := by
  induction t with
  | item a => simp [graft, BTree.size]
  | node l r ihl ihr =>
    have := BTree.size_pos l
    have := BTree.size_pos r
    simp only [graft, List.length_cons, List.length_append, List.length_map, ihl, ihr, BTree.size]
    omega

/-- Grafting respects equality up to child order. -/
theorem isGraft_equiv {x : α} {t t' g : BTree α} (he : BTree.Equiv t t') (h : IsGraft x t g) :
    ∃ g', IsGraft x t' g' ∧ BTree.Equiv g g' := by
  induction h generalizing t' with
  | root t => exact ⟨_, .root t', .congr (.refl _) he⟩
  | left r _ ih =>
    cases he with
    | congr h1 h2 =>
      obtain ⟨g', hg', he'⟩ := ih h1
      exact ⟨_, .left _ hg', .congr he' h2⟩
    | swap h1 h2 =>
      obtain ⟨g', hg', he'⟩ := ih h1
      exact ⟨_, .right _ hg', .swap he' h2⟩
  | right l _ ih =>
    cases he with
    | congr h1 h2 =>
      obtain ⟨g', hg', he'⟩ := ih h2
      exact ⟨_, .right _ hg', .congr h1 he'⟩
    | swap h1 h2 =>
      obtain ⟨g', hg', he'⟩ := ih h2
      exact ⟨_, .left _ hg', .swap h1 he'⟩

/-- Un-grafting is well defined up to child order: deleting `x` from two
    equivalent trees gives equivalent trees. -/
theorem isGraft_inv {x : α} {t t' g g' : BTree α} (h : IsGraft x t g) (h' : IsGraft x t' g')
    (hx : x ∉ t.items) (hx' : x ∉ t'.items) (he : BTree.Equiv g g') : BTree.Equiv t t' := by
  induction h generalizing t' g' with
  | root t =>
    cases h' with
    | root =>
      cases he with
      | congr _ h2 => exact h2
      | swap h1 _ => exact absurd (h1.item_left ▸ (by simp [BTree.items]) : x ∈ t'.items) hx'
    | left r h'' =>
      exfalso
      cases he with
      | congr h1 _ =>
        obtain ⟨_, _, hn⟩ := h''.is_node
        rw [hn] at h1; cases h1
      | swap h1 _ =>
        have := h1.item_left
        subst this
        exact hx' (by simp [BTree.items])
    | right l h'' =>
      exfalso
      cases he with
      | congr h1 _ =>
        have := h1.item_left
        subst this
        exact hx' (by simp [BTree.items])
      | swap h1 _ =>
        obtain ⟨_, _, hn⟩ := h''.is_node
        rw [hn] at h1; cases h1
  | @left l g r hl ih =>
    have hxl : x ∉ l.items := fun hm => hx (by simp [BTree.items, hm])
    have hxr : x ∉ r.items := fun hm => hx (by simp [BTree.items, hm])
    cases h' with
    | root =>
      exfalso
      cases he with
      | congr h1 _ =>
        obtain ⟨_, _, hn⟩ := hl.is_node
        rw [hn] at h1; cases h1
      | swap _ h2 =>
        have := h2.item_right
        subst this
        exact hxr (by simp [BTree.items])
    | @left l' g'' r' h'' =>
      have hxl' : x ∉ l'.items := fun hm => hx' (by simp [BTree.items, hm])
      have hxr' : x ∉ r'.items := fun hm => hx' (by simp [BTree.items, hm])
      cases he with
      | congr h1 h2 => exact .congr (ih h'' hxl hxl' h1) h2
      | swap h1 _ => exact absurd ((h1.mem_items_iff x).mp hl.mem_items) hxr'
    | @right l' r' g'' h'' =>
      have hxl' : x ∉ l'.items := fun hm => hx' (by simp [BTree.items, hm])
      have hxr' : x ∉ r'.items := fun hm => hx' (by simp [BTree.items, hm])
      cases he with
      | congr h1 _ => exact absurd ((h1.mem_items_iff x).mp hl.mem_items) hxl'
      | swap h1 h2 => exact .swap (ih h'' hxl hxr' h1) h2
  | @right l r g hr ih =>
    have hxl : x ∉ l.items := fun hm => hx (by simp [BTree.items, hm])
    have hxr : x ∉ r.items := fun hm => hx (by simp [BTree.items, hm])
    cases h' with
    | root =>
      exfalso
      cases he with
      | congr h1 _ =>
        have := h1.item_right
        subst this
        exact hxl (by simp [BTree.items])
      | swap h1 h2 =>
        obtain ⟨_, _, hn⟩ := hr.is_node
        rw [hn] at h2; cases h2
    | @left l' g'' r' h'' =>
      have hxl' : x ∉ l'.items := fun hm => hx' (by simp [BTree.items, hm])
      have hxr' : x ∉ r'.items := fun hm => hx' (by simp [BTree.items, hm])
      cases he with
      | congr _ h2 => exact absurd ((h2.mem_items_iff x).mp hr.mem_items) hxr'
      | swap h1 h2 => exact .swap h1 (ih h'' hxr hxl' h2)
    | @right l' r' g'' h'' =>
      have hxl' : x ∉ l'.items := fun hm => hx' (by simp [BTree.items, hm])
      have hxr' : x ∉ r'.items := fun hm => hx' (by simp [BTree.items, hm])
      cases he with
      | congr h1 h2 => exact .congr h1 (ih h'' hxr hxr' h2)
      | swap _ h2 => exact absurd ((h2.mem_items_iff x).mp hr.mem_items) hxl'

/-- Every tree containing `x` is the item `x` itself or — up to child order —
    a graft of `x` into a tree on the other items. -/
theorem exists_isGraft {x : α} (u : BTree α) (hx : x ∈ u.items) :
    u = .item x ∨
      ∃ t g, IsGraft x t g ∧ BTree.Equiv g u ∧ u.items.Perm (x :: t.items) := by
  induction u with
  | item a =>
    simp only [BTree.items, List.mem_singleton] at hx
    exact Or.inl (by rw [hx])
  | node l r ihl ihr =>
    right
    simp only [BTree.items, List.mem_append] at hx
    rcases hx with hx | hx
    · rcases ihl hx with rfl | ⟨t, g, hg, he, hp⟩
      · exact ⟨r, _, .root _, .refl _, .refl _⟩
      · exact ⟨.node t r, _, .left r hg, .congr he (.refl _), by
          simp only [BTree.items]; exact hp.append_right _⟩
    · rcases ihr hx with rfl | ⟨t, g, hg, he, hp⟩
      · exact ⟨l, _, .root _, .swap (.refl _) (.refl _), by
          simp only [BTree.items]; exact List.perm_append_comm⟩
      · exact ⟨.node l t, _, .right l hg, .congr (.refl _) he, by
          simp only [BTree.items]
          exact ((List.Perm.refl l.items).append hp).trans List.perm_middle⟩

/-- No two members of `graft x t` are equal up to child order. -/
theorem pairwise_graft {x : α} (t : BTree α) (hx : x ∉ t.items) (hnd : t.items.Nodup) :
    (graft x t).Pairwise (fun g g' => ¬ BTree.Equiv g g') := by
  induction t with
  | item a => simp [graft]
  | node l r ihl ihr =>
    have hxl : x ∉ l.items := fun hm => hx (by simp [BTree.items, hm])
    have hxr : x ∉ r.items := fun hm => hx (by simp [BTree.items, hm])
    simp only [BTree.items, List.nodup_append] at hnd
    obtain ⟨hndl, hndr, hdis⟩ := hnd
    simp only [graft, List.pairwise_cons, List.pairwise_append, List.pairwise_map, List.mem_append,
      List.mem_map]
    refine ⟨?_, ?_, ?_, ?_⟩
    · rintro g' (⟨g, hg, rfl⟩ | ⟨g, hg, rfl⟩) he
      · cases he with
        | congr h1 _ =>
          obtain ⟨_, _, hn⟩ := (mem_graft.mp hg).is_node
          rw [hn] at h1; cases h1
        | swap h1 _ =>
          have := h1.item_left
          subst this
          exact hxr (by simp [BTree.items])
      · cases he with
        | congr h1 _ =>
          have := h1.item_left
          subst this
          exact hxl (by simp [BTree.items])
        | swap h1 _ =>
          obtain ⟨_, _, hn⟩ := (mem_graft.mp hg).is_node
          rw [hn] at h1; cases h1
    · refine (ihl hxl hndl).imp_of_mem ?_
      intro g g' hg _ hne he
      cases he with
      | congr h1 _ => exact hne h1
      | swap h1 _ => exact hxr ((h1.mem_items_iff x).mp (mem_graft.mp hg).mem_items)
    · refine (ihr hxr hndr).imp_of_mem ?_
      intro g g' hg _ hne he
      cases he with
      | congr _ h2 => exact hne h2
      | swap _ h2 => exact hxl ((h2.mem_items_iff x).mp (mem_graft.mp hg).mem_items)
    · rintro _ ⟨g, hg, rfl⟩ _ ⟨g', hg', rfl⟩ he
      cases he with
      | congr h1 _ => exact hxl ((h1.mem_items_iff x).mp (mem_graft.mp hg).mem_items)
      | swap _ h2 =>
        obtain ⟨a, ha⟩ := BTree.exists_mem_items r
        exact hdis a ((h2.mem_items_iff a).mp ha) a ha rfl

/-! ### `arrange` -/

theorem arrange_cons_cons (a b : α) (rest : List α) :
    arrange (a :: b :: rest) = (arrange (b :: rest)).flatMap (graft a) := rfl

/-- Every arrangement has exactly the given items. -/
theorem items_arrange {xs : List α} {s : BTree α} (h : s ∈ arrange xs) : s.items.Perm xs := by
  induction xs generalizing s with
  | nil => simp [arrange] at h
  | cons a rest ih =>
    cases rest with
    | nil =>
      simp only [arrange, List.mem_singleton] at h
      subst h; exact .refl _
    | cons b rest =>
      rw [arrange_cons_cons, List.mem_flatMap] at h
      obtain ⟨t, ht, hs⟩ := h
      exact (mem_graft.mp hs).items_perm.trans ((ih ht).cons a)

theorem length_flatMap_const {β γ : Type} (l : List β) (f : β → List γ) (c : Nat)
    (h : ∀ b ∈ l, (f b).length = c) : (l.flatMap f).length = l.length * c := by
  induction l with
  | nil => simp
  | cons b bs ih =>
    simp only [List.flatMap_cons, List.length_append, List.length_cons]
    rw [h b (by simp), ih (fun b' hb' => h b' (by simp [hb'])), Nat.add_mul, Nat.one_mul, Nat.add_comm]

theorem dfact_step (k : Nat) (hk : 1 ≤ k) :
    Spec.dfact (2 * (k + 1) - 3) = (2 * k - 1) * Spec.dfact (2 * k - 3) := by
  obtain ⟨n, rfl⟩ : ∃ n, k = n + 1 := ⟨k - 1, by omega⟩
  cases n with
  | zero => simp [Spec.dfact]
  | succ m =>
    have h1 : 2 * (m + 1 + 1 + 1) - 3 = (2 * m + 1) + 2 := by omega
    have h2 : 2 * (m + 1 + 1) - 3 = 2 * m + 1 := by omega
    have h3 : 2 * (m + 1 + 1) - 1 = 2 * m + 1 + 2 := by omega
    rw [h1, h2, h3, Spec.dfact]

/-- `arrange_leaves` on `k ≥ 1` items yields `(2k−3)‼` trees. -/
theorem length_arrange (xs : List α) (hne : xs ≠ []) :
    (arrange xs).length = Spec.dfact (2 * xs.length - 3) := by
  induction xs with
  | nil => exact absurd rfl hne
  | cons a rest ih =>
    cases rest with
    | nil => simp [arrange, Spec.dfact]
    | cons b rest =>
      rw [arrange_cons_cons,
        length_flatMap_const _ _ (2 * (b :: rest).length - 1), ih (by simp)]
      · rw [show (a :: b :: rest).length = (b :: rest).length + 1 from rfl,
          dfact_step _ (by simp), Nat.mul_comm]
      · intro t ht
        rw [length_graft, BTree.size_eq_length, (items_arrange ht).length_eq]

/-- For distinct items no two arrangements are equal up to child order. -/
theorem pairwise_arrange (xs : List α) (hnd : xs.Nodup) :
    (arrange xs).Pairwise (fun s s' => ¬ BTree.Equiv s s') := by
  induction xs with
  | nil => simp [arrange]
  | cons a rest ih =>
    cases rest with
    | nil => simp [arrange]
    | cons b rest =>
      have hnd' : (b :: rest).Nodup := (List.nodup_cons.mp hnd).2
      have ha : a ∉ b :: rest := (List.nodup_cons.mp hnd).1
      rw [arrange_cons_cons, List.pairwise_flatMap]
      refine ⟨?_, ?_⟩
      · intro t ht
        have hp := items_arrange ht
        exact pairwise_graft t (fun hm => ha (hp.mem_iff.mp hm)) (hp.nodup_iff.mpr hnd')
      · refine (ih hnd').imp_of_mem ?_
        intro t t' ht ht' hne g hg g' hg' he
        have hp := items_arrange ht
        have hp' := items_arrange ht'
        exact hne (isGraft_inv (mem_graft.mp hg) (mem_graft.mp hg')
          (fun hm => ha (hp.mem_iff.mp hm)) (fun hm => ha (hp'.mem_iff.mp hm)) he)

/-- Every binary tree over exactly the items `xs` is, up to child order, a
    member of `arrange xs`. -/
theorem arrange_complete (xs : List α) (u : BTree α) (hu : u.items.Perm xs) :
    ∃ s ∈ arrange xs, BTree.Equiv s u := by
  induction xs generalizing u with
  | nil => exact absurd hu.eq_nil (BTree.items_ne_nil u)
  | cons a rest ih =>
    cases rest with
    | nil =>
      cases u with
      | item b =>
        have : b = a := by simpa [BTree.items] using hu.mem_iff (a := b)
        subst this
        exact ⟨_, by simp [arrange], .refl _⟩
      | node l r =>
        exfalso
        have h1 := hu.length_eq
        have := BTree.size_pos l
        have := BTree.size_pos r
        simp only [BTree.items, List.length_append, ← BTree.size_eq_length, List.length_cons,
          List.length_nil] at h1
        omega
    | cons b rest =>
      have hau : a ∈ u.items := hu.mem_iff.mpr (by simp)
      rcases exists_isGraft u hau with rfl | ⟨t, g, hg, he, hp⟩
      · have := hu.length_eq
        simp [BTree.items] at this
      · have hpt : t.items.Perm (b :: rest) := (hp.symm.trans hu).cons_inv
        obtain ⟨t', ht', het⟩ := ih t hpt
        obtain ⟨g', hg', heg⟩ := isGraft_equiv het.symm hg
        refine ⟨g', ?_, heg.symm.trans he⟩
        rw [arrange_cons_cons, List.mem_flatMap]
        exact ⟨t', ht', mem_graft.mpr hg'⟩

/-- Members of a list that is pairwise inequivalent are equal as soon as they
    are equivalent. -/
theorem eq_of_equiv_of_pairwise {l : List (BTree α)}
    (hp : l.Pairwise (fun s s' => ¬ BTree.Equiv s s')) {s s' : BTree α} (hs : s ∈ l) (hs' : s' ∈ l)
    (he : BTree.Equiv s s') : s = s' := by
  induction l with
  | nil => cases hs
  | cons x xs ih =>
    rw [List.pairwise_cons] at hp
    rcases List.mem_cons.mp hs with rfl | hs1 <;> rcases List.mem_cons.mp hs' with rfl | hs1'
    · rfl
    · exact absurd he (hp.1 _ hs1')
    · exact absurd he.symm (hp.1 _ hs1)
    · exact ih hp.2 hs1 hs1'

end SR.Bin
