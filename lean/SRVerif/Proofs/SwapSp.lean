/-
  Relabelling of the species (C09, species-child swap and outgroup).

  Part 1: `PathEmb φ` — a map on root paths that shifts depth uniformly and commutes
  with the longest common prefix, and is injective.  Every query the evaluator
  makes on species (`isAnc`, `isStrictAnc`, `comparable`, `lcp`, `dist`, `==`)
  is preserved by such a map, hence the event of every node, the local cost,
  `recCost`, the two label costs, `totalCost` and validity are preserved when a
  solution and its input are relabelled through `φ` (`Sol.mapSp`, `OTree.mapSp`).

  Part 2: `Path.relabelAt σ p` — rename the children of the species node `p`
  through `σ : Nat → Nat` (everything at or below `p ++ [k]` moves to
  `p ++ [σ k]`, all other paths stay).  For injective `σ` it is a `PathEmb`; for
  involutive `σ` it is an involution.  `Path.swapAt p i j` is the instance
  `σ = swapNat i j`; `RTree.swapAt` exchanges the two child subtrees.
-/
import SRVerif.Proofs.Paths
import SRVerif.Proofs.RTree
import SRVerif.Proofs.Enum
import SRVerif.Proofs.Cost
import SRVerif.Spec.Opt

namespace SR

open Path

/-! ### Part 1: embeddings of paths -/

/-- Injective map of root paths that commutes with the longest common prefix and
    shifts every depth by the same amount (0 for a relabelling, 1 for the
    embedding below a new root). -/
structure PathEmb (φ : Path → Path) : Prop where
  len : ∃ k, ∀ p, (φ p).length = p.length + k
  lcp : ∀ p q, Path.lcp (φ p) (φ q) = φ (Path.lcp p q)
  inj : ∀ p q, φ p = φ q → p = q

namespace Path

theorem isAnc_iff_lcp (p q : Path) : isAnc p q = true ↔ lcp p q = p := by
  constructor
  · exact lcp_eq_left_of_isAnc
  · intro h
    have := lcp_isAnc_right p q
    rwa [h] at this

end Path

namespace PathEmb

variable {φ : Path → Path} (h : PathEmb φ)
include h

theorem beq (p q : Path) : (φ p == φ q) = (p == q) := by
  rw [Bool.eq_iff_iff]
  simp only [beq_iff_eq]
  exact ⟨h.inj p q, fun e => by rw [e]⟩

theorem bne (p q : Path) : (φ p != φ q) = (p != q) := by
  simp only [_root_.bne, h.beq]

theorem isAnc (p q : Path) : Path.isAnc (φ p) (φ q) = Path.isAnc p q := by
  rw [Bool.eq_iff_iff, Path.isAnc_iff_lcp, Path.isAnc_iff_lcp, h.lcp]
  exact ⟨h.inj _ _, fun e => by rw [e]⟩

theorem isStrictAnc (p q : Path) : Path.isStrictAnc (φ p) (φ q) = Path.isStrictAnc p q := by
  simp only [Path.isStrictAnc, h.isAnc, h.bne]

theorem comparable (p q : Path) : Path.comparable (φ p) (φ q) = Path.comparable p q := by
  simp only [Path.comparable, h.isAnc]

theorem dist (p q : Path) : Path.dist (φ p) (φ q) = Path.dist p q := by
  obtain ⟨k, hk⟩ := h.len
  simp only [Path.dist, h.lcp, hk]
  omega

theorem internalEvent (s a b : Path) :
    SR.internalEvent (φ s) (φ a) (φ b) = SR.internalEvent s a b := by
  simp only [SR.internalEvent, h.isStrictAnc, h.isAnc, h.lcp, h.beq, h.comparable]

theorem localRecCost (c : Costs) (s a b : Path) :
    SR.localRecCost c (φ s) (φ a) (φ b) = SR.localRecCost c s a b := by
  simp only [SR.localRecCost, h.internalEvent, h.dist, h.isAnc]

end PathEmb

/-- Relabel the species of an input. -/
def OTree.mapSp (φ : Path → Path) : OTree → OTree
  | .leaf sp f => .leaf (φ sp) f
  | .node l r => .node (mapSp φ l) (mapSp φ r)

/-- Relabel the species of a solution. -/
def Sol.mapSp (φ : Path → Path) : Sol → Sol
  | .leaf sp f => .leaf (φ sp) f
  | .node sp f l r => .node (φ sp) f (mapSp φ l) (mapSp φ r)

@[simp] theorem Sol.mapSp_sp (φ : Path → Path) (s : Sol) : (s.mapSp φ).sp = φ s.sp := by
  cases s <;> rfl

@[simp] theorem Sol.mapSp_fam (φ : Path → Path) (s : Sol) : (s.mapSp φ).fam = s.fam := by
  cases s <;> rfl

theorem Sol.mapSp_mapSp (φ ψ : Path → Path) (s : Sol) :
    (s.mapSp φ).mapSp ψ = s.mapSp (fun p => ψ (φ p)) := by
  induction s with
  | leaf sp f => rfl
  | node sp f l r ihl ihr => simp [Sol.mapSp, ihl, ihr]

theorem OTree.mapSp_mapSp (φ ψ : Path → Path) (o : OTree) :
    (o.mapSp φ).mapSp ψ = o.mapSp (fun p => ψ (φ p)) := by
  induction o with
  | leaf sp f => rfl
  | node l r ihl ihr => simp [OTree.mapSp, ihl, ihr]

theorem Sol.mapSp_id' (φ : Path → Path) (hφ : ∀ p, φ p = p) (s : Sol) : s.mapSp φ = s := by
  induction s with
  | leaf sp f => simp [Sol.mapSp, hφ]
  | node sp f l r ihl ihr => simp [Sol.mapSp, hφ, ihl, ihr]

theorem OTree.mapSp_id' (φ : Path → Path) (hφ : ∀ p, φ p = p) (o : OTree) : o.mapSp φ = o := by
  induction o with
  | leaf sp f => simp [OTree.mapSp, hφ]
  | node l r ihl ihr => simp [OTree.mapSp, ihl, ihr]

/-! #### The object-side data (syntenies, object paths) ignore species -/

theorem leafSyntenies_mapSp (φ : Path → Path) (o : OTree) :
    leafSyntenies (o.mapSp φ) = leafSyntenies o := by
  induction o with
  | leaf sp f => rfl
  | node l r ihl ihr => simp [OTree.mapSp, leafSyntenies, ihl, ihr]

theorem families_mapSp (φ : Path → Path) (o : OTree) : families (o.mapSp φ) = families o := by
  simp [families, leafSyntenies_mapSp]

theorem leafPaths_mapSp (φ : Path → Path) (o : OTree) : leafPaths (o.mapSp φ) = leafPaths o := by
  induction o with
  | leaf sp f => rfl
  | node l r ihl ihr => simp [OTree.mapSp, leafPaths, ihl, ihr]

theorem gainsAt_mapSp (φ : Path → Path) (o : OTree) (p : Path) :
    gainsAt (o.mapSp φ) p = gainsAt o p := by
  simp [gainsAt, families_mapSp, leafPaths_mapSp]

theorem allowedContent_mapSp (φ : Path → Path) (o : OTree) (p : Path) :
    Spec.allowedContent (o.mapSp φ) p = Spec.allowedContent o p := by
  simp [Spec.allowedContent, families_mapSp, leafPaths_mapSp]

theorem edgeOk_un_mapSp (φ : Path → Path) (o : OTree) (p : Path) (f fc : List Nat) :
    Spec.edgeOk .unordered (o.mapSp φ) p f fc = Spec.edgeOk .unordered o p f fc := by
  simp [Spec.edgeOk, gainsAt_mapSp]

theorem leafSpecies_mapSp (φ : Path → Path) (o : OTree) :
    leafSpecies (o.mapSp φ) = (leafSpecies o).map φ := by
  induction o with
  | leaf sp f => rfl
  | node l r ihl ihr => simp [OTree.mapSp, leafSpecies, ihl, ihr]

/-! #### Cost and validity are preserved -/

section Emb

variable {φ : Path → Path} (h : PathEmb φ)
include h

theorem recCost_mapSp (c : Costs) : ∀ (o : OTree) (sol : Sol),
    recCost c (o.mapSp φ) (sol.mapSp φ) = recCost c o sol := by
  intro o
  induction o with
  | leaf sp f =>
    intro sol
    cases sol with
    | leaf s g => simp only [OTree.mapSp, Sol.mapSp, recCost, h.beq]
    | node s g l r => rfl
  | node ol or ihl ihr =>
    intro sol
    cases sol with
    | leaf s g => rfl
    | node s g l r =>
      simp only [OTree.mapSp, Sol.mapSp, recCost, Sol.mapSp_sp, h.internalEvent, h.localRecCost,
        ihl, ihr]

theorem validRec_mapSp : ∀ (o : OTree) (sol : Sol),
    Spec.validRec (o.mapSp φ) (sol.mapSp φ) = Spec.validRec o sol := by
  intro o
  induction o with
  | leaf sp f =>
    intro sol
    cases sol with
    | leaf s g => simp only [OTree.mapSp, Sol.mapSp, Spec.validRec, h.beq]
    | node s g l r => rfl
  | node ol or ihl ihr =>
    intro sol
    cases sol with
    | leaf s g => rfl
    | node s g l r =>
      simp only [OTree.mapSp, Sol.mapSp, Spec.validRec, Sol.mapSp_sp, h.internalEvent, ihl, ihr]

theorem ordLosses_mapSp (rootSyn : List Nat) : ∀ (sol : Sol) (m : Nat),
    ordLosses rootSyn m (sol.mapSp φ) = ordLosses rootSyn m sol := by
  intro sol
  induction sol with
  | leaf s g => intro m; rfl
  | node s g l r ihl ihr =>
    intro m
    simp only [Sol.mapSp, ordLosses, Sol.mapSp_sp, Sol.mapSp_fam, h.internalEvent, h.comparable,
      ihl, ihr]

theorem unordLosses_mapSp : ∀ (sol : Sol),
    unordLosses (sol.mapSp φ) = unordLosses sol := by
  intro sol
  induction sol with
  | leaf s g => rfl
  | node s g l r ihl ihr =>
    simp only [Sol.mapSp, unordLosses, Sol.mapSp_sp, Sol.mapSp_fam, h.internalEvent, h.comparable,
      ihl, ihr]

theorem labelingCost_mapSp (c : Costs) (mode : LabelMode) (sol : Sol) :
    labelingCost c mode (sol.mapSp φ) = labelingCost c mode sol := by
  cases mode <;>
    simp only [labelingCost, Sol.mapSp_fam, ordLosses_mapSp h, unordLosses_mapSp h]

/-- **The evaluated cost is invariant under a relabelling of the species.** -/
theorem totalCost_mapSp (c : Costs) (mode : LabelMode) (o : OTree) (sol : Sol) :
    totalCost c mode (o.mapSp φ) (sol.mapSp φ) = totalCost c mode o sol := by
  simp only [totalCost, labelingCost_mapSp h, recCost_mapSp h]

omit h in
theorem validOrdLabels_mapSp (φ : Path → Path) : ∀ (o : OTree) (sol : Sol),
    Spec.validOrdLabels (o.mapSp φ) (sol.mapSp φ) = Spec.validOrdLabels o sol := by
  intro o
  induction o with
  | leaf sp f =>
    intro sol
    cases sol <;> rfl
  | node ol or ihl ihr =>
    intro sol
    cases sol with
    | leaf s g => rfl
    | node s g l r =>
      simp only [OTree.mapSp, Sol.mapSp, Spec.validOrdLabels, Sol.mapSp_fam, ihl, ihr]

omit h in
theorem validUnLabels_mapSp (φ : Path → Path) (whole : OTree) : ∀ (o : OTree) (p : Path) (sol : Sol),
    Spec.validUnLabels (whole.mapSp φ) p (o.mapSp φ) (sol.mapSp φ) =
      Spec.validUnLabels whole p o sol := by
  intro o
  induction o with
  | leaf sp f =>
    intro p sol
    cases sol <;> rfl
  | node ol or ihl ihr =>
    intro p sol
    cases sol with
    | leaf s g => rfl
    | node s g l r =>
      simp only [OTree.mapSp, Sol.mapSp, Spec.validUnLabels, Sol.mapSp_fam, ihl, ihr,
        allowedContent_mapSp, edgeOk_un_mapSp]

/-- **Validity (all three modes) is invariant under a relabelling of the species.** -/
theorem validSol_mapSp (mode : LabelMode) (o : OTree) (sol : Sol) :
    Spec.validSol mode (o.mapSp φ) (sol.mapSp φ) = Spec.validSol mode o sol := by
  cases mode <;>
    simp only [Spec.validSol, validRec_mapSp h, validOrdLabels_mapSp, validUnLabels_mapSp,
      families_mapSp, Sol.mapSp_fam]

omit h in
theorem plainLabels_mapSp (φ : Path → Path) : ∀ (o : OTree) (sol : Sol),
    plainLabels (o.mapSp φ) (sol.mapSp φ) = plainLabels o sol := by
  intro o
  induction o with
  | leaf sp f => intro sol; cases sol <;> rfl
  | node ol or ihl ihr =>
    intro sol
    cases sol with
    | leaf s g => rfl
    | node s g l r => simp only [OTree.mapSp, Sol.mapSp, plainLabels, ihl, ihr]

end Emb

/-- Relabelled mappings over a species tree `S'` that has the image of every
    species of `S`. -/
theorem mem_allMappings_mapSp (φ : Path → Path) (S S' : RTree)
    (hS : ∀ p, S.isNode p = true → S'.isNode (φ p) = true) : ∀ (o : OTree) (sol : Sol),
    sol ∈ Spec.allMappings S o → sol.mapSp φ ∈ Spec.allMappings S' (o.mapSp φ) := by
  intro o
  induction o with
  | leaf sp f =>
    intro sol hs
    simp only [Spec.allMappings, List.mem_singleton] at hs
    subst hs
    simp [Spec.allMappings, OTree.mapSp, Sol.mapSp]
  | node l r ihl ihr =>
    intro sol hs
    simp only [Spec.allMappings, List.mem_flatMap, List.mem_map] at hs
    obtain ⟨ml, hml, mr, hmr, s, hs, rfl⟩ := hs
    simp only [OTree.mapSp, Spec.allMappings, List.mem_flatMap, List.mem_map]
    refine ⟨_, ihl ml hml, _, ihr mr hmr, φ s, ?_, rfl⟩
    exact (RTree.mem_preorder_iff _ S').mpr (hS s ((RTree.mem_preorder_iff s S).mp hs))

/-! ### Optima and their transport along maps of solutions

  Stated for an arbitrary validity predicate `V` and cost function, so that the
  same lemmas serve `Spec.validSol` (all modes), the enumerator's
  characterisation (`validRec ∧ plainLabels`) and the THL solver's
  (`validRec ∧ ∈ allMappings S`). -/

/-- `sol` is valid and no valid solution is cheaper. -/
def IsOptimalFor (V : Sol → Prop) (cost : Sol → Cost) (sol : Sol) : Prop :=
  V sol ∧ ∀ sol', V sol' → Cost.le (cost sol) (cost sol') = true

/-- `m` is the minimum of `cost` over the valid solutions (`inf` if there is none). -/
def IsMinCostFor (V : Sol → Prop) (cost : Sol → Cost) (m : Cost) : Prop :=
  (∀ sol, V sol → Cost.le m (cost sol) = true) ∧ (m = .inf ∨ ∃ sol, V sol ∧ cost sol = m)

theorem IsMinCostFor.unique {V : Sol → Prop} {cost : Sol → Cost} {m m' : Cost}
    (h : IsMinCostFor V cost m) (h' : IsMinCostFor V cost m') : m = m' := by
  apply Cost.le_antisymm
  · rcases h'.2 with e | ⟨s, hs, e⟩
    · rw [e]; exact Cost.le_inf _
    · rw [← e]; exact h.1 s hs
  · rcases h.2 with e | ⟨s, hs, e⟩
    · rw [e]; exact Cost.le_inf _
    · rw [← e]; exact h'.1 s hs

/-- The minimum of a list enumerating the valid solutions. -/
theorem isMinCostFor_minList {V : Sol → Prop} {cost : Sol → Cost} (L : List Sol)
    (hL : ∀ s, s ∈ L ↔ V s) : IsMinCostFor V cost (Cost.minList (L.map cost)) := by
  constructor
  · intro sol hs
    exact Cost.minList_le (List.mem_map.mpr ⟨sol, (hL sol).mpr hs, rfl⟩)
  · rcases Cost.minList_mem_or_inf (L.map cost) with e | hm
    · exact Or.inl e
    · obtain ⟨s, hs, e⟩ := List.mem_map.mp hm
      exact Or.inr ⟨s, (hL s).mp hs, e⟩

/-- An optimal solution attains the minimum. -/
theorem IsOptimalFor.isMin {V : Sol → Prop} {cost : Sol → Cost} {sol : Sol}
    (h : IsOptimalFor V cost sol) : IsMinCostFor V cost (cost sol) :=
  ⟨h.2, Or.inr ⟨sol, h.1, rfl⟩⟩

/-- Transport of optimal solutions along a validity- and cost-preserving
    surjection (in particular an involution). -/
theorem isOptimalFor_transport {V V' : Sol → Prop} {cost cost' : Sol → Cost} (f g : Sol → Sol)
    (hv : ∀ s, V' (f s) ↔ V s) (hc : ∀ s, cost' (f s) = cost s) (hfg : ∀ s, f (g s) = s)
    (sol : Sol) : IsOptimalFor V cost sol ↔ IsOptimalFor V' cost' (f sol) := by
  constructor
  · rintro ⟨h1, h2⟩
    refine ⟨(hv sol).mpr h1, fun sol' h' => ?_⟩
    have hg : V (g sol') := (hv (g sol')).mp (by rw [hfg]; exact h')
    have := h2 (g sol') hg
    rwa [← hc sol, ← hc (g sol'), hfg] at this
  · rintro ⟨h1, h2⟩
    refine ⟨(hv sol).mp h1, fun sol' h' => ?_⟩
    have := h2 (f sol') ((hv sol').mpr h')
    rwa [hc, hc] at this

/-- Transport of the minimum along two cost-non-increasing maps between the
    valid solutions of two inputs. -/
theorem isMinCostFor_transport {V V' : Sol → Prop} {cost cost' : Sol → Cost} (f g : Sol → Sol)
    (hf : ∀ s, V s → V' (f s) ∧ Cost.le (cost' (f s)) (cost s) = true)
    (hg : ∀ s, V' s → V (g s) ∧ Cost.le (cost (g s)) (cost' s) = true)
    (m : Cost) : IsMinCostFor V cost m ↔ IsMinCostFor V' cost' m := by
  have key : ∀ {W W' : Sol → Prop} {k k' : Sol → Cost} (f g : Sol → Sol),
      (∀ s, W s → W' (f s) ∧ Cost.le (k' (f s)) (k s) = true) →
      (∀ s, W' s → W (g s) ∧ Cost.le (k (g s)) (k' s) = true) →
      IsMinCostFor W k m → IsMinCostFor W' k' m := by
    intro W W' k k' f g hf hg ⟨h1, h2⟩
    constructor
    · intro s' hs'
      exact Cost.le_trans (h1 _ (hg s' hs').1) (hg s' hs').2
    · rcases h2 with e | ⟨s, hs, e⟩
      · exact Or.inl e
      · refine Or.inr ⟨f s, (hf s hs).1, ?_⟩
        apply Cost.le_antisymm
        · rw [← e]; exact (hf s hs).2
        · exact Cost.le_trans (h1 _ (hg _ (hf s hs).1).1) (hg _ (hf s hs).1).2
  exact ⟨key f g hf hg, key g f hg hf⟩

/-- When moreover `f` preserves the cost exactly and reflects validity, optimal
    solutions correspond along `f`. -/
theorem isOptimalFor_embed {V V' : Sol → Prop} {cost cost' : Sol → Cost} (f g : Sol → Sol)
    (hv : ∀ s, V' (f s) ↔ V s) (hc : ∀ s, cost' (f s) = cost s)
    (hg : ∀ s, V' s → V (g s) ∧ Cost.le (cost (g s)) (cost' s) = true)
    (sol : Sol) : IsOptimalFor V cost sol ↔ IsOptimalFor V' cost' (f sol) := by
  constructor
  · rintro ⟨h1, h2⟩
    refine ⟨(hv sol).mpr h1, fun sol' h' => ?_⟩
    rw [hc]
    exact Cost.le_trans (h2 _ (hg sol' h').1) (hg sol' h').2
  · rintro ⟨h1, h2⟩
    refine ⟨(hv sol).mp h1, fun sol' h' => ?_⟩
    have := h2 (f sol') ((hv sol').mpr h')
    rwa [hc, hc] at this

/-- Both conclusions for a validity- and cost-preserving bijection. -/
theorem transport_bij {V V' : Sol → Prop} {cost cost' : Sol → Cost} (f g : Sol → Sol)
    (hv : ∀ s, V' (f s) ↔ V s) (hc : ∀ s, cost' (f s) = cost s) (hfg : ∀ s, f (g s) = s) :
    (∀ sol, IsOptimalFor V cost sol ↔ IsOptimalFor V' cost' (f sol)) ∧
    (∀ m, IsMinCostFor V cost m ↔ IsMinCostFor V' cost' m) := by
  refine ⟨isOptimalFor_transport f g hv hc hfg, isMinCostFor_transport f g ?_ ?_⟩
  · intro s hs
    exact ⟨(hv s).mpr hs, by rw [hc]; exact Cost.le_refl _⟩
  · intro s hs
    have hg : V (g s) := (hv (g s)).mp (by rw [hfg]; exact hs)
    refine ⟨hg, ?_⟩
    rw [← hc (g s), hfg]; exact Cost.le_refl _

/-! ### Part 2: renaming the children of one species node -/

namespace Path

/-- Rename the children of the node `p` through `σ`: `p ++ k :: q ↦ p ++ σ k :: q`;
    paths that do not pass strictly below `p` are unchanged. -/
def relabelAt (σ : Nat → Nat) : Path → Path → Path
  | [], [] => []
  | [], k :: q => σ k :: q
  | _ :: _, [] => []
  | a :: p, b :: q => if a = b then b :: relabelAt σ p q else b :: q

/-- Exchange `i` and `j`. -/
def swapNat (i j k : Nat) : Nat := if k = i then j else if k = j then i else k

/-- The species relabelling induced by exchanging the children `i` and `j` of the
    species node `p`. -/
def swapAt (p : Path) (i j : Nat) : Path → Path := relabelAt (swapNat i j) p

theorem swapNat_invol (i j k : Nat) : swapNat i j (swapNat i j k) = k := by
  unfold swapNat; split <;> split <;> (try split) <;> omega

theorem swapNat_inj (i j : Nat) : ∀ a b, swapNat i j a = swapNat i j b → a = b := by
  intro a b e
  have := congrArg (swapNat i j) e
  rwa [swapNat_invol, swapNat_invol] at this

theorem relabelAt_append (σ : Nat → Nat) (p : Path) (k : Nat) (q : Path) :
    relabelAt σ p (p ++ k :: q) = p ++ σ k :: q := by
  induction p with
  | nil => rfl
  | cons a p ih => simp [relabelAt, ih]

theorem relabelAt_of_not_below (σ : Nat → Nat) : ∀ (p q : Path), isStrictAnc p q = false →
    relabelAt σ p q = q := by
  intro p
  induction p with
  | nil =>
    intro q hq
    cases q with
    | nil => rfl
    | cons k q => simp [isStrictAnc, isAnc] at hq
  | cons a p ih =>
    intro q hq
    cases q with
    | nil => rfl
    | cons b q =>
      simp only [relabelAt]
      split
      · rename_i hab
        subst hab
        rw [ih q]
        simpa [isStrictAnc, isAnc] using hq
      · rfl

theorem relabelAt_len (σ : Nat → Nat) : ∀ (p q : Path), (relabelAt σ p q).length = q.length := by
  intro p
  induction p with
  | nil => intro q; cases q <;> simp [relabelAt]
  | cons a p ih =>
    intro q
    cases q with
    | nil => rfl
    | cons b q =>
      simp only [relabelAt]
      split <;> simp [ih]

theorem relabelAt_comp (σ τ : Nat → Nat) : ∀ (p q : Path),
    relabelAt σ p (relabelAt τ p q) = relabelAt (fun k => σ (τ k)) p q := by
  intro p
  induction p with
  | nil => intro q; cases q <;> simp [relabelAt]
  | cons a p ih =>
    intro q
    cases q with
    | nil => rfl
    | cons b q =>
      by_cases hab : a = b
      · simp [relabelAt, hab, ih]
      · simp [relabelAt, hab]

theorem relabelAt_id (σ : Nat → Nat) (hσ : ∀ k, σ k = k) : ∀ (p q : Path), relabelAt σ p q = q := by
  intro p
  induction p with
  | nil => intro q; cases q <;> simp [relabelAt, hσ]
  | cons a p ih =>
    intro q
    cases q with
    | nil => rfl
    | cons b q =>
      by_cases hab : a = b
      · simp [relabelAt, hab, ih]
      · simp [relabelAt, hab]

theorem relabelAt_invol (σ : Nat → Nat) (hσ : ∀ k, σ (σ k) = k) (p q : Path) :
    relabelAt σ p (relabelAt σ p q) = q := by
  rw [relabelAt_comp]; exact relabelAt_id _ hσ p q

theorem relabelAt_inj (σ : Nat → Nat) (hσ : ∀ a b, σ a = σ b → a = b) : ∀ (p q r : Path),
    relabelAt σ p q = relabelAt σ p r → q = r := by
  intro p
  induction p with
  | nil =>
    intro q r e
    cases q <;> cases r <;> simp_all [relabelAt]
    exact hσ _ _ e.1
  | cons a p ih =>
    intro q r e
    have hl := congrArg List.length e
    rw [relabelAt_len, relabelAt_len] at hl
    cases q with
    | nil =>
      cases r with
      | nil => rfl
      | cons c r => simp at hl
    | cons b q =>
      cases r with
      | nil => simp at hl
      | cons c r =>
        by_cases hab : a = b <;> by_cases hac : a = c
        · subst hab; subst hac
          simp only [relabelAt, if_true, List.cons.injEq, true_and] at e
          rw [ih q r e]
        · subst hab
          simp only [relabelAt, if_true, hac, if_false, List.cons.injEq] at e
          exact e.1.elim
        · subst hac
          simp only [relabelAt, if_true, hab, if_false, List.cons.injEq] at e
          exact absurd e.1.symm (by simpa using hab)
        · simp only [relabelAt, hab, hac, if_false] at e
          exact e

theorem relabelAt_lcp (σ : Nat → Nat) (hσ : ∀ a b, σ a = σ b → a = b) : ∀ (p q r : Path),
    lcp (relabelAt σ p q) (relabelAt σ p r) = relabelAt σ p (lcp q r) := by
  intro p
  induction p with
  | nil =>
    intro q r
    cases q with
    | nil => cases r <;> simp [relabelAt, lcp]
    | cons b q =>
      cases r with
      | nil => simp [relabelAt, lcp]
      | cons c r =>
        by_cases hbc : b = c
        · subst hbc; simp [relabelAt, lcp]
        · have : σ b ≠ σ c := fun e => hbc (hσ _ _ e)
          simp [relabelAt, lcp, hbc, this]
  | cons a p ih =>
    intro q r
    cases q with
    | nil => cases r <;> simp [relabelAt, lcp]
    | cons b q =>
      cases r with
      | nil =>
        simp only [relabelAt]
        split <;> simp [lcp, relabelAt]
      | cons c r =>
        by_cases hbc : b = c
        · subst hbc
          by_cases hab : a = b
          · subst hab; simp [relabelAt, lcp, ih]
          · simp [relabelAt, lcp, hab]
        · by_cases hab : a = b
          · subst hab
            simp [relabelAt, lcp, hbc]
          · by_cases hac : a = c
            · subst hac
              simp [relabelAt, lcp, hbc, hab]
            · simp [relabelAt, lcp, hab, hac, hbc]

theorem relabelAt_emb (σ : Nat → Nat) (hσ : ∀ a b, σ a = σ b → a = b) (p : Path) :
    PathEmb (relabelAt σ p) :=
  ⟨⟨0, relabelAt_len σ p⟩, relabelAt_lcp σ hσ p, relabelAt_inj σ hσ p⟩

/-- `Path.swapAt p i j` is a path embedding … -/
theorem swapAt_emb (p : Path) (i j : Nat) : PathEmb (swapAt p i j) :=
  relabelAt_emb _ (swapNat_inj i j) p

/-- … and an involution. -/
theorem swapAt_invol (p : Path) (i j : Nat) (q : Path) : swapAt p i j (swapAt p i j q) = q :=
  relabelAt_invol _ (swapNat_invol i j) p q

theorem swapAt_left (p : Path) (i j : Nat) (q : Path) : swapAt p i j (p ++ i :: q) = p ++ j :: q := by
  simp [swapAt, relabelAt_append, swapNat]

theorem swapAt_right (p : Path) (i j : Nat) (q : Path) : swapAt p i j (p ++ j :: q) = p ++ i :: q := by
  simp only [swapAt, relabelAt_append, swapNat]
  split <;> simp_all

end Path

/-! #### The species tree with two child subtrees exchanged -/

/-- Exchange the entries `i` and `j` of a list (nothing if one is out of range). -/
def listSwap {α : Type} (cs : List α) (i j : Nat) : List α :=
  match cs[i]?, cs[j]? with
  | some a, some b => (cs.set i b).set j a
  | _, _ => cs

theorem listSwap_getElem? {α : Type} (cs : List α) (i j : Nat) (hi : i < cs.length)
    (hj : j < cs.length) (k : Nat) : (listSwap cs i j)[Path.swapNat i j k]? = cs[k]? := by
  have e1 : cs[i]? = some cs[i] := List.getElem?_eq_getElem hi
  have e2 : cs[j]? = some cs[j] := List.getElem?_eq_getElem hj
  simp only [listSwap, e1, e2, Path.swapNat]
  by_cases hki : k = i
  · subst hki
    simp only [if_true]
    rw [List.getElem?_set_self (by simpa using hj)]
    exact e1.symm
  · simp only [hki, if_false]
    by_cases hkj : k = j
    · subst hkj
      simp only [if_true]
      by_cases hij : i = k
      · exact absurd hij.symm hki
      · rw [List.getElem?_set_ne (by omega), List.getElem?_set_self hi]
        exact e2.symm
    · simp only [hkj, if_false]
      rw [List.getElem?_set_ne (by omega), List.getElem?_set_ne (by omega)]

theorem listSwap_length {α : Type} (cs : List α) (i j : Nat) : (listSwap cs i j).length = cs.length := by
  unfold listSwap
  split <;> simp

namespace RTree

mutual
  /-- Exchange the child subtrees `i` and `j` of the node at path `p`
      (nothing if `p` is not a node or has fewer children). -/
  def swapAt : RTree → Path → Nat → Nat → RTree
    | .node cs, [], i, j => .node (listSwap cs i j)
    | .node cs, a :: p, i, j => .node (swapAtList cs a p i j)
  def swapAtList : List RTree → Nat → Path → Nat → Nat → List RTree
    | [], _, _, _, _ => []
    | c :: cs, 0, p, i, j => swapAt c p i j :: cs
    | c :: cs, a + 1, p, i, j => c :: swapAtList cs a p i j
end

theorem swapAtList_getElem? : ∀ (cs : List RTree) (a : Nat) (p : Path) (i j k : Nat),
    (swapAtList cs a p i j)[k]? =
      if k = a then (cs[k]?).map (fun c => swapAt c p i j) else cs[k]? := by
  intro cs
  induction cs with
  | nil => intro a p i j k; simp [swapAtList]
  | cons c cs ih =>
    intro a p i j k
    cases a with
    | zero =>
      cases k with
      | zero => simp [swapAtList]
      | succ k => simp [swapAtList]
    | succ a =>
      cases k with
      | zero => simp [swapAtList]
      | succ k => simp [swapAtList, ih]

/-- The arity of the node at `p` in `S` (0 if `p` is not a node). -/
def arityAt (S : RTree) (p : Path) : Nat :=
  match S.sub p with
  | some t => t.children.length
  | none => 0

/-- The swapped tree has exactly the swapped paths as nodes. -/
theorem isNode_swapAt : ∀ (p : Path) (S : RTree) (i j : Nat), i < S.arityAt p → j < S.arityAt p →
    ∀ q, (S.swapAt p i j).isNode (Path.swapAt p i j q) = S.isNode q := by
  intro p
  induction p with
  | nil =>
    intro S i j hi hj q
    cases S with
    | node cs =>
      simp only [arityAt, sub, children] at hi hj
      cases q with
      | nil => simp [Path.swapAt, Path.relabelAt, isNode_nil]
      | cons k q =>
        rw [Bool.eq_iff_iff]
        simp only [swapAt, Path.swapAt, Path.relabelAt, isNode_cons, listSwap_getElem? cs i j hi hj]
  | cons a p ih =>
    intro S i j hi hj q
    cases S with
    | node cs =>
      cases q with
      | nil => simp [Path.swapAt, Path.relabelAt, isNode_nil]
      | cons b q =>
        rw [Bool.eq_iff_iff]
        simp only [swapAt, Path.swapAt, Path.relabelAt]
        by_cases hab : a = b
        · subst hab
          simp only [if_true, isNode_cons, swapAtList_getElem?]
          cases hc : cs[a]? with
          | none => simp
          | some c =>
            have hi' : i < c.arityAt p := by simpa [arityAt, sub, hc] using hi
            have hj' : j < c.arityAt p := by simpa [arityAt, sub, hc] using hj
            have := ih c i j hi' hj' q
            simp only [Path.swapAt] at this
            simp [this]
        · have hba : ¬ b = a := fun e => hab e.symm
          simp only [hab, if_false, isNode_cons, swapAtList_getElem?, hba]

mutual
  theorem isBinary_swapAt : ∀ (S : RTree) (p : Path) (i j : Nat),
      (S.swapAt p i j).isBinary = S.isBinary
    | .node cs, [], i, j => by
      simp only [swapAt]
      match cs with
      | [] => simp [listSwap]
      | [x] => cases i <;> cases j <;> simp [listSwap, isBinary]
      | [x, y] =>
        match i, j with
        | 0, 0 => simp [listSwap]
        | 0, 1 => simp [listSwap, isBinary, Bool.and_comm]
        | 1, 0 => simp [listSwap, isBinary, Bool.and_comm]
        | 1, 1 => simp [listSwap]
        | 0, _ + 2 => simp [listSwap]
        | 1, _ + 2 => simp [listSwap]
        | _ + 2, _ => simp [listSwap]
      | x :: y :: z :: r =>
        have h1 : (listSwap (x :: y :: z :: r) i j).length = r.length + 3 := by
          rw [listSwap_length]; simp
        match hL : listSwap (x :: y :: z :: r) i j with
        | [] => rw [hL] at h1; simp at h1
        | [_] => rw [hL] at h1; simp at h1
        | [_, _] => rw [hL] at h1; simp at h1
        | _ :: _ :: _ :: _ => simp [isBinary]
    | .node cs, a :: p, i, j => by
      simp only [swapAt]
      match cs, a with
      | [], _ => simp [swapAtList]
      | [x], 0 => simp [swapAtList, isBinary]
      | [x], _ + 1 => simp [swapAtList, isBinary]
      | [x, y], 0 => simp [swapAtList, isBinary, isBinary_swapAt x p i j]
      | [x, y], 1 => simp [swapAtList, isBinary, isBinary_swapAt y p i j]
      | [x, y], _ + 2 => simp [swapAtList, isBinary]
      | x :: y :: z :: r, 0 => simp [swapAtList, isBinary]
      | x :: y :: z :: r, 1 => simp [swapAtList, isBinary]
      | x :: y :: z :: r, 2 => simp [swapAtList, isBinary]
      | x :: y :: z :: [], _ + 3 => simp [swapAtList, isBinary]
      | x :: y :: z :: w :: r, _ + 3 => simp [swapAtList, isBinary]
end

end RTree

end SR
