/-
  C08, part 5: completeness of `binarize` for arbitrary nesting — generic
  lemmas.

  * clades of a binary tree lie inside its leaves, are non-empty, and only
    depend on the topology (`BinT.skel`);
  * `inner_of_subst`: in `subst σ` (items with pairwise disjoint leaf sets) a
    node whose clade lies inside the leaves of one item is a node of that item
    (the skeleton nodes span at least two items);
  * `decomp`: the laminarity argument.  A binary tree `n` with distinct leaves
    whose leaf set is partitioned by a family of non-empty sets, each of which
    is a singleton or a clade of `n`, is an arrangement `σ` of subtrees of `n`
    carrying exactly those sets: `subst σ` has the topology of `n`.
-/
import SRVerif.Proofs.BinarizeUniq

namespace SR.Bin

open BTree

/-! ### Clades of a binary tree -/

theorem BinT.inner_sub_leaves {b : BinT} {c : List Nat × Option Nat} (hc : c ∈ b.inner) :
    ∀ x ∈ c.1, x ∈ b.leaves := by
  induction b with
  | leaf i => simp [BinT.inner] at hc
  | node a l r ihl ihr =>
    simp only [BinT.inner, List.mem_cons, List.mem_append] at hc
    intro x hx
    simp only [BinT.leaves, List.mem_append]
    rcases hc with rfl | hc | hc
    · simpa using hx
    · exact Or.inl (ihl hc x hx)
    · exact Or.inr (ihr hc x hx)

theorem BinT.exists_mem_leaves (b : BinT) : ∃ x, x ∈ b.leaves := by
  cases h : b.leaves with
  | nil => exact absurd h (BinT.leaves_ne_nil b)
  | cons x _ => exact ⟨x, by simp⟩

theorem BinT.inner_exists_mem {b : BinT} {c : List Nat × Option Nat} (hc : c ∈ b.inner) :
    ∃ x, x ∈ c.1 := by
  induction b with
  | leaf i => simp [BinT.inner] at hc
  | node a l r ihl ihr =>
    simp only [BinT.inner, List.mem_cons, List.mem_append] at hc
    rcases hc with rfl | hc | hc
    · obtain ⟨x, hx⟩ := BinT.exists_mem_leaves l
      exact ⟨x, by simp [hx]⟩
    · exact ihl hc
    · exact ihr hc

theorem BinT.leaves_eq_of_skel {a b : BinT} (h : a.skel = b.skel) : a.leaves = b.leaves := by
  rw [← BinT.items_skel, ← BinT.items_skel, h]

/-- The clades only depend on the topology. -/
theorem BinT.clades_eq_of_skel {a b : BinT} (h : a.skel = b.skel) :
    a.inner.map Prod.fst = b.inner.map Prod.fst := by
  induction a generalizing b with
  | leaf i =>
    cases b with
    | leaf j => rfl
    | node _ _ _ => simp [BinT.skel] at h
  | node x l r ihl ihr =>
    cases b with
    | leaf j => simp [BinT.skel] at h
    | node y l' r' =>
      simp only [BinT.skel, BTree.node.injEq] at h
      simp only [BinT.inner, List.map_cons, List.map_append, ihl h.1, ihr h.2,
        BinT.leaves_eq_of_skel h.1, BinT.leaves_eq_of_skel h.2]

theorem BinT.eq_leaf_of_length {b : BinT} (h : b.leaves.length = 1) : ∃ i, b = .leaf i := by
  cases b with
  | leaf i => exact ⟨i, rfl⟩
  | node a l r =>
    exfalso
    obtain ⟨x, hx⟩ := BinT.exists_mem_leaves l
    obtain ⟨y, hy⟩ := BinT.exists_mem_leaves r
    have h1 := List.length_pos_of_mem hx
    have h2 := List.length_pos_of_mem hy
    simp only [BinT.leaves, List.length_append] at h
    omega

/-! ### Nodes of `subst σ` inside one item -/

/-- With pairwise disjoint items, a node of `subst σ` whose clade lies inside
    the leaves of the item `d` is a node of `d`. -/
theorem inner_of_subst (σ : BTree BinT) (hnd : (σ.items.flatMap BinT.leaves).Nodup)
    {c : List Nat × Option Nat} (hc : c ∈ (subst σ).inner) {d : BinT} (hd : d ∈ σ.items)
    (hsub : ∀ x ∈ c.1, x ∈ d.leaves) : c ∈ d.inner := by
  induction σ with
  | item d0 =>
    simp only [BTree.items, List.mem_singleton] at hd
    subst hd; exact hc
  | node l r ihl ihr =>
    simp only [BTree.items, List.flatMap_append, List.nodup_append] at hnd
    obtain ⟨hndl, hndr, hdis⟩ := hnd
    simp only [BTree.items, List.mem_append] at hd
    simp only [subst, BinT.inner, List.mem_cons, List.mem_append] at hc
    -- a leaf below `l` and a leaf below `r` are different
    have hdis' : ∀ d1 ∈ l.items, ∀ d2 ∈ r.items, ∀ x ∈ d1.leaves, x ∈ d2.leaves → False :=
      fun d1 h1 d2 h2 x hx1 hx2 =>
        hdis x (List.mem_flatMap.mpr ⟨d1, h1, hx1⟩) x (List.mem_flatMap.mpr ⟨d2, h2, hx2⟩) rfl
    rcases hc with rfl | hc | hc
    · -- the skeleton node spans an item on each side
      exfalso
      obtain ⟨d1, hd1⟩ := BTree.exists_mem_items l
      obtain ⟨d2, hd2⟩ := BTree.exists_mem_items r
      obtain ⟨x1, hx1⟩ := BinT.exists_mem_leaves d1
      obtain ⟨x2, hx2⟩ := BinT.exists_mem_leaves d2
      have m1 : x1 ∈ d.leaves := hsub x1 (by
        simp only [leaves_subst, List.mem_append, List.mem_flatMap]
        exact Or.inl ⟨d1, hd1, hx1⟩)
      have m2 : x2 ∈ d.leaves := hsub x2 (by
        simp only [leaves_subst, List.mem_append, List.mem_flatMap]
        exact Or.inr ⟨d2, hd2, hx2⟩)
      rcases hd with hd | hd
      · exact hdis' d hd d2 hd2 x2 m2 hx2
      · exact hdis' d1 hd1 d hd x1 hx1 m1
    · rcases hd with hd | hd
      · exact ihl hndl hc hd
      · exfalso
        obtain ⟨x, hx⟩ := BinT.inner_exists_mem hc
        have hxl := BinT.inner_sub_leaves hc x hx
        rw [leaves_subst, List.mem_flatMap] at hxl
        obtain ⟨d1, hd1, hx1⟩ := hxl
        exact hdis' d1 hd1 d hd x hx1 (hsub x hx)
    · rcases hd with hd | hd
      · exfalso
        obtain ⟨x, hx⟩ := BinT.inner_exists_mem hc
        have hxr := BinT.inner_sub_leaves hc x hx
        rw [leaves_subst, List.mem_flatMap] at hxr
        obtain ⟨d2, hd2, hx2⟩ := hxr
        exact hdis' d hd d2 hd2 x (hsub x hx) hx2
      · exact ihr hndr hc hd

/-! ### Families of non-empty sets -/

section Fam

variable {γ : Type} (key : γ → List Nat)

theorem fam_eq_nil {F : List γ} (hne : ∀ c ∈ F, key c ≠ []) (h : F.flatMap key = []) : F = [] := by
  cases F with
  | nil => rfl
  | cons c F' =>
    exfalso
    rw [List.flatMap_cons, List.append_eq_nil_iff] at h
    exact hne c (by simp) h.1

/-- A member as large as the whole family is the only member. -/
theorem fam_eq_singleton {F : List γ} (hne : ∀ c ∈ F, key c ≠ []) {c : γ} (hc : c ∈ F)
    (h : (key c).length = (F.flatMap key).length) : F = [c] := by
  obtain ⟨s, t, rfl⟩ := List.append_of_mem hc
  simp only [List.flatMap_append, List.flatMap_cons, List.length_append] at h
  have hs : s = [] := fam_eq_nil key (fun c' hc' => hne c' (by simp [hc']))
    (List.eq_nil_of_length_eq_zero (by omega))
  have ht : t = [] := fam_eq_nil key (fun c' hc' => hne c' (by simp [hc']))
    (List.eq_nil_of_length_eq_zero (by omega))
  subst hs; subst ht; rfl

theorem flatMap_filter_perm (p : γ → Bool) (F : List γ) :
    ((F.filter p).flatMap key ++ (F.filter (fun c => !p c)).flatMap key).Perm (F.flatMap key) := by
  induction F with
  | nil => simp
  | cons c F ih =>
    cases hp : p c
    · simp only [List.filter_cons, hp, Bool.false_eq_true, if_false, Bool.not_false, if_true,
        List.flatMap_cons]
      exact (List.perm_append_comm_assoc _ _ _).trans (List.Perm.append_left _ ih)
    · simp only [List.filter_cons, hp, if_true, Bool.not_true, Bool.false_eq_true, if_false,
        List.flatMap_cons, List.append_assoc]
      exact List.Perm.append_left _ ih

/-- Merging position-wise relations along a partition of the second list. -/
theorem All2.merge {β : Type} {R : β → γ → Prop} (p : γ → Bool) :
    ∀ (F : List γ) (xs ys : List β), All2 R xs (F.filter p) →
      All2 R ys (F.filter (fun c => !p c)) → ∃ zs, zs.Perm (xs ++ ys) ∧ All2 R zs F
  | [], xs, ys, hx, hy => by
    cases hx; cases hy; exact ⟨[], .refl _, All2.nil⟩
  | c :: F, xs, ys, hx, hy => by
    cases hp : p c
    · simp only [List.filter_cons, hp, Bool.false_eq_true, if_false, Bool.not_false, if_true] at hx hy
      cases hy with
      | cons hh ht =>
        obtain ⟨zs, hz, ha⟩ := All2.merge p F xs _ hx ht
        exact ⟨_ :: zs, (hz.cons _).trans List.perm_middle.symm, All2.cons hh ha⟩
    · simp only [List.filter_cons, hp, if_true, Bool.not_true, Bool.false_eq_true, if_false] at hx hy
      cases hx with
      | cons hh ht =>
        obtain ⟨zs, hz, ha⟩ := All2.merge p F _ ys ht hy
        exact ⟨_ :: zs, hz.cons _, All2.cons hh ha⟩

end Fam

theorem All2.flatMap_perm {β γ : Type} {f : β → List Nat} {g : γ → List Nat} {xs : List β}
    {ys : List γ} (h : All2 (fun x y => (f x).Perm (g y)) xs ys) :
    (xs.flatMap f).Perm (ys.flatMap g) := by
  induction h with
  | nil => exact .refl _
  | cons hh _ ih => simp only [List.flatMap_cons]; exact hh.append ih

theorem All2.imp_of_mem {β γ : Type} {R S : β → γ → Prop} {xs : List β} {ys : List γ}
    (h : All2 R xs ys) (hRS : ∀ x ∈ xs, ∀ y ∈ ys, R x y → S x y) : All2 S xs ys := by
  induction h with
  | nil => exact All2.nil
  | cons hh _ ih =>
    exact All2.cons (hRS _ (by simp) _ (by simp) hh)
      (ih fun x hx y hy => hRS x (by simp [hx]) y (by simp [hy]))

/-! ### The decomposition -/

/-- Laminarity: a binary tree with distinct leaves whose leaves are
    partitioned by the non-empty sets `key c`, `c ∈ F`, each a singleton or a
    clade of the tree, is an arrangement of subtrees carrying those sets. -/
theorem decomp {γ : Type} (key : γ → List Nat) (n : BinT) :
    ∀ (F : List γ), n.leaves.Nodup → n.leaves.Perm (F.flatMap key) →
      (∀ c ∈ F, key c ≠ []) →
      (∀ c ∈ F, (key c).length = 1 ∨ ∃ c' ∈ n.inner, c'.1.Perm (key c)) →
      ∃ σ : BTree BinT, (subst σ).skel = n.skel ∧
        ∃ ds, σ.items.Perm ds ∧ All2 (fun d c => d.leaves.Perm (key c)) ds F := by
  induction n with
  | leaf i =>
    intro F _ hp hne _
    have hc : ∃ c, c ∈ F := by
      cases F with
      | nil => simp [BinT.leaves] at hp
      | cons c _ => exact ⟨c, by simp⟩
    obtain ⟨c, hc⟩ := hc
    have hlen := hp.length_eq
    have h1 : 0 < (key c).length := List.length_pos_iff.mpr (hne c hc)
    have h2 : (key c).length ≤ (F.flatMap key).length := by
      obtain ⟨s, t, rfl⟩ := List.append_of_mem hc
      simp only [List.flatMap_append, List.flatMap_cons, List.length_append]; omega
    simp only [BinT.leaves, List.length_singleton] at hlen
    have hF := fam_eq_singleton key hne hc (by omega)
    subst hF
    refine ⟨.item (.leaf i), rfl, [.leaf i], .refl _, All2.cons ?_ All2.nil⟩
    simpa using hp
  | node a l r ihl ihr =>
    intro F hnd hp hne hcl
    by_cases hone : ∃ c, F = [c]
    · obtain ⟨c, rfl⟩ := hone
      refine ⟨.item (.node a l r), rfl, [.node a l r], .refl _, All2.cons ?_ All2.nil⟩
      simpa using hp
    · simp only [BinT.leaves, List.nodup_append] at hnd
      obtain ⟨hndl, hndr, hdis⟩ := hnd
      have hdis' : ∀ x, x ∈ l.leaves → x ∈ r.leaves → False := fun x h1 h2 => hdis x h1 x h2 rfl
      -- every member lies on one side
      have hside : ∀ c ∈ F, (∀ x ∈ key c, x ∈ l.leaves) ∨ (∀ x ∈ key c, x ∈ r.leaves) := by
        intro c hc
        rcases hcl c hc with h1 | ⟨c', hc', hpc⟩
        · obtain ⟨x, hx⟩ : ∃ x, key c = [x] := List.length_eq_one_iff.mp h1
          have : x ∈ (BinT.node a l r).leaves :=
            hp.mem_iff.mpr (List.mem_flatMap.mpr ⟨c, hc, by simp [hx]⟩)
          simp only [BinT.leaves, List.mem_append] at this
          rcases this with h | h
          · exact Or.inl (by simp [hx, h])
          · exact Or.inr (by simp [hx, h])
        · simp only [BinT.inner, List.mem_cons, List.mem_append] at hc'
          rcases hc' with rfl | hc' | hc'
          · exfalso
            apply hone
            exact ⟨c, fam_eq_singleton key hne hc (hpc.symm.trans hp).length_eq⟩
          · exact Or.inl fun x hx => BinT.inner_sub_leaves hc' x (hpc.mem_iff.mpr hx)
          · exact Or.inr fun x hx => BinT.inner_sub_leaves hc' x (hpc.mem_iff.mpr hx)
      let p : γ → Bool := fun c => (key c).all (fun x => l.leaves.contains x)
      have hpt : ∀ c ∈ F, p c = true → ∀ x ∈ key c, x ∈ l.leaves := by
        intro c _ h x hx
        simp only [p, List.all_eq_true, List.contains_iff_mem] at h
        exact h x hx
      have hpf : ∀ c ∈ F, p c = false → ∀ x ∈ key c, x ∈ r.leaves := by
        intro c hc h
        rcases hside c hc with hs | hs
        · exfalso
          have : p c = true := by
            simp only [p, List.all_eq_true, List.contains_iff_mem]; exact hs
          rw [h] at this; cases this
        · exact hs
      have hperm := (flatMap_filter_perm key p F).trans hp.symm
      have hndF : ((F.filter p).flatMap key ++ (F.filter (fun c => !p c)).flatMap key).Nodup :=
        hperm.nodup_iff.mpr (by
          simp only [BinT.leaves, List.nodup_append]; exact ⟨hndl, hndr, hdis⟩)
      rw [List.nodup_append] at hndF
      have hinl : ∀ x ∈ (F.filter p).flatMap key, x ∈ l.leaves := by
        intro x hx
        obtain ⟨c, hc, hxc⟩ := List.mem_flatMap.mp hx
        rw [List.mem_filter] at hc
        exact hpt c hc.1 hc.2 x hxc
      have hinr : ∀ x ∈ (F.filter (fun c => !p c)).flatMap key, x ∈ r.leaves := by
        intro x hx
        obtain ⟨c, hc, hxc⟩ := List.mem_flatMap.mp hx
        rw [List.mem_filter] at hc
        exact hpf c hc.1 (by simpa using hc.2) x hxc
      have hpl : l.leaves.Perm ((F.filter p).flatMap key) := by
        refine (List.perm_ext_iff_of_nodup hndl hndF.1).mpr fun x => ⟨fun hx => ?_, hinl x⟩
        have : x ∈ (F.filter p).flatMap key ++ (F.filter (fun c => !p c)).flatMap key :=
          hperm.mem_iff.mpr (by simp [BinT.leaves, hx])
        rcases List.mem_append.mp this with h | h
        · exact h
        · exact absurd (hinr x h) (fun h' => hdis' x hx h')
      have hpr : r.leaves.Perm ((F.filter (fun c => !p c)).flatMap key) := by
        refine (List.perm_ext_iff_of_nodup hndr hndF.2.1).mpr fun x => ⟨fun hx => ?_, hinr x⟩
        have : x ∈ (F.filter p).flatMap key ++ (F.filter (fun c => !p c)).flatMap key :=
          hperm.mem_iff.mpr (by simp [BinT.leaves, hx])
        rcases List.mem_append.mp this with h | h
        · exact absurd (hinl x h) (fun h' => hdis' x h' hx)
        · exact h
      obtain ⟨σl, hsl, dsl, hdl, hal⟩ := ihl (F.filter p) hndl hpl
        (fun c hc => hne c (List.mem_filter.mp hc).1)
        (by
          intro c hc
          rw [List.mem_filter] at hc
          rcases hcl c hc.1 with h1 | ⟨c', hc', hpc⟩
          · exact Or.inl h1
          · right
            simp only [BinT.inner, List.mem_cons, List.mem_append] at hc'
            rcases hc' with rfl | hc' | hc'
            · exact absurd ⟨c, fam_eq_singleton key hne hc.1 (hpc.symm.trans hp).length_eq⟩ hone
            · exact ⟨c', hc', hpc⟩
            · exfalso
              obtain ⟨x, hx⟩ := BinT.inner_exists_mem hc'
              exact hdis' x (hpt c hc.1 hc.2 x (hpc.mem_iff.mp hx)) (BinT.inner_sub_leaves hc' x hx))
      obtain ⟨σr, hsr, dsr, hdr, har⟩ := ihr (F.filter (fun c => !p c)) hndr hpr
        (fun c hc => hne c (List.mem_filter.mp hc).1)
        (by
          intro c hc
          rw [List.mem_filter] at hc
          have hc2 : p c = false := by simpa using hc.2
          rcases hcl c hc.1 with h1 | ⟨c', hc', hpc⟩
          · exact Or.inl h1
          · right
            simp only [BinT.inner, List.mem_cons, List.mem_append] at hc'
            rcases hc' with rfl | hc' | hc'
            · exact absurd ⟨c, fam_eq_singleton key hne hc.1 (hpc.symm.trans hp).length_eq⟩ hone
            · exfalso
              obtain ⟨x, hx⟩ := BinT.inner_exists_mem hc'
              exact hdis' x (BinT.inner_sub_leaves hc' x hx) (hpf c hc.1 hc2 x (hpc.mem_iff.mp hx))
            · exact ⟨c', hc', hpc⟩)
      obtain ⟨zs, hz, ha⟩ := All2.merge p F dsl dsr hal har
      refine ⟨.node σl σr, by simp [subst, BinT.skel, hsl, hsr], zs, ?_, ha⟩
      simp only [BTree.items]
      exact (hdl.append hdr).trans hz.symm

end SR.Bin
