/-
  What one table entry of the label DP computes, in terms of *which child cell is
  offered to which role with which value* (`roleVal`) and of the six event
  combinations (`events`):

  * `entry_le`      every applicable (event, left cell, right cell) bounds the entry value;
  * `entry_attained` every retained tag pair comes from an applicable triple of that value;
  * `entry_all`     every applicable triple attaining the (finite) value is retained.

  This is the separable minimum of `Proofs/Agg.lean` applied to the five role
  aggregates of each child.
-/
import SRVerif.Proofs.Agg
import SRVerif.Proofs.LabelDPPaths

namespace SR

open Cost Path

inductive RoleId where
  | left | right | cons | seg | sep
  deriving DecidableEq, Repr

def Roles.get {τ : Type} (r : Roles τ) : RoleId → Agg τ
  | .left => r.left
  | .right => r.right
  | .cons => r.cons
  | .seg => r.seg
  | .sep => r.sep

/-- The value with which a child placed at `x` (sub-cost `cost`, conserved /
    segment edge costs `cv` / `sv`) is offered to role `ρ` of species `s`;
    `none` when it is not offered to that role. -/
def rv (c : Costs) (S : RTree) (s : Path) (ρ : RoleId) (x : Path) (cost cv sv : Cost) : Option Cost :=
  match ρ with
  | .cons => if isAnc s x then some (.fin (c.floss * dist s x) + cost + cv) else none
  | .seg => if isAnc s x then some (.fin (c.floss * dist s x) + cost + sv) else none
  | .left =>
    if isAnc s x && !speciesIsLeaf S s && isAnc (s ++ [0]) x then
      some (.fin (c.floss * (dist s x - 1)) + cost + cv) else none
  | .right =>
    if isAnc s x && !speciesIsLeaf S s && !isAnc (s ++ [0]) x && isAnc (s ++ [1]) x then
      some (.fin (c.floss * (dist s x - 1)) + cost + cv) else none
  | .sep => if !isAnc s x && !isAnc x s then some (cost + sv) else none

def cellTag {Lab : Type} (cell : DCell Lab) : Path × Lab := (cell.sp, cell.lab)

/-- The six event combinations of `entryCands`: event cost, role of the left
    child, role of the right child. -/
def events (c : Costs) : List (Cost × RoleId × RoleId) :=
  [(.fin c.spe, .left, .right), (.fin c.spe, .right, .left),
   (.fin c.dup, .cons, .seg), (.fin c.dup, .seg, .cons),
   (c.hgt, .cons, .sep), (c.hgt, .sep, .cons)]

theorem entryCands_eq {Lab : Type} [DecidableEq Lab] (c : Costs) (r0 r1 : Roles (Path × Lab)) :
    entryCands c r0 r1 =
      (events c).flatMap (fun ev => Agg.comb ev.1 (r0.get ev.2.1) (r1.get ev.2.2)) := by
  simp [entryCands, events, Roles.get]

section

variable {α Lab : Type} [DecidableEq Lab]

def roleVal (A : LabelAlg α Lab) (c : Costs) (S : RTree) (a : α) (s : Path) (lab : Lab) (ca : α)
    (ρ : RoleId) (cell : DCell Lab) : Option Cost :=
  rv c S s ρ cell.sp cell.cost (A.conserv a lab ca cell.lab) (A.segment a lab ca cell.lab)

theorem offer_get (A : LabelAlg α Lab) (c : Costs) (S : RTree) (a : α) (s : Path) (lab : Lab) (ca : α)
    (r : Roles (Path × Lab)) (cell : DCell Lab) (ρ : RoleId) :
    (offer A c S a s lab ca r cell).get ρ =
      match roleVal A c S a s lab ca ρ cell with
      | some v => (r.get ρ).update v (cellTag cell)
      | none => r.get ρ := by
  cases h1 : isAnc s cell.sp <;> cases h2 : speciesIsLeaf S s <;>
    cases h3 : isAnc (s ++ [0]) cell.sp <;> cases h4 : isAnc (s ++ [1]) cell.sp <;>
    cases h5 : isAnc cell.sp s <;> cases ρ <;>
    simp [offer, roleVal, rv, Roles.get, cellTag, h1, h2, h3, h4, h5]

/-- The candidates offered to role `ρ` by a list of child cells. -/
def roleCands (A : LabelAlg α Lab) (c : Costs) (S : RTree) (a : α) (s : Path) (lab : Lab) (ca : α)
    (ρ : RoleId) (cells : List (DCell Lab)) : List (Cost × (Path × Lab)) :=
  cells.filterMap (fun cell => (roleVal A c S a s lab ca ρ cell).map (fun v => (v, cellTag cell)))

theorem foldl_offer_get (A : LabelAlg α Lab) (c : Costs) (S : RTree) (a : α) (s : Path) (lab : Lab)
    (ca : α) (ρ : RoleId) (cells : List (DCell Lab)) (r : Roles (Path × Lab)) :
    (cells.foldl (offer A c S a s lab ca) r).get ρ =
      Agg.offerAll (r.get ρ) (roleCands A c S a s lab ca ρ cells) := by
  induction cells generalizing r with
  | nil => simp [roleCands, Agg.offerAll]
  | cons cell cells ih =>
    rw [List.foldl_cons, ih, offer_get]
    cases h : roleVal A c S a s lab ca ρ cell with
    | none => simp [roleCands, h]
    | some v => simp [roleCands, h, Agg.offerAll]

theorem roles_get (A : LabelAlg α Lab) (c : Costs) (S : RTree) (a : α) (s : Path) (lab : Lab)
    (ca : α) (ρ : RoleId) (cells : List (DCell Lab)) :
    (roles A c S a s lab ca cells).get ρ = Agg.ofList (roleCands A c S a s lab ca ρ cells) := by
  unfold roles
  rw [foldl_offer_get]
  cases ρ <;> rfl

omit [DecidableEq Lab] in
theorem mem_roleCands {A : LabelAlg α Lab} {c : Costs} {S : RTree} {a : α} {s : Path} {lab : Lab}
    {ca : α} {ρ : RoleId} {cells : List (DCell Lab)} {p : Cost × (Path × Lab)} :
    p ∈ roleCands A c S a s lab ca ρ cells ↔
      ∃ cell ∈ cells, roleVal A c S a s lab ca ρ cell = some p.1 ∧ cellTag cell = p.2 := by
  simp only [roleCands, List.mem_filterMap, Option.map_eq_some_iff]
  constructor
  · rintro ⟨cell, hc, v, hv, rfl⟩; exact ⟨cell, hc, hv, rfl⟩
  · rintro ⟨cell, hc, hv, ht⟩; exact ⟨cell, hc, p.1, hv, by rw [ht]⟩

/-- Specification of one role aggregate. -/
theorem roles_spec (A : LabelAlg α Lab) (c : Costs) (S : RTree) (a : α) (s : Path) (lab : Lab)
    (ca : α) (ρ : RoleId) (cells : List (DCell Lab)) :
    let ag := (roles A c S a s lab ca cells).get ρ
    (∀ cell ∈ cells, ∀ v, roleVal A c S a s lab ca ρ cell = some v → ag.val ≼ v) ∧
    (∀ t, t ∈ ag.tags ↔
      ∃ cell ∈ cells, roleVal A c S a s lab ca ρ cell = some ag.val ∧ cellTag cell = t) ∧
    (∀ cell ∈ cells, ∀ v, roleVal A c S a s lab ca ρ cell = some v → ∃ t, t ∈ ag.tags) := by
  intro ag
  have hag : ag = Agg.ofList (roleCands A c S a s lab ca ρ cells) := roles_get ..
  have inv := Agg.inv_ofList (roleCands A c S a s lab ca ρ cells)
  rw [← hag] at inv
  refine ⟨?_, ?_, ?_⟩
  · intro cell hc v hv
    exact inv.lower (v, cellTag cell) (mem_roleCands.mpr ⟨cell, hc, hv, rfl⟩)
  · intro t
    rw [inv.tags t]
    constructor
    · rintro ⟨p, hp, rfl, hv⟩
      obtain ⟨cell, hc, h1, h2⟩ := mem_roleCands.mp hp
      exact ⟨cell, hc, hv ▸ h1, h2⟩
    · rintro ⟨cell, hc, h1, rfl⟩
      exact ⟨(ag.val, cellTag cell), mem_roleCands.mpr ⟨cell, hc, h1, rfl⟩, rfl, rfl⟩
  · intro cell hc v hv
    apply inv.tags_ne_nil
    intro hnil
    have : (v, cellTag cell) ∈ roleCands A c S a s lab ca ρ cells :=
      mem_roleCands.mpr ⟨cell, hc, hv, rfl⟩
    rw [hnil] at this; cases this

/-- The candidate list of an entry. -/
def cands (A : LabelAlg α Lab) (c : Costs) (S : RTree) (a : α) (s : Path) (lab : Lab) (la ra : α)
    (L R : List (DCell Lab)) : List (Cost × ((Path × Lab) × (Path × Lab))) :=
  entryCands c (roles A c S a s lab la L) (roles A c S a s lab ra R)

/-- The value of an entry. -/
def best (A : LabelAlg α Lab) (c : Costs) (S : RTree) (a : α) (s : Path) (lab : Lab) (la ra : α)
    (L R : List (DCell Lab)) : Cost :=
  Cost.minList ((cands A c S a s lab la ra L R).map (·.1))

theorem mem_cands {A : LabelAlg α Lab} {c : Costs} {S : RTree} {a : α} {s : Path} {lab : Lab}
    {la ra : α} {L R : List (DCell Lab)} {v : Cost} {t0 t1 : Path × Lab} :
    (v, (t0, t1)) ∈ cands A c S a s lab la ra L R ↔
      ∃ ev ∈ events c,
        t0 ∈ ((roles A c S a s lab la L).get ev.2.1).tags ∧
        t1 ∈ ((roles A c S a s lab ra R).get ev.2.2).tags ∧
        v = ev.1 + ((roles A c S a s lab la L).get ev.2.1).val +
          ((roles A c S a s lab ra R).get ev.2.2).val := by
  simp only [cands, entryCands_eq, List.mem_flatMap, Agg.mem_comb]

variable (A : LabelAlg α Lab) (c : Costs) (S : RTree) (a : α) (s : Path) (lab : Lab) (la ra : α)
  (L R : List (DCell Lab))

/-- **Upper bound**: every applicable (event, left cell, right cell) bounds the
    value of the entry from above. -/
theorem entry_le {ev : Cost × RoleId × RoleId} (hev : ev ∈ events c) {dl dr : DCell Lab}
    (hl : dl ∈ L) (hr : dr ∈ R) {v0 v1 : Cost}
    (h0 : roleVal A c S a s lab la ev.2.1 dl = some v0)
    (h1 : roleVal A c S a s lab ra ev.2.2 dr = some v1) :
    best A c S a s lab la ra L R ≼ ev.1 + v0 + v1 := by
  obtain ⟨hle0, _, hne0⟩ := roles_spec A c S a s lab la ev.2.1 L
  obtain ⟨hle1, _, hne1⟩ := roles_spec A c S a s lab ra ev.2.2 R
  obtain ⟨t0, ht0⟩ := hne0 dl hl v0 h0
  obtain ⟨t1, ht1⟩ := hne1 dr hr v1 h1
  have hmem : (ev.1 + ((roles A c S a s lab la L).get ev.2.1).val +
      ((roles A c S a s lab ra R).get ev.2.2).val, (t0, t1)) ∈ cands A c S a s lab la ra L R :=
    mem_cands.mpr ⟨ev, hev, ht0, ht1, rfl⟩
  refine le_trans (minList_le (List.mem_map.mpr ⟨_, hmem, rfl⟩)) ?_
  exact add_le_add (add_le_add (le_refl _) (hle0 dl hl v0 h0)) (hle1 dr hr v1 h1)

/-- **Attainment**: every candidate comes from an applicable triple whose value it carries. -/
theorem entry_attained {v : Cost} {t0 t1 : Path × Lab}
    (h : (v, (t0, t1)) ∈ cands A c S a s lab la ra L R) :
    ∃ ev ∈ events c, ∃ dl ∈ L, ∃ dr ∈ R, ∃ v0 v1,
      roleVal A c S a s lab la ev.2.1 dl = some v0 ∧
      roleVal A c S a s lab ra ev.2.2 dr = some v1 ∧
      cellTag dl = t0 ∧ cellTag dr = t1 ∧ v = ev.1 + v0 + v1 := by
  obtain ⟨ev, hev, ht0, ht1, hv⟩ := mem_cands.mp h
  obtain ⟨_, htag0, _⟩ := roles_spec A c S a s lab la ev.2.1 L
  obtain ⟨_, htag1, _⟩ := roles_spec A c S a s lab ra ev.2.2 R
  obtain ⟨dl, hl, h0, e0⟩ := (htag0 t0).mp ht0
  obtain ⟨dr, hr, h1, e1⟩ := (htag1 t1).mp ht1
  exact ⟨ev, hev, dl, hl, dr, hr, _, _, h0, h1, e0, e1, hv⟩

/-- **Completeness**: an applicable triple attaining the finite value of the
    entry has its tag pair among the candidates of that value. -/
theorem entry_all {ev : Cost × RoleId × RoleId} (hev : ev ∈ events c) {dl dr : DCell Lab}
    (hl : dl ∈ L) (hr : dr ∈ R) {v0 v1 : Cost}
    (h0 : roleVal A c S a s lab la ev.2.1 dl = some v0)
    (h1 : roleVal A c S a s lab ra ev.2.2 dr = some v1)
    (heq : ev.1 + v0 + v1 = best A c S a s lab la ra L R)
    (hfin : best A c S a s lab la ra L R ≠ inf) :
    (best A c S a s lab la ra L R, (cellTag dl, cellTag dr)) ∈ cands A c S a s lab la ra L R := by
  obtain ⟨hle0, htag0, hne0⟩ := roles_spec A c S a s lab la ev.2.1 L
  obtain ⟨hle1, htag1, hne1⟩ := roles_spec A c S a s lab ra ev.2.2 R
  obtain ⟨t0, ht0⟩ := hne0 dl hl v0 h0
  obtain ⟨t1, ht1⟩ := hne1 dr hr v1 h1
  have hmem : (ev.1 + ((roles A c S a s lab la L).get ev.2.1).val +
      ((roles A c S a s lab ra R).get ev.2.2).val, (t0, t1)) ∈ cands A c S a s lab la ra L R :=
    mem_cands.mpr ⟨ev, hev, ht0, ht1, rfl⟩
  have hb : best A c S a s lab la ra L R ≼ _ := minList_le (List.mem_map.mpr ⟨_, hmem, rfl⟩)
  obtain ⟨n, hn⟩ := ne_inf_iff.mp hfin
  have := eq_of_add_le (e := ev.1) (hle0 dl hl v0 h0) (hle1 dr hr v1 h1) (heq.trans hn)
    (by rw [heq]; exact hb)
  refine mem_cands.mpr ⟨ev, hev, ?_, ?_, ?_⟩
  · exact (htag0 _).mpr ⟨dl, hl, by rw [this.1]; exact h0, rfl⟩
  · exact (htag1 _).mpr ⟨dr, hr, by rw [this.2]; exact h1, rfl⟩
  · rw [this.1, this.2]; exact heq.symm

/-- A finite entry value is the value of some candidate. -/
theorem best_attained (hfin : best A c S a s lab la ra L R ≠ inf) :
    ∃ t0 t1, (best A c S a s lab la ra L R, (t0, t1)) ∈ cands A c S a s lab la ra L R := by
  rcases minList_mem_or_inf ((cands A c S a s lab la ra L R).map (·.1)) with h | h
  · exact absurd h hfin
  · obtain ⟨⟨v, t0, t1⟩, hp, hv⟩ := List.mem_map.mp h
    refine ⟨t0, t1, ?_⟩
    have : v = best A c S a s lab la ra L R := hv
    rw [← this]; exact hp

/-! ### `findCell` and `entry` -/

omit [DecidableEq Lab] in
theorem cellTag_eq {d : DCell Lab} {t : Path × Lab} : cellTag d = t ↔ d.sp = t.1 ∧ d.lab = t.2 := by
  cases t; simp [cellTag]

theorem findCell_some {cells : List (DCell Lab)} {t : Path × Lab} {d : DCell Lab}
    (h : findCell cells t = some d) : d ∈ cells ∧ cellTag d = t := by
  unfold findCell at h
  refine ⟨List.mem_of_find?_eq_some h, ?_⟩
  have := List.find?_some h
  simp only [Bool.and_eq_true, beq_iff_eq] at this
  exact cellTag_eq.mpr this

theorem findCell_of_mem {cells : List (DCell Lab)} {d : DCell Lab} (h : d ∈ cells) :
    ∃ d', findCell cells (cellTag d) = some d' := by
  unfold findCell
  cases hf : cells.find? (fun d' => d'.sp == (cellTag d).1 && d'.lab == (cellTag d).2) with
  | some d' => exact ⟨d', rfl⟩
  | none =>
    have := List.find?_eq_none.mp hf d h
    simp [cellTag] at this

theorem entry_eq_none :
    entry A c S keep a s lab la ra L R = none ↔ best A c S a s lab la ra L R = inf := by
  unfold entry
  show (if (best A c S a s lab la ra L R).isInf = true then none else some _) = none ↔ _
  cases h : best A c S a s lab la ra L R <;> simp [isInf]

theorem entry_eq_some {keep : Bool} {d : DCell Lab}
    (h : entry A c S keep a s lab la ra L R = some d) :
    d.sp = s ∧ d.lab = lab ∧ d.cost = best A c S a s lab la ra L R ∧
    best A c S a s lab la ra L R ≠ inf ∧
    (keep = true → ∀ ls, ls ∈ d.sols ↔
      ∃ t0 t1 cl cr x y, (best A c S a s lab la ra L R, (t0, t1)) ∈ cands A c S a s lab la ra L R ∧
        findCell L t0 = some cl ∧ findCell R t1 = some cr ∧ x ∈ cl.sols ∧ y ∈ cr.sols ∧
        ls = .node s lab x y) ∧
    (keep = false → d.sols = []) := by
  unfold entry at h
  change (if (best A c S a s lab la ra L R).isInf = true then none else some _) = some d at h
  by_cases hb : (best A c S a s lab la ra L R).isInf = true
  · rw [if_pos hb] at h; cases h
  · rw [if_neg hb] at h
    have hfin : best A c S a s lab la ra L R ≠ inf := by
      intro e; rw [e] at hb; simp [isInf] at hb
    injection h with h
    subst h
    refine ⟨rfl, rfl, rfl, hfin, ?_, ?_⟩
    · intro hk ls
      subst hk
      simp only [if_true, List.mem_flatMap, mem_dedup, List.mem_map, List.mem_filter,
        decide_eq_true_eq]
      constructor
      · rintro ⟨⟨t0, t1⟩, ⟨⟨v, t0', t1'⟩, ⟨hp, hv⟩, ht⟩, hls⟩
        simp only [Prod.mk.injEq] at ht
        obtain ⟨rfl, rfl⟩ := ht
        cases h0 : findCell L t0' with
        | none => simp [h0] at hls
        | some cl =>
          cases h1 : findCell R t1' with
          | none => simp [h0, h1] at hls
          | some cr =>
            simp only [h0, h1, List.mem_flatMap, List.mem_map] at hls
            obtain ⟨x, hx, y, hy, rfl⟩ := hls
            have hv' : v = best A c S a s lab la ra L R := hv
            exact ⟨t0', t1', cl, cr, x, y, hv' ▸ hp, h0, h1, hx, hy, rfl⟩
      · rintro ⟨t0, t1, cl, cr, x, y, hp, h0, h1, hx, hy, rfl⟩
        refine ⟨(t0, t1), ⟨(_, t0, t1), ⟨hp, rfl⟩, rfl⟩, ?_⟩
        simp only [h0, h1, List.mem_flatMap, List.mem_map]
        exact ⟨x, hx, y, hy, rfl⟩
    · intro hk; subst hk; rfl

end

end SR
