/-
  C12 ∘ C08, part 7: the colours (`color` NHX feature) along the same path.

  `cc t`: the nodes in pre-order as (clade, colour).  Neither `label_internal` nor the
  re-parse touches a colour; a refinement keeps the colour of every node of the tree on
  the node with the same clade, and its new nodes have none (`refine_colours`).
-/
import SRVerif.Proofs.CliRefineUnique

namespace SR.Cli

open SR.Ser SR.Bin

mutual
  /-- The nodes in pre-order as (leaf names below, colour). -/
  def cc : NT → List (List String × Option String)
    | .node n c ks => (lvs (.node n c ks), c) :: ccL ks
  def ccL : List NT → List (List String × Option String)
    | [] => []
    | k :: ks => cc k ++ ccL ks
end

mutual
  theorem Relab.cc_eq {R : String → String → Prop}
      (hR : ∀ n n', R n n' → isUnnamed n = false → n' = n) : ∀ (t t' : NT), Relab R t t' →
      (∀ x ∈ lvs t, isUnnamed x = false) → cc t' = cc t
    | .node n c ks, .node n' c' ks', h, hl => by
      have hlv := Relab.lvs_eq hR _ _ h hl
      simp only [Relab] at h
      obtain ⟨_, h2, h3⟩ := h
      subst h2
      simp only [cc, hlv]
      rw [RelabL.cc_eq hR ks ks' h3 (fun x hx => hl x (lvsL_sub_lvs n c ks x hx))]
  theorem RelabL.cc_eq {R : String → String → Prop}
      (hR : ∀ n n', R n n' → isUnnamed n = false → n' = n) : ∀ (ks ks' : List NT), RelabL R ks ks' →
      (∀ x ∈ lvsL ks, isUnnamed x = false) → ccL ks' = ccL ks
    | [], [], _, _ => rfl
    | [], _ :: _, h, _ => by simp [RelabL] at h
    | _ :: _, [], h, _ => by simp [RelabL] at h
    | k :: ks, k' :: ks', h, hl => by
      simp only [RelabL] at h
      simp only [lvsL, List.mem_append] at hl
      simp only [ccL]
      rw [Relab.cc_eq hR k k' h.1 (fun x hx => hl x (Or.inl hx)),
        RelabL.cc_eq hR ks ks' h.2 (fun x hx => hl x (Or.inr hx))]
end

/-- Colour of a leaf id, of an annotation. -/
def Dec.lc (d : Dec) (i : Nat) : Option String := (d.leaf i).2
def Dec.ac (d : Dec) (a : Option Nat) : Option String := (d.annOf a).2

def Dec.leafCol (d : Dec) (i : Nat) : List String × Option String := ([d.ln i], d.lc i)
def Dec.innerCol (d : Dec) (c : List Nat × Option Nat) : List String × Option String :=
  (c.1.map d.ln, d.ac c.2)

theorem cc_decB_node (d : Dec) (a : Option Nat) (l r : BinT) :
    cc (decB d (.node a l r)) =
      d.innerCol (l.leaves ++ r.leaves, a) :: (cc (decB d l) ++ cc (decB d r)) := by
  have h := lvs_decB d (.node a l r)
  simp only [decB] at h
  simp only [decB, cc, ccL, List.append_nil, h, BinT.leaves]
  rfl

theorem mem_cc_decB (d : Dec) : ∀ (b : BinT) (x : List String × Option String),
    x ∈ cc (decB d b) ↔
      (∃ i ∈ b.leaves, x = d.leafCol i) ∨ (∃ c ∈ b.inner, x = d.innerCol c)
  | .leaf i, x => by
    simp [decB, cc, lvs, ccL, BinT.leaves, BinT.inner, Dec.leafCol, Dec.ln, Dec.lc]
  | .node a l r, x => by
    rw [cc_decB_node, List.mem_cons, List.mem_append, mem_cc_decB d l, mem_cc_decB d r]
    simp only [BinT.leaves, BinT.inner, List.mem_append, List.mem_cons]
    constructor
    · rintro (h | (⟨i, hi, h⟩ | ⟨c, hc, h⟩) | (⟨i, hi, h⟩ | ⟨c, hc, h⟩))
      · exact Or.inr ⟨_, Or.inl rfl, h⟩
      · exact Or.inl ⟨i, Or.inl hi, h⟩
      · exact Or.inr ⟨c, Or.inr (Or.inl hc), h⟩
      · exact Or.inl ⟨i, Or.inr hi, h⟩
      · exact Or.inr ⟨c, Or.inr (Or.inr hc), h⟩
    · rintro (⟨i, hi | hi, h⟩ | ⟨c, rfl | hc | hc, h⟩)
      · exact Or.inr (Or.inl (Or.inl ⟨i, hi, h⟩))
      · exact Or.inr (Or.inr (Or.inl ⟨i, hi, h⟩))
      · exact Or.inl h
      · exact Or.inr (Or.inl (Or.inr ⟨c, hc, h⟩))
      · exact Or.inr (Or.inr (Or.inr ⟨c, hc, h⟩))

theorem cc_decN_node (d : Dec) (a : Option Nat) (cs : List NTree)
    (h : (NTree.node a cs).WF = true) :
    cc (decN d (.node a cs)) = d.innerCol (NTree.leavesList cs, a) :: ccL (decNL d cs) := by
  have hl := lvs_decN d (.node a cs) h
  simp only [decN] at hl
  simp only [decN, cc, hl, NTree.leaves]
  rfl

mutual
  theorem mem_cc_decN (d : Dec) : ∀ (t : NTree), t.WF = true →
      ∀ (x : List String × Option String),
      x ∈ cc (decN d t) ↔
        (∃ i ∈ t.leaves, x = d.leafCol i) ∨ (∃ c ∈ t.inner, x = d.innerCol c)
    | .leaf i, _, x => by
      simp [decN, cc, lvs, ccL, NTree.leaves, NTree.inner, Dec.leafCol, Dec.ln, Dec.lc]
    | .node a cs, h, x => by
      rw [cc_decN_node d a cs h, List.mem_cons]
      rw [NTree.WF, Bool.and_eq_true] at h
      rw [mem_ccL_decNL d cs h.2]
      simp only [NTree.leaves, NTree.inner, List.mem_cons]
      constructor
      · rintro (h | ⟨i, hi, h⟩ | ⟨c, hc, h⟩)
        · exact Or.inr ⟨_, Or.inl rfl, h⟩
        · exact Or.inl ⟨i, hi, h⟩
        · exact Or.inr ⟨c, Or.inr hc, h⟩
      · rintro (⟨i, hi, h⟩ | ⟨c, rfl | hc, h⟩)
        · exact Or.inr (Or.inl ⟨i, hi, h⟩)
        · exact Or.inl h
        · exact Or.inr (Or.inr ⟨c, hc, h⟩)
  theorem mem_ccL_decNL (d : Dec) : ∀ (cs : List NTree), NTree.WFList cs = true →
      ∀ (x : List String × Option String),
      x ∈ ccL (decNL d cs) ↔
        (∃ i ∈ NTree.leavesList cs, x = d.leafCol i) ∨ (∃ c ∈ NTree.innerList cs, x = d.innerCol c)
    | [], _, x => by simp [decNL, ccL, NTree.leavesList, NTree.innerList]
    | c :: cs, h, x => by
      rw [NTree.WFList, Bool.and_eq_true] at h
      simp only [decNL, ccL, List.mem_append, mem_cc_decN d c h.1, mem_ccL_decNL d cs h.2,
        NTree.leavesList, NTree.innerList]
      constructor
      · rintro ((⟨i, hi, h⟩ | ⟨c, hc, h⟩) | (⟨i, hi, h⟩ | ⟨c, hc, h⟩))
        · exact Or.inl ⟨i, Or.inl hi, h⟩
        · exact Or.inr ⟨c, Or.inl hc, h⟩
        · exact Or.inl ⟨i, Or.inr hi, h⟩
        · exact Or.inr ⟨c, Or.inr hc, h⟩
      · rintro (⟨i, hi | hi, h⟩ | ⟨c, hc | hc, h⟩)
        · exact Or.inl (Or.inl ⟨i, hi, h⟩)
        · exact Or.inr (Or.inl ⟨i, hi, h⟩)
        · exact Or.inl (Or.inr ⟨c, hc, h⟩)
        · exact Or.inr (Or.inr ⟨c, hc, h⟩)
end

/-- Every node of `t` is found in a refinement with the same clade and the same colour. -/
theorem binarize_keeps_cc (d : Dec) {t : NTree} (hwf : t.WF = true) {b : BinT}
    (hb : b ∈ binarize t) {x : List String × Option String} (hx : x ∈ cc (decN d t)) :
    ∃ y ∈ cc (decB d b), y.1.Perm x.1 ∧ y.2 = x.2 := by
  obtain ⟨h1, h2, _⟩ := binarize_sound t hwf b hb
  rcases (mem_cc_decN d t hwf x).mp hx with ⟨i, hi, rfl⟩ | ⟨c, hc, rfl⟩
  · exact ⟨d.leafCol i, (mem_cc_decB d b _).mpr (Or.inl ⟨i, h1.mem_iff.mpr hi, rfl⟩),
      List.Perm.refl _, rfl⟩
  · obtain ⟨c', hc', hp, ha⟩ := h2 c hc
    refine ⟨d.innerCol c', (mem_cc_decB d b _).mpr (Or.inr ⟨c', hc', rfl⟩), hp.map _, ?_⟩
    simp only [Dec.innerCol, ha]

/-- Every COLOURED node of a refinement is a node of `t`, same clade, same colour. -/
theorem binarize_coloured_from (d : Dec) {t : NTree} (hwf : t.WF = true) {b : BinT}
    (hb : b ∈ binarize t) {y : List String × Option String} (hy : y ∈ cc (decB d b))
    (hn : y.2 ≠ none) : ∃ x ∈ cc (decN d t), y.1.Perm x.1 ∧ y.2 = x.2 := by
  obtain ⟨h1, _, h3⟩ := binarize_sound t hwf b hb
  rcases (mem_cc_decB d b y).mp hy with ⟨i, hi, rfl⟩ | ⟨c', hc', rfl⟩
  · exact ⟨d.leafCol i, (mem_cc_decN d t hwf _).mpr (Or.inl ⟨i, h1.mem_iff.mp hi, rfl⟩),
      List.Perm.refl _, rfl⟩
  · have hne : c'.2 ≠ none := by
      intro h
      apply hn
      simp only [Dec.innerCol, h]
      rfl
    obtain ⟨c, hc, hp, ha⟩ := h3 c' hc' hne
    refine ⟨d.innerCol c, (mem_cc_decN d t hwf _).mpr (Or.inr ⟨c, hc, rfl⟩), hp.map _, ?_⟩
    simp only [Dec.innerCol, ha]

/-- The colour clauses of the composition. -/
structure RefinedCol (t t₁ b₁ : NT) : Prop where
  /-- the first labelling leaves clades and colours where they are -/
  first : cc t₁ = cc t
  /-- every node of the input is found with the same clade and the same colour (or none) -/
  kept : ∀ x ∈ cc t, ∃ y ∈ cc b₁, y.1.Perm x.1 ∧ y.2 = x.2
  /-- every coloured node of the output is a node of the input with that colour: the new
      nodes have none -/
  from_input : ∀ y ∈ cc b₁, y.2 ≠ none → ∃ x ∈ cc t, y.1.Perm x.1 ∧ y.2 = x.2

theorem refine_colours (pfx : String) (t : NT) (hleaf : ∀ x ∈ lvs t, isUnnamed x = false)
    (d : Dec) (tN : NTree) (hwfN : tN.WF = true) (henc : decN d tN = labelTree pfx t)
    (b : BinT) (hb : b ∈ binarize tN) (r : NT) (hr : Relab Same (decB d b) r) :
    RefinedCol t (labelTree pfx t) (labelTree pfx r) := by
  have hrel1 := labelTree_relab pfx t
  have hk1 := labRel_keeps pfx t.names
  have hlvs1 : lvs (labelTree pfx t) = lvs t := Relab.lvs_eq hk1 _ _ hrel1 hleaf
  have hcc1 : cc (labelTree pfx t) = cc t := Relab.cc_eq hk1 _ _ hrel1 hleaf
  have hlvsB : (lvs (decB d b)).Perm (lvs t) := by
    rw [← hlvs1, ← henc]; exact binarize_lvs d hwfN hb
  have hleafB : ∀ x ∈ lvs (decB d b), isUnnamed x = false :=
    fun x hx => hleaf x (hlvsB.mem_iff.mp hx)
  have hlvsR : lvs r = lvs (decB d b) := Relab.lvs_eq same_keeps _ _ hr hleafB
  have hleafR : ∀ x ∈ lvs r, isUnnamed x = false := by rw [hlvsR]; exact hleafB
  have hccR : cc r = cc (decB d b) := Relab.cc_eq same_keeps _ _ hr hleafB
  have hcc2 : cc (labelTree pfx r) = cc r :=
    Relab.cc_eq (labRel_keeps pfx r.names) _ _ (labelTree_relab pfx r) hleafR
  refine ⟨hcc1, ?_, ?_⟩
  · intro x hx
    rw [hcc2, hccR]
    exact binarize_keeps_cc d hwfN hb (by rw [henc, hcc1]; exact hx)
  · intro y hy hn
    rw [hcc2, hccR] at hy
    obtain ⟨x, hx, h⟩ := binarize_coloured_from d hwfN hb hy hn
    exact ⟨x, by rw [henc, hcc1] at hx; exact hx, h⟩

/-- Everything, as the command-line tool runs it (`refine_cli` with colours and uniqueness). -/
theorem refine_cli_full (pfx : String) (hpfx : pfx.toList.all NT.safeChar = true) (t : NT)
    (hwf : wf2 t = true) (hsafe : safeTreeE t = true)
    (hleaf : ∀ x ∈ lvs t, isUnnamed x = false) (hg : (given t).Nodup)
    (b : BinT) (hb : b ∈ binarize (encode (labelTree pfx t))) :
    ∃ r, Newick.readNT (Newick.write (decB (decOf (labelTree pfx t)) b)) = .ok r ∧
      Refined pfx t (labelTree pfx t) (labelTree pfx r) ∧
      RefinedCol t (labelTree pfx t) (labelTree pfx r) ∧
      (cn (labelTree pfx r)).Pairwise (fun x y => ¬ SameClade x y) := by
  have hs1 : Newick.safeTree (labelTree pfx t) = true := safeTree_labelTree hpfx t hsafe
  have hwf1 : wf2 (labelTree pfx t) = true := by
    rw [Relab.wf2_eq _ _ (labelTree_relab pfx t)]; exact hwf
  have h1 := refine_compose pfx t hleaf hg (decOf (labelTree pfx t)) (encode (labelTree pfx t))
    (wf_encode _ hwf1) (decN_encode _) b hb _ (relab_fixEmpty _)
  refine ⟨fixEmpty (decB (decOf (labelTree pfx t)) b),
    reparse _ (safeTreeE_decB (safe_decOf hs1) b), h1, ?_, h1.clades_unique hleaf hg⟩
  exact refine_colours pfx t hleaf (decOf (labelTree pfx t)) (encode (labelTree pfx t))
    (wf_encode _ hwf1) (decN_encode _) b hb _ (relab_fixEmpty _)

end SR.Cli
