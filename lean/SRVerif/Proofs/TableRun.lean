/-
  Histories of operations on a table: the content of a cell after a history,
  what a read returns, what `keys()` reports.
-/
import SRVerif.Proofs.TableStep

set_option linter.unusedSectionVars false

namespace SR.DP

variable {τ : Type} [DecidableEq τ]

namespace Table

/-! ### Histories -/

theorem run_cons [Min τ] (t : Table τ) (op : Op τ) (ops : List (Op τ)) :
    t.run (op :: ops) = (((t.step op).1.run ops).1, (t.step op).2 :: ((t.step op).1.run ops).2) := rfl

theorem run_append [Min τ] (t : Table τ) (ops ops' : List (Op τ)) :
    t.run (ops ++ ops') = (((t.run ops).1.run ops').1, (t.run ops).2 ++ ((t.run ops).1.run ops').2) := by
  induction ops generalizing t with
  | nil => simp [run]
  | cons op ops ih =>
    simp only [List.cons_append, run_cons, ih]

theorem run_length [Min τ] (t : Table τ) (ops : List (Op τ)) : (t.run ops).2.length = ops.length := by
  induction ops generalizing t with
  | nil => rfl
  | cons op ops ih => simp [run_cons, ih]

theorem run_shape [Min τ] (t : Table τ) (ops : List (Op τ)) :
    (t.run ops).1.dims = t.dims ∧ (t.run ops).1.merge = t.merge ∧ (t.run ops).1.retain = t.retain := by
  induction ops generalizing t with
  | nil => exact ⟨rfl, rfl, rfl⟩
  | cons op ops ih =>
    have h := step_ext t op
    obtain ⟨i1, i2, i3⟩ := ih (t.step op).1
    rw [run_cons]
    exact ⟨i1.trans h.dims, i2.trans h.merge, i3.trans h.retain⟩

/-- The cell `a` after a history: the fold, by `EntryProxy.update`, of the batches the history
    offered to `a`, in order.  Nothing else in the history matters. -/
theorem run_cell [Min τ] (t : Table τ) (ops : List (Op τ)) (a : List Key) :
    getCell (t.run ops).1.cells a
      = (ops.filterMap (writesTo t.dims a)).foldl (Cell.update t.merge t.retain) (getCell t.cells a) := by
  induction ops generalizing t with
  | nil => rfl
  | cons op ops ih =>
    have h := step_ext t op
    rw [run_cons]
    simp only
    rw [ih, h.dims, h.merge, h.retain, h.cells]
    simp only [List.filterMap_cons, opCell]
    cases writesTo t.dims a op <;> rfl

/-- Dictionary keys are only ever added, and every added key lies on a path mentioned by some
    operation of the history. -/
theorem run_touched [Min τ] (t : Table τ) (ops : List (Op τ)) :
    ∃ l, (t.run ops).1.touched = t.touched ++ l ∧ ∀ p ∈ l, ∃ op ∈ ops, p ∈ opVisits t.dims op := by
  induction ops generalizing t with
  | nil => exact ⟨[], by simp [run], by simp⟩
  | cons op ops ih =>
    have h := step_ext t op
    obtain ⟨l1, h1, h2⟩ := h.touched
    obtain ⟨l2, g1, g2⟩ := ih (t.step op).1
    rw [run_cons]
    refine ⟨l1 ++ l2, by simp only; rw [g1, h1, List.append_assoc], ?_⟩
    intro p hp
    rcases List.mem_append.mp hp with hp | hp
    · exact ⟨op, by simp, h2 p hp⟩
    · obtain ⟨op', ho, hv⟩ := g2 p hp
      rw [h.dims] at hv
      exact ⟨op', by simp [ho], hv⟩

/-! ### Reads of a cell -/

theorem walk_cells (t : Table τ) (ks : List Key) : (t.walk ks).1.cells = t.cells := rfl
theorem walk_dims (t : Table τ) (ks : List Key) : (t.walk ks).1.dims = t.dims := rfl
theorem walk_merge (t : Table τ) (ks : List Key) : (t.walk ks).1.merge = t.merge := rfl

/-- Through a complete valid chain of keys, an entry method is applied to the content of the cell. -/
theorem withCell_valid (t : Table τ) (ks a : List Key) (hne : ks ≠ []) (hlen : ks.length = t.dims.length)
    (ha : addr t.dims ks = .ok a) (e : PyErr) (k : Table τ → Cell τ → Out τ) :
    ∃ t2, t.withCell ks e k = (t2, k t2 (getCell t.cells a)) ∧ t2.merge = t.merge := by
  unfold withCell
  rw [index_valid t ks a hne hlen ha]
  simp only
  have h2 := getReal_snd (t.walk ks.dropLast).1 ks
  have h1 := getReal_ext (t.walk ks.dropLast).1 ks
  rw [walk_dims, ha, walk_cells] at h2
  cases hr : (t.walk ks.dropLast).1.getReal ks with
  | mk t2 c =>
    rw [hr] at h1 h2
    simp only [Except.map] at h2
    subst h2
    exact ⟨t2, rfl, h1.merge.trans (walk_merge t _)⟩

/-- Through a complete chain of keys that is not a valid address, every entry method raises the
    exception of the first invalid key. -/
theorem withCell_invalid (t : Table τ) (ks : List Key) (hne : ks ≠ []) (hlen : ks.length = t.dims.length)
    (e' : PyErr) (ha : addr t.dims ks = .error e') (e : PyErr) (k : Table τ → Cell τ → Out τ) :
    (t.withCell ks e k).2 = .err e' := by
  unfold withCell
  rcases index_invalid t ks hne hlen with ⟨a', _, hi⟩ | ⟨e'', he, hi⟩
  · rw [hi]
    simp only
    have h2 := getReal_snd (t.walk ks.dropLast).1 ks
    rw [walk_dims, ha] at h2
    cases hr : (t.walk ks.dropLast).1.getReal ks with
    | mk t2 c =>
      rw [hr] at h2
      simp only [Except.map] at h2
      subst h2
      rfl
  · rw [hi]
    rw [ha] at he
    injection he with he
    subst he
    rfl

/-! ### `keys()` -/

theorem mem_keysFilter (L : List (List Key)) (a : List Key) (k : Key) :
    k ∈ L.filterMap (fun p => if p.length = a.length + 1 ∧ p.take a.length = a then p.getLast? else none)
      ↔ a ++ [k] ∈ L := by
  simp only [List.mem_filterMap]
  constructor
  · rintro ⟨p, hp, h⟩
    split at h
    · rename_i hc
      obtain ⟨hl, ht⟩ := hc
      have hne : p ≠ [] := by intro h0; subst h0; simp at hl
      have hk : p.getLast hne = k := by
        rw [List.getLast?_eq_some_getLast hne] at h
        injection h
      have : p = a ++ [k] := by
        rw [← List.dropLast_concat_getLast hne, hk, List.dropLast_eq_take, hl]
        simp [ht]
      rw [← this]; exact hp
    · simp at h
  · intro h
    exact ⟨a ++ [k], h, by simp⟩

theorem visited_length_le (ds : List Dim) (ks p : List Key) (hp : p ∈ visited ds ks) : p.length ≤ ks.length := by
  obtain ⟨n, hn, _, ha⟩ := visited_sound ds ks p hp
  have := (addr_length ds _ p ha).1
  simp at this
  omega

/-- `keys()` below a prefix that leads to a dictionary: the keys created so far under that
    prefix (the walk of the prefix itself creates none of them). -/
theorem keysAt_dict (t : Table τ) (pre a : List Key) (ha : addr t.dims pre = .ok a)
    (hd : t.dims[pre.length]? = some .dict) :
    ∃ l, (t.keysAt pre).2 = .ok l ∧ ∀ k, k ∈ l ↔ a ++ [k] ∈ t.touched := by
  unfold keysAt
  have h2 := walk_snd t pre
  have ht := walk_touched t pre
  cases hw : t.walk pre with
  | mk t' r =>
    rw [hw] at h2 ht
    simp only at h2 ht
    rw [ha] at h2
    subst h2
    simp only [hd]
    refine ⟨_, rfl, ?_⟩
    intro k
    rw [mem_keysFilter, ht]
    constructor
    · rintro (h | h)
      · exact h
      · exfalso
        have := visited_length_le _ _ _ h
        have hl := (addr_length _ _ _ ha).1
        simp at this
        omega
    · exact Or.inl

/-- `keys()` below a prefix that leads to a list: `range(length)`. -/
theorem keysAt_list (t : Table τ) (pre a : List Key) (n : Nat) (ha : addr t.dims pre = .ok a)
    (hd : t.dims[pre.length]? = some (.list n)) :
    (t.keysAt pre).2 = .ok ((List.range n).map (fun i => Key.int (i : Nat))) := by
  unfold keysAt
  have h2 := walk_snd t pre
  cases hw : t.walk pre with
  | mk t' r =>
    rw [hw] at h2
    simp only at h2
    rw [ha] at h2
    subst h2
    simp only [hd]

/-- The `keys` operation on a proper prefix. -/
theorem step_keys_short [Min τ] (t : Table τ) (pre : List Key) (h : pre.length < t.dims.length) :
    (t.step (.keys pre)).2 = match (t.keysAt pre).2 with | .ok l => .keys l | .error e => .err e := by
  simp only [step, index_short t pre h]
  cases hk : t.keysAt pre with
  | mk t2 r => cases r <;> rfl

theorem step_contains_short [Min τ] (t : Table τ) (pre : List Key) (k : Key) (h : pre.length < t.dims.length) :
    (t.step (.contains pre k)).2
      = match (t.keysAt pre).2 with | .ok l => .bool (decide (k ∈ l)) | .error e => .err e := by
  simp only [step, index_short t pre h]
  cases hk : t.keysAt pre with
  | mk t2 r => cases r <;> rfl

theorem step_iter_short [Min τ] (t : Table τ) (pre : List Key) (h : pre.length < t.dims.length) :
    (t.step (.iter pre)).2 = (t.step (.keys pre)).2 := by
  simp only [step, index_short t pre h]

/-- After an operation that walks the whole valid path `ks` (a read through a complete chain,
    or a write of a batch with a finite candidate), every dictionary key on the path exists. -/
theorem getReal_touched (t : Table τ) (key p : List Key) (hp : p ∈ visited t.dims key) :
    p ∈ (t.getReal key).1.touched := by
  have h := (walk_touched t key p).mpr (Or.inr hp)
  unfold getReal
  cases hw : t.walk key with
  | mk t' r => rw [hw] at h; cases r <;> exact h

theorem updateAt_touched (t : Table τ) (key p : List Key) (b : List (Cand τ))
    (hfin : b.any (fun x => !x.value.isInfinite) = true) (hp : p ∈ visited t.dims key) :
    p ∈ (t.updateAt key b).1.touched := by
  have h := (walk_touched t key p).mpr (Or.inr hp)
  unfold updateAt
  rw [if_pos hfin]
  cases hw : t.walk key with
  | mk t' r => rw [hw] at h; cases r <;> exact h

end Table

end SR.DP
