/-
  Helper lemmas for `Model/CliGlue.lean`: the shunting-yard parser on fully
  parenthesised token strings, the value algebra, `dump_results` as lines,
  `read_input` from the document.
-/
import SRVerif.Model.CliGlue
import SRVerif.Proofs.CliTree

namespace SR.Cli

open SR.Ser

/-! ## The parser on fully parenthesised token strings -/

def BinOp.tok : BinOp → Tok
  | .add => .plus
  | .sub => .minus
  | .mul => .star
  | .fdiv => .fdiv

/-- The fully parenthesised token string of an expression tree:
    atoms as such, `-(e)`, `+(e)`, `((a) op (b))`. -/
def showT : CExpr → List Tok
  | .lit n => [.int n]
  | .inf => [.inf]
  | .name s => [.name s]
  | .neg e => .minus :: .lpar :: (showT e ++ [.rpar])
  | .pos e => .plus :: .lpar :: (showT e ++ [.rpar])
  | .bin o a b => .lpar :: .lpar :: (showT a ++ .rpar :: o.tok :: .lpar :: (showT b ++ [.rpar, .rpar]))

/-- A pending unary minus is applied by whatever comes next. -/
theorem pending_neg (ts : List Tok) (e : CExpr) (out : List CExpr) (ops : List SOp) :
    parseGo ts (e :: out) (.neg :: ops) false = parseGo ts (.neg e :: out) ops false := by
  cases ts with
  | nil => simp [parseGo, popAll, applyOp]
  | cons t ts =>
    cases t <;> simp [parseGo, pushBin, popWhile, popToParen, applyOp]

theorem pending_pos (ts : List Tok) (e : CExpr) (out : List CExpr) (ops : List SOp) :
    parseGo ts (e :: out) (.pos :: ops) false = parseGo ts (.pos e :: out) ops false := by
  cases ts with
  | nil => simp [parseGo, popAll, applyOp]
  | cons t ts =>
    cases t <;> simp [parseGo, pushBin, popWhile, popToParen, applyOp]

/-- Reading the token string of `e` with an operand expected pushes `e`. -/
theorem parse_showT (e : CExpr) : ∀ (ts : List Tok) (out : List CExpr) (ops : List SOp),
    parseGo (showT e ++ ts) out ops true = parseGo ts (e :: out) ops false := by
  induction e with
  | lit n => intro ts out ops; simp [showT, parseGo]
  | inf => intro ts out ops; simp [showT, parseGo]
  | name s => intro ts out ops; simp [showT, parseGo]
  | neg e ih =>
    intro ts out ops
    have : showT (.neg e) ++ ts = .minus :: .lpar :: (showT e ++ (.rpar :: ts)) := by simp [showT]
    rw [this]
    simp only [parseGo]
    rw [ih]
    simp only [parseGo, popToParen]
    exact pending_neg ts e out ops
  | pos e ih =>
    intro ts out ops
    have : showT (.pos e) ++ ts = .plus :: .lpar :: (showT e ++ (.rpar :: ts)) := by simp [showT]
    rw [this]
    simp only [parseGo]
    rw [ih]
    simp only [parseGo, popToParen]
    exact pending_pos ts e out ops
  | bin o a b iha ihb =>
    intro ts out ops
    have : showT (.bin o a b) ++ ts
        = .lpar :: .lpar :: (showT a ++ (.rpar :: o.tok :: .lpar :: (showT b ++ (.rpar :: .rpar :: ts)))) := by
      simp [showT]
    rw [this]
    simp only [parseGo]
    rw [iha]
    simp only [parseGo, popToParen]
    cases o <;>
      (simp only [BinOp.tok, pushBin, popWhile, Option.map]
       rw [ihb]
       simp [parseGo, popToParen, applyOp])

/-- **Round trip**: every expression tree is what the parser makes of its fully
    parenthesised token string. -/
theorem parseGo_showT (e : CExpr) : parseGo (showT e) [] [] true = .ok e := by
  have := parse_showT e [] [] []
  simp only [List.append_nil] at this
  rw [this]
  simp [parseGo, popAll]

/-! ## Values -/

theorem toCost_add {a b : Val} {x y : Cost} (ha : a.toCost = some x) (hb : b.toCost = some y) :
    (a.add b).toCost = some (x + y) := by
  cases a <;> cases b <;> simp [Val.toCost, Val.add] at ha hb ⊢
  · rename_i m n
    obtain ⟨h1, rfl⟩ := ha
    obtain ⟨h2, rfl⟩ := hb
    refine ⟨Int.add_nonneg h1 h2, ?_⟩
    show Cost.fin (m + n).toNat = Cost.add _ _
    simp only [Cost.add]
    congr 1
    omega
  · obtain ⟨_, rfl⟩ := ha
    subst hb; rfl
  · obtain ⟨_, rfl⟩ := hb
    subst ha; rfl
  · subst ha; subst hb; rfl

/-- Integer arithmetic is Python's: `//` rounds towards minus infinity. -/
theorem fdiv_int (a b : Int) (hb : b ≠ 0) :
    Val.fdiv (.int a) (.int b) = .val (.int (Int.fdiv a b)) := by
  cases b with
  | ofNat n =>
    cases n with
    | zero => exact absurd rfl hb
    | succ n => rfl
  | negSucc n => rfl

/-! ## `dump_results` as lines -/

theorem toList_foldl_append (l : List String) (acc : String) :
    (l.foldl (fun r s => r ++ s) acc).toList = acc.toList ++ (l.map String.toList).flatten := by
  induction l generalizing acc with
  | nil => simp
  | cons a l ih => simp [List.foldl_cons, ih, String.toList_append]

theorem toList_join (l : List String) : (String.join l).toList = (l.map String.toList).flatten := by
  unfold String.join
  rw [toList_foldl_append]
  simp

/-- Newline-terminated lines of a text. -/
def linesAux : List Char → List Char → List (List Char)
  | [], _ => []
  | c :: cs, acc => if c = '\n' then acc.reverse :: linesAux cs [] else linesAux cs (c :: acc)

def termLines (s : List Char) : List (List Char) := linesAux s []

theorem linesAux_line (l rest acc : List Char) (h : '\n' ∉ l) :
    linesAux (l ++ '\n' :: rest) acc = (acc.reverse ++ l) :: linesAux rest [] := by
  induction l generalizing acc with
  | nil => simp [linesAux]
  | cons c l ih =>
    have hc : c ≠ '\n' := fun e => h (by simp [e])
    have hl : '\n' ∉ l := fun e => h (by simp [e])
    simp only [List.cons_append, linesAux, hc, if_false]
    rw [ih _ hl]
    simp

theorem termLines_flatten (ls : List (List Char)) (h : ∀ l ∈ ls, '\n' ∉ l) :
    termLines (ls.map (fun l => l ++ ['\n'])).flatten = ls := by
  induction ls with
  | nil => simp [termLines, linesAux]
  | cons l ls ih =>
    have h1 := h l (by simp)
    have h2 : ∀ l' ∈ ls, '\n' ∉ l' := fun l' hl => h l' (by simp [hl])
    simp only [List.map_cons, List.flatten_cons, termLines, List.append_assoc, List.singleton_append]
    rw [linesAux_line l _ [] h1]
    simp only [List.reverse_nil, List.nil_append, List.cons.injEq, true_and]
    exact ih h2

theorem dumpResults_toList {ρ : Type} (enc : ρ → String) (rs : List ρ) :
    (dumpResults enc rs).toList = (rs.map (fun r => (enc r).toList ++ ['\n'])).flatten := by
  unfold dumpResults
  rw [toList_join]
  simp [List.map_map, Function.comp_def, String.toList_append]

/-! ## `read_input` -/

theorem liftSer_ok {α : Type} {x : Except Err α} {a : α} (h : liftSer x = .ok a) : x = .ok a := by
  cases x with
  | ok b => simp [liftSer] at h; rw [h]
  | error e => simp [liftSer] at h

theorem docStr_ok {doc : List (String × JV)} {k s : String} (h : docStr doc k = .ok s) :
    doc.lookup k = some (.str s) := by
  unfold docStr at h
  cases hl : doc.lookup k with
  | none => simp [hl] at h
  | some v =>
    cases v <;> simp [hl, JV.asStr] at h
    rw [h]

theorem docStr_missing {doc : List (String × JV)} {k : String} (h : doc.lookup k = none) :
    docStr doc k = .error (.ser .keyError) := by
  simp [docStr, h]

theorem docOpt_ok {α : Type} {doc : List (String × JV)} {k : String} {conv : JV → Option α}
    {r : Option α} (h : docOpt doc k conv = .ok r) :
    (r = none ↔ doc.lookup k = none) ∧ ∀ v, doc.lookup k = some v → conv v = r := by
  unfold docOpt at h
  cases hl : doc.lookup k with
  | none => simp [hl] at h; subst h; simp
  | some v =>
    cases hc : conv v with
    | none => simp [hl, hc] at h
    | some a =>
      simp [hl, hc] at h
      subst h
      simp [hc]

/-- What a successful `docToDict` has read. -/
theorem docToDict_ok {read : String → Option NT} {doc : List (String × JV)} {d : InputDict}
    (h : docToDict read doc = .ok d) :
    doc.lookup "object_tree" = some (.str d.object_tree) ∧ (read d.object_tree).isSome ∧
    doc.lookup "species_tree" = some (.str d.species_tree) ∧ (read d.species_tree).isSome ∧
    d.costs = none ∧
    (d.leaf_object_species = none ↔ doc.lookup "leaf_object_species" = none) ∧
    (∀ v, doc.lookup "leaf_object_species" = some v → v.asStrMap = d.leaf_object_species) ∧
    (d.leaf_syntenies = none ↔ doc.lookup "leaf_syntenies" = none) ∧
    (∀ v, doc.lookup "leaf_syntenies" = some v → v.asSynMap = d.leaf_syntenies) := by
  unfold docToDict at h
  simp only [bind, Except.bind, pure, Except.pure] at h
  cases h1 : docStr doc "object_tree" with
  | error e => simp [h1] at h
  | ok ots =>
    simp only [h1] at h
    cases h2 : readTree read ots with
    | error e => simp [h2, liftSer] at h
    | ok ot =>
      simp only [h2, liftSer] at h
      cases h3 : docStr doc "species_tree" with
      | error e => simp [h3] at h
      | ok sts =>
        simp only [h3] at h
        cases h4 : readTree read sts with
        | error e => simp [h4] at h
        | ok st =>
          simp only [h4] at h
          cases h5 : docOpt doc "leaf_object_species" JV.asStrMap with
          | error e => simp [h5] at h
          | ok los =>
            simp only [h5] at h
            cases h6 : docOpt doc "leaf_syntenies" JV.asSynMap with
            | error e => simp [h6] at h
            | ok ls =>
              simp only [h6, Except.ok.injEq] at h
              subst h
              have r1 : (read ots).isSome := by
                unfold readTree at h2
                cases hr : read ots <;> simp [hr] at h2 ⊢
              have r2 : (read sts).isSome := by
                unfold readTree at h4
                cases hr : read sts <;> simp [hr] at h4 ⊢
              exact ⟨docStr_ok h1, r1, docStr_ok h3, r2, rfl, (docOpt_ok h5).1, (docOpt_ok h5).2,
                (docOpt_ok h6).1, (docOpt_ok h6).2⟩

/-- What a successful `RecInput.fromDict` on a dictionary without `costs` returns. -/
theorem RecInput.fromDict_ok {read : String → Option NT} {d : InputDict} {x : RecInput}
    (hc : d.costs = none) (h : RecInput.fromDict read d = .ok x) :
    read d.object_tree = some x.objectTree ∧ read d.species_tree = some x.speciesTree ∧
    x.costs = defaultCost ∧
    (d.leaf_object_species = none → x.leafObjectSpecies = getSpeciesMapping x.objectTree x.speciesTree) ∧
    (∀ l, d.leaf_object_species = some l →
      parseTreeMapping x.objectTree x.speciesTree l = .ok x.leafObjectSpecies) := by
  unfold RecInput.fromDict at h
  simp only [bind, Except.bind, pure, Except.pure, hc] at h
  cases h1 : readTree read d.object_tree with
  | error e => simp [h1] at h
  | ok ot =>
    simp only [h1] at h
    cases h2 : readTree read d.species_tree with
    | error e => simp [h2] at h
    | ok st =>
      simp only [h2] at h
      have r1 : read d.object_tree = some ot := by
        unfold readTree at h1
        cases hr : read d.object_tree <;> simp [hr] at h1 ⊢
        exact h1
      have r2 : read d.species_tree = some st := by
        unfold readTree at h2
        cases hr : read d.species_tree <;> simp [hr] at h2 ⊢
        exact h2
      cases hl : d.leaf_object_species with
      | none =>
        simp only [hl, Except.ok.injEq] at h
        subst h
        exact ⟨r1, r2, rfl, fun _ => rfl, fun l hl' => by simp at hl'⟩
      | some l =>
        simp only [hl] at h
        cases h3 : parseTreeMapping ot st l with
        | error e => simp [h3] at h
        | ok m =>
          simp only [h3, Except.ok.injEq] at h
          subst h
          refine ⟨r1, r2, rfl, fun hn => by simp at hn, fun l' hl' => ?_⟩
          simp only [Option.some.injEq] at hl'
          subst hl'
          exact h3

/-- What a successful `read_input` returns, in terms of the dictionary. -/
theorem readInput_ok {read : String → Option NT} {d : InputDict} {argCosts : CostValues}
    {inp : AnyInput} (h : readInput read d argCosts = .ok inp) :
    ∃ ot st, read d.object_tree = some ot ∧ read d.species_tree = some st ∧
      inp.base.objectTree = labelTree "O" ot ∧ inp.base.speciesTree = labelTree "S" st ∧
      inp.base.costs = Dict.ofList argCosts ∧
      (AnyInput.kind inp = InputKind.super ↔ d.leaf_syntenies ≠ none) ∧
      (d.leaf_object_species = none → inp.base.leafObjectSpecies = getSpeciesMapping ot st) ∧
      (∀ l, d.leaf_object_species = some l →
        parseTreeMapping ot st l = .ok inp.base.leafObjectSpecies) ∧
      (∀ l, d.leaf_syntenies = some l → ∃ i, inp = .super i ∧
        parseSynMapping ot l = .ok i.leafSyntenies) := by
  unfold readInput at h
  simp only [bind, Except.bind, pure, Except.pure] at h
  generalize hd' : ({ d with costs := none } : InputDict) = d' at h
  have e1 : d'.object_tree = d.object_tree := by subst hd'; rfl
  have e2 : d'.species_tree = d.species_tree := by subst hd'; rfl
  have e3 : d'.leaf_object_species = d.leaf_object_species := by subst hd'; rfl
  have e4 : d'.leaf_syntenies = d.leaf_syntenies := by subst hd'; rfl
  have e5 : d'.costs = none := by subst hd'; rfl
  cases hs : d.leaf_syntenies with
  | none =>
    simp only [hs] at h
    cases h1 : RecInput.fromDict read d' with
    | error e => simp [h1] at h
    | ok x =>
      simp only [h1, Except.ok.injEq] at h
      subst h
      obtain ⟨a, b, _, c, e⟩ := RecInput.fromDict_ok e5 h1
      rw [e1] at a; rw [e2] at b; rw [e3] at c e
      exact ⟨x.objectTree, x.speciesTree, a, b, rfl, rfl, rfl,
        by simp [labelInternalAny, AnyInput.kind], c, e, fun l hl => by simp at hl⟩
  | some l =>
    simp only [hs] at h
    cases h1 : SRecInput.fromDict read d' with
    | error e => simp [h1] at h
    | ok i =>
      simp only [h1, Except.ok.injEq] at h
      subst h
      unfold SRecInput.fromDict at h1
      simp only [bind, Except.bind, pure, Except.pure, e4, hs] at h1
      cases h2 : RecInput.fromDict read d' with
      | error e => simp [h2] at h1
      | ok x =>
        simp only [h2] at h1
        cases h3 : parseSynMapping x.objectTree l with
        | error e => simp [h3] at h1
        | ok m =>
          simp only [h3, Except.ok.injEq] at h1
          subst h1
          obtain ⟨a, b, _, c, e⟩ := RecInput.fromDict_ok e5 h2
          rw [e1] at a; rw [e2] at b; rw [e3] at c e
          refine ⟨x.objectTree, x.speciesTree, a, b, rfl, rfl, rfl,
            by simp [labelInternalAny, AnyInput.kind], c, e, fun l' hl' => ?_⟩
          simp only [Option.some.injEq] at hl'
          subst hl'
          exact ⟨_, rfl, h3⟩

end SR.Cli
