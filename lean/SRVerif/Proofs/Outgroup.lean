/-
  The outgroup (C09): a new species root with the old species tree as child 0
  and an empty outgroup leaf as child 1.  Every old species `p` becomes `0 :: p`
  (`Path.og`), the new root is `[]`, the outgroup leaf is `[1]`.

  * `og` is a `PathEmb`, so embedding a solution preserves cost and validity
    (`Proofs/SwapSp.lean`): new optimum ≤ old optimum, all modes, all costs.
  * Conversely a valid solution over the new tree only uses `[]` and species
    `0 :: q` (every node sits above a leaf species); projecting through
    `unog = List.tail` (`[] ↦ []`, `0 :: q ↦ q`) gives a valid solution over the
    old tree.  Nodes at the new root `[]` are all duplications there
    (cost `dup + floss·(|a| + |b|)`); projected to the old root they become a
    duplication (cheaper by the two skipped levels) or a speciation
    (`spe + floss·(|a| + |b| − 4)` plus at most `slack` more segmental losses), so
    the projection does not increase the cost provided
    `spe + slack·sloss ≤ dup + 4·floss` (`slack` = 0 / 2 / 1 for plain / ordered /
    unordered) — implied by the coherent region `spe + slack·sloss ≤ dup + 2·floss`.
    Without it the clause is false (`Properties/C09Outgroup.lean`).
-/
import SRVerif.Proofs.SwapSp
import SRVerif.Proofs.LabelDPThl
import SRVerif.Proofs.LabelDPOrdOpt

namespace SR

open Path Cost

/-! ### The embedding and the enlarged species tree -/

/-- Old species `p` inside the tree with an outgroup. -/
def Path.og (p : Path) : Path := 0 :: p

/-- Projection back: the new root and the old root both go to the old root. -/
def Path.unog (p : Path) : Path := p.tail

@[simp] theorem Path.unog_og (p : Path) : Path.unog (Path.og p) = p := rfl

theorem Path.og_emb : PathEmb Path.og where
  len := ⟨1, fun p => by simp [Path.og]⟩
  lcp := fun p q => by simp [Path.og, Path.lcp]
  inj := fun p q e => (List.cons.inj e).2

/-- New root above `S`, with an empty outgroup leaf as second child. -/
def RTree.withOutgroup (S : RTree) : RTree := .node [S, .node []]

theorem RTree.isNode_withOutgroup_og (S : RTree) (p : Path) :
    S.withOutgroup.isNode (Path.og p) = S.isNode p := by
  simp [RTree.withOutgroup, Path.og, RTree.isNode, RTree.sub]

theorem RTree.isBinary_withOutgroup (S : RTree) : S.withOutgroup.isBinary = S.isBinary := by
  simp [RTree.withOutgroup, RTree.isBinary]

theorem RTree.isNode_withOutgroup_iff (S : RTree) (q : Path) :
    S.withOutgroup.isNode q = true ↔ q = [] ∨ q = [1] ∨ ∃ p, q = Path.og p ∧ S.isNode p = true := by
  cases q with
  | nil => simp [RTree.isNode_nil]
  | cons k q =>
    rw [RTree.withOutgroup, RTree.isNode_cons]
    match k with
    | 0 => simp [Path.og]
    | 1 =>
      cases q with
      | nil => simp [RTree.isNode_nil, Path.og]
      | cons j q => simp [RTree.isNode_cons, Path.og]
    | k + 2 => simp [Path.og]

/-- A path of the enlarged tree that is the new root or an old species. -/
def Path.ogOk : Path → Bool
  | [] => true
  | k :: _ => k == 0

theorem Path.ogOk_og (p : Path) : Path.ogOk (Path.og p) = true := rfl

theorem Path.ogOk_cases {p : Path} (h : Path.ogOk p = true) : p = [] ∨ ∃ q, p = Path.og q := by
  cases p with
  | nil => exact Or.inl rfl
  | cons k q =>
    simp only [Path.ogOk, beq_iff_eq] at h
    subst h
    exact Or.inr ⟨q, rfl⟩

theorem Path.ogOk_of_isAnc {s p : Path} (h : isAnc s p = true) (hp : Path.ogOk p = true) :
    Path.ogOk s = true := by
  cases s with
  | nil => rfl
  | cons a s =>
    cases p with
    | nil => simp [isAnc] at h
    | cons b p =>
      simp only [isAnc, Bool.and_eq_true, beq_iff_eq] at h
      simp only [Path.ogOk, beq_iff_eq] at hp ⊢
      omega

theorem Path.og_unog_of_ne_nil {p : Path} (h : Path.ogOk p = true) (hne : p ≠ []) :
    Path.og (Path.unog p) = p := by
  rcases Path.ogOk_cases h with rfl | ⟨q, rfl⟩
  · exact absurd rfl hne
  · rfl

/-! ### Generic label losses

  `ordLosses` and `unordLosses` are both "a local count at every internal node,
  summed"; the local count sees the event, `keepLeft`, a state threaded from the
  parent (the parent's mask), and the three syntenies. -/

/-- Option count to cost: `none` = inadmissible labelling. -/
def optFin (k : Option Nat) (sl : Nat) : Cost :=
  match k with
  | some k => .fin (k * sl)
  | none => .inf

def genLosses {σ : Type} (loc : Event → Bool → σ → List Nat → List Nat → List Nat → Option Nat)
    (nxt : σ → List Nat → σ) : σ → Sol → Option Nat
  | _, .leaf _ _ => some 0
  | st, .node s f l r =>
    match loc (internalEvent s l.sp r.sp) (comparable s l.sp) st f l.fam r.fam,
          genLosses loc nxt (nxt st l.fam) l, genLosses loc nxt (nxt st r.fam) r with
    | some a, some b, some d => some (a + b + d)
    | _, _, _ => none

theorem ordLosses_eq_gen (rootSyn : List Nat) : ∀ (sol : Sol) (m : Nat),
    ordLosses rootSyn m sol =
      genLosses (fun ev kl m _ lf rf =>
          localOrdLosses ev kl m (maskFromSubseq lf rootSyn) (maskFromSubseq rf rootSyn))
        (fun _ f => maskFromSubseq f rootSyn) m sol := by
  intro sol
  induction sol with
  | leaf s g => intro m; rfl
  | node s g l r ihl ihr =>
    intro m
    simp only [ordLosses, genLosses, ihl, ihr]
    rfl

theorem unordLosses_eq_gen : ∀ (sol : Sol),
    unordLosses sol =
      genLosses (fun ev kl (_ : Unit) f lf rf => localUnordLosses ev kl f lf rf)
        (fun _ _ => ()) () sol := by
  intro sol
  induction sol with
  | leaf s g => rfl
  | node s g l r ihl ihr =>
    simp only [unordLosses, genLosses, ihl, ihr]
    rfl

theorem plainLosses_eq_gen : ∀ (sol : Sol),
    some 0 = genLosses (fun _ _ (_ : Unit) _ _ _ => some 0) (fun _ _ => ()) () sol := by
  intro sol
  induction sol with
  | leaf s g => rfl
  | node s g l r ihl ihr =>
    simp only [genLosses, ← ihl, ← ihr]

theorem optFin_match3 (a b d : Option Nat) (sl : Nat) :
    optFin (match a, b, d with
      | some a, some b, some d => some (a + b + d)
      | _, _, _ => none) sl = optFin a sl + (optFin b sl + optFin d sl) := by
  cases a <;> cases b <;> cases d <;> simp [optFin, Nat.add_mul, Nat.add_assoc]

theorem cost_rearrange (L X Y A B D : Cost) :
    (L + (X + Y)) + (A + (B + D)) = (L + A) + ((X + B) + (Y + D)) := by
  cases L <;> cases X <;> cases Y <;> cases A <;> cases B <;> cases D <;>
    simp [Cost.add_def, Cost.add] <;> omega

/-- Slack of the label cost when a duplication becomes a speciation. -/
def ogSlack : LabelMode → Nat
  | .plain => 0
  | .ordered => 2
  | .unordered => 1

/-! ### One node -/

section Local

theorem isStrictAnc_nil_og (q : Path) : isStrictAnc [] (Path.og q) = true := by
  simp [isStrictAnc, isAnc, Path.og]

theorem isStrictAnc_to_nil (a : Path) : isStrictAnc a [] = false := by
  cases a <;> simp [isStrictAnc, isAnc]

theorem internalEvent_nil_ne_invalid (a b : Path) : internalEvent [] a b ≠ .invalid := by
  rw [internalEvent_ne_invalid_iff]
  exact ⟨isStrictAnc_to_nil a, isStrictAnc_to_nil b, Or.inl (isAnc_nil a)⟩

theorem dist_nil (a : Path) : dist [] a = a.length := by
  cases a <;> simp [dist, lcp]

theorem unog_length_le (a : Path) : (Path.unog a).length ≤ a.length := by
  simp [Path.unog]

theorem internalEvent_nil_cases (a b : Path) :
    internalEvent [] a b = .spec ∨ internalEvent [] a b = .dup := by
  simp only [internalEvent, isStrictAnc_to_nil, isAnc_nil]
  simp only [Bool.or_self, Bool.false_eq_true, if_false, Bool.and_self, if_true]
  split <;> simp

/-- At the new root every event is a duplication. -/
theorem internalEvent_newroot {a b : Path} (ha : Path.ogOk a = true) (hb : Path.ogOk b = true) :
    internalEvent [] a b = .dup := by
  rcases Path.ogOk_cases ha with rfl | ⟨a', rfl⟩ <;> rcases Path.ogOk_cases hb with rfl | ⟨b', rfl⟩
  · simp [internalEvent, isStrictAnc, isAnc, comparable]
  · simp [internalEvent, isStrictAnc, isAnc, comparable, Path.og]
  · simp [internalEvent, isStrictAnc, isAnc, comparable, Path.og]
  · simp [internalEvent, isStrictAnc, isAnc, comparable, Path.og, lcp]

/-- Below the new root, a valid event only involves old species. -/
theorem valid_below {s' a b : Path} (hv : internalEvent (Path.og s') a b ≠ .invalid)
    (ha : Path.ogOk a = true) (hb : Path.ogOk b = true) :
    (∃ a', a = Path.og a') ∧ ∃ b', b = Path.og b' := by
  obtain ⟨h1, h2, _⟩ := (internalEvent_ne_invalid_iff _ _ _).mp hv
  constructor
  · rcases Path.ogOk_cases ha with rfl | h
    · rw [isStrictAnc_nil_og] at h1; cases h1
    · exact h
  · rcases Path.ogOk_cases hb with rfl | h
    · rw [isStrictAnc_nil_og] at h2; cases h2
    · exact h

/-- Projection keeps events valid. -/
theorem unog_event_valid {s a b : Path} (hs : Path.ogOk s = true) (ha : Path.ogOk a = true)
    (hb : Path.ogOk b = true) (hv : internalEvent s a b ≠ .invalid) :
    internalEvent (Path.unog s) (Path.unog a) (Path.unog b) ≠ .invalid := by
  rcases Path.ogOk_cases hs with rfl | ⟨s', rfl⟩
  · exact internalEvent_nil_ne_invalid _ _
  · obtain ⟨⟨a', rfl⟩, ⟨b', rfl⟩⟩ := valid_below hv ha hb
    simpa [Path.og_emb.internalEvent] using hv

/-- The local inequality, for a generic local label count `loc` that
    * does not look at `keepLeft` for speciations and duplications, and
    * as a speciation counts at most `slack` more than as a duplication, and is
      defined whenever the duplication count is. -/
theorem unog_local_le (c : Costs) (slack : Nat)
    (loc : Event → Bool → Option Nat)
    (hloc : ∀ kl kl', loc .dup kl = loc .dup kl' ∧
      ∀ n, loc .dup kl = some n → ∃ n', loc .spec kl' = some n' ∧ n' ≤ n + slack)
    (hc : c.spe + slack * c.sloss ≤ c.dup + 4 * c.floss)
    {s a b : Path} (hs : Path.ogOk s = true) (ha : Path.ogOk a = true)
    (hb : Path.ogOk b = true) (hv : internalEvent s a b ≠ .invalid) :
    Cost.le
      (localRecCost c (Path.unog s) (Path.unog a) (Path.unog b) +
        optFin (loc (internalEvent (Path.unog s) (Path.unog a) (Path.unog b))
          (comparable (Path.unog s) (Path.unog a))) c.sloss)
      (localRecCost c s a b + optFin (loc (internalEvent s a b) (comparable s a)) c.sloss)
      = true := by
  rcases Path.ogOk_cases hs with rfl | ⟨s', rfl⟩
  · -- at the new root
    have hev := internalEvent_newroot ha hb
    have hla := unog_length_le a
    have hlb := unog_length_le b
    simp only [Path.unog, List.tail_nil] at hla hlb ⊢
    rw [hev]
    cases hl : loc .dup (comparable [] a) with
    | none => simp [optFin]
    | some n =>
      obtain ⟨n', hn', hle⟩ := (hloc (comparable [] a) (comparable [] a.tail)).2 n hl
      have hdup := (hloc (comparable [] a) (comparable [] a.tail)).1
      have hnil : ∀ x : Path, isAnc [] x = true := isAnc_nil
      rcases internalEvent_nil_cases a.tail b.tail with hev' | hev'
      rotate_left
      · simp only [localRecCost, hev, hev', dist_nil, ← hdup, hl, optFin, Cost.fin_add_fin_eq,
          Cost.fin_le_fin]
        have : c.floss * (a.tail.length + b.tail.length) ≤ c.floss * (a.length + b.length) :=
          Nat.mul_le_mul_left _ (by omega)
        omega
      · -- both projected children are proper, incomparable descendants of the old root
        have hne : a.tail ≠ [] ∧ b.tail ≠ [] := by
          simp only [internalEvent, hnil, isStrictAnc_to_nil] at hev'
          constructor <;> intro e <;> simp [e, comparable, isAnc] at hev'
        have h1 : a.length = a.tail.length + 1 := by
          cases a with
          | nil => simp at hne
          | cons x a => simp
        have h2 : b.length = b.tail.length + 1 := by
          cases b with
          | nil => simp at hne
          | cons x b => simp
        have h3 : 1 ≤ a.tail.length := by
          cases h : a.tail with
          | nil => exact absurd h hne.1
          | cons _ _ => simp
        have h4 : 1 ≤ b.tail.length := by
          cases h : b.tail with
          | nil => exact absurd h hne.2
          | cons _ _ => simp
        simp only [localRecCost, hev, hev', dist_nil, hn', optFin, Cost.fin_add_fin_eq,
          Cost.fin_le_fin]
        rw [h1, h2]
        have e1 : c.floss * (a.tail.length + 1 + (b.tail.length + 1)) =
            c.floss * (a.tail.length + b.tail.length - 2) + 4 * c.floss := by
          have : a.tail.length + 1 + (b.tail.length + 1) =
              (a.tail.length + b.tail.length - 2) + 4 := by omega
          rw [this, Nat.mul_add, Nat.mul_comm c.floss 4]
        have e2 : n' * c.sloss ≤ n * c.sloss + slack * c.sloss := by
          rw [← Nat.add_mul]; exact Nat.mul_le_mul_right _ hle
        omega
  · obtain ⟨⟨a', rfl⟩, ⟨b', rfl⟩⟩ := valid_below hv ha hb
    simp only [Path.unog_og, Path.og_emb.localRecCost, Path.og_emb.internalEvent,
      Path.og_emb.comparable]
    exact Cost.le_refl _

end Local

/-! ### Whole solutions -/

/-- In a valid solution over leaves at old species, every node is at the new
    root or at an old species (never at the outgroup leaf). -/
theorem validRec_ogOk (o : OTree) (sol : Sol) (hv : Spec.validRec o sol = true)
    (hl : ∀ p ∈ leafSpecies o, Path.ogOk p = true) : Path.ogOk sol.sp = true := by
  obtain ⟨p, hp, hanc⟩ := validRec_sp_anc_leaf o sol hv
  exact Path.ogOk_of_isAnc hanc (hl p hp)

theorem validRec_unog : ∀ (o : OTree) (sol : Sol), Spec.validRec o sol = true →
    (∀ p ∈ leafSpecies o, Path.ogOk p = true) →
    Spec.validRec (o.mapSp Path.unog) (sol.mapSp Path.unog) = true := by
  intro o
  induction o with
  | leaf sp f =>
    intro sol hv _
    cases sol with
    | leaf s g =>
      simp only [Spec.validRec, beq_iff_eq] at hv
      subst hv
      simp [OTree.mapSp, Sol.mapSp, Spec.validRec]
    | node s g l r => simp [Spec.validRec] at hv
  | node ol or ihl ihr =>
    intro sol hv hl
    have hs := validRec_ogOk _ sol hv hl
    cases sol with
    | leaf s g => simp [Spec.validRec] at hv
    | node s g l r =>
      simp only [Spec.validRec, Bool.and_eq_true, bne_iff_ne] at hv
      obtain ⟨⟨hev, hvl⟩, hvr⟩ := hv
      have hll : ∀ p ∈ leafSpecies ol, Path.ogOk p = true :=
        fun p hp => hl p (by simp [leafSpecies, hp])
      have hlr : ∀ p ∈ leafSpecies or, Path.ogOk p = true :=
        fun p hp => hl p (by simp [leafSpecies, hp])
      simp only [OTree.mapSp, Sol.mapSp, Spec.validRec, Sol.mapSp_sp, Bool.and_eq_true, bne_iff_ne]
      exact ⟨⟨unog_event_valid hs (validRec_ogOk ol l hvl hll) (validRec_ogOk or r hvr hlr) hev,
        ihl l hvl hll⟩, ihr r hvr hlr⟩

/-- The generic induction: projecting a valid solution does not increase
    `recCost + label losses`. -/
theorem unog_cost_le {σ : Type} (c : Costs) (slack : Nat)
    (loc : Event → Bool → σ → List Nat → List Nat → List Nat → Option Nat)
    (nxt : σ → List Nat → σ)
    (hloc : ∀ st f lf rf kl kl', loc .dup kl st f lf rf = loc .dup kl' st f lf rf ∧
      ∀ n, loc .dup kl st f lf rf = some n →
        ∃ n', loc .spec kl' st f lf rf = some n' ∧ n' ≤ n + slack)
    (hc : c.spe + slack * c.sloss ≤ c.dup + 4 * c.floss) :
    ∀ (o : OTree) (sol : Sol) (st : σ), Spec.validRec o sol = true →
      (∀ p ∈ leafSpecies o, Path.ogOk p = true) →
      Cost.le
        (recCost c (o.mapSp Path.unog) (sol.mapSp Path.unog) +
          optFin (genLosses loc nxt st (sol.mapSp Path.unog)) c.sloss)
        (recCost c o sol + optFin (genLosses loc nxt st sol) c.sloss) = true := by
  intro o
  induction o with
  | leaf sp f =>
    intro sol st hv _
    cases sol with
    | leaf s g =>
      simp only [Spec.validRec, beq_iff_eq] at hv
      subst hv
      simp [OTree.mapSp, Sol.mapSp, recCost, genLosses, Cost.le_refl]
    | node s g l r => simp [Spec.validRec] at hv
  | node ol or ihl ihr =>
    intro sol st hv hl
    have hs := validRec_ogOk _ sol hv hl
    cases sol with
    | leaf s g => simp [Spec.validRec] at hv
    | node s g l r =>
      simp only [Spec.validRec, Bool.and_eq_true, bne_iff_ne] at hv
      obtain ⟨⟨hev, hvl⟩, hvr⟩ := hv
      have hll : ∀ p ∈ leafSpecies ol, Path.ogOk p = true :=
        fun p hp => hl p (by simp [leafSpecies, hp])
      have hlr : ∀ p ∈ leafSpecies or, Path.ogOk p = true :=
        fun p hp => hl p (by simp [leafSpecies, hp])
      simp only [OTree.mapSp, Sol.mapSp, recCost_node, genLosses, Sol.mapSp_sp, Sol.mapSp_fam,
        optFin_match3, cost_rearrange]
      refine Cost.add_le_add ?_ (Cost.add_le_add (ihl l _ hvl hll) (ihr r _ hvr hlr))
      exact unog_local_le c slack (fun ev kl => loc ev kl st g l.fam r.fam)
        (fun kl kl' => hloc st g l.fam r.fam kl kl') hc hs
        (validRec_ogOk ol l hvl hll) (validRec_ogOk or r hvr hlr) hev

/-! ### The three modes -/

/-- The label losses of a mode. -/
def modeLosses (mode : LabelMode) (sol : Sol) : Option Nat :=
  match mode with
  | .plain => some 0
  | .ordered => ordLosses sol.fam (subseqComplete sol.fam) sol
  | .unordered => unordLosses sol

theorem totalCost_eq_optFin (c : Costs) (mode : LabelMode) (o : OTree) (sol : Sol) :
    totalCost c mode o sol = recCost c o sol + optFin (modeLosses mode sol) c.sloss := by
  cases mode
  · simp [totalCost, labelingCost, modeLosses, optFin]
  · simp only [totalCost, labelingCost, modeLosses]
    cases ordLosses sol.fam (subseqComplete sol.fam) sol <;> simp [optFin]
  · simp only [totalCost, labelingCost, modeLosses]
    cases unordLosses sol <;> simp [optFin]

theorem ord_loc_ok (m ml mr : Nat) (kl kl' : Bool) :
    localOrdLosses .dup kl m ml mr = localOrdLosses .dup kl' m ml mr ∧
    ∀ n, localOrdLosses .dup kl m ml mr = some n →
      ∃ n', localOrdLosses .spec kl' m ml mr = some n' ∧ n' ≤ n + 2 := by
  refine ⟨rfl, ?_⟩
  intro n hn
  simp only [localOrdLosses, addDist] at hn ⊢
  have tl := segDist_true_neg ml m
  have tr := segDist_true_neg mr m
  by_cases h1 : subseqSegmentDist ml m true < 0
  · simp [h1] at hn
  · by_cases h2 : subseqSegmentDist mr m true < 0
    · simp [h2] at hn
    · by_cases h3 : subseqSegmentDist ml m false < 0
      · simp [h3] at hn
      · by_cases h4 : subseqSegmentDist mr m false < 0
        · simp [h4] at hn
        · have sl := segDist_slack ml m (by omega) (by omega)
          have sr := segDist_slack mr m (by omega) (by omega)
          simp only [h1, h2, h3, h4, decide_false, Bool.or_false, Bool.false_eq_true, if_false,
            Option.some.injEq] at hn ⊢
          refine ⟨_, rfl, ?_⟩
          rw [← hn]
          simp only [Nat.min_def]
          split <;> omega

theorem un_loc_ok (f fl fr : List Nat) (kl kl' : Bool) :
    localUnordLosses .dup kl f fl fr = localUnordLosses .dup kl' f fl fr ∧
    ∀ n, localUnordLosses .dup kl f fl fr = some n →
      ∃ n', localUnordLosses .spec kl' f fl fr = some n' ∧ n' ≤ n + 1 := by
  refine ⟨rfl, ?_⟩
  intro n hn
  simp only [localUnordLosses, Option.some.injEq] at hn ⊢
  refine ⟨_, rfl, ?_⟩
  rw [← hn]
  simp only [Nat.min_def]
  split <;> split <;> simp

/-- **Projection does not increase the evaluated cost**, in every mode, when
    `spe + slack·sloss ≤ dup + 4·floss`. -/
theorem totalCost_unog_le (c : Costs) (mode : LabelMode)
    (hc : c.spe + ogSlack mode * c.sloss ≤ c.dup + 4 * c.floss) (o : OTree) (sol : Sol)
    (hv : Spec.validRec o sol = true) (hl : ∀ p ∈ leafSpecies o, Path.ogOk p = true) :
    Cost.le (totalCost c mode (o.mapSp Path.unog) (sol.mapSp Path.unog)) (totalCost c mode o sol)
      = true := by
  rw [totalCost_eq_optFin, totalCost_eq_optFin]
  cases mode with
  | plain =>
    simp only [modeLosses]
    have := unog_cost_le c 0 (fun _ _ (_ : Unit) _ _ _ => some 0) (fun _ _ => ())
      (fun _ _ _ _ _ _ => ⟨rfl, fun n hn => ⟨n, hn, Nat.le_add_right _ _⟩⟩) hc o sol () hv hl
    rw [← plainLosses_eq_gen, ← plainLosses_eq_gen] at this
    exact this
  | ordered =>
    simp only [modeLosses, Sol.mapSp_fam]
    rw [ordLosses_eq_gen, ordLosses_eq_gen]
    exact unog_cost_le c 2 _ _ (fun m _ lf rf kl kl' => ord_loc_ok m _ _ kl kl') hc o sol _ hv hl
  | unordered =>
    simp only [modeLosses]
    rw [unordLosses_eq_gen, unordLosses_eq_gen]
    exact unog_cost_le c 1 _ _ (fun _ f lf rf kl kl' => un_loc_ok f lf rf kl kl') hc o sol _ hv hl

/-- Projection keeps validity in every mode. -/
theorem validSol_unog (mode : LabelMode) (o : OTree) (sol : Sol)
    (hv : Spec.validSol mode o sol = true) (hl : ∀ p ∈ leafSpecies o, Path.ogOk p = true) :
    Spec.validSol mode (o.mapSp Path.unog) (sol.mapSp Path.unog) = true := by
  cases mode <;>
    simp only [Spec.validSol, Bool.and_eq_true, validOrdLabels_mapSp, validUnLabels_mapSp,
      families_mapSp, Sol.mapSp_fam] at hv ⊢
  · exact ⟨validRec_unog o sol hv.1 hl, trivial⟩
  · exact ⟨validRec_unog o sol hv.1 hl, hv.2⟩
  · exact ⟨validRec_unog o sol hv.1 hl, hv.2⟩

theorem leafSpecies_og_ok (o : OTree) : ∀ p ∈ leafSpecies (o.mapSp Path.og), Path.ogOk p = true := by
  intro p hp
  rw [leafSpecies_mapSp] at hp
  obtain ⟨q, _, rfl⟩ := List.mem_map.mp hp
  rfl

theorem OTree.unog_og (o : OTree) : (o.mapSp Path.og).mapSp Path.unog = o := by
  rw [OTree.mapSp_mapSp]; exact OTree.mapSp_id' _ (fun _ => rfl) o

theorem Sol.unog_og (s : Sol) : (s.mapSp Path.og).mapSp Path.unog = s := by
  rw [Sol.mapSp_mapSp]; exact Sol.mapSp_id' _ (fun _ => rfl) s

/-- All species of a solution satisfy `P`. -/
def Sol.allSp (P : Path → Bool) : Sol → Bool
  | .leaf s _ => P s
  | .node s _ l r => P s && allSp P l && allSp P r

/-- A solution that avoids the new root (and the outgroup) is the embedding of
    its projection. -/
theorem Sol.og_unog_of_avoid : ∀ (s : Sol),
    s.allSp (fun p => Path.ogOk p && (p != [])) = true → (s.mapSp Path.unog).mapSp Path.og = s := by
  intro s
  induction s with
  | leaf sp f =>
    intro h
    simp only [Sol.allSp, Bool.and_eq_true, bne_iff_ne] at h
    simp [Sol.mapSp, Path.og_unog_of_ne_nil h.1 h.2]
  | node sp f l r ihl ihr =>
    intro h
    simp only [Sol.allSp, Bool.and_eq_true, bne_iff_ne] at h
    simp [Sol.mapSp, Path.og_unog_of_ne_nil h.1.1.1 h.1.1.2, ihl h.1.2, ihr h.2]

theorem Sol.allSp_og (s : Sol) :
    (s.mapSp Path.og).allSp (fun p => Path.ogOk p && (p != [])) = true := by
  induction s with
  | leaf sp f => simp [Sol.mapSp, Sol.allSp, Path.og, Path.ogOk]
  | node sp f l r ihl ihr =>
    simp only [Sol.mapSp, Sol.allSp, ihl, ihr]
    simp [Path.og, Path.ogOk]
/-- In a valid solution over leaves at old species, EVERY node sits at the new root
    or at an old species: the outgroup leaf `[1]` is never used. -/
theorem validRec_allSp_ogOk : ∀ (o : OTree) (sol : Sol), Spec.validRec o sol = true →
    (∀ p ∈ leafSpecies o, Path.ogOk p = true) → sol.allSp Path.ogOk = true := by
  intro o
  induction o with
  | leaf sp f =>
    intro sol hv hl
    have := validRec_ogOk _ sol hv hl
    cases sol with
    | leaf s g => exact this
    | node s g l r => simp [Spec.validRec] at hv
  | node ol or ihl ihr =>
    intro sol hv hl
    have hs := validRec_ogOk _ sol hv hl
    cases sol with
    | leaf s g => simp [Spec.validRec] at hv
    | node s g l r =>
      simp only [Spec.validRec, Bool.and_eq_true] at hv
      simp only [Sol.allSp, Bool.and_eq_true]
      exact ⟨⟨hs, ihl l hv.1.2 (fun p hp => hl p (by simp [leafSpecies, hp]))⟩,
        ihr r hv.2 (fun p hp => hl p (by simp [leafSpecies, hp]))⟩

theorem Path.ogOk_ne_outgroup {p : Path} (h : Path.ogOk p = true) : p ≠ [1] := by
  intro e; subst e; simp [Path.ogOk] at h

/-! ### Strictness: with a positive full-loss cost, using the new root is never optimal -/

theorem Cost.add_lt_add_of_lt_of_le {a b c d : Cost} (h1 : Cost.lt a b = true)
    (h2 : Cost.le c d = true) (hfin : d ≠ .inf) : Cost.lt (a + c) (b + d) = true := by
  cases a <;> cases b <;> cases c <;> cases d <;>
    simp_all [Cost.add_def, Cost.add, Cost.lt, Cost.le] <;> omega

theorem Cost.add_lt_add_of_le_of_lt {a b c d : Cost} (h1 : Cost.le a b = true)
    (h2 : Cost.lt c d = true) (hfin : b ≠ .inf) : Cost.lt (a + c) (b + d) = true := by
  rw [Cost.add_comm a c, Cost.add_comm b d]
  exact Cost.add_lt_add_of_lt_of_le h2 h1 hfin

/-- The species avoids the new root (and the outgroup). -/
def Path.avoid (p : Path) : Bool := Path.ogOk p && (p != [])

theorem Sol.allSp_sp {P : Path → Bool} {s : Sol} (h : s.allSp P = true) : P s.sp = true := by
  cases s with
  | leaf sp f => exact h
  | node sp f l r =>
    simp only [Sol.allSp, Bool.and_eq_true] at h
    exact h.1.1

/-- Strict local inequality at the new root when some child is not at the new root. -/
theorem unog_local_lt (c : Costs) (slack : Nat)
    (loc : Event → Bool → Option Nat)
    (hloc : ∀ kl kl', loc .dup kl = loc .dup kl' ∧
      ∀ n, loc .dup kl = some n → ∃ n', loc .spec kl' = some n' ∧ n' ≤ n + slack)
    (hc : c.spe + slack * c.sloss < c.dup + 4 * c.floss) (hfl : 0 < c.floss)
    {a b : Path} (ha : Path.ogOk a = true) (hb : Path.ogOk b = true) (hne : a ≠ [] ∨ b ≠ [])
    (hfin : localRecCost c [] a b + optFin (loc (internalEvent [] a b) (comparable [] a)) c.sloss
      ≠ .inf) :
    Cost.lt
      (localRecCost c [] (Path.unog a) (Path.unog b) +
        optFin (loc (internalEvent [] (Path.unog a) (Path.unog b))
          (comparable [] (Path.unog a))) c.sloss)
      (localRecCost c [] a b + optFin (loc (internalEvent [] a b) (comparable [] a)) c.sloss)
      = true := by
  have hev := internalEvent_newroot ha hb
  have hlen : (Path.unog a).length + (Path.unog b).length < a.length + b.length := by
    have h1 := unog_length_le a
    have h2 := unog_length_le b
    rcases hne with h | h
    · have : (Path.unog a).length < a.length := by
        cases a with
        | nil => exact absurd rfl h
        | cons x a => simp [Path.unog]
      omega
    · have : (Path.unog b).length < b.length := by
        cases b with
        | nil => exact absurd rfl h
        | cons x b => simp [Path.unog]
      omega
  simp only [Path.unog] at hlen ⊢
  rw [hev] at hfin ⊢
  cases hl : loc .dup (comparable [] a) with
  | none => rw [hl] at hfin; simp [optFin] at hfin
  | some n =>
    obtain ⟨n', hn', hle⟩ := (hloc (comparable [] a) (comparable [] a.tail)).2 n hl
    have hdup := (hloc (comparable [] a) (comparable [] a.tail)).1
    have hnil : ∀ x : Path, isAnc [] x = true := isAnc_nil
    rcases internalEvent_nil_cases a.tail b.tail with hev' | hev'
    rotate_left
    · simp only [localRecCost, hev, hev', dist_nil, ← hdup, hl, optFin, Cost.fin_add_fin_eq,
        Cost.lt, decide_eq_true_eq]
      have : c.floss * (a.tail.length + b.tail.length) < c.floss * (a.length + b.length) :=
        (Nat.mul_lt_mul_left hfl).mpr hlen
      omega
    · have hne' : a.tail ≠ [] ∧ b.tail ≠ [] := by
        simp only [internalEvent, hnil, isStrictAnc_to_nil] at hev'
        constructor <;> intro e <;> simp [e, comparable, isAnc] at hev'
      have h1 : a.length = a.tail.length + 1 := by
        cases a with
        | nil => simp at hne'
        | cons x a => simp
      have h2 : b.length = b.tail.length + 1 := by
        cases b with
        | nil => simp at hne'
        | cons x b => simp
      have h3 : 1 ≤ a.tail.length := by
        cases h : a.tail with
        | nil => exact absurd h hne'.1
        | cons _ _ => simp
      have h4 : 1 ≤ b.tail.length := by
        cases h : b.tail with
        | nil => exact absurd h hne'.2
        | cons _ _ => simp
      simp only [localRecCost, hev, hev', dist_nil, hn', optFin, Cost.fin_add_fin_eq,
        Cost.lt, decide_eq_true_eq]
      rw [h1, h2]
      have e1 : c.floss * (a.tail.length + 1 + (b.tail.length + 1)) =
          c.floss * (a.tail.length + b.tail.length - 2) + 4 * c.floss := by
        have : a.tail.length + 1 + (b.tail.length + 1) =
            (a.tail.length + b.tail.length - 2) + 4 := by omega
        rw [this, Nat.mul_add, Nat.mul_comm c.floss 4]
      have e2 : n' * c.sloss ≤ n * c.sloss + slack * c.sloss := by
        rw [← Nat.add_mul]; exact Nat.mul_le_mul_right _ hle
      omega

/-- The generic strict induction: a valid solution of finite cost that uses the
    new root becomes strictly cheaper under projection. -/
theorem unog_cost_lt {σ : Type} (c : Costs) (slack : Nat)
    (loc : Event → Bool → σ → List Nat → List Nat → List Nat → Option Nat)
    (nxt : σ → List Nat → σ)
    (hloc : ∀ st f lf rf kl kl', loc .dup kl st f lf rf = loc .dup kl' st f lf rf ∧
      ∀ n, loc .dup kl st f lf rf = some n →
        ∃ n', loc .spec kl' st f lf rf = some n' ∧ n' ≤ n + slack)
    (hc : c.spe + slack * c.sloss < c.dup + 4 * c.floss) (hfl : 0 < c.floss) :
    ∀ (o : OTree) (sol : Sol) (st : σ), Spec.validRec o sol = true →
      (∀ p ∈ leafSpecies o, Path.avoid p = true) →
      sol.allSp Path.avoid = false →
      recCost c o sol + optFin (genLosses loc nxt st sol) c.sloss ≠ .inf →
      Cost.lt
        (recCost c (o.mapSp Path.unog) (sol.mapSp Path.unog) +
          optFin (genLosses loc nxt st (sol.mapSp Path.unog)) c.sloss)
        (recCost c o sol + optFin (genLosses loc nxt st sol) c.sloss) = true := by
  have hc' : c.spe + slack * c.sloss ≤ c.dup + 4 * c.floss := Nat.le_of_lt hc
  have hok : ∀ o : OTree, (∀ p ∈ leafSpecies o, Path.avoid p = true) →
      ∀ p ∈ leafSpecies o, Path.ogOk p = true := by
    intro o h p hp
    have := h p hp
    simp only [Path.avoid, Bool.and_eq_true] at this
    exact this.1
  intro o
  induction o with
  | leaf sp f =>
    intro sol st hv hl hbad _
    cases sol with
    | leaf s g =>
      simp only [Spec.validRec, beq_iff_eq] at hv
      subst hv
      have := hl s (by simp [leafSpecies])
      simp only [Sol.allSp] at hbad
      rw [this] at hbad; cases hbad
    | node s g l r => simp [Spec.validRec] at hv
  | node ol or ihl ihr =>
    intro sol st hv hl hbad hfin
    have hs := validRec_ogOk _ sol hv (hok _ hl)
    cases sol with
    | leaf s g => simp [Spec.validRec] at hv
    | node s g l r =>
      simp only [Spec.validRec, Bool.and_eq_true, bne_iff_ne] at hv
      obtain ⟨⟨hev, hvl⟩, hvr⟩ := hv
      have hll : ∀ p ∈ leafSpecies ol, Path.avoid p = true :=
        fun p hp => hl p (by simp [leafSpecies, hp])
      have hlr : ∀ p ∈ leafSpecies or, Path.avoid p = true :=
        fun p hp => hl p (by simp [leafSpecies, hp])
      have hsl := validRec_ogOk ol l hvl (hok _ hll)
      have hsr := validRec_ogOk or r hvr (hok _ hlr)
      have hloc' := fun kl kl' => hloc st g l.fam r.fam kl kl'
      have leL := unog_local_le c slack (fun ev kl => loc ev kl st g l.fam r.fam) hloc' hc' hs hsl hsr hev
      have leX := unog_cost_le c slack loc nxt hloc hc' ol l (nxt st l.fam) hvl (hok _ hll)
      have leY := unog_cost_le c slack loc nxt hloc hc' or r (nxt st r.fam) hvr (hok _ hlr)
      simp only [OTree.mapSp, Sol.mapSp, recCost_node, genLosses, Sol.mapSp_sp, Sol.mapSp_fam,
        optFin_match3, cost_rearrange] at hfin leL leX leY ⊢
      obtain ⟨fL, fXY⟩ := Cost.add_ne_inf hfin
      obtain ⟨fX, fY⟩ := Cost.add_ne_inf fXY
      by_cases bl : l.allSp Path.avoid = false
      · have ltX := ihl l (nxt st l.fam) hvl hll bl fX
        exact Cost.add_lt_add_of_le_of_lt leL (Cost.add_lt_add_of_lt_of_le ltX leY fY) fL
      · by_cases br : r.allSp Path.avoid = false
        · have ltY := ihr r (nxt st r.fam) hvr hlr br fY
          exact Cost.add_lt_add_of_le_of_lt leL (Cost.add_lt_add_of_le_of_lt leX ltY fX) fL
        · simp only [Bool.not_eq_false] at bl br
          simp only [Sol.allSp, bl, br, Bool.and_true] at hbad
          have hsnil : s = [] := by
            have hs' : Path.ogOk s = true := hs
            rw [Path.avoid, hs'] at hbad
            simpa using hbad
          subst hsnil
          have hla : l.sp ≠ [] := by
            have := Sol.allSp_sp bl
            simp only [Path.avoid, Bool.and_eq_true, bne_iff_ne] at this
            exact this.2
          have ltL := unog_local_lt c slack (fun ev kl => loc ev kl st g l.fam r.fam) hloc' hc hfl
            hsl hsr (Or.inl hla) fL
          simp only [Path.unog, List.tail_nil] at ltL ⊢
          exact Cost.add_lt_add_of_lt_of_le ltL (Cost.add_le_add leX leY) fXY

/-- **Strictness in every mode**: when `spe + k·sloss < dup + 4·floss` and `floss > 0`,
    a valid solution of finite cost that uses the new root is strictly dearer than
    its projection. -/
theorem totalCost_unog_lt (c : Costs) (mode : LabelMode)
    (hc : c.spe + ogSlack mode * c.sloss < c.dup + 4 * c.floss) (hfl : 0 < c.floss)
    (o : OTree) (sol : Sol)
    (hv : Spec.validRec o sol = true) (hl : ∀ p ∈ leafSpecies o, Path.avoid p = true)
    (hbad : sol.allSp Path.avoid = false) (hfin : totalCost c mode o sol ≠ .inf) :
    Cost.lt (totalCost c mode (o.mapSp Path.unog) (sol.mapSp Path.unog)) (totalCost c mode o sol)
      = true := by
  rw [totalCost_eq_optFin] at hfin
  rw [totalCost_eq_optFin, totalCost_eq_optFin]
  cases mode with
  | plain =>
    simp only [modeLosses] at hfin ⊢
    have := unog_cost_lt c 0 (fun _ _ (_ : Unit) _ _ _ => some 0) (fun _ _ => ())
      (fun _ _ _ _ _ _ => ⟨rfl, fun n hn => ⟨n, hn, Nat.le_add_right _ _⟩⟩) hc hfl o sol () hv hl
      hbad (by rw [← plainLosses_eq_gen]; exact hfin)
    rw [← plainLosses_eq_gen, ← plainLosses_eq_gen] at this
    exact this
  | ordered =>
    simp only [modeLosses, Sol.mapSp_fam] at hfin ⊢
    rw [ordLosses_eq_gen] at hfin
    rw [ordLosses_eq_gen, ordLosses_eq_gen]
    exact unog_cost_lt c 2 _ _ (fun m _ lf rf kl kl' => ord_loc_ok m _ _ kl kl') hc hfl o sol _ hv hl
      hbad hfin
  | unordered =>
    simp only [modeLosses] at hfin ⊢
    rw [unordLosses_eq_gen] at hfin
    rw [unordLosses_eq_gen, unordLosses_eq_gen]
    exact unog_cost_lt c 1 _ _ (fun _ f lf rf kl kl' => un_loc_ok f lf rf kl kl') hc hfl o sol _ hv hl
      hbad hfin

theorem leafSpecies_og_avoid (o : OTree) :
    ∀ p ∈ leafSpecies (o.mapSp Path.og), Path.avoid p = true := by
  intro p hp
  rw [leafSpecies_mapSp] at hp
  obtain ⟨q, _, rfl⟩ := List.mem_map.mp hp
  rfl

end SR
