/-
  C11 (Newick codec) — the reader's three nested `split`s as one left-to-right scan.

  `Newick.readFromString` is written as ete3 is: `split("(")`, per chunk `split(",")`,
  the test on the last sub-chunk, then the loop over the sub-chunks.  For the proofs
  the same computation is expressed as a scan `scan st acc rest` over the characters
  (`acc`: the current sub-chunk, reversed); `runChunks_eq_scan` says that the two
  agree on EVERY string.
-/
import SRVerif.Model.Newick

namespace SR.Newick

open SR.Ser (NT Err)

/-! ### `split` -/

theorem splitAux_ne_nil (d : Char) (s acc : Chars) : splitAux d s acc ≠ [] := by
  induction s generalizing acc with
  | nil => simp [splitAux]
  | cons c cs ih =>
    unfold splitAux
    split
    · simp
    · exact ih _

/-- No separator in `y`: the current piece grows. -/
theorem splitAux_skip (d : Char) (y rest acc : Chars) (hy : ∀ c ∈ y, c ≠ d) :
    splitAux d (y ++ rest) acc = splitAux d rest (y.reverse ++ acc) := by
  induction y generalizing acc with
  | nil => rfl
  | cons c cs ih =>
    have hc : (c == d) = false := by simpa using hy c (by simp)
    simp only [List.cons_append, splitAux, hc, Bool.false_eq_true, if_false]
    rw [ih _ (fun x hx => hy x (by simp [hx]))]
    simp

theorem splitAux_sep (d : Char) (y z acc : Chars) :
    splitAux d (y ++ d :: z) acc = splitAux d y acc ++ splitAux d z [] := by
  induction y generalizing acc with
  | nil => simp [splitAux]
  | cons c cs ih =>
    by_cases hc : (c == d) = true
    · simp only [List.cons_append, splitAux, hc, if_true, ih, List.cons_append]
    · simp only [List.cons_append, splitAux, hc, Bool.false_eq_true, if_false, ih]

theorem splitAux_none (d : Char) (y acc : Chars) (hy : ∀ c ∈ y, c ≠ d) :
    splitAux d y acc = [acc.reverse ++ y] := by
  have := splitAux_skip d y [] acc hy
  simp only [List.append_nil] at this
  rw [this]
  simp [splitAux]

/-! ### The scan -/

/-- What the loop does with the last sub-chunk of a chunk (already stripped). -/
def procLast (st : St) (s : Chars) : Except Err St :=
  if s.isEmpty then pure st else procSub st s

/-- The sub-chunks of (the rest of) one chunk. -/
def scanSubs (st : St) : Chars → Chars → Except Err St
  | acc, [] => procLast st (strip acc.reverse)
  | acc, c :: cs =>
    if c == ',' then procSub st (strip acc.reverse) >>= fun st' => scanSubs st' [] cs
    else scanSubs st (c :: acc) cs

theorem procSubs_eq_scanSubs (st : St) (y acc : Chars) :
    procSubs st ((splitAux ',' y acc).map strip) = scanSubs st acc y := by
  induction y generalizing st acc with
  | nil => simp [splitAux, procSubs, scanSubs, procLast]
  | cons c cs ih =>
    by_cases hc : (c == ',') = true
    · simp only [splitAux, hc, if_true, scanSubs, List.map_cons]
      obtain ⟨a, l, hl⟩ : ∃ a l, splitAux ',' cs [] = a :: l := by
        cases h : splitAux ',' cs [] with
        | nil => exact absurd h (splitAux_ne_nil _ _ _)
        | cons a l => exact ⟨a, l, rfl⟩
      have key : ∀ st', procSubs st' (strip a :: l.map strip) = scanSubs st' [] cs := by
        intro st'
        have := ih st' []
        rwa [hl, List.map_cons] at this
      simp only [hl, List.map_cons, procSubs]
      congr 1
      funext st'
      exact key st'
    · simp only [splitAux, hc, Bool.false_eq_true, if_false, scanSubs]
      exact ih _ _

/-- The test on the last sub-chunk of the chunk that begins the text. -/
def chunkOk (s : Chars) : Bool :=
  lastOk ((splitOn ',' (s.takeWhile (· != '('))).map strip)

/-- The whole text after an opening parenthesis whose chunk passed the test. -/
def scan (st : St) : Chars → Chars → Except Err St
  | acc, [] => procLast st (strip acc.reverse)
  | acc, c :: cs =>
    if c == '(' then
      procLast st (strip acc.reverse) >>= fun st' =>
        if chunkOk cs then scan st'.openChunk [] cs else .error .newickError
    else if c == ',' then procSub st (strip acc.reverse) >>= fun st' => scan st' [] cs
    else scan st (c :: acc) cs

/-- `for chunk in chunks` on the text that follows an opening parenthesis. -/
def runChunks (st : St) (s : Chars) : Except Err St := (splitOn '(' s).foldlM procChunk st

theorem scan_noparen (st : St) (y acc : Chars) (hy : ∀ c ∈ y, c ≠ '(') :
    scan st acc y = scanSubs st acc y := by
  induction y generalizing st acc with
  | nil => rfl
  | cons c cs ih =>
    have hc : (c == '(') = false := by simpa using hy c (by simp)
    have hcs : ∀ x ∈ cs, x ≠ '(' := fun x hx => hy x (by simp [hx])
    simp only [scan, scanSubs, hc, Bool.false_eq_true, if_false]
    split
    · congr 1; funext st'; exact ih _ _ hcs
    · exact ih _ _ hcs

theorem scan_paren (st : St) (y r acc : Chars) (hy : ∀ c ∈ y, c ≠ '(') :
    scan st acc (y ++ '(' :: r) = scanSubs st acc y >>= fun st' =>
      if chunkOk r then scan st'.openChunk [] r else .error .newickError := by
  induction y generalizing st acc with
  | nil => simp [scan, scanSubs]
  | cons c cs ih =>
    have hc : (c == '(') = false := by simpa using hy c (by simp)
    have hcs : ∀ x ∈ cs, x ≠ '(' := fun x hx => hy x (by simp [hx])
    simp only [List.cons_append, scan, scanSubs, hc, Bool.false_eq_true, if_false]
    split
    · rw [bind_assoc]; congr 1; funext st'; exact ih _ _ hcs
    · exact ih _ _ hcs

theorem procChunk_eq (st : St) (y : Chars) :
    procChunk st y = if lastOk ((splitOn ',' y).map strip) then scanSubs st.openChunk [] y
      else .error .newickError := by
  unfold procChunk
  simp only [splitOn, procSubs_eq_scanSubs]
  rfl

theorem takeWhile_append_sep (y r : Chars) (hy : ∀ c ∈ y, c ≠ '(') :
    (y ++ '(' :: r).takeWhile (· != '(') = y := by
  induction y with
  | nil => simp
  | cons c cs ih =>
    have hc : (c != '(') = true := by simpa using hy c (by simp)
    simp [hc, ih (fun x hx => hy x (by simp [hx]))]

theorem takeWhile_noparen (y : Chars) (hy : ∀ c ∈ y, c ≠ '(') : y.takeWhile (· != '(') = y := by
  induction y with
  | nil => rfl
  | cons c cs ih =>
    have hc : (c != '(') = true := by simpa using hy c (by simp)
    simp [hc, ih (fun x hx => hy x (by simp [hx]))]

/-- Every text is a parenthesis-free prefix, alone or followed by `(` and a shorter text. -/
theorem split_first_paren (s : Chars) :
    (∀ c ∈ s, c ≠ '(') ∨ ∃ y r, s = y ++ '(' :: r ∧ (∀ c ∈ y, c ≠ '(') ∧ r.length < s.length := by
  induction s with
  | nil => left; simp
  | cons c cs ih =>
    by_cases hc : c = '('
    · right; exact ⟨[], cs, by simp [hc], by simp, by simp⟩
    · rcases ih with h | ⟨y, r, h1, h2, h3⟩
      · left; intro x hx; rcases List.mem_cons.1 hx with rfl | hx
        · exact hc
        · exact h x hx
      · right; refine ⟨c :: y, r, by simp [h1], ?_, by simp; omega⟩
        intro x hx; rcases List.mem_cons.1 hx with rfl | hx
        · exact hc
        · exact h2 x hx

/-- The nested splits of ete3 and the scan agree on every text. -/
theorem runChunks_eq_scan (st : St) (s : Chars) :
    runChunks st s = if chunkOk s then scan st.openChunk [] s else .error .newickError := by
  induction h : s.length using Nat.strongRecOn generalizing st s with
  | _ n ih =>
    rcases split_first_paren s with hs | ⟨y, r, rfl, hy, hlen⟩
    · have h1 : splitOn '(' s = [s] := by
        unfold splitOn; rw [splitAux_none _ _ _ hs]; simp
      unfold runChunks
      rw [h1]
      simp only [List.foldlM_cons, List.foldlM_nil, bind_pure, procChunk_eq, chunkOk,
        takeWhile_noparen s hs, scan_noparen _ _ _ hs]
    · have h1 : splitOn '(' (y ++ '(' :: r) = y :: splitOn '(' r := by
        unfold splitOn
        rw [splitAux_sep, splitAux_none _ _ _ hy]; simp
      unfold runChunks
      rw [h1]
      simp only [List.foldlM_cons, procChunk_eq, chunkOk, takeWhile_append_sep y r hy]
      split
      · rw [scan_paren _ _ _ _ hy]
        congr 1; funext st'
        have := ih r.length (by omega) st' r rfl
        simpa [runChunks, chunkOk] using this
      · rfl

end SR.Newick
