/-
  The discovery tree built by `find_cycle`'s depth-first loop, and the
  state invariant of that loop (`Model/FindCycle.lean`).
-/
import SRVerif.Proofs.FindCycleSpec
import SRVerif.Model.FindCycle

namespace SR.Toposort

def pkeys (P : Parents) : List Nat := P.map (·.1)

theorem plookup_self (P : Parents) (k v : Nat) : List.lookup k ((k, v) :: P) = some v := by
  simp

theorem plookup_ne (P : Parents) {x k : Nat} (v : Nat) (h : x ≠ k) :
    List.lookup x ((k, v) :: P) = List.lookup x P := by
  have : (x == k) = false := by simpa using h
  simp [List.lookup_cons, this]

theorem plookup_isSome (P : Parents) (x : Nat) : (P.lookup x).isSome ↔ x ∈ pkeys P := by
  induction P with
  | nil => simp [pkeys]
  | cons a P ih =>
    obtain ⟨k, v⟩ := a
    by_cases e : x = k
    · subst e; simp [pkeys]
    · rw [plookup_ne P v e, ih]; simp [pkeys, e]

theorem plookup_mem {P : Parents} {x p : Nat} (h : P.lookup x = some p) : x ∈ pkeys P :=
  (plookup_isSome P x).1 (by simp [h])

/-! ### The discovery tree -/

/-- `P` (most recent entry first) records a tree rooted at `i`: the oldest
    entry is `(i, i)`, every later entry `(v, p)` discovers a new vertex `v`
    through an edge `p → v` from an already discovered `p`. -/
inductive TO (g : Graph) (i : Nat) : Parents → Prop
  | root : TO g i [(i, i)]
  | node {v p : Nat} {P : Parents} :
      TO g i P → v ∉ pkeys P → p ∈ pkeys P → Arc g p v → TO g i ((v, p) :: P)

theorem TO.nodup {g : Graph} {i : Nat} {P : Parents} (h : TO g i P) : (pkeys P).Nodup := by
  induction h with
  | root => simp [pkeys]
  | @node v0 p0 P _ hv _ _ ih => simpa [pkeys] using ⟨by simpa [pkeys] using hv, ih⟩

theorem TO.root_lookup {g : Graph} {i : Nat} {P : Parents} (h : TO g i P) : P.lookup i = some i := by
  induction h with
  | root => exact plookup_self _ _ _
  | @node v p P _ hv _ _ ih =>
    have : i ≠ v := fun e => hv (e ▸ plookup_mem ih)
    rw [plookup_ne P p this, ih]

theorem TO.root_mem {g : Graph} {i : Nat} {P : Parents} (h : TO g i P) : i ∈ pkeys P :=
  plookup_mem h.root_lookup

/-- Entries other than the root's are tree edges towards an older vertex. -/
theorem TO.lookup {g : Graph} {i : Nat} {P : Parents} (h : TO g i P) :
    ∀ v p, P.lookup v = some p → p ∈ pkeys P ∧ (v ≠ i → Arc g p v) := by
  induction h with
  | root =>
    intro v p hl
    by_cases e : v = i
    · subst e; rw [plookup_self] at hl; cases hl; exact ⟨by simp [pkeys], fun h => absurd rfl h⟩
    · rw [plookup_ne _ _ e] at hl; simp at hl
  | @node v0 p0 P _ hv hp ha ih =>
    intro v p hl
    by_cases e : v = v0
    · subst e; rw [plookup_self] at hl; cases hl
      exact ⟨by simp [pkeys]; right; simpa [pkeys] using hp, fun _ => ha⟩
    · rw [plookup_ne _ _ e] at hl
      obtain ⟨h1, h2⟩ := ih v p hl
      exact ⟨by simp [pkeys]; right; simpa [pkeys] using h1, h2⟩

theorem walkTo_head {g : Graph} {i v : Nat} {w : List Nat} (h : WalkTo g i v w) : ∃ t, w = v :: t := by
  cases h with
  | nil => exact ⟨[], rfl⟩
  | snoc _ _ => exact ⟨_, rfl⟩

/-- Every discovered vertex is reached by the walk along the tree; for a
    non-root vertex its last edge is the recorded parent edge. -/
theorem TO.walk {g : Graph} {i : Nat} {P : Parents} (h : TO g i P) :
    ∀ v ∈ pkeys P, ∃ w, WalkTo g i v w ∧
      (v = i → w = [i]) ∧ (v ≠ i → ∃ p t, P.lookup v = some p ∧ w = v :: p :: t) := by
  induction h with
  | root =>
    intro v hv
    have : v = i := by simpa [pkeys] using hv
    subst this
    exact ⟨[v], .nil, fun _ => rfl, fun h => absurd rfl h⟩
  | @node v0 p0 P hto hv hp ha ih =>
    intro v hvk
    by_cases e : v = v0
    · subst e
      obtain ⟨w, hw, _, _⟩ := ih p0 hp
      obtain ⟨t, rfl⟩ := walkTo_head hw
      have hvi : v ≠ i := fun e => hv (e ▸ hto.root_mem)
      exact ⟨v :: p0 :: t, .snoc hw ha, fun e => absurd e hvi,
        fun _ => ⟨p0, t, plookup_self _ _ _, rfl⟩⟩
    · have hvP : v ∈ pkeys P := by
        simp only [pkeys, List.map_cons, List.mem_cons] at hvk
        rcases hvk with h | h
        · exact absurd h e
        · exact h
      obtain ⟨w, hw, h1, h2⟩ := ih v hvP
      refine ⟨w, hw, h1, fun hne => ?_⟩
      obtain ⟨p, t, hl, rfl⟩ := h2 hne
      exact ⟨p, t, by rw [plookup_ne _ _ e]; exact hl, rfl⟩

/-- Discovered vertices are vertices of the graph. -/
theorem TO.sub_keys {g : Graph} {i : Nat} {P : Parents} (h : TO g i P) (hi : i ∈ keys g)
    (hsucc : ∀ p ∈ g, ∀ v ∈ p.2, v ∈ keys g) : ∀ v ∈ pkeys P, v ∈ keys g := by
  induction h with
  | root => intro v hv; simp [pkeys] at hv; exact hv ▸ hi
  | @node v0 p0 P _ _ _ ha ih =>
    intro v hv
    simp only [pkeys, List.map_cons, List.mem_cons] at hv
    rcases hv with e | e
    · obtain ⟨q, hq, _, hvq⟩ := ha
      exact e ▸ hsucc q hq _ hvq
    · exact ih v e

theorem TO.length_le {g : Graph} {i : Nat} {P : Parents} (h : TO g i P) (hi : i ∈ keys g)
    (hsucc : ∀ p ∈ g, ∀ v ∈ p.2, v ∈ keys g) : P.length ≤ g.length := by
  have := h.nodup.length_le_of_subset (l₂ := keys g) (fun v hv => h.sub_keys hi hsucc v hv)
  simpa [pkeys, SR.Toposort.keys] using this

/-! ### Discovery rank -/

/-- Position of `v`'s entry counted from the oldest (1 = root). -/
def rank : Parents → Nat → Nat
  | [], _ => 0
  | (k, _) :: r, v => if v = k then r.length + 1 else rank r v

theorem rank_le (P : Parents) (v : Nat) : rank P v ≤ P.length := by
  induction P with
  | nil => simp [rank]
  | cons a P ih =>
    obtain ⟨k, _⟩ := a
    simp only [rank, List.length_cons]
    split <;> omega

/-- The parent of a non-root vertex was discovered strictly earlier. -/
theorem TO.rank_lt {g : Graph} {i : Nat} {P : Parents} (h : TO g i P) :
    ∀ v p, P.lookup v = some p → v ≠ i → rank P p < rank P v := by
  induction h with
  | root =>
    intro v p hl hvi
    rw [plookup_ne _ _ hvi] at hl; simp at hl
  | @node v0 p0 P hto hv hp _ ih =>
    intro v p hl hvi
    by_cases e : v = v0
    · subst e; rw [plookup_self] at hl; cases hl
      have hne : p0 ≠ v := fun e => hv (e ▸ hp)
      simp only [rank, hne, if_false, if_true]
      have := rank_le P p0
      omega
    · rw [plookup_ne _ _ e] at hl
      have hpP := (hto.lookup v p hl).1
      have hne : p ≠ v0 := fun e => hv (e ▸ hpP)
      simp only [rank, hne, e, if_false]
      exact ih v p hl hvi

/-! ### Graph lookup -/

theorem arc_iff_of_lookup {g : Graph} (hk : (keys g).Nodup) {u : Nat} {ss : List Nat}
    (h : g.lookup u = some ss) (v : Nat) : Arc g u v ↔ v ∈ ss := by
  have hm := mem_of_lookup_graph g u ss h
  constructor
  · rintro ⟨p, hp, rfl, hv⟩
    suffices p = (p.1, ss) by rw [this] at hv; exact hv
    clear h hv
    induction g with
    | nil => simp at hp
    | cons a g ih =>
      simp only [keys, List.map_cons, List.nodup_cons] at hk
      rcases List.mem_cons.1 hp with e | e <;> rcases List.mem_cons.1 hm with e' | e'
      · rw [e, ← e']
      · exact absurd (List.mem_map_of_mem (f := (·.1)) e') (by rw [e] at *; exact hk.1)
      · exact absurd (List.mem_map_of_mem (f := (·.1)) e) (by rw [← e'] at hk; exact hk.1)
      · exact ih hk.2 e e'
  · intro hv
    exact ⟨(u, ss), hm, rfl, hv⟩

/-! ### The loop invariant -/

/-- Between two iterations of the `while` loop (no cycle flagged so far). -/
structure CInv (g : Graph) (i : Nat) (P : Parents) (S : List Nat) : Prop where
  tree : TO g i P
  snd : S.Nodup
  sk : ∀ v ∈ S, v ∈ pkeys P
  par : ∀ v p, P.lookup v = some p → v ≠ i → p ∉ S
  done : ∀ u ∈ pkeys P, u ∉ S → ∀ v, Arc g u v → P.lookup v = some u ∧ v ≠ i

/-- Inside the `for neighbor` loop of `cur`, `todo` being the neighbours
    not yet looked at. -/
structure CInvS (g : Graph) (i : Nat) (P : Parents) (S : List Nat) (cur : Nat) (todo : List Nat) :
    Prop where
  tree : TO g i P
  snd : S.Nodup
  sk : ∀ v ∈ S, v ∈ pkeys P
  curk : cur ∈ pkeys P
  curs : cur ∉ S
  par : ∀ v p, P.lookup v = some p → v ≠ i → p ∉ S
  done : ∀ u ∈ pkeys P, u ∉ S → ∀ v, Arc g u v →
    (u = cur ∧ v ∈ todo) ∨ (P.lookup v = some u ∧ v ≠ i)
  tnd : todo.Nodup
  tarc : ∀ v ∈ todo, Arc g cur v
  tnew : ∀ v ∈ todo, v ≠ i → P.lookup v ≠ some cur

/-- What is known when the loop stops on a flagged vertex `c`: the final
    dict is the tree `P0` plus the overriding entry `(c, cur)`. -/
def Det (g : Graph) (i : Nat) (P' : Parents) (c : Nat) : Prop :=
  ∃ P0 cur, P' = (c, cur) :: P0 ∧ TO g i P0 ∧ c ∈ pkeys P0 ∧ cur ∈ pkeys P0 ∧ Arc g cur c ∧
    ¬ UniqueWalks g i

theorem CInv.pop {g : Graph} {i : Nat} {P : Parents} {cur : Nat} {rest succs : List Nat}
    (h : CInv g i P (cur :: rest)) (hk : (keys g).Nodup) (hs : g.lookup cur = some succs)
    (hnd : succs.Nodup) : CInvS g i P rest cur succs := by
  have hn := List.nodup_cons.1 h.snd
  refine ⟨h.tree, hn.2, fun v hv => h.sk v (by simp [hv]), h.sk cur (by simp), hn.1,
    fun v p hl hvi hp => h.par v p hl hvi (by simp [hp]), ?_, hnd,
    fun v hv => (arc_iff_of_lookup hk hs v).2 hv, ?_⟩
  · intro u hu hur v ha
    by_cases e : u = cur
    · subst e; exact Or.inl ⟨rfl, (arc_iff_of_lookup hk hs v).1 ha⟩
    · exact Or.inr (h.done u hu (by simp [e, hur]) v ha)
  · intro v _ hvi hl
    exact h.par v cur hl hvi (by simp)

/-- The `for neighbor` loop. -/
theorem scan_spec {g : Graph} {i cur : Nat} : ∀ (todo : List Nat) (P : Parents) (S : List Nat),
    CInvS g i P S cur todo →
    ∀ o, scan cur todo P S = o →
      (o.found = none → CInv g i o.parents o.stack ∧
        o.parents.length + S.length = P.length + o.stack.length) ∧
      (∀ c, o.found = some c → Det g i o.parents c) := by
  intro todo
  induction todo with
  | nil =>
    intro P S h o ho
    simp only [scan] at ho
    subst ho
    refine ⟨fun _ => ⟨⟨h.tree, h.snd, h.sk, h.par, ?_⟩, rfl⟩, fun c hc => by simp at hc⟩
    intro u hu hus v ha
    rcases h.done u hu hus v ha with ⟨_, hv⟩ | hv
    · simp at hv
    · exact hv
  | cons v vs ih =>
    intro P S h o ho
    simp only [scan] at ho
    have hcv : Arc g cur v := h.tarc v (by simp)
    by_cases hd : (P.lookup v).isSome
    · -- already discovered: flagged
      rw [if_pos hd] at ho
      subst ho
      refine ⟨fun hn => by simp at hn, ?_⟩
      intro c hc
      simp only [Option.some.injEq] at hc
      subst hc
      have hvk : v ∈ pkeys P := (plookup_isSome P v).1 hd
      refine ⟨P, cur, rfl, h.tree, hvk, h.curk, hcv, ?_⟩
      intro huniq
      obtain ⟨wc, hwc, _, _⟩ := h.tree.walk cur h.curk
      obtain ⟨tc, rfl⟩ := walkTo_head hwc
      obtain ⟨wv, hwv, h1, h2⟩ := h.tree.walk v hvk
      have heq := huniq v _ _ (WalkTo.snoc hwc hcv) hwv
      by_cases hvi : v = i
      · rw [h1 hvi] at heq; simp at heq
      · obtain ⟨p, t, hl, rfl⟩ := h2 hvi
        simp only [List.cons.injEq, true_and] at heq
        rw [← heq.1] at hl
        exact h.tnew v (by simp) hvi hl
    · -- new vertex: recorded and pushed
      rw [if_neg hd] at ho
      have hvk : v ∉ pkeys P := fun hh => hd ((plookup_isSome P v).2 hh)
      have hvi : v ≠ i := fun e => hvk (e ▸ h.tree.root_mem)
      have hcurv : cur ≠ v := fun e => hvk (e ▸ h.curk)
      have htn := List.nodup_cons.1 h.tnd
      have hinv : CInvS g i ((v, cur) :: P) (v :: S) cur vs := by
        refine ⟨.node h.tree hvk h.curk hcv, List.nodup_cons.2 ⟨fun hh => hvk (h.sk v hh), h.snd⟩,
          ?_, by simp [pkeys]; right; simpa [pkeys] using h.curk, by simp [hcurv, h.curs],
          ?_, ?_, htn.2, fun x hx => h.tarc x (by simp [hx]), ?_⟩
        · intro x hx
          rcases List.mem_cons.1 hx with e | e
          · subst e; simp [pkeys]
          · simp only [pkeys, List.map_cons, List.mem_cons]; right; exact h.sk x e
        · intro x p hl hxi
          by_cases e : x = v
          · subst e; rw [plookup_self] at hl; cases hl
            simp [hcurv, h.curs]
          · rw [plookup_ne _ _ e] at hl
            have hp := (h.tree.lookup x p hl).1
            have : p ≠ v := fun e => hvk (e ▸ hp)
            simp [this, h.par x p hl hxi]
        · intro u hu hus x ha
          have huv : u ≠ v := fun e => hus (by simp [e])
          have huP : u ∈ pkeys P := by
            simp only [pkeys, List.map_cons, List.mem_cons] at hu
            rcases hu with e | e
            · exact absurd e huv
            · exact e
          have huS : u ∉ S := fun hh => hus (by simp [hh])
          rcases h.done u huP huS x ha with ⟨e1, e2⟩ | ⟨e1, e2⟩
          · rcases List.mem_cons.1 e2 with e | e
            · subst e; subst e1; exact Or.inr ⟨plookup_self _ _ _, hvi⟩
            · exact Or.inl ⟨e1, e⟩
          · have : x ≠ v := fun e => hvk (e ▸ plookup_mem e1)
            exact Or.inr ⟨by rw [plookup_ne _ _ this]; exact e1, e2⟩
        · intro x hx hxi hl
          have : x ≠ v := fun e => htn.1 (e ▸ hx)
          rw [plookup_ne _ _ this] at hl
          exact h.tnew x (by simp [hx]) hxi hl
      obtain ⟨h1, h2⟩ := ih _ _ hinv o ho
      refine ⟨fun hn => ?_, h2⟩
      obtain ⟨a, b⟩ := h1 hn
      refine ⟨a, ?_⟩
      simp only [List.length_cons] at b
      omega

end SR.Toposort
