/-
  The two facts of C07 that C10 uses (LCA reconciliation optimal, and unique for a
  positive loss cost, when transfers are forbidden), re-derived from the lemmas of
  `Proofs/LcaMapOpt.lean` exactly as in `Properties/C07.lean` (`C07_opt`,
  `C07_unique_plain`).

  Reason for the duplication: `Properties/C07.lean` imports `Proofs/LcaMapNodes.lean`,
  which declares `SR.lcaSol_sp_isNode`, and so does `Proofs/LabelDPOrdRoot.lean` (used by
  C02Dp / C03Dp and hence by the other C10 files); the two cannot be imported together,
  and the check audits all `Properties/C10*.lean` files in one environment.
-/
import SRVerif.Proofs.LcaMapOpt

namespace SR.C10

open Cost

/-- `C07_opt`: with transfers forbidden the LCA reconciliation has minimum cost among
    all valid reconciliations. -/
theorem lcaSol_opt_inf (c : Costs) (hh : c.hgt = .inf) (hc : c.spe ≤ c.dup + 2 * c.floss)
    (o : OTree) (sol : Sol) (hv : Spec.validRec o sol = true) :
    Cost.le (recCost c o (lcaSol o)) (recCost c o sol) = true := by
  cases ht : sol.transferFree
  · rw [recCost_of_transfer c hh o sol hv ht]; exact Cost.le_inf _
  · obtain ⟨ha, hle⟩ := dl_lower c hc o sol hv ht
    rw [recCost_of_transferFree c o _ (lcaSol_validRec o) (lcaSol_transferFree o),
      recCost_of_transferFree c o sol hv ht]
    have := Nat.mul_le_mul_left c.floss (Path.length_le_of_isAnc ha)
    simp only [Cost.le, Cost.lt, Bool.not_eq_true', decide_eq_false_iff_not]
    omega

/-- `C07_unique_plain`: with transfers forbidden and a positive loss cost, a valid
    reconciliation with the plain annotations and the LCA cost is the LCA reconciliation. -/
theorem lcaSol_unique_inf (c : Costs) (hh : c.hgt = .inf) (hc : c.spe ≤ c.dup + 2 * c.floss)
    (hf : 0 < c.floss) (o : OTree) (sol : Sol) (hv : Spec.validRec o sol = true)
    (hm : famsMatch o sol = true) (heq : recCost c o sol = recCost c o (lcaSol o)) :
    sol = lcaSol o := by
  refine eq_of_eraseFam_eq o sol (lcaSol o) hm (lcaSol_famsMatch o) ?_
  have hl := recCost_of_transferFree c o _ (lcaSol_validRec o) (lcaSol_transferFree o)
  cases ht : sol.transferFree
  · rw [recCost_of_transfer c hh o sol hv ht, hl] at heq
    cases heq
  · rw [recCost_of_transferFree c o sol hv ht, hl] at heq
    have heq' : dlCost c sol = dlCost c (lcaSol o) := by injection heq
    obtain ⟨ha, -⟩ := dl_lower c hc o sol hv ht
    have := Nat.mul_le_mul_left c.floss (Path.length_le_of_isAnc ha)
    exact dl_unique c hc hf o sol hv ht (by omega)

end SR.C10
