/-
  Unordered super-reconciliation: what `_decode_uspfs_table` (`unSol`) materialises.

  * `unContent`        the content given to a node of kind LCA / INHERIT;
  * `validUn_unSol`    every admissible kind labelling decodes to a labelling that
                       satisfies `Spec.validUnLabels` (C04, unordered clause), given
                       the invariants `anc ⊆ allowed p` and
                       `required p ⊆ anc ∪ gains p` on the inherited content;
  * `un_edge`          for a decoded labelling the DP's per-kind edge charges are the
                       evaluator's subset tests on the materialised contents
                       (an INHERIT node carries a family that no leaf below it
                       carries — `un_witness_child` propagates that witness);
  * `faithful_unSol`   hence the generic cost `labCost (unAlg c)` of an admissible
                       labelling of finite cost equals the evaluated cost of the
                       decoded solution (C03, kinds faithful).
-/
import SRVerif.Proofs.UnContent
import SRVerif.Proofs.LabelDPOrd

namespace SR

open Path Cost

/-! ### Materialised contents -/

/-- The family set `_decode_uspfs_table` gives to a node with annotation `a` whose
    parent holds `anc`. -/
def unContent (a : UnAnn) (anc : List Nat) : Kind → List Nat
  | .lca => a.lcaSet
  | .inh => sortNat (dedup (anc ++ a.gain))

theorem mem_unContent_inh {a : UnAnn} {anc : List Nat} {x : Nat} :
    x ∈ unContent a anc .inh ↔ x ∈ anc ∨ x ∈ a.gain := by
  simp [unContent, mem_sortNat, mem_dedup]

theorem unSol_node (a : UnAnn) (tl tr : ATree UnAnn) (anc : List Nat) (s : Path) (k : Kind)
    (l r : LSol Kind) :
    unSol (.node a tl tr) anc (.node s k l r) =
      .node s (unContent a anc k) (unSol tl (unContent a anc k) l) (unSol tr (unContent a anc k) r) := by
  cases k <;> rfl

theorem unSol_fam (c : Costs) (t : ATree UnAnn) (anc : List Nat) (ls : LSol Kind)
    (h : Adm (unAlg c) t ls) : (unSol t anc ls).fam = unContent t.data anc ls.lab := by
  cases t with
  | leaf a sp =>
    cases ls with
    | leaf s k => cases k <;> rfl
    | node => simp [Adm] at h
  | node a tl tr =>
    cases ls with
    | leaf => simp [Adm] at h
    | node s k l r => rw [unSol_node]; rfl

theorem annUn_node (S : RTree) (base : Bool) (whole : OTree) (p : Path) (l r : OTree) :
    annUn S base whole p (.node l r) =
      .node (annUn S base whole p (.node l r)).data (annUn S base whole (p ++ [0]) l)
        (annUn S base whole (p ++ [1]) r) := rfl

theorem subsetB_iff {a b : List Nat} : subsetB a b = true ↔ ∀ x ∈ a, x ∈ b := by
  simp [subsetB]

theorem subsetB_false_iff {a b : List Nat} : subsetB a b = false ↔ ∃ x ∈ a, x ∉ b := by
  rw [← Bool.not_eq_true, subsetB_iff]
  simp

/-! ### Validity of the decoded labelling (C04) -/

/-- What `annUn` attaches at path `p`, as far as the proofs need it. -/
structure AnnAt (whole : OTree) (p : Path) (a : UnAnn) : Prop where
  lca : ∀ x, x ∈ a.lcaSet ↔ x ∈ Spec.requiredContent whole p
  gain : a.gain = gainsAt whole p

theorem annAt_annUn (S : RTree) (base : Bool) (whole : OTree) (sub : OTree) (p : Path)
    (h : IsSub whole p sub) : AnnAt whole p (annUn S base whole p sub).data :=
  ⟨mem_lcaSet S base whole sub p h, annUn_gain S base whole p sub⟩

theorem content_allowed {whole : OTree} {p : Path} {a : UnAnn} (ha : AnnAt whole p a)
    {anc : List Nat} (hanc : ∀ x ∈ anc, x ∈ Spec.allowedContent whole p) (k : Kind) :
    ∀ x ∈ unContent a anc k, x ∈ Spec.allowedContent whole p := by
  intro x hx
  cases k with
  | lca => exact required_sub_allowed ((ha.lca x).mp hx)
  | inh =>
    rcases mem_unContent_inh.mp hx with h | h
    · exact hanc x h
    · rw [ha.gain] at h; exact gains_sub_allowed h

theorem content_required {whole : OTree} {p : Path} {a : UnAnn} (ha : AnnAt whole p a)
    {anc : List Nat} (hreq : ∀ x ∈ Spec.requiredContent whole p, x ∈ anc ∨ x ∈ gainsAt whole p)
    (k : Kind) : ∀ x ∈ Spec.requiredContent whole p, x ∈ unContent a anc k := by
  intro x hx
  cases k with
  | lca => exact (ha.lca x).mpr hx
  | inh =>
    rw [mem_unContent_inh, ha.gain]
    exact hreq x hx

/-- The invariant handed to a child: its required content lies in the parent's content
    or in its own gains. -/
theorem child_required {whole : OTree} {p : Path} {i : Nat} {f : List Nat}
    (hf : ∀ x ∈ Spec.requiredContent whole p, x ∈ f) :
    ∀ x ∈ Spec.requiredContent whole (p ++ [i]), x ∈ f ∨ x ∈ gainsAt whole (p ++ [i]) := by
  intro x hx
  rcases required_child hx with h | h
  · exact Or.inl (hf x h)
  · exact Or.inr h

theorem edgeOk_content {whole : OTree} {p : Path} {i : Nat} {ca : UnAnn}
    (hca : AnnAt whole (p ++ [i]) ca) {f : List Nat}
    (hf : ∀ x ∈ Spec.requiredContent whole p, x ∈ f) (kc : Kind) :
    Spec.edgeOk .unordered whole (p ++ [i]) f (unContent ca f kc) = true := by
  simp only [Spec.edgeOk, List.all_eq_true, Bool.or_eq_true, List.contains_iff_mem]
  intro x hx
  cases kc with
  | lca => exact child_required hf x ((hca.lca x).mp hx)
  | inh =>
    rw [mem_unContent_inh, hca.gain] at hx
    exact hx

theorem validUn_unSol (c : Costs) (S : RTree) (base : Bool) (whole : OTree) :
    ∀ (sub : OTree) (p : Path) (anc : List Nat) (ls : LSol Kind),
      IsSub whole p sub → Adm (unAlg c) (annUn S base whole p sub) ls →
      (∀ x ∈ anc, x ∈ Spec.allowedContent whole p) →
      (∀ x ∈ Spec.requiredContent whole p, x ∈ anc ∨ x ∈ gainsAt whole p) →
      Spec.validUnLabels whole p sub (unSol (annUn S base whole p sub) anc ls) = true := by
  intro sub
  induction sub with
  | leaf sp f0 =>
    intro p anc ls _ hadm _ _
    cases ls with
    | node => simp [annUn, Adm] at hadm
    | leaf s k =>
      simp only [annUn, Adm, unAlg] at hadm
      obtain ⟨_, rfl⟩ := hadm
      simp [annUn, unSol, Spec.validUnLabels]
  | node l r ihl ihr =>
    intro p anc ls hsub hadm hanc hreq
    obtain ⟨hl, hr⟩ := isSub_child hsub
    have ha := annAt_annUn S base whole _ p hsub
    have hla := annAt_annUn S base whole _ _ hl
    have hra := annAt_annUn S base whole _ _ hr
    rw [annUn_node] at hadm ⊢
    cases ls with
    | leaf => simp [Adm] at hadm
    | node s k x y =>
      simp only [Adm] at hadm
      obtain ⟨_, _, ax, ay⟩ := hadm
      rw [unSol_node]
      have hfa := content_allowed ha hanc k
      have hfr := content_required ha hreq k
      simp only [Spec.validUnLabels, Bool.and_eq_true, List.all_eq_true, List.contains_iff_mem]
      rw [unSol_fam c _ _ _ ax, unSol_fam c _ _ _ ay]
      refine ⟨⟨⟨⟨hfa, edgeOk_content hla hfr _⟩, edgeOk_content hra hfr _⟩, ?_⟩, ?_⟩
      · exact ihl _ _ x hl ax (fun z hz => allowed_mono 0 (hfa z hz)) (child_required hfr)
      · exact ihr _ _ y hr ay (fun z hz => allowed_mono 1 (hfa z hz)) (child_required hfr)

/-! ### The DP's edge charges are the evaluator's subset tests (C03) -/

/-- Witness carried by an INHERIT node: a family of its content that no leaf below it
    carries. -/
def InhWitness (whole : OTree) (p : Path) (content : List Nat) : Prop :=
  ∃ w ∈ content, ∀ q f, (q, f) ∈ leafPaths whole → isAnc p q = true → w ∉ f

theorem un_edge (c : Costs) {whole : OTree} {p : Path} {i : Nat} {a ca : UnAnn}
    (_ha : AnnAt whole p a) (hca : AnnAt whole (p ++ [i]) ca) (anc : List Nat) (k kc : Kind)
    (hw : k = .inh → InhWitness whole p (unContent a anc .inh)) :
    ((unAlg c).conserv a k ca kc = .inf ∧ (unAlg c).segment a k ca kc = .inf) ∨
    ((unAlg c).conserv a k ca kc =
        .fin ((if subsetB (unContent a anc k) (unContent ca (unContent a anc k) kc) then 0 else 1)
          * c.sloss) ∧
      (unAlg c).segment a k ca kc = .fin 0) := by
  cases k with
  | inh =>
    cases kc with
    | inh =>
      right
      have : subsetB (unContent a anc .inh) (unContent ca (unContent a anc .inh) .inh) = true := by
        rw [subsetB_iff]; intro x hx; exact mem_unContent_inh.mpr (Or.inl hx)
      simp [unAlg, this]
    | lca =>
      right
      obtain ⟨w, hwf, hwl⟩ := hw rfl
      have : subsetB (unContent a anc .inh) (unContent ca (unContent a anc .inh) .lca) = false := by
        rw [subsetB_false_iff]
        refine ⟨w, hwf, ?_⟩
        intro hmem
        have := (hca.lca w).mp hmem
        exact not_required_of_no_leaf (fun q f hm hq => hwl q f hm (isAnc_snoc_of hq)) this
      simp [unAlg, this]
  | lca =>
    cases kc with
    | lca =>
      right
      simp only [unAlg, unContent]
      split <;> simp [*]
    | inh =>
      cases hs : subsetB a.lcaSet ca.lcaSet with
      | true => left; simp [unAlg, hs]
      | false =>
        right
        have : subsetB (unContent a anc .lca) (unContent ca (unContent a anc .lca) .inh) = true := by
          rw [subsetB_iff]; intro x hx; exact mem_unContent_inh.mpr (Or.inl hx)
        simp [unAlg, hs, this]

/-- A finite edge to an INHERIT child hands it a witness. -/
theorem un_witness_child (c : Costs) {whole : OTree} {p : Path} {i : Nat} {a ca : UnAnn}
    (ha : AnnAt whole p a) (hca : AnnAt whole (p ++ [i]) ca) (anc : List Nat) (k : Kind)
    (hw : k = .inh → InhWitness whole p (unContent a anc .inh))
    (hfin : (unAlg c).conserv a k ca .inh ≠ .inf) :
    InhWitness whole (p ++ [i]) (unContent ca (unContent a anc k) .inh) := by
  cases k with
  | inh =>
    obtain ⟨w, hwf, hwl⟩ := hw rfl
    exact ⟨w, mem_unContent_inh.mpr (Or.inl hwf), fun q f hm hq => hwl q f hm (isAnc_snoc_of hq)⟩
  | lca =>
    cases hs : subsetB a.lcaSet ca.lcaSet with
    | true => simp [unAlg, hs] at hfin
    | false =>
      obtain ⟨w, hwa, hwc⟩ := subsetB_false_iff.mp hs
      refine ⟨w, mem_unContent_inh.mpr (Or.inl hwa), ?_⟩
      exact no_leaf_of_not_required ((ha.lca w).mp hwa) (fun h => hwc ((hca.lca w).mpr h))

/-- The evaluator's loss count at one node, as a function of the two subset tests. -/
def unLoss (ev : Event) (keepLeft : Bool) (lc rc : Nat) : Option Nat :=
  match ev with
  | .spec => some (lc + rc)
  | .dup => some (Nat.min lc rc)
  | .hgt => some (if keepLeft then lc else rc)
  | _ => none

theorem localUnordLosses_eq (ev : Event) (keepLeft : Bool) (f fl fr : List Nat) :
    localUnordLosses ev keepLeft f fl fr =
      unLoss ev keepLeft (if subsetB f fl then 0 else 1) (if subsetB f fr then 0 else 1) := by
  cases ev <;> rfl

theorem un_min_mul (x y s : Nat) : Nat.min (x * s) (y * s) = Nat.min x y * s := by
  simp only [Nat.min_def]
  by_cases h : x ≤ y
  · have := Nat.mul_le_mul_right s h
    simp [h, this]
  · have h' : y ≤ x := by omega
    have := Nat.mul_le_mul_right s h'
    simp only [h, if_false]
    split
    · have : x * s = y * s := by omega
      exact this
    · rfl

/-- **The unordered local lemma**: with edge costs that are either infinite or
    `(sloss · subset test, 0)`, a finite generic local cost is the evaluator's. -/
theorem gl_unord (c : Costs) (s x y : Path) (lc rc : Nat) (cvx svx cvy svy : Cost)
    (hx : (cvx = .inf ∧ svx = .inf) ∨ (cvx = .fin (lc * c.sloss) ∧ svx = .fin 0))
    (hy : (cvy = .inf ∧ svy = .inf) ∨ (cvy = .fin (rc * c.sloss) ∧ svy = .fin 0))
    (hfin : gl c s x cvx svx y cvy svy ≠ .inf) :
    cvx ≠ .inf ∧ cvy ≠ .inf ∧
    ∃ k0, unLoss (internalEvent s x y) (comparable s x) lc rc = some k0 ∧
      gl c s x cvx svx y cvy svy = localRecCost c s x y + .fin (k0 * c.sloss) := by
  rcases hx with ⟨rfl, rfl⟩ | ⟨rfl, rfl⟩
  · exact absurd (gl_inf_left c s x y cvy svy) hfin
  rcases hy with ⟨rfl, rfl⟩ | ⟨rfl, rfl⟩
  · exact absurd (gl_inf_right c s x y _ _) hfin
  refine ⟨by simp, by simp, ?_⟩
  rw [gl_shift] at hfin ⊢
  cases hev : internalEvent s x y with
  | leaf => simp [hev] at hfin
  | invalid => simp [hev] at hfin
  | spec => exact ⟨lc + rc, rfl, by simp only [Nat.add_mul]⟩
  | dup =>
    refine ⟨Nat.min lc rc, rfl, ?_⟩
    simp only [Nat.add_zero, Nat.zero_add, un_min_mul]
  | hgt =>
    refine ⟨if comparable s x then lc else rc, rfl, ?_⟩
    rw [comparable_eq_isAnc_of_hgt hev]
    cases isAnc s x <;> simp

/-- **Kinds faithful.**  For an admissible kind labelling of finite generic cost whose
    INHERIT root (if any) carries a witness, the decoded solution's evaluated cost
    (`recCost + sloss · unordLosses`) is the generic cost. -/
theorem faithful_unSol (c : Costs) (S : RTree) (base : Bool) (whole : OTree) :
    ∀ (sub : OTree) (p : Path) (anc : List Nat) (ls : LSol Kind),
      IsSub whole p sub → Adm (unAlg c) (annUn S base whole p sub) ls →
      labCost (unAlg c) c (annUn S base whole p sub) ls ≠ .inf →
      (ls.lab = .inh →
        InhWitness whole p (unContent (annUn S base whole p sub).data anc .inh)) →
      ∃ k, unordLosses (unSol (annUn S base whole p sub) anc ls) = some k ∧
        recCost c sub (unSol (annUn S base whole p sub) anc ls) + .fin (k * c.sloss) =
          labCost (unAlg c) c (annUn S base whole p sub) ls := by
  intro sub
  induction sub with
  | leaf sp f0 =>
    intro p anc ls _ hadm _ _
    cases ls with
    | node => simp [annUn, Adm] at hadm
    | leaf s k =>
      simp only [annUn, Adm] at hadm
      obtain ⟨rfl, _⟩ := hadm
      exact ⟨0, by simp [annUn, unSol, unordLosses], by simp [annUn, unSol, recCost, labCost]⟩
  | node l r ihl ihr =>
    intro p anc ls hsub hadm hfin hw
    obtain ⟨hl, hr⟩ := isSub_child hsub
    have ha := annAt_annUn S base whole _ p hsub
    have hla := annAt_annUn S base whole _ _ hl
    have hra := annAt_annUn S base whole _ _ hr
    rw [annUn_node] at hadm hfin ⊢
    cases ls with
    | leaf => simp [Adm] at hadm
    | node s k x y =>
      simp only [Adm] at hadm
      obtain ⟨_, _, ax, ay⟩ := hadm
      generalize hA : (annUn S base whole p (.node l r)).data = a at *
      simp only [labCost] at hfin ⊢
      obtain ⟨hg, hch⟩ := add_ne_inf hfin
      obtain ⟨hcl, hcr⟩ := add_ne_inf hch
      have ex := un_edge c ha hla anc k x.lab hw
      have ey := un_edge c ha hra anc k y.lab hw
      unfold genLocal at hg ⊢
      obtain ⟨fx, fy, k0, hk0, hgl⟩ := gl_unord c s x.sp y.sp _ _ _ _ _ _ ex ey hg
      have wx : x.lab = .inh → InhWitness whole (p ++ [0])
          (unContent (annUn S base whole (p ++ [0]) l).data (unContent a anc k) .inh) := by
        intro e; rw [e] at fx
        exact un_witness_child c ha hla anc k hw fx
      have wy : y.lab = .inh → InhWitness whole (p ++ [1])
          (unContent (annUn S base whole (p ++ [1]) r).data (unContent a anc k) .inh) := by
        intro e; rw [e] at fy
        exact un_witness_child c ha hra anc k hw fy
      obtain ⟨kl, hkl, hcostl⟩ := ihl _ (unContent a anc k) x hl ax hcl wx
      obtain ⟨kr, hkr, hcostr⟩ := ihr _ (unContent a anc k) y hr ay hcr wy
      rw [unSol_node]
      refine ⟨k0 + kl + kr, ?_, ?_⟩
      · simp only [unordLosses, unSol_sp, hkl, hkr, localUnordLosses_eq]
        rw [unSol_fam c _ _ _ ax, unSol_fam c _ _ _ ay, hk0]
      · rw [recCost_node, unSol_sp, unSol_sp, hgl, ← hcostl, ← hcostr]
        simp only [Nat.add_mul, ← fin_add_fin_eq]
        ac_rfl

end SR
