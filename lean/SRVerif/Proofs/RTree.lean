/-
  Basic lemmas on rooted trees (`RTree`) seen through paths:
  `preorder` lists exactly the node paths, each once; the node paths are
  closed under taking prefixes (ancestors).
-/
import SRVerif.Model.Paths
import SRVerif.Proofs.Paths

namespace SR.RTree

open SR

theorem isNode_nil (t : RTree) : t.isNode [] = true := by
  simp [isNode, sub]

theorem isNode_cons (cs : List RTree) (k : Nat) (q : Path) :
    (RTree.node cs).isNode (k :: q) = true ↔ ∃ c, cs[k]? = some c ∧ c.isNode q = true := by
  simp only [isNode, sub]
  cases h : cs[k]? with
  | none => simp
  | some c => simp

/-- Node paths are closed under prefixes: every ancestor of a node is a node. -/
theorem isNode_of_prefix : ∀ (r p : Path) (t : RTree), r <+: p → t.isNode p = true →
    t.isNode r = true := by
  intro r
  induction r with
  | nil => intro p t _ _; exact isNode_nil t
  | cons a r ih =>
    intro p t hpre hp
    cases p with
    | nil => simp at hpre
    | cons b p =>
      obtain ⟨rfl, hpre'⟩ := List.cons_prefix_cons.mp hpre
      cases t with
      | node cs =>
        rw [isNode_cons] at hp ⊢
        obtain ⟨c, hc, hq⟩ := hp
        exact ⟨c, hc, ih p c hpre' hq⟩

theorem isNode_of_isAnc {t : RTree} {r p : Path} (h : Path.isAnc r p = true)
    (hp : t.isNode p = true) : t.isNode r = true :=
  isNode_of_prefix r p t ((Path.isAnc_iff_prefix r p).mp h) hp

theorem mem_preorderList (cs : List RTree) (i : Nat) (p : Path) :
    p ∈ preorderList cs i ↔ ∃ j c q, cs[j]? = some c ∧ q ∈ preorder c ∧ p = (i + j) :: q := by
  induction cs generalizing i with
  | nil => simp [preorderList]
  | cons c cs ih =>
    simp only [preorderList, List.mem_append, List.mem_map, ih]
    constructor
    · rintro (⟨q, hq, rfl⟩ | ⟨j, c', q, hj, hq, rfl⟩)
      · exact ⟨0, c, q, by simp, hq, by simp⟩
      · exact ⟨j + 1, c', q, by simpa using hj, hq, by simp; omega⟩
    · rintro ⟨j, c', q, hj, hq, rfl⟩
      cases j with
      | zero =>
        simp only [List.getElem?_cons_zero, Option.some.injEq] at hj
        subst hj
        exact Or.inl ⟨q, hq, by simp⟩
      | succ j =>
        simp only [List.getElem?_cons_succ] at hj
        exact Or.inr ⟨j, c', q, hj, hq, by simp; omega⟩

/-- `preorder` (hence `allSpecies`) lists exactly the node paths. -/
theorem mem_preorder_iff : ∀ (p : Path) (t : RTree), p ∈ t.preorder ↔ t.isNode p = true := by
  intro p
  induction p with
  | nil =>
    intro t
    cases t with
    | node cs => simp [preorder, isNode_nil]
  | cons k q ih =>
    intro t
    cases t with
    | node cs =>
      rw [isNode_cons]
      simp only [preorder, List.mem_cons, reduceCtorEq, false_or, mem_preorderList, Nat.zero_add,
        List.cons.injEq]
      constructor
      · rintro ⟨j, c, q', hj, hq, rfl, rfl⟩
        exact ⟨c, hj, (ih c).mp hq⟩
      · rintro ⟨c, hc, hq⟩
        exact ⟨k, c, q, hc, (ih c).mpr hq, rfl, rfl⟩

mutual
  /-- `preorder` lists every node once. -/
  theorem nodup_preorder : ∀ t : RTree, t.preorder.Nodup
    | .node cs => by
      simp only [preorder]
      rw [List.nodup_cons]
      refine ⟨?_, nodup_preorderList cs 0⟩
      intro h
      obtain ⟨j, c, q, _, _, heq⟩ := (mem_preorderList _ _ _).mp h
      cases heq
  theorem nodup_preorderList : ∀ (cs : List RTree) (i : Nat), (preorderList cs i).Nodup
    | [], _ => by simp [preorderList]
    | c :: cs, i => by
      simp only [preorderList]
      rw [List.nodup_append]
      refine ⟨?_, nodup_preorderList cs (i + 1), ?_⟩
      · have := nodup_preorder c
        rw [List.Nodup, List.pairwise_map]
        exact this.imp (fun hne heq => hne (List.cons.inj heq).2)
      · intro a ha b hb hab
        subst hab
        obtain ⟨q, _, rfl⟩ := List.mem_map.mp ha
        obtain ⟨j, c', q', _, _, heq⟩ := (mem_preorderList cs (i + 1) _).mp hb
        have := (List.cons.inj heq).1
        omega
end

end SR.RTree
