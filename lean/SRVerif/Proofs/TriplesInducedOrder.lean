/-
  BreakUp for an ARBITRARY order of contraction.

  `tree_to_triples` pops the minimal internal nodes (cherries) from a Python
  `set`, i.e. in an address-dependent order, and the set of emitted triples
  depends on that order.  `Model/Triples.lean` fixes one admissible order.
  Here the loop is modelled as a nondeterministic rewriting system (`Step`:
  contract ANY non-root cherry; `Run`; `BreakUp`: run until the root is the
  only internal node) and it is shown that

  * the order fixed by the model is one of the runs (`treeToTriples_breakUp`);
  * for EVERY run the emitted triples generate all induced triples: any tree
    with distinct leaf names that contains the leaves of `t` and displays the
    emitted triples displays every rooted triple displayed by `t`
    (`breakUp_induced`).

  The link is a static certificate (`Covers`): for every non-root internal
  node `v = (v1, v2)` of `t` some emitted triple `r1 r2 | s` has `r1` below
  `v1`, `r2` below `v2` and `s` below the sister of `v`.
-/
import SRVerif.Proofs.TriplesInduced

namespace SR.Tri

open SR SR.DS LTree Spec

/-! ### The certificate -/

/-- Every internal node of `T` (including its root, whose sister has leaf set
    `sis`) has a witness triple in `R`. -/
def Cover (R : List Triple) : LTree → List Nat → Prop
  | .node [u1, u2], sis =>
    (∃ r1 r2 s, r1 ∈ u1.leaves ∧ r2 ∈ u2.leaves ∧ s ∈ sis ∧ ((r1, r2, s) ∈ R ∨ (r2, r1, s) ∈ R)) ∧
    Cover R u1 u2.leaves ∧ Cover R u2 u1.leaves
  | _, _ => True

/-- Every non-root internal node of `t` has a witness triple in `R`. -/
def Covers (R : List Triple) : LTree → Prop
  | .node [t1, t2] => Cover R t1 t2.leaves ∧ Cover R t2 t1.leaves
  | _ => True

theorem cover_node (R : List Triple) (u1 u2 : LTree) (sis : List Nat) :
    Cover R (.node [u1, u2]) sis ↔
      (∃ r1 r2 s, r1 ∈ u1.leaves ∧ r2 ∈ u2.leaves ∧ s ∈ sis ∧ ((r1, r2, s) ∈ R ∨ (r2, r1, s) ∈ R)) ∧
      Cover R u1 u2.leaves ∧ Cover R u2 u1.leaves := by
  simp only [Cover]

theorem cover_leaf (R : List Triple) (a : Nat) (sis : List Nat) : Cover R (.leaf a) sis := by
  simp only [Cover]

theorem covers_node (R : List Triple) (t1 t2 : LTree) :
    Covers R (.node [t1, t2]) ↔ Cover R t1 t2.leaves ∧ Cover R t2 t1.leaves := by
  simp only [Covers]

theorem cover_mono {R R' : List Triple} (hR : ∀ tr, tr ∈ R → tr ∈ R') : ∀ (T : LTree), T.isBinary = true →
    ∀ (sis sis' : List Nat), (∀ x, x ∈ sis → x ∈ sis') → Cover R T sis → Cover R' T sis'
  | .leaf a, _, _, _, _, _ => cover_leaf _ _ _
  | .node [u1, u2], hb, sis, sis', hs, h => by
    simp only [isBinary, Bool.and_eq_true] at hb
    rw [cover_node] at h ⊢
    obtain ⟨⟨r1, r2, s, h1, h2, h3, h4⟩, c1, c2⟩ := h
    refine ⟨⟨r1, r2, s, h1, h2, hs s h3, ?_⟩, cover_mono hR u1 hb.1 _ _ (fun _ h => h) c1,
      cover_mono hR u2 hb.2 _ _ (fun _ h => h) c2⟩
    rcases h4 with h4 | h4
    · exact Or.inl (hR _ h4)
    · exact Or.inr (hR _ h4)
  | .node [], h, _, _, _, _ => by simp [isBinary] at h
  | .node [_], h, _, _, _, _ => by simp [isBinary] at h
  | .node (_ :: _ :: _ :: _), h, _, _, _, _ => by simp [isBinary] at h

theorem covers_of_cover {R : List Triple} : ∀ (T : LTree) (sis : List Nat), Cover R T sis → Covers R T
  | .leaf _, _, _ => by simp only [Covers]
  | .node [u1, u2], _, h => by
    rw [cover_node] at h
    exact (covers_node R u1 u2).mpr h.2
  | .node [], _, _ => by simp only [Covers]
  | .node [_], _, _ => by simp only [Covers]
  | .node (_ :: _ :: _ :: _), _, _ => by simp only [Covers]

/-! ### A certified triple set generates all induced triples -/

section
variable {S : LTree} {R : List Triple}

/-- A covered subtree whose sister has leaves `sis` lies in a clade of `S`
    that misses some leaf of `sis`; the children of a covered node lie in
    disjoint clades. -/
theorem cover_clade (hS : S.leaves.Nodup) (hR : ∀ tr, tr ∈ R → displays S tr = true) :
    ∀ (T : LTree), T.isBinary = true → T.leaves.Nodup → (∀ x, x ∈ T.leaves → x ∈ S.leaves) →
    (∀ sis, sis ≠ [] → (∀ x, x ∈ sis → x ∉ T.leaves) → Cover R T sis →
      ∃ C s, C ∈ clades S ∧ (∀ x, x ∈ T.leaves → x ∈ C) ∧ s ∈ sis ∧ s ∉ C) ∧
    (∀ t1 t2, T = .node [t1, t2] → Covers R T →
      ∃ C1 C2, C1 ∈ clades S ∧ C2 ∈ clades S ∧ (∀ x, x ∈ t1.leaves → x ∈ C1) ∧
        (∀ x, x ∈ t2.leaves → x ∈ C2) ∧ ∀ x, x ∈ C1 → x ∉ C2)
  | .leaf a, _, _, hsub => by
    refine ⟨?_, fun t1 t2 h => by cases h⟩
    intro sis hne hdis _
    obtain ⟨s, hs⟩ := List.exists_mem_of_ne_nil _ hne
    have ha : a ∈ S.leaves := hsub a (by simp [leaves])
    refine ⟨[a], s, singleton_clade S a ha, fun x hx => by simpa [leaves] using hx, hs, ?_⟩
    intro h
    apply hdis s hs
    simp only [List.mem_singleton] at h
    simp [leaves, h]
  | .node [t1, t2], hb, hn, hsub => by
    simp only [isBinary, Bool.and_eq_true] at hb
    have hTl : (LTree.node [t1, t2]).leaves = t1.leaves ++ t2.leaves := by simp [leaves, leavesL]
    have hn' := hn
    rw [hTl] at hn'
    obtain ⟨hn1, hn2, hd⟩ := List.nodup_append.mp hn'
    have hdis : ∀ x, x ∈ t1.leaves → x ∉ t2.leaves := fun x h1 h2 => hd x h1 x h2 rfl
    have hsub1 : ∀ x, x ∈ t1.leaves → x ∈ S.leaves := fun x hx =>
      hsub x ((leaves_node2 t1 t2 x).mpr (Or.inl hx))
    have hsub2 : ∀ x, x ∈ t2.leaves → x ∈ S.leaves := fun x hx =>
      hsub x ((leaves_node2 t1 t2 x).mpr (Or.inr hx))
    have hpair : Cover R t1 t2.leaves → Cover R t2 t1.leaves →
        ∃ C1 C2, C1 ∈ clades S ∧ C2 ∈ clades S ∧ (∀ x, x ∈ t1.leaves → x ∈ C1) ∧
          (∀ x, x ∈ t2.leaves → x ∈ C2) ∧ ∀ x, x ∈ C1 → x ∉ C2 := by
      intro c1 c2
      obtain ⟨C1, s1, hC1, h1in, hs1, h1out⟩ := (cover_clade hS hR t1 hb.1 hn1 hsub1).1 _
        (binary_leaves_ne t2 hb.2) (fun x h2 h1 => hdis x h1 h2) c1
      obtain ⟨C2, s2, hC2, h2in, hs2, h2out⟩ := (cover_clade hS hR t2 hb.2 hn2 hsub2).1 _
        (binary_leaves_ne t1 hb.1) (fun x h1 h2 => hdis x h1 h2) c2
      refine ⟨C1, C2, hC1, hC2, h1in, h2in, ?_⟩
      rcases clades_laminar S hS C1 C2 hC1 hC2 with h | h | h
      · exact absurd (h _ (h1in _ hs2)) h2out
      · exact absurd (h _ (h2in _ hs1)) h1out
      · exact h
    refine ⟨?_, ?_⟩
    · intro sis _ _ hc
      rw [cover_node] at hc
      obtain ⟨⟨r1, r2, s, hr1, hr2, hs, hmem⟩, c1, c2⟩ := hc
      obtain ⟨C1, C2, hC1, hC2, h1in, h2in, h12⟩ := hpair c1 c2
      have h3 : ∃ C3, C3 ∈ clades S ∧ r1 ∈ C3 ∧ r2 ∈ C3 ∧ s ∉ C3 := by
        rcases hmem with hm | hm
        · obtain ⟨C3, hC3, ha, hb3, hc⟩ := displays_clade (hR _ hm)
          exact ⟨C3, hC3, ha, hb3, hc⟩
        · obtain ⟨C3, hC3, ha, hb3, hc⟩ := displays_clade (hR _ hm)
          exact ⟨C3, hC3, hb3, ha, hc⟩
      obtain ⟨C3, hC3, h31, h32, h3s⟩ := h3
      have r1C1 := h1in _ hr1
      have r2C2 := h2in _ hr2
      have hsub13 : ∀ x, x ∈ C1 → x ∈ C3 := by
        rcases clades_laminar S hS C1 C3 hC1 hC3 with h | h | h
        · exact h
        · exact absurd r2C2 (h12 _ (h _ h32))
        · exact absurd h31 (h _ r1C1)
      have hsub23 : ∀ x, x ∈ C2 → x ∈ C3 := by
        rcases clades_laminar S hS C2 C3 hC2 hC3 with h | h | h
        · exact h
        · exact absurd (h _ h31) (h12 _ r1C1)
        · exact absurd h32 (h _ r2C2)
      refine ⟨C3, s, hC3, ?_, hs, h3s⟩
      intro x hx
      rcases (leaves_node2 t1 t2 x).mp hx with hx | hx
      · exact hsub13 _ (h1in _ hx)
      · exact hsub23 _ (h2in _ hx)
    · intro u1 u2 he hc
      simp only [LTree.node.injEq, List.cons.injEq, and_true] at he
      obtain ⟨rfl, rfl⟩ := he
      rw [covers_node] at hc
      exact hpair hc.1 hc.2
  | .node [], h, _, _ => by simp [isBinary] at h
  | .node [_], h, _, _ => by simp [isBinary] at h
  | .node (_ :: _ :: _ :: _), h, _, _ => by simp [isBinary] at h

/-- If `S` displays a certified triple set of the binary tree `T`, it displays
    every proper triple displayed by `T`. -/
theorem covers_induced (hS : S.leaves.Nodup) (hR : ∀ tr, tr ∈ R → displays S tr = true) :
    ∀ (T : LTree), T.isBinary = true → T.leaves.Nodup →
    (∀ x, x ∈ T.leaves → x ∈ S.leaves) → Covers R T →
    ∀ tr, proper tr = true → displays T tr = true → displays S tr = true
  | .leaf a, _, _, _, _, tr, hp, hd => by
    exfalso
    obtain ⟨h1, h2, _⟩ := (displays_iff _ tr).mp hd
    simp only [leaves, List.mem_singleton] at h1 h2
    exact ((proper_iff tr).mp hp).1 (h1.trans h2.symm)
  | .node [t1, t2], hb, hn, hsub, hcov, tr, hp, hd => by
    have hb' := hb
    simp only [isBinary, Bool.and_eq_true] at hb
    have hTl : (LTree.node [t1, t2]).leaves = t1.leaves ++ t2.leaves := by simp [leaves, leavesL]
    have hn' := hn
    rw [hTl] at hn'
    obtain ⟨hn1, hn2, hdd⟩ := List.nodup_append.mp hn'
    have hdis : ∀ x, x ∈ t1.leaves → x ∉ t2.leaves := fun x h1 h2 => hdd x h1 x h2 rfl
    have hsub1 : ∀ x, x ∈ t1.leaves → x ∈ S.leaves := fun x hx =>
      hsub x ((leaves_node2 t1 t2 x).mpr (Or.inl hx))
    have hsub2 : ∀ x, x ∈ t2.leaves → x ∈ S.leaves := fun x hx =>
      hsub x ((leaves_node2 t1 t2 x).mpr (Or.inr hx))
    obtain ⟨C1, C2, hC1, hC2, h1in, h2in, h12⟩ :=
      (cover_clade hS hR (.node [t1, t2]) hb' hn hsub).2 t1 t2 rfl hcov
    rw [covers_node] at hcov
    obtain ⟨hside, hd1, hd2⟩ := displays_child hdis hd
    obtain ⟨ha, hb0, hc, _⟩ := (displays_iff _ tr).mp hd
    have hc' := (leaves_node2 t1 t2 _).mp hc
    rcases hside with ⟨a1, b1⟩ | ⟨a2, b2⟩
    · rcases hc' with c1 | c2
      · exact covers_induced hS hR t1 hb.1 hn1 hsub1 (covers_of_cover t1 _ hcov.1) tr hp (hd1 a1 c1)
      · exact (displays_iff S tr).mpr ⟨hsub _ ha, hsub _ hb0, hsub _ hc, C1, hC1, h1in _ a1, h1in _ b1,
          fun h => h12 _ h (h2in _ c2)⟩
    · rcases hc' with c1 | c2
      · exact (displays_iff S tr).mpr ⟨hsub _ ha, hsub _ hb0, hsub _ hc, C2, hC2, h2in _ a2, h2in _ b2,
          fun h => h12 _ (h1in _ c1) h⟩
      · exact covers_induced hS hR t2 hb.2 hn2 hsub2 (covers_of_cover t2 _ hcov.2) tr hp (hd2 a2 c2)
  | .node [], h, _, _, _, _, _, _ => by simp [isBinary] at h
  | .node [_], h, _, _, _, _, _, _ => by simp [isBinary] at h
  | .node (_ :: _ :: _ :: _), h, _, _, _, _, _, _ => by simp [isBinary] at h

end

/-! ### The loop of `tree_to_triples` as a nondeterministic rewriting system -/

/-- One iteration of the `while` loop on the working copy: some non-root
    minimal internal node `other = (x, y)` with sister `σ` is popped; the
    triple `(min x y, max x y, first leaf of σ)` is emitted;
    `parent.add_child(right_node.detach()); parent.remove_child(other)` turns
    the children of the parent into `[σ, y]` whichever side `other` was on. -/
inductive Step : LTree → Triple → LTree → Prop
  | hereL (x y : Nat) (σ : LTree) :
      Step (.node [.node [.leaf x, .leaf y], σ]) (mkTriple x y σ.firstLeaf) (.node [σ, .leaf y])
  | hereR (x y : Nat) (σ : LTree) :
      Step (.node [σ, .node [.leaf x, .leaf y]]) (mkTriple x y σ.firstLeaf) (.node [σ, .leaf y])
  | inL {a a' : LTree} {tr : Triple} (b : LTree) : Step a tr a' → Step (.node [a, b]) tr (.node [a', b])
  | inR {b b' : LTree} {tr : Triple} (a : LTree) : Step b tr b' → Step (.node [a, b]) tr (.node [a, b'])

/-- Several iterations, with the triples emitted, in order. -/
inductive Run : LTree → List Triple → LTree → Prop
  | nil (t : LTree) : Run t [] t
  | cons {t t' t'' : LTree} {tr : Triple} {trs : List Triple} :
      Step t tr t' → Run t' trs t'' → Run t (tr :: trs) t''

/-- The loop stops when no non-root minimal internal node is left: the
    working tree is a single leaf or the root is the only internal node. -/
def Final : LTree → Prop
  | .leaf _ => True
  | .node [.leaf _, .leaf _] => True
  | _ => False

/-- `trs` is a possible list of triples of `tree_to_triples t` (for some order
    of popping the set of minimal internal nodes). -/
def BreakUp (t : LTree) (trs : List Triple) : Prop := ∃ t', Run t trs t' ∧ Final t'

theorem Run.trans {t t' t'' : LTree} {a b : List Triple} (h1 : Run t a t') (h2 : Run t' b t'') :
    Run t (a ++ b) t'' := by
  induction h1 with
  | nil _ => exact h2
  | cons hs _ ih => exact Run.cons hs (ih h2)

theorem Run.single {t t' : LTree} {tr : Triple} (h : Step t tr t') : Run t [tr] t' :=
  Run.cons h (Run.nil _)

theorem Run.liftL {a a' : LTree} {trs : List Triple} (b : LTree) (h : Run a trs a') :
    Run (.node [a, b]) trs (.node [a', b]) := by
  induction h with
  | nil _ => exact Run.nil _
  | cons hs _ ih => exact Run.cons (Step.inL b hs) ih

theorem Run.liftR {b b' : LTree} {trs : List Triple} (a : LTree) (h : Run b trs b') :
    Run (.node [a, b]) trs (.node [a, b']) := by
  induction h with
  | nil _ => exact Run.nil _
  | cons hs _ ih => exact Run.cons (Step.inR a hs) ih

/-! ### Every run produces a certified triple set -/

theorem mkTriple_mem (x y s : Nat) (R : List Triple) :
    (x, y, s) ∈ mkTriple x y s :: R ∨ (y, x, s) ∈ mkTriple x y s :: R := by
  rcases mkTriple_cases x y s with e | e <;> rw [e] <;> simp

theorem cover_cherry (x y s : Nat) (R : List Triple) (sis : List Nat) (hs : s ∈ sis) :
    Cover (mkTriple x y s :: R) (.node [.leaf x, .leaf y]) sis := by
  rw [cover_node]
  exact ⟨⟨x, y, s, by simp [leaves], by simp [leaves], hs, mkTriple_mem x y s R⟩,
    cover_leaf _ _ _, cover_leaf _ _ _⟩

theorem step_facts {T T' : LTree} {tr : Triple} (h : Step T tr T') : T.isBinary = true →
    T'.isBinary = true ∧ (∀ x, x ∈ T'.leaves → x ∈ T.leaves) ∧
    ∀ (R : List Triple) (sis : List Nat), Cover R T' sis → Cover (tr :: R) T sis := by
  induction h with
  | hereL x y σ =>
    intro hb
    simp only [isBinary, Bool.and_eq_true, true_and] at hb
    refine ⟨by simp [isBinary, hb], ?_, ?_⟩
    · intro z hz
      simp only [leaves, leavesL, List.append_nil, List.mem_append, List.mem_cons, List.not_mem_nil,
        or_false] at hz ⊢
      rcases hz with hz | hz
      · exact Or.inr hz
      · exact Or.inl (Or.inr hz)
    · intro R sis hc
      rw [cover_node] at hc ⊢
      obtain ⟨⟨r1, r2, s, h1, h2, h3, h4⟩, c1, _⟩ := hc
      have hy : r2 = y := by simpa [leaves] using h2
      subst hy
      refine ⟨⟨r2, r1, s, by simp [leaves, leavesL], h1, h3, ?_⟩, ?_, ?_⟩
      · rcases h4 with h4 | h4
        · exact Or.inr (List.mem_cons_of_mem _ h4)
        · exact Or.inl (List.mem_cons_of_mem _ h4)
      · exact cover_cherry x r2 _ R _ (firstLeaf_mem hb)
      · exact cover_mono (fun _ h => List.mem_cons_of_mem _ h) σ hb _ _
          (fun z hz => by simp only [leaves, List.mem_singleton] at hz; simp [leaves, leavesL, hz]) c1
  | hereR x y σ =>
    intro hb
    simp only [isBinary, Bool.and_eq_true, and_true] at hb
    refine ⟨by simp [isBinary, hb], ?_, ?_⟩
    · intro z hz
      simp only [leaves, leavesL, List.append_nil, List.mem_append, List.mem_cons, List.not_mem_nil,
        or_false] at hz ⊢
      rcases hz with hz | hz
      · exact Or.inl hz
      · exact Or.inr (Or.inr hz)
    · intro R sis hc
      rw [cover_node] at hc ⊢
      obtain ⟨⟨r1, r2, s, h1, h2, h3, h4⟩, c1, _⟩ := hc
      have hy : r2 = y := by simpa [leaves] using h2
      subst hy
      refine ⟨⟨r1, r2, s, h1, by simp [leaves, leavesL], h3, ?_⟩, ?_, ?_⟩
      · rcases h4 with h4 | h4
        · exact Or.inl (List.mem_cons_of_mem _ h4)
        · exact Or.inr (List.mem_cons_of_mem _ h4)
      · exact cover_mono (fun _ h => List.mem_cons_of_mem _ h) σ hb _ _
          (fun z hz => by simp only [leaves, List.mem_singleton] at hz; simp [leaves, leavesL, hz]) c1
      · exact cover_cherry x r2 _ R _ (firstLeaf_mem hb)
  | @inL a a' tr b _ ih =>
    intro hb
    simp only [isBinary, Bool.and_eq_true] at hb
    obtain ⟨hb', hl, hc⟩ := ih hb.1
    refine ⟨by simp [isBinary, hb', hb.2], ?_, ?_⟩
    · intro z hz
      rw [leaves_node2] at hz ⊢
      rcases hz with hz | hz
      · exact Or.inl (hl z hz)
      · exact Or.inr hz
    · intro R sis h
      rw [cover_node] at h ⊢
      obtain ⟨⟨r1, r2, s, h1, h2, h3, h4⟩, c1, c2⟩ := h
      refine ⟨⟨r1, r2, s, hl _ h1, h2, h3, ?_⟩, hc R _ c1,
        cover_mono (fun _ h => List.mem_cons_of_mem _ h) b hb.2 _ _ hl c2⟩
      rcases h4 with h4 | h4
      · exact Or.inl (List.mem_cons_of_mem _ h4)
      · exact Or.inr (List.mem_cons_of_mem _ h4)
  | @inR b b' tr a _ ih =>
    intro hb
    simp only [isBinary, Bool.and_eq_true] at hb
    obtain ⟨hb', hl, hc⟩ := ih hb.2
    refine ⟨by simp [isBinary, hb', hb.1], ?_, ?_⟩
    · intro z hz
      rw [leaves_node2] at hz ⊢
      rcases hz with hz | hz
      · exact Or.inl hz
      · exact Or.inr (hl z hz)
    · intro R sis h
      rw [cover_node] at h ⊢
      obtain ⟨⟨r1, r2, s, h1, h2, h3, h4⟩, c1, c2⟩ := h
      refine ⟨⟨r1, r2, s, h1, hl _ h2, h3, ?_⟩,
        cover_mono (fun _ h => List.mem_cons_of_mem _ h) a hb.1 _ _ hl c1, hc R _ c2⟩
      rcases h4 with h4 | h4
      · exact Or.inl (List.mem_cons_of_mem _ h4)
      · exact Or.inr (List.mem_cons_of_mem _ h4)

/-- The root-level version of `step_facts`. -/
theorem step_covers {T T' : LTree} {tr : Triple} (h : Step T tr T') (hb : T.isBinary = true)
    (R : List Triple) (hc : Covers R T') : Covers (tr :: R) T := by
  cases h with
  | hereL x y σ =>
    simp only [isBinary, Bool.and_eq_true, true_and] at hb
    rw [covers_node] at hc ⊢
    exact ⟨cover_cherry x y _ R _ (firstLeaf_mem hb),
      cover_mono (fun _ h => List.mem_cons_of_mem _ h) σ hb _ _
        (fun z hz => by simp only [leaves, List.mem_singleton] at hz; simp [leaves, leavesL, hz]) hc.1⟩
  | hereR x y σ =>
    simp only [isBinary, Bool.and_eq_true, and_true] at hb
    rw [covers_node] at hc ⊢
    exact ⟨cover_mono (fun _ h => List.mem_cons_of_mem _ h) σ hb _ _
        (fun z hz => by simp only [leaves, List.mem_singleton] at hz; simp [leaves, leavesL, hz]) hc.1,
      cover_cherry x y _ R _ (firstLeaf_mem hb)⟩
  | @inL a a' _ b hs =>
    simp only [isBinary, Bool.and_eq_true] at hb
    obtain ⟨_, hl, hcov⟩ := step_facts hs hb.1
    rw [covers_node] at hc ⊢
    exact ⟨hcov R _ hc.1, cover_mono (fun _ h => List.mem_cons_of_mem _ h) b hb.2 _ _ hl hc.2⟩
  | @inR b b' _ a hs =>
    simp only [isBinary, Bool.and_eq_true] at hb
    obtain ⟨_, hl, hcov⟩ := step_facts hs hb.2
    rw [covers_node] at hc ⊢
    exact ⟨cover_mono (fun _ h => List.mem_cons_of_mem _ h) a hb.1 _ _ hl hc.1, hcov R _ hc.2⟩

theorem covers_final {T : LTree} (h : Final T) (R : List Triple) : Covers R T := by
  match T, h with
  | .leaf _, _ => simp only [Covers]
  | .node [.leaf a, .leaf b], _ => exact (covers_node R _ _).mpr ⟨cover_leaf _ _ _, cover_leaf _ _ _⟩

theorem run_covers {T T' : LTree} {trs : List Triple} (h : Run T trs T') :
    T.isBinary = true → Final T' → Covers trs T := by
  induction h with
  | nil t => intro _ hf; exact covers_final hf []
  | cons hs _ ih =>
    intro hb hf
    exact step_covers hs hb _ (ih (step_facts hs hb).1 hf)

theorem breakUp_covers {t : LTree} {trs : List Triple} (hb : t.isBinary = true) (h : BreakUp t trs) :
    Covers trs t := by
  obtain ⟨t', hr, hf⟩ := h
  exact run_covers hr hb hf

/-- **Every run of BreakUp generates all induced triples.** -/
theorem breakUp_induced {t S : LTree} {trs : List Triple} (hb : t.isBinary = true)
    (hn : t.leaves.Nodup) (h : BreakUp t trs) (hS : S.leaves.Nodup)
    (hsub : ∀ x, x ∈ t.leaves → x ∈ S.leaves) (hd : ∀ tr, tr ∈ trs → displays S tr = true) :
    ∀ tr, proper tr = true → displays t tr = true → displays S tr = true :=
  covers_induced hS hd t hb hn hsub (breakUp_covers hb h)

/-! ### The order fixed by the model is one of the runs -/

theorem contract_node_eq (t1 t2 : LTree) (s : Nat) :
    contract (.node [t1, t2]) s =
      if (t1.isLeaf || !t2.isLeaf) = true then
        ((contract t2 (contract t1 t2.firstLeaf).1).1,
          innerTr (.node [t1, t2]) ++
            [mkTriple (contract t1 t2.firstLeaf).1 (contract t2 (contract t1 t2.firstLeaf).1).1 s])
      else
        ((contract t1 t2.firstLeaf).1,
          innerTr (.node [t1, t2]) ++
            [mkTriple (contract t2 (contract t1 t2.firstLeaf).1).1 (contract t1 t2.firstLeaf).1 s]) := by
  by_cases h : (t1.isLeaf || !t2.isLeaf) = true
  · simp only [contract, innerTr, h, if_true]
  · simp only [contract, innerTr, h]; rfl

theorem isLeaf_eq {t : LTree} (h : t.isLeaf = true) : ∃ a, t = .leaf a := by
  cases t with
  | leaf a => exact ⟨a, rfl⟩
  | node cs => simp [isLeaf] at h

/-- The model's contraction of an internal subtree is a run ending in the
    cherry `(l, r)`, followed by the parent's step that emits `l r | s`. -/
theorem contract_run : ∀ (T : LTree), T.isBinary = true → T.isLeaf = false →
    ∃ l r, Run T (innerTr T) (.node [.leaf l, .leaf r]) ∧
      ∀ s, contract T s = (r, innerTr T ++ [mkTriple l r s])
  | .leaf _, _, h => by simp [isLeaf] at h
  | .node [t1, t2], hb, _ => by
    simp only [isBinary, Bool.and_eq_true] at hb
    by_cases h1 : t1.isLeaf = true
    · obtain ⟨a, rfl⟩ := isLeaf_eq h1
      by_cases h2 : t2.isLeaf = true
      · obtain ⟨b, rfl⟩ := isLeaf_eq h2
        refine ⟨a, b, ?_, fun s => ?_⟩
        · simp only [innerTr, contract, List.append_nil]; exact Run.nil _
        · rw [contract_node_eq]; simp [isLeaf, contract]
      · have h2' : t2.isLeaf = false := by simpa using h2
        obtain ⟨l2, r2, hrun, hc⟩ := contract_run t2 hb.2 h2'
        refine ⟨a, r2, ?_, fun s => ?_⟩
        · have e : innerTr (.node [.leaf a, t2]) = innerTr t2 ++ [mkTriple l2 r2 a] := by
            simp only [innerTr_node, contract, List.nil_append, hc]
          rw [e]
          have hstep := Step.hereR l2 r2 (.leaf a)
          simp only [firstLeaf, leaves, List.headD_cons] at hstep
          exact (Run.liftR (.leaf a) hrun).trans (Run.single hstep)
        · rw [contract_node_eq]; simp [isLeaf, contract, hc]
    · have h1' : t1.isLeaf = false := by simpa using h1
      obtain ⟨l1, r1, hrun1, hc1⟩ := contract_run t1 hb.1 h1'
      have hstep1 := Step.hereL l1 r1 t2
      have hrunA : Run (.node [t1, t2]) (innerTr t1 ++ [mkTriple l1 r1 t2.firstLeaf])
          (.node [t2, .leaf r1]) := (Run.liftL t2 hrun1).trans (Run.single hstep1)
      by_cases h2 : t2.isLeaf = true
      · obtain ⟨b, rfl⟩ := isLeaf_eq h2
        refine ⟨b, r1, ?_, fun s => ?_⟩
        · have e : innerTr (.node [t1, .leaf b]) = innerTr t1 ++ [mkTriple l1 r1 (LTree.leaf b).firstLeaf] := by
            simp only [innerTr_node, contract, List.append_nil, hc1]
          rw [e]; exact hrunA
        · rw [contract_node_eq, h1']; simp [isLeaf, contract, hc1]
      · have h2' : t2.isLeaf = false := by simpa using h2
        obtain ⟨l2, r2, hrun2, hc2⟩ := contract_run t2 hb.2 h2'
        refine ⟨r1, r2, ?_, fun s => ?_⟩
        · have e : innerTr (.node [t1, t2]) =
              (innerTr t1 ++ [mkTriple l1 r1 t2.firstLeaf]) ++ (innerTr t2 ++ [mkTriple l2 r2 r1]) := by
            simp only [innerTr_node, hc1, hc2]
          rw [e]
          have hstep2 := Step.hereL l2 r2 (.leaf r1)
          simp only [firstLeaf, leaves, List.headD_cons] at hstep2
          exact hrunA.trans ((Run.liftL (.leaf r1) hrun2).trans (Run.single hstep2))
        · rw [contract_node_eq]; simp [h1', h2', hc1, hc2]
  | .node [], h, _ => by simp [isBinary] at h
  | .node [_], h, _ => by simp [isBinary] at h
  | .node (_ :: _ :: _ :: _), h, _ => by simp [isBinary] at h

/-- The triples of the model's `tree_to_triples` are those of one run. -/
theorem innerTr_breakUp (t : LTree) (hb : t.isBinary = true) : BreakUp t (innerTr t) := by
  by_cases h : t.isLeaf = true
  · obtain ⟨a, rfl⟩ := isLeaf_eq h
    exact ⟨.leaf a, by simp only [innerTr]; exact Run.nil _, trivial⟩
  · obtain ⟨l, r, hrun, _⟩ := contract_run t hb (by simpa using h)
    exact ⟨_, hrun, trivial⟩

theorem treeToTriples_breakUp {t : LTree} {ls : List Nat} {trs : List Triple}
    (h : treeToTriples t = some (ls, trs)) : ls = t.leaves ∧ BreakUp t trs := by
  by_cases hb : t.isBinary = true
  · rw [treeToTriples_eq t hb] at h
    simp only [Option.some.injEq, Prod.mk.injEq] at h
    obtain ⟨rfl, rfl⟩ := h
    exact ⟨rfl, innerTr_breakUp t hb⟩
  · rw [treeToTriples_none (by simpa using hb)] at h; cases h

/-! ### The triples of a run are in scope for BUILD -/

theorem mkTriple_scope {x y s : Nat} {L : List Nat} (hx : x ∈ L) (hy : y ∈ L) (hs : s ∈ L)
    (hxy : x ≠ y) (hxs : x ≠ s) (hys : y ≠ s) :
    proper (mkTriple x y s) = true ∧ (mkTriple x y s).1 ∈ L ∧ (mkTriple x y s).2.1 ∈ L ∧
      (mkTriple x y s).2.2 ∈ L := by
  rcases mkTriple_cases x y s with e | e <;> rw [e]
  · exact ⟨(proper_iff _).mpr ⟨hxy, hxs, hys⟩, hx, hy, hs⟩
  · exact ⟨(proper_iff _).mpr ⟨Ne.symm hxy, hys, hxs⟩, hy, hx, hs⟩

theorem step_scope {T T' : LTree} {tr : Triple} (h : Step T tr T') : T.isBinary = true →
    T.leaves.Nodup → T'.leaves.Nodup ∧ proper tr = true ∧
      tr.1 ∈ T.leaves ∧ tr.2.1 ∈ T.leaves ∧ tr.2.2 ∈ T.leaves := by
  induction h with
  | hereL x y σ =>
    intro hb hn
    simp only [isBinary, Bool.and_eq_true, true_and] at hb
    have hfl := firstLeaf_mem hb
    have hL : (LTree.node [.node [.leaf x, .leaf y], σ]).leaves = x :: y :: σ.leaves := by
      simp [leaves, leavesL]
    have hL' : (LTree.node [σ, .leaf y]).leaves = σ.leaves ++ [y] := by simp [leaves, leavesL]
    rw [hL] at hn ⊢
    rw [hL']
    simp only [List.nodup_cons, List.mem_cons, not_or] at hn
    obtain ⟨⟨hxy, hxσ⟩, hyσ, hσ⟩ := hn
    refine ⟨?_, mkTriple_scope (by simp) (by simp) (by simp [hfl]) hxy
      (fun h => hxσ (h ▸ hfl)) (fun h => hyσ (h ▸ hfl))⟩
    rw [List.nodup_append]
    exact ⟨hσ, by simp, fun a ha b hb' => by
      simp only [List.mem_singleton] at hb'; subst hb'; intro h; exact hyσ (h ▸ ha)⟩
  | hereR x y σ =>
    intro hb hn
    simp only [isBinary, Bool.and_eq_true, and_true] at hb
    have hfl := firstLeaf_mem hb
    have hL : (LTree.node [σ, .node [.leaf x, .leaf y]]).leaves = σ.leaves ++ [x, y] := by
      simp [leaves, leavesL]
    have hL' : (LTree.node [σ, .leaf y]).leaves = σ.leaves ++ [y] := by simp [leaves, leavesL]
    rw [hL] at hn ⊢
    rw [hL']
    obtain ⟨hσ, hxy, hd⟩ := List.nodup_append.mp hn
    have hxy' : x ≠ y := by simpa using hxy
    have hxσ : x ∉ σ.leaves := fun h => hd x h x (by simp) rfl
    have hyσ : y ∉ σ.leaves := fun h => hd y h y (by simp) rfl
    refine ⟨?_, mkTriple_scope (by simp) (by simp) (by simp [hfl]) hxy'
      (fun h => hxσ (h ▸ hfl)) (fun h => hyσ (h ▸ hfl))⟩
    rw [List.nodup_append]
    exact ⟨hσ, by simp, fun a ha b hb' => by
      simp only [List.mem_singleton] at hb'; subst hb'; intro h; exact hyσ (h ▸ ha)⟩
  | @inL a a' tr b hs ih =>
    intro hb hn
    simp only [isBinary, Bool.and_eq_true] at hb
    have hL : (LTree.node [a, b]).leaves = a.leaves ++ b.leaves := by simp [leaves, leavesL]
    have hL' : (LTree.node [a', b]).leaves = a'.leaves ++ b.leaves := by simp [leaves, leavesL]
    rw [hL] at hn ⊢
    rw [hL']
    obtain ⟨hna, hnb, hd⟩ := List.nodup_append.mp hn
    obtain ⟨hn', hp, h1, h2, h3⟩ := ih hb.1 hna
    have hl := (step_facts hs hb.1).2.1
    refine ⟨?_, hp, List.mem_append.mpr (Or.inl h1), List.mem_append.mpr (Or.inl h2),
      List.mem_append.mpr (Or.inl h3)⟩
    rw [List.nodup_append]
    exact ⟨hn', hnb, fun x hx y hy => hd x (hl x hx) y hy⟩
  | @inR b b' tr a hs ih =>
    intro hb hn
    simp only [isBinary, Bool.and_eq_true] at hb
    have hL : (LTree.node [a, b]).leaves = a.leaves ++ b.leaves := by simp [leaves, leavesL]
    have hL' : (LTree.node [a, b']).leaves = a.leaves ++ b'.leaves := by simp [leaves, leavesL]
    rw [hL] at hn ⊢
    rw [hL']
    obtain ⟨hna, hnb, hd⟩ := List.nodup_append.mp hn
    obtain ⟨hn', hp, h1, h2, h3⟩ := ih hb.2 hnb
    have hl := (step_facts hs hb.2).2.1
    refine ⟨?_, hp, List.mem_append.mpr (Or.inr h1), List.mem_append.mpr (Or.inr h2),
      List.mem_append.mpr (Or.inr h3)⟩
    rw [List.nodup_append]
    exact ⟨hna, hn', fun x hx y hy => hd x hx y (hl y hy)⟩

/-- Every triple emitted by a run consists of three different leaves of the tree. -/
theorem run_scope {T T' : LTree} {trs : List Triple} (h : Run T trs T') : T.isBinary = true →
    T.leaves.Nodup → ∀ tr, tr ∈ trs →
      proper tr = true ∧ tr.1 ∈ T.leaves ∧ tr.2.1 ∈ T.leaves ∧ tr.2.2 ∈ T.leaves := by
  induction h with
  | nil _ => intro _ _ tr h; cases h
  | cons hs _ ih =>
    intro hb hn tr htr
    obtain ⟨hb', hl, _⟩ := step_facts hs hb
    obtain ⟨hn', hsc⟩ := step_scope hs hb hn
    rcases List.mem_cons.mp htr with rfl | htr
    · exact hsc
    · obtain ⟨p, a, b, c⟩ := ih hb' hn' tr htr
      exact ⟨p, hl _ a, hl _ b, hl _ c⟩

theorem breakUp_scope {t : LTree} {trs : List Triple} (hb : t.isBinary = true) (hn : t.leaves.Nodup)
    (h : BreakUp t trs) : ∀ tr, tr ∈ trs →
      proper tr = true ∧ tr.1 ∈ t.leaves ∧ tr.2.1 ∈ t.leaves ∧ tr.2.2 ∈ t.leaves := by
  obtain ⟨t', hr, _⟩ := h
  exact run_scope hr hb hn

/-- Supertrees for any family of runs: a tree that is `Good` for the union of
    the leaves and of the emitted triples displays every induced triple. -/
theorem good_displays_all_runs {fam : List (LTree × List Triple)}
    (hfam : ∀ p, p ∈ fam → p.1.isBinary = true ∧ p.1.leaves.Nodup ∧ BreakUp p.1 p.2)
    {L : List Nat} {trs : List Triple}
    (hL : ∀ x, x ∈ L ↔ ∃ p, p ∈ fam ∧ x ∈ p.1.leaves)
    (hT : ∀ tr, tr ∈ trs ↔ ∃ p, p ∈ fam ∧ tr ∈ p.2) :
    Known L trs ∧ Proper trs ∧ ∀ S, Good trs L S →
      ∀ p, p ∈ fam → ∀ tr, proper tr = true → displays p.1 tr = true → displays S tr = true := by
  have hin : ∀ tr, tr ∈ trs → proper tr = true ∧ tr.1 ∈ L ∧ tr.2.1 ∈ L ∧ tr.2.2 ∈ L := by
    intro tr htr
    obtain ⟨p, hp, htp⟩ := (hT tr).mp htr
    obtain ⟨hb, hn, hbu⟩ := hfam p hp
    obtain ⟨q, a, b, c⟩ := breakUp_scope hb hn hbu tr htp
    exact ⟨q, (hL _).mpr ⟨p, hp, a⟩, (hL _).mpr ⟨p, hp, b⟩, (hL _).mpr ⟨p, hp, c⟩⟩
  refine ⟨fun tr htr => ⟨(hin tr htr).2.1, (hin tr htr).2.2.1⟩, fun tr htr => (hin tr htr).1, ?_⟩
  intro S hg p hp
  obtain ⟨hb, hn, hbu⟩ := hfam p hp
  apply breakUp_induced hb hn hbu hg.nodup
  · intro x hx; exact (hg.mem x).mpr ((hL x).mpr ⟨p, hp, hx⟩)
  · intro tr htr
    have htrs : tr ∈ trs := (hT tr).mpr ⟨p, hp, htr⟩
    exact hg.disp tr htrs ((inside_iff L tr).mpr (hin tr htrs).2)

end SR.Tri
