/-
  The BreakUp triples of a binary tree generate all its induced triples:
  any tree `S` (distinct leaf names, not necessarily binary) that contains the
  leaves of a binary tree `T` and displays the triples emitted by
  `tree_to_triples T` displays EVERY rooted triple `ab|c` displayed by `T`.

  Proof idea.  The clades of `S` form a laminar family.  Contracting a
  subtree `T'` whose sister starts with leaf `s` emits triples which force a
  clade of `S` that contains all the leaves of `T'` but not `s`
  (`contract_clade`); the two clades obtained for the two children of a node
  are disjoint (`node_clades`), which is exactly what is needed for a triple
  whose third leaf lies in the other child.
-/
import SRVerif.Proofs.TriplesSuper
import SRVerif.Proofs.TriplesCompleteAll

namespace SR.Tri

open SR SR.DS LTree Spec

/-! ### Clades of an arbitrary tree: singletons and laminarity -/

mutual
  /-- Every leaf is a clade. -/
  theorem singleton_clade : ∀ (t : LTree) (x : Nat), x ∈ t.leaves → [x] ∈ clades t
    | .leaf a, x, hx => by
      simp only [leaves, List.mem_singleton] at hx
      subst hx; simp [clades]
    | .node cs, x, hx => by
      simp only [clades, List.mem_cons]
      exact Or.inr (singleton_cladeL cs x hx)
  theorem singleton_cladeL : ∀ (cs : List LTree) (x : Nat), x ∈ leavesL cs → [x] ∈ cladesL cs
    | [], x, hx => by simp [leavesL] at hx
    | c :: cs, x, hx => by
      simp only [leavesL, List.mem_append] at hx
      simp only [cladesL, List.mem_append]
      rcases hx with hx | hx
      · exact Or.inl (singleton_clade c x hx)
      · exact Or.inr (singleton_cladeL cs x hx)
end

/-- The clades of a tree with distinct leaf names are laminar: two clades are
    nested or disjoint. -/
theorem clades_laminar (t : LTree) (ht : t.leaves.Nodup) (C C' : List Nat)
    (hC : C ∈ clades t) (hC' : C' ∈ clades t) :
    (∀ x, x ∈ C → x ∈ C') ∨ (∀ x, x ∈ C' → x ∈ C) ∨ (∀ x, x ∈ C → x ∉ C') := by
  match t, ht, hC, hC' with
  | .leaf a, _, hC, hC' =>
    simp only [clades, List.mem_singleton] at hC hC'
    subst hC; subst hC'
    exact Or.inl (fun _ h => h)
  | .node cs, ht, hC, hC' =>
    have ht' : (leavesL cs).Nodup := ht
    rcases (mem_clades_node cs C).mp hC with rfl | ⟨c, hc, hCc⟩
    · exact Or.inr (Or.inl (fun x hx => clade_sub_leaves (.node cs) C' hC' x hx))
    · rcases (mem_clades_node cs C').mp hC' with rfl | ⟨c', hc', hCc'⟩
      · exact Or.inl (fun x hx => clade_sub_leaves (.node cs) C hC x hx)
      · by_cases hex : ∃ x, x ∈ C ∧ x ∈ C'
        · obtain ⟨x, hx, hx'⟩ := hex
          have : c = c' := child_unique ht' hc hc' (clade_sub_leaves c C hCc x hx)
            (clade_sub_leaves c' C' hCc' x hx')
          subst this
          have _hdec : sizeOf c < sizeOf (LTree.node cs) := by
            have := List.sizeOf_lt_of_mem hc
            simp only [LTree.node.sizeOf_spec]; omega
          exact clades_laminar c (nodup_child ht' hc) C C' hCc hCc'
        · exact Or.inr (Or.inr (fun x hx hx' => hex ⟨x, hx, hx'⟩))
termination_by sizeOf t

/-! ### The clades forced by the emitted triples -/

section
variable {S : LTree}

/-- The clade of `S` witnessing a displayed triple. -/
theorem displays_clade {tr : Triple} (h : displays S tr = true) :
    ∃ C, C ∈ clades S ∧ tr.1 ∈ C ∧ tr.2.1 ∈ C ∧ tr.2.2 ∉ C :=
  ((displays_iff S tr).mp h).2.2.2

/-- If `S` displays the inner triples of `node [t1, t2]`, two disjoint clades
    of `S` contain the leaves of `t1` and of `t2`; and so does, given the
    whole contraction with outside leaf `s`, a clade avoiding `s`. -/
theorem contract_clade (hS : S.leaves.Nodup) : ∀ (T : LTree), T.isBinary = true → T.leaves.Nodup →
    (∀ x, x ∈ T.leaves → x ∈ S.leaves) →
    (∀ s, s ∉ T.leaves → (∀ tr, tr ∈ (contract T s).2 → displays S tr = true) →
      ∃ C, C ∈ clades S ∧ (∀ x, x ∈ T.leaves → x ∈ C) ∧ s ∉ C) ∧
    (∀ t1 t2, T = .node [t1, t2] → (∀ tr, tr ∈ innerTr T → displays S tr = true) →
      ∃ C1 C2, C1 ∈ clades S ∧ C2 ∈ clades S ∧ (∀ x, x ∈ t1.leaves → x ∈ C1) ∧
        (∀ x, x ∈ t2.leaves → x ∈ C2) ∧ ∀ x, x ∈ C1 → x ∉ C2)
  | .leaf a, _, _, hsub => by
    refine ⟨?_, fun t1 t2 h => by cases h⟩
    intro s hs _
    have ha : a ∈ S.leaves := hsub a (by simp [leaves])
    refine ⟨[a], singleton_clade S a ha, fun x hx => by simpa [leaves] using hx, ?_⟩
    intro h
    apply hs
    simp only [List.mem_singleton] at h
    simp [leaves, h]
  | .node [t1, t2], hb, hn, hsub => by
    have hb' := hb
    simp only [isBinary, Bool.and_eq_true] at hb
    have hTl : (LTree.node [t1, t2]).leaves = t1.leaves ++ t2.leaves := by simp [leaves, leavesL]
    have hn' := hn
    rw [hTl] at hn'
    obtain ⟨hn1, hn2, hd⟩ := List.nodup_append.mp hn'
    have hdis : ∀ x, x ∈ t1.leaves → x ∉ t2.leaves := fun x h1 h2 => hd x h1 x h2 rfl
    have hsub1 : ∀ x, x ∈ t1.leaves → x ∈ S.leaves := fun x hx =>
      hsub x ((leaves_node2 t1 t2 x).mpr (Or.inl hx))
    have hsub2 : ∀ x, x ∈ t2.leaves → x ∈ S.leaves := fun x hx =>
      hsub x ((leaves_node2 t1 t2 x).mpr (Or.inr hx))
    have hr1 : (contract t1 t2.firstLeaf).1 ∈ t1.leaves := (contract_facts t1 hb.1 _).1
    have hr2 : (contract t2 (contract t1 t2.firstLeaf).1).1 ∈ t2.leaves := (contract_facts t2 hb.2 _).1
    have hfl2 : t2.firstLeaf ∈ t2.leaves := firstLeaf_mem hb.2
    have hfl : t2.firstLeaf ∉ t1.leaves := fun h => hdis _ h hfl2
    have hr1' : (contract t1 t2.firstLeaf).1 ∉ t2.leaves := hdis _ hr1
    -- the two disjoint clades
    have hpair : (∀ tr, tr ∈ innerTr (.node [t1, t2]) → displays S tr = true) →
        ∃ C1 C2, C1 ∈ clades S ∧ C2 ∈ clades S ∧ (∀ x, x ∈ t1.leaves → x ∈ C1) ∧
          (∀ x, x ∈ t2.leaves → x ∈ C2) ∧ ∀ x, x ∈ C1 → x ∉ C2 := by
      intro hdisp
      obtain ⟨C1, hC1, h1in, h1out⟩ := (contract_clade hS t1 hb.1 hn1 hsub1).1 _ hfl
        (fun tr htr => hdisp tr (by rw [innerTr_node]; exact List.mem_append.mpr (Or.inl htr)))
      obtain ⟨C2, hC2, h2in, h2out⟩ := (contract_clade hS t2 hb.2 hn2 hsub2).1 _ hr1'
        (fun tr htr => hdisp tr (by rw [innerTr_node]; exact List.mem_append.mpr (Or.inr htr)))
      refine ⟨C1, C2, hC1, hC2, h1in, h2in, ?_⟩
      rcases clades_laminar S hS C1 C2 hC1 hC2 with h | h | h
      · exact absurd (h _ (h1in _ hr1)) h2out
      · exact absurd (h _ (h2in _ hfl2)) h1out
      · exact h
    refine ⟨?_, ?_⟩
    · intro s hs hdisp
      obtain ⟨left, right, heq, hlr⟩ := contract_node t1 t2 s
      rw [heq] at hdisp
      obtain ⟨C1, C2, hC1, hC2, h1in, h2in, h12⟩ := hpair
        (fun tr htr => hdisp tr (List.mem_append.mpr (Or.inl htr)))
      have hlast := hdisp (mkTriple left right s) (List.mem_append.mpr (Or.inr (by simp)))
      -- a clade containing both representatives and avoiding `s`
      have h3 : ∃ C3, C3 ∈ clades S ∧ (contract t1 t2.firstLeaf).1 ∈ C3 ∧
          (contract t2 (contract t1 t2.firstLeaf).1).1 ∈ C3 ∧ s ∉ C3 := by
        obtain ⟨C3, hC3, ha, hb3, hc⟩ := displays_clade hlast
        rcases mkTriple_cases left right s with e | e <;> rw [e] at ha hb3 hc <;>
          rcases hlr with ⟨rfl, rfl⟩ | ⟨rfl, rfl⟩
        · exact ⟨C3, hC3, ha, hb3, hc⟩
        · exact ⟨C3, hC3, hb3, ha, hc⟩
        · exact ⟨C3, hC3, hb3, ha, hc⟩
        · exact ⟨C3, hC3, ha, hb3, hc⟩
      obtain ⟨C3, hC3, h31, h32, h3s⟩ := h3
      have r1C1 := h1in _ hr1
      have r2C2 := h2in _ hr2
      have hsub13 : ∀ x, x ∈ C1 → x ∈ C3 := by
        rcases clades_laminar S hS C1 C3 hC1 hC3 with h | h | h
        · exact h
        · exact absurd r2C2 (h12 _ (h _ h32))
        · exact absurd h31 (h _ r1C1)
      have hsub23 : ∀ x, x ∈ C2 → x ∈ C3 := by
        rcases clades_laminar S hS C2 C3 hC2 hC3 with h | h | h
        · exact h
        · exact absurd (h _ h31) (h12 _ r1C1)
        · exact absurd h32 (h _ r2C2)
      refine ⟨C3, hC3, ?_, h3s⟩
      intro x hx
      rcases (leaves_node2 t1 t2 x).mp hx with hx | hx
      · exact hsub13 _ (h1in _ hx)
      · exact hsub23 _ (h2in _ hx)
    · intro u1 u2 he hdisp
      simp only [LTree.node.injEq, List.cons.injEq, and_true] at he
      obtain ⟨rfl, rfl⟩ := he
      exact hpair hdisp
  | .node [], h, _, _ => by simp [isBinary] at h
  | .node [_], h, _, _ => by simp [isBinary] at h
  | .node (_ :: _ :: _ :: _), h, _, _ => by simp [isBinary] at h

/-- The inner triples of a child are inner triples of the node. -/
theorem innerTr_child {t1 t2 : LTree} (h1 : t1.isBinary = true) (h2 : t2.isBinary = true)
    (hdis : ∀ x, x ∈ t1.leaves → x ∉ t2.leaves) :
    (∀ tr, tr ∈ innerTr t1 → tr ∈ innerTr (.node [t1, t2])) ∧
    (∀ tr, tr ∈ innerTr t2 → tr ∈ innerTr (.node [t1, t2])) := by
  obtain ⟨f1, f2⟩ := innerTr_filter h1 h2 hdis
  exact ⟨fun tr htr => ((f1 t1.leaves (fun _ => Iff.rfl) tr).mpr htr).1,
    fun tr htr => ((f2 t2.leaves (fun _ => Iff.rfl) tr).mpr htr).1⟩

/-- **The BreakUp triples generate all induced triples.**  If `S` (distinct
    leaf names) contains the leaves of the binary tree `T` (distinct leaf
    names) and displays every triple of `tree_to_triples T`, then `S` displays
    every proper triple displayed by `T`. -/
theorem induced_displayed (hS : S.leaves.Nodup) : ∀ (T : LTree), T.isBinary = true → T.leaves.Nodup →
    (∀ x, x ∈ T.leaves → x ∈ S.leaves) → (∀ tr, tr ∈ innerTr T → displays S tr = true) →
    ∀ tr, proper tr = true → displays T tr = true → displays S tr = true
  | .leaf a, _, _, _, _, tr, hp, hd => by
    exfalso
    obtain ⟨h1, h2, _⟩ := (displays_iff _ tr).mp hd
    simp only [leaves, List.mem_singleton] at h1 h2
    exact ((proper_iff tr).mp hp).1 (h1.trans h2.symm)
  | .node [t1, t2], hb, hn, hsub, hdisp, tr, hp, hd => by
    have hb' := hb
    simp only [isBinary, Bool.and_eq_true] at hb
    have hTl : (LTree.node [t1, t2]).leaves = t1.leaves ++ t2.leaves := by simp [leaves, leavesL]
    have hn' := hn
    rw [hTl] at hn'
    obtain ⟨hn1, hn2, hdd⟩ := List.nodup_append.mp hn'
    have hdis : ∀ x, x ∈ t1.leaves → x ∉ t2.leaves := fun x h1 h2 => hdd x h1 x h2 rfl
    have hsub1 : ∀ x, x ∈ t1.leaves → x ∈ S.leaves := fun x hx =>
      hsub x ((leaves_node2 t1 t2 x).mpr (Or.inl hx))
    have hsub2 : ∀ x, x ∈ t2.leaves → x ∈ S.leaves := fun x hx =>
      hsub x ((leaves_node2 t1 t2 x).mpr (Or.inr hx))
    obtain ⟨i1, i2⟩ := innerTr_child hb.1 hb.2 hdis
    obtain ⟨C1, C2, hC1, hC2, h1in, h2in, h12⟩ :=
      (contract_clade hS (.node [t1, t2]) hb' hn hsub).2 t1 t2 rfl hdisp
    obtain ⟨hside, hd1, hd2⟩ := displays_child hdis hd
    obtain ⟨ha, hb0, hc, _⟩ := (displays_iff _ tr).mp hd
    have hc' := (leaves_node2 t1 t2 _).mp hc
    rcases hside with ⟨a1, b1⟩ | ⟨a2, b2⟩
    · rcases hc' with c1 | c2
      · exact induced_displayed hS t1 hb.1 hn1 hsub1 (fun tr htr => hdisp tr (i1 tr htr)) tr hp (hd1 a1 c1)
      · exact (displays_iff S tr).mpr ⟨hsub _ ha, hsub _ hb0, hsub _ hc, C1, hC1, h1in _ a1, h1in _ b1,
          fun h => h12 _ h (h2in _ c2)⟩
    · rcases hc' with c1 | c2
      · exact (displays_iff S tr).mpr ⟨hsub _ ha, hsub _ hb0, hsub _ hc, C2, hC2, h2in _ a2, h2in _ b2,
          fun h => h12 _ (h1in _ c1) h⟩
      · exact induced_displayed hS t2 hb.2 hn2 hsub2 (fun tr htr => hdisp tr (i2 tr htr)) tr hp (hd2 a2 c2)
  | .node [], h, _, _, _, _, _, _ => by simp [isBinary] at h
  | .node [_], h, _, _, _, _, _, _ => by simp [isBinary] at h
  | .node (_ :: _ :: _ :: _), h, _, _, _, _, _, _ => by simp [isBinary] at h

end

end SR.Tri
