/-
  `binary()` for an ARBITRARY iteration order of the set of representatives.

  The Python code iterates `list(set(self.find(i) for i in range(n)))`, whose
  order is CPython's set order (not increasing in general).  Here the list of
  representatives is any duplicate-free listing `gs` of that set, and the
  recursion `_binary` is shown to enumerate, whatever the order, exactly the
  colourings of `gs` (true = `first` block, false = `second` block) such that
  both colours occur and the first `true`-coloured element of `gs` is smaller
  than the first `false`-coloured one — which selects exactly one of the two
  colourings of every two-block coarsening.
-/
import SRVerif.Proofs.DisjointSetBinary

namespace SR.DS

/-! ### Which colourings are enumerated, for any order -/

/-- The first element of `gs` whose colour is `b`. -/
def firstCol (b : Bool) : List Nat → List Bool → Option Nat
  | g :: gs, x :: c => if x = b then some g else firstCol b gs c
  | _, _ => none

theorem cols_first_any (f : Nat) : ∀ (gs : List Nat) (c : List Bool),
    c ∈ colsGo gs (some f) none ↔ c.length = gs.length ∧ ∃ s, firstCol false gs c = some s ∧ s > f := by
  intro gs
  induction gs with
  | nil =>
    intro c
    cases c <;> simp [colsGo, firstCol]
  | cons g gs ih =>
    intro c
    obtain ⟨hm2, _, _⟩ := cols_both gs f g
    cases c with
    | nil => by_cases hg : g > f <;> simp [colsGo, firstCol, hg]
    | cons b c =>
      cases b
      · by_cases hg : g > f <;> simp [colsGo, firstCol, hg, hm2]
      · by_cases hg : g > f <;> simp [colsGo, firstCol, hg, ih]

theorem cols_second_any (s : Nat) : ∀ (gs : List Nat) (c : List Bool),
    c ∈ colsGo gs none (some s) ↔ c.length = gs.length ∧ ∃ f, firstCol true gs c = some f ∧ f < s := by
  intro gs
  induction gs with
  | nil =>
    intro c
    cases c <;> simp [colsGo, firstCol]
  | cons g gs ih =>
    intro c
    obtain ⟨hm2, _, _⟩ := cols_both gs g s
    cases c with
    | nil => by_cases hg : g < s <;> simp [colsGo, firstCol, hg]
    | cons b c =>
      cases b
      · by_cases hg : g < s <;> simp [colsGo, firstCol, hg, ih]
      · by_cases hg : g < s <;> simp [colsGo, firstCol, hg, hm2]

/-- Whatever the order of the representatives, the enumerated colourings are
    those with both colours in which the first `true` element is smaller than
    the first `false` element. -/
theorem cols_none_any (gs : List Nat) (c : List Bool) :
    c ∈ colsGo gs none none ↔ c.length = gs.length ∧
      ∃ f s, firstCol true gs c = some f ∧ firstCol false gs c = some s ∧ f < s := by
  cases gs with
  | nil => cases c <;> simp [colsGo, firstCol]
  | cons g gs =>
    cases c with
    | nil => simp [colsGo, firstCol]
    | cons b c =>
      cases b
      · simp [colsGo, firstCol, cols_second_any]
      · simp [colsGo, firstCol, cols_first_any]

theorem nodup_if_true_false {A B : List (List Bool)} (hA : A.Nodup) (hB : B.Nodup) (p q : Prop)
    [Decidable p] [Decidable q] :
    ((if p then A.map (true :: ·) else []) ++ (if q then B.map (false :: ·) else [])).Nodup := by
  by_cases hp : p <;> by_cases hq : q <;> simp only [hp, hq, if_true, if_false, List.append_nil,
    List.nil_append]
  · exact nodup_true_false hA hB
  · exact nodup_cons_map _ hA
  · exact nodup_cons_map _ hB
  · exact List.nodup_nil

theorem cols_nodup : ∀ (gs : List Nat) (f s : Option Nat), (colsGo gs f s).Nodup := by
  intro gs
  induction gs with
  | nil => intro f s; cases f <;> cases s <;> simp [colsGo]
  | cons g gs ih =>
    intro f s
    cases f with
    | none =>
      cases s with
      | none => simp only [colsGo]; exact nodup_true_false (ih _ _) (ih _ _)
      | some s =>
        have := nodup_if_true_false (ih (some g) (some s)) (ih none (some s)) (g < s) True
        simpa only [colsGo, if_true] using this
    | some f =>
      cases s with
      | none =>
        have := nodup_if_true_false (ih (some f) none) (ih (some f) (some g)) True (g > f)
        simpa only [colsGo, if_true] using this
      | some s => simp only [colsGo]; exact nodup_true_false (ih _ _) (ih _ _)

/-- Counting: with `x` not among `gs`, the colourings that start with `x` as
    `first` and those that start with `x` as `second` number `2^|gs| - 1`. -/
theorem cols_count (x : Nat) : ∀ (gs : List Nat), x ∉ gs →
    (colsGo gs (some x) none).length + (colsGo gs none (some x)).length + 1 = 2 ^ gs.length := by
  intro gs
  induction gs with
  | nil => intro _; simp [colsGo]
  | cons g gs ih =>
    intro hx
    have hne : g ≠ x := fun h => hx (by simp [h])
    have ih' := ih (fun h => hx (by simp [h]))
    have h1 := (cols_both gs x g).2.2
    have h2 := (cols_both gs g x).2.2
    have hp : 2 ^ (g :: gs).length = 2 * 2 ^ gs.length := by simp [Nat.pow_succ, Nat.mul_comm]
    rw [hp]
    by_cases hlt : g < x
    · have hgt : ¬ g > x := by omega
      simp only [colsGo, hlt, hgt, if_true, if_false, List.length_append, List.length_map,
        List.append_nil, h2]
      omega
    · have hgt : g > x := by omega
      simp only [colsGo, hlt, hgt, if_true, if_false, List.length_append, List.length_map,
        List.nil_append, h1]
      omega

theorem cols_none_length (gs : List Nat) (hn : gs.Nodup) :
    (colsGo gs none none).length = 2 ^ (gs.length - 1) - 1 := by
  cases gs with
  | nil => simp [colsGo]
  | cons g gs =>
    have := cols_count g gs (List.nodup_cons.mp hn).1
    simp only [colsGo, List.length_append, List.length_map, List.length_cons, Nat.add_sub_cancel]
    omega

/-! ### `firstCol` of a colouring function -/

theorem firstCol_map_some (κ : Nat → Bool) (b : Bool) : ∀ (gs : List Nat) (g : Nat),
    firstCol b gs (gs.map κ) = some g → g ∈ gs ∧ κ g = b := by
  intro gs
  induction gs with
  | nil => intro g h; simp [firstCol] at h
  | cons g0 gs ih =>
    intro g h
    simp only [List.map_cons, firstCol] at h
    by_cases hk : κ g0 = b
    · simp only [hk, if_true, Option.some.injEq] at h
      subst h; exact ⟨by simp, hk⟩
    · simp only [hk, if_false] at h
      obtain ⟨h1, h2⟩ := ih g h
      exact ⟨by simp [h1], h2⟩

theorem firstCol_map_exists (κ : Nat → Bool) (b : Bool) : ∀ (gs : List Nat) (g : Nat),
    g ∈ gs → κ g = b → ∃ g', firstCol b gs (gs.map κ) = some g' := by
  intro gs
  induction gs with
  | nil => intro g h; cases h
  | cons g0 gs ih =>
    intro g hg hk
    simp only [List.map_cons, firstCol]
    by_cases hk0 : κ g0 = b
    · exact ⟨g0, by simp [hk0]⟩
    · simp only [hk0, if_false]
      rcases List.mem_cons.mp hg with rfl | hg'
      · exact absurd hk hk0
      · exact ih g hg' hk

theorem firstCol_map_not (κ : Nat → Bool) (b : Bool) : ∀ (gs : List Nat),
    firstCol b gs (gs.map (fun g => !κ g)) = firstCol (!b) gs (gs.map κ) := by
  intro gs
  induction gs with
  | nil => simp [firstCol]
  | cons g0 gs ih =>
    simp only [List.map_cons, firstCol, ih]
    cases κ g0 <;> cases b <;> simp

/-! ### Gluing along a colouring function, for any listing of the roots -/

/-- `gs` lists the roots of `d`, each once, in any order. -/
structure Listing (d : DS) (gs : List Nat) : Prop where
  nodup : gs.Nodup
  mem : ∀ r, r ∈ gs ↔ r ∈ roots d

theorem Listing.length {d : DS} {gs : List Nat} (h : Listing d gs) : gs.length = d.nroots := by
  rw [← roots_length d]
  exact ((List.perm_ext_iff_of_nodup h.nodup (roots_nodup d)).mpr h.mem).length_eq

theorem listing_roots (d : DS) : Listing d (roots d) := ⟨roots_nodup d, fun _ => Iff.rfl⟩

theorem glue_kernel_any {n : Nat} {d : DS} {ps : List (Nat × Nat)} (hI : Inv n d ps)
    {gs : List Nat} (hL : Listing d gs) (κ : Nat → Bool) :
    (∀ x y, Conn (ps ++ glue gs (gs.map κ) none none) x y → κ (rep d x) = κ (rep d y)) ∧
    (∀ x y, x < n → y < n → κ (rep d x) = κ (rep d y) →
        Conn (ps ++ glue gs (gs.map κ) none none) x y) := by
  have hW := hI.wf
  constructor
  · intro x y h
    induction h with
    | @base u v hm =>
      rcases List.mem_append.mp hm with hm | hm
      · have : Same d u v := (hI.same u v).mpr (Conn.base hm)
        rw [(same_iff_rep hW u v).mp this]
      · obtain ⟨h1, h2, h3⟩ := glue_mem κ gs none none (fun f hf => by cases hf)
          (fun s hs => by cases hs) u v hm
        have hu : u ∈ gs := by
          rcases h2 with h2 | h2 | h2
          · exact h2
          · cases h2
          · cases h2
        rw [rep_of_mem_roots hW ((hL.mem u).mp hu), rep_of_mem_roots hW ((hL.mem v).mp h3)]; exact h1
    | refl a => rfl
    | symm _ ih => exact ih.symm
    | trans _ _ ih1 ih2 => exact ih1.trans ih2
  · intro x y hx hy hk
    have hl : ∀ p, p ∈ ps → p ∈ ps ++ glue gs (gs.map κ) none none :=
      fun p hp => List.mem_append.mpr (Or.inl hp)
    have hr : ∀ p, p ∈ glue gs (gs.map κ) none none → p ∈ ps ++ glue gs (gs.map κ) none none :=
      fun p hp => List.mem_append.mpr (Or.inr hp)
    have hxr : Conn ps x (rep d x) := (hI.same _ _).mp (same_rep hW x)
    have hyr : Conn ps y (rep d y) := (hI.same _ _).mp (same_rep hW y)
    have hxm := (hL.mem _).mpr (rep_mem_roots hW (hI.size ▸ hx : x < d.size))
    have hym := (hL.mem _).mpr (rep_mem_roots hW (hI.size ▸ hy : y < d.size))
    have hmid : Conn (glue gs (gs.map κ) none none) (rep d x) (rep d y) := by
      cases hkx : κ (rep d x) with
      | true =>
        have h1 := glue_conn_true κ gs none none _ hxm hkx
        have h2 := glue_conn_true κ gs none none _ hym (hk ▸ hkx)
        exact h1.symm.trans h2
      | false =>
        have h1 := glue_conn_false κ gs none none _ hxm hkx
        have h2 := glue_conn_false κ gs none none _ hym (hk ▸ hkx)
        exact h1.symm.trans h2
    exact ((hxr.mono hl).trans (hmid.mono hr)).trans (hyr.mono hl).symm

/-- The structure built for the colouring function `κ` along the listing `gs`. -/
def colourG (d : DS) (gs : List Nat) (κ : Nat → Bool) : DS :=
  applyCol gs (gs.map κ) d.allReps.1 none none

theorem colourG_spec {n : Nat} {d : DS} {ps : List (Nat × Nat)} (hI : Inv n d ps)
    {gs : List Nat} (hL : Listing d gs) (κ : Nat → Bool) :
    WF (colourG d gs κ) ∧ (colourG d gs κ).size = n ∧
    (∀ x y, x < n → y < n → (Same (colourG d gs κ) x y ↔ κ (rep d x) = κ (rep d y))) ∧
    (∀ x y, Same d x y → Same (colourG d gs κ) x y) := by
  obtain ⟨hP, hW', _⟩ := sortedReps_eq hI.wf
  have hI' : Inv n d.allReps.1 ps :=
    ⟨hW', hP.size.trans hI.size, fun x y => (hP.same x y).trans (hI.same x y)⟩
  have hroots : ∀ g, g ∈ gs → g < n := fun g hg => hI.size ▸ (mem_roots.mp ((hL.mem g).mp hg)).1
  have hIc := applyCol_inv gs (gs.map κ) _ ps none none hI' hroots
    (fun f hf => by cases hf) (fun s hs => by cases hs)
  obtain ⟨hk1, hk2⟩ := glue_kernel_any hI hL κ
  refine ⟨hIc.wf, hIc.size, ?_, ?_⟩
  · intro x y hx hy
    exact ⟨fun h => hk1 x y ((hIc.same x y).mp h), fun h => (hIc.same x y).mpr (hk2 x y hx hy h)⟩
  · intro x y h
    exact (hIc.same x y).mpr (((hI.same x y).mp h).mono (fun p hp => List.mem_append.mpr (Or.inl hp)))

/-- The colouring function of a list of choices along `gs`. -/
def colFunG (gs : List Nat) (c : List Bool) : Nat → Bool := fun g => c.getD (gs.idxOf g) false

theorem map_colFunG {gs : List Nat} (hn : gs.Nodup) (c : List Bool) (hc : c.length = gs.length) :
    gs.map (colFunG gs c) = c := by
  apply List.ext_getElem (by simp [hc])
  intro i h1 h2
  simp only [List.getElem_map, colFunG]
  rw [hn.idxOf_getElem i (by simpa using h1)]
  simp [List.getD_eq_getElem?_getD, h2]

/-- An equivalence with exactly two classes (those of `u` and `v`) is
    determined by membership in the class of `u`. -/
theorem two_class_iff {n : Nat} {R : Nat → Nat → Prop}
    (hsymm : ∀ x y, x < n → y < n → R x y → R y x)
    (htrans : ∀ x y z, x < n → y < n → z < n → R x y → R y z → R x z)
    {u v : Nat} (hu : u < n) (hv : v < n) (hall : ∀ x, x < n → R x u ∨ R x v)
    {x y : Nat} (hx : x < n) (hy : y < n) : R x y ↔ (R x u ↔ R y u) := by
  constructor
  · intro hxy
    exact ⟨fun h => htrans y x u hy hx hu (hsymm x y hx hy hxy) h, fun h => htrans x y u hx hy hu hxy h⟩
  · intro hiff
    rcases hall x hx with h | h
    · exact htrans x u y hx hu hy h (hsymm y u hy hu (hiff.mp h))
    · rcases hall y hy with h' | h'
      · exact htrans x u y hx hu hy (hiff.mpr h') (hsymm y u hy hu h')
      · exact htrans x v y hx hv hy h (hsymm y v hy hv h')

/-! ### `binary()` along any listing returns every two-block coarsening exactly once -/

/-- `_binary(partition, groups = gs, None, None)` after the finds of `binary()`. -/
def binaryOrd (d : DS) (gs : List Nat) : List DS := binGo gs d.allReps.1 none none

theorem binary_eq_binaryOrd (d : DS) : d.binary = binaryOrd d d.sortedReps.2 := rfl

theorem binaryOrd_eq {d : DS} {gs : List Nat} (hL : Listing d gs) :
    binaryOrd d gs = (colsGo gs none none).map (fun c => colourG d gs (colFunG gs c)) := by
  rw [binaryOrd, binGo_eq]
  apply List.map_congr_left
  intro c hc
  have hlen := ((cols_none_any gs c).mp hc).1
  simp only [colourG, map_colFunG hL.nodup c hlen]

open Classical in
theorem binaryOrd_main {n : Nat} {d : DS} {ps : List (Nat × Nat)} (hI : Inv n d ps)
    {gs : List Nat} (hL : Listing d gs) :
    (∀ b, b ∈ binaryOrd d gs → WF b ∧ b.size = n ∧ (∀ x y, Same d x y → Same b x y) ∧
      ∃ u v, u < n ∧ v < n ∧ ¬ Same b u v ∧ ∀ x, x < n → Same b x u ∨ Same b x v) ∧
    (binaryOrd d gs).Pairwise (fun b b' => ∃ x y, x < n ∧ y < n ∧ ¬ (Same b x y ↔ Same b' x y)) ∧
    (∀ R : Nat → Nat → Prop, (∀ x, x < n → R x x) → (∀ x y, x < n → y < n → R x y → R y x) →
      (∀ x y z, x < n → y < n → z < n → R x y → R y z → R x z) →
      (∀ x y, x < n → y < n → Same d x y → R x y) →
      (∃ u v, u < n ∧ v < n ∧ ¬ R u v ∧ ∀ x, x < n → R x u ∨ R x v) →
      ∃ b, b ∈ binaryOrd d gs ∧ ∀ x y, x < n → y < n → (Same b x y ↔ R x y)) ∧
    (binaryOrd d gs).length = 2 ^ (d.nroots - 1) - 1 := by
  have hW := hI.wf
  rw [binaryOrd_eq hL]
  have hgn : ∀ g, g ∈ gs → g < n := fun g hg => hI.size ▸ (mem_roots.mp ((hL.mem g).mp hg)).1
  have hrepg : ∀ g, g ∈ gs → rep d g = g := fun g hg => rep_of_mem_roots hW ((hL.mem g).mp hg)
  -- facts about an enumerated colouring
  have hcol : ∀ c, c ∈ colsGo gs none none → gs.map (colFunG gs c) = c ∧
      ∃ f s, firstCol true gs c = some f ∧ firstCol false gs c = some s ∧ f < s ∧
        f ∈ gs ∧ s ∈ gs ∧ colFunG gs c f = true ∧ colFunG gs c s = false := by
    intro c hc
    obtain ⟨hlen, f, s, hf, hs, hfs⟩ := (cols_none_any gs c).mp hc
    have hmap := map_colFunG hL.nodup c hlen
    obtain ⟨hf1, hf2⟩ := firstCol_map_some (colFunG gs c) true gs f (by rw [hmap]; exact hf)
    obtain ⟨hs1, hs2⟩ := firstCol_map_some (colFunG gs c) false gs s (by rw [hmap]; exact hs)
    exact ⟨hmap, f, s, hf, hs, hfs, hf1, hs1, hf2, hs2⟩
  refine ⟨?_, ?_, ?_, ?_⟩
  · intro b hb
    obtain ⟨c, hc, rfl⟩ := List.mem_map.mp hb
    obtain ⟨_, f, s, _, _, _, hfm, hsm, hkf, hks⟩ := hcol c hc
    obtain ⟨h1, h2, h3, h4⟩ := colourG_spec hI hL (colFunG gs c)
    refine ⟨h1, h2, h4, f, s, hgn f hfm, hgn s hsm, ?_, ?_⟩
    · rw [h3 f s (hgn f hfm) (hgn s hsm), hrepg f hfm, hrepg s hsm, hkf, hks]
      intro h; cases h
    · intro x hx
      cases hk : colFunG gs c (rep d x) with
      | true => left; rw [h3 x f hx (hgn f hfm), hrepg f hfm, hk, hkf]
      | false => right; rw [h3 x s hx (hgn s hsm), hrepg s hsm, hk, hks]
  · rw [List.pairwise_map]
    refine List.Pairwise.imp_of_mem ?_ (cols_nodup gs none none)
    intro c c' hc hc' hne
    obtain ⟨hmap, f, s, hf, hs, hfs, hfm, hsm, hkf, hks⟩ := hcol c hc
    obtain ⟨hmap', f', s', hf', hs', hfs', _, _, _, _⟩ := hcol c' hc'
    obtain ⟨_, _, h3, _⟩ := colourG_spec hI hL (colFunG gs c)
    obtain ⟨_, _, h3', _⟩ := colourG_spec hI hL (colFunG gs c')
    apply Classical.byContradiction
    intro hcon
    have hsame : ∀ x y, x < n → y < n →
        (Same (colourG d gs (colFunG gs c)) x y ↔ Same (colourG d gs (colFunG gs c')) x y) := by
      intro x y hx hy
      apply Classical.byContradiction
      intro h; exact hcon ⟨x, y, hx, hy, h⟩
    -- on the listed roots both colourings have the same kernel
    have hker : ∀ x y, x ∈ gs → y ∈ gs →
        (colFunG gs c x = colFunG gs c y ↔ colFunG gs c' x = colFunG gs c' y) := by
      intro x y hx hy
      have := hsame x y (hgn x hx) (hgn y hy)
      rw [h3 x y (hgn x hx) (hgn y hy), h3' x y (hgn x hx) (hgn y hy), hrepg x hx, hrepg y hy] at this
      exact this
    cases hk' : colFunG gs c' f with
    | true =>
      -- the colourings agree
      apply hne
      rw [← hmap, ← hmap']
      apply List.map_congr_left
      intro x hx
      have := hker x f hx hfm
      rw [hkf, hk'] at this
      cases h1 : colFunG gs c x <;> cases h2 : colFunG gs c' x <;> simp_all
    | false =>
      -- the colourings are opposite, so the first elements are exchanged
      have hopp : gs.map (colFunG gs c') = gs.map (fun g => !colFunG gs c g) := by
        apply List.map_congr_left
        intro x hx
        have := hker x f hx hfm
        rw [hkf, hk'] at this
        cases h1 : colFunG gs c x <;> cases h2 : colFunG gs c' x <;> simp_all
      have e1 : firstCol true gs c' = firstCol false gs c := by
        rw [← hmap', hopp, firstCol_map_not, hmap]; rfl
      have e2 : firstCol false gs c' = firstCol true gs c := by
        rw [← hmap', hopp, firstCol_map_not, hmap]; rfl
      rw [e1, hs] at hf'
      rw [e2, hf] at hs'
      cases hf'; cases hs'
      omega
  · intro R hrefl hsymm htrans hco ⟨u, v, hu, hv, huv, hall⟩
    let κ0 : Nat → Bool := fun g => decide (R g u)
    have hrepn : ∀ x, x < n → rep d x < n := fun x hx =>
      hI.size ▸ rep_lt hW (hI.size ▸ hx : x < d.size)
    have hxr : ∀ x, x < n → R x (rep d x) := fun x hx =>
      hco x _ hx (hrepn x hx) (same_rep hW x)
    have hrx : ∀ z, z < n → (κ0 (rep d z) = true ↔ R z u) := by
      intro z hz
      simp only [κ0, decide_eq_true_eq]
      constructor
      · intro h; exact htrans z _ u hz (hrepn z hz) hu (hxr z hz) h
      · intro h
        exact htrans _ z u (hrepn z hz) hz hu (hsymm z _ hz (hrepn z hz) (hxr z hz)) h
    have hmemrep : ∀ x, x < n → rep d x ∈ gs := fun x hx =>
      (hL.mem _).mpr (rep_mem_roots hW (hI.size ▸ hx : x < d.size))
    have hku : κ0 (rep d u) = true := (hrx u hu).mpr (hrefl u hu)
    have hkv : κ0 (rep d v) = false := by
      cases h : κ0 (rep d v) with
      | false => rfl
      | true => exact absurd (hsymm v u hv hu ((hrx v hv).mp h)) huv
    obtain ⟨f, hf⟩ := firstCol_map_exists κ0 true gs _ (hmemrep u hu) hku
    obtain ⟨s, hs⟩ := firstCol_map_exists κ0 false gs _ (hmemrep v hv) hkv
    obtain ⟨_, hkf⟩ := firstCol_map_some κ0 true gs f hf
    obtain ⟨_, hks⟩ := firstCol_map_some κ0 false gs s hs
    have hfs : f ≠ s := fun h => by rw [h, hks] at hkf; cases hkf
    -- the kernel of κ0 (and of its negation) on representatives is R
    have hkerR : ∀ x y, x < n → y < n → ((κ0 (rep d x) = κ0 (rep d y)) ↔ R x y) := by
      intro x y hx hy
      rw [two_class_iff hsymm htrans hu hv hall hx hy, ← hrx x hx, ← hrx y hy]
      cases κ0 (rep d x) <;> cases κ0 (rep d y) <;> simp
    by_cases hlt : f < s
    · have hcin : gs.map κ0 ∈ colsGo gs none none :=
        (cols_none_any gs _).mpr ⟨by simp, f, s, hf, hs, hlt⟩
      have hcc : colourG d gs (colFunG gs (gs.map κ0)) = colourG d gs κ0 := by
        simp only [colourG, map_colFunG hL.nodup _ (List.length_map _)]
      refine ⟨colourG d gs κ0, List.mem_map.mpr ⟨gs.map κ0, hcin, hcc⟩, ?_⟩
      intro x y hx hy
      rw [(colourG_spec hI hL κ0).2.2.1 x y hx hy]
      exact hkerR x y hx hy
    · have hgt : s < f := by omega
      let κ1 : Nat → Bool := fun g => !κ0 g
      have hf1 : firstCol true gs (gs.map κ1) = some s := by
        rw [firstCol_map_not κ0 true gs]; exact hs
      have hs1 : firstCol false gs (gs.map κ1) = some f := by
        rw [firstCol_map_not κ0 false gs]; exact hf
      have hcin : gs.map κ1 ∈ colsGo gs none none :=
        (cols_none_any gs _).mpr ⟨by simp, s, f, hf1, hs1, hgt⟩
      have hcc : colourG d gs (colFunG gs (gs.map κ1)) = colourG d gs κ1 := by
        simp only [colourG, map_colFunG hL.nodup _ (List.length_map _)]
      refine ⟨colourG d gs κ1, List.mem_map.mpr ⟨gs.map κ1, hcin, hcc⟩, ?_⟩
      intro x y hx hy
      rw [(colourG_spec hI hL κ1).2.2.1 x y hx hy, ← hkerR x y hx hy]
      simp only [κ1]
      cases κ0 (rep d x) <;> cases κ0 (rep d y) <;> simp
  · rw [List.length_map, cols_none_length gs hL.nodup, hL.length]

/-! ### The listing in terms of the finds performed by `binary()` -/

/-- The set `{find(i) | i < n}` computed by `binary()` is the set of roots. -/
theorem mem_allReps {d : DS} (hd : WF d) (r : Nat) : r ∈ d.allReps.2 ↔ r ∈ roots d := by
  obtain ⟨_, _, hres⟩ := allReps_fold hd d.size (Nat.le_refl _)
  have : d.allReps.2 = (List.range d.size).map (rep d) := hres
  rw [this, List.mem_map]
  constructor
  · rintro ⟨i, hi, rfl⟩
    exact rep_mem_roots hd (List.mem_range.mp hi)
  · intro h
    exact ⟨r, List.mem_range.mpr (mem_roots.mp h).1, rep_of_mem_roots hd h⟩

theorem listing_of_allReps {d : DS} (hd : WF d) {gs : List Nat} (hn : gs.Nodup)
    (hm : ∀ r, r ∈ gs ↔ r ∈ d.allReps.2) : Listing d gs :=
  ⟨hn, fun r => (hm r).trans (mem_allReps hd r)⟩

/-- The model's increasing order is one such listing. -/
theorem sortedReps_listing {d : DS} (hd : WF d) :
    d.sortedReps.2.Nodup ∧ ∀ r, r ∈ d.sortedReps.2 ↔ r ∈ d.allReps.2 := by
  rw [(sortedReps_eq hd).2.2]
  exact ⟨roots_nodup d, fun r => (mem_allReps hd r).symm⟩

end SR.DS
