/-
  C11 (Newick codec) — what the reader does with ONE node as the writer wrote it:
  the regular expression finds the whole name (lazy group), the `color` comment is
  parsed into the feature, and nothing else is set.
-/
import SRVerif.Proofs.NewickScan

namespace SR.Newick

open SR.Ser (NT Err)

/-! ### White space at the ends -/

theorem lstrip_cons_nonspace (x : Char) (m : Chars) (hx : isSpace x = false) :
    lstrip (x :: m) = x :: m := by
  simp [lstrip, List.dropWhile, hx]

theorem rstrip_snoc_nonspace (m : Chars) (z : Char) (hz : isSpace z = false) :
    rstrip (m ++ [z]) = m ++ [z] := by
  simp [rstrip, hz]

theorem strip_self (s : Chars) (h1 : ∃ x m, s = x :: m ∧ isSpace x = false)
    (h2 : ∃ m z, s = m ++ [z] ∧ isSpace z = false) : strip s = s := by
  obtain ⟨x, m, hs, hx⟩ := h1
  obtain ⟨m', z, hs', hz⟩ := h2
  unfold strip
  rw [hs, lstrip_cons_nonspace x m hx, ← hs, hs', rstrip_snoc_nonspace m' z hz]

theorem rstripSemi_snoc (m : Chars) (z : Char) (hz : z ≠ ';') : rstripSemi (m ++ [z]) = m ++ [z] := by
  simp [rstripSemi, hz]

theorem rstripSemi_semi (s : Chars) : rstripSemi (s ++ [';']) = rstripSemi s := by
  simp [rstripSemi]

/-! ### Safe names as character lists -/

theorem sanitize_safe (s : Chars) (h : safeChars s = true) : sanitize s = s := by
  induction s with
  | nil => rfl
  | cons c cs ih =>
    simp only [safeChars, List.all_cons, Bool.and_eq_true, Bool.not_eq_true'] at h
    have hcs : safeChars cs = true := by simpa [safeChars] using h.2
    simp only [sanitize, List.map_cons, h.1, Bool.false_eq_true, if_false]
    congr 1
    exact ih hcs

theorem safeChars_mem {s : Chars} (h : safeChars s = true) {c : Char} (hc : c ∈ s) :
    illegal c = false := by
  simp only [safeChars, List.all_eq_true, Bool.not_eq_true'] at h
  exact h c hc

theorem edgeOk_start {s : Chars} (h : edgeOk s = true) : ∃ x m, s = x :: m ∧ isSpace x = false := by
  cases s with
  | nil => simp [edgeOk] at h
  | cons x m =>
    refine ⟨x, m, rfl, ?_⟩
    unfold edgeOk at h
    simp only [List.head?_cons] at h
    split at h
    · rename_i a z h1 h2
      simp only [Option.some.injEq] at h1
      subst h1
      simp only [Bool.and_eq_true, Bool.not_eq_true'] at h
      exact h.1
    · simp at h

theorem edgeOk_end {s : Chars} (h : edgeOk s = true) : ∃ m z, s = m ++ [z] ∧ isSpace z = false := by
  cases hs : s.getLast? with
  | none => simp [edgeOk, hs] at h
  | some z =>
    obtain ⟨m, hm⟩ := List.getLast?_eq_some_iff.1 hs
    refine ⟨m, z, hm, ?_⟩
    unfold edgeOk at h
    rw [hs] at h
    split at h
    · rename_i a z' h1 h2
      simp only [Option.some.injEq] at h2
      subst h2
      simp only [Bool.and_eq_true, Bool.not_eq_true'] at h
      exact h.2
    · simp at h

/-- The characters after the name: nothing, or the `color` comment. -/
def featL : Option Chars → Chars
  | none => []
  | some v => nhxOpen ++ colorEq ++ v ++ [']']

/-- The third group of the match. -/
def nhxGroup : Option Chars → Option Chars
  | none => none
  | some v => some (nhxOpen ++ (colorEq ++ v) ++ [']'])

theorem illegal_false {c : Char} (h : illegal c = false) :
    c ≠ ':' ∧ c ≠ ';' ∧ c ≠ '(' ∧ c ≠ ')' ∧ c ≠ ',' ∧ c ≠ '[' ∧ c ≠ ']' ∧ c ≠ '\t' ∧ c ≠ '\n'
      ∧ c ≠ '\r' ∧ c ≠ '=' := by
  simp only [illegal, Bool.or_eq_false_iff, beq_eq_false_iff_ne, ne_eq] at h
  obtain ⟨⟨⟨⟨⟨⟨⟨⟨⟨⟨h1, h2⟩, h3⟩, h4⟩, h5⟩, h6⟩, h7⟩, h8⟩, h9⟩, h10⟩, h11⟩ := h
  exact ⟨h1, h2, h3, h4, h5, h6, h7, h8, h9, h10, h11⟩

/-! ### `matchRest` -/

theorem matchNhx_nil : matchNhx [] = some none := rfl

theorem takeWhile_append_stop (v rest : Chars) (d : Char) (hv : ∀ c ∈ v, c ≠ d) :
    (v ++ d :: rest).takeWhile (· != d) = v := by
  induction v with
  | nil => simp
  | cons c cs ih =>
    have hc : (c != d) = true := by simpa using hv c (by simp)
    simp [hc, ih (fun x hx => hv x (by simp [hx]))]

theorem dropWhile_append_stop (v rest : Chars) (d : Char) (hv : ∀ c ∈ v, c ≠ d) :
    (v ++ d :: rest).dropWhile (· != d) = d :: rest := by
  induction v with
  | nil => simp
  | cons c cs ih =>
    have hc : (c != d) = true := by simpa using hv c (by simp)
    simp [hc, ih (fun x hx => hv x (by simp [hx]))]

theorem colorEq_mem {c : Char} (h : c ∈ colorEq) : c ≠ ']' ∧ c ≠ '[' ∧ c ≠ ':' := by
  simp only [colorEq, List.mem_cons, List.not_mem_nil, or_false] at h
  rcases h with rfl | rfl | rfl | rfl | rfl | rfl <;> decide

theorem matchNhx_feat (v : Chars) (hv : safeChars v = true) :
    matchNhx (featL (some v)) = some (nhxGroup (some v)) := by
  have hb : ∀ c ∈ colorEq ++ v, c ≠ ']' := by
    intro c hc
    rcases List.mem_append.1 hc with h | h
    · exact (colorEq_mem h).1
    · exact (illegal_false (safeChars_mem hv h)).2.2.2.2.2.2.1
  have e : featL (some v) = '[' :: ('&' :: '&' :: 'N' :: 'H' :: 'X' :: ':' :: ((colorEq ++ v) ++ ']' :: [])) := by
    simp [featL, nhxOpen]
  rw [e]
  unfold matchNhx
  have hp : nhxOpen.isPrefixOf ('[' :: ('&' :: '&' :: 'N' :: 'H' :: 'X' :: ':' :: ((colorEq ++ v) ++ ']' :: []))) = true := by
    simp [nhxOpen, List.isPrefixOf]
  have hd : ('[' :: ('&' :: '&' :: 'N' :: 'H' :: 'X' :: ':' :: ((colorEq ++ v) ++ ']' :: []))).drop nhxOpen.length
      = (colorEq ++ v) ++ ']' :: [] := by
    simp [nhxOpen]
  simp only [hp, if_true, hd, takeWhile_append_stop _ _ _ hb, dropWhile_append_stop _ _ _ hb]
  simp [lstrip, nhxGroup]

theorem matchRest_feat (c : Option Chars) (hc : ∀ v, c = some v → safeChars v = true) :
    matchRest (featL c) = some (none, nhxGroup c) := by
  cases c with
  | none => simp [featL, matchRest, lstrip, matchNhx_nil, nhxGroup]
  | some v =>
    have hv := hc v rfl
    have hm := matchNhx_feat v hv
    have hl : lstrip (featL (some v)) = featL (some v) := by
      simp [featL, nhxOpen, lstrip, isSpace]
    unfold matchRest
    rw [hl]
    split
    · rename_i r' h
      simp [featL, nhxOpen] at h
    · rw [hm]; rfl

/-- After a non-empty part of the name that ends in a non-space character,
    the rest of the expression cannot match: the name goes on. -/
theorem matchRest_block (m : Chars) (z : Char) (f : Chars) (hm : safeChars (m ++ [z]) = true)
    (hz : isSpace z = false) : matchRest (m ++ [z] ++ f) = none := by
  have key : ∃ x r, lstrip (m ++ [z] ++ f) = x :: r ∧ illegal x = false := by
    induction m with
    | nil =>
      refine ⟨z, f, ?_, safeChars_mem hm (by simp)⟩
      simp [lstrip, hz]
    | cons a m' ih =>
      have hm' : safeChars (m' ++ [z]) = true := by
        simp only [safeChars, List.cons_append, List.all_cons, Bool.and_eq_true] at hm
        simpa [safeChars] using hm.2
      by_cases ha : isSpace a = true
      · obtain ⟨x, r, h1, h2⟩ := ih hm'
        refine ⟨x, r, ?_, h2⟩
        simpa [lstrip, ha] using h1
      · refine ⟨a, m' ++ [z] ++ f, ?_, safeChars_mem hm (by simp)⟩
        simp [lstrip, ha]
  obtain ⟨x, r, h1, h2⟩ := key
  have hx := illegal_false h2
  unfold matchRest
  rw [h1]
  split
  · rename_i r' h
    simp only [List.cons.injEq] at h
    exact absurd h.1 hx.1
  · have : matchNhx (x :: r) = none := by
      unfold matchNhx
      have hb : ('[' == x) = false := by simpa using Ne.symm hx.2.2.2.2.2.1
      have : nhxOpen.isPrefixOf (x :: r) = false := by
        simp only [nhxOpen, List.isPrefixOf, hb, Bool.false_and]
      simp [this]
    rw [this]; rfl

/-! ### The lazy name -/

theorem nameChar_of_legal {c : Char} (h : illegal c = false) : nameChar c = true := by
  have := illegal_false h
  simp [nameChar, this.1, this.2.1, this.2.2.1, this.2.2.2.1, this.2.2.2.2.1]

theorem matchName_atom (m : Chars) (z : Char) (c : Option Chars) (pre : Chars)
    (hm : safeChars (m ++ [z]) = true) (hz : isSpace z = false)
    (hc : ∀ v, c = some v → safeChars v = true) :
    matchName pre (m ++ [z] ++ featL c)
      = some { name := some (pre.reverse ++ (m ++ [z])), dist := none, nhx := nhxGroup c } := by
  induction m generalizing pre with
  | nil =>
    have hzl : illegal z = false := safeChars_mem hm (by simp)
    simp only [List.nil_append, List.cons_append, matchName, nameChar_of_legal hzl, if_true,
      matchRest_feat c hc]
    simp
  | cons a m' ih =>
    have hal : illegal a = false := safeChars_mem hm (by simp)
    have hm' : safeChars (m' ++ [z]) = true := by
      simp only [safeChars, List.cons_append, List.all_cons, Bool.and_eq_true] at hm
      simpa [safeChars] using hm.2
    simp only [List.cons_append, matchName, nameChar_of_legal hal, if_true]
    have hb := matchRest_block m' z (featL c) hm' hz
    rw [hb]
    have := ih (a :: pre) hm'
    simp only [List.append_assoc, List.cons_append, List.nil_append, List.reverse_cons] at this ⊢
    exact this

theorem matchNode_atom (leaf : Bool) (nm : Chars) (c : Option Chars)
    (hs : safeChars nm = true) (he : edgeOk nm = true)
    (hc : ∀ v, c = some v → safeChars v = true) :
    matchNode leaf (nm ++ featL c) = some { name := some nm, dist := none, nhx := nhxGroup c } := by
  obtain ⟨m, z, rfl, hz⟩ := edgeOk_end he
  unfold matchNode
  rw [matchName_atom m z c [] hs hz hc]
  simp

/-! ### The NHX comment -/

theorem removeOpen_noBracket (s : Chars) (h : ∀ c ∈ s, c ≠ '[') : removeOpen 0 s = s := by
  induction s with
  | nil => rfl
  | cons c cs ih =>
    have hc : c ≠ '[' := h c (by simp)
    have hb : ('[' == c) = false := by simpa using Ne.symm hc
    have : nhxOpen.isPrefixOf (c :: cs) = false := by
      simp only [nhxOpen, List.isPrefixOf, hb, Bool.false_and]
    simp only [removeOpen, this, Bool.false_eq_true, if_false]
    rw [ih (fun x hx => h x (by simp [hx]))]

/-- What `add_feature("color", v)` does to the frame. -/
def lab (n : String) (c : Option String) (f : Frame) : Frame :=
  { f with name := n,
           feats := match c with
             | some v => SR.Ser.Dict.set f.feats "color" v
             | none => f.feats }

theorem filter_close (v : Chars) (hv : ∀ c ∈ v, c ≠ ']') :
    (v ++ [']']).filter (· != ']') = v := by
  induction v with
  | nil => simp
  | cons c cs ih =>
    have hc : (c != ']') = true := by simpa using hv c (by simp)
    simp only [List.cons_append, List.filter_cons, hc, if_true]
    rw [ih (fun x hx => hv x (by simp [hx]))]

theorem parseExtra_color (f : Frame) (v : Chars) (hv : safeChars v = true) :
    parseExtra (some f) (nhxOpen ++ (colorEq ++ v) ++ [']'])
      = .ok (some { f with feats := SR.Ser.Dict.set f.feats "color" (String.ofList v) }) := by
  have hl : ∀ c ∈ v, _ := fun c hc => illegal_false (safeChars_mem hv hc)
  have h1 : removeOpen 0 (nhxOpen ++ (colorEq ++ v) ++ [']']) = colorEq ++ v ++ [']'] := by
    have : removeOpen 0 (colorEq ++ v ++ [']']) = colorEq ++ v ++ [']'] := by
      apply removeOpen_noBracket
      intro c hc
      simp only [List.mem_append, List.mem_singleton] at hc
      rcases hc with (h | h) | rfl
      · exact (colorEq_mem h).2.1
      · exact (hl c h).2.2.2.2.2.1
      · decide
    simpa [nhxOpen, removeOpen, List.isPrefixOf] using this
  have h2 : (colorEq ++ v ++ [']']).filter (· != ']') = colorEq ++ v := by
    apply filter_close
    intro c hc
    rcases List.mem_append.1 hc with h | h
    · exact (colorEq_mem h).1
    · exact (hl c h).2.2.2.2.2.2.1
  have h3 : splitOn ':' (colorEq ++ v) = [colorEq ++ v] := by
    unfold splitOn
    rw [splitAux_none]
    · simp
    · intro c hc
      rcases List.mem_append.1 hc with h | h
      · exact (colorEq_mem h).2.2
      · exact (hl c h).1
  have h4 : splitOn '=' (colorEq ++ v) = [['c', 'o', 'l', 'o', 'r'], v] := by
    unfold splitOn
    have : colorEq ++ v = ['c', 'o', 'l', 'o', 'r'] ++ '=' :: v := rfl
    rw [this, splitAux_sep, splitAux_none _ v [] (fun c hc => (hl c hc).2.2.2.2.2.2.2.2.2.2)]
    simp [splitAux]
  unfold parseExtra
  simp only [h1, h2, h3, List.foldlM_cons, List.foldlM_nil, h4, setAttr]
  rfl

theorem parseExtra_color' (f : Frame) (v : Chars) (hv : safeChars v = true) :
    parseExtra (some f) (nhxOpen ++ (colorEq ++ (v ++ [']'])))
      = .ok (some { f with feats := SR.Ser.Dict.set f.feats "color" (String.ofList v) }) := by
  simpa using parseExtra_color f v hv

/-! ### `_read_node_data` on a written node -/

theorem nameOut_safe (n : String) (h : safeName n = true) : nameOut n = n.toList := by
  simp only [safeName, Bool.and_eq_true] at h
  obtain ⟨x, m, hx, _⟩ := edgeOk_start h.2
  unfold nameOut
  simp only [sanitize_safe _ h.1]
  simp [hx]

theorem featOut_safe (c : Option String) (h : ∀ v, c = some v → safeValue v = true) :
    featOut c = featL (c.map String.toList) := by
  cases c with
  | none => rfl
  | some v =>
    have := h v rfl
    simp only [safeValue] at this
    simp [featOut, featL, sanitize_safe _ this]

/-- The hypotheses on one node. -/
def SafeNode (n : String) (c : Option String) : Prop :=
  safeName n = true ∧ ∀ v, c = some v → safeValue v = true

theorem atom_eq {n : String} {c : Option String} (h : SafeNode n c) :
    atom n c = n.toList ++ featL (c.map String.toList) := by
  unfold atom
  rw [nameOut_safe n h.1, featOut_safe c h.2]

theorem applyGroups_atom {n : String} {c : Option String} (h : SafeNode n c) (f : Frame) :
    applyGroups { name := some n.toList, dist := none, nhx := nhxGroup (c.map String.toList) } (some f)
      = .ok (some (lab n c f)) := by
  have hn := h.1
  simp only [safeName, Bool.and_eq_true] at hn
  obtain ⟨x, m, hx, hxs⟩ := edgeOk_start hn.2
  have hstrip : strip n.toList = n.toList := strip_self _ (edgeOk_start hn.2) (edgeOk_end hn.2)
  have hne : n.toList.isEmpty = false := by simp [hx]
  cases c with
  | none =>
    simp [applyGroups, nhxGroup, hne, setAttr, hstrip, String.ofList_toList, lab, bind, Except.bind,
      pure, Except.pure]
  | some v =>
    have hv := h.2 v rfl
    simp only [safeValue] at hv
    simp [applyGroups, nhxGroup, hne, setAttr, hstrip, String.ofList_toList, lab, bind, Except.bind,
      pure, Except.pure, parseExtra_color' _ _ hv]

theorem atom_start {n : String} {c : Option String} (h : SafeNode n c) :
    ∃ x m, atom n c = x :: m ∧ isSpace x = false ∧ x ≠ '(' := by
  have hn := h.1
  simp only [safeName, Bool.and_eq_true] at hn
  obtain ⟨x, m, hx, hxs⟩ := edgeOk_start hn.2
  refine ⟨x, m ++ featL (c.map String.toList), ?_, hxs, ?_⟩
  · rw [atom_eq h, hx]; rfl
  · exact (illegal_false (safeChars_mem hn.1 (by rw [hx]; simp))).2.2.1

theorem atom_end {n : String} {c : Option String} (h : SafeNode n c) :
    ∃ m z, atom n c = m ++ [z] ∧ isSpace z = false ∧ z ≠ ';' := by
  have hn := h.1
  simp only [safeName, Bool.and_eq_true] at hn
  rw [atom_eq h]
  cases c with
  | none =>
    obtain ⟨m, z, hm, hz⟩ := edgeOk_end hn.2
    refine ⟨m, z, by simp [featL, hm], hz, ?_⟩
    exact (illegal_false (safeChars_mem hn.1 (by rw [hm]; simp))).2.1
  | some v =>
    refine ⟨n.toList ++ nhxOpen ++ colorEq ++ v.toList, ']', by simp [featL], by decide, by decide⟩

theorem strip_atom {n : String} {c : Option String} (h : SafeNode n c) : strip (atom n c) = atom n c := by
  obtain ⟨x, m, h1, h2, _⟩ := atom_start h
  obtain ⟨m', z, h3, h4, _⟩ := atom_end h
  exact strip_self _ ⟨x, m, h1, h2⟩ ⟨m', z, h3, h4⟩

theorem matchNode_atom' {n : String} {c : Option String} (h : SafeNode n c) (leaf : Bool) :
    matchNode leaf (atom n c)
      = some { name := some n.toList, dist := none, nhx := nhxGroup (c.map String.toList) } := by
  have hn := h.1
  simp only [safeName, Bool.and_eq_true] at hn
  rw [atom_eq h]
  apply matchNode_atom leaf _ _ hn.1 hn.2
  intro v hv
  cases c with
  | none => simp at hv
  | some w =>
    simp only [Option.map_some, Option.some.injEq] at hv
    subst hv
    exact h.2 w rfl

theorem readData_atom {n : String} {c : Option String} (h : SafeNode n c) (f : Frame) :
    readData (some f) (atom n c) = .ok (some (lab n c f)) := by
  obtain ⟨x, m, h1, _, _⟩ := atom_start h
  unfold readData
  simp only [strip_atom h, matchNode_atom' h]
  simp only [h1, List.isEmpty_cons, Bool.false_eq_true, if_false]
  exact applyGroups_atom h f

theorem readLeaf_atom {n : String} {c : Option String} (h : SafeNode n c) (f : Frame) (below : List Frame) :
    readLeaf (.opened f below) (atom n c) = .ok (.opened (f.addKid (lab n c {}).toRT) below) := by
  obtain ⟨x, m, h1, _, _⟩ := atom_start h
  unfold readLeaf
  simp only [St.cur, strip_atom h, matchNode_atom' h]
  simp only [h1, List.isEmpty_cons, Bool.false_eq_true, if_false]
  simp [applyGroups_atom h, bind, Except.bind, pure, Except.pure, St.setCur]

theorem readClosing_atom {n : String} {c : Option String} (h : SafeNode n c) (g : Frame) (below : List Frame) :
    readClosing (.opened g below) (atom n c) = (St.opened (lab n c g) below).up := by
  obtain ⟨m, z, h1, _, h3⟩ := atom_end h
  unfold readClosing
  have : rstripSemi (atom n c) = atom n c := by rw [h1]; exact rstripSemi_snoc m z h3
  simp [this, St.cur, readData_atom h, bind, Except.bind, St.setCur]

theorem readClosing_semi (st : St) (p : Chars) : readClosing st (p ++ [';']) = readClosing st p := by
  unfold readClosing
  rw [rstripSemi_semi]

end SR.Newick
