/-
  Unordered super-reconciliation: restricting to canonical labellings loses nothing
  (the exchange argument behind SuperDTL), against the specification oracle's solution
  space `Spec.Feasible … .unordered` (Proofs/OptAdequacy.lean): every species mapping
  over `S` and EVERY labelling between required and allowed content.

  Given a feasible solution `σ` (labelling `F`), keep its species mapping and relabel
  top-down by kinds (`exKinds`): the root is LCA; a child `w` of `v` is INHERIT when the
  edge is free in `σ` (`F v ⊆ F w`) and `w` is internal, LCA otherwise.  Then

  * the new content of every node is contained in the old one (`F' v ⊆ F v`),
  * every edge that is free in `σ` is free in the relabelled solution,

  and since the evaluator's loss count at a node is monotone in the two subset tests
  (`unLoss_mono`) and the events are unchanged, the relabelled (canonical) solution is
  no dearer: `exchange_le`.
-/
import SRVerif.Proofs.UnContentCanon
import SRVerif.Proofs.OptAdequacy

namespace SR

open Path Cost Spec

/-! ### The relabelling -/

/-- INHERIT exactly on the internal children whose edge is free in the given solution. -/
def childKind (f : List Nat) : Sol → Kind
  | .leaf _ _ => .lca
  | .node _ fc _ _ => if subsetB f fc then .inh else .lca

/-- The kind labelling the exchange argument assigns (own kind `k`). -/
def exKinds : Kind → Sol → LSol Kind
  | _, .leaf s _ => .leaf s .lca
  | k, .node s f l r => .node s k (exKinds (childKind f l) l) (exKinds (childKind f r) r)

theorem exKinds_sp (k : Kind) (σ : Sol) : (exKinds k σ).sp = σ.sp := by
  cases σ <;> rfl

theorem exKinds_child_lab (f : List Nat) (ch : Sol) :
    (exKinds (childKind f ch) ch).lab = childKind f ch := by
  cases ch <;> rfl

theorem mem_speciesSpace_allowed {c : Costs} (S : RTree) (base : Bool) (whole : OTree) (p : Path)
    (l r : OTree) (s : Path) (h : s ∈ speciesSpace S base (.node l r)) :
    s ∈ (unAlg c).allowed (annUn S base whole p (.node l r)).data := by
  cases base with
  | true => simpa [speciesSpace, unAlg, annUn, ATree.data] using h
  | false => simpa [speciesSpace, unAlg, annUn, ATree.data] using h

theorem adm_exKinds (c : Costs) (S : RTree) (base : Bool) (whole : OTree) :
    ∀ (sub : OTree) (p : Path) (k : Kind) (σ : Sol), Feasible S .unordered base whole p sub σ →
      Adm (unAlg c) (annUn S base whole p sub) (exKinds k σ) := by
  intro sub
  induction sub with
  | leaf sp f0 =>
    intro p k σ hf
    cases σ with
    | node => simp [Feasible] at hf
    | leaf s g =>
      simp only [Feasible] at hf
      simp [annUn, exKinds, Adm, unAlg, hf.1]
  | node l r ihl ihr =>
    intro p k σ hf
    cases σ with
    | leaf => simp [Feasible] at hf
    | node s f x y =>
      simp only [Feasible] at hf
      have hs := mem_speciesSpace_allowed (c := c) S base whole p l r s hf.1
      rw [annUn_node] at hs ⊢
      refine ⟨hs, ?_, ihl _ _ x hf.2.2.1, ihr _ _ y hf.2.2.2⟩
      cases k <;> simp [unAlg]

/-- Finite specification cost: no invalid event. -/
theorem valid_exKinds (c : Costs) (whole : OTree) :
    ∀ (σ : Sol) (p : Path) (k : Kind), specCost c .unordered whole p σ ≠ .inf →
      (exKinds k σ).Valid := by
  intro σ
  induction σ with
  | leaf s g => intro p k _; simp [exKinds, LSol.Valid]
  | node s f x y ihx ihy =>
    intro p k hfin
    simp only [specCost] at hfin
    obtain ⟨h0, hch⟩ := add_ne_inf hfin
    obtain ⟨hx, hy⟩ := add_ne_inf hch
    refine ⟨?_, ihx _ _ hx, ihy _ _ hy⟩
    rw [exKinds_sp, exKinds_sp]
    intro hev
    apply h0
    simp only [localCost, hev, localUnordLosses]
    split <;> rfl

/-! ### What feasibility gives -/

theorem mem_labelSpace_required {whole : OTree} {p : Path} {f : List Nat}
    (h : f ∈ labelSpace .unordered whole p) : ∀ x ∈ requiredContent whole p, x ∈ f := by
  simp only [labelSpace, List.mem_map] at h
  obtain ⟨extra, _, rfl⟩ := h
  intro x hx
  rw [mem_sortNat]
  exact List.mem_append_left _ hx

theorem feasible_required (S : RTree) (base : Bool) (whole : OTree) (sub : OTree) (p : Path) (σ : Sol)
    (hsub : IsSub whole p sub) (hf : Feasible S .unordered base whole p sub σ) :
    ∀ x ∈ requiredContent whole p, x ∈ σ.fam := by
  cases sub with
  | leaf sp f0 =>
    cases σ with
    | node => simp [Feasible] at hf
    | leaf s g =>
      simp only [Feasible, leafLabel] at hf
      intro x hx
      have := (mem_lcaSet S base whole (.leaf sp f0) p hsub x).mpr hx
      rw [annUn_leaf_lcaSet] at this
      simp only [Sol.fam, hf.2]
      exact this
  | node l r =>
    cases σ with
    | leaf => simp [Feasible] at hf
    | node s f x y =>
      simp only [Feasible] at hf
      exact mem_labelSpace_required hf.2.1

/-! ### Monotonicity of the evaluator's local count -/

theorem unLoss_mono {ev : Event} {keep : Bool} {lc rc lc' rc' k0 : Nat} (hl : lc' ≤ lc)
    (hr : rc' ≤ rc) (h : unLoss ev keep lc rc = some k0) :
    ∃ k0', unLoss ev keep lc' rc' = some k0' ∧ k0' ≤ k0 := by
  cases ev with
  | leaf => simp [unLoss] at h
  | invalid => simp [unLoss] at h
  | spec =>
    simp only [unLoss, Option.some.injEq] at h
    exact ⟨lc' + rc', rfl, by omega⟩
  | dup =>
    simp only [unLoss, Option.some.injEq] at h
    refine ⟨Nat.min lc' rc', rfl, ?_⟩
    subst h
    simp only [Nat.min_def]
    split <;> split <;> omega
  | hgt =>
    simp only [unLoss, Option.some.injEq] at h
    refine ⟨if keep then lc' else rc', rfl, ?_⟩
    subst h
    cases keep <;> simp [hl, hr]

theorem localCost_unordered_fin {c : Costs} {whole : OTree} {p s : Path} {f : List Nat}
    {a : Path} {fa : List Nat} {b : Path} {fb : List Nat}
    (h : localCost c .unordered whole p s f a fa b fb ≠ .inf) :
    ∃ k0, localUnordLosses (internalEvent s a b) (comparable s a) f fa fb = some k0 ∧
      localCost c .unordered whole p s f a fa b fb = localRecCost c s a b + .fin (k0 * c.sloss) := by
  unfold localCost at h ⊢
  split at h
  · exact absurd rfl h
  · rename_i he
    rw [if_neg he]
    cases hk : localUnordLosses (internalEvent s a b) (comparable s a) f fa fb with
    | none => simp [hk] at h
    | some k0 =>
      refine ⟨k0, rfl, ?_⟩
      simp only [hk]

theorem totalCostU_fin {c : Costs} {sub : OTree} {sol : Sol} (h : totalCostU c sub sol ≠ .inf) :
    ∃ k, unordLosses sol = some k ∧ totalCostU c sub sol = recCost c sub sol + .fin (k * c.sloss) := by
  unfold totalCostU at h ⊢
  cases hk : unordLosses sol with
  | none => simp [hk] at h
  | some k => exact ⟨k, rfl, rfl⟩

theorem ne_inf_of_le {a b : Cost} (h : a ≼ b) (hb : b ≠ .inf) : a ≠ .inf := by
  intro e; rw [e] at h; exact hb ((inf_le _).mp h)

/-! ### The exchange inequality -/

theorem exchange_le (c : Costs) (S : RTree) (base : Bool) (whole : OTree) :
    ∀ (sub : OTree) (p : Path) (anc : List Nat) (k : Kind) (σ : Sol), IsSub whole p sub →
      Feasible S .unordered base whole p sub σ →
      (∀ x ∈ unContent (annUn S base whole p sub).data anc (exKinds k σ).lab, x ∈ σ.fam) →
      totalCostU c sub (unSol (annUn S base whole p sub) anc (exKinds k σ)) ≼
        specCost c .unordered whole p σ := by
  intro sub
  induction sub with
  | leaf sp f0 =>
    intro p anc k σ _ hf _
    cases σ with
    | node => simp [Feasible] at hf
    | leaf s g =>
      simp only [Feasible] at hf
      simp [annUn, exKinds, unSol, totalCostU, unordLosses, recCost, specCost, hf.1]
  | node l r ihl ihr =>
    intro p anc k σ hsub hf hinv
    obtain ⟨hl, hr⟩ := isSub_child hsub
    cases σ with
    | leaf => simp [Feasible] at hf
    | node s f x y =>
      simp only [Feasible] at hf
      obtain ⟨_, _, hfx, hfy⟩ := hf
      by_cases hfin : specCost c .unordered whole (p ++ []) (.node s f x y) = .inf
      · simp only [List.append_nil] at hfin; rw [hfin]; exact le_inf _
      simp only [List.append_nil] at hfin
      have hla := annAt_annUn S base whole _ _ hl
      have hra := annAt_annUn S base whole _ _ hr
      have hreqx := feasible_required S base whole l _ x hl hfx
      have hreqy := feasible_required S base whole r _ y hr hfy
      rw [annUn_node] at hinv ⊢
      generalize (annUn S base whole p (.node l r)).data = a at *
      simp only [exKinds, LSol.lab, ATree.data] at hinv
      simp only [exKinds]
      rw [unSol_node]
      simp only [specCost] at hfin ⊢
      obtain ⟨h0, hch⟩ := add_ne_inf hfin
      obtain ⟨hxfin, hyfin⟩ := add_ne_inf hch
      obtain ⟨k0, hk0, hloc⟩ := localCost_unordered_fin h0
      -- the two children: invariant and edge domination
      have child : ∀ (i : Nat) (ch : OTree) (z : Sol), IsSub whole (p ++ [i]) ch →
          Feasible S .unordered base whole (p ++ [i]) ch z →
          (∀ w ∈ requiredContent whole (p ++ [i]), w ∈ z.fam) →
          (∀ w ∈ unContent (annUn S base whole (p ++ [i]) ch).data (unContent a anc k)
              (exKinds (childKind f z) z).lab, w ∈ z.fam) ∧
          (subsetB f z.fam = true →
            subsetB (unContent a anc k)
              (unContent (annUn S base whole (p ++ [i]) ch).data (unContent a anc k)
                (exKinds (childKind f z) z).lab) = true) := by
        intro i ch z hch hfz hreqz
        have hca := annAt_annUn S base whole _ _ hch
        rw [exKinds_child_lab]
        cases z with
        | leaf sz gz =>
          cases ch with
          | node => simp [Feasible] at hfz
          | leaf spz fz0 =>
            simp only [Feasible, leafLabel] at hfz
            simp only [childKind, unContent, annUn_leaf_lcaSet, Sol.fam, hfz.2]
            refine ⟨fun w hw => hw, ?_⟩
            intro hsub'
            rw [subsetB_iff] at hsub' ⊢
            intro w hw
            exact hsub' w (hinv w hw)
        | node sz fz zl zr =>
          simp only [childKind, Sol.fam]
          cases hs : subsetB f fz with
          | true =>
            simp only [if_true]
            refine ⟨?_, fun _ => ?_⟩
            · intro w hw
              rcases mem_unContent_inh.mp hw with h1 | h1
              · exact subsetB_iff.mp hs w (hinv w h1)
              · rw [hca.gain] at h1
                exact hreqz w (gains_sub_required h1)
            · rw [subsetB_iff]; intro w hw; exact mem_unContent_inh.mpr (Or.inl hw)
          | false =>
            simp only [Bool.false_eq_true, if_false]
            refine ⟨?_, fun h => by cases h⟩
            intro w hw
            exact hreqz w ((hca.lca w).mp hw)
      obtain ⟨invx, domx⟩ := child 0 l x hl hfx hreqx
      obtain ⟨invy, domy⟩ := child 1 r y hr hfy hreqy
      have ihx := ihl _ (unContent a anc k) (childKind f x) x hl hfx invx
      have ihy := ihr _ (unContent a anc k) (childKind f y) y hr hfy invy
      obtain ⟨kl, hkl, hcl⟩ := totalCostU_fin (ne_inf_of_le ihx hxfin)
      obtain ⟨kr, hkr, hcr⟩ := totalCostU_fin (ne_inf_of_le ihy hyfin)
      rw [hcl] at ihx
      rw [hcr] at ihy
      -- the local count
      have admx := adm_exKinds c S base whole l _ (childKind f x) x hfx
      have admy := adm_exKinds c S base whole r _ (childKind f y) y hfy
      rw [localUnordLosses_eq] at hk0
      have hmono := unLoss_mono
        (lc' := if subsetB (unContent a anc k)
          (unContent (annUn S base whole (p ++ [0]) l).data (unContent a anc k)
            (exKinds (childKind f x) x).lab) then 0 else 1)
        (rc' := if subsetB (unContent a anc k)
          (unContent (annUn S base whole (p ++ [1]) r).data (unContent a anc k)
            (exKinds (childKind f y) y).lab) then 0 else 1)
        (by cases h : subsetB f x.fam
            · simp only [Bool.false_eq_true, if_false]; split <;> omega
            · simp [domx h])
        (by cases h : subsetB f y.fam
            · simp only [Bool.false_eq_true, if_false]; split <;> omega
            · simp [domy h])
        hk0
      obtain ⟨k0', hk0', hle0⟩ := hmono
      have htot : totalCostU c (.node l r)
          (.node s (unContent a anc k)
            (unSol (annUn S base whole (p ++ [0]) l) (unContent a anc k) (exKinds (childKind f x) x))
            (unSol (annUn S base whole (p ++ [1]) r) (unContent a anc k) (exKinds (childKind f y) y))) =
          (localRecCost c s x.sp y.sp + .fin (k0' * c.sloss)) +
            ((recCost c l (unSol (annUn S base whole (p ++ [0]) l) (unContent a anc k)
                (exKinds (childKind f x) x)) + .fin (kl * c.sloss)) +
             (recCost c r (unSol (annUn S base whole (p ++ [1]) r) (unContent a anc k)
                (exKinds (childKind f y) y)) + .fin (kr * c.sloss))) := by
        unfold totalCostU
        simp only [unordLosses, unSol_sp, exKinds_sp, localUnordLosses_eq, hkl, hkr]
        rw [unSol_fam c _ _ _ admx, unSol_fam c _ _ _ admy, hk0']
        simp only []
        rw [recCost_node, unSol_sp, unSol_sp, exKinds_sp, exKinds_sp]
        simp only [Nat.add_mul, ← fin_add_fin_eq]
        ac_rfl
      rw [htot, hloc]
      refine add_le_add (add_le_add (le_refl _) ?_) (add_le_add ihx ihy)
      exact (fin_le_fin _ _).mpr (Nat.mul_le_mul_right _ hle0)

end SR
