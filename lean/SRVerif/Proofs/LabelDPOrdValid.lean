/-
  Label validity of decoded ordered solutions (C04, ordered clauses): the leaf
  syntenies are the input's, each child synteny is a subsequence of its parent's,
  the root synteny is a duplicate-free arrangement of all families.
-/
import SRVerif.Proofs.LabelDPOrdRoot

namespace SR

open Cost Path SubseqSpec SubseqProofs

theorem contained_half {mc m : Nat} (h : Contained mc m) : Contained (mc / 2) (m / 2) := by
  intro i hi
  rw [← Nat.testBit_succ] at hi ⊢
  exact h _ hi

theorem contained_bit0 {mc m : Nat} (h : Contained mc m) (h1 : mc % 2 = 1) : m % 2 = 1 := by
  have := h 0 (by rw [Nat.testBit_zero]; simpa using h1)
  rw [Nat.testBit_zero] at this
  simpa using this

theorem contained_zero {mc : Nat} (h : Contained mc 0) : mc = 0 := by
  apply Nat.eq_of_testBit_eq
  intro i
  cases hi : mc.testBit i
  · simp
  · have := h i hi; simp at this

/-- Contained masks decode to a subsequence. -/
theorem sublist_of_contained (order : List Nat) : ∀ mc m : Nat, Contained mc m →
    m < 2 ^ order.length →
    ∃ a b, subseqFromMask mc order = some a ∧ subseqFromMask m order = some b ∧ a.Sublist b := by
  induction order with
  | nil =>
    intro mc m hc hm
    have hm0 : m = 0 := by simp at hm; exact hm
    subst hm0
    rw [contained_zero hc]
    exact ⟨[], [], subseqFromMask_zero _, subseqFromMask_zero _, List.Sublist.refl _⟩
  | cons p ps ih =>
    intro mc m hc hm
    have hm' : m / 2 < 2 ^ ps.length := by
      rw [List.length_cons, Nat.pow_succ] at hm; omega
    obtain ⟨a, b, ha, hb, hab⟩ := ih (mc / 2) (m / 2) (contained_half hc) hm'
    rw [subseqFromMask_cons, subseqFromMask_cons, ha, hb]
    refine ⟨_, _, rfl, rfl, ?_⟩
    by_cases h1 : mc % 2 = 1
    · have h2 := contained_bit0 hc h1
      simp only [h1, h2, if_true]
      exact hab.cons_cons p
    · by_cases h2 : m % 2 = 1
      · simp only [h1, h2, if_true, if_false]
        exact hab.cons p
      · simp only [h1, h2, if_false]
        exact hab

/-- Every child mask is contained in its parent's. -/
def Cont : LSol Nat → Prop
  | .leaf _ _ => True
  | .node _ m l r => Contained l.lab m ∧ Contained r.lab m ∧ Cont l ∧ Cont r

theorem cont_of_finite (c : Costs) (S : RTree) (base : Bool) (order : List Nat) (o : OTree) :
    ∀ (isRoot : Bool) (ls : LSol Nat), Adm (ordAlg c) (annOrd S base order isRoot o) ls → NZ ls →
      labCost (ordAlg c) c (annOrd S base order isRoot o) ls ≠ .inf → Cont ls := by
  induction o with
  | leaf sp f =>
    intro isRoot ls h _ _
    cases ls with
    | node => simp [annOrd, Adm] at h
    | leaf s lab => trivial
  | node l r ihl ihr =>
    intro isRoot ls h hnz hfin
    cases ls with
    | leaf => simp [annOrd, Adm] at h
    | node s m x y =>
      simp only [annOrd, Adm] at h
      simp only [NZ] at hnz
      simp only [annOrd, labCost] at hfin
      obtain ⟨hg, hsub⟩ := add_ne_inf hfin
      obtain ⟨hxf, hyf⟩ := add_ne_inf hsub
      refine ⟨?_, ?_, ihl false x h.2.2.1 hnz.2.1 hxf, ihr false y h.2.2.2 hnz.2.2 hyf⟩
      · unfold genLocal at hg
        rcases ord_costs (c := c)
          (a := { isRoot := isRoot, leafMask := 0,
                  allowed := if base then [(lcaSol (.node l r)).sp] else (allSpecies S).reverse,
                  nfam := order.length })
          (ca := (annOrd S base order false l).data) (m := m) hnz.2.1.lab_ne with
          ⟨hc, _⟩ | ⟨_, e1, e2, _⟩
        · exact hc
        · rw [e1, e2, gl_inf_left] at hg; exact absurd rfl hg
      · unfold genLocal at hg
        rcases ord_costs (c := c)
          (a := { isRoot := isRoot, leafMask := 0,
                  allowed := if base then [(lcaSol (.node l r)).sp] else (allSpecies S).reverse,
                  nfam := order.length })
          (ca := (annOrd S base order false r).data) (m := m) hnz.2.2.lab_ne with
          ⟨hc, _⟩ | ⟨_, e1, e2, _⟩
        · exact hc
        · rw [e1, e2, gl_inf_right] at hg; exact absurd rfl hg

theorem validOrdLabels_ordSol (c : Costs) (S : RTree) (base : Bool) (order : List Nat) (o : OTree)
    (hlv : LeavesOk order o) :
    ∀ (isRoot : Bool) (ls : LSol Nat), Adm (ordAlg c) (annOrd S base order isRoot o) ls →
      Cont ls → Spec.validOrdLabels o (ordSol order ls) = true := by
  induction o with
  | leaf sp f =>
    intro isRoot ls h _
    cases ls with
    | node => simp [annOrd, Adm] at h
    | leaf s lab =>
      simp only [annOrd, Adm, ordAlg] at h
      simp only [ordSol, Spec.validOrdLabels, h.2, roundtrip_seq order f hlv.2, Option.getD_some,
        beq_self_eq_true]
  | node l r ihl ihr =>
    intro isRoot ls h hc
    cases ls with
    | leaf => simp [annOrd, Adm] at h
    | node s m x y =>
      have hfit := fits_of_adm c S base order (.node l r) isRoot _ h
      simp only [annOrd, Adm] at h
      simp only [Cont] at hc
      simp only [Fits] at hfit
      obtain ⟨a, b, ha, hb, hab⟩ := sublist_of_contained order x.lab m hc.1 hfit.1
      obtain ⟨a', b', ha', hb', hab'⟩ := sublist_of_contained order y.lab m hc.2.1 hfit.1
      rw [hb] at hb'; injection hb' with hb'; subst hb'
      simp only [ordSol, Spec.validOrdLabels, ordSol_fam, ha, hb, ha', Option.getD_some,
        (isSublist_iff _ _).mpr hab, (isSublist_iff _ _).mpr hab',
        ihl hlv.1 false x h.2.2.1 hc.2.2.1, ihr hlv.2 false y h.2.2.2 hc.2.2.2, Bool.and_self]

/-! ### The root synteny -/

theorem length_insertEverywhere {β : Type} (x : β) (ys q : List β) (h : q ∈ insertEverywhere x ys) :
    q.length = ys.length + 1 := by
  induction ys generalizing q with
  | nil =>
    simp only [insertEverywhere, List.mem_singleton] at h
    subst h; rfl
  | cons y ys ih =>
    simp only [insertEverywhere, List.mem_cons, List.mem_map] at h
    rcases h with rfl | ⟨q', hq', rfl⟩
    · simp
    · simp [ih q' hq']

theorem length_permutations {β : Type} (l p : List β) (h : p ∈ permutations l) :
    p.length = l.length := by
  induction l generalizing p with
  | nil =>
    simp only [permutations, List.mem_singleton] at h
    subst h; rfl
  | cons x xs ih =>
    simp only [permutations, List.mem_flatMap] at h
    obtain ⟨q, hq, hp⟩ := h
    rw [length_insertEverywhere x q p hp, ih q hq, List.length_cons]

theorem dedup_of_nodup {β : Type} [DecidableEq β] (l : List β) (h : l.Nodup) : dedup l = l := by
  have key : ∀ (l acc : List β), (acc ++ l).Nodup → l.foldl insertNew acc = acc ++ l := by
    intro l
    induction l with
    | nil => intro acc _; simp
    | cons x xs ih =>
      intro acc hnd
      have hx : x ∉ acc := by
        intro hmem
        rw [List.nodup_append] at hnd
        exact hnd.2.2 x hmem x (by simp) rfl
      simp only [List.foldl_cons, insertNew, hx, if_false]
      rw [ih (acc ++ [x]) (by simpa using hnd)]
      simp
  simpa [dedup] using key l [] (by simpa using h)

/-- Without a prescribed order, every root order is a duplicate-free arrangement of
    all families. -/
theorem rootOrders_perm (o : OTree) : ∀ order ∈ rootOrders o none,
    Spec.isPermOf order (families o) = true ∧ (order.length == (dedup order).length) = true := by
  intro order h
  simp only [rootOrders, List.mem_filter] at h
  obtain ⟨hp, _⟩ := h
  obtain ⟨hm, hn⟩ := mem_permutations _ _ hp
  have hnd := hn (nodup_dedup _)
  refine ⟨?_, by rw [dedup_of_nodup order hnd]; simp⟩
  simp only [Spec.isPermOf, length_permutations _ _ hp, beq_self_eq_true, Bool.true_and,
    Bool.and_eq_true, List.all_eq_true, List.contains_iff_mem]
  exact ⟨fun x hx => (hm x).mp hx, fun x hx => (hm x).mpr hx⟩

end SR
