/-
  The ordered table against the specification oracle `Spec.optTable`:
  every oracle cell (root state = species + synteny, value = minimum over child
  states of the evaluator's local cost) is matched by an admissible mask labelling
  of at most that generic cost.  Hence the solver's result is at most
  `Spec.optimum`.
-/
import SRVerif.Proofs.LabelDPOrdValid

namespace SR

open Cost Path SubseqSpec SubseqProofs

/-- A distance turned into a cost: negative = inadmissible. -/
def costOf (sl : Nat) (d : Int) : Cost := if d < 0 then .inf else .fin (d.toNat * sl)

theorem segDist_true_neg (mc m : Nat) (h : subseqSegmentDist mc m true < 0) :
    subseqSegmentDist mc m false < 0 := by
  by_cases hc : mc = 0
  · subst hc
    have := (C18.C18_dist_zero m).2.1
    rw [this] at h
    split at h <;> omega
  · by_cases hcont : Contained mc m
    · have := segDist_nonneg_of_contained hc hcont true; omega
    · exact segDist_neg_of_not_contained hc hcont false

theorem ord_conserv_eq (c : Costs) (a ca : OrdAnn) (m mc : Nat) :
    (ordAlg c).conserv a m ca mc = costOf c.sloss (subseqSegmentDist mc m true) := by
  simp only [ordAlg, costOf]

theorem ord_segment_eq (c : Costs) (a ca : OrdAnn) (m mc : Nat) :
    (ordAlg c).segment a m ca mc = costOf c.sloss (subseqSegmentDist mc m false) := by
  simp only [ordAlg, costOf]
  by_cases h1 : subseqSegmentDist mc m true < 0
  · have h2 := segDist_true_neg mc m h1
    simp [h1, h2]
  · by_cases h2 : subseqSegmentDist mc m false < 0 <;> simp [h1, h2]

theorem min_add_left (k : Nat) (P Q : Cost) :
    Cost.min (.fin k + P) (.fin k + Q) = .fin k + Cost.min P Q := by
  cases P with
  | inf => cases Q <;> simp [Cost.min, Cost.lt, add_def, Cost.add]
  | fin p =>
    cases Q with
    | inf => simp [Cost.min, Cost.lt, add_def, Cost.add]
    | fin q =>
      rw [fin_add_fin_eq, fin_add_fin_eq, min_fin, min_fin, fin_add_fin_eq]
      congr 1
      simp only [Nat.min_def]
      split <;> split <;> omega

/-- The local cost for arbitrary edge costs, relative to the plain evaluator. -/
theorem gl_general (c : Costs) (s x y : Path) (cvx svx cvy svy : Cost) :
    gl c s x cvx svx y cvy svy =
      match internalEvent s x y with
      | .spec => localRecCost c s x y + (cvx + cvy)
      | .dup => localRecCost c s x y + Cost.min (cvx + svy) (svx + cvy)
      | .hgt => localRecCost c s x y + (if isAnc s x then cvx + svy else svx + cvy)
      | _ => .inf := by
  rw [← gl_zero]
  unfold gl
  cases internalEvent s x y with
  | leaf => rfl
  | invalid => rfl
  | spec => simp only [add_zero]; ac_rfl
  | dup =>
    simp only [add_zero, min_self, fin_add_fin_eq]
    rw [← min_add_left]
    congr 1
    · rw [← fin_add_fin_eq, ← fin_add_fin_eq]; ac_rfl
    · rw [← fin_add_fin_eq, ← fin_add_fin_eq]; ac_rfl
  | hgt =>
    by_cases h : isAnc s x = true
    · simp only [h, if_true, add_zero]; ac_rfl
    · simp only [h, if_false, Bool.false_eq_true, add_zero]; ac_rfl

theorem nat_min_mul (x y s : Nat) : Nat.min (x * s) (y * s) = Nat.min x y * s := by
  simp only [Nat.min_def]
  by_cases h : x ≤ y
  · have := Nat.mul_le_mul_right s h
    simp [h, this]
  · have h' : y ≤ x := by omega
    have := Nat.mul_le_mul_right s h'
    simp only [h, if_false]
    split
    · have : x * s = y * s := by omega
      exact this
    · rfl

/-- **The ordered local lemma, all masks**: the generic local cost never exceeds the
    evaluator's `localRecCost + sloss · localOrdLosses` (they are equal except where
    the evaluator's count is undefined). -/
theorem gl_ord_le (c : Costs) (a la ra : OrdAnn) (s x y : Path) (m ml mr : Nat) :
    genLocal (ordAlg c) c a s m la x ml ra y mr ≼
      match localOrdLosses (internalEvent s x y) (comparable s x) m ml mr with
      | some k => localRecCost c s x y + .fin (k * c.sloss)
      | none => .inf := by
  unfold genLocal
  rw [ord_conserv_eq, ord_segment_eq, ord_conserv_eq, ord_segment_eq, gl_general]
  cases hev : internalEvent s x y with
  | leaf => simp [localOrdLosses]
  | invalid => simp [localOrdLosses]
  | spec =>
    simp only [localOrdLosses, addDist, costOf]
    by_cases h1 : subseqSegmentDist ml m true < 0 <;> by_cases h3 : subseqSegmentDist mr m true < 0 <;>
      (simp [h1, h3, Nat.add_mul]; try (first | exact Cost.le_inf _ | exact Cost.le_refl _))
  | dup =>
    simp only [localOrdLosses, addDist, costOf]
    by_cases h1 : subseqSegmentDist ml m true < 0 <;> by_cases h2 : subseqSegmentDist ml m false < 0 <;>
    by_cases h3 : subseqSegmentDist mr m true < 0 <;> by_cases h4 : subseqSegmentDist mr m false < 0 <;>
      simp [h1, h2, h3, h4] <;>
      first
      | exact Cost.le_inf _
      | exact Cost.le_refl _
      | (rw [min_fin, ← Nat.add_mul, ← Nat.add_mul, nat_min_mul]; exact Cost.le_refl _)
  | hgt =>
    rw [comparable_eq_isAnc_of_hgt hev]
    simp only [localOrdLosses, addDist, costOf]
    cases hx : isAnc s x <;>
    by_cases h1 : subseqSegmentDist ml m true < 0 <;> by_cases h2 : subseqSegmentDist ml m false < 0 <;>
    by_cases h3 : subseqSegmentDist mr m true < 0 <;> by_cases h4 : subseqSegmentDist mr m false < 0 <;>
      simp [h1, h2, h3, h4, Nat.add_mul] <;> first | exact Cost.le_inf _ | exact Cost.le_refl _

/-! ### Oracle cells are covered by mask labellings -/

theorem localCost_ordered_le (c : Costs) (order : List Nat) (whole : OTree) (p : Path) (a la ra : OrdAnn)
    (s : Path) (f : List Nat) (x : Path) (fx : List Nat) (y : Path) (fy : List Nat) :
    genLocal (ordAlg c) c a s (maskFromSubseq f order) la x (maskFromSubseq fx order) ra y
        (maskFromSubseq fy order) ≼
      Spec.localCost c (.ordered order) whole p s f x fx y fy := by
  unfold Spec.localCost
  split
  · exact le_inf _
  · simp only []
    have := gl_ord_le c a la ra s x y (maskFromSubseq f order) (maskFromSubseq fx order)
      (maskFromSubseq fy order)
    exact this

theorem optTable_covered (c : Costs) (S : RTree) (base : Bool) (order : List Nat) (whole : OTree)
    (keep : Bool) :
    ∀ (t : OTree) (p : Path) (isRoot : Bool), isRoot = p.isEmpty →
      ∀ oc ∈ Spec.optTable c S (.ordered order) base keep whole p t,
        ∃ ls, Adm (ordAlg c) (annOrd S base order isRoot t) ls ∧ ls.sp = oc.sp ∧
          ls.lab = maskFromSubseq oc.fam order ∧
          labCost (ordAlg c) c (annOrd S base order isRoot t) ls ≼ oc.cost := by
  intro t
  induction t with
  | leaf sp f =>
    intro p isRoot _ oc hoc
    simp only [Spec.optTable, List.mem_singleton] at hoc
    subst hoc
    refine ⟨.leaf sp (maskFromSubseq f order), ?_, rfl, rfl, ?_⟩
    · simp [annOrd, Adm, ordAlg]
    · simp [annOrd, labCost]
  | node l r ihl ihr =>
    intro p isRoot hroot oc hoc
    simp only [Spec.optTable, List.mem_flatMap, List.mem_filterMap] at hoc
    obtain ⟨s, hs, f, hf, hsome⟩ := hoc
    split at hsome
    · cases hsome
    · rename_i hbest
      injection hsome with hsome
      -- the minimum is attained by a pair of child cells
      rcases minList_mem_or_inf _ with hinf | hmem
      · rw [hinf] at hbest; simp [isInf] at hbest
      · obtain ⟨⟨v, cl', cr'⟩, hp', hv⟩ := List.mem_map.mp hmem
        simp only [List.mem_flatMap, List.mem_map, Prod.mk.injEq] at hp'
        obtain ⟨cl, hcl, cr, hcr, rfl, rfl, rfl⟩ := hp'
        have hval : Spec.localCost c (.ordered order) whole p s f cl.sp cl.fam cr.sp cr.fam +
            (cl.cost + cr.cost) = _ := hv
        obtain ⟨lx, ax, sx, labx, cx⟩ := ihl (p ++ [0]) false (by simp) cl hcl
        obtain ⟨ly, ay, sy, laby, cy⟩ := ihr (p ++ [1]) false (by simp) cr hcr
        refine ⟨.node s (maskFromSubseq f order) lx ly, ?_, ?_, ?_, ?_⟩
        · simp only [annOrd, Adm]
          refine ⟨?_, ?_, ax, ay⟩
          · cases base with
            | true => simpa [ordAlg] using hs
            | false => simpa [ordAlg, allSpecies] using hs
          · simp only [ordAlg]
            simp only [Spec.labelSpace] at hf
            cases hp : p.isEmpty with
            | true =>
              rw [hp] at hroot
              subst hroot
              simp only [hp, if_true, List.mem_singleton] at hf
              subst hf
              simp only [if_true, List.mem_singleton]
              rw [mask_self]; rfl
            | false =>
              rw [hp] at hroot
              subst hroot
              simp only [Bool.false_eq_true, if_false, List.mem_range]
              exact mask_lt order f
        · rw [← hsome]; rfl
        · rw [← hsome]; rfl
        · rw [← hsome]
          simp only [annOrd, labCost, sx, sy, labx, laby]
          rw [← hval]
          exact add_le_add (localCost_ordered_le c order whole p _ _ _ s f cl.sp cl.fam cr.sp cr.fam)
            (add_le_add cx cy)

end SR
