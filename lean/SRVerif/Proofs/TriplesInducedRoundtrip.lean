/-
  A binary tree is determined by its rooted triples, and the round trip
  `tree_from_triples ∘ tree_to_triples` for ANY order of contraction.

  * `run_displays`: every triple emitted by a run of BreakUp on `t` is
    displayed by `t`.
  * `sameClades_of_displays`: if `u` (distinct leaf names, no empty clade) has
    the leaf set of the binary tree `t` and displays every proper triple
    displayed by `t`, then `u` and `t` have the same clades.
  * `build_ne`: BUILD never produces an empty clade.
  * `breakUp_roundtrip`: BUILD applied to the triples of any run rebuilds the
    clades of the tree.
-/
import SRVerif.Proofs.TriplesInducedOrder

namespace SR.Tri

open SR SR.DS LTree Spec

/-! ### The triples of a run are displayed by the tree -/

theorem proper_mk {a b c : Nat} (hab : a ≠ b) (hac : a ≠ c) (hbc : b ≠ c) :
    proper (a, b, c) = true := (proper_iff _).mpr ⟨hab, hac, hbc⟩

theorem displays_mk {T : LTree} {x y s : Nat} {C : List Nat} (hx : x ∈ T.leaves) (hy : y ∈ T.leaves)
    (hs : s ∈ T.leaves) (hC : C ∈ clades T) (hxC : x ∈ C) (hyC : y ∈ C) (hsC : s ∉ C) :
    displays T (mkTriple x y s) = true := by
  rcases mkTriple_cases x y s with e | e <;> rw [e]
  · exact (displays_iff T _).mpr ⟨hx, hy, hs, C, hC, hxC, hyC, hsC⟩
  · exact (displays_iff T _).mpr ⟨hy, hx, hs, C, hC, hyC, hxC, hsC⟩

theorem displays_left {a b : LTree} {tr : Triple} (h : displays a tr = true) :
    displays (.node [a, b]) tr = true := by
  obtain ⟨h1, h2, h3, C, hC, k⟩ := (displays_iff a tr).mp h
  exact (displays_iff _ tr).mpr ⟨(leaves_node2 a b _).mpr (Or.inl h1), (leaves_node2 a b _).mpr (Or.inl h2),
    (leaves_node2 a b _).mpr (Or.inl h3), C, (mem_clades_node2 a b C).mpr (Or.inr (Or.inl hC)), k⟩

theorem displays_right {a b : LTree} {tr : Triple} (h : displays b tr = true) :
    displays (.node [a, b]) tr = true := by
  obtain ⟨h1, h2, h3, C, hC, k⟩ := (displays_iff b tr).mp h
  exact (displays_iff _ tr).mpr ⟨(leaves_node2 a b _).mpr (Or.inr h1), (leaves_node2 a b _).mpr (Or.inr h2),
    (leaves_node2 a b _).mpr (Or.inr h3), C, (mem_clades_node2 a b C).mpr (Or.inr (Or.inr hC)), k⟩

/-- One step removes one leaf `x`; every clade of the new tree is a clade of
    the old one with `x` possibly removed; the emitted triple is displayed. -/
theorem step_displays {T T' : LTree} {tr : Triple} (h : Step T tr T') : T.isBinary = true →
    T.leaves.Nodup → displays T tr = true ∧
      ∃ x, x ∈ T.leaves ∧ x ∉ T'.leaves ∧ (∀ z, z ∈ T.leaves → z ∈ T'.leaves ∨ z = x) ∧
        ∀ C', C' ∈ clades T' → ∃ C, C ∈ clades T ∧ (∀ z, z ∈ C' → z ∈ C) ∧
          (∀ z, z ∈ C → z ∈ C' ∨ z = x) := by
  induction h with
  | hereL x y σ =>
    intro hb hn
    simp only [isBinary, Bool.and_eq_true, true_and] at hb
    have hfl := firstLeaf_mem hb
    have hL : (LTree.node [.node [.leaf x, .leaf y], σ]).leaves = x :: y :: σ.leaves := by
      simp [leaves, leavesL]
    have hL' : (LTree.node [σ, .leaf y]).leaves = σ.leaves ++ [y] := by simp [leaves, leavesL]
    rw [hL] at hn
    simp only [List.nodup_cons, List.mem_cons, not_or] at hn
    obtain ⟨⟨hxy, hxσ⟩, hyσ, hσ⟩ := hn
    refine ⟨?_, x, by rw [hL]; simp, ?_, ?_, ?_⟩
    · apply displays_mk (C := [x, y])
      · rw [hL]; simp
      · rw [hL]; simp
      · rw [hL]; simp [hfl]
      · simp [clades, cladesL, leavesL, leaves]
      · simp
      · simp
      · intro h
        simp only [List.mem_cons, List.not_mem_nil, or_false] at h
        rcases h with h | h
        · exact hxσ (h ▸ hfl)
        · exact hyσ (h ▸ hfl)
    · rw [hL']
      simp only [List.mem_append, List.mem_singleton, not_or]
      exact ⟨hxσ, hxy⟩
    · intro z hz
      rw [hL] at hz
      rw [hL']
      simp only [List.mem_cons] at hz
      simp only [List.mem_append, List.mem_singleton]
      rcases hz with rfl | rfl | hz
      · exact Or.inr rfl
      · exact Or.inl (Or.inr rfl)
      · exact Or.inl (Or.inl hz)
    · intro C' hC'
      rcases (mem_clades_node2 σ (.leaf y) C').mp hC' with rfl | hC' | hC'
      · refine ⟨_, (mem_clades_node2 _ σ _).mpr (Or.inl rfl), ?_, ?_⟩
        · intro z hz
          simp only [leaves, leavesL, List.append_nil, List.mem_append, List.mem_cons, List.not_mem_nil,
            or_false] at hz ⊢
          rcases hz with hz | hz
          · exact Or.inr hz
          · exact Or.inl (Or.inr hz)
        · intro z hz
          simp only [leaves, leavesL, List.append_nil, List.mem_append, List.mem_cons, List.not_mem_nil,
            or_false] at hz ⊢
          rcases hz with (hz | hz) | hz
          · exact Or.inr hz
          · exact Or.inl (Or.inr hz)
          · exact Or.inl (Or.inl hz)
      · exact ⟨C', (mem_clades_node2 _ σ _).mpr (Or.inr (Or.inr hC')), fun _ h => h, fun _ h => Or.inl h⟩
      · simp only [clades, List.mem_singleton] at hC'
        subst hC'
        refine ⟨[y], (mem_clades_node2 _ σ _).mpr (Or.inr (Or.inl ?_)), fun _ h => h, fun _ h => Or.inl h⟩
        simp [clades, cladesL]
  | hereR x y σ =>
    intro hb hn
    simp only [isBinary, Bool.and_eq_true, and_true] at hb
    have hfl := firstLeaf_mem hb
    have hL : (LTree.node [σ, .node [.leaf x, .leaf y]]).leaves = σ.leaves ++ [x, y] := by
      simp [leaves, leavesL]
    have hL' : (LTree.node [σ, .leaf y]).leaves = σ.leaves ++ [y] := by simp [leaves, leavesL]
    rw [hL] at hn
    obtain ⟨hσ, hxy, hd⟩ := List.nodup_append.mp hn
    have hxy' : x ≠ y := by simpa using hxy
    have hxσ : x ∉ σ.leaves := fun h => hd x h x (by simp) rfl
    have hyσ : y ∉ σ.leaves := fun h => hd y h y (by simp) rfl
    refine ⟨?_, x, by rw [hL]; simp, ?_, ?_, ?_⟩
    · apply displays_mk (C := [x, y])
      · rw [hL]; simp
      · rw [hL]; simp
      · rw [hL]; simp [hfl]
      · simp [clades, cladesL, leavesL, leaves]
      · simp
      · simp
      · intro h
        simp only [List.mem_cons, List.not_mem_nil, or_false] at h
        rcases h with h | h
        · exact hxσ (h ▸ hfl)
        · exact hyσ (h ▸ hfl)
    · rw [hL']
      simp only [List.mem_append, List.mem_singleton, not_or]
      exact ⟨hxσ, hxy'⟩
    · intro z hz
      rw [hL] at hz
      rw [hL']
      simp only [List.mem_append, List.mem_cons, List.not_mem_nil, or_false] at hz
      simp only [List.mem_append, List.mem_singleton]
      rcases hz with hz | rfl | rfl
      · exact Or.inl (Or.inl hz)
      · exact Or.inr rfl
      · exact Or.inl (Or.inr rfl)
    · intro C' hC'
      rcases (mem_clades_node2 σ (.leaf y) C').mp hC' with rfl | hC' | hC'
      · refine ⟨_, (mem_clades_node2 σ _ _).mpr (Or.inl rfl), ?_, ?_⟩
        · intro z hz
          simp only [leaves, leavesL, List.append_nil, List.mem_append, List.mem_cons, List.not_mem_nil,
            or_false] at hz ⊢
          rcases hz with hz | hz
          · exact Or.inl hz
          · exact Or.inr (Or.inr hz)
        · intro z hz
          simp only [leaves, leavesL, List.append_nil, List.mem_append, List.mem_cons, List.not_mem_nil,
            or_false] at hz ⊢
          rcases hz with hz | hz | hz
          · exact Or.inl (Or.inl hz)
          · exact Or.inr hz
          · exact Or.inl (Or.inr hz)
      · exact ⟨C', (mem_clades_node2 σ _ _).mpr (Or.inr (Or.inl hC')), fun _ h => h, fun _ h => Or.inl h⟩
      · simp only [clades, List.mem_singleton] at hC'
        subst hC'
        refine ⟨[y], (mem_clades_node2 σ _ _).mpr (Or.inr (Or.inr ?_)), fun _ h => h, fun _ h => Or.inl h⟩
        simp [clades, cladesL]
  | @inL a a' tr b hs ih =>
    intro hb hn
    simp only [isBinary, Bool.and_eq_true] at hb
    have hL : (LTree.node [a, b]).leaves = a.leaves ++ b.leaves := by simp [leaves, leavesL]
    rw [hL] at hn
    obtain ⟨hna, _, hd⟩ := List.nodup_append.mp hn
    obtain ⟨hdisp, x, hx, hx', hcov, hcl⟩ := ih hb.1 hna
    refine ⟨displays_left hdisp, x, (leaves_node2 a b x).mpr (Or.inl hx), ?_, ?_, ?_⟩
    · rw [leaves_node2]
      rintro (h | h)
      · exact hx' h
      · exact hd x hx x h rfl
    · intro z hz
      rw [leaves_node2] at hz ⊢
      rcases hz with hz | hz
      · rcases hcov z hz with h | h
        · exact Or.inl (Or.inl h)
        · exact Or.inr h
      · exact Or.inl (Or.inr hz)
    · intro C' hC'
      rcases (mem_clades_node2 a' b C').mp hC' with rfl | hC' | hC'
      · refine ⟨_, (mem_clades_node2 a b _).mpr (Or.inl rfl), ?_, ?_⟩
        · intro z hz
          simp only [List.mem_append] at hz ⊢
          rcases hz with hz | hz
          · exact Or.inl ((step_facts hs hb.1).2.1 z hz)
          · exact Or.inr hz
        · intro z hz
          simp only [List.mem_append] at hz ⊢
          rcases hz with hz | hz
          · rcases hcov z hz with h | h
            · exact Or.inl (Or.inl h)
            · exact Or.inr h
          · exact Or.inl (Or.inr hz)
      · obtain ⟨C, hC, h1, h2⟩ := hcl C' hC'
        exact ⟨C, (mem_clades_node2 a b C).mpr (Or.inr (Or.inl hC)), h1, h2⟩
      · exact ⟨C', (mem_clades_node2 a b C').mpr (Or.inr (Or.inr hC')), fun _ h => h, fun _ h => Or.inl h⟩
  | @inR b b' tr a hs ih =>
    intro hb hn
    simp only [isBinary, Bool.and_eq_true] at hb
    have hL : (LTree.node [a, b]).leaves = a.leaves ++ b.leaves := by simp [leaves, leavesL]
    rw [hL] at hn
    obtain ⟨_, hnb, hd⟩ := List.nodup_append.mp hn
    obtain ⟨hdisp, x, hx, hx', hcov, hcl⟩ := ih hb.2 hnb
    refine ⟨displays_right hdisp, x, (leaves_node2 a b x).mpr (Or.inr hx), ?_, ?_, ?_⟩
    · rw [leaves_node2]
      rintro (h | h)
      · exact hd x h x hx rfl
      · exact hx' h
    · intro z hz
      rw [leaves_node2] at hz ⊢
      rcases hz with hz | hz
      · exact Or.inl (Or.inl hz)
      · rcases hcov z hz with h | h
        · exact Or.inl (Or.inr h)
        · exact Or.inr h
    · intro C' hC'
      rcases (mem_clades_node2 a b' C').mp hC' with rfl | hC' | hC'
      · refine ⟨_, (mem_clades_node2 a b _).mpr (Or.inl rfl), ?_, ?_⟩
        · intro z hz
          simp only [List.mem_append] at hz ⊢
          rcases hz with hz | hz
          · exact Or.inl hz
          · exact Or.inr ((step_facts hs hb.2).2.1 z hz)
        · intro z hz
          simp only [List.mem_append] at hz ⊢
          rcases hz with hz | hz
          · exact Or.inl (Or.inl hz)
          · rcases hcov z hz with h | h
            · exact Or.inl (Or.inr h)
            · exact Or.inr h
      · exact ⟨C', (mem_clades_node2 a b C').mpr (Or.inr (Or.inl hC')), fun _ h => h, fun _ h => Or.inl h⟩
      · obtain ⟨C, hC, h1, h2⟩ := hcl C' hC'
        exact ⟨C, (mem_clades_node2 a b C).mpr (Or.inr (Or.inr hC)), h1, h2⟩

theorem run_displays {T T' : LTree} {trs : List Triple} (h : Run T trs T') : T.isBinary = true →
    T.leaves.Nodup → ∀ tr, tr ∈ trs → displays T tr = true := by
  induction h with
  | nil _ => intro _ _ tr h; cases h
  | cons hs _ ih =>
    intro hb hn tr htr
    obtain ⟨hb', hl, _⟩ := step_facts hs hb
    obtain ⟨hn', _⟩ := step_scope hs hb hn
    obtain ⟨hd, x, _, hx', _, hcl⟩ := step_displays hs hb hn
    rcases List.mem_cons.mp htr with rfl | htr
    · exact hd
    · obtain ⟨h1, h2, h3, C', hC', k1, k2, k3⟩ := (displays_iff _ tr).mp (ih hb' hn' tr htr)
      obtain ⟨C, hC, c1, c2⟩ := hcl C' hC'
      refine (displays_iff _ tr).mpr ⟨hl _ h1, hl _ h2, hl _ h3, C, hC, c1 _ k1, c1 _ k2, ?_⟩
      intro h
      rcases c2 _ h with h | h
      · exact k3 h
      · exact hx' (h ▸ h3)

theorem breakUp_displays {t : LTree} {trs : List Triple} (hb : t.isBinary = true) (hn : t.leaves.Nodup)
    (h : BreakUp t trs) : ∀ tr, tr ∈ trs → displays t tr = true := by
  obtain ⟨t', hr, _⟩ := h
  exact run_displays hr hb hn

/-! ### A binary tree is determined by its triples -/

section
variable {u : LTree}

theorem clades_nested (hu : u.leaves.Nodup) {E F : List Nat} (hE : E ∈ clades u) (hF : F ∈ clades u)
    {a : Nat} (haE : a ∈ E) (haF : a ∈ F) : (∀ x, x ∈ E → x ∈ F) ∨ (∀ x, x ∈ F → x ∈ E) := by
  rcases clades_laminar u hu E F hE hF with h | h | h
  · exact Or.inl h
  · exact Or.inr h
  · exact absurd haF (h a haE)

/-- Clades through `a` avoiding `c`, one for each `x` of a list: the largest
    contains all of them. -/
theorem chain_up (hu : u.leaves.Nodup) {a c : Nat} (ha : a ∈ u.leaves) (hac : a ≠ c) :
    ∀ (Xs : List Nat), (∀ x, x ∈ Xs → ∃ E, E ∈ clades u ∧ a ∈ E ∧ x ∈ E ∧ c ∉ E) →
      ∃ E, E ∈ clades u ∧ a ∈ E ∧ (∀ x, x ∈ Xs → x ∈ E) ∧ c ∉ E := by
  intro Xs
  induction Xs with
  | nil =>
    intro _
    exact ⟨[a], singleton_clade u a ha, by simp, fun _ h => (by cases h), by simp [Ne.symm hac]⟩
  | cons x Xs ih =>
    intro h
    obtain ⟨E1, hE1, a1, x1, c1⟩ := ih (fun y hy => h y (by simp [hy]))
    obtain ⟨E2, hE2, a2, x2, c2⟩ := h x (by simp)
    rcases clades_nested hu hE1 hE2 a1 a2 with hsub | hsub
    · refine ⟨E2, hE2, a2, ?_, c2⟩
      intro y hy
      rcases List.mem_cons.mp hy with rfl | hy
      · exact x2
      · exact hsub _ (x1 y hy)
    · refine ⟨E1, hE1, a1, ?_, c1⟩
      intro y hy
      rcases List.mem_cons.mp hy with rfl | hy
      · exact hsub _ x2
      · exact x1 y hy

/-- Clades through `a` containing `Xs`, one avoiding each `c` of a list: the
    smallest avoids all of them. -/
theorem chain_down (hu : u.leaves.Nodup) {a : Nat} (ha : a ∈ u.leaves) {Xs : List Nat}
    (hX : ∀ x, x ∈ Xs → x ∈ u.leaves) :
    ∀ (Cs : List Nat), (∀ c, c ∈ Cs → ∃ E, E ∈ clades u ∧ a ∈ E ∧ (∀ x, x ∈ Xs → x ∈ E) ∧ c ∉ E) →
      ∃ E, E ∈ clades u ∧ a ∈ E ∧ (∀ x, x ∈ Xs → x ∈ E) ∧ ∀ c, c ∈ Cs → c ∉ E := by
  intro Cs
  induction Cs with
  | nil => intro _; exact ⟨u.leaves, leaves_mem_clades u, ha, hX, fun _ h => (by cases h)⟩
  | cons c Cs ih =>
    intro h
    obtain ⟨E1, hE1, a1, x1, c1⟩ := ih (fun y hy => h y (by simp [hy]))
    obtain ⟨E2, hE2, a2, x2, c2⟩ := h c (by simp)
    rcases clades_nested hu hE1 hE2 a1 a2 with hsub | hsub
    · refine ⟨E1, hE1, a1, x1, ?_⟩
      intro y hy
      rcases List.mem_cons.mp hy with rfl | hy
      · exact fun hh => c2 (hsub _ hh)
      · exact c1 y hy
    · refine ⟨E2, hE2, a2, x2, ?_⟩
      intro y hy
      rcases List.mem_cons.mp hy with rfl | hy
      · exact c2
      · exact fun hh => c1 y hy (hsub _ hh)

/-- Every clade of `t` is a clade of `u`. -/
theorem clades_forward (hu : u.leaves.Nodup) : ∀ (t : LTree), t.isBinary = true → t.leaves.Nodup →
    ∀ (Out : List Nat), (∀ x, x ∈ u.leaves ↔ x ∈ t.leaves ∨ x ∈ Out) → (∀ x, x ∈ t.leaves → x ∉ Out) →
    (∀ tr, proper tr = true → displays t tr = true → displays u tr = true) →
    (∀ a b c, a ∈ t.leaves → b ∈ t.leaves → a ≠ b → c ∈ Out → displays u (a, b, c) = true) →
    ∀ C, C ∈ clades t → ∃ C', C' ∈ clades u ∧ ∀ x, x ∈ C ↔ x ∈ C'
  | .leaf a, _, _, Out, hl, _, _, _, C, hC => by
    simp only [clades, List.mem_singleton] at hC
    subst hC
    exact ⟨[a], singleton_clade u a ((hl a).mpr (Or.inl (by simp [leaves]))), fun _ => Iff.rfl⟩
  | .node [t1, t2], hb, hn, Out, hl, hdis, hd, hout, C, hC => by
    have hb' := hb
    simp only [isBinary, Bool.and_eq_true] at hb
    have hTl : (LTree.node [t1, t2]).leaves = t1.leaves ++ t2.leaves := by simp [leaves, leavesL]
    have hn' := hn
    rw [hTl] at hn'
    obtain ⟨hn1, hn2, hdd⟩ := List.nodup_append.mp hn'
    have h12 : ∀ x, x ∈ t1.leaves → x ∉ t2.leaves := fun x h1 h2 => hdd x h1 x h2 rfl
    have hroot : (LTree.node [t1, t2]).leaves ∈ clades (.node [t1, t2]) := leaves_mem_clades _
    rcases (mem_clades_node2 t1 t2 C).mp hC with rfl | hC1 | hC2
    · -- the root clade
      obtain ⟨a, ha1⟩ := List.exists_mem_of_ne_nil _ (binary_leaves_ne t1 hb.1)
      have ha : a ∈ (LTree.node [t1, t2]).leaves := (leaves_node2 t1 t2 a).mpr (Or.inl ha1)
      have hau : a ∈ u.leaves := (hl a).mpr (Or.inl ha)
      have hXu : ∀ x, x ∈ (LTree.node [t1, t2]).leaves → x ∈ u.leaves := fun x hx => (hl x).mpr (Or.inl hx)
      obtain ⟨E, hE, _, hEin, hEout⟩ := chain_down hu hau hXu Out (by
        intro c hc
        have hac : a ≠ c := fun h => hdis a ha (h ▸ hc)
        apply chain_up hu hau hac
        intro x hx
        by_cases hxa : x = a
        · subst hxa
          exact ⟨[x], singleton_clade u x hau, by simp, by simp, by simp [Ne.symm hac]⟩
        · obtain ⟨E, hE, k1, k2, k3⟩ := displays_clade (hout a x c ha hx (Ne.symm hxa) hc)
          exact ⟨E, hE, k1, k2, k3⟩)
      refine ⟨E, hE, fun x => ⟨fun hx => hEin x (by rw [hTl]; exact hx), fun hx => ?_⟩⟩
      rcases (hl x).mp (clade_sub_leaves u E hE x hx) with h | h
      · rw [hTl] at h; exact h
      · exact absurd hx (hEout x h)
    · -- a clade of the first child
      apply clades_forward hu t1 hb.1 hn1 (t2.leaves ++ Out) _ _ _ _ C hC1
      · intro x
        rw [hl, leaves_node2, List.mem_append, or_assoc]
      · intro x hx h
        rcases List.mem_append.mp h with h | h
        · exact h12 x hx h
        · exact hdis x ((leaves_node2 t1 t2 x).mpr (Or.inl hx)) h
      · intro tr hp h; exact hd tr hp (displays_left h)
      · intro a b c ha hb0 hab hc
        have ha' := (leaves_node2 t1 t2 a).mpr (Or.inl ha)
        have hb0' := (leaves_node2 t1 t2 b).mpr (Or.inl hb0)
        rcases List.mem_append.mp hc with hc | hc
        · apply hd (a, b, c)
          · exact proper_mk hab (fun h => h12 a ha (h ▸ hc)) (fun h => h12 b hb0 (h ▸ hc))
          · exact (displays_iff _ _).mpr ⟨ha', hb0', (leaves_node2 t1 t2 c).mpr (Or.inr hc), t1.leaves,
              (mem_clades_node2 t1 t2 _).mpr (Or.inr (Or.inl (leaves_mem_clades t1))), ha, hb0,
              fun h => h12 c h hc⟩
        · exact hout a b c ha' hb0' hab hc
    · -- a clade of the second child
      apply clades_forward hu t2 hb.2 hn2 (t1.leaves ++ Out) _ _ _ _ C hC2
      · intro x
        rw [hl, leaves_node2, List.mem_append]
        constructor
        · rintro ((h | h) | h)
          · exact Or.inr (Or.inl h)
          · exact Or.inl h
          · exact Or.inr (Or.inr h)
        · rintro (h | h | h)
          · exact Or.inl (Or.inr h)
          · exact Or.inl (Or.inl h)
          · exact Or.inr h
      · intro x hx h
        rcases List.mem_append.mp h with h | h
        · exact h12 x h hx
        · exact hdis x ((leaves_node2 t1 t2 x).mpr (Or.inr hx)) h
      · intro tr hp h; exact hd tr hp (displays_right h)
      · intro a b c ha hb0 hab hc
        have ha' := (leaves_node2 t1 t2 a).mpr (Or.inr ha)
        have hb0' := (leaves_node2 t1 t2 b).mpr (Or.inr hb0)
        rcases List.mem_append.mp hc with hc | hc
        · apply hd (a, b, c)
          · exact proper_mk hab (fun h => h12 c hc (h ▸ ha)) (fun h => h12 c hc (h ▸ hb0))
          · exact (displays_iff _ _).mpr ⟨ha', hb0', (leaves_node2 t1 t2 c).mpr (Or.inl hc), t2.leaves,
              (mem_clades_node2 t1 t2 _).mpr (Or.inr (Or.inr (leaves_mem_clades t2))), ha, hb0,
              fun h => h12 c hc h⟩
        · exact hout a b c ha' hb0' hab hc
  | .node [], h, _, _, _, _, _, _, _, _ => by simp [isBinary] at h
  | .node [_], h, _, _, _, _, _, _, _, _ => by simp [isBinary] at h
  | .node (_ :: _ :: _ :: _), h, _, _, _, _, _, _, _, _ => by simp [isBinary] at h

/-- Every non-empty clade of `u` made of leaves of `t` is a clade of `t`. -/
theorem clades_backward (hu : u.leaves.Nodup) : ∀ (t : LTree), t.isBinary = true → t.leaves.Nodup →
    (∀ tr, proper tr = true → displays t tr = true → displays u tr = true) →
    ∀ C', C' ∈ clades u → C' ≠ [] → (∀ z, z ∈ C' → z ∈ t.leaves) →
      ∃ C, C ∈ clades t ∧ ∀ x, x ∈ C ↔ x ∈ C'
  | .leaf a, _, _, _, C', _, hne, hsub => by
    refine ⟨[a], by simp [clades], fun x => ?_⟩
    obtain ⟨z, hz⟩ := List.exists_mem_of_ne_nil _ hne
    have hza : z = a := by simpa [leaves] using hsub z hz
    constructor
    · intro hx
      simp only [List.mem_singleton] at hx
      rw [hx, ← hza]; exact hz
    · intro hx
      simpa [leaves] using hsub x hx
  | .node [t1, t2], hb, hn, hd, C', hC', hne, hsub => by
    simp only [isBinary, Bool.and_eq_true] at hb
    have hTl : (LTree.node [t1, t2]).leaves = t1.leaves ++ t2.leaves := by simp [leaves, leavesL]
    have hn' := hn
    rw [hTl] at hn'
    obtain ⟨hn1, hn2, hdd⟩ := List.nodup_append.mp hn'
    have h12 : ∀ x, x ∈ t1.leaves → x ∉ t2.leaves := fun x h1 h2 => hdd x h1 x h2 rfl
    by_cases hin1 : ∀ z, z ∈ C' → z ∈ t1.leaves
    · obtain ⟨C, hC, h⟩ := clades_backward hu t1 hb.1 hn1 (fun tr hp h => hd tr hp (displays_left h))
        C' hC' hne hin1
      exact ⟨C, (mem_clades_node2 t1 t2 C).mpr (Or.inr (Or.inl hC)), h⟩
    · by_cases hin2 : ∀ z, z ∈ C' → z ∈ t2.leaves
      · obtain ⟨C, hC, h⟩ := clades_backward hu t2 hb.2 hn2 (fun tr hp h => hd tr hp (displays_right h))
          C' hC' hne hin2
        exact ⟨C, (mem_clades_node2 t1 t2 C).mpr (Or.inr (Or.inr hC)), h⟩
      · -- the clade meets both children: it is the root clade
        obtain ⟨y, hy⟩ := Classical.not_forall.mp hin1
        obtain ⟨hyC, hy1⟩ := Classical.not_imp.mp hy
        obtain ⟨x, hx⟩ := Classical.not_forall.mp hin2
        obtain ⟨hxC, hx2⟩ := Classical.not_imp.mp hx
        have hy2 : y ∈ t2.leaves := ((leaves_node2 t1 t2 y).mp (hsub y hyC)).resolve_left hy1
        have hx1 : x ∈ t1.leaves := ((leaves_node2 t1 t2 x).mp (hsub x hxC)).resolve_right hx2
        have hxT := (leaves_node2 t1 t2 x).mpr (Or.inl hx1)
        have hyT := (leaves_node2 t1 t2 y).mpr (Or.inr hy2)
        refine ⟨_, (mem_clades_node2 t1 t2 _).mpr (Or.inl rfl), fun c => ⟨fun hc => ?_, fun hc => ?_⟩⟩
        · apply Classical.byContradiction
          intro hcC
          have hcT : c ∈ (LTree.node [t1, t2]).leaves := by rw [hTl]; exact hc
          rcases List.mem_append.mp hc with hc1 | hc2
          · -- `xc|y` is displayed by `t`
            have hxc : x ≠ c := fun h => hcC (h ▸ hxC)
            have := hd (x, c, y) (proper_mk hxc (fun h => hx2 (h ▸ hy2)) (fun h => h12 c hc1 (h ▸ hy2)))
              ((displays_iff _ _).mpr ⟨hxT, hcT, hyT, t1.leaves,
                (mem_clades_node2 t1 t2 _).mpr (Or.inr (Or.inl (leaves_mem_clades t1))), hx1, hc1, hy1⟩)
            obtain ⟨F, hF, k1, k2, k3⟩ := displays_clade this
            rcases clades_laminar u hu F C' hF hC' with h | h | h
            · exact hcC (h _ k2)
            · exact k3 (h _ hyC)
            · exact h _ k1 hxC
          · -- `yc|x` is displayed by `t`
            have hyc : y ≠ c := fun h => hcC (h ▸ hyC)
            have := hd (y, c, x) (proper_mk hyc (fun h => hx2 (h ▸ hy2)) (fun h => hx2 (h ▸ hc2)))
              ((displays_iff _ _).mpr ⟨hyT, hcT, hxT, t2.leaves,
                (mem_clades_node2 t1 t2 _).mpr (Or.inr (Or.inr (leaves_mem_clades t2))), hy2, hc2, hx2⟩)
            obtain ⟨F, hF, k1, k2, k3⟩ := displays_clade this
            rcases clades_laminar u hu F C' hF hC' with h | h | h
            · exact hcC (h _ k2)
            · exact k3 (h _ hxC)
            · exact h _ k1 hyC
        · have := hsub c hc
          rw [hTl] at this; exact this
  | .node [], h, _, _, _, _, _, _ => by simp [isBinary] at h
  | .node [_], h, _, _, _, _, _, _ => by simp [isBinary] at h
  | .node (_ :: _ :: _ :: _), h, _, _, _, _, _, _ => by simp [isBinary] at h

/-- **A binary tree is determined by its rooted triples.** -/
theorem sameClades_of_displays {t : LTree} (hb : t.isBinary = true) (hn : t.leaves.Nodup)
    (hu : u.leaves.Nodup) (hne : ∀ C, C ∈ clades u → C ≠ [])
    (hl : ∀ x, x ∈ u.leaves ↔ x ∈ t.leaves)
    (hd : ∀ tr, proper tr = true → displays t tr = true → displays u tr = true) :
    sameClades t u = true := by
  rw [sameClades_iff]
  constructor
  · exact clades_forward hu t hb hn [] (fun x => by rw [hl]; simp) (fun _ _ h => by cases h) hd
      (fun _ _ c _ _ _ h => by cases h)
  · intro C' hC'
    obtain ⟨C, hC, h⟩ := clades_backward hu t hb hn hd C' hC' (hne C' hC')
      (fun z hz => (hl z).mp (clade_sub_leaves u C' hC' z hz))
    exact ⟨C, hC, fun x => (h x).symm⟩

end

/-! ### BUILD never produces an empty clade -/

theorem build_ne : ∀ (fuel : Nat) (l : List Nat) (trs : List Triple) (t : LTree),
    l.Nodup → Known l trs → Proper trs → build fuel l trs = some t → ∀ C, C ∈ clades t → C ≠ [] := by
  intro fuel
  induction fuel with
  | zero => intro l trs t _ _ _ h; simp [build] at h
  | succ fuel ih =>
    intro l trs t hl hk hp h
    have hgood := build_good (fuel + 1) l trs t hl hk hp h
    match l, hl, hk, h, hgood with
    | [], _, _, h, _ => simp [build] at h
    | [a], _, _, h, _ =>
      simp only [build, Option.some.injEq] at h
      subst h
      intro C hC
      simp only [clades, List.mem_singleton] at hC
      subst hC; simp
    | [a, b], _, _, h, _ =>
      simp only [build, Option.some.injEq] at h
      subst h
      intro C hC
      simp only [clades, cladesL, leavesL, leaves, List.append_nil, List.mem_cons, List.mem_append,
        List.not_mem_nil, or_false] at hC
      rcases hC with rfl | rfl | rfl <;> simp
    | a :: b :: c :: rest, hl, hk, h, hgood =>
      simp only [build] at h
      generalize hl' : a :: b :: c :: rest = l at *
      by_cases hg : (partitionOf l trs).groups ≤ 1
      · simp [hg] at h
      · simp only [hg, if_false, Option.map_eq_some_iff] at h
        obtain ⟨cs, hcs, rfl⟩ := h
        have hI := partitionOf_inv hk
        have hC := toList_isClassList hI.wf
        obtain ⟨_, _, _, q4⟩ := classList_names hl hI.size hC
        intro C hCm
        rcases (mem_clades_node cs C).mp hCm with rfl | ⟨c', hc', hCc'⟩
        · intro hnil
          have : a ∈ (LTree.node cs).leaves := (hgood.mem a).mpr (by rw [← hl']; simp)
          rw [show (LTree.node cs).leaves = leavesL cs from rfl, hnil] at this
          cases this
        · obtain ⟨g, hgm, hbuild⟩ := (all2_of_mapM hcs).right hc'
          exact ih _ _ c' (q4 g hgm) (known_filter _ _) (proper_filter hp _) hbuild C hCc'

/-! ### The round trip for any order of contraction -/

/-- BUILD applied to the triples of ANY run of BreakUp on a binary tree with
    distinct leaf names rebuilds the clades of the tree. -/
theorem breakUp_roundtrip {t : LTree} {trs : List Triple} (hb : t.isBinary = true)
    (hn : t.leaves.Nodup) (h : BreakUp t trs) :
    ∃ u, treeFromTriples t.leaves trs = some u ∧ sameClades t u = true := by
  have hsc := breakUp_scope hb hn h
  have hk : Known t.leaves trs := fun tr htr => ⟨(hsc tr htr).2.1, (hsc tr htr).2.2.1⟩
  have hp : Proper trs := fun tr htr => (hsc tr htr).1
  have hdisp := breakUp_displays hb hn h
  have hsome : (treeFromTriples t.leaves trs).isSome = true :=
    treeFromTriples_complete hn (binary_leaves_ne t hb) hn (fun _ hx => hx)
      (fun tr htr => ⟨(inside_iff _ tr).mpr (hsc tr htr).2, hdisp tr htr⟩)
  obtain ⟨u, hu⟩ := Option.isSome_iff_exists.mp hsome
  have hg := treeFromTriples_good hn hk hp hu
  refine ⟨u, hu, ?_⟩
  apply sameClades_of_displays hb hn hg.nodup (build_ne _ _ _ _ hn hk hp hu) hg.mem
  apply breakUp_induced hb hn h hg.nodup (fun x hx => (hg.mem x).mpr hx)
  intro tr htr
  exact hg.disp tr htr ((inside_iff _ tr).mpr (hsc tr htr).2)

end SR.Tri
