/-
  Order and minimum lemmas on `Cost`, and basic facts about the list-as-set
  helpers (`dedup`, `insertNew`) and `rankByCost`.
-/
import SRVerif.Model.Solvers

namespace SR

namespace Cost

theorem lt_irrefl (a : Cost) : lt a a = false := by cases a <;> simp [lt]

theorem lt_asymm {a b : Cost} (h : lt a b = true) : lt b a = false := by
  cases a <;> cases b <;> simp_all [lt] <;> omega

theorem lt_trans {a b c : Cost} (h1 : lt a b = true) (h2 : lt b c = true) : lt a c = true := by
  cases a <;> cases b <;> cases c <;> simp_all [lt] <;> omega

theorem trichotomy (a b : Cost) : a = b ∨ lt a b = true ∨ lt b a = true := by
  cases a <;> cases b <;> simp [lt] <;> omega

theorem le_refl (a : Cost) : le a a = true := by simp [le, lt_irrefl]

theorem le_trans {a b c : Cost} (h1 : le a b = true) (h2 : le b c = true) : le a c = true := by
  cases a <;> cases b <;> cases c <;> simp_all [le, lt] <;> omega

theorem le_total (a b : Cost) : le a b = true ∨ le b a = true := by
  cases a <;> cases b <;> simp [le, lt] <;> omega

theorem le_antisymm {a b : Cost} (h1 : le a b = true) (h2 : le b a = true) : a = b := by
  cases a <;> cases b <;> simp_all [le, lt] <;> omega

theorem le_inf (a : Cost) : le a inf = true := by cases a <;> simp [le, lt]

theorem min_le_left (a b : Cost) : le (min a b) a = true := by
  unfold min; split
  · rename_i h; cases a <;> cases b <;> simp_all [le, lt] <;> omega
  · exact le_refl a

theorem min_le_right (a b : Cost) : le (min a b) b = true := by
  unfold min; split
  · exact le_refl b
  · rename_i h; simp [le]; simpa using h

theorem min_eq_or (a b : Cost) : min a b = a ∨ min a b = b := by
  unfold min; split <;> simp

theorem minList_le {l : List Cost} {x : Cost} (h : x ∈ l) : le (minList l) x = true := by
  induction l with
  | nil => cases h
  | cons y ys ih =>
    simp only [minList]
    rcases List.mem_cons.mp h with h' | h'
    · subst h'; exact min_le_left _ _
    · exact le_trans (min_le_right _ _) (ih h')

theorem minList_mem_or_inf (l : List Cost) : minList l = inf ∨ minList l ∈ l := by
  induction l with
  | nil => simp [minList]
  | cons y ys ih =>
    simp only [minList]
    rcases min_eq_or y (minList ys) with h | h
    · right; rw [h]; simp
    · rw [h]; rcases ih with ih | ih
      · left; exact ih
      · right; simp [ih]

theorem add_comm (a b : Cost) : a + b = b + a := by
  show add a b = add b a
  cases a <;> cases b <;> simp [add, Nat.add_comm]

theorem add_assoc (a b c : Cost) : a + b + c = a + (b + c) := by
  show add (add a b) c = add a (add b c)
  cases a <;> cases b <;> cases c <;> simp [add, Nat.add_assoc]

theorem add_le_add {a b c d : Cost} (h1 : le a b = true) (h2 : le c d = true) :
    le (a + c) (b + d) = true := by
  show le (add a c) (add b d) = true
  cases a <;> cases b <;> cases c <;> cases d <;> simp_all [add, le, lt] <;> omega

end Cost

theorem mem_insertNew {β : Type} [DecidableEq β] {l : List β} {x y : β} :
    y ∈ insertNew l x ↔ y ∈ l ∨ y = x := by
  unfold insertNew; split
  · constructor
    · intro h; exact Or.inl h
    · rintro (h | h)
      · exact h
      · subst h; assumption
  · simp

theorem nodup_insertNew {β : Type} [DecidableEq β] {l : List β} {x : β} (h : l.Nodup) :
    (insertNew l x).Nodup := by
  unfold insertNew; split
  · exact h
  · rw [List.nodup_append]; simp_all
    intro a ha hax; subst hax; contradiction

theorem mem_foldl_insertNew {β : Type} [DecidableEq β] (l acc : List β) (y : β) :
    y ∈ l.foldl insertNew acc ↔ y ∈ acc ∨ y ∈ l := by
  induction l generalizing acc with
  | nil => simp
  | cons x xs ih =>
    simp only [List.foldl_cons, ih, mem_insertNew, List.mem_cons]
    constructor
    · rintro ((h | h) | h)
      · exact Or.inl h
      · exact Or.inr (Or.inl h)
      · exact Or.inr (Or.inr h)
    · rintro (h | h | h)
      · exact Or.inl (Or.inl h)
      · exact Or.inl (Or.inr h)
      · exact Or.inr h

theorem nodup_foldl_insertNew {β : Type} [DecidableEq β] (l acc : List β) (h : acc.Nodup) :
    (l.foldl insertNew acc).Nodup := by
  induction l generalizing acc with
  | nil => simpa
  | cons x xs ih => exact ih _ (nodup_insertNew h)

theorem mem_dedup {β : Type} [DecidableEq β] {l : List β} {y : β} : y ∈ dedup l ↔ y ∈ l := by
  simp [dedup, mem_foldl_insertNew]

theorem nodup_dedup {β : Type} [DecidableEq β] (l : List β) : (dedup l).Nodup :=
  nodup_foldl_insertNew l [] (by simp)

/-- What the result entry of every solver keeps: exactly the offered outputs
    whose evaluated cost is the minimum over all offered outputs, each once. -/
theorem mem_rankByCost (c : Costs) (mode : LabelMode) (o : OTree) (sols : List Sol) (s : Sol) :
    s ∈ rankByCost c mode o sols ↔
      s ∈ sols ∧ ∀ s' ∈ sols, Cost.le (totalCost c mode o s) (totalCost c mode o s') = true := by
  simp only [rankByCost, mem_dedup, List.mem_filter, decide_eq_true_eq]
  constructor
  · rintro ⟨hs, hbest⟩
    refine ⟨hs, fun s' hs' => ?_⟩
    rw [hbest]
    exact Cost.minList_le (l := sols.map (totalCost c mode o)) (List.mem_map.mpr ⟨s', hs', rfl⟩)
  · rintro ⟨hs, hmin⟩
    refine ⟨hs, ?_⟩
    rcases Cost.minList_mem_or_inf (sols.map (totalCost c mode o)) with h | h
    · have := Cost.minList_le (l := sols.map (totalCost c mode o))
        (List.mem_map.mpr ⟨s, hs, rfl⟩)
      rw [h] at this ⊢
      exact Cost.le_antisymm (Cost.le_inf _) this
    · obtain ⟨s', hs', h'⟩ := List.mem_map.mp h
      apply Cost.le_antisymm
      · rw [← h']; exact hmin s' hs'
      · exact Cost.minList_le (l := sols.map (totalCost c mode o))
          (List.mem_map.mpr ⟨s, hs, rfl⟩)

theorem nodup_rankByCost (c : Costs) (mode : LabelMode) (o : OTree) (sols : List Sol) :
    (rankByCost c mode o sols).Nodup := nodup_dedup _

end SR
