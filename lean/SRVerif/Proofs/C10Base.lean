/-
  Helpers for C10 "extended ≤ base": the base variants only restrict the species
  allowed at the internal nodes (to the LCA image), so every labelling admissible
  for a base variant is admissible for the extended one, with the same generic cost.
-/
import SRVerif.Proofs.LabelDPOrdRoot

namespace SR.C10

open Cost Path

/-- The LCA image of a subtree is one of the species the extended variants try. -/
theorem lcaSol_sp_mem_allSpecies (S : RTree) (o : OTree)
    (hS : ∀ p ∈ leafSpecies o, S.isNode p = true) :
    (lcaSol o).sp ∈ (allSpecies S).reverse := by
  rw [List.mem_reverse]
  exact (RTree.mem_preorder_iff _ S).mpr (lcaSol_sp_isNode S o hS)

/-- Ordered: base-admissible ⇒ extended-admissible. -/
theorem adm_annOrd_ext (c : Costs) (S : RTree) (order : List Nat) (o : OTree)
    (hS : ∀ p ∈ leafSpecies o, S.isNode p = true) :
    ∀ (isRoot : Bool) (ls : LSol Nat), Adm (ordAlg c) (annOrd S true order isRoot o) ls →
      Adm (ordAlg c) (annOrd S false order isRoot o) ls := by
  induction o with
  | leaf sp f =>
    intro isRoot ls h
    cases ls with
    | node => simp [annOrd, Adm] at h
    | leaf s lab => simpa [annOrd, Adm, ordAlg] using h
  | node l r ihl ihr =>
    intro isRoot ls h
    cases ls with
    | leaf => simp [annOrd, Adm] at h
    | node s m x y =>
      simp only [annOrd, Adm] at h ⊢
      obtain ⟨hs, hm, hx, hy⟩ := h
      refine ⟨?_, hm, ihl (fun q hq => hS q (by simp [leafSpecies, hq])) false x hx,
        ihr (fun q hq => hS q (by simp [leafSpecies, hq])) false y hy⟩
      simp only [ordAlg, if_true, List.mem_singleton] at hs
      simp only [ordAlg, Bool.false_eq_true, if_false]
      rw [hs]
      exact lcaSol_sp_mem_allSpecies S (.node l r) hS

/-- The generic ordered cost does not look at the allowed species. -/
theorem labCost_annOrd_base (c : Costs) (S : RTree) (b b' : Bool) (order : List Nat) (o : OTree) :
    ∀ (isRoot : Bool) (ls : LSol Nat),
      labCost (ordAlg c) c (annOrd S b order isRoot o) ls =
        labCost (ordAlg c) c (annOrd S b' order isRoot o) ls := by
  induction o with
  | leaf sp f => intro isRoot ls; cases ls <;> rfl
  | node l r ihl ihr =>
    intro isRoot ls
    cases ls with
    | leaf => rfl
    | node s m x y =>
      simp only [annOrd, labCost]
      rw [ihl false x, ihr false y]
      rfl

theorem ATree.data_node {α : Type} (a : α) (l r : ATree α) : (ATree.node a l r).data = a := rfl
theorem ATree.data_leaf {α : Type} (a : α) (sp : Path) : (ATree.leaf a sp).data = a := rfl

/-- The unordered annotations of the two variants differ only in the allowed species. -/
theorem annUn_data (S : RTree) (b b' : Bool) (whole o : OTree) :
    ∀ p, (annUn S b whole p o).data.lcaSet = (annUn S b' whole p o).data.lcaSet ∧
      (annUn S b whole p o).data.gain = (annUn S b' whole p o).data.gain := by
  induction o with
  | leaf sp f => intro p; exact ⟨rfl, rfl⟩
  | node l r ihl ihr =>
    intro p
    simp only [annUn, ATree.data_node]
    rw [(ihl (p ++ [0])).1, (ihr (p ++ [1])).1, (ihl (p ++ [0])).2, (ihr (p ++ [1])).2]
    exact ⟨rfl, trivial⟩

/-- Unordered: base-admissible ⇒ extended-admissible. -/
theorem adm_annUn_ext (c : Costs) (S : RTree) (whole o : OTree)
    (hS : ∀ p ∈ leafSpecies o, S.isNode p = true) :
    ∀ (p : Path) (ls : LSol Kind), Adm (unAlg c) (annUn S true whole p o) ls →
      Adm (unAlg c) (annUn S false whole p o) ls := by
  induction o with
  | leaf sp f =>
    intro p ls h
    cases ls with
    | node => simp [annUn, Adm] at h
    | leaf s lab => simpa [annUn, Adm, unAlg] using h
  | node l r ihl ihr =>
    intro p ls h
    cases ls with
    | leaf => simp [annUn, Adm] at h
    | node s m x y =>
      simp only [annUn, Adm] at h ⊢
      obtain ⟨hs, hm, hx, hy⟩ := h
      refine ⟨?_, hm, ihl (fun q hq => hS q (by simp [leafSpecies, hq])) _ x hx,
        ihr (fun q hq => hS q (by simp [leafSpecies, hq])) _ y hy⟩
      simp only [unAlg, if_true, List.mem_singleton] at hs
      simp only [unAlg, Bool.false_eq_true, if_false]
      rw [hs]
      exact lcaSol_sp_mem_allSpecies S (.node l r) hS

/-- The generic unordered cost does not look at the allowed species. -/
theorem labCost_annUn_base (c : Costs) (S : RTree) (b b' : Bool) (whole o : OTree) :
    ∀ (p : Path) (ls : LSol Kind),
      labCost (unAlg c) c (annUn S b whole p o) ls =
        labCost (unAlg c) c (annUn S b' whole p o) ls := by
  induction o with
  | leaf sp f => intro p ls; cases ls <;> rfl
  | node l r ihl ihr =>
    intro p ls
    cases ls with
    | leaf => rfl
    | node s m x y =>
      simp only [annUn, labCost]
      rw [ihl _ x, ihr _ y]
      simp only [genLocal, unAlg, (annUn_data S b b' whole l (p ++ [0])).1,
        (annUn_data S b b' whole r (p ++ [1])).1, (annUn_data S b b' whole l (p ++ [0])).2,
        (annUn_data S b b' whole r (p ++ [1])).2]

/-- Decoding does not look at the allowed species either. -/
theorem unSol_base (S : RTree) (b b' : Bool) (whole o : OTree) :
    ∀ (p : Path) (anc : List Nat) (ls : LSol Kind),
      unSol (annUn S b whole p o) anc ls = unSol (annUn S b' whole p o) anc ls := by
  induction o with
  | leaf sp f => intro p anc ls; cases ls <;> rfl
  | node l r ihl ihr =>
    intro p anc ls
    cases ls with
    | leaf s k =>
      simp only [annUn, unSol, (annUn_data S b b' whole l (p ++ [0])).1,
        (annUn_data S b b' whole r (p ++ [1])).1, (annUn_data S b b' whole l (p ++ [0])).2,
        (annUn_data S b b' whole r (p ++ [1])).2]
    | node s k x y =>
      simp only [annUn, unSol, (annUn_data S b b' whole l (p ++ [0])).1,
        (annUn_data S b b' whole r (p ++ [1])).1, (annUn_data S b b' whole l (p ++ [0])).2,
        (annUn_data S b b' whole r (p ++ [1])).2]
      rw [ihl, ihr]

end SR.C10
