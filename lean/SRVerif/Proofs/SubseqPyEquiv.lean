/-
  Equivalence of the MECHANICALLY TRANSLATED functions of
  `superrec2/utils/subsequences.py` (`SRVerif/Generated/SubseqPy.lean`, written by
  `harness/translate_py.py` on every run of the check) with the hand-written
  model `SRVerif/Model/Subseq.lean`.

  Hand-written, stated against the CURRENT generated normal form (see the
  docstring of translate_py.py): one loop-invariant lemma per generated loop
  function (`mask_loop`, `from_loop`, `seg_loop`), proved by induction on the
  iterated list / on the fuel, then one theorem per Python function.  The
  scripts mention the generated loops only through their equation lemmas
  (`rw [f.loop1]`) and close the branch goals with `simp` / `omega`, so that
  they do not depend on the names of the Python locals; they do depend on the
  ORDER of the loop-carried variables in the state tuples and on the shape of
  the loops.  `Generated/SubseqPyEquiv.lean` instantiates the four theorems for
  the definitions generated in the current run.

  What is shown, for ALL inputs:
  * `subseq_complete_eq`      never raises, value = `subseqComplete` (as an Int);
  * `mask_from_subseq_eq`     never raises (`child[child_i]` is always in range),
                              value = `maskFromSubseq`;
  * `subseq_from_mask_eq`     raises `IndexError` exactly when the model is `none`
                              (and the generated fuel `bit_length(child)` suffices:
                              `Diverged` is never returned), else the same list;
  * `subseq_segment_dist_eq`  never raises, value = `subseqSegmentDist`.
-/
import SRVerif.Generated.SubseqPy
import SRVerif.Proofs.SubseqSeq

namespace SR.SubseqPyProofs
open SR SR.Py SR.Gen.Subseq SR.SubseqProofs

theorem py_bitLength_eq (n : Nat) : Py.bitLength n = SR.bitLength n := by
  unfold Py.bitLength
  split
  · subst_vars; unfold SR.bitLength; rfl
  · rename_i h; rw [bitLength_eq n h]

variable {α : Type} [DecidableEq α]

theorem subseq_complete_eq (s : List α) :
    subseq_complete s = .ok ((subseqComplete s : Nat) : Int) := by
  unfold subseq_complete subseqComplete
  rw [Nat.one_shiftLeft]
  have : 0 < 2 ^ s.length := Nat.two_pow_pos _
  congr 1; omega

theorem maskFromSubseq_nil_right (c : List α) : maskFromSubseq c [] = 0 := by
  cases c <;> rfl

theorem or_shift_eq {m k : Nat} (hm : m < 2 ^ k) : m ||| 1 <<< k = m + 2 ^ k := by
  rw [Nat.or_comm, ← Nat.shiftLeft_add_eq_or_of_lt hm, Nat.one_shiftLeft, Nat.add_comm]

theorem mask_loop (child : List α) : ∀ (ps : List α) (k ci m : Nat), ci ≤ child.length → m < 2 ^ k →
    ∃ ci', mask_from_subseq.loop1 child (ps.zipIdx k) (ci, m)
      = .next (ci', m + 2 ^ k * maskFromSubseq (child.drop ci) ps) := by
  intro ps
  induction ps with
  | nil => intro k ci m _ _; exact ⟨ci, by simp [mask_from_subseq.loop1]⟩
  | cons p ps ih =>
    intro k ci m hci hm
    rw [List.zipIdx_cons, mask_from_subseq.loop1]
    by_cases hlen : ci = child.length
    · refine ⟨ci, ?_⟩
      simp [hlen]
    · have hlt : ci < child.length := by omega
      rw [if_neg hlen, List.getElem?_eq_getElem hlt, List.drop_eq_getElem_cons hlt]
      simp only []
      by_cases hp : child[ci] = p
      · simp only [hp, if_true]
        obtain ⟨ci', h⟩ := ih (k + 1) (ci + 1) (m ||| 1 <<< k) (by omega)
          (by rw [or_shift_eq hm, Nat.pow_succ]; omega)
        refine ⟨ci', ?_⟩
        rw [h, or_shift_eq hm, maskFromSubseq_cons_self, Nat.pow_succ, Nat.mul_add, Nat.mul_one,
          Nat.mul_assoc, Nat.add_assoc]
      · simp only [hp, if_false]
        obtain ⟨ci', h⟩ := ih (k + 1) ci m hci (by rw [Nat.pow_succ]; omega)
        refine ⟨ci', ?_⟩
        rw [h, maskFromSubseq_cons_ne hp, Nat.pow_succ, Nat.mul_assoc, ← List.drop_eq_getElem_cons hlt]

theorem mask_from_subseq_eq (child parent : List α) :
    mask_from_subseq child parent = .ok (maskFromSubseq child parent) := by
  unfold mask_from_subseq
  obtain ⟨ci', h⟩ := mask_loop child parent 0 0 0 (Nat.zero_le _) (by simp)
  simp only [h]
  simp
theorem py_bitLength_zero : Py.bitLength 0 = 0 := rfl

theorem py_bitLength_half {c : Nat} (h : c ≠ 0) : Py.bitLength c = Py.bitLength (c / 2) + 1 := by
  rw [py_bitLength_eq, py_bitLength_eq]
  cases c with
  | zero => exact absurd rfl h
  | succ n => rw [SR.bitLength]; omega

theorem py_bitLength_eq_zero {c : Nat} (h : Py.bitLength c = 0) : c = 0 := by
  apply Classical.byContradiction
  intro hc
  rw [py_bitLength_half hc] at h
  omega

theorem from_loop (parent : List α) : ∀ (fuel c : Nat) (res : List α) (i : Nat), Py.bitLength c ≤ fuel →
    (subseqFromMask c (parent.drop i) = none →
      subseq_from_mask.loop1 parent fuel (c, res, i) = .err .IndexError) ∧
    (∀ r, subseqFromMask c (parent.drop i) = some r →
      ∃ c' i', subseq_from_mask.loop1 parent fuel (c, res, i) = .next (c', res ++ r, i')) := by
  intro fuel
  induction fuel with
  | zero =>
    intro c res i h
    have hc : c = 0 := py_bitLength_eq_zero (by omega)
    subst hc
    simp [subseq_from_mask.loop1, subseqFromMask_zero]
  | succ fuel ih =>
    intro c res i h
    by_cases hc : c = 0
    · subst hc
      simp [subseq_from_mask.loop1, subseqFromMask_zero]
    · have hf : Py.bitLength (c / 2) ≤ fuel := by rw [py_bitLength_half hc] at h; omega
      rw [subseq_from_mask.loop1]
      simp only [ne_eq, hc, not_false_eq_true, if_true, Nat.and_one_is_mod,
        Nat.shiftRight_eq_div_pow, Nat.pow_one]
      by_cases hi : i < parent.length
      · have ih1 := ih (c / 2) (res ++ [parent[i]]) (i + 1) hf
        have ih0 := ih (c / 2) res (i + 1) hf
        rw [List.drop_eq_getElem_cons hi, List.getElem?_eq_getElem hi, subseqFromMask_cons]
        by_cases hb : c % 2 = 1
        · have hb' : ¬ c % 2 = 0 := by omega
          simp only [hb, if_true]
          cases hs : subseqFromMask (c / 2) (List.drop (i + 1) parent) with
          | none => simp [ih1.1 hs]
          | some r =>
            obtain ⟨c', i', h'⟩ := ih1.2 r hs
            simp [h']
        · have hb' : c % 2 = 0 := by omega
          simp only [hb', not_true_eq_false, if_false]
          cases hs : subseqFromMask (c / 2) (List.drop (i + 1) parent) with
          | none => simp [ih0.1 hs]
          | some r =>
            obtain ⟨c', i', h'⟩ := ih0.2 r hs
            simp [h']
      · have hnil : List.drop i parent = [] := List.drop_eq_nil_of_le (by omega)
        have hnil' : List.drop (i + 1) parent = [] := List.drop_eq_nil_of_le (by omega)
        have hnone : parent[i]? = none := List.getElem?_eq_none (by omega)
        rw [hnil, hnone, subseqFromMask_nil]
        simp only [hc, if_false, true_implies]
        refine ⟨?_, by intro r hr; cases hr⟩
        by_cases hb : c % 2 = 0
        · have h2 : c / 2 ≠ 0 := by omega
          have := (ih (c / 2) res (i + 1) hf).1 (by rw [hnil', subseqFromMask_nil]; simp [h2])
          simp [hb, this]
        · simp [hb]

theorem subseq_from_mask_eq (child : Nat) (parent : List α) :
    subseq_from_mask child parent = Py.ofOption .IndexError (subseqFromMask child parent) := by
  unfold subseq_from_mask
  have h := from_loop parent (Py.bitLength child) child [] 0 (Nat.le_refl _)
  rw [List.drop_zero] at h
  cases hs : subseqFromMask child parent with
  | none => simp [h.1 hs, Py.ofOption]
  | some r =>
    obtain ⟨c', i', h'⟩ := h.2 r hs
    simp [h', Py.ofOption]

def segOut : Option SegState → Ctl (Nat × Nat × Bool × Int) Int
  | none => .ret (-1)
  | some st => .next (st.child, st.parent, st.inSegm, st.dist)

theorem seg_loop : ∀ (l : List Nat) (c p : Nat) (s : Bool) (d : Int),
    subseq_segment_dist.loop1 l (c, p, s, d)
      = segOut (segLoop l.length { child := c, parent := p, inSegm := s, dist := d }) := by
  intro l
  induction l with
  | nil => intro c p s d; simp [subseq_segment_dist.loop1, segLoop, segOut]
  | cons x l ih =>
    intro c p s d
    rw [subseq_segment_dist.loop1, List.length_cons, segLoop, segStep]
    simp only [Nat.and_one_is_mod, Nat.shiftRight_eq_div_pow, Nat.pow_one]
    have hc : c % 2 = 0 ∨ c % 2 = 1 := by omega
    have hp : p % 2 = 0 ∨ p % 2 = 1 := by omega
    rcases hc with hc | hc <;> rcases hp with hp | hp <;> cases s <;>
      simp [hc, hp, ih, segOut]

theorem subseq_segment_dist_eq (child parent : Nat) (edges : Bool) :
    subseq_segment_dist child parent edges = .ok (subseqSegmentDist child parent edges) := by
  unfold subseq_segment_dist subseqSegmentDist
  simp only [py_bitLength_eq, seg_loop, List.length_range]
  by_cases h : bitLength parent < bitLength child
  · simp [h]
  · simp only [h, if_false]
    cases segLoop (bitLength parent) { child := child, parent := parent, inSegm := !edges, dist := 0 } with
    | none => simp [segOut]
    | some st => cases edges <;> cases hs : st.inSegm <;> simp [segOut, hs]

end SR.SubseqPyProofs
