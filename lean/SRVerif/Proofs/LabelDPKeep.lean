/-
  The table values do not depend on whether decoded solutions are kept
  (`keep`): `dpTable … false` and `dpTable … true` list the same
  (species, label, value) triples in the same order.
-/
import SRVerif.Proofs.LabelDPMain

namespace SR

open Cost Path

section

variable {α Lab : Type} [DecidableEq Lab]

/-- What the recurrence reads from a child cell. -/
def DCell.core (d : DCell Lab) : Path × Lab × Cost := (d.sp, d.lab, d.cost)

theorem offer_congr (A : LabelAlg α Lab) (c : Costs) (S : RTree) (a : α) (s : Path) (lab : Lab) (ca : α)
    (r : Roles (Path × Lab)) {d d' : DCell Lab} (h : d.core = d'.core) :
    offer A c S a s lab ca r d = offer A c S a s lab ca r d' := by
  simp only [DCell.core, Prod.mk.injEq] at h
  obtain ⟨h1, h2, h3⟩ := h
  simp only [offer, h1, h2, h3]

theorem roles_congr (A : LabelAlg α Lab) (c : Costs) (S : RTree) (a : α) (s : Path) (lab : Lab) (ca : α)
    {L L' : List (DCell Lab)} (h : L.map DCell.core = L'.map DCell.core) :
    roles A c S a s lab ca L = roles A c S a s lab ca L' := by
  unfold roles
  generalize (Roles.empty : Roles (Path × Lab)) = r
  induction L generalizing L' r with
  | nil =>
    cases L' with
    | nil => rfl
    | cons _ _ => simp at h
  | cons d L ih =>
    cases L' with
    | nil => simp at h
    | cons d' L' =>
      simp only [List.map_cons, List.cons.injEq] at h
      simp only [List.foldl_cons]
      rw [offer_congr A c S a s lab ca r h.1]
      exact ih h.2 _

theorem entry_core (A : LabelAlg α Lab) (c : Costs) (S : RTree) (a : α) (s : Path) (lab : Lab)
    (la ra : α) {L R L' R' : List (DCell Lab)} (hL : L.map DCell.core = L'.map DCell.core)
    (hR : R.map DCell.core = R'.map DCell.core) :
    (entry A c S false a s lab la ra L R).map DCell.core =
      (entry A c S true a s lab la ra L' R').map DCell.core := by
  have hb : best A c S a s lab la ra L R = best A c S a s lab la ra L' R' := by
    simp only [best, cands, roles_congr A c S a s lab la hL, roles_congr A c S a s lab ra hR]
  cases h1 : entry A c S false a s lab la ra L R with
  | none =>
    have := (entry_eq_none A c S a s lab la ra L R).mp h1
    rw [hb] at this
    rw [(entry_eq_none A c S a s lab la ra L' R').mpr this]
  | some d =>
    obtain ⟨p1, p2, p3, p4, _⟩ := entry_eq_some A c S a s lab la ra L R h1
    cases h2 : entry A c S true a s lab la ra L' R' with
    | none =>
      have := (entry_eq_none A c S a s lab la ra L' R').mp h2
      rw [← hb] at this; exact absurd this p4
    | some d' =>
      obtain ⟨q1, q2, q3, _⟩ := entry_eq_some A c S a s lab la ra L' R' h2
      simp only [Option.map_some, DCell.core, Option.some.injEq, Prod.mk.injEq]
      exact ⟨p1.trans q1.symm, p2.trans q2.symm, by rw [p3, q3, hb]⟩

theorem dpTable_core (A : LabelAlg α Lab) (c : Costs) (S : RTree) (t : ATree α) :
    (dpTable A c S false t).map DCell.core = (dpTable A c S true t).map DCell.core := by
  induction t with
  | leaf a sp => simp [dpTable, DCell.core]
  | node a l r ihl ihr =>
    simp only [dpTable, List.map_flatMap, List.map_filterMap]
    congr 1
    funext s
    congr 1
    funext lab
    exact entry_core A c S a s lab l.data r.data ihl ihr

theorem dpTable_costs (A : LabelAlg α Lab) (c : Costs) (S : RTree) (t : ATree α) :
    (dpTable A c S false t).map (·.cost) = (dpTable A c S true t).map (·.cost) := by
  have := congrArg (List.map (fun p : Path × Lab × Cost => p.2.2)) (dpTable_core A c S t)
  simpa [List.map_map, Function.comp_def, DCell.core] using this

end

end SR
