/-
  C12 ∘ C08, part 1 (name-tree side): clades of a name tree, and what renaming
  the nodes of a tree in pre-order (`setNames`, hence `labelTree` =
  `label_internal`) does to them.

  * `NT.lvs` leaf names below a node, `NT.cn` the nodes in pre-order as
    (clade = leaf names below, name); `NT.names = NT.cn.map (·.2)`.
  * `Relab R t t'`: `t'` is `t` with every name replaced by an `R`-related one
    (same shape, same colours).  `setNames` realises any pointwise-related list
    of names (`setNames_relab`).
  * If `R` keeps given names and the leaves of `t` are named, a relabelling keeps
    every clade (`Relab.cn_aligned`): nodes are matched position by position, the
    clade is the same and the names are `R`-related.
  * `labelTree_relab`: `label_internal` is a relabelling by `LabRel`: a given
    name is untouched, an unnamed node receives `prefix ++ k` for a `k` whose name
    is none of the given names of the tree.
-/
import SRVerif.Proofs.CliTree

namespace SR.Cli

open SR.Ser

/-! ### `Aligned` -/

theorem Aligned.append {α β : Type} {R : α → β → Prop} {a : List α} {a' : List β}
    (h : Aligned R a a') {b : List α} {b' : List β} (h' : Aligned R b b') :
    Aligned R (a ++ b) (a' ++ b') := by
  induction h with
  | nil => exact h'
  | cons hr _ ih => exact Aligned.cons hr ih

theorem Aligned.of_append {α β : Type} {R : α → β → Prop} :
    ∀ {a : List α} {a' : List β} {b : List α} {b' : List β}, a.length = a'.length →
      Aligned R (a ++ b) (a' ++ b') → Aligned R a a' ∧ Aligned R b b'
  | [], [], _, _, _, h => ⟨Aligned.nil, h⟩
  | [], _ :: _, _, _, hl, _ => by simp at hl
  | _ :: _, [], _, _, hl, _ => by simp at hl
  | x :: a, y :: a', b, b', hl, h => by
    cases h with
    | cons hr hrest =>
      have := Aligned.of_append (a := a) (a' := a') (by simpa using hl) hrest
      exact ⟨Aligned.cons hr this.1, this.2⟩

theorem Aligned.map {α β γ δ : Type} {R : α → β → Prop} {S : γ → δ → Prop} (f : α → γ) (g : β → δ)
    (hRS : ∀ x y, R x y → S (f x) (g y)) {l : List α} {l' : List β} (h : Aligned R l l') :
    Aligned S (l.map f) (l'.map g) := by
  induction h with
  | nil => exact Aligned.nil
  | cons hr _ ih => exact Aligned.cons (hRS _ _ hr) ih

theorem Aligned.imp {α β : Type} {R S : α → β → Prop} (hRS : ∀ x y, R x y → S x y)
    {l : List α} {l' : List β} (h : Aligned R l l') : Aligned S l l' := by
  induction h with
  | nil => exact Aligned.nil
  | cons hr _ ih => exact Aligned.cons (hRS _ _ hr) ih

/-- The relation may use membership in the left list. -/
theorem Aligned.imp_mem {α β : Type} {R S : α → β → Prop}
    {l : List α} {l' : List β} (h : Aligned R l l') (hRS : ∀ x ∈ l, ∀ y, R x y → S x y) :
    Aligned S l l' := by
  induction h with
  | nil => exact Aligned.nil
  | cons hr _ ih =>
    exact Aligned.cons (hRS _ List.mem_cons_self _ hr)
      (ih fun x hx y => hRS x (List.mem_cons_of_mem _ hx) y)

theorem Aligned.exists_right {α β : Type} {R : α → β → Prop} {l : List α} {l' : List β}
    (h : Aligned R l l') {x : α} (hx : x ∈ l) : ∃ y ∈ l', R x y := by
  induction h with
  | nil => cases hx
  | cons hr _ ih =>
    rcases List.mem_cons.mp hx with rfl | hx
    · exact ⟨_, List.mem_cons_self, hr⟩
    · obtain ⟨y, hy, h⟩ := ih hx
      exact ⟨y, List.mem_cons_of_mem _ hy, h⟩

theorem Aligned.exists_left {α β : Type} {R : α → β → Prop} {l : List α} {l' : List β}
    (h : Aligned R l l') {y : β} (hy : y ∈ l') : ∃ x ∈ l, R x y := by
  induction h with
  | nil => cases hy
  | cons hr _ ih =>
    rcases List.mem_cons.mp hy with rfl | hy
    · exact ⟨_, List.mem_cons_self, hr⟩
    · obtain ⟨x, hx, h⟩ := ih hy
      exact ⟨x, List.mem_cons_of_mem _ hx, h⟩

theorem Aligned.length_eq {α β : Type} {R : α → β → Prop} {l : List α} {l' : List β}
    (h : Aligned R l l') : l.length = l'.length := by
  induction h with
  | nil => rfl
  | cons _ _ ih => simp [ih]

/-- Two aligned passes compose. -/
theorem Aligned.trans {α β γ : Type} {R : α → β → Prop} {S : β → γ → Prop} {T : α → γ → Prop}
    (hT : ∀ x y z, R x y → S y z → T x z) {l : List α} {l' : List β}
    (h : Aligned R l l') : ∀ {l'' : List γ}, Aligned S l' l'' → Aligned T l l'' := by
  induction h with
  | nil => intro l'' h2; cases h2; exact Aligned.nil
  | cons hr _ ih =>
    intro l'' h2
    cases h2 with
    | cons hs hrest => exact Aligned.cons (hT _ _ _ hr hs) (ih hrest)

/-! ### Clades of a name tree -/

mutual
  /-- The leaf names below a node, left to right (a leaf: its own name). -/
  def lvs : NT → List String
    | .node n _ [] => [n]
    | .node _ _ (k :: ks) => lvsL (k :: ks)
  def lvsL : List NT → List String
    | [] => []
    | k :: ks => lvs k ++ lvsL ks
end

mutual
  /-- The nodes in pre-order as (leaf names below, name). -/
  def cn : NT → List (List String × String)
    | .node n c ks => (lvs (.node n c ks), n) :: cnL ks
  def cnL : List NT → List (List String × String)
    | [] => []
    | k :: ks => cn k ++ cnL ks
end

mutual
  /-- Every node has no child or exactly two. -/
  def isBin : NT → Bool
    | .node _ _ ks => (ks.length == 0 || ks.length == 2) && isBinL ks
  def isBinL : List NT → Bool
    | [] => true
    | k :: ks => isBin k && isBinL ks
end

/-- The names that are given (neither empty nor `NoName`), in pre-order. -/
def given (t : NT) : List String := t.names.filter (fun nm => !isUnnamed nm)

mutual
  theorem names_eq_cn : ∀ t : NT, t.names = (cn t).map (·.2)
    | .node n c ks => by
      have := preL_names ks 0
      simp only [NT.names, NT.pre, cn, List.map_cons] at this ⊢
      rw [this]; rfl
  theorem preL_names : ∀ (ks : List NT) (i : Nat),
      (NT.preL ks i).map (·.2.name) = (cnL ks).map (·.2)
    | [], _ => by simp [NT.preL, cnL]
    | k :: ks, i => by
      have h1 := names_eq_cn k
      have h2 := preL_names ks (i + 1)
      simp only [NT.names] at h1
      simp only [NT.preL, cnL, List.map_append, List.map_map, h2, ← h1]
      rfl
end

theorem names_node (n : String) (c : Option String) (ks : List NT) :
    (NT.node n c ks).names = n :: (cnL ks).map (·.2) := by
  rw [names_eq_cn]; rfl

theorem length_cn (t : NT) : (cn t).length = t.size := by
  rw [← length_names, names_eq_cn, List.length_map]

theorem length_cnL : ∀ ks : List NT, (cnL ks).length = NT.sizeL ks
  | [] => rfl
  | k :: ks => by simp [cnL, NT.sizeL, length_cn, length_cnL ks]

/-! ### Relabelling -/

mutual
  /-- `t'` is `t` with every name replaced by an `R`-related name. -/
  def Relab (R : String → String → Prop) : NT → NT → Prop
    | .node n c ks, .node n' c' ks' => R n n' ∧ c = c' ∧ RelabL R ks ks'
  def RelabL (R : String → String → Prop) : List NT → List NT → Prop
    | [], [] => True
    | k :: ks, k' :: ks' => Relab R k k' ∧ RelabL R ks ks'
    | [], _ :: _ => False
    | _ :: _, [] => False
end

mutual
  theorem Relab.refl {R : String → String → Prop} (hR : ∀ n, R n n) : ∀ t : NT, Relab R t t
    | .node n c ks => by simp only [Relab]; exact ⟨hR n, trivial, RelabL.refl hR ks⟩
  theorem RelabL.refl {R : String → String → Prop} (hR : ∀ n, R n n) : ∀ ks : List NT, RelabL R ks ks
    | [] => by simp [RelabL]
    | k :: ks => by simp only [RelabL]; exact ⟨Relab.refl hR k, RelabL.refl hR ks⟩
end

mutual
  /-- `setNames` installs any list of names: the result is a relabelling by every
      relation that holds position by position. -/
  theorem setNames_relab {R : String → String → Prop} : ∀ (t : NT) (l : List String),
      t.size ≤ l.length → Aligned R t.names (l.take t.size) → Relab R t (setNames t l).1
    | .node n c ks, [], h, _ => by simp [NT.size] at h
    | .node n c ks, x :: r, h, hA => by
      have hs : NT.sizeL ks ≤ r.length := by simp [NT.size] at h; omega
      rw [names_node, NT.size, Nat.add_comm, List.take_succ_cons] at hA
      cases hA with
      | cons hr hrest =>
        simp only [setNames, Relab]
        exact ⟨hr, trivial, setNamesL_relab ks r hs hrest⟩
  theorem setNamesL_relab {R : String → String → Prop} : ∀ (ks : List NT) (l : List String),
      NT.sizeL ks ≤ l.length → Aligned R ((cnL ks).map (·.2)) (l.take (NT.sizeL ks)) →
      RelabL R ks (setNamesL ks l).1
    | [], l, _, _ => by simp [setNamesL, RelabL]
    | k :: ks, l, h, hA => by
      have hk : k.size ≤ l.length := by simp [NT.sizeL] at h; omega
      have h1 := setNames_spec k l hk
      have hl : NT.sizeL ks ≤ (setNames k l).2.length := by
        rw [h1.2]; simp only [NT.sizeL] at h; simp; omega
      rw [cnL, List.map_append, NT.sizeL, List.take_add] at hA
      have hsplit := Aligned.of_append (by
        rw [List.length_map, length_cn, List.length_take]; omega) hA
      simp only [setNamesL, RelabL]
      refine ⟨setNames_relab k l hk (by rw [names_eq_cn]; exact hsplit.1), ?_⟩
      exact setNamesL_relab ks _ hl (by rw [h1.2]; exact hsplit.2)
end

/-- What a relabelling that keeps given names does to a node: same clade, related name. -/
def NodeRel (R : String → String → Prop) (x y : List String × String) : Prop :=
  y.1 = x.1 ∧ R x.2 y.2

mutual
  theorem Relab.lvs_eq {R : String → String → Prop}
      (hR : ∀ n n', R n n' → isUnnamed n = false → n' = n) : ∀ (t t' : NT), Relab R t t' →
      (∀ x ∈ lvs t, isUnnamed x = false) → lvs t' = lvs t
    | .node n c [], .node n' c' [], h, hl => by
      simp only [Relab] at h
      simp only [lvs] at hl ⊢
      rw [hR n n' h.1 (hl n (by simp))]
    | .node n c [], .node n' c' (_ :: _), h, _ => by simp [Relab, RelabL] at h
    | .node n c (_ :: _), .node n' c' [], h, _ => by simp [Relab, RelabL] at h
    | .node n c (k :: ks), .node n' c' (k' :: ks'), h, hl => by
      simp only [Relab] at h
      simp only [lvs] at hl ⊢
      exact RelabL.lvs_eq hR (k :: ks) (k' :: ks') h.2.2 hl
  theorem RelabL.lvs_eq {R : String → String → Prop}
      (hR : ∀ n n', R n n' → isUnnamed n = false → n' = n) : ∀ (ks ks' : List NT), RelabL R ks ks' →
      (∀ x ∈ lvsL ks, isUnnamed x = false) → lvsL ks' = lvsL ks
    | [], [], _, _ => rfl
    | [], _ :: _, h, _ => by simp [RelabL] at h
    | _ :: _, [], h, _ => by simp [RelabL] at h
    | k :: ks, k' :: ks', h, hl => by
      simp only [RelabL] at h
      simp only [lvsL, List.mem_append] at hl ⊢
      rw [Relab.lvs_eq hR k k' h.1 (fun x hx => hl x (Or.inl hx)),
        RelabL.lvs_eq hR ks ks' h.2 (fun x hx => hl x (Or.inr hx))]
end

theorem lvsL_sub_lvs (n : String) (c : Option String) (ks : List NT) (x : String)
    (h : x ∈ lvsL ks) : x ∈ lvs (.node n c ks) := by
  cases ks with
  | nil => simp [lvsL] at h
  | cons k ks => simpa [lvs] using h

mutual
  /-- Nodes are matched position by position (pre-order): same clade, related names. -/
  theorem Relab.cn_aligned {R : String → String → Prop}
      (hR : ∀ n n', R n n' → isUnnamed n = false → n' = n) : ∀ (t t' : NT), Relab R t t' →
      (∀ x ∈ lvs t, isUnnamed x = false) → Aligned (NodeRel R) (cn t) (cn t')
    | .node n c ks, .node n' c' ks', h, hl => by
      have hlv := Relab.lvs_eq hR _ _ h hl
      simp only [Relab] at h
      simp only [cn]
      exact Aligned.cons ⟨hlv, h.1⟩
        (RelabL.cn_aligned hR ks ks' h.2.2 (fun x hx => hl x (lvsL_sub_lvs n c ks x hx)))
  theorem RelabL.cn_aligned {R : String → String → Prop}
      (hR : ∀ n n', R n n' → isUnnamed n = false → n' = n) : ∀ (ks ks' : List NT), RelabL R ks ks' →
      (∀ x ∈ lvsL ks, isUnnamed x = false) → Aligned (NodeRel R) (cnL ks) (cnL ks')
    | [], [], _, _ => Aligned.nil
    | [], _ :: _, h, _ => by simp [RelabL] at h
    | _ :: _, [], h, _ => by simp [RelabL] at h
    | k :: ks, k' :: ks', h, hl => by
      simp only [RelabL] at h
      simp only [lvsL, List.mem_append] at hl
      simp only [cnL]
      exact (Relab.cn_aligned hR k k' h.1 (fun x hx => hl x (Or.inl hx))).append
        (RelabL.cn_aligned hR ks ks' h.2 (fun x hx => hl x (Or.inr hx)))
end

mutual
  theorem Relab.isBin_eq {R : String → String → Prop} : ∀ (t t' : NT), Relab R t t' →
      isBin t' = isBin t
    | .node n c ks, .node n' c' ks', h => by
      simp only [Relab] at h
      simp only [isBin]
      rw [RelabL.isBin_eq ks ks' h.2.2, RelabL.length_eq ks ks' h.2.2]
  theorem RelabL.isBin_eq {R : String → String → Prop} : ∀ (ks ks' : List NT), RelabL R ks ks' →
      isBinL ks' = isBinL ks
    | [], [], _ => rfl
    | [], _ :: _, h => by simp [RelabL] at h
    | _ :: _, [], h => by simp [RelabL] at h
    | k :: ks, k' :: ks', h => by
      simp only [RelabL] at h
      simp only [isBinL]
      rw [Relab.isBin_eq k k' h.1, RelabL.isBin_eq ks ks' h.2]
  theorem RelabL.length_eq {R : String → String → Prop} : ∀ (ks ks' : List NT), RelabL R ks ks' →
      ks'.length = ks.length
    | [], [], _ => rfl
    | [], _ :: _, h => by simp [RelabL] at h
    | _ :: _, [], h => by simp [RelabL] at h
    | k :: ks, k' :: ks', h => by
      simp only [RelabL] at h
      simp [RelabL.length_eq ks ks' h.2]
end

/-- The names, position by position. -/
theorem Relab.names_aligned {R : String → String → Prop}
    (hR : ∀ n n', R n n' → isUnnamed n = false → n' = n) {t t' : NT} (h : Relab R t t')
    (hl : ∀ x ∈ lvs t, isUnnamed x = false) : Aligned R t.names t'.names := by
  rw [names_eq_cn, names_eq_cn]
  exact Aligned.map _ _ (fun _ _ h => h.2) (Relab.cn_aligned hR t t' h hl)

/-! ### Generated names are never unnamed -/

theorem toList_mkName (pfx : String) (k : Nat) :
    (mkName pfx k).toList = pfx.toList ++ Nat.toDigits 10 k := by
  unfold mkName
  rw [String.toList_append]
  congr 1
  exact Nat.toList_repr

/-- `prefix ++ k` is neither empty nor `NoName`, whatever the prefix: it ends with a digit. -/
theorem isUnnamed_mkName' (pfx : String) (k : Nat) : isUnnamed (mkName pfx k) = false := by
  have h1 := mkName_ne_empty pfx k
  have h2 : mkName pfx k ≠ "NoName" := by
    intro h
    have ht := congrArg String.toList h
    rw [toList_mkName] at ht
    have hne : Nat.toDigits 10 k ≠ [] := Nat.toDigits_ne_nil
    have hl : (pfx.toList ++ Nat.toDigits 10 k).getLast? = some 'e' := by rw [ht]; decide
    rw [List.getLast?_append] at hl
    have hm : 'e' ∈ Nat.toDigits 10 k := by
      cases hd : (Nat.toDigits 10 k).getLast? with
      | none => exact absurd (List.getLast?_eq_none_iff.mp hd) hne
      | some x =>
        rw [hd, Option.some_or] at hl
        cases hl
        exact List.mem_of_getLast? hd
    have := Nat.isDigit_of_mem_toDigits (by decide) (by decide) hm
    exact absurd this (by decide)
  simp [isUnnamed, h1, h2]

/-- After the pass no name is empty or `NoName`, whatever the prefix. -/
theorem labelNames_named (pfx : String) (l : List String) :
    ∀ x ∈ labelNames pfx l, isUnnamed x = false := by
  intro x hx
  rw [labelNames_eq] at hx
  rcases mem_of_rel (labelGoI_rel pfx l [] 0) hx with ⟨_, hu⟩ | ⟨k, _, rfl⟩
  · exact hu
  · exact isUnnamed_mkName' pfx k

/-! ### `label_internal` as a relabelling -/

/-- What `label_internal` (prefix `pfx`) does to a name of a tree whose pre-order name list
    is `l`: a given name is untouched; an unnamed node receives `pfx ++ k` for a `k`
    such that this is none of the given names. -/
def LabRel (pfx : String) (l : List String) (nm nm' : String) : Prop :=
  (isUnnamed nm = false → nm' = nm) ∧
  (isUnnamed nm = true → ∃ k, nm' = mkName pfx k ∧ ∀ x ∈ l, isUnnamed x = false → x ≠ mkName pfx k)

theorem aligned_of_trace {pfx : String} {P : Nat → Prop} :
    ∀ {l : List String} {out : List (String × Option Nat)}, Aligned (Rel pfx) l out →
      (∀ k ∈ idxs out, P k) →
      Aligned (fun nm nm' => (isUnnamed nm = false → nm' = nm) ∧
        (isUnnamed nm = true → ∃ k, nm' = mkName pfx k ∧ P k)) l (out.map (·.1)) := by
  intro l out h
  induction h with
  | nil => intro _; exact Aligned.nil
  | @cons nm y l' out' hr _ ih =>
    intro hP
    obtain ⟨a, o⟩ := y
    unfold Rel at hr
    by_cases hu : isUnnamed nm = true
    · simp only [hu, if_true] at hr
      obtain ⟨k, hk⟩ := hr
      cases hk
      refine Aligned.cons ⟨fun h => (by rw [hu] at h; cases h), fun _ => ⟨k, rfl, hP k (by simp)⟩⟩
        (ih fun k' hk' => hP k' (by simp [hk']))
    · simp only [hu] at hr
      cases hr
      have hu' : isUnnamed nm = false := by simpa using hu
      refine Aligned.cons ⟨fun _ => rfl, fun h => (by rw [hu'] at h; cases h)⟩
        (ih fun k' hk' => hP k' (by simpa using hk'))

/-- The pass of `label_internal` over a name list, position by position. -/
theorem labelNames_labRel (pfx : String) (l : List String) :
    Aligned (LabRel pfx l) l (labelNames pfx l) := by
  rw [labelNames_eq]
  refine aligned_of_trace (P := fun k => ∀ x ∈ l, isUnnamed x = false → x ≠ mkName pfx k)
    (labelGoI_rel pfx l [] 0) ?_
  intro k hk
  exact (labelGoI_idx pfx l [] 0 k hk).2.2.1

theorem labRel_keeps (pfx : String) (l : List String) :
    ∀ n n', LabRel pfx l n n' → isUnnamed n = false → n' = n := fun _ _ h => h.1

/-- `label_internal` on a tree is a relabelling by `LabRel`. -/
theorem labelTree_relab (pfx : String) (t : NT) :
    Relab (LabRel pfx t.names) t (labelTree pfx t) := by
  unfold labelTree
  have hlen : (labelNames pfx t.names).length = t.size := by
    rw [labelNames_length, length_names]
  refine setNames_relab t _ (by omega) ?_
  rw [List.take_of_length_le (by omega)]
  exact labelNames_labRel pfx t.names

end SR.Cli
