/-
  C14, anchors — part 1: an invariant of `_compute_branches` that records
  WHERE the keys referenced by a branch live.

  * `OrdOK`: in the branch list of a species, the keys referenced by a
    duplication / transfer branch (`left`, `right` / `left`) are keys of
    branches that occur EARLIER in the same list (so that `_layout_branches`
    finds their `rect`).  Obtained a posteriori: `anchor_nodes.remove(k)`
    succeeded, and anchor nodes are always keys of branches already inserted.
  * `Linked`: the key kept by a loss branch of species `t` (on side `i`) is a
    key of the child species `t ++ [i]` — either the pseudo-gene inserted just
    before in the same chain, or the object node itself, mapped to `t ++ [i]` —
    and similarly for the two children of a speciation branch.

  Everything here is about `processGene … = .ok …` (no validity hypothesis
  except where the geometry of an event is needed: speciation sides).
-/
import SRVerif.Proofs.LayoutPass

namespace SR.Layout

open SR

/-! ### Binary species trees -/

theorem RTree.sub_append (S : RTree) (t q : Path) :
    S.sub (t ++ q) = (S.sub t).bind (fun c => c.sub q) := by
  induction t generalizing S with
  | nil => simp [RTree.sub]
  | cons i t ih =>
    obtain ⟨cs⟩ := S
    simp only [List.cons_append, RTree.sub]
    cases cs[i]? with
    | none => rfl
    | some c => exact ih c

theorem RTree.isBinary_sub : ∀ (t : Path) (S c : RTree), S.isBinary = true → S.sub t = some c →
    c.isBinary = true := by
  intro t
  induction t with
  | nil => intro S c h hs; simp only [RTree.sub, Option.some.injEq] at hs; subst hs; exact h
  | cons i t ih =>
    intro S c h hs
    obtain ⟨cs⟩ := S
    match cs, h, hs with
    | [], _, hs => simp [RTree.sub] at hs
    | [a, b], h, hs =>
      simp only [RTree.isBinary, Bool.and_eq_true] at h
      simp only [RTree.sub] at hs
      match i, hs with
      | 0, hs => exact ih a c h.1 (by simpa using hs)
      | 1, hs => exact ih b c h.2 (by simpa using hs)
      | _ + 2, hs => simp at hs
    | [_], h, _ => simp [RTree.isBinary] at h
    | _ :: _ :: _ :: _, h, _ => simp [RTree.isBinary] at h

/-- In a binary tree, if `t ++ [i]` is a node then `i < 2`, both children of
    `t` are nodes and `t` is not a leaf. -/
theorem RTree.binary_child {S : RTree} (hb : S.isBinary = true) {t : Path} {i : Nat}
    (h : S.isNode (t ++ [i]) = true) :
    (i = 0 ∨ i = 1) ∧ S.isNode (t ++ [0]) = true ∧ S.isNode (t ++ [1]) = true ∧
      (S.sub t).any RTree.isLeaf = false := by
  simp only [RTree.isNode, RTree.sub_append] at h ⊢
  cases hs : S.sub t with
  | none => simp [hs] at h
  | some c =>
    have hc := RTree.isBinary_sub t S c hb hs
    simp only [hs, Option.bind_some] at h ⊢
    obtain ⟨cs⟩ := c
    match cs, hc, h with
    | [], _, h => simp [RTree.sub] at h
    | [a, b], _, h =>
      simp only [RTree.sub] at h ⊢
      refine ⟨?_, by simp, by simp, by simp [RTree.isLeaf, RTree.children]⟩
      match i, h with
      | 0, _ => exact .inl rfl
      | 1, _ => exact .inr rfl
      | _ + 2, h => simp at h
    | [_], hc, _ => simp [RTree.isBinary] at hc
    | _ :: _ :: _ :: _, hc, _ => simp [RTree.isBinary] at hc

/-! ### Order of the keys inside one species -/

/-- What a branch needs from the keys of the branches before it. -/
def Needs (pre : List Key) (b : Branch) : Prop :=
  match b.kind with
  | .dup => ∃ k1 k2, b.left = some k1 ∧ b.right = some k2 ∧ k1 ∈ pre ∧ k2 ∈ pre
  | .hgt => ∃ k1, b.left = some k1 ∧ k1 ∈ pre
  | _ => True

theorem Needs.mono {pre pre' : List Key} {b : Branch} (h : Needs pre b)
    (hsub : ∀ k, k ∈ pre → k ∈ pre') : Needs pre' b := by
  unfold Needs at h ⊢
  split
  · rename_i hk
    simp only [hk] at h
    obtain ⟨k1, k2, h1, h2, h3, h4⟩ := h
    exact ⟨k1, k2, h1, h2, hsub _ h3, hsub _ h4⟩
  · rename_i hk
    simp only [hk] at h
    obtain ⟨k1, h1, h3⟩ := h
    exact ⟨k1, h1, hsub _ h3⟩
  · trivial

/-- Every duplication / transfer branch refers to keys of earlier branches. -/
def OrdOK (l : List Branch) : Prop :=
  ∀ pre b post, l = pre ++ b :: post → Needs (keysOf pre) b

theorem OrdOK.nil : OrdOK [] := by
  intro pre b post h
  simp at h

theorem OrdOK.snoc {l : List Branch} {b : Branch} (h : OrdOK l) (hb : Needs (keysOf l) b) :
    OrdOK (l ++ [b]) := by
  intro pre b' post he
  rcases List.append_eq_append_iff.1 he with ⟨a', rfl, h2⟩ | ⟨c', rfl, h2⟩
  · cases a' with
    | nil =>
      simp only [List.nil_append, List.cons.injEq] at h2
      obtain ⟨rfl, _⟩ := h2
      simpa using hb
    | cons x a' => simp at h2
  · cases c' with
    | nil =>
      simp only [List.nil_append, List.cons.injEq] at h2
      obtain ⟨rfl, _⟩ := h2
      simpa using hb
    | cons x c' =>
      simp only [List.cons_append, List.cons.injEq] at h2
      obtain ⟨rfl, rfl⟩ := h2
      exact h _ _ _ rfl

/-! ### Where the referenced keys live -/

theorem spOfSol_eq (sol : Sol) (p : Path) : spOfSol sol p = (subAt sol p).map Sol.sp := by
  induction p generalizing sol with
  | nil => cases sol <;> rfl
  | cons i p ih =>
    cases sol with
    | leaf s f => rfl
    | node s f l r =>
      simp only [spOfSol, subAt]
      split
      · exact ih l
      · split
        · exact ih r
        · rfl

/-- `k` is the key at the top of the lineage `g` inside species `u`: the object
    node itself (mapped to `u`) or the pseudo-gene of `g` in `u`, which is a
    key of `u`. -/
def TopKey (sol : Sol) (st : LState) (g u : Path) (k : Key) : Prop :=
  (k = .gene g ∧ spOfSol sol g = some u) ∨ (k = .loss g u ∧ k ∈ keysOf (brs st u))

theorem TopKey.lin {sol : Sol} {st : LState} {g u : Path} {k : Key} (h : TopKey sol st g u k) :
    k.lin = g := by
  rcases h with ⟨rfl, _⟩ | ⟨rfl, _⟩ <;> rfl

theorem TopKey.mono {sol : Sol} {st st' : LState} {g u : Path} {k : Key}
    (h : TopKey sol st g u k) (hg : Grow st st') : TopKey sol st' g u k := by
  rcases h with h | ⟨h1, h2⟩
  · exact .inl h
  · exact .inr ⟨h1, hg.mem_keys h2⟩

/-- The links of a loss branch and of a speciation branch of species `t`. -/
def Linked (S : RTree) (sol : Sol) (st : LState) (t : Path) (b : Branch) : Prop :=
  match b.kind with
  | .loss => ∃ g i k, b.key = .loss g t ∧ S.isNode (t ++ [i]) = true ∧
      b.left = (if i = 0 then some k else none) ∧ b.right = (if i = 1 then some k else none) ∧
      TopKey sol st g (t ++ [i]) k
  | .spec => ∃ p c1 c2 k1 k2, b.key = .gene p ∧ b.left = some k1 ∧ b.right = some k2 ∧
      S.isNode (t ++ [0]) = true ∧
      TopKey sol st (p ++ [c1]) (t ++ [0]) k1 ∧ TopKey sol st (p ++ [c2]) (t ++ [1]) k2
  | _ => True

theorem Linked.mono {S : RTree} {sol : Sol} {st st' : LState} {t : Path} {b : Branch}
    (h : Linked S sol st t b) (hg : Grow st st') : Linked S sol st' t b := by
  unfold Linked at h ⊢
  split
  · rename_i hk
    simp only [hk] at h
    obtain ⟨g, i, k, h1, h2, h3, h4, h5⟩ := h
    exact ⟨g, i, k, h1, h2, h3, h4, h5.mono hg⟩
  · rename_i hk
    simp only [hk] at h
    obtain ⟨p, c1, c2, k1, k2, h1, h2, h3, h4, h5, h6⟩ := h
    exact ⟨p, c1, c2, k1, k2, h1, h2, h3, h4, h5.mono hg, h6.mono hg⟩
  · trivial

/-- The invariant. -/
structure J (S : RTree) (sol : Sol) (st : LState) : Prop where
  anc : ∀ t k, k ∈ ancs st t → k ∈ keysOf (brs st t)
  ord : ∀ t, OrdOK (brs st t)
  link : ∀ t b, b ∈ brs st t → Linked S sol st t b

/-! ### One modification of the state of species `s` -/

/-- `st'` is `st` with the branches `nb` appended to species `s`; anchors of
    `s` may have been added (only keys of `nb`) or removed. -/
structure Step (st st' : LState) (s : Path) (nb : List Branch) : Prop where
  keys : skeys st' = skeys st
  brs : ∀ u, brs st' u = if u = s then brs st s ++ nb else brs st u
  ancs : ∀ u k, k ∈ ancs st' u → k ∈ ancs st u ∨ (u = s ∧ k ∈ keysOf nb)

theorem Step.ofModify {st : LState} {s : Path} {x : SpState} (f : SpState → SpState)
    (nb : List Branch) (hx : getSp st s = some x) (hb : (f x).branches = x.branches ++ nb)
    (ha : ∀ k, k ∈ (f x).anchors → k ∈ x.anchors ∨ k ∈ keysOf nb) :
    Step st (modifySp f st s) s nb := by
  refine ⟨skeys_modifySp _ _ _, ?_, ?_⟩
  · intro u
    rw [brs_modifySp]
    by_cases h : u = s
    · subst h; simp [hx, hb, brs_of_getSp hx]
    · simp [h]
  · intro u k hk
    rw [ancs_modifySp] at hk
    by_cases h : u = s
    · subst h
      simp only [if_true, hx] at hk
      rcases ha k hk with h1 | h1
      · left; rw [ancs_of_getSp hx]; exact h1
      · right; exact ⟨rfl, h1⟩
    · simp only [h, if_false] at hk
      exact .inl hk

theorem Step.grow {st st' : LState} {s : Path} {nb : List Branch} (h : Step st st' s nb) :
    Grow st st' := by
  refine ⟨h.keys, ?_⟩
  intro u
  rw [h.brs]
  split
  · rename_i hu; subst hu; exact List.prefix_append _ _
  · exact List.prefix_refl _

theorem J.step {S : RTree} {sol : Sol} {st st' : LState} {s : Path} {nb : List Branch}
    (hJ : J S sol st) (h : Step st st' s nb) (hord : OrdOK (brs st s ++ nb))
    (hlink : ∀ b ∈ nb, Linked S sol st' s b) : J S sol st' := by
  have hg := h.grow
  refine ⟨?_, ?_, ?_⟩
  · intro t k hk
    rcases h.ancs t k hk with h1 | ⟨rfl, h1⟩
    · exact hg.mem_keys (hJ.anc t k h1)
    · rw [h.brs]; simp [h1]
  · intro t
    rw [h.brs]
    split
    · rename_i ht; subst ht; exact hord
    · exact hJ.ord t
  · intro t b hb
    rw [h.brs] at hb
    by_cases ht : t = s
    · subst ht
      simp only [if_true, List.mem_append] at hb
      rcases hb with hb | hb
      · exact (hJ.link t b hb).mono hg
      · exact hlink b hb
    · simp only [ht, if_false] at hb
      exact (hJ.link t b hb).mono hg

/-! ### The loop of `_add_losses` -/

theorem lossBranch_needs (pre : List Key) (g s : Path) (prev : Key) (i : Nat) :
    Needs pre (lossBranch g s prev i) := by
  simp [Needs, lossBranch]

theorem loop_J {S : RTree} {sol : Sol} (g : Path) (e : Option Path) :
    ∀ (rp : List Nat) (st : LState) (prev : Key) (st' : LState) (k : Key),
      addLossesLoop g e rp st prev = .ok (st', k) → J S sol st → S.isNode rp.reverse = true →
      TopKey sol st g rp.reverse prev →
      J S sol st' ∧ Grow st st' ∧ k.lin = g ∧
      (∀ e0 j m, e = some e0 → rp.reverse = e0 ++ j :: m → TopKey sol st' g (e0 ++ [j]) k) := by
  intro rp
  induction rp with
  | nil =>
    intro st prev st' k h hJ _ htop
    simp only [addLossesLoop] at h
    split at h
    · simp only [Except.ok.injEq, Prod.mk.injEq] at h
      obtain ⟨rfl, rfl⟩ := h
      refine ⟨hJ, Grow.refl _, htop.lin, ?_⟩
      intro e0 j m _ hm
      simp at hm
    · cases h
  | cons i rest ih =>
    intro st prev st' k h hJ hnode htop
    simp only [addLossesLoop] at h
    have hrev : (i :: rest).reverse = rest.reverse ++ [i] := by simp
    by_cases he : some rest.reverse = e
    · simp only [he, if_true, Except.ok.injEq, Prod.mk.injEq] at h
      obtain ⟨rfl, rfl⟩ := h
      refine ⟨hJ, Grow.refl _, htop.lin, ?_⟩
      intro e0 j m he0 hm
      rw [he0] at he
      simp only [Option.some.injEq] at he
      subst he
      rw [hrev] at hm htop
      have := List.append_cancel_left hm
      simp only [List.cons.injEq] at this
      obtain ⟨rfl, _⟩ := this
      exact htop
    · simp only [he, if_false] at h
      cases hx : getSp st rest.reverse with
      | none => simp [hx] at h
      | some x =>
        simp only [hx] at h
        have hstep : Step st (modifySp (addLossAt g rest.reverse prev i) st rest.reverse)
            rest.reverse [lossBranch g rest.reverse prev i] := by
          apply Step.ofModify _ _ hx
          · rfl
          · intro k hk
            simp only [addLossAt, mem_setAdd] at hk
            rcases hk with hk | hk
            · exact .inl hk
            · right; simp [keysOf, lossBranch, hk]
        have hg1 := hstep.grow
        have hnode' : S.isNode rest.reverse = true :=
          RTree.isNode_of_prefix _ _ S (by rw [hrev]; exact List.prefix_append _ _) hnode
        have hJ1 : J S sol (modifySp (addLossAt g rest.reverse prev i) st rest.reverse) := by
          apply hJ.step hstep ((hJ.ord _).snoc (lossBranch_needs _ _ _ _ _))
          intro b hb
          simp only [List.mem_singleton] at hb
          subst hb
          show Linked S sol _ rest.reverse (lossBranch g rest.reverse prev i)
          unfold Linked
          simp only [lossBranch]
          refine ⟨g, i, prev, rfl, ?_, rfl, rfl, ?_⟩
          · rw [← hrev]; exact hnode
          · rw [← hrev]; exact htop.mono hg1
        have htop1 : TopKey sol (modifySp (addLossAt g rest.reverse prev i) st rest.reverse) g
            rest.reverse (.loss g rest.reverse) := by
          right
          refine ⟨rfl, ?_⟩
          rw [hstep.brs]
          simp [keysOf, lossBranch]
        obtain ⟨hJ', hg', hlin, hpost⟩ := ih _ _ _ _ h hJ1 hnode' htop1
        refine ⟨hJ', hg1.trans hg', hlin, ?_⟩
        intro e0 j m he0 hm
        rw [hrev] at hm
        rcases List.eq_nil_or_concat m with rfl | ⟨m', x', rfl⟩
        · exfalso
          apply he
          rw [he0]
          have : rest.reverse ++ [i] = e0 ++ [j] := hm
          have := List.append_inj' this rfl
          rw [this.1]
        · have hm' : rest.reverse ++ [i] = (e0 ++ j :: m') ++ [x'] := by
            rw [hm]; simp
          have := List.append_inj' hm' rfl
          exact hpost e0 j m' he0 this.1

end SR.Layout
